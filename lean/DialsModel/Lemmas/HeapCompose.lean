/-
Helper lemmas for C02: the deep copier keeps the heap well-formed, `okV`/`ReachV` are stable under
heap extension that leaves existing cells unchanged, and the fold invariant of `composeH`.
-/
import DialsModel.Model.HeapSpec
import DialsModel.Lemmas.HeapCopy

namespace Dials.Heap

/-! ## kind-preserving heap evolution -/

/-- every cell of `hp` still exists in `hp'` with the same kind (arrays do not shrink) -/
structure Kinded (hp hp' : Heap) : Prop where
  val : ∀ (a : Nat) (v : HV), hp[a]? = some (Cell.val v) → ∃ v', hp'[a]? = some (Cell.val v')
  mapc : ∀ (a : Nat) (es : List (HV × HV)), hp[a]? = some (Cell.mapc es) → ∃ es', hp'[a]? = some (Cell.mapc es')
  arr : ∀ (a : Nat) (es : List HV), hp[a]? = some (Cell.arr es) →
    ∃ es', hp'[a]? = some (Cell.arr es') ∧ es.length ≤ es'.length

theorem Kinded.refl (hp : Heap) : Kinded hp hp :=
  ⟨fun _ v h => ⟨v, h⟩, fun _ es h => ⟨es, h⟩, fun _ es h => ⟨es, h, Nat.le_refl _⟩⟩

theorem Kinded.trans {h1 h2 h3 : Heap} (k1 : Kinded h1 h2) (k2 : Kinded h2 h3) : Kinded h1 h3 := by
  refine ⟨fun a v h => ?_, fun a es h => ?_, fun a es h => ?_⟩
  · obtain ⟨v', hv'⟩ := k1.val a v h; exact k2.val a v' hv'
  · obtain ⟨v', hv'⟩ := k1.mapc a es h; exact k2.mapc a v' hv'
  · obtain ⟨es', hv', hl⟩ := k1.arr a es h
    obtain ⟨es'', hv'', hl'⟩ := k2.arr a es' hv'
    exact ⟨es'', hv'', Nat.le_trans hl hl'⟩

/-- a heap that agrees with `hp` on all of `hp`'s addresses -/
theorem Kinded.of_prefix {hp hp' : Heap} (hag : ∀ a, a < hp.length → hp'[a]? = hp[a]?) : Kinded hp hp' := by
  refine ⟨fun a v h => ⟨v, ?_⟩, fun a es h => ⟨es, ?_⟩, fun a es h => ⟨es, ?_, Nat.le_refl _⟩⟩ <;>
    (rw [hag a (lt_of_getElem? h)]; exact h)

theorem Kinded.append (hp : Heap) (c : Cell) : Kinded hp (hp ++ [c]) :=
  Kinded.of_prefix fun a ha => by simp [List.getElem?_append_left ha]

/-- overwriting a cell by a cell of the same kind -/
theorem Kinded.set_val {hp : Heap} {a : Nat} (v : HV) (hk : ∀ c, hp[a]? = some c → ∃ v0, c = .val v0) :
    Kinded hp (hp.set a (.val v)) := by
  refine ⟨fun b w h => ?_, fun b es h => ?_, fun b es h => ?_⟩
  · by_cases hab : a = b
    · subst hab; exact ⟨v, by simp [List.getElem?_set_self (lt_of_getElem? h)]⟩
    · exact ⟨w, by rw [List.getElem?_set_ne hab]; exact h⟩
  · by_cases hab : a = b
    · subst hab; obtain ⟨v0, hv0⟩ := hk _ h; cases hv0
    · exact ⟨es, by rw [List.getElem?_set_ne hab]; exact h⟩
  · by_cases hab : a = b
    · subst hab; obtain ⟨v0, hv0⟩ := hk _ h; cases hv0
    · exact ⟨es, by rw [List.getElem?_set_ne hab]; exact h, Nat.le_refl _⟩

theorem Kinded.addEntry (hp : Heap) (a : Nat) (k v : HV) : Kinded hp (addEntry hp a k v) := by
  unfold Dials.Heap.addEntry
  split
  · rename_i es he
    refine ⟨fun b w h => ?_, fun b es' h => ?_, fun b es' h => ?_⟩
    · by_cases hab : a = b
      · subst hab; rw [he] at h; cases h
      · exact ⟨w, by rw [List.getElem?_set_ne hab]; exact h⟩
    · by_cases hab : a = b
      · subst hab; exact ⟨es ++ [(k, v)], by rw [List.getElem?_set_self (lt_of_getElem? h)]⟩
      · exact ⟨es', by rw [List.getElem?_set_ne hab]; exact h⟩
    · by_cases hab : a = b
      · subst hab; rw [he] at h; cases h
      · exact ⟨es', by rw [List.getElem?_set_ne hab]; exact h, Nat.le_refl _⟩
  · exact Kinded.refl _

theorem Kinded.setElem (hp : Heap) (a i : Nat) (v : HV) : Kinded hp (setElem hp a i v) := by
  unfold Dials.Heap.setElem
  split
  · rename_i es he
    refine ⟨fun b w h => ?_, fun b es' h => ?_, fun b es' h => ?_⟩
    · by_cases hab : a = b
      · subst hab; rw [he] at h; cases h
      · exact ⟨w, by rw [List.getElem?_set_ne hab]; exact h⟩
    · by_cases hab : a = b
      · subst hab; rw [he] at h; cases h
      · exact ⟨es', by rw [List.getElem?_set_ne hab]; exact h⟩
    · by_cases hab : a = b
      · subst hab
        rw [he] at h; cases h
        exact ⟨es.set i v, by rw [List.getElem?_set_self (lt_of_getElem? he)], by simp⟩
      · exact ⟨es', by rw [List.getElem?_set_ne hab]; exact h, Nat.le_refl _⟩
  · exact Kinded.refl _

mutual
theorem okV_kinded {hp hp' : Heap} (k : Kinded hp hp') : ∀ v, okV hp v = true → okV hp' v = true
  | .sc _, _ => rfl
  | .nil, _ => rfl
  | .ptr a, hk => by
    obtain ⟨v, hv⟩ := okV_ptr hk
    obtain ⟨v', hv'⟩ := k.val a v hv
    simp [okV, hv']
  | .mp a, hk => by
    obtain ⟨v, hv⟩ := okV_mp hk
    obtain ⟨v', hv'⟩ := k.mapc a v hv
    simp [okV, hv']
  | .sl a len, hk => by
    obtain ⟨es, hv⟩ := okV_sl hk
    obtain ⟨es', hv', hl⟩ := k.arr a es hv
    simp only [okV, hv, decide_eq_true_eq] at hk
    simp only [okV, hv', decide_eq_true_eq]
    omega
  | .st fs, hk => by
    simp only [okV] at hk ⊢; exact okFs_kinded k fs hk
  | .ar fs, hk => by
    simp only [okV] at hk ⊢; exact okFs_kinded k fs hk
  | .ifc d, hk => by
    simp only [okV] at hk ⊢; exact okV_kinded k d hk
theorem okFs_kinded {hp hp' : Heap} (k : Kinded hp hp') : ∀ fs, okFs hp fs = true → okFs hp' fs = true
  | .nil, _ => rfl
  | .cons _ v rest, hk => by
    simp only [okFs, Bool.and_eq_true] at hk ⊢
    exact ⟨okV_kinded k v hk.1, okFs_kinded k rest hk.2⟩
end

theorem okCell_kinded {hp hp' : Heap} (k : Kinded hp hp') (c : Cell) (hc : okCell hp c = true) :
    okCell hp' c = true := by
  cases c with
  | val v => simp only [okCell] at hc ⊢; exact okV_kinded k v hc
  | mapc es =>
    simp only [okCell, List.all_eq_true, Bool.and_eq_true] at hc ⊢
    exact fun p hp => ⟨okV_kinded k _ (hc p hp).1, okV_kinded k _ (hc p hp).2⟩
  | arr es =>
    simp only [okCell, List.all_eq_true] at hc ⊢
    exact fun p hp => okV_kinded k _ (hc p hp)

/-! ## the copier preserves kinds -/

theorem run0_kind {s t s' r} (hr : Run0 s t s' r) : Kinded s.heap s'.heap := by
  induction hr with
  | sc | nil | ptrHit | ptrDang | mpHit | mpDang | slDang | fsNil | entsNil | elemsNil => exact Kinded.refl _
  | ptrNew s a v s2 v' hl hv hrun ih =>
    have hp := run0_pres hrun
    refine ((Kinded.append s.heap _).trans ih).trans ?_
    simp only [setCell]
    refine Kinded.set_val v' fun c hc => ?_
    have hk := hp.keep s.heap.length (by simp) (by simp [Task.tgt])
    simp only [List.getElem?_append_right (Nat.le_refl _), Nat.sub_self] at hk
    rw [hk] at hc
    simp only [List.getElem?_cons_zero, Option.some.injEq] at hc
    exact ⟨.nil, hc.symm⟩
  | mpNew s a es s2 es' hl hv _ ih => exact (Kinded.append s.heap _).trans ih
  | slNew s a len es s2 es' hv _ ih => exact (Kinded.append s.heap _).trans ih
  | st _ _ _ _ _ ih => exact ih
  | ar _ _ _ _ _ ih => exact ih
  | ifc _ _ _ _ _ ih => exact ih
  | fsConsE _ _ _ _ _ _ _ _ _ ih1 ih2 => exact ih1.trans ih2
  | fsConsU _ _ _ _ _ _ ih => exact ih
  | entsCons s a' k v rest s1 k' s2 v' s3 rest' _ _ _ ih1 ih2 ih3 =>
    exact ((ih1.trans ih2).trans (Kinded.addEntry _ _ _ _)).trans ih3
  | elemsCons s a' i v rest s1 v' s2 rest' _ _ ih1 ih2 =>
    exact (ih1.trans (Kinded.setElem _ _ _ _)).trans ih2

/-! ## the copier preserves well-formedness -/

theorem CellsOK.of_kinded {hp hp' : Heap} (hk : Kinded hp hp') (hc : CellsOK hp)
    (hnew : ∀ (a : Nat) (c : Cell), hp'[a]? = some c → hp[a]? = some c ∨ okCell hp' c = true) : CellsOK hp' := by
  intro a c hg
  rcases hnew a c hg with h1 | h1
  · exact okCell_kinded hk c (hc a c h1)
  · exact h1

theorem CellsOK.append {hp : Heap} (hc : CellsOK hp) {c : Cell} (hok : okCell (hp ++ [c]) c = true) :
    CellsOK (hp ++ [c]) := by
  refine CellsOK.of_kinded (Kinded.append hp c) hc fun a c' hg => ?_
  rcases Nat.lt_or_ge a hp.length with hlt | hge
  · rw [List.getElem?_append_left hlt] at hg; exact .inl hg
  · rw [List.getElem?_append_right hge] at hg
    cases hh : a - hp.length with
    | zero => rw [hh] at hg; simp at hg; subst hg; exact .inr hok
    | succ n => rw [hh] at hg; simp at hg

theorem CellsOK.set {hp : Heap} (hc : CellsOK hp) {a : Nat} {c : Cell} (hk : Kinded hp (hp.set a c))
    (hok : okCell (hp.set a c) c = true) : CellsOK (hp.set a c) := by
  refine CellsOK.of_kinded hk hc fun b c' hg => ?_
  rw [List.getElem?_set] at hg
  split at hg
  · split at hg
    · cases hg; exact .inr hok
    · cases hg
  · exact .inl hg

theorem CellsOK.addEntry {hp : Heap} (hc : CellsOK hp) (a : Nat) {k v : HV} (hk : okV hp k = true)
    (hv : okV hp v = true) : CellsOK (addEntry hp a k v) := by
  have hkd := Kinded.addEntry hp a k v
  unfold Dials.Heap.addEntry at hkd ⊢
  split at hkd
  · rename_i es he
    refine hc.set hkd ?_
    simp only [okCell, List.all_eq_true, Bool.and_eq_true]
    intro p hp'
    rcases List.mem_append.mp hp' with h1 | h1
    · exact ⟨okV_kinded hkd _ (hc.mapc he p h1).1, okV_kinded hkd _ (hc.mapc he p h1).2⟩
    · simp at h1; subst h1; exact ⟨okV_kinded hkd _ hk, okV_kinded hkd _ hv⟩
  · exact hc

theorem CellsOK.setElem {hp : Heap} (hc : CellsOK hp) (a i : Nat) {v : HV} (hv : okV hp v = true) :
    CellsOK (setElem hp a i v) := by
  have hkd := Kinded.setElem hp a i v
  unfold Dials.Heap.setElem at hkd ⊢
  split at hkd
  · rename_i es he
    refine hc.set hkd ?_
    simp only [okCell, List.all_eq_true]
    intro w hw
    rcases List.mem_or_eq_of_mem_set hw with h1 | h1
    · exact okV_kinded hkd _ (hc.arr he w h1)
    · subst h1; exact okV_kinded hkd _ hv
  · exact hc

/-- well-formedness of a copier state: the heap is closed, the memos point at cells of the right kind -/
structure WInv (s : CS) : Prop where
  cells : CellsOK s.heap
  pm : ∀ a a', lookup s.pmemo a = some a' → ∃ v, s.heap[a']? = some (Cell.val v)
  mm : ∀ a a', lookup s.mmemo a = some a' → ∃ es, s.heap[a']? = some (Cell.mapc es)

/-- the task is well-formed in the *current* heap -/
def okTaskC (hp : Heap) : Task → Prop
  | .v v => okV hp v = true
  | .fs fs => okFs hp fs = true
  | .ents _ es => ∀ p ∈ es, okV hp p.1 = true ∧ okV hp p.2 = true
  | .elems _ _ es => ∀ v ∈ es, okV hp v = true

def okRes (hp : Heap) : Res → Prop
  | .v v => okV hp v = true
  | .fs fs => okFs hp fs = true
  | .ents es => ∀ p ∈ es, okV hp p.1 = true ∧ okV hp p.2 = true
  | .elems es => ∀ v ∈ es, okV hp v = true

theorem WInv.of_kinded {s s' : CS} (hi : WInv s) (hk : Kinded s.heap s'.heap) (hc : CellsOK s'.heap)
    (hpm : s'.pmemo = s.pmemo) (hmm : s'.mmemo = s.mmemo) : WInv s' := by
  refine ⟨hc, fun a a' hl => ?_, fun a a' hl => ?_⟩
  · rw [hpm] at hl; obtain ⟨v, hv⟩ := hi.pm a a' hl; exact hk.val _ _ hv
  · rw [hmm] at hl; obtain ⟨v, hv⟩ := hi.mm a a' hl; exact hk.mapc _ _ hv

theorem getElem?_append_self {α} (l : List α) (c : α) : (l ++ [c])[l.length]? = some c := by
  simp

theorem run0_ok {s t s' r} (hr : Run0 s t s' r) : WInv s → okTaskC s.heap t → WInv s' ∧ okRes s'.heap r := by
  induction hr with
  | sc s n => intro hi _; exact ⟨hi, rfl⟩
  | nil s => intro hi _; exact ⟨hi, rfl⟩
  | ptrHit s a a' hl =>
    intro hi _
    obtain ⟨v, hv⟩ := hi.pm a a' hl
    exact ⟨hi, by simp [okRes, okV, hv]⟩
  | ptrNew s a v s2 v' hl hv hrun ih =>
    intro hi _
    have hka := Kinded.append s.heap (.val .nil)
    have hi1 : WInv { s with heap := s.heap ++ [.val .nil], pmemo := (a, s.heap.length) :: s.pmemo } := by
      refine ⟨hi.cells.append (by simp [okCell, okV]), fun b b' hb => ?_, fun b b' hb => ?_⟩
      · simp only [lookup_cons] at hb
        split at hb
        · cases hb; exact ⟨.nil, getElem?_append_self _ _⟩
        · obtain ⟨w, hw⟩ := hi.pm b b' hb; exact hka.val _ _ hw
      · obtain ⟨w, hw⟩ := hi.mm b b' hb; exact hka.mapc _ _ hw
    obtain ⟨hi2, hv'⟩ := ih hi1 (okV_kinded hka v (hi.cells.val hv))
    have hp := run0_pres hrun
    have hlen : s.heap.length < s2.heap.length := by
      have := hp.len; simp only [List.length_append, List.length_singleton] at this; omega
    have hk3 : Kinded s2.heap (setCell s2.heap s.heap.length (.val v')) := by
      simp only [setCell]
      refine Kinded.set_val v' fun c hc => ?_
      have hk := hp.keep s.heap.length (by simp) (by simp [Task.tgt])
      simp only [List.getElem?_append_right (Nat.le_refl _), Nat.sub_self] at hk
      rw [hk] at hc
      simp only [List.getElem?_cons_zero, Option.some.injEq] at hc
      exact ⟨.nil, hc.symm⟩
    have hc3 : CellsOK (setCell s2.heap s.heap.length (.val v')) := by
      simp only [setCell] at hk3 ⊢
      exact hi2.cells.set hk3 (by simp only [okCell]; exact okV_kinded hk3 v' hv')
    refine ⟨hi2.of_kinded hk3 hc3 rfl rfl, ?_⟩
    simp only [okRes, okV, setCell_eq _ _ hlen]
  | ptrDang s a hl hv => intro hi hk; exact ⟨hi, hk⟩
  | mpHit s a a' hl =>
    intro hi _
    obtain ⟨v, hv⟩ := hi.mm a a' hl
    exact ⟨hi, by simp [okRes, okV, hv]⟩
  | mpNew s a es s2 es' hl hv hrun ih =>
    intro hi _
    have hka := Kinded.append s.heap (.mapc [])
    have hi1 : WInv { s with heap := s.heap ++ [.mapc []], mmemo := (a, s.heap.length) :: s.mmemo } := by
      refine ⟨hi.cells.append (by simp [okCell]), fun b b' hb => ?_, fun b b' hb => ?_⟩
      · obtain ⟨w, hw⟩ := hi.pm b b' hb; exact hka.val _ _ hw
      · simp only [lookup_cons] at hb
        split at hb
        · cases hb; exact ⟨[], getElem?_append_self _ _⟩
        · obtain ⟨w, hw⟩ := hi.mm b b' hb; exact hka.mapc _ _ hw
    obtain ⟨hi2, _⟩ := ih hi1 (fun p hp => ⟨okV_kinded hka _ (hi.cells.mapc hv p hp).1,
      okV_kinded hka _ (hi.cells.mapc hv p hp).2⟩)
    obtain ⟨es2, he2⟩ := (run0_kind hrun).mapc s.heap.length [] (getElem?_append_self _ _)
    exact ⟨hi2, by simp [okRes, okV, he2]⟩
  | mpDang s a hl hv => intro hi hk; exact ⟨hi, hk⟩
  | slNew s a len es s2 es' hv hrun ih =>
    intro hi hk
    have hka := Kinded.append s.heap (.arr (es.map fun _ => .nil))
    have hi1 : WInv { s with heap := s.heap ++ [.arr (es.map fun _ => .nil)] } := by
      refine hi.of_kinded hka (hi.cells.append ?_) rfl rfl
      simp [okCell, okV]
    obtain ⟨hi2, _⟩ := ih hi1 (fun p hp => okV_kinded hka _ (hi.cells.arr hv p hp))
    obtain ⟨es2, he2, hl2⟩ := (run0_kind hrun).arr s.heap.length _ (getElem?_append_self _ _)
    refine ⟨hi2, ?_⟩
    simp only [okTaskC, okV, hv, decide_eq_true_eq] at hk
    simp only [List.length_map] at hl2
    simp only [okRes, okV, he2, decide_eq_true_eq]
    omega
  | slDang s a len hv => intro hi hk; exact ⟨hi, hk⟩
  | st _ _ _ _ _ ih => intro hi hk; simpa [okRes, okV] using ih hi (by simpa [okTaskC, okV] using hk)
  | ar _ _ _ _ _ ih => intro hi hk; simpa [okRes, okV] using ih hi (by simpa [okTaskC, okV] using hk)
  | ifc _ _ _ _ _ ih => intro hi hk; simpa [okRes, okV] using ih hi (by simpa [okTaskC, okV] using hk)
  | fsNil s => intro hi _; exact ⟨hi, rfl⟩
  | fsConsE s v rest s1 v' s2 rest' h1 h2 ih1 ih2 =>
    intro hi hk
    simp only [okTaskC, okFs, Bool.and_eq_true] at hk
    obtain ⟨hi1, hv1⟩ := ih1 hi hk.1
    obtain ⟨hi2, hv2⟩ := ih2 hi1 (okFs_kinded (run0_kind h1) rest hk.2)
    refine ⟨hi2, ?_⟩
    simp only [okRes, okFs, Bool.and_eq_true]
    exact ⟨okV_kinded (run0_kind h2) v' hv1, hv2⟩
  | fsConsU s v rest s2 rest' h2 ih =>
    intro hi hk
    simp only [okTaskC, okFs, Bool.and_eq_true] at hk
    obtain ⟨hi2, hv2⟩ := ih hi hk.2
    refine ⟨hi2, ?_⟩
    simp only [okRes, okFs, Bool.and_eq_true]
    exact ⟨okV_kinded (run0_kind h2) v hk.1, hv2⟩
  | entsNil s a' => intro hi _; exact ⟨hi, by simp [okRes]⟩
  | entsCons s a' k v rest s1 k' s2 v' s3 rest' h1 h2 h3 ih1 ih2 ih3 =>
    intro hi hk
    have hkv := hk (k, v) (by simp)
    have k1 := run0_kind h1
    have k2 := run0_kind h2
    have k3 := run0_kind h3
    have kmid := Kinded.addEntry s2.heap a' k' v'
    obtain ⟨hi1, hk1⟩ := ih1 hi hkv.1
    obtain ⟨hi2, hv2⟩ := ih2 hi1 (okV_kinded k1 v hkv.2)
    have hk2 := okV_kinded k2 k' hk1
    have hi2' : WInv { s2 with heap := addEntry s2.heap a' k' v' } :=
      hi2.of_kinded kmid (hi2.cells.addEntry a' hk2 hv2) rfl rfl
    have kall := ((k1.trans k2).trans kmid)
    obtain ⟨hi3, hr3⟩ := ih3 hi2' (fun p hp =>
      ⟨okV_kinded kall _ (hk p (List.mem_cons_of_mem _ hp)).1, okV_kinded kall _ (hk p (List.mem_cons_of_mem _ hp)).2⟩)
    refine ⟨hi3, ?_⟩
    intro p hp
    rcases List.mem_cons.mp hp with rfl | hp
    · exact ⟨okV_kinded (kmid.trans k3) _ hk2, okV_kinded (kmid.trans k3) _ hv2⟩
    · exact hr3 p hp
  | elemsNil s a' i => intro hi _; exact ⟨hi, by simp [okRes]⟩
  | elemsCons s a' i v rest s1 v' s2 rest' h1 h2 ih1 ih2 =>
    intro hi hk
    have k1 := run0_kind h1
    have k2 := run0_kind h2
    have kmid := Kinded.setElem s1.heap a' i v'
    obtain ⟨hi1, hv1⟩ := ih1 hi (hk v (by simp))
    have hi1' : WInv { s1 with heap := setElem s1.heap a' i v' } :=
      hi1.of_kinded kmid (hi1.cells.setElem a' i hv1) rfl rfl
    obtain ⟨hi2, hr2⟩ := ih2 hi1' (fun p hp => okV_kinded (k1.trans kmid) _ (hk p (List.mem_cons_of_mem _ hp)))
    refine ⟨hi2, ?_⟩
    intro p hp
    rcases List.mem_cons.mp hp with rfl | hp
    · exact okV_kinded (kmid.trans k2) _ hv1
    · exact hr2 p hp

theorem CellsOK.to_heapOK {h : Heap} (hc : CellsOK h) : HeapOK h = true := by
  simp only [HeapOK, List.all_eq_true]
  intro c hmem
  obtain ⟨a, ha⟩ := List.mem_iff_getElem?.mp hmem
  exact hc a c ha

theorem CellsOK.of_heapOK {h : Heap} (hh : HeapOK h = true) : CellsOK h := CellsOK.of_all hh

theorem WInv.init {h : Heap} (hc : CellsOK h) : WInv (CS.init h) :=
  ⟨hc, fun a a' hl => by simp [CS.init, lookup_nil] at hl, fun a a' hl => by simp [CS.init, lookup_nil] at hl⟩

/-- a deep copy keeps the heap well-formed and its result is well-formed in the new heap -/
theorem deepCopy_ok {f : Nat} {h h' : Heap} {v v' : HV} (hh : HeapOK h = true) (hv : okV h v = true)
    (hc : deepCopy f h v = some (h', v')) : HeapOK h' = true ∧ okV h' v' = true := by
  obtain ⟨s', hr, rfl⟩ := deepCopy_run0 hc
  obtain ⟨hi, hres⟩ := run0_ok hr (WInv.init (CellsOK.of_heapOK hh)) hv
  exact ⟨hi.cells.to_heapOK, hres⟩

/-! ## reachability in a closed heap -/

/-- in a closed heap, a reachable address designates an existing cell -/
theorem reach_lt {hp : Heap} (hc : CellsOK hp) {v : HV} {a : Nat} (hr : ReachV hp v a) :
    okV hp v = true → a < hp.length := by
  refine ReachV.rec (h := hp) (motive_1 := fun v a _ => okV hp v = true → a < hp.length)
    (motive_2 := fun fs a _ => okFs hp fs = true → a < hp.length) ?_ ?_ ?_ ?_ ?_ ?_ ?_ ?_ ?_ ?_ ?_ ?_ hr
  · intro a hk; obtain ⟨v, hv⟩ := okV_ptr hk; exact lt_of_getElem? hv
  · intro a v b hg _ ih _; exact ih (hc.val hg)
  · intro a hk; obtain ⟨v, hv⟩ := okV_mp hk; exact lt_of_getElem? hv
  · intro a es k v b hg hmem _ ih _; exact ih (hc.mapc hg (k, v) hmem).1
  · intro a es k v b hg hmem _ ih _; exact ih (hc.mapc hg (k, v) hmem).2
  · intro a len hk; obtain ⟨v, hv⟩ := okV_sl hk; exact lt_of_getElem? hv
  · intro a len es v b hg hmem _ ih _; exact ih (hc.arr hg v hmem)
  · intro fs b _ ih hk; exact ih (by simpa [okV] using hk)
  · intro fs b _ ih hk; exact ih (by simpa [okV] using hk)
  · intro d b _ ih hk; exact ih (by simpa [okV] using hk)
  · intro v rest b _ ih hk
    simp only [okFs, Bool.and_eq_true] at hk; exact ih hk.1
  · intro ex v rest b _ ih hk
    simp only [okFs, Bool.and_eq_true] at hk; exact ih hk.2

/-- reachability from a well-formed value does not change when a closed heap is extended -/
theorem reach_prefix {hp hp' : Heap} (hc : CellsOK hp) (hag : ∀ a, a < hp.length → hp'[a]? = hp[a]?)
    {v : HV} {a : Nat} (hr : ReachV hp' v a) : okV hp v = true → ReachV hp v a := by
  refine ReachV.rec (h := hp') (motive_1 := fun v a _ => okV hp v = true → ReachV hp v a)
    (motive_2 := fun fs a _ => okFs hp fs = true → ReachFs hp fs a) ?_ ?_ ?_ ?_ ?_ ?_ ?_ ?_ ?_ ?_ ?_ ?_ hr
  · intro a _; exact .ptrHere a
  · intro a v b hg _ ih hk
    obtain ⟨v0, hv0⟩ := okV_ptr hk
    have hg' : hp[a]? = some (.val v) := by rw [← hag a (lt_of_getElem? hv0)]; exact hg
    exact .ptrIn a v b hg' (ih (hc.val hg'))
  · intro a _; exact .mpHere a
  · intro a es k v b hg hmem _ ih hk
    obtain ⟨v0, hv0⟩ := okV_mp hk
    have hg' : hp[a]? = some (.mapc es) := by rw [← hag a (lt_of_getElem? hv0)]; exact hg
    exact .mpKey a es k v b hg' hmem (ih (hc.mapc hg' (k, v) hmem).1)
  · intro a es k v b hg hmem _ ih hk
    obtain ⟨v0, hv0⟩ := okV_mp hk
    have hg' : hp[a]? = some (.mapc es) := by rw [← hag a (lt_of_getElem? hv0)]; exact hg
    exact .mpVal a es k v b hg' hmem (ih (hc.mapc hg' (k, v) hmem).2)
  · intro a len _; exact .slHere a len
  · intro a len es v b hg hmem _ ih hk
    obtain ⟨v0, hv0⟩ := okV_sl hk
    have hg' : hp[a]? = some (.arr es) := by rw [← hag a (lt_of_getElem? hv0)]; exact hg
    exact .slIn a len es v b hg' hmem (ih (hc.arr hg' v hmem))
  · intro fs b _ ih hk; exact .st fs b (ih (by simpa [okV] using hk))
  · intro fs b _ ih hk; exact .ar fs b (ih (by simpa [okV] using hk))
  · intro d b _ ih hk; exact .ifc d b (ih (by simpa [okV] using hk))
  · intro v rest b _ ih hk
    simp only [okFs, Bool.and_eq_true] at hk; exact .here v rest b (ih hk.1)
  · intro ex v rest b _ ih hk
    simp only [okFs, Bool.and_eq_true] at hk; exact .there ex v rest b (ih hk.2)

/-! ## the fold of `composeH` -/

/-- one iteration of `compose`'s loop (with F8b: the source value is deep-copied first) -/
def composeStep (ov : Heap → HV → HV → Heap × HV) (f : Nat) (acc : Option (Heap × HV)) (v : HV) :
    Option (Heap × HV) :=
  match acc with
  | none => none
  | some (h1, b) =>
    match deepCopy f h1 v with
    | none => none
    | some (h2, v') => some (ov h2 b v')

theorem composeH_eq (ov : Heap → HV → HV → Heap × HV) (f : Nat) (h : Heap) (d : HV) (vs : List HV) :
    composeH ov f h d vs = vs.foldl (composeStep ov f) (deepCopy f h d) := by
  rfl

/-- loop invariant of `compose` relative to the caller's heap `h`: the current heap extends `h`
without touching it, is closed, and the accumulated base is well-formed and reaches only cells
allocated since -/
structure CInv (h hi : Heap) (bi : HV) : Prop where
  len : h.length ≤ hi.length
  frozen : ∀ a, a < h.length → hi[a]? = h[a]?
  ok : HeapOK hi = true
  okb : okV hi bi = true
  fresh : ∀ a, ReachV hi bi a → h.length ≤ a

theorem WF_of {h : Heap} {v : HV} (hh : HeapOK h = true) (hv : okV h v = true) : WF h v = true := by
  simp only [WF, Bool.and_eq_true]; exact ⟨hv, hh⟩

theorem CInv.start {f : Nat} {h h1 : Heap} {d b : HV} (hh : HeapOK h = true) (hd : okV h d = true)
    (hc : deepCopy f h d = some (h1, b)) : CInv h h1 b := by
  obtain ⟨hlen, hfr⟩ := frozen_main hc
  obtain ⟨hok, hokb⟩ := deepCopy_ok hh hd hc
  exact ⟨hlen, hfr, hok, hokb, fresh_main (WF_of hh hd) hc⟩

theorem CInv.step {ov : Heap → HV → HV → Heap × HV} (hov : OverlayLocal ov) {f : Nat} {h hi hj : Heap}
    {bi v v' : HV} (I : CInv h hi bi) (hv : okV h v = true) (hc : deepCopy f hi v = some (hj, v')) :
    CInv h (ov hj bi v').1 (ov hj bi v').2 := by
  have hvi : okV hi v = true := okV_kinded (Kinded.of_prefix I.frozen) v hv
  obtain ⟨hlen, hfr⟩ := frozen_main hc
  obtain ⟨hokj, hokv'⟩ := deepCopy_ok I.ok hvi hc
  have hfv' := fresh_main (WF_of I.ok hvi) hc
  have hokbj : okV hj bi = true := okV_kinded (Kinded.of_prefix hfr) bi I.okb
  have hrb : ∀ a, ReachV hj bi a → h.length ≤ a := fun a ha =>
    I.fresh a (reach_prefix (CellsOK.of_heapOK I.ok) hfr ha I.okb)
  have hrv : ∀ a, ReachV hj v' a → h.length ≤ a := fun a ha => Nat.le_trans I.len (hfv' a ha)
  have hmark : h.length ≤ hj.length := Nat.le_trans I.len hlen
  obtain ⟨hok', hokb'⟩ := hov.wf hj bi v' hokj hokbj hokv'
  refine ⟨Nat.le_trans hmark (hov.grows hj bi v'), fun a ha => ?_, hok', hokb',
    hov.reach hj bi v' h.length hmark hrb hrv⟩
  rw [hov.frame hj bi v' h.length hrb hrv a ha, hfr a (Nat.lt_of_lt_of_le ha I.len), I.frozen a ha]

theorem compose_fold {ov : Heap → HV → HV → Heap × HV} (hov : OverlayLocal ov) (f : Nat) (h : Heap) :
    ∀ (vs : List HV) (acc : Option (Heap × HV)), (∀ v ∈ vs, okV h v = true) →
      (∀ hi bi, acc = some (hi, bi) → CInv h hi bi) →
      ∀ h' r, vs.foldl (composeStep ov f) acc = some (h', r) → CInv h h' r := by
  intro vs
  induction vs with
  | nil => intro acc _ hacc h' r hf; exact hacc h' r hf
  | cons v vs ih =>
    intro acc hvs hacc h' r hf
    simp only [List.foldl_cons] at hf
    refine ih (composeStep ov f acc v) (fun w hw => hvs w (List.mem_cons_of_mem _ hw)) ?_ h' r hf
    intro hi bi hstep
    cases acc with
    | none => simp [composeStep] at hstep
    | some p =>
      obtain ⟨h1, b⟩ := p
      simp only [composeStep] at hstep
      cases hdc : deepCopy f h1 v with
      | none => rw [hdc] at hstep; cases hstep
      | some q =>
        obtain ⟨h2, v'⟩ := q
        rw [hdc] at hstep
        simp only [Option.some.injEq] at hstep
        have := CInv.step hov (hacc h1 b rfl) (hvs v (by simp)) hdc
        rw [hstep] at this
        exact this

/-- the invariant holds of the result of `compose` -/
theorem compose_inv {ov : Heap → HV → HV → Heap × HV} (hov : OverlayLocal ov) {f : Nat} {h : Heap} {d : HV}
    {vs : List HV} (hh : HeapOK h = true) (hd : okV h d = true) (hvs : ∀ v ∈ vs, okV h v = true)
    {h' : Heap} {r : HV} (hc : composeH ov f h d vs = some (h', r)) : CInv h h' r := by
  rw [composeH_eq] at hc
  exact compose_fold hov f h vs (deepCopy f h d) hvs (fun hi bi hs => CInv.start hh hd hs) h' r hc

/-! ## the overlay hypothesis: `simpleOverlay` is NOT local, a flag-respecting merge is -/

theorem simpleOverlay_cx_merge :
    mergeV (.st (.cons true .nil .nil)) (.st (.cons false (.ptr 0) .nil)) = .st (.cons true (.ptr 0) .nil) := by
  simp [mergeV, mergeFs]

/-- `mergeFs` keeps the base's exported flag and ignores the overlay's, so it promotes the content of an
unexported overlay field into an exported position: the `reach` law of `OverlayLocal` fails. -/
theorem simpleOverlay_not_local : ¬ OverlayLocal simpleOverlay := by
  intro hov
  have hb : ∀ a, ReachV [Cell.val .nil] (.st (.cons true .nil .nil)) a → 1 ≤ a := by
    intro a hr
    cases hr with
    | st _ _ hfs =>
      cases hfs with
      | here _ _ _ hv => cases hv
      | there _ _ _ _ ht => cases ht
  have ho : ∀ a, ReachV [Cell.val .nil] (.st (.cons false (.ptr 0) .nil)) a → 1 ≤ a := by
    intro a hr
    cases hr with
    | st _ _ hfs =>
      cases hfs with
      | there _ _ _ _ ht => cases ht
  have := hov.reach [Cell.val .nil] (.st (.cons true .nil .nil)) (.st (.cons false (.ptr 0) .nil)) 1 (by simp) hb ho 0
    (by
      simp only [simpleOverlay, simpleOverlay_cx_merge]
      exact .st _ _ (.here _ _ _ (.ptrHere 0)))
  omega

theorem mergeV_cases (b o : HV) :
    mergeV b o = b ∨ (∃ bs os, b = .st bs ∧ o = .st os ∧ mergeV b o = .st (mergeFs bs os)) ∨ mergeV b o = o := by
  rw [mergeV.eq_def]
  split
  · exact .inl rfl
  · exact .inr (.inl ⟨_, _, rfl, rfl, rfl⟩)
  · exact .inr (.inr rfl)

theorem mergeFs_cases (bs os : HFs) :
    (∃ ex b bs' ex' o os', bs = .cons ex b bs' ∧ os = .cons ex' o os' ∧
      mergeFs bs os = .cons ex (mergeV b o) (mergeFs bs' os')) ∨ mergeFs bs os = bs := by
  rw [mergeFs.eq_def]
  split
  · exact .inl ⟨_, _, _, _, _, _, rfl, rfl, rfl⟩
  · exact .inr rfl

theorem okV_merge_aux (h : Heap) : ∀ n : Nat,
    (∀ b o, sizeOf b < n → okV h b = true → okV h o = true → okV h (mergeV b o) = true) ∧
    (∀ bs os, sizeOf bs < n → okFs h bs = true → okFs h os = true → okFs h (mergeFs bs os) = true) := by
  intro n
  induction n with
  | zero => exact ⟨fun _ _ hn => by omega, fun _ _ hn => by omega⟩
  | succ n ih =>
    refine ⟨fun b o hn hb ho => ?_, fun bs os hn hb ho => ?_⟩
    · rcases mergeV_cases b o with he | ⟨bs, os, rfl, rfl, he⟩ | he
      · rw [he]; exact hb
      · rw [he]
        simp only [okV] at hb ho ⊢
        exact ih.2 bs os (by simp only [HV.st.sizeOf_spec] at hn; omega) hb ho
      · rw [he]; exact ho
    · rcases mergeFs_cases bs os with ⟨ex, b, bs', ex', o, os', rfl, rfl, he⟩ | he
      · rw [he]
        simp only [okFs, Bool.and_eq_true] at hb ho ⊢
        simp only [HFs.cons.sizeOf_spec] at hn
        exact ⟨ih.1 b o (by omega) hb.1 ho.1, ih.2 bs' os' (by omega) hb.2 ho.2⟩
      · rw [he]; exact hb

/-- the `wf` law does hold for `simpleOverlay` -/
theorem okV_mergeV (h : Heap) (b o : HV) (hb : okV h b = true) (ho : okV h o = true) :
    okV h (mergeV b o) = true :=
  (okV_merge_aux h (sizeOf b + 1)).1 b o (Nat.lt_succ_self _) hb ho

/-- three of the four laws of `OverlayLocal` hold for `simpleOverlay` (the fourth, `reach`, fails) -/
theorem simpleOverlay_partial :
    (∀ h b o, h.length ≤ (simpleOverlay h b o).1.length) ∧
    (∀ h b o (mark : Nat), (∀ a, ReachV h b a → mark ≤ a) → (∀ a, ReachV h o a → mark ≤ a) →
      ∀ a, a < mark → (simpleOverlay h b o).1[a]? = h[a]?) ∧
    (∀ h b o, HeapOK h = true → okV h b = true → okV h o = true →
      HeapOK (simpleOverlay h b o).1 = true ∧ okV (simpleOverlay h b o).1 (simpleOverlay h b o).2 = true) :=
  ⟨fun _ _ _ => Nat.le_refl _, fun _ _ _ _ _ _ _ _ => rfl, fun h b o hh hb ho => ⟨hh, okV_mergeV h b o hb ho⟩⟩

/-- the hypothesis `OverlayLocal` is satisfiable (trivially: the overlay that keeps the base) -/
theorem overlayLocal_keepBase : OverlayLocal (fun h b _ => (h, b)) :=
  ⟨fun _ _ _ => Nat.le_refl _, fun _ _ _ _ _ _ _ _ => rfl, fun _ _ _ _ _ hb _ a ha => hb a ha,
    fun _ _ _ hh hb _ => ⟨hh, hb⟩⟩

mutual
/-- `mergeV` repaired: a field is merged only when base and overlay agree on its exported flag -/
def mergeV' : HV → HV → HV
  | b, .nil => b
  | .st bs, .st os => .st (mergeFs' bs os)
  | _, o => o
def mergeFs' : HFs → HFs → HFs
  | .cons ex b bs, .cons ex' o os => .cons ex (if ex = ex' then mergeV' b o else b) (mergeFs' bs os)
  | bs, _ => bs
end

def simpleOverlay' (h : Heap) (b o : HV) : Heap × HV := (h, mergeV' b o)

theorem mergeV'_cases (b o : HV) :
    mergeV' b o = b ∨ (∃ bs os, b = .st bs ∧ o = .st os ∧ mergeV' b o = .st (mergeFs' bs os)) ∨ mergeV' b o = o := by
  rw [mergeV'.eq_def]
  split
  · exact .inl rfl
  · exact .inr (.inl ⟨_, _, rfl, rfl, rfl⟩)
  · exact .inr (.inr rfl)

theorem mergeFs'_cases (bs os : HFs) :
    (∃ ex b bs' ex' o os', bs = .cons ex b bs' ∧ os = .cons ex' o os' ∧
      mergeFs' bs os = .cons ex (if ex = ex' then mergeV' b o else b) (mergeFs' bs' os')) ∨ mergeFs' bs os = bs := by
  rw [mergeFs'.eq_def]
  split
  · exact .inl ⟨_, _, _, _, _, _, rfl, rfl, rfl⟩
  · exact .inr rfl

theorem okV_merge'_aux (h : Heap) : ∀ n : Nat,
    (∀ b o, sizeOf b < n → okV h b = true → okV h o = true → okV h (mergeV' b o) = true) ∧
    (∀ bs os, sizeOf bs < n → okFs h bs = true → okFs h os = true → okFs h (mergeFs' bs os) = true) := by
  intro n
  induction n with
  | zero => exact ⟨fun _ _ hn => by omega, fun _ _ hn => by omega⟩
  | succ n ih =>
    refine ⟨fun b o hn hb ho => ?_, fun bs os hn hb ho => ?_⟩
    · rcases mergeV'_cases b o with he | ⟨bs, os, rfl, rfl, he⟩ | he
      · rw [he]; exact hb
      · rw [he]
        simp only [okV] at hb ho ⊢
        exact ih.2 bs os (by simp only [HV.st.sizeOf_spec] at hn; omega) hb ho
      · rw [he]; exact ho
    · rcases mergeFs'_cases bs os with ⟨ex, b, bs', ex', o, os', rfl, rfl, he⟩ | he
      · rw [he]
        simp only [okFs, Bool.and_eq_true] at hb ho ⊢
        simp only [HFs.cons.sizeOf_spec] at hn
        refine ⟨?_, ih.2 bs' os' (by omega) hb.2 ho.2⟩
        split
        · exact ih.1 b o (by omega) hb.1 ho.1
        · exact hb.1
      · rw [he]; exact hb

theorem okV_mergeV' (h : Heap) (b o : HV) (hb : okV h b = true) (ho : okV h o = true) :
    okV h (mergeV' b o) = true :=
  (okV_merge'_aux h (sizeOf b + 1)).1 b o (Nat.lt_succ_self _) hb ho

theorem reach_merge'_aux (h : Heap) (a : Nat) : ∀ n : Nat,
    (∀ b o, sizeOf b < n → ReachV h (mergeV' b o) a → ReachV h b a ∨ ReachV h o a) ∧
    (∀ bs os, sizeOf bs < n → ReachFs h (mergeFs' bs os) a → ReachFs h bs a ∨ ReachFs h os a) := by
  intro n
  induction n with
  | zero => exact ⟨fun _ _ hn => by omega, fun _ _ hn => by omega⟩
  | succ n ih =>
    refine ⟨fun b o hn hr => ?_, fun bs os hn hr => ?_⟩
    · rcases mergeV'_cases b o with he | ⟨bs, os, rfl, rfl, he⟩ | he
      · rw [he] at hr; exact .inl hr
      · rw [he] at hr
        cases hr with
        | st _ _ hfs =>
          rcases ih.2 bs os (by simp only [HV.st.sizeOf_spec] at hn; omega) hfs with h1 | h1
          · exact .inl (.st _ _ h1)
          · exact .inr (.st _ _ h1)
      · rw [he] at hr; exact .inr hr
    · rcases mergeFs'_cases bs os with ⟨ex, b, bs', ex', o, os', rfl, rfl, he⟩ | he
      · rw [he] at hr
        simp only [HFs.cons.sizeOf_spec] at hn
        cases hr with
        | here _ _ _ hv =>
          cases ex' with
          | false => exact .inl (.here _ _ _ (by simpa using hv))
          | true =>
            simp only [↓reduceIte] at hv
            rcases ih.1 b o (by omega) hv with h1 | h1
            · exact .inl (.here _ _ _ h1)
            · exact .inr (.here _ _ _ h1)
        | there _ _ _ _ ht =>
          rcases ih.2 bs' os' (by omega) ht with h1 | h1
          · exact .inl (.there _ _ _ _ h1)
          · exact .inr (.there _ _ _ _ h1)
      · rw [he] at hr; exact .inl hr

/-- whatever the repaired merge reaches (through exported fields) is reached by the base or by the overlay -/
theorem reach_mergeV' (h : Heap) (b o : HV) (a : Nat) (hr : ReachV h (mergeV' b o) a) :
    ReachV h b a ∨ ReachV h o a :=
  (reach_merge'_aux h a (sizeOf b + 1)).1 b o (Nat.lt_succ_self _) hr

/-- the hypothesis `OverlayLocal` is satisfied by the flag-respecting field-wise merge -/
theorem overlayLocal_simpleOverlay' : OverlayLocal simpleOverlay' :=
  ⟨fun _ _ _ => Nat.le_refl _, fun _ _ _ _ _ _ _ _ => rfl,
    fun h b o _ _ hb ho a ha => by
      rcases reach_mergeV' h b o a ha with h1 | h1
      · exact hb a h1
      · exact ho a h1,
    fun h b o hh hb ho => ⟨hh, okV_mergeV' h b o hb ho⟩⟩

end Dials.Heap
