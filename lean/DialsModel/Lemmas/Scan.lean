/-
Lemmas about the character-level scanner / quote model (Model/Scan.lean): what strconv.Quote prints is scanned
back as ONE string token whose unquoted value is the original string, for every ASCII string.

The per-character facts range over the finite table of the 128 ASCII characters (`decide +kernel` over `Fin 128`
on the one-step functions); the lemmas below lift them to every string and every continuation.
-/
import DialsModel.Model.Scan

namespace Dials.Parse

/-! ### running the two state machines over a fixed prefix -/

/-- the scanner's state after the characters `p` (none: closed or failed inside `p`), with the number of
denoted characters completed -/
def runScan (q : Char) : EscSt → List Char → Option (EscSt × Nat)
  | st, [] => some (st, 0)
  | st, c :: cs =>
    match scanStep q st c with
    | .next st' inc => (runScan q st' cs).map fun r => (r.1, inc + r.2)
    | _ => none

theorem scanStrBody_run (q : Char) (p : List Char) :
    ∀ (st : EscSt) (n : Nat) (st' : EscSt) (k : Nat) (rest : List Char), runScan q st p = some (st', k) →
      scanStrBody q st n (p ++ rest) = (scanStrBody q st' (n + k) rest).map fun r => (p ++ r.1, r.2) := by
  induction p with
  | nil =>
    intro st n st' k rest h
    simp only [runScan, Option.some.injEq, Prod.mk.injEq] at h
    obtain ⟨rfl, rfl⟩ := h
    cases h2 : scanStrBody q st (n + 0) rest <;> simp_all
  | cons c cs ih =>
    intro st n st' k rest h
    simp only [runScan] at h
    cases hs : scanStep q st c with
    | close => simp [hs] at h
    | err => simp [hs] at h
    | next st1 inc =>
      simp only [hs, Option.map_eq_some_iff] at h
      obtain ⟨⟨st2, k2⟩, hr, heq⟩ := h
      simp only [Prod.mk.injEq] at heq
      obtain ⟨rfl, rfl⟩ := heq
      have := ih st1 (n + inc) st2 k2 rest hr
      simp only [List.cons_append, scanStrBody, hs, this, Nat.add_assoc]
      cases scanStrBody q st2 (n + (inc + k2)) rest <;> simp

/-- the unquoter's state after the characters `p` and the bytes it emitted -/
def runUnq (q : Char) : UnqSt → List Char → Option (UnqSt × List Char)
  | st, [] => some (st, [])
  | st, c :: cs =>
    match unqStep q st c with
    | .next st' e => (runUnq q st' cs).map fun r => (r.1, e ++ r.2)
    | .err => none

theorem Unq.app_app (a b : List Char) (u : Unq) : (u.app b).app a = u.app (a ++ b) := by
  cases u <;> simp [Unq.app]

theorem Unq.app_nil (u : Unq) : u.app [] = u := by cases u <;> simp [Unq.app]

theorem unqBody_run (q : Char) (p : List Char) :
    ∀ (st st' : UnqSt) (out : List Char) (c : Char) (rest : List Char), runUnq q st p = some (st', out) →
      unqBody q st (p ++ c :: rest) = (unqBody q st' (c :: rest)).app out := by
  induction p with
  | nil =>
    intro st st' out c rest h
    simp only [runUnq, Option.some.injEq, Prod.mk.injEq] at h
    obtain ⟨rfl, rfl⟩ := h
    simp [Unq.app_nil]
  | cons d ds ih =>
    intro st st' out c rest h
    simp only [runUnq] at h
    cases hs : unqStep q st d with
    | err => simp [hs] at h
    | next st1 e =>
      simp only [hs, Option.map_eq_some_iff] at h
      obtain ⟨⟨st2, o2⟩, hr, heq⟩ := h
      simp only [Prod.mk.injEq] at heq
      obtain ⟨rfl, rfl⟩ := heq
      have := ih st1 st2 o2 c rest hr
      simp [unqBody, hs, this, Unq.app_app]

/-- the same at the end of the body -/
theorem unqBody_run_end (q : Char) (p : List Char) :
    ∀ (st : UnqSt) (out : List Char), runUnq q st p = some (.normal, out) → unqBody q st p = .ok out := by
  induction p with
  | nil =>
    intro st out h
    simp only [runUnq, Option.some.injEq, Prod.mk.injEq] at h
    obtain ⟨rfl, rfl⟩ := h
    simp [unqBody]
  | cons d ds ih =>
    intro st out h
    simp only [runUnq] at h
    cases hs : unqStep q st d with
    | err => simp [hs] at h
    | next st1 e =>
      simp only [hs, Option.map_eq_some_iff] at h
      obtain ⟨⟨st2, o2⟩, hr, heq⟩ := h
      simp only [Prod.mk.injEq] at heq
      obtain ⟨rfl, rfl⟩ := heq
      have := ih st1 o2 hr
      simp [unqBody, hs, this, Unq.app]

/-! ### the finite table: every ASCII character -/

theorem quoteChar_scan_table :
    ∀ k : Fin 128, runScan '"' .normal (quoteChar (Char.ofNat k.val)) = some (.normal, 1) := by
  decide +kernel

theorem quoteChar_unq_table :
    ∀ k : Fin 128, runUnq '"' .normal (quoteChar (Char.ofNat k.val)) = some (.normal, [Char.ofNat k.val]) := by
  decide +kernel

theorem quoteChar_noNUL_table : ∀ k : Fin 128, (quoteChar (Char.ofNat k.val)).contains NUL = false := by
  decide +kernel

theorem ascii_is_table (c : Char) (h : isAscii c = true) : ∃ k : Fin 128, c = Char.ofNat k.val := by
  have h' : c.toNat < 128 := by simpa [isAscii] using h
  exact ⟨⟨c.toNat, h'⟩, by simp [Char.ofNat_toNat]⟩

theorem quoteChar_scan (c : Char) (h : isAscii c = true) : runScan '"' .normal (quoteChar c) = some (.normal, 1) := by
  obtain ⟨k, rfl⟩ := ascii_is_table c h
  exact quoteChar_scan_table k

theorem quoteChar_unq (c : Char) (h : isAscii c = true) : runUnq '"' .normal (quoteChar c) = some (.normal, [c]) := by
  obtain ⟨k, rfl⟩ := ascii_is_table c h
  exact quoteChar_unq_table k

theorem quoteChar_noNUL (c : Char) (h : isAscii c = true) : (quoteChar c).contains NUL = false := by
  obtain ⟨k, rfl⟩ := ascii_is_table c h
  exact quoteChar_noNUL_table k

/-! ### every ASCII string -/

theorem runScan_append (q : Char) (p p2 : List Char) :
    ∀ (st st1 st2 : EscSt) (k1 k2 : Nat), runScan q st p = some (st1, k1) → runScan q st1 p2 = some (st2, k2) →
      runScan q st (p ++ p2) = some (st2, k1 + k2) := by
  induction p with
  | nil =>
    intro st st1 st2 k1 k2 h1 h2
    simp only [runScan, Option.some.injEq, Prod.mk.injEq] at h1
    obtain ⟨rfl, rfl⟩ := h1
    simpa using h2
  | cons c cs ih =>
    intro st st1 st2 k1 k2 h1 h2
    simp only [runScan] at h1
    cases hs : scanStep q st c with
    | close => simp [hs] at h1
    | err => simp [hs] at h1
    | next sx inc =>
      simp only [hs, Option.map_eq_some_iff] at h1
      obtain ⟨⟨sy, ky⟩, hr, heq⟩ := h1
      simp only [Prod.mk.injEq] at heq
      obtain ⟨rfl, rfl⟩ := heq
      have := ih sx sy st2 ky k2 hr h2
      simp [runScan, hs, this, Nat.add_assoc]

theorem runUnq_append (q : Char) (p p2 : List Char) :
    ∀ (st st1 st2 : UnqSt) (o1 o2 : List Char), runUnq q st p = some (st1, o1) → runUnq q st1 p2 = some (st2, o2) →
      runUnq q st (p ++ p2) = some (st2, o1 ++ o2) := by
  induction p with
  | nil =>
    intro st st1 st2 o1 o2 h1 h2
    simp only [runUnq, Option.some.injEq, Prod.mk.injEq] at h1
    obtain ⟨rfl, rfl⟩ := h1
    simpa using h2
  | cons c cs ih =>
    intro st st1 st2 o1 o2 h1 h2
    simp only [runUnq] at h1
    cases hs : unqStep q st c with
    | err => simp [hs] at h1
    | next sx e =>
      simp only [hs, Option.map_eq_some_iff] at h1
      obtain ⟨⟨sy, oy⟩, hr, heq⟩ := h1
      simp only [Prod.mk.injEq] at heq
      obtain ⟨rfl, rfl⟩ := heq
      have := ih sx sy st2 oy o2 hr h2
      simp [runUnq, hs, this]

theorem quoteBody_scan (s : S) (h : s.all isAscii = true) : runScan '"' .normal (quoteBody s) = some (.normal, s.length) := by
  induction s with
  | nil => simp [quoteBody, runScan]
  | cons c cs ih =>
    have hc : isAscii c = true ∧ cs.all isAscii = true := by simpa using h
    have := runScan_append '"' (quoteChar c) (quoteBody cs) _ _ _ _ _ (quoteChar_scan c hc.1) (ih hc.2)
    simpa [quoteBody, Nat.add_comm] using this

theorem quoteBody_unq (s : S) (h : s.all isAscii = true) : runUnq '"' .normal (quoteBody s) = some (.normal, s) := by
  induction s with
  | nil => simp [quoteBody, runUnq]
  | cons c cs ih =>
    have hc : isAscii c = true ∧ cs.all isAscii = true := by simpa using h
    have := runUnq_append '"' (quoteChar c) (quoteBody cs) _ _ _ _ _ (quoteChar_unq c hc.1) (ih hc.2)
    simpa [quoteBody] using this

/-- strconv.Unquote inverts strconv.Quote (body level) -/
theorem unqBody_quoteBody (s : S) (h : s.all isAscii = true) : unqBody '"' .normal (quoteBody s) = .ok s := by
  rw [unqBody_run_end '"' _ _ _ (quoteBody_unq s h)]

/-- the scanner stops at the closing quote strconv.Quote wrote, wherever the literal stands -/
theorem scanStrBody_quoteBody (s : S) (h : s.all isAscii = true) (rest : List Char) :
    scanStrBody '"' .normal 0 (quoteBody s ++ '"' :: rest) = some (quoteBody s, s.length, rest) := by
  rw [scanStrBody_run '"' _ _ _ _ _ _ (quoteBody_scan s h)]
  simp [scanStrBody, scanStep]

theorem quoteBody_noNUL (s : S) (h : s.all isAscii = true) : (quoteBody s).contains NUL = false := by
  induction s with
  | nil => simp [quoteBody]
  | cons c cs ih =>
    have hc : isAscii c = true ∧ cs.all isAscii = true := by simpa using h
    have h1 := quoteChar_noNUL c hc.1
    have h2 := ih hc.2
    simp only [quoteBody, List.flatMap_cons, List.contains_eq_mem, List.mem_append, decide_eq_false_iff_not] at *
    intro hx
    cases hx with
    | inl hx => exact h1 hx
    | inr hx => exact h2 hx

/-! ### whole texts: strings, commas and colons as the flag helpers print them -/

inductive Piece where
  | str (z : S)
  | comma
  | colon
deriving Repr, DecidableEq

def Piece.tok : Piece → Tok
  | .str z => .str (some z)
  | .comma => .comma
  | .colon => .colon

def Piece.text : Piece → List Char
  | .str z => quote z
  | .comma => [',']
  | .colon => [':']

/-- a colon is a token of its own only under splitMap's IsIdentRune -/
def Piece.ok (mapMode : Bool) : Piece → Prop
  | .str z => z.all isAscii = true
  | .comma => True
  | .colon => mapMode = true

def render (ps : List Piece) : List Char := ps.flatMap Piece.text

theorem identRune_quote (m : Bool) : identRune m '"' = false := by cases m <;> decide
theorem identRune_comma (m : Bool) : identRune m ',' = false := by cases m <;> decide
theorem identRune_colon_map : identRune true ':' = false := by decide

theorem quote_noNUL (z : S) (h : z.all isAscii = true) : (quote z).contains NUL = false := by
  have := quoteBody_noNUL z h
  simp only [List.contains_eq_mem, decide_eq_false_iff_not] at this
  simp only [quote, List.contains_eq_mem, List.mem_cons, List.mem_append, decide_eq_false_iff_not]
  intro hx
  rcases hx with hx | hx | hx
  · exact absurd hx (by decide)
  · exact this hx
  · rcases hx with hx | hx
    · exact absurd hx (by decide)
    · simp at hx

theorem piece_noNUL (m : Bool) (p : Piece) (h : p.ok m) : p.text.contains NUL = false := by
  cases p with
  | str z => exact quote_noNUL z h
  | comma => decide
  | colon => decide

theorem render_noNUL (m : Bool) (ps : List Piece) (h : ∀ p ∈ ps, p.ok m) : (render ps).contains NUL = false := by
  induction ps with
  | nil => simp [render]
  | cons p ps ih =>
    have h1 := piece_noNUL m p (h p (by simp))
    have h2 := ih (fun x hx => h x (by simp [hx]))
    simp only [render, List.flatMap_cons, List.contains_eq_mem, List.mem_append, decide_eq_false_iff_not] at *
    intro hx
    cases hx with
    | inl hx => exact h1 hx
    | inr hx => exact h2 hx

theorem take_noNUL (l : List Char) (k : Nat) (h : l.contains NUL = false) : (l.take k).contains NUL = false := by
  simp only [List.contains_eq_mem, decide_eq_false_iff_not] at *
  exact fun hx => h (List.mem_of_mem_take hx)

/-- one printed piece in front of any continuation is scanned as exactly its token -/
theorem scanTok_piece (m : Bool) (p : Piece) (h : p.ok m) (rest : List Char) :
    ∃ c cs, p.text ++ rest = c :: cs ∧ isWs c = false ∧ scanTok m c cs = .tok p.tok rest := by
  cases p with
  | str z =>
    refine ⟨'"', quoteBody z ++ '"' :: rest, by simp [Piece.text, quote], by decide, ?_⟩
    simp [scanTok, identRune_quote, scanStrBody_quoteBody z h, unqBody_quoteBody z h, Piece.tok]
  | comma =>
    refine ⟨',', rest, by simp [Piece.text], by decide, ?_⟩
    simp [scanTok, identRune_comma, Piece.tok]
  | colon =>
    have hm : m = true := h
    subst hm
    refine ⟨':', rest, by simp [Piece.text], by decide, ?_⟩
    simp [scanTok, identRune_colon_map, Piece.tok]

theorem piece_text_length_pos (p : Piece) : 0 < p.text.length := by
  cases p <;> simp [Piece.text, quote]

/-- the text the flag helpers print is scanned as the canonical token stream, with any sufficient fuel -/
theorem scanAllF_render (m : Bool) (ps : List Piece) :
    (∀ p ∈ ps, p.ok m) → ∀ fuel, (render ps).length < fuel →
      scanAllF m fuel (render ps) = some (ps.map Piece.tok ++ [.eof]) := by
  induction ps with
  | nil =>
    intro _ fuel hf
    cases fuel with
    | zero => simp at hf
    | succ f => simp [render, scanAllF, skipWs]
  | cons p ps ih =>
    intro hok fuel hf
    have hp := hok p (by simp)
    have hps : ∀ x ∈ ps, x.ok m := fun x hx => hok x (by simp [hx])
    cases fuel with
    | zero => simp at hf
    | succ f =>
      obtain ⟨c, cs, hcs, hws, htok⟩ := scanTok_piece m p hp (render ps)
      have hr : render (p :: ps) = c :: cs := by simpa [render] using hcs
      have hnn : (c :: cs).contains NUL = false := by rw [← hr]; exact render_noNUL m _ hok
      have hlen : (render ps).length < f := by
        have : (render (p :: ps)).length = p.text.length + (render ps).length := by simp [render]
        have := piece_text_length_pos p
        omega
      rw [hr]
      simp only [scanAllF, skipWs, hws, Bool.false_eq_true, if_false, htok, take_noNUL _ _ hnn, ih hps f hlen]
      simp

theorem scanText_render (m : Bool) (ps : List Piece) (h : ∀ p ∈ ps, p.ok m) :
    scanText m (render ps) = some (ps.map Piece.tok ++ [.eof]) :=
  scanAllF_render m ps h _ (Nat.lt_succ_self _)

/-! ### the printed forms are such texts -/

def slicePieces : List S → List Piece
  | [] => []
  | [x] => [.str x]
  | x :: y :: xs => .str x :: .comma :: slicePieces (y :: xs)

theorem printSlice_render : ∀ zs : List S, printSlice zs = render (slicePieces zs)
  | [] => rfl
  | [x] => by simp [printSlice, slicePieces, render, Piece.text]
  | x :: y :: xs => by
    have := printSlice_render (y :: xs)
    simp [printSlice, slicePieces, render, Piece.text] at this ⊢
    exact this

theorem canonSlice_pieces : ∀ zs : List S, canonSlice zs = (slicePieces zs).map Piece.tok ++ [.eof]
  | [] => rfl
  | [x] => rfl
  | x :: y :: xs => by
    have := canonSlice_pieces (y :: xs)
    simp [canonSlice, slicePieces, Piece.tok] at this ⊢
    exact this

theorem slicePieces_ok (m : Bool) : ∀ zs : List S, (∀ z ∈ zs, z.all isAscii = true) → ∀ p ∈ slicePieces zs, p.ok m
  | [], _, p, hp => by simp [slicePieces] at hp
  | [x], h, p, hp => by
    simp only [slicePieces, List.mem_singleton] at hp
    subst hp
    exact h x (by simp)
  | x :: y :: xs, h, p, hp => by
    simp only [slicePieces, List.mem_cons] at hp
    rcases hp with rfl | rfl | hp
    · exact h x (by simp)
    · trivial
    · exact slicePieces_ok m (y :: xs) (fun z hz => h z (by simp [List.mem_cons] at hz ⊢; right; exact hz)) p hp

def mapPieces : List (S × S) → List Piece
  | [] => []
  | [(k, v)] => [.str k, .colon, .str v]
  | (k, v) :: q :: rest => .str k :: .colon :: .str v :: .comma :: mapPieces (q :: rest)

theorem printMap_render : ∀ kvs : List (S × S), printMap kvs = render (mapPieces kvs)
  | [] => rfl
  | [(k, v)] => by simp [printMap, mapPieces, render, Piece.text]
  | (k, v) :: q :: rest => by
    have := printMap_render (q :: rest)
    simp [printMap, mapPieces, render, Piece.text] at this ⊢
    exact this

theorem canonMap_pieces : ∀ kvs : List (S × S), canonMap kvs = (mapPieces kvs).map Piece.tok ++ [.eof]
  | [] => rfl
  | [(k, v)] => rfl
  | (k, v) :: q :: rest => by
    have := canonMap_pieces (q :: rest)
    simp [canonMap, mapPieces, Piece.tok] at this ⊢
    exact this

theorem mapPieces_ok : ∀ kvs : List (S × S), (∀ p ∈ kvs, p.1.all isAscii = true ∧ p.2.all isAscii = true) →
    ∀ p ∈ mapPieces kvs, p.ok true
  | [], _, p, hp => by simp [mapPieces] at hp
  | [(k, v)], h, p, hp => by
    have hkv := h (k, v) (by simp)
    simp only [mapPieces, List.mem_cons] at hp
    rcases hp with rfl | rfl | rfl | hp
    · exact hkv.1
    · rfl
    · exact hkv.2
    · simp at hp
  | (k, v) :: q :: rest, h, p, hp => by
    have hkv := h (k, v) (by simp)
    simp only [mapPieces, List.mem_cons] at hp
    rcases hp with rfl | rfl | rfl | rfl | hp
    · exact hkv.1
    · rfl
    · exact hkv.2
    · trivial
    · exact mapPieces_ok (q :: rest) (fun z hz => h z (by simp [List.mem_cons] at hz ⊢; right; exact hz)) p hp

end Dials.Parse
