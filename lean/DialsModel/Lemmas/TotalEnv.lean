/-
Helper lemmas for Props/C16 (nothing panics or hangs), part 2: the environment source's chain
(alias → flatten → tag reformat → tag copy → string cast, regenerated from sources/env/env.go as
`Facts.chainEnv`) never reaches a `.panic` of the model on supported field lists (`SupportedCfg`,
`envValue_noPanic`), and every ingredient of `SupportedCfg` is necessary (the `envValue_panics_*`
counterexamples evaluate the model to a panic on a field list that violates just that ingredient; both
remaining ones are artefacts of the untyped `nilv`, not panics of the code).
The two shapes whose panics were repaired in the library (P05: empty `dialsenv` tag; P02: `Elem()` of a
type without element type) now evaluate to errors and lie inside `SupportedCfg` (`envValue_*_is_error`,
`repaired_now_supported`).

Where the model's panics live along the chain (and what excludes each under `SupportedCfg`):
  * env.go: empty `dialsenv` tag                              — an error since the repair of P05 (`envField_noPanic`)
  * transformer.go: `layerMangledVal[off : off+len(out)]`     — counts: each layer's values are as many as its
                                                               outputs (`All2` against the layer's output fields)
  * flatten_mangler.go populateStruct: `vs[inputIndex]`       — the leaf types of flattenStruct (`leafTys`) are
                                                               the ones populate walks (`populate_np`, any fuel)
  * flatten_mangler.go populateStruct: `originalVal.Set(ptr)` — no panic any more since the repair of P02 (a struct held
                                                               by value receives the rebuilt struct itself; the
                                                               model's `populate` follows: `envValue_value_struct_rebuilt`)
  * string_casting_mangler.go: `sf.Type.Elem()`              — an error since the repair of P02 (guard `hasElemTy`):
                                                               a leaf without element type is allowed (`leafTyOk`)
  * string_casting_mangler.go: `.(*string)`                   — the values handed over are *string or nil (`IsEnvVal`)
  * transformer.go maybeRecursivelyUnmangle: v.Elem()/Index   — values have the shape of their types (`LeafV` after
                                                               string cast / tag copy / tag reformat: a slice of
                                                               structs is nil or empty; `Shaped` after flatten:
                                                               every nested struct behind a pointer, `okField` —
                                                               an unset by-value struct is `nilv` in the model)

Proof plan: `unmangleLayer_spec` / `layerBody_spec` reduce one layer of ReverseTranslate to its per-field
body under a pointwise invariant `P` on (output field, value) and deliver a pointwise `Q` on (input field,
result); the five manglers instantiate it (`stringCast_layer`, `passThru_layer` twice, `flatten_layer`,
`alias_layer`), and `alias_fwd` / `flatten_fwd` / `passThru_fwd` carry the type shapes forwards.
No lemma needs a fuel bound: with too little fuel the model answers `.err "fuel"`.
-/
import DialsModel.Lemmas.Total
import DialsModel.Lemmas.Tf
import DialsModel.Lemmas.EnvAlias

namespace Dials.Total
open Dials Dials.Parse Dials.Tf Dials.CaseConv

/-- the environment source's mangler chain as regenerated from the source (F12a) -/
def envChain (fuel : Nat) (toks : TokTable) : List Mangler := chainOf fuel (parseString toks) Facts.chainEnv


theorem envChain_eq (fuel : Nat) (toks : TokTable) : envChain fuel toks =
    [aliasMangler ["dials", "dialsenv"],
     flattenMangler ⟨"dials", .upperCamel, .casePreservingSnake⟩ fuel,
     tagReformatMangler "dials" CaseConv.decodeGoTags .upperSnake,
     tagCopyMangler "dials" "dialsenv",
     stringCastMangler (parseString toks)] := by
  rfl

/-! ### `NoPanic` plumbing -/

theorem noPanic_of_ok {α : Type} {o : Outcome α} {a : α} (h : o = .ok a) : NoPanic o := by
  rw [h]; exact noPanic_ok a

theorem noPanic_of_err {α : Type} {o : Outcome α} {e : String} (h : o = .err e) : NoPanic o := by
  rw [h]; exact noPanic_err e

theorem noPanic_panic {α : Type} {c : String} (h : NoPanic (Outcome.panic c : Outcome α)) : False :=
  h c rfl

/-! ### a pointwise relation between two lists -/

def All2 {α β : Type} (R : α → β → Prop) : List α → List β → Prop
  | [], [] => True
  | a :: as, b :: bs => R a b ∧ All2 R as bs
  | _, _ => False

theorem All2_nil_left {α β : Type} {R : α → β → Prop} {bs : List β} (h : All2 R [] bs) : bs = [] := by
  cases bs with
  | nil => rfl
  | cons b bs => simp [All2] at h

theorem All2_cons_left {α β : Type} {R : α → β → Prop} {a : α} {as : List α} {bs : List β}
    (h : All2 R (a :: as) bs) : ∃ b bs', bs = b :: bs' ∧ R a b ∧ All2 R as bs' := by
  cases bs with
  | nil => simp [All2] at h
  | cons b bs => exact ⟨b, bs, rfl, h.1, h.2⟩

theorem All2_length {α β : Type} {R : α → β → Prop} : ∀ {as : List α} {bs : List β},
    All2 R as bs → as.length = bs.length
  | [], bs, h => by rw [All2_nil_left h]; rfl
  | a :: as, bs, h => by
    obtain ⟨b, bs', rfl, _, h'⟩ := All2_cons_left h
    simp [All2_length h']

theorem All2_append_inv {α β : Type} {R : α → β → Prop} : ∀ {a1 a2 : List α} {bs : List β},
    All2 R (a1 ++ a2) bs → ∃ b1 b2, bs = b1 ++ b2 ∧ All2 R a1 b1 ∧ All2 R a2 b2
  | [], a2, bs, h => ⟨[], bs, rfl, trivial, h⟩
  | a :: a1, a2, bs, h => by
    obtain ⟨b, bs', rfl, hab, h'⟩ := All2_cons_left (by simpa using h)
    obtain ⟨b1, b2, rfl, h1, h2⟩ := All2_append_inv h'
    exact ⟨b :: b1, b2, rfl, ⟨hab, h1⟩, h2⟩

theorem All2_append {α β : Type} {R : α → β → Prop} : ∀ {a1 a2 : List α} {b1 b2 : List β},
    All2 R a1 b1 → All2 R a2 b2 → All2 R (a1 ++ a2) (b1 ++ b2)
  | [], a2, b1, b2, h1, h2 => by rw [All2_nil_left h1]; exact h2
  | a :: a1, a2, b1, b2, h1, h2 => by
    obtain ⟨b, bs', rfl, hab, h'⟩ := All2_cons_left h1
    exact ⟨hab, All2_append h' h2⟩

theorem All2_mono {α β : Type} {R R' : α → β → Prop} : ∀ {as : List α} {bs : List β},
    (∀ a ∈ as, ∀ b, R a b → R' a b) → All2 R as bs → All2 R' as bs
  | [], bs, _, h => by rw [All2_nil_left h]; trivial
  | a :: as, bs, hm, h => by
    obtain ⟨b, bs', rfl, hab, h'⟩ := All2_cons_left h
    exact ⟨hm a (by simp) b hab, All2_mono (fun x hx => hm x (by simp [hx])) h'⟩

theorem All2_map_left {α β γ : Type} {R : γ → β → Prop} (g : α → γ) : ∀ {as : List α} {bs : List β},
    All2 R (as.map g) bs ↔ All2 (fun a b => R (g a) b) as bs
  | [], [] => by simp [All2]
  | [], _ :: _ => by simp [All2]
  | _ :: _, [] => by simp [All2]
  | a :: as, b :: bs => by simp [All2, All2_map_left g (as := as) (bs := bs)]

theorem All2_of_mapM' {α β : Type} {f : α → Outcome β} {R : α → β → Prop} : ∀ {xs : List α} {r : List β},
    mapM' f xs = .ok r → (∀ x ∈ xs, ∀ b, f x = .ok b → R x b) → All2 R xs r
  | [], r, h, _ => by simp [mapM'] at h; subst h; trivial
  | x :: xs, r, h, hr => by
    obtain ⟨b, bs, hb, hbs, rfl⟩ := mapM'_cons_ok h
    exact ⟨hr x (by simp) b hb, All2_of_mapM' hbs (fun y hy => hr y (by simp [hy]))⟩

theorem mapM'_cons_noPanic {α β : Type} {f : α → Outcome β} {x : α} {xs : List α}
    (h1 : NoPanic (f x)) (h2 : NoPanic (mapM' f xs)) : NoPanic (mapM' f (x :: xs)) := by
  intro c hc
  simp only [mapM'] at hc
  split at hc
  · split at hc
    · cases hc
    · cases hc
    · rename_i c' hc'
      exact h2 c' hc'
  · cases hc
  · rename_i c' hc'
    exact h1 c' hc'

/-! ### one layer of `unmangleLayer`, generically -/

/-- the per-field body of `unmangleLayer` -/
def layerBody (fuel : Nat) (m : Mangler) (x : FT × List FT × List Val) : Outcome Val :=
  if x.2.1.length != x.2.2.length then .panic "slice bounds out of range"
  else
    match mapM' (fun (p : FT × Val) => recurseVal fuel m p.1 p.2) (x.2.1.zip x.2.2) with
    | .ok vs =>
      match mapM' (recurseType fuel m) x.2.1 with
      | .ok outs' => m.unmangle x.1.1 x.1.2 (outs'.zip vs)
      | .err c => .err c
      | .panic c => .panic c
    | .err c => .err c
    | .panic c => .panic c

theorem unmangleLayer_succ (fuel : Nat) (m : Mangler) (fs : List FT) (vals : List Val) :
    unmangleLayer (fuel + 1) m fs vals =
      match mapM' (fun (f : FT) => m.mangle f.1 f.2) fs with
      | .err c => .err c
      | .panic c => .panic c
      | .ok outss =>
        mapM' (layerBody fuel m) (fs.zip (outss.zip (splitCounts (outss.map List.length) vals))) := by
  simp only [unmangleLayer]
  rfl

theorem mangleLayer_succ_ok {fuel : Nat} {m : Mangler} {fs fs' : List FT}
    (h : mangleLayer (fuel + 1) m fs = .ok fs') :
    ∃ groups, mapM' (fun (f : FT) =>
      match m.mangle f.1 f.2 with
      | .ok outs => mapM' (recurseType fuel m) outs
      | .err c => .err c
      | .panic c => .panic c) fs = .ok groups ∧ fs' = groups.flatten := by
  simp only [mangleLayer] at h
  split at h
  · rename_i groups hg
    cases h
    exact ⟨groups, hg, rfl⟩
  · cases h
  · cases h

/-- the recursive un-mangling of one field's output values -/
theorem recurseVals_spec (k : Nat) (m : Mangler) (P P' : FT → Val → Prop) :
    ∀ (outs outs' : List FT) (gvals : List Val),
      mapM' (recurseType k m) outs = .ok outs' → All2 P outs' gvals →
      (∀ o o' v, o ∈ outs → recurseType k m o = .ok o' → P o' v →
        NoPanic (recurseVal k m o v) ∧ ∀ w, recurseVal k m o v = .ok w → P' o' w) →
      NoPanic (mapM' (fun (p : FT × Val) => recurseVal k m p.1 p.2) (outs.zip gvals)) ∧
        ∀ vs, mapM' (fun (p : FT × Val) => recurseVal k m p.1 p.2) (outs.zip gvals) = .ok vs → All2 P' outs' vs
  | [], outs', gvals, h, _, _ => by
    simp [mapM'] at h; subst h
    refine ⟨by simp [mapM']; exact noPanic_ok _, ?_⟩
    intro vs hvs
    simp [mapM'] at hvs; subst hvs; trivial
  | o :: outs, outs', gvals, h, hP, hrec => by
    obtain ⟨o', os', ho, hos, rfl⟩ := mapM'_cons_ok h
    obtain ⟨v, gv', rfl, hPv, hP'⟩ := All2_cons_left hP
    obtain ⟨hnp1, hok1⟩ := hrec o o' v (by simp) ho hPv
    obtain ⟨hnp2, hok2⟩ := recurseVals_spec k m P P' outs os' gv' hos hP'
      (fun a a' w ha => hrec a a' w (by simp [ha]))
    simp only [List.zip_cons_cons]
    refine ⟨mapM'_cons_noPanic hnp1 hnp2, ?_⟩
    intro vs hvs
    obtain ⟨w, ws, hw, hws, rfl⟩ := mapM'_cons_ok hvs
    exact ⟨hok1 w hw, hok2 ws hws⟩

theorem layerBody_spec (k : Nat) (m : Mangler) (P P' : FT → Val → Prop) (Qf : Val → Prop)
    (f : FT) (outs outs' : List FT) (gvals : List Val)
    (hrt : mapM' (recurseType k m) outs = .ok outs') (hP : All2 P outs' gvals)
    (hrec : ∀ o o' v, o ∈ outs → recurseType k m o = .ok o' → P o' v →
        NoPanic (recurseVal k m o v) ∧ ∀ w, recurseVal k m o v = .ok w → P' o' w)
    (hun : ∀ vs, All2 P' outs' vs →
        NoPanic (m.unmangle f.1 f.2 (outs'.zip vs)) ∧ ∀ r, m.unmangle f.1 f.2 (outs'.zip vs) = .ok r → Qf r) :
    NoPanic (layerBody k m (f, outs, gvals)) ∧ ∀ r, layerBody k m (f, outs, gvals) = .ok r → Qf r := by
  have hlen : outs.length = gvals.length := by
    rw [← mapM'_length hrt, All2_length hP]
  obtain ⟨hnp, hok⟩ := recurseVals_spec k m P P' outs outs' gvals hrt hP hrec
  simp only [layerBody, hlen, bne_self_eq_false, Bool.false_eq_true, if_false]
  cases hvs : mapM' (fun (p : FT × Val) => recurseVal k m p.1 p.2) (outs.zip gvals) with
  | ok vs =>
    simp only [hrt]
    exact hun vs (hok vs hvs)
  | err c => exact ⟨noPanic_err c, fun r hr => by cases hr⟩
  | panic c => exact absurd hvs (hnp c)

theorem layer_spec (k : Nat) (m : Mangler) (P Q : FT → Val → Prop) :
    ∀ (fs : List FT) (groups : List (List FT)) (vals : List Val),
      mapM' (fun (f : FT) =>
        match m.mangle f.1 f.2 with
        | .ok outs => mapM' (recurseType k m) outs
        | .err c => .err c
        | .panic c => .panic c) fs = .ok groups →
      All2 P groups.flatten vals →
      (∀ f ∈ fs, ∀ outs outs' gvals, m.mangle f.1 f.2 = .ok outs → mapM' (recurseType k m) outs = .ok outs' →
        All2 P outs' gvals →
        NoPanic (layerBody k m (f, outs, gvals)) ∧ ∀ r, layerBody k m (f, outs, gvals) = .ok r → Q f r) →
      ∃ outss, mapM' (fun (f : FT) => m.mangle f.1 f.2) fs = .ok outss ∧
        NoPanic (mapM' (layerBody k m) (fs.zip (outss.zip (splitCounts (outss.map List.length) vals)))) ∧
        ∀ rs, mapM' (layerBody k m) (fs.zip (outss.zip (splitCounts (outss.map List.length) vals))) = .ok rs →
          All2 Q fs rs
  | [], groups, vals, h, _, _ => by
    refine ⟨[], by simp [mapM'], by simp [mapM']; exact noPanic_ok _, ?_⟩
    intro rs hrs
    simp [mapM'] at hrs; subst hrs; trivial
  | f :: fs, groups, vals, h, hP, hbody => by
    obtain ⟨g, gs, hg, hgs, rfl⟩ := mapM'_cons_ok h
    cases hm : m.mangle f.1 f.2 with
    | ok outs =>
      simp only [hm] at hg
      rw [List.flatten_cons] at hP
      obtain ⟨v1, v2, rfl, hP1, hP2⟩ := All2_append_inv hP
      obtain ⟨outss, hmo, hnp, hok⟩ := layer_spec k m P Q fs gs v2 hgs hP2
        (fun f' hf' => hbody f' (by simp [hf']))
      obtain ⟨hnpb, hokb⟩ := hbody f (by simp) outs g v1 hm hg hP1
      have hlen : outs.length = v1.length := by rw [← mapM'_length hg, All2_length hP1]
      refine ⟨outs :: outss, by simp [mapM', hm, hmo], ?_⟩
      simp only [List.map_cons, splitCounts, List.zip_cons_cons, hlen, List.take_left', List.drop_left']
      refine ⟨mapM'_cons_noPanic hnpb hnp, ?_⟩
      intro rs hrs
      obtain ⟨r, rs', hr, hrs', rfl⟩ := mapM'_cons_ok hrs
      exact ⟨hokb r hr, hok rs' hrs'⟩
    | err c => simp [hm] at hg
    | panic c => simp [hm] at hg

theorem unmangleLayer_spec (fuel : Nat) (m : Mangler) (P Q : FT → Val → Prop) (fs fs' : List FT) (vals : List Val)
    (hm : mangleLayer fuel m fs = .ok fs') (hP : All2 P fs' vals)
    (hbody : ∀ k, fuel = k + 1 → ∀ f ∈ fs, ∀ outs outs' gvals, m.mangle f.1 f.2 = .ok outs →
        mapM' (recurseType k m) outs = .ok outs' → All2 P outs' gvals →
        NoPanic (layerBody k m (f, outs, gvals)) ∧ ∀ r, layerBody k m (f, outs, gvals) = .ok r → Q f r) :
    NoPanic (unmangleLayer fuel m fs vals) ∧ ∀ rs, unmangleLayer fuel m fs vals = .ok rs → All2 Q fs rs := by
  cases fuel with
  | zero => simp [mangleLayer] at hm
  | succ k =>
    obtain ⟨groups, hg, rfl⟩ := mangleLayer_succ_ok hm
    obtain ⟨outss, hmo, hnp, hok⟩ := layer_spec k m P Q fs groups vals hg hP (hbody k rfl)
    rw [unmangleLayer_succ, hmo]
    exact ⟨hnp, hok⟩


/-! ### leaf types and leaf values (the layers after flatten) -/

/-- a flattened leaf type that the recursing manglers either skip or (slices of structs) walk
element-wise: anything but a struct, a pointer to a struct or an array of structs.  Since the repair of
P02 the string-cast mangler answers a type without `Elem()` (a scalar, a duration, a text unmarshaler)
with an error, so such leaf types need no exclusion. -/
def leafTyOk : Ty → Bool
  | .ptr e => !e.isStructTy
  | .array _ e => !e.isStructTy
  | .struct _ => false
  | _ => true

/-- the values that reach a leaf of this type: for a slice of structs only nil or the empty slice
(parse.String cannot cast an element to a struct) -/
def LeafV (t : Ty) (v : Val) : Prop :=
  match t with
  | .slice e => e.isStructTy = true → (v = .nilv ∨ v = .list [])
  | _ => True

theorem structish_some_cases {t : Ty} {ifs : Fields} {wrap : Ty → Ty} (h : structish t = some (ifs, wrap)) :
    (t = .struct ifs ∧ wrap = id) ∨ (t = .ptr (.struct ifs) ∧ wrap = Ty.ptr) ∨
    (t = .slice (.struct ifs) ∧ wrap = Ty.slice) ∨ (∃ n, t = .array n (.struct ifs) ∧ wrap = Ty.array n) := by
  unfold structish at h
  split at h
  · simp at h; obtain ⟨rfl, rfl⟩ := h; simp
  · simp at h; obtain ⟨rfl, rfl⟩ := h; simp
  · simp at h; obtain ⟨rfl, rfl⟩ := h; simp
  · simp at h; obtain ⟨rfl, rfl⟩ := h; simp
  · cases h

theorem recurseType_cases {k : Nat} {m : Mangler} {h : Hdr} {t : Ty} {o' : FT}
    (hr : recurseType (k + 1) m (h, t) = .ok o') :
    o' = (h, t) ∨ ∃ ifs wrap r, m.recurse = true ∧ structish t = some (ifs, wrap) ∧
      mangleLayer k m ifs.toList = .ok r ∧ o' = (h, wrap (.struct (Fields.ofList r))) := by
  simp only [recurseType] at hr
  split at hr
  · cases hr; exact Or.inl rfl
  · rename_i hrec
    split at hr
    · cases hr; exact Or.inl rfl
    · rename_i ifs wrap hs
      split at hr
      · rename_i r hml
        cases hr
        exact Or.inr ⟨ifs, wrap, r, by simpa using hrec, hs, hml, rfl⟩
      · cases hr
      · cases hr

theorem recurseType_leaf {k : Nat} {m : Mangler} {h : Hdr} {t : Ty} {o' : FT}
    (hr : recurseType k m (h, t) = .ok o') (hok : leafTyOk t = true) :
    o'.1 = h ∧ leafTyOk o'.2 = true ∧ ∀ v, LeafV o'.2 v ↔ LeafV t v := by
  cases k with
  | zero => simp [recurseType] at hr
  | succ k =>
    rcases recurseType_cases hr with rfl | ⟨ifs, wrap, r, _, hs, _, rfl⟩
    · exact ⟨rfl, hok, fun _ => Iff.rfl⟩
    · rcases structish_some_cases hs with ⟨rfl, rfl⟩ | ⟨rfl, rfl⟩ | ⟨rfl, rfl⟩ | ⟨n, rfl, rfl⟩
      · simp [leafTyOk] at hok
      · simp [leafTyOk, Ty.isStructTy] at hok
      · exact ⟨rfl, rfl, fun v => by simp [LeafV, Ty.isStructTy]⟩
      · simp [leafTyOk, Ty.isStructTy] at hok

theorem recurseVal_leaf (k : Nat) (m : Mangler) (h : Hdr) (t : Ty) (v : Val)
    (hok : leafTyOk t = true) (hv : LeafV t v) :
    NoPanic (recurseVal k m (h, t) v) ∧ ∀ w, recurseVal k m (h, t) v = .ok w → w = v := by
  cases k with
  | zero => simp [recurseVal]; exact noPanic_err _
  | succ k =>
    simp only [recurseVal]
    split
    · exact ⟨noPanic_ok _, fun w hw => by cases hw; rfl⟩
    · split
      · exact ⟨noPanic_ok _, fun w hw => by cases hw; rfl⟩
      · rename_i ifs wrap hs
        rcases structish_some_cases hs with ⟨rfl, rfl⟩ | ⟨rfl, rfl⟩ | ⟨rfl, rfl⟩ | ⟨n, rfl, rfl⟩
        · simp [leafTyOk] at hok
        · simp [leafTyOk, Ty.isStructTy] at hok
        · have hv' : v = .nilv ∨ v = .list [] := by simpa [LeafV, Ty.isStructTy] using hv
          rcases hv' with rfl | rfl
          · exact ⟨noPanic_ok _, fun w hw => by cases hw; rfl⟩
          · simp only [mapM', Outcome.bind]
            exact ⟨noPanic_ok _, fun w hw => by cases hw; rfl⟩
        · simp [leafTyOk, Ty.isStructTy] at hok

/-- a mangler with one output per field, of the field's own type, whose `Unmangle` hands the value through -/
def PassThru (m : Mangler) : Prop :=
  (∀ h t outs, m.mangle h t = .ok outs → ∃ h', outs = [(h', t)]) ∧
  (∀ h t fv rest, m.unmangle h t (fv :: rest) = .ok fv.2)

theorem passThru_tagCopy (src new : String) : PassThru (tagCopyMangler src new) := by
  constructor
  · intro h t outs hm
    simp only [tagCopyMangler] at hm
    repeat' split at hm
    all_goals (cases hm; exact ⟨_, rfl⟩)
  · intro h t fv rest
    simp [tagCopyMangler]

theorem passThru_tagReformat (tag : String) (dec : List Char → Option (List (List Char))) (enc : CaseConv.Scheme) :
    PassThru (tagReformatMangler tag dec enc) := by
  constructor
  · intro h t outs hm
    simp only [tagReformatMangler] at hm
    repeat' split at hm
    all_goals first | (cases hm; exact ⟨_, rfl⟩) | cases hm
  · intro h t fv rest
    simp [tagReformatMangler]

theorem passThru_body (m : Mangler) (hpt : PassThru m) (k : Nat) (f : FT) (hokf : leafTyOk f.2 = true)
    (outs outs' : List FT) (gvals : List Val) (hm : m.mangle f.1 f.2 = .ok outs)
    (hrt : mapM' (recurseType k m) outs = .ok outs') (hP : All2 (fun (o : FT) v => LeafV o.2 v) outs' gvals) :
    NoPanic (layerBody k m (f, outs, gvals)) ∧ ∀ r, layerBody k m (f, outs, gvals) = .ok r → LeafV f.2 r := by
  obtain ⟨h', rfl⟩ := hpt.1 _ _ _ hm
  obtain ⟨o', os', ho', hos', rfl⟩ := mapM'_cons_ok hrt
  simp [mapM'] at hos'; subst hos'
  obtain ⟨_, hok', hiff⟩ := recurseType_leaf ho' hokf
  refine layerBody_spec k m (fun o v => LeafV o.2 v) (fun o v => LeafV o.2 v) (fun r => LeafV f.2 r)
    f _ _ gvals hrt hP ?_ ?_
  · intro o o2 v ho hro hv
    simp only [List.mem_singleton] at ho
    subst ho
    rw [ho'] at hro
    cases hro
    obtain ⟨hnp, hw⟩ := recurseVal_leaf k m h' f.2 v hokf ((hiff v).1 hv)
    exact ⟨hnp, fun w hw' => by rw [hw w hw']; exact hv⟩
  · intro vs hvs
    obtain ⟨w, ws, rfl, hw, hws⟩ := All2_cons_left hvs
    have := All2_nil_left hws; subst this
    simp only [List.zip_cons_cons, List.zip_nil_right, hpt.2]
    exact ⟨noPanic_ok _, fun r hr => by cases hr; exact (hiff w).1 hw⟩

theorem passThru_layer (m : Mangler) (hpt : PassThru m) (fuel : Nat) (fs fs' : List FT) (vals : List Val)
    (hm : mangleLayer fuel m fs = .ok fs') (hok : ∀ f ∈ fs, leafTyOk f.2 = true)
    (hv : All2 (fun (o : FT) v => LeafV o.2 v) fs' vals) :
    NoPanic (unmangleLayer fuel m fs vals) ∧
      ∀ rs, unmangleLayer fuel m fs vals = .ok rs → All2 (fun (f : FT) v => LeafV f.2 v) fs rs :=
  unmangleLayer_spec fuel m _ _ fs fs' vals hm hv
    (fun k _ f hf outs outs' gvals hmo hrt hP => passThru_body m hpt k f (hok f hf) outs outs' gvals hmo hrt hP)

/-- the leaf types stay leaf types across a pass-through layer -/
theorem passThru_fwd (m : Mangler) (hpt : PassThru m) (fuel : Nat) (fs fs' : List FT)
    (hm : mangleLayer fuel m fs = .ok fs') (hok : ∀ f ∈ fs, leafTyOk f.2 = true) :
    ∀ f' ∈ fs', leafTyOk f'.2 = true := by
  cases fuel with
  | zero => simp [mangleLayer] at hm
  | succ k =>
    obtain ⟨groups, hg, rfl⟩ := mangleLayer_succ_ok hm
    intro f' hf'
    obtain ⟨g, hgm, hfg⟩ := List.mem_flatten.1 hf'
    have hall := All2_of_mapM' (R := fun (f : FT) (g : List FT) => ∀ o ∈ g, leafTyOk o.2 = true) hg (by
      intro f hf g hfg
      cases hmo : m.mangle f.1 f.2 with
      | ok outs =>
        simp only [hmo] at hfg
        obtain ⟨h', rfl⟩ := hpt.1 _ _ _ hmo
        obtain ⟨o', os', ho', hos', rfl⟩ := mapM'_cons_ok hfg
        simp [mapM'] at hos'; subst hos'
        intro o ho
        simp only [List.mem_singleton] at ho
        subst ho
        exact (recurseType_leaf ho' (hok f hf)).2.1
      | err c => simp [hmo] at hfg
      | panic c => simp [hmo] at hfg)
    -- every group of the layer satisfies the relation
    have key : ∀ (xs : List FT) (gs : List (List FT)),
        All2 (fun (f : FT) (g : List FT) => ∀ o ∈ g, leafTyOk o.2 = true) xs gs →
        ∀ g ∈ gs, ∀ o ∈ g, leafTyOk o.2 = true := by
      intro xs
      induction xs with
      | nil => intro gs h g hg; rw [All2_nil_left h] at hg; cases hg
      | cons x xs ih =>
        intro gs h g hg
        obtain ⟨g0, gs', rfl, h0, h'⟩ := All2_cons_left h
        rcases List.mem_cons.1 hg with rfl | hg
        · exact h0
        · exact ih gs' h' g hg
    exact key fs groups hall g hgm f' hfg


/-! ### the string-cast layer -/

/-- what the environment source hands to the last mangler: nil or a `*string` -/
def IsEnvVal (v : Val) : Prop := v = .nilv ∨ ∃ s, v = .ptr (.s s)

theorem LeafV_nilv (t : Ty) : LeafV t .nilv := by
  unfold LeafV
  split
  · intro _; exact Or.inl rfl
  · trivial

/-- parse.String cannot cast an element to a struct: only the empty slice comes back -/
theorem parseString_slice_struct (toks : TokTable) (s : String) (ifs : Fields) (v : Val)
    (h : parseString toks s (.slice (.struct ifs)) = .ok v) : v = .list [] := by
  simp only [parseString] at h
  split at h
  · rename_i items _
    simp only [isPlainString, Bool.false_eq_true, if_false] at h
    cases items with
    | nil => simp [mapM'] at h; exact h.symm
    | cons it rest => simp [mapM', parseScalar, Outcome.bind] at h
  · cases h
  · cases h

theorem recurseVal_none (k : Nat) (m : Mangler) (o : FT) (v : Val) (hs : structish o.2 = none) :
    NoPanic (recurseVal k m o v) ∧ ∀ w, recurseVal k m o v = .ok w → w = v := by
  cases k with
  | zero => simp [recurseVal]; exact noPanic_err _
  | succ k =>
    rw [recurseVal_id k m o v (Or.inr hs)]
    exact ⟨noPanic_ok _, fun w hw => by cases hw; rfl⟩

theorem recurseType_none {k : Nat} {m : Mangler} {o o' : FT} (hr : recurseType k m o = .ok o')
    (hs : structish o.2 = none) : o' = o := by
  cases k with
  | zero => simp [recurseType] at hr
  | succ k =>
    rw [recurseType_id k m o (Or.inr hs)] at hr
    cases hr; rfl

theorem stringCast_body (toks : TokTable) (k : Nat) (f : FT) (hokf : leafTyOk f.2 = true)
    (outs outs' : List FT) (gvals : List Val)
    (hm : (stringCastMangler (parseString toks)).mangle f.1 f.2 = .ok outs)
    (hrt : mapM' (recurseType k (stringCastMangler (parseString toks))) outs = .ok outs')
    (hP : All2 (fun (_ : FT) v => IsEnvVal v) outs' gvals) :
    NoPanic (layerBody k (stringCastMangler (parseString toks)) (f, outs, gvals)) ∧
      ∀ r, layerBody k (stringCastMangler (parseString toks)) (f, outs, gvals) = .ok r → LeafV f.2 r := by
  have houts : outs = [(f.1, strPtrTy)] := by
    simp only [stringCastMangler] at hm
    cases hm; rfl
  subst houts
  obtain ⟨o', os', ho', hos', rfl⟩ := mapM'_cons_ok hrt
  simp [mapM'] at hos'; subst hos'
  refine layerBody_spec k _ (fun _ v => IsEnvVal v) (fun _ v => IsEnvVal v) (fun r => LeafV f.2 r)
    f _ _ gvals hrt hP ?_ ?_
  · intro o o2 v ho _ hv
    simp only [List.mem_singleton] at ho
    subst ho
    obtain ⟨hnp, hw⟩ := recurseVal_none k (stringCastMangler (parseString toks)) (f.1, strPtrTy) v rfl
    exact ⟨hnp, fun w hw' => by rw [hw w hw']; exact hv⟩
  · intro vs hvs
    obtain ⟨w, ws, rfl, hw, hws⟩ := All2_cons_left hvs
    have := All2_nil_left hws; subst this
    simp only [List.zip_cons_cons, List.zip_nil_right, stringCastMangler]
    rcases hw with rfl | ⟨str, rfl⟩
    · exact ⟨noPanic_ok _, fun r hr => by cases hr; exact LeafV_nilv _⟩
    · obtain ⟨fh, ft⟩ := f
      cases ft with
      | ptr e =>
        simp only [hasElemTy, Bool.not_true, Bool.false_eq_true, if_false]
        refine ⟨?_, fun r _ => trivial⟩
        split
        · exact noPanic_ok _
        · exact noPanic_err _
        · next c hc => exact absurd hc (parseString_noPanic _ _ _ c)
      | slice e =>
        simp only [hasElemTy, Bool.not_true, Bool.false_eq_true, if_false]
        refine ⟨?_, fun r hr => ?_⟩
        · split
          · exact noPanic_ok _
          · exact noPanic_err _
          · next c hc => exact absurd hc (parseString_noPanic _ _ _ c)
        cases e with
        | struct ifs =>
          intro _
          cases hp : parseString toks str (.slice (.struct ifs)) with
          | ok v =>
            rw [hp] at hr
            simp only [Outcome.ok.injEq] at hr
            subst hr
            exact Or.inr (parseString_slice_struct toks str ifs v hp)
          | err c => rw [hp] at hr; cases hr
          | panic c => rw [hp] at hr; cases hr
        | _ => intro hc; simp [Ty.isStructTy] at hc
      | map a b =>
        simp only [hasElemTy, Bool.not_true, Bool.false_eq_true, if_false]
        refine ⟨?_, fun r _ => trivial⟩
        split
        · exact noPanic_ok _
        · exact noPanic_err _
        · next c hc => exact absurd hc (parseString_noPanic _ _ _ c)
      | set a =>
        simp only [hasElemTy, Bool.not_true, Bool.false_eq_true, if_false]
        refine ⟨?_, fun r _ => trivial⟩
        split
        · exact noPanic_ok _
        · exact noPanic_err _
        · next c hc => exact absurd hc (parseString_noPanic _ _ _ c)
      | array n e =>
        simp only [hasElemTy, Bool.not_true, Bool.false_eq_true, if_false]
        refine ⟨?_, fun r _ => trivial⟩
        split
        · exact noPanic_ok _
        · exact noPanic_err _
        · next c hc => exact absurd hc (parseString_noPanic _ _ _ c)
      | struct ifs => simp [leafTyOk] at hokf
      | basic b n =>
        simp only [hasElemTy, Bool.not_false, if_true]
        exact ⟨noPanic_err _, fun r hr => by cases hr⟩
      | dur =>
        simp only [hasElemTy, Bool.not_false, if_true]
        exact ⟨noPanic_err _, fun r hr => by cases hr⟩
      | pdur =>
        simp only [hasElemTy, Bool.not_false, if_true]
        exact ⟨noPanic_err _, fun r hr => by cases hr⟩
      | tu x =>
        simp only [hasElemTy, Bool.not_false, if_true]
        exact ⟨noPanic_err _, fun r hr => by cases hr⟩

theorem stringCast_layer (toks : TokTable) (fuel : Nat) (fs fs' : List FT) (vals : List Val)
    (hm : mangleLayer fuel (stringCastMangler (parseString toks)) fs = .ok fs')
    (hok : ∀ f ∈ fs, leafTyOk f.2 = true)
    (hv : All2 (fun (_ : FT) v => IsEnvVal v) fs' vals) :
    NoPanic (unmangleLayer fuel (stringCastMangler (parseString toks)) fs vals) ∧
      ∀ rs, unmangleLayer fuel (stringCastMangler (parseString toks)) fs vals = .ok rs →
        All2 (fun (f : FT) v => LeafV f.2 v) fs rs :=
  unmangleLayer_spec fuel _ _ _ fs fs' vals hm hv
    (fun k _ f hf outs outs' gvals hmo hrt hP => stringCast_body toks k f (hok f hf) outs outs' gvals hmo hrt hP)


/-! ### shapes: the supported field types and the values that fit a type -/

mutual
/-- below at least one pointer: more pointers, then a struct whose fields are all supported, or a leaf -/
def okUnder : Ty → Bool
  | .ptr e => okUnder e
  | .struct fs => okFields fs
  | _ => true
/-- the type of a field as the flatten mangler meets it: (pointers to) a struct only behind a pointer
(since the repair of P02 `populate` no longer panics on a struct held by value, but the model's `nilv`
for an UNSET by-value struct does not survive the recursing alias mangler when a sibling is set — the
`nilv` artefact, `envValue_panics_value_struct_sibling`); any other type is fine (scalar,
duration, text unmarshaler, slice, map, set, array: since the repair of P02 the string-cast mangler
returns an error for a type without `Elem()`), but it must not be an array of structs (no value of it
survives the recursing manglers: the `nilv` artefact) -/
def okField : Ty → Bool
  | .ptr e => okUnder e
  | .struct _ => false
  | .array _ e => !e.isStructTy
  | _ => true
def okFields : Fields → Bool
  | .nil => true
  | .cons _ _ _ t rest => okField t && okFields rest
end

/-- a top-level field: only pointer types are walked by the flatten mangler (slices, maps, sets are
leaves; everything else makes `flattenMangle` return an error) -/
def okTop : Ty → Bool
  | .ptr e => okUnder e
  | _ => true

mutual
/-- the value has the shape of the type, as far as the recursing manglers look: behind `*struct` nil or
a pointer to a struct value with one shaped value per field; a slice of structs is nil or empty; no
bare struct and no array of structs -/
def Shaped : Ty → Val → Prop
  | .ptr e, v =>
    match e with
    | .struct ifs => v = .nilv ∨ ∃ vs, v = .ptr (.struct vs) ∧ ShapedFs ifs vs
    | _ => True
  | .slice e, v => e.isStructTy = true → (v = .nilv ∨ v = .list [])
  | .array _ e, _ => e.isStructTy = false
  | .struct _, _ => False
  | _, _ => True
def ShapedFs : Fields → List Val → Prop
  | .nil, vs => vs = []
  | .cons _ _ _ t r, vs => ∃ v vs', vs = v :: vs' ∧ Shaped t v ∧ ShapedFs r vs'
end

theorem shapedFs_iff : ∀ (fs : Fields) (vs : List Val),
    ShapedFs fs vs ↔ All2 (fun (f : FT) v => Shaped f.2 v) fs.toList vs
  | .nil, vs => by
    simp only [ShapedFs, Fields.toList]
    constructor
    · rintro rfl; trivial
    · exact All2_nil_left
  | .cons _ _ _ t r, vs => by
    simp only [ShapedFs, Fields.toList]
    constructor
    · rintro ⟨v, vs', rfl, h1, h2⟩
      exact ⟨h1, (shapedFs_iff r vs').1 h2⟩
    · intro h
      obtain ⟨v, vs', rfl, h1, h2⟩ := All2_cons_left h
      exact ⟨v, vs', rfl, h1, (shapedFs_iff r vs').2 h2⟩

theorem toList_ofList : ∀ (fs : List FT), (Fields.ofList fs).toList = fs
  | [] => rfl
  | (h, t) :: r => by simp [Fields.ofList, Fields.toList, toList_ofList r]

theorem okFields_mem : ∀ (fs : Fields), okFields fs = true → ∀ f ∈ fs.toList, okField f.2 = true
  | .nil, _, f, h => by simp [Fields.toList] at h
  | .cons _ _ _ t r, hg, f, h => by
    simp only [okFields, Bool.and_eq_true] at hg
    simp only [Fields.toList, List.mem_cons] at h
    rcases h with h | h
    · subst h; exact hg.1
    · exact okFields_mem r hg.2 f h

theorem okFields_of_mem : ∀ (fs : Fields), (∀ f ∈ fs.toList, okField f.2 = true) → okFields fs = true
  | .nil, _ => rfl
  | .cons _ _ _ t r, h => by
    simp only [okFields, Bool.and_eq_true]
    simp only [Fields.toList, List.mem_cons] at h
    exact ⟨h _ (Or.inl rfl), okFields_of_mem r (fun f hf => h f (Or.inr hf))⟩

theorem okUnder_of_struct : ∀ (t : Ty) (ifs : Fields), stripPtrs t = .struct ifs → okUnder t = okFields ifs
  | .ptr e, ifs, h => by simp only [stripPtrs] at h; simp only [okUnder]; exact okUnder_of_struct e ifs h
  | .struct fs, ifs, h => by simp [stripPtrs] at h; subst h; simp [okUnder]
  | .basic _ _, _, h => by simp [stripPtrs] at h
  | .dur, _, h | .pdur, _, h | .tu _, _, h | .slice _, _, h | .array _ _, _, h | .map _ _, _, h
  | .set _, _, h => by simp [stripPtrs] at h

theorem okField_of_struct {t : Ty} {ifs : Fields} (hs : stripPtrs t = .struct ifs) (hok : okField t = true) :
    ptrDepth t ≠ 0 ∧ okFields ifs = true := by
  cases t with
  | ptr e =>
    simp only [stripPtrs] at hs
    simp only [okField] at hok
    rw [okUnder_of_struct e ifs hs] at hok
    simp [ptrDepth, hok]
  | struct fs => simp [okField] at hok
  | _ => simp [stripPtrs] at hs

theorem not_struct_of_leaf {e : Ty} (hs : ∀ ifs, stripPtrs e ≠ .struct ifs) : e.isStructTy = false := by
  cases e with
  | struct fs => exact absurd rfl (hs fs)
  | _ => rfl

theorem okField_of_leaf {t : Ty} (hs : ∀ ifs, stripPtrs t ≠ .struct ifs) (hok : okField t = true) :
    leafTyOk t = true := by
  cases t with
  | ptr e =>
    have : e.isStructTy = false := not_struct_of_leaf (fun ifs h => hs ifs (by simpa [stripPtrs] using h))
    simp [leafTyOk, this]
  | array n e => simpa [okField, leafTyOk] using hok
  | struct fs => simp [okField] at hok
  | _ => rfl

theorem okField_of_top {t : Ty} (hok : okTop t = true) (hn : isNilableTy t = true) : okField t = true := by
  cases t with
  | ptr e => simpa [okTop, okField] using hok
  | slice e => rfl
  | map a b => rfl
  | set a => rfl
  | _ => simp [isNilableTy] at hn

theorem Shaped_of_leaf {t : Ty} {v : Val} (hok : leafTyOk t = true) (hv : LeafV t v) : Shaped t v := by
  cases t with
  | ptr e =>
    cases e with
    | struct ifs => simp [leafTyOk, Ty.isStructTy] at hok
    | _ => simp [Shaped]
  | slice e => simpa [Shaped, LeafV] using hv
  | array n e => simpa [Shaped, leafTyOk] using hok
  | struct fs => simp [leafTyOk] at hok
  | _ => simp [Shaped]

theorem Shaped_wrap {t : Ty} {ifs : Fields} (hs : stripPtrs t = .struct ifs) (hd : ptrDepth t ≠ 0)
    (fvs : List Val) (hf : All2 (fun (f : FT) v => Shaped f.2 v) ifs.toList fvs) :
    Shaped t (wrapPtrs (ptrDepth t) (.struct fvs)) := by
  cases t with
  | ptr e =>
    cases e with
    | struct fs =>
      simp [stripPtrs] at hs; subst hs
      simp only [ptrDepth, wrapPtrs, Shaped]
      exact Or.inr ⟨fvs, rfl, (shapedFs_iff _ _).2 hf⟩
    | _ => simp [Shaped]
  | struct fs => simp [ptrDepth] at hd
  | _ => simp [stripPtrs] at hs

theorem Shaped_nilv {t : Ty} {ifs : Fields} (hs : stripPtrs t = .struct ifs) (hd : ptrDepth t ≠ 0) :
    Shaped t .nilv := by
  cases t with
  | ptr e =>
    cases e with
    | struct fs => simp [Shaped]
    | _ => simp [Shaped]
  | struct fs => simp [ptrDepth] at hd
  | _ => simp [stripPtrs] at hs

/-! ### the flattened leaf types, fuel-free -/

mutual
def leafTysAux (orig : Ty) : Ty → List Ty
  | .ptr e => leafTysAux orig e
  | .struct fs => leafTysFs fs
  | _ => [orig]
def leafTysFs : Fields → List Ty
  | .nil => []
  | .cons _ _ _ t r => leafTysAux t t ++ leafTysFs r
end

/-- the types of the leaves the flatten mangler produces for a field of type `t`, in order -/
def leafTys (t : Ty) : List Ty := leafTysAux t t

theorem leafTysAux_struct (orig : Ty) : ∀ (t : Ty) (ifs : Fields), stripPtrs t = .struct ifs →
    leafTysAux orig t = leafTysFs ifs
  | .ptr e, ifs, h => by simp only [stripPtrs] at h; simp only [leafTysAux]; exact leafTysAux_struct orig e ifs h
  | .struct fs, ifs, h => by simp [stripPtrs] at h; subst h; simp [leafTysAux]
  | .basic _ _, _, h => by simp [stripPtrs] at h
  | .dur, _, h | .pdur, _, h | .tu _, _, h | .slice _, _, h | .array _ _, _, h | .map _ _, _, h
  | .set _, _, h => by simp [stripPtrs] at h

theorem leafTysAux_leaf (orig : Ty) : ∀ (t : Ty), (∀ ifs, stripPtrs t ≠ .struct ifs) → leafTysAux orig t = [orig]
  | .ptr e, h => by
    simp only [leafTysAux]
    exact leafTysAux_leaf orig e (fun ifs h' => h ifs (by simpa [stripPtrs] using h'))
  | .struct fs, h => absurd rfl (h fs)
  | .basic _ _, _ => rfl
  | .dur, _ | .pdur, _ | .tu _, _ | .slice _, _ | .array _ _, _ | .map _ _, _ | .set _, _ => rfl

theorem leafTysFs_eq : ∀ (fs : Fields), leafTysFs fs = fs.toList.flatMap (fun f => leafTys f.2)
  | .nil => rfl
  | .cons _ _ _ t r => by simp [leafTysFs, Fields.toList, leafTys, leafTysFs_eq r]

theorem leafTys_struct {t : Ty} {ifs : Fields} (hs : stripPtrs t = .struct ifs) :
    leafTys t = ifs.toList.flatMap (fun f => leafTys f.2) := by
  rw [leafTys, leafTysAux_struct t t ifs hs, leafTysFs_eq]

theorem leafTys_leaf {t : Ty} (hs : ∀ ifs, stripPtrs t ≠ .struct ifs) : leafTys t = [t] :=
  leafTysAux_leaf t t hs

theorem flattenStruct_tys (cfg : FlattenCfg) : ∀ (fuel : Nat) (names words path : List String)
    (fs : List FT) (outs : List FT), flattenStruct cfg fuel names words path fs = .ok outs →
    outs.map (·.2) = fs.flatMap (fun f => leafTys f.2)
  | 0, _, _, _, _, _, h => by simp [flattenStruct] at h
  | _ + 1, _, _, _, [], outs, h => by
    simp [flattenStruct] at h; subst h; simp
  | fuel + 1, names, words, path, (nh, nt) :: rest, outs, h => by
    simp only [flattenStruct] at h
    split at h
    · cases h
    · cases h
    · rename_i tags words' _
      split at h
      · rename_i a b ha hb
        cases h
        have hb' := flattenStruct_tys cfg fuel names words path rest b hb
        simp only [List.map_append, List.flatMap_cons, hb']
        congr 1
        split at ha
        · rename_i ifs hs
          rw [flattenStruct_tys cfg fuel _ _ _ _ a ha, leafTys_struct hs]
        · rename_i hs
          cases ha
          simp [leafTys_leaf (fun ifs h => hs ifs h)]
      all_goals cases h

theorem flattenMangle_tys (cfg : FlattenCfg) (fuel : Nat) (h : Hdr) (t : Ty) (outs : List FT)
    (hm : flattenMangle cfg fuel h t = .ok outs) : outs.map (·.2) = leafTys t ∧ isNilableTy t = true := by
  simp only [flattenMangle] at hm
  split at hm
  · cases hm
  · rename_i hn
    refine ⟨?_, by simpa using hn⟩
    split at hm
    · cases hm
    · cases hm
    · split at hm
      · rename_i ifs hs
        rw [flattenStruct_tys cfg fuel _ _ _ _ outs hm, leafTys_struct hs]
      · rename_i hs
        cases hm
        simp [leafTys_leaf (fun ifs h => hs ifs h)]

/-- every leaf of a supported field type is a supported leaf type -/
theorem leafTys_ok : ∀ (n : Nat) (t : Ty), tySize t ≤ n → okField t = true → ∀ l ∈ leafTys t, leafTyOk l = true
  | 0, t, h => by
    exfalso
    cases t <;> simp [tySize] at h
  | n + 1, t, h => by
    intro hok l hl
    cases hs : stripPtrs t with
    | struct ifs =>
      rw [leafTys_struct hs, List.mem_flatMap] at hl
      obtain ⟨f, hf, hlf⟩ := hl
      have hsz := tySize_field_lt hs hf
      exact leafTys_ok n f.2 (by omega) (okFields_mem ifs (okField_of_struct hs hok).2 f hf) l hlf
    | _ =>
      have hleaf : ∀ ifs, stripPtrs t ≠ .struct ifs := by intro ifs h'; rw [hs] at h'; cases h'
      rw [leafTys_leaf hleaf] at hl
      simp only [List.mem_singleton] at hl
      subst hl
      exact okField_of_leaf hleaf hok


/-! ### populate: no panic for ANY fuel, and the result has the shape of the type -/

theorem populate_zero (t : Ty) (vals : List Val) : populate 0 t vals = .err "fuel" := by
  unfold populate; rfl

theorem fields_zero (fuel : Nat) (fs : List FT) (vals acc : List Val) (any : Bool) :
    populate.fields fuel 0 fs vals acc any = .err "fuel" := by
  unfold populate.fields; rfl

theorem fields_nil (fuel fl : Nat) (vals acc : List Val) (any : Bool) :
    populate.fields fuel (fl + 1) [] vals acc any = .ok (acc, vals, any) := by
  unfold populate.fields; rfl

theorem fields_step_struct (fuel fl : Nat) (f : FT) (fs : List FT) (vals acc : List Val) (any : Bool)
    {ifs : Fields} (hs : stripPtrs f.2 = .struct ifs) :
    populate.fields fuel (fl + 1) (f :: fs) vals acc any =
      match populate fuel f.2 vals with
      | .ok (v, vals', a) => populate.fields fuel fl fs vals' (acc ++ [v]) (any || a)
      | .err c => .err c
      | .panic c => .panic c := by
  conv => lhs; unfold populate.fields
  split
  · rfl
  · rename_i hn
    exact absurd hs (hn ifs)

theorem fields_step_leaf (fuel fl : Nat) (f : FT) (fs : List FT) (vals acc : List Val) (any : Bool)
    (hs : ∀ ifs, stripPtrs f.2 ≠ .struct ifs) :
    populate.fields fuel (fl + 1) (f :: fs) vals acc any =
      match vals with
      | [] => .panic "index out of range"
      | v :: vals' => populate.fields fuel fl fs vals' (acc ++ [v]) (any || !v.isNil) := by
  conv => lhs; unfold populate.fields
  split
  · rename_i ifs' hs'
    exact absurd hs' (hs ifs')
  · rfl

/-- what `populate` is asked to deliver on the leaf values of one field -/
def PopNP (fuel : Nat) (t : Ty) : Prop :=
  ∀ (lv rest : List Val), All2 LeafV (leafTys t) lv →
    NoPanic (populate fuel t (lv ++ rest)) ∧
      ∀ v r a, populate fuel t (lv ++ rest) = .ok (v, r, a) → r = rest ∧ Shaped t v

theorem fields_np (fuel : Nat) (ih : ∀ t, okField t = true → PopNP fuel t) :
    ∀ (fs : List FT) (fl : Nat) (lv rest acc : List Val) (any : Bool),
      (∀ f ∈ fs, okField f.2 = true) → All2 LeafV (fs.flatMap (fun f => leafTys f.2)) lv →
      NoPanic (populate.fields fuel fl fs (lv ++ rest) acc any) ∧
        ∀ fvs r a, populate.fields fuel fl fs (lv ++ rest) acc any = .ok (fvs, r, a) →
          r = rest ∧ ∃ new, fvs = acc ++ new ∧ All2 (fun (f : FT) v => Shaped f.2 v) fs new := by
  intro fs
  induction fs with
  | nil =>
    intro fl lv rest acc any _ hlv
    have := All2_nil_left hlv; subst this
    cases fl with
    | zero => rw [fields_zero]; exact ⟨noPanic_err _, fun _ _ _ h => by cases h⟩
    | succ fl =>
      rw [fields_nil]
      refine ⟨noPanic_ok _, fun fvs r a h => ?_⟩
      cases h
      exact ⟨rfl, [], by simp, trivial⟩
  | cons f fs ihfs =>
    intro fl lv rest acc any hok hlv
    cases fl with
    | zero => rw [fields_zero]; exact ⟨noPanic_err _, fun _ _ _ h => by cases h⟩
    | succ fl =>
      rw [List.flatMap_cons] at hlv
      obtain ⟨l1, l2, rfl, h1, h2⟩ := All2_append_inv hlv
      have hokf := hok f (by simp)
      have hokr : ∀ g ∈ fs, okField g.2 = true := fun g hg => hok g (by simp [hg])
      cases hs : stripPtrs f.2 with
      | struct ifs =>
        rw [fields_step_struct fuel fl f fs _ acc any hs, List.append_assoc]
        obtain ⟨hnp, hres⟩ := ih f.2 hokf l1 (l2 ++ rest) h1
        cases hp : populate fuel f.2 (l1 ++ (l2 ++ rest)) with
        | ok x =>
          obtain ⟨v, r, a⟩ := x
          obtain ⟨rfl, hsh⟩ := hres v r a hp
          simp only
          obtain ⟨hnp2, hres2⟩ := ihfs fl l2 rest (acc ++ [v]) (any || a) hokr h2
          refine ⟨hnp2, fun fvs r' a' h => ?_⟩
          obtain ⟨rfl, new, rfl, hnew⟩ := hres2 fvs r' a' h
          exact ⟨rfl, v :: new, by simp, hsh, hnew⟩
        | err c => exact ⟨noPanic_err _, fun _ _ _ h => by cases h⟩
        | panic c => exact absurd hp (hnp c)
      | _ =>
        have hleaf : ∀ ifs, stripPtrs f.2 ≠ .struct ifs := by intro ifs h'; rw [hs] at h'; cases h'
        rw [leafTys_leaf hleaf] at h1
        obtain ⟨v, l1', rfl, hv, hl1'⟩ := All2_cons_left h1
        have := All2_nil_left hl1'; subst this
        rw [fields_step_leaf fuel fl f fs _ acc any hleaf]
        simp only [List.cons_append, List.nil_append]
        obtain ⟨hnp2, hres2⟩ := ihfs fl l2 rest (acc ++ [v]) (any || !v.isNil) hokr h2
        refine ⟨hnp2, fun fvs r' a' h => ?_⟩
        obtain ⟨rfl, new, rfl, hnew⟩ := hres2 fvs r' a' h
        exact ⟨rfl, v :: new, by simp, Shaped_of_leaf (okField_of_leaf hleaf hokf) hv, hnew⟩

theorem populate_np : ∀ (fuel : Nat) (t : Ty), okField t = true → PopNP fuel t
  | 0, t, _ => by
    intro lv rest _
    rw [populate_zero]
    exact ⟨noPanic_err _, fun _ _ _ h => by cases h⟩
  | fuel + 1, t, hok => by
    intro lv rest hlv
    cases hs : stripPtrs t with
    | struct ifs =>
      obtain ⟨hd, hfs⟩ := okField_of_struct hs hok
      rw [leafTys_struct hs] at hlv
      obtain ⟨hnp, hres⟩ := fields_np fuel (fun t' h' => populate_np fuel t' h') ifs.toList
        (ifs.toList.length + 1) lv rest [] false (okFields_mem ifs hfs) hlv
      rw [populate_struct hs]
      cases hp : populate.fields fuel (ifs.toList.length + 1) ifs.toList (lv ++ rest) [] false with
      | ok x =>
        obtain ⟨fvs, r, a⟩ := x
        obtain ⟨rfl, new, hfv, hnew⟩ := hres fvs r a hp
        have hfv' : fvs = new := by simpa using hfv
        subst hfv'
        cases a with
        | true =>
          simp only [if_true]
          refine ⟨noPanic_ok _, fun v r' a' h => ?_⟩
          cases h
          exact ⟨rfl, Shaped_wrap hs hd _ hnew⟩
        | false =>
          simp only [Bool.false_eq_true, if_false]
          refine ⟨noPanic_ok _, fun v r' a' h => ?_⟩
          cases h
          exact ⟨rfl, Shaped_nilv hs hd⟩
      | err c => exact ⟨noPanic_err _, fun _ _ _ h => by cases h⟩
      | panic c => exact absurd hp (hnp c)
    | _ =>
      have hleaf : ∀ ifs, stripPtrs t ≠ .struct ifs := by intro ifs h'; rw [hs] at h'; cases h'
      rw [leafTys_leaf hleaf] at hlv
      obtain ⟨v, l', rfl, hv, hl'⟩ := All2_cons_left hlv
      have := All2_nil_left hl'; subst this
      rw [populate_leaf hleaf]
      simp only [List.cons_append, List.nil_append]
      refine ⟨noPanic_ok _, fun v' r' a' h => ?_⟩
      cases h
      exact ⟨rfl, Shaped_of_leaf (okField_of_leaf hleaf hok) hv⟩


/-! ### the flatten layer -/

/-- where an output field of a layer comes from -/
theorem mangleLayer_mem {k : Nat} {m : Mangler} {fs fs' : List FT} (hm : mangleLayer (k + 1) m fs = .ok fs')
    {f' : FT} (hf' : f' ∈ fs') :
    ∃ f ∈ fs, ∃ outs outs', m.mangle f.1 f.2 = .ok outs ∧ mapM' (recurseType k m) outs = .ok outs' ∧ f' ∈ outs' := by
  obtain ⟨groups, hg, rfl⟩ := mangleLayer_succ_ok hm
  obtain ⟨g, hgm, hfg⟩ := List.mem_flatten.1 hf'
  clear hm hf'
  induction fs generalizing groups with
  | nil => simp [mapM'] at hg; subst hg; cases hgm
  | cons x xs ih =>
    obtain ⟨b, bs, hb, hbs, rfl⟩ := mapM'_cons_ok hg
    rcases List.mem_cons.1 hgm with rfl | hgm
    · cases hmo : m.mangle x.1 x.2 with
      | ok outs =>
        simp only [hmo] at hb
        exact ⟨x, by simp, outs, g, hmo, hb, hfg⟩
      | err c => simp [hmo] at hb
      | panic c => simp [hmo] at hb
    · obtain ⟨f, hf, r⟩ := ih bs hbs hgm
      exact ⟨f, by simp [hf], r⟩

theorem recurseVal_norec (k : Nat) (m : Mangler) (o : FT) (v : Val) (hr : m.recurse = false) :
    NoPanic (recurseVal k m o v) ∧ ∀ w, recurseVal k m o v = .ok w → w = v := by
  cases k with
  | zero => simp [recurseVal]; exact noPanic_err _
  | succ k =>
    rw [recurseVal_id k m o v (Or.inl hr)]
    exact ⟨noPanic_ok _, fun w hw => by cases hw; rfl⟩

theorem flatten_body (cfg : FlattenCfg) (fuelF k : Nat) (f : FT) (hokf : okTop f.2 = true)
    (outs outs' : List FT) (gvals : List Val)
    (hm : (flattenMangler cfg fuelF).mangle f.1 f.2 = .ok outs)
    (hrt : mapM' (recurseType k (flattenMangler cfg fuelF)) outs = .ok outs')
    (hP : All2 (fun (o : FT) v => LeafV o.2 v) outs' gvals) :
    NoPanic (layerBody k (flattenMangler cfg fuelF) (f, outs, gvals)) ∧
      ∀ r, layerBody k (flattenMangler cfg fuelF) (f, outs, gvals) = .ok r → Shaped f.2 r := by
  have hm' : flattenMangle cfg fuelF f.1 f.2 = .ok outs := hm
  obtain ⟨htys, hnil⟩ := flattenMangle_tys cfg fuelF f.1 f.2 outs hm'
  have hout : outs' = outs :=
    (mapM'_recurseType_id (flattenMangler cfg fuelF) outs (fun _ _ => Or.inl rfl) k outs' hrt).1
  subst hout
  refine layerBody_spec k _ (fun o v => LeafV o.2 v) (fun o v => LeafV o.2 v) (fun r => Shaped f.2 r)
    f _ _ gvals hrt hP ?_ ?_
  · intro o o2 v _ hro hv
    obtain ⟨hnp, hw⟩ := recurseVal_norec k (flattenMangler cfg fuelF) o v rfl
    have ho2 : o2 = o := by
      cases k with
      | zero => simp [recurseType] at hro
      | succ k =>
        rw [recurseType_id k _ o (Or.inl rfl)] at hro
        cases hro; rfl
    subst ho2
    exact ⟨hnp, fun w hw' => by rw [hw w hw']; exact hv⟩
  · intro vs hvs
    have hlen : vs.length ≤ outs'.length := by rw [All2_length hvs]; exact Nat.le_refl _
    have hmap : (outs'.zip vs).map (·.2) = vs := by
      rw [List.map_snd_zip]; exact hlen
    have hlv : All2 LeafV (leafTys f.2) vs := by
      rw [← htys]
      exact (All2_map_left (R := LeafV) (fun (o : FT) => o.2)).2 hvs
    obtain ⟨hnp, hres⟩ := populate_np fuelF f.2 (okField_of_top hokf hnil) vs [] hlv
    rw [List.append_nil] at hnp hres
    show NoPanic (flattenUnmangle fuelF f.1 f.2 (outs'.zip vs)) ∧
      ∀ r, flattenUnmangle fuelF f.1 f.2 (outs'.zip vs) = .ok r → Shaped f.2 r
    simp only [flattenUnmangle, hmap]
    cases hp : populate fuelF f.2 vs with
    | ok x =>
      obtain ⟨v, r, a⟩ := x
      obtain ⟨rfl, hsh⟩ := hres v r a hp
      simp only [List.isEmpty_nil, if_true]
      exact ⟨noPanic_ok _, fun r hr => by cases hr; exact hsh⟩
    | err c => exact ⟨noPanic_err _, fun _ h => by cases h⟩
    | panic c => exact absurd hp (hnp c)

theorem flatten_layer (cfg : FlattenCfg) (fuelF fuel : Nat) (fs fs' : List FT) (vals : List Val)
    (hm : mangleLayer fuel (flattenMangler cfg fuelF) fs = .ok fs') (hok : ∀ f ∈ fs, okTop f.2 = true)
    (hv : All2 (fun (o : FT) v => LeafV o.2 v) fs' vals) :
    NoPanic (unmangleLayer fuel (flattenMangler cfg fuelF) fs vals) ∧
      ∀ rs, unmangleLayer fuel (flattenMangler cfg fuelF) fs vals = .ok rs →
        All2 (fun (f : FT) v => Shaped f.2 v) fs rs :=
  unmangleLayer_spec fuel _ _ _ fs fs' vals hm hv
    (fun k _ f hf outs outs' gvals hmo hrt hP => flatten_body cfg fuelF k f (hok f hf) outs outs' gvals hmo hrt hP)

/-- after flatten every field is a supported leaf -/
theorem flatten_fwd (cfg : FlattenCfg) (fuelF fuel : Nat) (fs fs' : List FT)
    (hm : mangleLayer fuel (flattenMangler cfg fuelF) fs = .ok fs') (hok : ∀ f ∈ fs, okTop f.2 = true) :
    ∀ f' ∈ fs', leafTyOk f'.2 = true := by
  cases fuel with
  | zero => simp [mangleLayer] at hm
  | succ k =>
    intro f' hf'
    obtain ⟨f, hf, outs, outs', hmo, hrt, hmem⟩ := mangleLayer_mem hm hf'
    have hout : outs' = outs :=
      (mapM'_recurseType_id (flattenMangler cfg fuelF) outs (fun _ _ => Or.inl rfl) k outs' hrt).1
    subst hout
    have hm' : flattenMangle cfg fuelF f.1 f.2 = .ok outs' := hmo
    obtain ⟨htys, hnil⟩ := flattenMangle_tys cfg fuelF f.1 f.2 outs' hm'
    have hl : f'.2 ∈ leafTys f.2 := by
      rw [← htys]; exact List.mem_map.2 ⟨f', hmem, rfl⟩
    exact leafTys_ok _ f.2 (Nat.le_refl _) (okField_of_top (hok f hf) hnil) _ hl


/-! ### the alias layer -/

theorem mapM'_mem {α β : Type} {f : α → Outcome β} : ∀ {xs : List α} {r : List β},
    mapM' f xs = .ok r → ∀ b ∈ r, ∃ x ∈ xs, f x = .ok b
  | [], r, h, b, hb => by simp [mapM'] at h; subst h; cases hb
  | x :: xs, r, h, b, hb => by
    obtain ⟨c, cs, hc, hcs, rfl⟩ := mapM'_cons_ok h
    rcases List.mem_cons.1 hb with rfl | hb
    · exact ⟨x, by simp, hc⟩
    · obtain ⟨y, hy, hyb⟩ := mapM'_mem hcs b hb
      exact ⟨y, by simp [hy], hyb⟩

theorem aliasMangle_ty {tags : List String} {h : Hdr} {t : Ty} {outs : List FT}
    (hm : aliasMangle tags h t = .ok outs) : ∀ o ∈ outs, o.2 = t := by
  rw [aliasMangle_eq] at hm
  split at hm
  · cases hm; simp
  · cases hm; simp

theorem aliasUnmangle_noPanic (h : Hdr) (t : Ty) (fvs : List (FT × Val)) : NoPanic (aliasUnmangle h t fvs) := by
  unfold aliasUnmangle
  split
  · exact noPanic_ok _
  · split
    · exact noPanic_err _
    · split
      · exact noPanic_ok _
      · split
        · exact noPanic_ok _
        · exact noPanic_ok _
  · exact noPanic_err _

/-- un-mangling one alias layer on shaped values -/
def AliasUL (tags : List String) (k : Nat) : Prop :=
  ∀ (fs fs' : List FT) (vals : List Val), mangleLayer k (aliasMangler tags) fs = .ok fs' →
    All2 (fun (f : FT) v => Shaped f.2 v) fs' vals → NoPanic (unmangleLayer k (aliasMangler tags) fs vals)

def AliasRV (tags : List String) (k : Nat) : Prop :=
  ∀ (o o' : FT) (v : Val), recurseType k (aliasMangler tags) o = .ok o' → Shaped o'.2 v →
    NoPanic (recurseVal k (aliasMangler tags) o v)

theorem aliasUL_of_RV (tags : List String) (k : Nat) (h : AliasRV tags k) : AliasUL tags (k + 1) := by
  intro fs fs' vals hm hv
  refine (unmangleLayer_spec (k + 1) (aliasMangler tags) (fun f v => Shaped f.2 v) (fun _ _ => True)
    fs fs' vals hm hv ?_).1
  intro k' hk f _ outs outs' gvals _ hrt hP
  have hk' : k' = k := by omega
  subst hk'
  refine layerBody_spec k' _ (fun o v => Shaped o.2 v) (fun _ _ => True) (fun _ => True)
    f outs outs' gvals hrt hP ?_ ?_
  · intro o o' v _ hro hv
    exact ⟨h o o' v hro hv, fun _ _ => trivial⟩
  · intro vs _
    exact ⟨aliasUnmangle_noPanic f.1 f.2 (outs'.zip vs), fun _ _ => trivial⟩

theorem aliasRV_of_UL (tags : List String) (k : Nat) (h : AliasUL tags k) : AliasRV tags (k + 1) := by
  intro o o' v hro hv
  obtain ⟨hd, t⟩ := o
  cases hst : structish t with
  | none => exact (recurseVal_none (k + 1) _ (hd, t) v hst).1
  | some p =>
    obtain ⟨ifs, wrap⟩ := p
    simp only [recurseType, aliasMangler, Bool.not_true, Bool.false_eq_true, if_false, hst] at hro
    cases hml : mangleLayer k (aliasMangler tags) ifs.toList with
    | ok r =>
      have hml' : mangleLayer k { mangle := aliasMangle tags, unmangle := aliasUnmangle, recurse := true }
          ifs.toList = .ok r := hml
      rw [hml'] at hro
      simp only [Outcome.ok.injEq] at hro
      subst hro
      rcases structish_some_cases hst with ⟨rfl, rfl⟩ | ⟨rfl, rfl⟩ | ⟨rfl, rfl⟩ | ⟨n, rfl, rfl⟩
      · simp [Shaped] at hv
      · simp only [Shaped] at hv
        rcases hv with rfl | ⟨vs, rfl, hvs⟩
        · simp only [recurseVal, aliasMangler, structish]
          exact noPanic_ok _
        · have hall : All2 (fun (f : FT) v => Shaped f.2 v) r vs := by
            have := (shapedFs_iff _ _).1 hvs
            rwa [toList_ofList] at this
          have hnp := h ifs.toList r vs hml hall
          simp only [recurseVal, aliasMangler, structish, Bool.not_true, Bool.false_eq_true, if_false]
          cases hu : unmangleLayer k { mangle := aliasMangle tags, unmangle := aliasUnmangle, recurse := true }
              ifs.toList vs with
          | ok rs => simp only [Outcome.bind]; exact noPanic_ok _
          | err c => simp only [Outcome.bind]; exact noPanic_err _
          | panic c => exact absurd hu (hnp c)
      · have hv' : v = .nilv ∨ v = .list [] := by simpa [Shaped, Ty.isStructTy] using hv
        rcases hv' with rfl | rfl
        · simp only [recurseVal, aliasMangler, structish]
          exact noPanic_ok _
        · simp only [recurseVal, aliasMangler, structish, Bool.not_true, Bool.false_eq_true, if_false, mapM',
            Outcome.bind]
          exact noPanic_ok _
      · simp [Shaped, Ty.isStructTy] at hv
    | err c =>
      have hml' : mangleLayer k { mangle := aliasMangle tags, unmangle := aliasUnmangle, recurse := true }
          ifs.toList = .err c := hml
      rw [hml'] at hro; cases hro
    | panic c =>
      have hml' : mangleLayer k { mangle := aliasMangle tags, unmangle := aliasUnmangle, recurse := true }
          ifs.toList = .panic c := hml
      rw [hml'] at hro; cases hro

theorem alias_np (tags : List String) : ∀ (k : Nat), AliasUL tags k ∧ AliasRV tags k
  | 0 => by
    constructor
    · intro fs fs' vals hm _; simp [mangleLayer] at hm
    · intro o o' v hro _; simp [recurseType] at hro
  | k + 1 => ⟨aliasUL_of_RV tags k (alias_np tags k).2, aliasRV_of_UL tags k (alias_np tags k).1⟩

theorem alias_layer (tags : List String) (fuel : Nat) (fs fs' : List FT) (vals : List Val)
    (hm : mangleLayer fuel (aliasMangler tags) fs = .ok fs')
    (hv : All2 (fun (f : FT) v => Shaped f.2 v) fs' vals) :
    NoPanic (unmangleLayer fuel (aliasMangler tags) fs vals) :=
  (alias_np tags fuel).1 fs fs' vals hm hv

/-! #### the alias layer keeps the supported shapes (it only duplicates fields) -/

def AliasML (tags : List String) (k : Nat) : Prop :=
  ∀ (fs fs' : List FT), mangleLayer k (aliasMangler tags) fs = .ok fs' →
    (∀ f ∈ fs, okField f.2 = true) → ∀ f' ∈ fs', okField f'.2 = true

def AliasRT (tags : List String) (k : Nat) : Prop :=
  ∀ (o o' : FT), recurseType k (aliasMangler tags) o = .ok o' →
    (okField o.2 = true → okField o'.2 = true) ∧ (okTop o.2 = true → okTop o'.2 = true)

theorem aliasRT_of_ML (tags : List String) (k : Nat) (h : AliasML tags k) : AliasRT tags (k + 1) := by
  intro o o' hro
  obtain ⟨hd, t⟩ := o
  rcases recurseType_cases hro with rfl | ⟨ifs, wrap, r, _, hs, hml, rfl⟩
  · exact ⟨id, id⟩
  · rcases structish_some_cases hs with ⟨rfl, rfl⟩ | ⟨rfl, rfl⟩ | ⟨rfl, rfl⟩ | ⟨n, rfl, rfl⟩
    · exact ⟨fun hc => by simp [okField] at hc, fun _ => rfl⟩
    · have key : okFields ifs = true → okFields (Fields.ofList r) = true := by
        intro hok
        apply okFields_of_mem
        rw [toList_ofList]
        exact h ifs.toList r hml (okFields_mem ifs hok)
      exact ⟨by simpa [okField, okUnder] using key, by simpa [okTop, okUnder] using key⟩
    · exact ⟨fun _ => rfl, fun _ => rfl⟩
    · exact ⟨fun hc => by simp [okField, Ty.isStructTy] at hc, fun _ => rfl⟩

theorem alias_mem_src {tags : List String} {k : Nat} {fs fs' : List FT}
    (hm : mangleLayer (k + 1) (aliasMangler tags) fs = .ok fs') {f' : FT} (hf' : f' ∈ fs') :
    ∃ f ∈ fs, ∃ o, o.2 = f.2 ∧ recurseType k (aliasMangler tags) o = .ok f' := by
  obtain ⟨f, hf, outs, outs', hmo, hrt, hmem⟩ := mangleLayer_mem hm hf'
  obtain ⟨o, ho, hof⟩ := mapM'_mem hrt f' hmem
  exact ⟨f, hf, o, aliasMangle_ty hmo o ho, hof⟩

theorem aliasML_of_RT (tags : List String) (k : Nat) (h : AliasRT tags k) : AliasML tags (k + 1) := by
  intro fs fs' hm hok f' hf'
  obtain ⟨f, hf, o, hot, hro⟩ := alias_mem_src hm hf'
  exact (h o f' hro).1 (by rw [hot]; exact hok f hf)

theorem alias_shape (tags : List String) : ∀ (k : Nat), AliasML tags k ∧ AliasRT tags k
  | 0 => by
    constructor
    · intro fs fs' hm; simp [mangleLayer] at hm
    · intro o o' hro; simp [recurseType] at hro
  | k + 1 => ⟨aliasML_of_RT tags k (alias_shape tags k).2, aliasRT_of_ML tags k (alias_shape tags k).1⟩

theorem alias_fwd (tags : List String) (fuel : Nat) (fs fs' : List FT)
    (hm : mangleLayer fuel (aliasMangler tags) fs = .ok fs') (hok : ∀ f ∈ fs, okTop f.2 = true) :
    ∀ f' ∈ fs', okTop f'.2 = true := by
  cases fuel with
  | zero => simp [mangleLayer] at hm
  | succ k =>
    intro f' hf'
    obtain ⟨f, hf, o, hot, hro⟩ := alias_mem_src hm hf'
    exact ((alias_shape tags k).2 o f' hro).2 (by rw [hot]; exact hok f hf)


/-! ### `translate` does not look at the string-cast mangler's parser -/

theorem mangleLayer_congr (m m' : Mangler) (hmg : m.mangle = m'.mangle) (hrc : m.recurse = m'.recurse) :
    ∀ (k : Nat), (∀ fs, mangleLayer k m fs = mangleLayer k m' fs) ∧ (∀ o, recurseType k m o = recurseType k m' o)
  | 0 => ⟨fun _ => rfl, fun _ => rfl⟩
  | k + 1 => by
    obtain ⟨ih1, ih2⟩ := mangleLayer_congr m m' hmg hrc k
    have hrt : recurseType k m = recurseType k m' := funext ih2
    constructor
    · intro fs
      simp only [mangleLayer, hmg, hrt]
    · intro o
      obtain ⟨h, t⟩ := o
      simp only [recurseType, hrc, ih1]

theorem translate_toks (fuel : Nat) (toks toks' : TokTable) (fs : List FT) :
    translate fuel (envChain fuel toks) fs = translate fuel (envChain fuel toks') fs := by
  have key : ∀ fs, mangleLayer fuel (stringCastMangler (parseString toks)) fs =
      mangleLayer fuel (stringCastMangler (parseString toks')) fs :=
    (mangleLayer_congr (stringCastMangler (parseString toks)) (stringCastMangler (parseString toks')) rfl rfl fuel).1
  rw [envChain_eq, envChain_eq]
  simp only [translate, key]

theorem translate_cons_ok {fuel : Nat} {m : Mangler} {ms : List Mangler} {fs tfs : List FT}
    (h : translate fuel (m :: ms) fs = .ok tfs) :
    ∃ fs', mangleLayer fuel m fs = .ok fs' ∧ translate fuel ms fs' = .ok tfs := by
  simp only [translate] at h
  split at h
  · rename_i fs' hm
    exact ⟨fs', hm, h⟩
  · cases h
  · cases h

/-! ### the supported configurations -/

/-- The field lists on which the environment source's model cannot panic: `okTop` on every (original,
Pointerify-output) field type — as the flatten mangler walks a pointer type (through pointers and the
fields of structs):
  * every nested struct sits behind a pointer.  Since the repair of P02 (`populate` stores the rebuilt struct
    itself in a struct held by value) a by-value struct whose leaves are set is rebuilt
    (`envValue_value_struct_rebuilt`: the former counterexample is now a value).  The shape stays excluded
    because of a MODEL artefact: `populate` leaves an unset by-value struct as `nilv` (the model has no zero
    struct), and when a sibling field is set the recursing alias mangler meets that `nilv` at a struct type:
    `ReverseTranslate of a non-struct` (`envValue_panics_value_struct_sibling`); the real code passes the
    zero struct through;
  * no nested field is an array of structs as a bare leaf — else `unexpected value kind in recursive
    unmangle`: an unset array reaches the recursing manglers as nil (the model's `nilv` artefact, see
    `envValue_panics_array_of_structs`).
Every other nested field type is fine: scalar, duration, text unmarshaler, slice, map, set, array of
non-structs, and pointers to those.  Top-level fields that are not pointers are not constrained: slices /
maps / sets are leaves, anything else makes `flattenMangle` return an error.

Two ingredients of the earlier predicate are gone, because the panics they excluded became errors:
  * "every translated field carries a non-empty `dialsenv` tag" (`envTagsOk`): since the repair of finding
    P05 env.go returns the error `empty dialsenv tag` instead of panicking
    (`envValue_empty_tag_is_error`, `envValue_empty_envtag_is_error`);
  * "every nested leaf type has an `Elem()`" (pointer / slice / map / set / array): since the repair of
    finding P02 the string-cast mangler returns an error for a field type without element type instead
    of reflect panicking with `Elem of invalid type` (`envValue_unwrapped_leaf_is_error`).
The `fuel` argument is kept for the signature only.  No fuel bound is needed: with too little fuel the
model returns the error "fuel", never a panic. -/
def SupportedCfg (_fuel : Nat) (fs : List FT) : Bool :=
  fs.all (fun f => okTop f.2)

/-- the lookup step never panics (an empty or missing `dialsenv` tag is an error since the repair of P05) -/
theorem envField_noPanic (pfx : String) (lookup : String → Option String) (f : FT) :
    NoPanic (envField pfx lookup f) := by
  unfold envField
  split
  · exact noPanic_err _
  · exact noPanic_err _
  · simp only
    split
    · exact noPanic_ok _
    · exact noPanic_ok _

/-- and what it hands to the chain is nil or a `*string` -/
theorem envField_isEnvVal (pfx : String) (lookup : String → Option String) (f : FT) (v : Val)
    (h : envField pfx lookup f = .ok v) : IsEnvVal v := by
  unfold envField at h
  split at h
  · cases h
  · cases h
  · simp only at h
    split at h
    · rename_i s _
      cases h
      exact Or.inr ⟨s, rfl⟩
    · cases h
      exact Or.inl rfl

/-- one step of ReverseTranslate's fold -/
def stepU (fuel : Nat) (l : Mangler × List FT) (acc : Outcome (List Val)) : Outcome (List Val) :=
  match acc with
  | .ok vs => unmangleLayer fuel l.1 l.2 vs
  | e => e

theorem reverseFold_eq (fuel : Nat) (ls : List (Mangler × List FT)) (vals : List Val) :
    reverseFold fuel ls vals = ls.foldr (stepU fuel) (.ok vals) := rfl

theorem stepU_np (fuel : Nat) (l : Mangler × List FT) (acc : Outcome (List Val)) (P Q : List Val → Prop)
    (hnp : NoPanic acc) (hP : ∀ vs, acc = .ok vs → P vs)
    (hstep : ∀ vs, P vs → NoPanic (unmangleLayer fuel l.1 l.2 vs) ∧
      ∀ rs, unmangleLayer fuel l.1 l.2 vs = .ok rs → Q rs) :
    NoPanic (stepU fuel l acc) ∧ ∀ rs, stepU fuel l acc = .ok rs → Q rs := by
  cases acc with
  | ok vs => exact hstep vs (hP vs rfl)
  | err c => exact ⟨noPanic_err c, fun _ h => by cases h⟩
  | panic c => exact absurd rfl (hnp c)

theorem envChain_total (fuel : Nat) (toks : TokTable) : ∀ m ∈ envChain fuel toks, MangleTotal m :=
  chainOfSpecs_mangleTotal fuel (parseString toks) Facts.chainEnv (envChain fuel toks) rfl

/-- C16 for the environment source: on supported field lists, whatever the environment holds and whatever
the scanner returns for it, `Value` returns a value or an error — no panic of the model is reachable -/
theorem envValue_noPanic (fuel : Nat) (toks : TokTable) (pfx : String) (fs : List FT)
    (lookup : String → Option String) (h : SupportedCfg fuel fs = true) :
    NoPanic (envValue fuel (envChain fuel toks) pfx fs lookup) := by
  simp only [SupportedCfg, List.all_eq_true] at h
  have hshape : ∀ f ∈ fs, okTop f.2 = true := h
  rw [envValue_eq]
  cases ht : translate fuel (envChain fuel toks) fs with
  | err c => exact noPanic_err c
  | panic c => exact absurd ht (translate_noPanic fuel _ (envChain_total fuel toks) fs c)
  | ok tfs =>
    simp only
    cases hvals : mapM' (envField pfx lookup) tfs with
    | err c => exact noPanic_err c
    | panic c => exact absurd hvals (mapM'_noPanic _ tfs (fun f _ => envField_noPanic pfx lookup f) c)
    | ok vals =>
      simp only
      have hev : All2 (fun (_ : FT) v => IsEnvVal v) tfs vals :=
        All2_of_mapM' hvals (fun f _ b hb => envField_isEnvVal pfx lookup f b hb)
      rw [envChain_eq] at ht ⊢
      obtain ⟨L1, h0, ht⟩ := translate_cons_ok ht
      obtain ⟨L2, h1, ht⟩ := translate_cons_ok ht
      obtain ⟨L3, h2, ht⟩ := translate_cons_ok ht
      obtain ⟨L4, h3, ht⟩ := translate_cons_ok ht
      obtain ⟨L5, h4, ht⟩ := translate_cons_ok ht
      simp only [translate, Outcome.ok.injEq] at ht
      subst ht
      have hl : layers fuel
          [aliasMangler ["dials", "dialsenv"],
           flattenMangler ⟨"dials", .upperCamel, .casePreservingSnake⟩ fuel,
           tagReformatMangler "dials" CaseConv.decodeGoTags .upperSnake,
           tagCopyMangler "dials" "dialsenv",
           stringCastMangler (parseString toks)] fs =
          .ok [(aliasMangler ["dials", "dialsenv"], fs),
               (flattenMangler ⟨"dials", .upperCamel, .casePreservingSnake⟩ fuel, L1),
               (tagReformatMangler "dials" CaseConv.decodeGoTags .upperSnake, L2),
               (tagCopyMangler "dials" "dialsenv", L3),
               (stringCastMangler (parseString toks), L4)] := by
        simp only [layers, h0, h1, h2, h3, h4]
      rw [reverse_eq _ _ _ _ _ hl, reverseFold_eq]
      simp only [List.foldr]
      -- the shapes of the layers' field lists
      have ok1 : ∀ f ∈ L1, okTop f.2 = true := alias_fwd _ fuel fs L1 h0 hshape
      have ok2 : ∀ f ∈ L2, leafTyOk f.2 = true := flatten_fwd _ fuel fuel L1 L2 h1 ok1
      have ok3 : ∀ f ∈ L3, leafTyOk f.2 = true :=
        passThru_fwd _ (passThru_tagReformat _ _ _) fuel L2 L3 h2 ok2
      have ok4 : ∀ f ∈ L4, leafTyOk f.2 = true :=
        passThru_fwd _ (passThru_tagCopy _ _) fuel L3 L4 h3 ok3
      -- string cast
      have s4 := stepU_np fuel (stringCastMangler (parseString toks), L4) (.ok vals)
        (fun vs => All2 (fun (_ : FT) v => IsEnvVal v) L5 vs)
        (fun rs => All2 (fun (f : FT) v => LeafV f.2 v) L4 rs)
        (noPanic_ok _) (fun vs hvs => by cases hvs; exact hev)
        (fun vs hvs => stringCast_layer toks fuel L4 L5 vs h4 ok4 hvs)
      -- tag copy
      have s3 := stepU_np fuel (tagCopyMangler "dials" "dialsenv", L3) _ _
        (fun rs => All2 (fun (f : FT) v => LeafV f.2 v) L3 rs) s4.1 s4.2
        (fun vs hvs => passThru_layer _ (passThru_tagCopy _ _) fuel L3 L4 vs h3 ok3 hvs)
      -- tag reformat
      have s2 := stepU_np fuel (tagReformatMangler "dials" CaseConv.decodeGoTags .upperSnake, L2) _ _
        (fun rs => All2 (fun (f : FT) v => LeafV f.2 v) L2 rs) s3.1 s3.2
        (fun vs hvs => passThru_layer _ (passThru_tagReformat _ _ _) fuel L2 L3 vs h2 ok2 hvs)
      -- flatten
      have s1 := stepU_np fuel (flattenMangler ⟨"dials", .upperCamel, .casePreservingSnake⟩ fuel, L1) _ _
        (fun rs => All2 (fun (f : FT) v => Shaped f.2 v) L1 rs) s2.1 s2.2
        (fun vs hvs => flatten_layer _ fuel fuel L1 L2 vs h1 ok1 hvs)
      -- alias
      have s0 := stepU_np fuel (aliasMangler ["dials", "dialsenv"], fs) _ _
        (fun _ => True) s1.1 s1.2
        (fun vs hvs => ⟨alias_layer _ fuel fs L1 vs h0 hvs, fun _ _ => trivial⟩)
      exact s0.1


/-! ### concrete evaluation: a kernel-evaluable copy of `populate` -/

/-- populate's field loop over a given `populate` for the nested struct fields -/
def fieldsK (pop : Ty → List Val → Outcome (Val × List Val × Bool)) :
    Nat → List FT → List Val → List Val → Bool → Outcome (List Val × List Val × Bool)
  | 0, _, _, _, _ => .err "fuel"
  | _ + 1, [], vals, acc, any => .ok (acc, vals, any)
  | fl + 1, (_, nt) :: rest, vals, acc, any =>
    match stripPtrs nt with
    | .struct _ =>
      match pop nt vals with
      | .ok (v, vals', a) => fieldsK pop fl rest vals' (acc ++ [v]) (any || a)
      | .err c => .err c
      | .panic c => .panic c
    | _ =>
      match vals with
      | [] => .panic "index out of range"
      | v :: vals' => fieldsK pop fl rest vals' (acc ++ [v]) (any || !v.isNil)

/-- `populate` by structural recursion on the fuel (the model's definition is compiled by well-founded
recursion, which the kernel does not evaluate) -/
def populateK : Nat → Ty → List Val → Outcome (Val × List Val × Bool)
  | 0, _, _ => .err "fuel"
  | fuel + 1, t, vals =>
    match stripPtrs t with
    | .struct ifs =>
      match fieldsK (populateK fuel) (ifs.toList.length + 1) ifs.toList vals [] false with
      | .ok (fvs, vals', any) =>
        if any then .ok (wrapPtrs (ptrDepth t) (.struct fvs), vals', true)
        else .ok (.nilv, vals', false)
      | .err c => .err c
      | .panic c => .panic c
    | _ =>
      match vals with
      | [] => .panic "index out of range"
      | v :: vals' => .ok (v, vals', !v.isNil)

theorem fieldsK_eq (fuel : Nat) (ih : ∀ t vals, populate fuel t vals = populateK fuel t vals) :
    ∀ (fs : List FT) (fl : Nat) (vals acc : List Val) (any : Bool),
      populate.fields fuel fl fs vals acc any = fieldsK (populateK fuel) fl fs vals acc any := by
  intro fs
  induction fs with
  | nil =>
    intro fl vals acc any
    cases fl with
    | zero => rw [fields_zero]; rfl
    | succ fl => rw [fields_nil]; rfl
  | cons f fs ihfs =>
    intro fl vals acc any
    cases fl with
    | zero => rw [fields_zero]; rfl
    | succ fl =>
      obtain ⟨h, nt⟩ := f
      cases hs : stripPtrs nt with
      | struct ifs =>
        rw [fields_step_struct fuel fl (h, nt) fs vals acc any hs, ih]
        simp only [fieldsK, hs]
        cases populateK fuel nt vals with
        | ok x => obtain ⟨v, r, a⟩ := x; simp only [ihfs]
        | err c => rfl
        | panic c => rfl
      | _ =>
        rw [fields_step_leaf fuel fl (h, nt) fs vals acc any (by intro ifs h'; simp only at h'; rw [hs] at h'; cases h')]
        simp only [fieldsK, hs]
        cases vals with
        | nil => rfl
        | cons v vs => simp only [ihfs]

theorem populateK_eq : ∀ (fuel : Nat) (t : Ty) (vals : List Val), populate fuel t vals = populateK fuel t vals
  | 0, t, vals => by rw [populate_zero]; rfl
  | fuel + 1, t, vals => by
    cases hs : stripPtrs t with
    | struct ifs =>
      rw [populate_struct hs, fieldsK_eq fuel (populateK_eq fuel)]
      simp only [populateK, hs]
      rfl
    | _ =>
      rw [populate_leaf (by intro ifs h'; rw [hs] at h'; cases h')]
      simp only [populateK, hs]
      rfl


def flattenUnmangleK (fuel : Nat) (_ : Hdr) (t : Ty) (fvs : List (FT × Val)) : Outcome Val :=
  match populateK fuel t (fvs.map (·.2)) with
  | .ok (v, rest, _) => if rest.isEmpty then .ok v else .err "number of input values not equal to number of struct fields"
  | .err c => .err c
  | .panic c => .panic c

def flattenManglerK (cfg : FlattenCfg) (fuel : Nat) : Mangler :=
  { mangle := flattenMangle cfg fuel, unmangle := flattenUnmangleK fuel, recurse := false }

theorem flattenManglerK_eq (cfg : FlattenCfg) (fuel : Nat) : flattenMangler cfg fuel = flattenManglerK cfg fuel := by
  have : flattenUnmangle fuel = flattenUnmangleK fuel := by
    funext h t fvs
    simp only [flattenUnmangle, flattenUnmangleK, populateK_eq]
    rfl
  simp only [flattenMangler, flattenManglerK, this]

/-- the env chain with the kernel-evaluable `populate` -/
def envChainK (fuel : Nat) (toks : TokTable) : List Mangler :=
  [aliasMangler ["dials", "dialsenv"],
   flattenManglerK ⟨"dials", .upperCamel, .casePreservingSnake⟩ fuel,
   tagReformatMangler "dials" CaseConv.decodeGoTags .upperSnake,
   tagCopyMangler "dials" "dialsenv",
   stringCastMangler (parseString toks)]

theorem envChainK_eq (fuel : Nat) (toks : TokTable) : envChain fuel toks = envChainK fuel toks := by
  rw [envChain_eq, flattenManglerK_eq]; rfl

def panicClass {α : Type} : Outcome α → Option String
  | .panic c => some c
  | _ => none

theorem eq_panic_of_class {α : Type} {o : Outcome α} {c : String} (h : panicClass o = some c) : o = .panic c := by
  cases o with
  | panic c' => simp [panicClass] at h; rw [h]
  | ok a => cases h
  | err e => cases h

def errClass {α : Type} : Outcome α → Option String
  | .err c => some c
  | _ => none

theorem eq_err_of_class {α : Type} {o : Outcome α} {c : String} (h : errClass o = some c) : o = .err c := by
  cases o with
  | err c' => simp [errClass] at h; rw [h]
  | ok a => cases h
  | panic e => cases h

/-! ### the model's panics are reachable outside `SupportedCfg`; the repaired shapes are errors inside it -/

def cxToks : TokTable := fun _ => ([Parse.Tok.scanErr], [Parse.Tok.scanErr])
def cxInt : Ty := .basic (.int .int) false

/-- `P *struct{ X struct{ A *int } }`: a struct nested by value -/
def cxValueStruct : List FT :=
  [(⟨"P", [], false⟩, .ptr (.struct (Fields.ofList
    [(⟨"X", [], false⟩, .struct (Fields.ofList [(⟨"A", [], false⟩, .ptr cxInt)]))])))]

/-- `P *struct{ B *int; X struct{ A *int } }`: a struct nested by value next to a sibling field -/
def cxValueStructSibling : List FT :=
  [(⟨"P", [], false⟩, .ptr (.struct (Fields.ofList
    [(⟨"B", [], false⟩, .ptr cxInt),
     (⟨"X", [], false⟩, .struct (Fields.ofList [(⟨"A", [], false⟩, .ptr cxInt)]))])))]

/-- `P **struct{ A int }`: a scalar field Pointerify did not wrap (it stops at the user's pointer); an
error since the repair of P02, and supported -/
def cxUnwrappedLeaf : List FT :=
  [(⟨"P", [], false⟩, .ptr (.ptr (.struct (Fields.ofList [(⟨"A", [], false⟩, cxInt)]))))]

/-- `A *int` tagged `dials:"_"`: the reformatted tag is empty (an error since the repair of P05) -/
def cxEmptyTag : List FT := [(⟨"A", [("dials", "_")], false⟩, .ptr cxInt)]

/-- `A *int` tagged `dialsenv:""` (an error since the repair of P05) -/
def cxEmptyEnvTag : List FT := [(⟨"A", [("dialsenv", "")], false⟩, .ptr cxInt)]

/-- `P **struct{ R [2]struct{ A *int } }`: an array of structs as a flattened leaf -/
def cxArrayOfStructs : List FT :=
  [(⟨"P", [], false⟩, .ptr (.ptr (.struct (Fields.ofList
    [(⟨"R", [], false⟩, .array 2 (.struct (Fields.ofList [(⟨"A", [], false⟩, .ptr cxInt)])))]))))]

set_option maxRecDepth 100000 in
/-- since the repair of P02 (`populate` stores the rebuilt struct itself in a struct held by value; before:
`.panic "reflect.Set: *struct into struct"`) the by-value struct `X` is rebuilt -/
theorem envValue_value_struct_rebuilt :
    envValue 64 (envChain 64 cxToks) "" cxValueStruct (fun s => if s = "P_X_A" then some "1" else none) =
      .ok [.ptr (.struct [.struct [.ptr (.i 1)]])] := by
  rw [envChainK_eq]
  rfl

set_option maxRecDepth 100000 in
/-- … and with nothing set the whole value stays unset -/
theorem envValue_value_struct_unset :
    envValue 64 (envChain 64 cxToks) "" cxValueStruct (fun _ => none) = .ok [.nilv] := by
  rw [envChainK_eq]
  rfl

set_option maxRecDepth 100000 in
/-- the by-value struct next to a sibling: with the struct's own leaf set both are rebuilt … -/
theorem envValue_value_struct_sibling_rebuilt :
    envValue 64 (envChain 64 cxToks) "" cxValueStructSibling (fun s => if s = "P_X_A" then some "1" else none) =
      .ok [.ptr (.struct [.nilv, .struct [.ptr (.i 1)]])] := by
  rw [envChainK_eq]
  rfl

set_option maxRecDepth 100000 in
/-- … but with only the SIBLING set the unset by-value struct is `nilv` in the model (there is no zero
struct), which the recursing alias mangler meets at a struct type: a MODEL artefact (the real code
passes the zero struct through), and the reason why `okField` keeps excluding structs held by value -/
theorem envValue_panics_value_struct_sibling :
    envValue 64 (envChain 64 cxToks) "" cxValueStructSibling (fun s => if s = "P_B" then some "1" else none) =
      .panic "ReverseTranslate of a non-struct" := by
  rw [envChainK_eq]
  apply eq_panic_of_class
  decide

set_option maxRecDepth 100000 in
/-- since the repair of P02 the string-cast mangler answers a field type without element type with an
error (before: `.panic "reflect: Elem of invalid type"`) -/
theorem envValue_unwrapped_leaf_is_error :
    envValue 64 (envChain 64 cxToks) "" cxUnwrappedLeaf (fun s => if s = "P_A" then some "1" else none) =
      .err "cannot cast a string to a field that is not a pointer, slice or map" := by
  rw [envChainK_eq]
  apply eq_err_of_class
  decide

set_option maxRecDepth 100000 in
/-- since the repair of P05 an empty `dialsenv` tag is an error (before: `.panic "empty dialsenv tag"`) -/
theorem envValue_empty_tag_is_error (lookup : String → Option String) :
    envValue 64 (envChain 64 cxToks) "" cxEmptyTag lookup = .err "empty dialsenv tag" := by
  rw [envChainK_eq]
  apply eq_err_of_class
  rfl

set_option maxRecDepth 100000 in
theorem envValue_empty_envtag_is_error (lookup : String → Option String) :
    envValue 64 (envChain 64 cxToks) "" cxEmptyEnvTag lookup = .err "empty dialsenv tag" := by
  rw [envChainK_eq]
  apply eq_err_of_class
  rfl

set_option maxRecDepth 100000 in
/-- with NO variable set: the unset array reaches the recursing tag-copy mangler as nil -/
theorem envValue_panics_array_of_structs :
    envValue 64 (envChain 64 cxToks) "" cxArrayOfStructs (fun _ => none) =
      .panic "unexpected value kind in recursive unmangle" := by
  rw [envChainK_eq]
  apply eq_panic_of_class
  decide

theorem counterexamples_unsupported :
    SupportedCfg 64 cxValueStructSibling = false ∧ SupportedCfg 64 cxArrayOfStructs = false := by
  decide

/-- `SupportedCfg` is sufficient, not necessary: the lone by-value struct is outside it although the model
evaluates to values on it (`envValue_value_struct_rebuilt`, `envValue_value_struct_unset`) -/
theorem value_struct_unsupported : SupportedCfg 64 cxValueStruct = false := by
  decide

/-- the shapes whose panics were repaired into errors are inside the supported set -/
theorem repaired_now_supported :
    SupportedCfg 64 cxUnwrappedLeaf = true ∧ SupportedCfg 64 cxEmptyTag = true ∧
    SupportedCfg 64 cxEmptyEnvTag = true := by
  decide

/-! ### non-vacuity -/

/-- a pointer to a struct with a nested pointer-to-struct, a named scalar behind a pointer, a slice, a map
and a user pointer (`**bool`); a field with a `dials` tag; a field with a `dialsenvalias` tag -/
def okCfg : List FT :=
  [(⟨"P", [], false⟩, .ptr (.struct (Fields.ofList
      [(⟨"Q", [], false⟩, .ptr (.struct (Fields.ofList [(⟨"A", [], false⟩, .ptr cxInt)]))),
       (⟨"N", [], false⟩, .ptr (.basic (.int .i64) true)),
       (⟨"S", [], false⟩, .slice (.basic .str false)),
       (⟨"M", [], false⟩, .map (.basic .str false) (.basic .str false)),
       (⟨"PP", [], false⟩, .ptr (.ptr (.basic .bool false)))]))),
   (⟨"T", [("dials", "custom_name")], false⟩, .ptr cxInt),
   (⟨"U", [("dialsenvalias", "OLD_U")], false⟩, .ptr (.basic .str false))]

set_option maxRecDepth 100000 in
example : SupportedCfg 200 okCfg = true := by decide

set_option maxRecDepth 100000 in
example : envNames 200 (envChain 200 cxToks) "" okCfg =
    .ok ["P_Q_A", "P_N", "P_S", "P_M", "P_PP", "CUSTOM_NAME", "U", "OLD_U"] := by decide

set_option maxRecDepth 100000 in
example : (envValue 200 (envChain 200 cxToks) "" okCfg
    (fun s => if s = "P_Q_A" then some "7" else if s = "OLD_U" then some "x" else none)).isOk = true := by
  rw [envChainK_eq]
  decide

set_option maxRecDepth 100000 in
/-- a nested leaf without element type (`P **struct{ A int }`) with nothing set: a value, not an error -/
example : (envValue 64 (envChain 64 cxToks) "" cxUnwrappedLeaf (fun _ => none)).isOk = true := by
  rw [envChainK_eq]
  decide

end Dials.Total
