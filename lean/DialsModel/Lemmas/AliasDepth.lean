/-
Helper lemmas for the depth / sibling theorems of Props/C14.lean: one reverse pass of the alias mangler
(`unmangleLayer … (aliasMangler tags)`) over a layer of fields

* is computed block by block (`unmangleLayer_append`, `unmangleLayer_alias_append`): the outcome of a block
  of fields depends on the values of its own outputs only;
* leaves the values of fields without alias tags and without a struct below them alone (`unmangleLayer_plain`);
* on an aliased leaf is `aliasUnmangle` on the two values (`unmangleLayer_alias_leaf`);
* commutes with nesting below struct-typed fields (pointer to struct, struct by value, slice / array of
  struct) without alias tags (`nest_lift`): fuel `2` per level.
-/
import DialsModel.Lemmas.TfChain
import DialsModel.Lemmas.EnvAlias

namespace Dials.Tf

/-! ### sequencing of outcomes -/

/-- first `a`, then `b` (the first failure wins), results appended: `mapM'` over an appended list -/
def seqOut {α} (a b : Outcome (List α)) : Outcome (List α) :=
  match a with
  | .ok r1 =>
    match b with
    | .ok r2 => .ok (r1 ++ r2)
    | .err c => .err c
    | .panic c => .panic c
  | .err c => .err c
  | .panic c => .panic c

/-- the result mapped, failures kept -/
def mapOut {α β} (g : α → β) : Outcome α → Outcome β
  | .ok a => .ok (g a)
  | .err c => .err c
  | .panic c => .panic c

@[simp] theorem mapOut_ok {α β} (g : α → β) (a : α) : mapOut g (.ok a) = .ok (g a) := rfl
@[simp] theorem mapOut_err {α β} (g : α → β) (c : String) : mapOut g (.err c : Outcome α) = .err c := rfl
@[simp] theorem mapOut_panic {α β} (g : α → β) (c : String) : mapOut g (.panic c : Outcome α) = .panic c := rfl

theorem mapOut_mapOut {α β γ} (g : β → γ) (f : α → β) (x : Outcome α) :
    mapOut g (mapOut f x) = mapOut (fun a => g (f a)) x := by
  cases x <;> rfl

theorem mapM'_append_seq {α β} (f : α → Outcome β) : ∀ (xs ys : List α),
    mapM' f (xs ++ ys) = seqOut (mapM' f xs) (mapM' f ys)
  | [], ys => by
    cases h : mapM' f ys <;> simp [mapM', seqOut, h]
  | x :: xs, ys => by
    simp only [List.cons_append, mapM', mapM'_append_seq f xs ys]
    cases f x <;> cases mapM' f xs <;> cases mapM' f ys <;> simp [seqOut]

/-- a `mapM'` all of whose calls succeed succeeds -/
theorem mapM'_ok_of_each {α β} (f : α → Outcome β) : ∀ (xs : List α), (∀ x ∈ xs, ∃ b, f x = .ok b) →
    ∃ bs, mapM' f xs = .ok bs
  | [], _ => ⟨[], rfl⟩
  | x :: xs, h => by
    obtain ⟨b, hb⟩ := h x (by simp)
    obtain ⟨bs, hbs⟩ := mapM'_ok_of_each f xs (fun y hy => h y (by simp [hy]))
    exact ⟨b :: bs, by simp [mapM', hb, hbs]⟩

/-! ### splitCounts -/

theorem splitCounts_length {α} : ∀ (c : List Nat) (v : List α), (splitCounts c v).length = c.length
  | [], _ => rfl
  | n :: c, v => by simp [splitCounts, splitCounts_length c]

theorem splitCounts_append {α} : ∀ (c1 c2 : List Nat) (v1 v2 : List α), v1.length = c1.sum →
    splitCounts (c1 ++ c2) (v1 ++ v2) = splitCounts c1 v1 ++ splitCounts c2 v2
  | [], c2, v1, v2, h => by
    have : v1 = [] := by simpa using h
    subst this
    simp [splitCounts]
  | n :: c1, c2, v1, v2, h => by
    simp only [List.sum_cons] at h
    have hn : n ≤ v1.length := by omega
    simp only [List.cons_append, splitCounts]
    rw [List.take_append_of_le_length hn, List.drop_append_of_le_length hn,
      splitCounts_append c1 c2 (v1.drop n) v2 (by simp; omega)]

/-! ### a layer is reversed block by block -/

/-- ReverseTranslate's running offset: the outcome of one reverse pass over `A ++ B` is the outcome over `A`
(on the values of `A`'s outputs) followed by the outcome over `B` (on the rest) -/
theorem unmangleLayer_append (fuel : Nat) (m : Mangler) (A B : List FT) (oA oB : List (List FT))
    (va vb : List Val)
    (hA : mapM' (fun (f : FT) => m.mangle f.1 f.2) A = .ok oA)
    (hB : mapM' (fun (f : FT) => m.mangle f.1 f.2) B = .ok oB)
    (hl : va.length = (oA.map List.length).sum) :
    unmangleLayer (fuel + 1) m (A ++ B) (va ++ vb) =
      seqOut (unmangleLayer (fuel + 1) m A va) (unmangleLayer (fuel + 1) m B vb) := by
  have hAB : mapM' (fun (f : FT) => m.mangle f.1 f.2) (A ++ B) = .ok (oA ++ oB) := by
    rw [mapM'_append_seq, hA, hB]; rfl
  have h1 : oA.length = A.length := mapM'_length hA
  rw [unmangleLayer_succ, unmangleLayer_succ, unmangleLayer_succ, hAB, hA, hB]
  simp only [List.map_append]
  rw [splitCounts_append _ _ _ _ hl,
    List.zip_append (by simp [splitCounts_length]),
    List.zip_append (by simp [splitCounts_length, h1]), mapM'_append_seq]

/-! ### the alias mangler: outputs per field -/

/-- no alias tag for any of the mangler's tags (the hypothesis of `C14_no_alias`) -/
def NoAliasTag (tags : List String) (h : Hdr) : Prop :=
  ∀ tag ∈ tags, tagGet h.tags (tag ++ "alias") = none

theorem isAliased_eq (tags : List String) (h : Hdr) : isAliased tags h = !(aliasFound tags h).isEmpty := rfl

theorem isAliased_of_noAliasTag {tags : List String} {h : Hdr} (hn : NoAliasTag tags h) :
    isAliased tags h = false := by
  have hf : aliasFound tags h = [] := by
    cases hfd : aliasFound tags h with
    | nil => rfl
    | cons p f =>
      have hp : p ∈ aliasFound tags h := by rw [hfd]; exact List.mem_cons_self
      have := mem_aliasFound.1 hp
      rw [hn p.1 this.1] at this
      cases this.2
  rw [isAliased_eq, hf]; rfl

theorem isAliased_of_tag {tags : List String} {h : Hdr} {tag a : String}
    (ht : tag ∈ tags) (ha : tagGet h.tags (tag ++ "alias") = some a) : isAliased tags h = true := by
  have hmem : (tag, a) ∈ aliasFound tags h := mem_aliasFound.2 ⟨ht, ha⟩
  rw [isAliased_eq]
  cases hfd : aliasFound tags h with
  | nil => rw [hfd] at hmem; cases hmem
  | cons p f => rfl

theorem aliasMangle_of_noAliasTag {tags : List String} {h : Hdr} (hn : NoAliasTag tags h) (t : Ty) :
    aliasMangle tags h t = .ok [(h, t)] := by
  rcases aliasMangle_shape tags h t with ⟨_, hs⟩ | ⟨ha, _⟩
  · exact hs
  · rw [isAliased_of_noAliasTag hn] at ha; cases ha

/-- the number of fields `aliasMangle` makes of a field -/
def aliasWidth (tags : List String) (f : FT) : Nat := if isAliased tags f.1 then 2 else 1

theorem aliasMangle_width (tags : List String) (f : FT) :
    ∃ outs, aliasMangle tags f.1 f.2 = .ok outs ∧ outs.length = aliasWidth tags f ∧ ∀ o ∈ outs, o.2 = f.2 := by
  rcases aliasMangle_shape tags f.1 f.2 with ⟨ha, hs⟩ | ⟨ha, h1, h2, hs⟩
  · exact ⟨_, hs, by simp [aliasWidth, ha], by simp⟩
  · refine ⟨_, hs, by simp [aliasWidth, ha], ?_⟩
    intro o ho
    simp only [List.mem_cons, List.not_mem_nil, or_false] at ho
    rcases ho with rfl | rfl <;> rfl

/-- `aliasMangle` never fails: the recomputed outputs of a layer -/
theorem aliasMangle_layer (tags : List String) : ∀ (fs : List FT),
    ∃ outss, mapM' (fun (f : FT) => (aliasMangler tags).mangle f.1 f.2) fs = .ok outss ∧
      outss.map List.length = fs.map (aliasWidth tags)
  | [] => ⟨[], rfl, rfl⟩
  | f :: fs => by
    obtain ⟨outs, ho, hl, _⟩ := aliasMangle_width tags f
    obtain ⟨outss, hos, hls⟩ := aliasMangle_layer tags fs
    refine ⟨outs :: outss, ?_, by simp [hl, hls]⟩
    simp only [mapM', hos]
    simp only [aliasMangler, ho]

/-- sibling independence: the alias pass over `A ++ B` is the pass over `A` on the values of `A`'s outputs
followed by the pass over `B` on the rest — for ARBITRARY fields `A`, `B` (aliased or not, structs below them
or not) -/
theorem unmangleLayer_alias_append (tags : List String) (fuel : Nat) (A B : List FT) (va vb : List Val)
    (hl : va.length = (A.map (aliasWidth tags)).sum) :
    unmangleLayer (fuel + 1) (aliasMangler tags) (A ++ B) (va ++ vb) =
      seqOut (unmangleLayer (fuel + 1) (aliasMangler tags) A va)
        (unmangleLayer (fuel + 1) (aliasMangler tags) B vb) := by
  obtain ⟨oA, hA, hlA⟩ := aliasMangle_layer tags A
  obtain ⟨oB, hB, _⟩ := aliasMangle_layer tags B
  exact unmangleLayer_append fuel _ A B oA oB va vb hA hB (by rw [hlA]; exact hl)

/-! ### single fields -/

/-- a one-field layer whose field has no alias tag: the recursion into the field's value, nothing else
(`recurseType` is evaluated for the field handed to `Unmangle`: it can only fail for lack of fuel) -/
theorem unmangleLayer_noalias_single (tags : List String) (k : Nat) (H : Hdr) (T : Ty) (v : Val)
    (hn : NoAliasTag tags H) :
    unmangleLayer (k + 1) (aliasMangler tags) [(H, T)] [v] =
      match recurseVal k (aliasMangler tags) (H, T) v with
      | .ok w =>
        match recurseType k (aliasMangler tags) (H, T) with
        | .ok _ => .ok [w]
        | .err c => .err c
        | .panic c => .panic c
      | .err c => .err c
      | .panic c => .panic c := by
  have hm : (aliasMangler tags).mangle H T = .ok [(H, T)] := aliasMangle_of_noAliasTag hn T
  rw [unmangleLayer_succ]
  simp only [mapM', hm, List.map_cons, List.map_nil, List.length_cons, List.length_nil, splitCounts,
    List.zip_cons_cons, List.zip_nil_right, unmBody, List.take]
  cases h1 : recurseVal k (aliasMangler tags) (H, T) v <;> simp
  cases h2 : recurseType k (aliasMangler tags) (H, T) <;> simp [aliasMangler, aliasUnmangle]

/-- a one-field layer whose field carries an alias tag and has no struct below it, on the values of the
primary and the alias copy: `aliasUnmangle` on the two values (the fields handed to it are irrelevant) -/
theorem unmangleLayer_alias_leaf (tags : List String) (k : Nat) (h : Hdr) (t : Ty) (vp va : Val)
    (hal : isAliased tags h = true) (hst : structish t = none) (fp fa : FT) :
    unmangleLayer (k + 2) (aliasMangler tags) [(h, t)] [vp, va] =
      mapOut (fun c => [c]) (aliasUnmangle h t [(fp, vp), (fa, va)]) := by
  rcases aliasMangle_shape tags h t with ⟨ha, _⟩ | ⟨_, h1, h2, hs⟩
  · rw [hal] at ha; cases ha
  have hm : (aliasMangler tags).mangle h t = .ok [(h1, t), (h2, t)] := hs
  have r1 : ∀ (hh : Hdr) (v : Val), recurseVal (k + 1) (aliasMangler tags) (hh, t) v = .ok v :=
    fun hh v => recurseVal_id k _ (hh, t) v (Or.inr hst)
  have r2 : ∀ (hh : Hdr), recurseType (k + 1) (aliasMangler tags) (hh, t) = .ok (hh, t) :=
    fun hh => recurseType_id k _ (hh, t) (Or.inr hst)
  rw [unmangleLayer_succ]
  simp only [mapM', hm, List.map_cons, List.map_nil, List.length_cons, List.length_nil, splitCounts,
    List.zip_cons_cons, List.zip_nil_right, unmBody, List.take, r1, r2]
  cases hp : isUnsetAt t vp <;> cases ha : isUnsetAt t va <;> simp [aliasMangler, aliasUnmangle, hp, ha]

/-! ### plain siblings -/

/-- fields without alias tags and without a struct below them -/
def Plain (tags : List String) (fs : List FT) : Prop :=
  ∀ f ∈ fs, NoAliasTag tags f.1 ∧ structish f.2 = none

theorem Plain.width {tags : List String} : ∀ {fs : List FT}, Plain tags fs →
    (fs.map (aliasWidth tags)).sum = fs.length
  | [], _ => rfl
  | f :: fs, h => by
    have h1 := isAliased_of_noAliasTag (h f (by simp)).1
    have h2 := Plain.width (tags := tags) (fs := fs) (fun g hg => h g (by simp [hg]))
    simp [aliasWidth, h1, h2]; omega

/-- plain fields pass their values through untouched -/
theorem unmangleLayer_plain (tags : List String) (k : Nat) : ∀ (fs : List FT) (vs : List Val),
    Plain tags fs → vs.length = fs.length →
    unmangleLayer (k + 2) (aliasMangler tags) fs vs = .ok vs
  | [], [], _, _ => by
    rw [unmangleLayer_succ]; simp [mapM', splitCounts]
  | [], _ :: _, _, h => by simp at h
  | _ :: _, [], _, h => by simp at h
  | f :: fs, v :: vs, hp, hl => by
    obtain ⟨H, T⟩ := f
    have hf := hp (H, T) (by simp)
    have ih := unmangleLayer_plain tags k fs vs (fun g hg => hp g (by simp [hg])) (by simpa using hl)
    have := unmangleLayer_alias_append tags (k + 1) [(H, T)] fs [v] vs
      (by simp [aliasWidth, isAliased_of_noAliasTag hf.1])
    simp only [List.singleton_append] at this
    rw [this, ih, unmangleLayer_noalias_single tags (k + 1) H T v hf.1,
      recurseVal_id k _ (H, T) v (Or.inr hf.2), recurseType_id k _ (H, T) (Or.inr hf.2)]
    rfl

/-- THE FRAME: a block of fields between plain siblings.  The siblings' values pass through untouched and
do not influence the block's outcome. -/
theorem unmangleLayer_frame (tags : List String) (k : Nat) (pre X post : List FT) (vpre gx vpost : List Val)
    (hpre : Plain tags pre) (hpost : Plain tags post)
    (hlpre : vpre.length = pre.length) (hlpost : vpost.length = post.length)
    (hlx : gx.length = (X.map (aliasWidth tags)).sum) :
    unmangleLayer (k + 2) (aliasMangler tags) (pre ++ X ++ post) (vpre ++ gx ++ vpost) =
      mapOut (fun r => vpre ++ r ++ vpost) (unmangleLayer (k + 2) (aliasMangler tags) X gx) := by
  rw [List.append_assoc, List.append_assoc,
    unmangleLayer_alias_append tags (k + 1) pre (X ++ post) vpre (gx ++ vpost) (by rw [hpre.width, hlpre]),
    unmangleLayer_alias_append tags (k + 1) X post gx vpost hlx,
    unmangleLayer_plain tags k pre vpre hpre hlpre, unmangleLayer_plain tags k post vpost hpost hlpost]
  cases unmangleLayer (k + 1 + 1) (aliasMangler tags) X gx <;> simp [seqOut]

/-! ### the forward pass succeeds -/

theorem fields_toList_ofList : ∀ (fs : List FT), (Fields.ofList fs).toList = fs
  | [] => rfl
  | (h, t) :: r => by simp [Fields.ofList, Fields.toList, fields_toList_ofList r]

/-- the alias mangler's forward pass over a layer succeeds as soon as the recursion into every field's type
does (whatever header the copy carries) -/
theorem mangleLayer_alias_ok (tags : List String) (k : Nat) (fs : List FT)
    (h : ∀ f ∈ fs, ∀ hh : Hdr, ∃ o', recurseType k (aliasMangler tags) (hh, f.2) = .ok o') :
    ∃ r, mangleLayer (k + 1) (aliasMangler tags) fs = .ok r := by
  obtain ⟨groups, hg⟩ := mapM'_ok_of_each (fun (f : FT) =>
      match (aliasMangler tags).mangle f.1 f.2 with
      | .ok outs => mapM' (recurseType k (aliasMangler tags)) outs
      | .err c => .err c
      | .panic c => .panic c) fs (by
    intro f hf
    obtain ⟨outs, ho, _, hty⟩ := aliasMangle_width tags f
    have ho' : (aliasMangler tags).mangle f.1 f.2 = .ok outs := ho
    simp only [ho']
    apply mapM'_ok_of_each
    intro o hoo
    have := h f hf o.1
    rw [← hty o hoo] at this
    exact this)
  refine ⟨groups.flatten, ?_⟩
  simp only [mangleLayer]
  split
  · rename_i g' hg'
    exact congrArg (fun g => Outcome.ok (List.flatten g)) (Outcome.ok.inj (hg'.symm.trans hg))
  · rename_i c hc
    exact absurd (hc.symm.trans hg) (by simp)
  · rename_i c hc
    exact absurd (hc.symm.trans hg) (by simp)

theorem mangleLayer_plain_ok (tags : List String) (k : Nat) (fs : List FT)
    (h : ∀ f ∈ fs, structish f.2 = none) : ∃ r, mangleLayer (k + 2) (aliasMangler tags) fs = .ok r :=
  mangleLayer_alias_ok tags (k + 1) fs (fun f hf hh => ⟨_, recurseType_id k _ (hh, f.2) (Or.inr (h f hf))⟩)

/-! ### the forward pass succeeds on every type, given fuel above twice its size -/

theorem tySize_pos (t : Ty) : 0 < tySize t := by
  cases t <;> simp [tySize]

theorem fieldsSize_lt_of_structish {t : Ty} {ifs : Fields} {w : Ty → Ty} (h : structish t = some (ifs, w)) :
    fieldsSize ifs + 1 ≤ tySize t := by
  cases t with
  | struct fs => simp only [structish, Option.some.injEq, Prod.mk.injEq] at h; rw [← h.1]; simp [tySize]
  | ptr e => cases e <;> simp [structish] at h; rw [← h.1]; simp [tySize]
  | slice e => cases e <;> simp [structish] at h; rw [← h.1]; simp [tySize]
  | array n e => cases e <;> simp [structish] at h; rw [← h.1]; simp [tySize]
  | _ => simp [structish] at h

/-- the alias mangler's forward pass (TranslateType with the recursion into struct-typed fields) succeeds on
EVERY layer of fields, given fuel above twice the size of the largest field type -/
theorem alias_forward_total (tags : List String) : ∀ (fuel : Nat),
    (∀ fs : List FT, 1 ≤ fuel → (∀ f ∈ fs, 2 * tySize f.2 + 1 ≤ fuel) →
      ∃ r, mangleLayer fuel (aliasMangler tags) fs = .ok r) ∧
    (∀ (hh : Hdr) (t : Ty), 1 ≤ fuel → 2 * tySize t ≤ fuel →
      ∃ o', recurseType fuel (aliasMangler tags) (hh, t) = .ok o')
  | 0 => ⟨fun _ h _ => by omega, fun _ _ h _ => by omega⟩
  | fuel + 1 => by
    obtain ⟨ihP, ihQ⟩ := alias_forward_total tags fuel
    constructor
    · intro fs _ hsz
      apply mangleLayer_alias_ok tags fuel fs
      intro f hf hh
      have h1 := hsz f hf
      have h2 := tySize_pos f.2
      exact ihQ hh f.2 (by omega) (by omega)
    · intro hh t _ hsz
      have hrec : (aliasMangler tags).recurse = true := rfl
      cases hs : structish t with
      | none => exact ⟨_, recurseType_id fuel _ (hh, t) (Or.inr hs)⟩
      | some p =>
        obtain ⟨ifs, w⟩ := p
        have h1 := fieldsSize_lt_of_structish hs
        obtain ⟨r, hr⟩ := ihP ifs.toList (by omega) (fun g hg => by
          have := tySize_lt_of_mem_toList ifs g hg
          omega)
        exact ⟨(hh, w (.struct (Fields.ofList r))),
          by simp only [recurseType, hrec, hs, hr, Bool.not_true, Bool.false_eq_true, if_false]⟩

theorem mangleLayer_alias_total (tags : List String) (fs : List FT) (fuel : Nat) (h1 : 1 ≤ fuel)
    (hsz : ∀ f ∈ fs, 2 * tySize f.2 + 1 ≤ fuel) : ∃ r, mangleLayer fuel (aliasMangler tags) fs = .ok r :=
  (alias_forward_total tags fuel).1 fs h1 hsz

/-! ### nesting -/

/-- how the enclosing field holds the struct -/
inductive Held where
  /-- `*struct`: what Pointerify makes of a nested struct -/
  | ptr
  /-- a struct held by value (the element structs of collections are not pointerified) -/
  | byValue
  /-- `[]struct` -/
  | slice
  /-- `[n]struct` -/
  | array (n : Nat)
deriving Repr, DecidableEq

/-- the enclosing field's type -/
def Held.ty : Held → Fields → Ty
  | .ptr, fs => .ptr (.struct fs)
  | .byValue, fs => .struct fs
  | .slice, fs => .slice (.struct fs)
  | .array n, fs => .array n (.struct fs)

/-- the enclosing field's value holding the struct value `sv` (for a slice / array: as its one element) -/
def Held.val : Held → Val → Val
  | .ptr, sv => .ptr sv
  | .byValue, sv => sv
  | .slice, sv => .list [sv]
  | .array _, sv => .list [sv]

theorem Held.structish_ty (w : Held) (fs : Fields) : ∃ wr, structish (w.ty fs) = some (fs, wr) := by
  cases w <;> exact ⟨_, rfl⟩

/-- the recursion into the value of a struct-typed field is the reverse pass over the inner layer -/
theorem recurseVal_wrap (tags : List String) (j : Nat) (H : Hdr) (w : Held) (I : List FT) (vs : List Val) :
    recurseVal (j + 1) (aliasMangler tags) (H, w.ty (Fields.ofList I)) (w.val (.struct vs)) =
      mapOut (fun r => w.val (.struct r)) (unmangleLayer j (aliasMangler tags) I vs) := by
  have hrec : (aliasMangler tags).recurse = true := rfl
  cases w <;>
    simp only [recurseVal, Held.ty, Held.val, structish, hrec, fields_toList_ofList, mapM',
      Bool.not_true, Bool.false_eq_true, if_false] <;>
    cases unmangleLayer j (aliasMangler tags) I vs <;> rfl

/-- a nil pointer / nil slice is not descended into -/
theorem recurseVal_wrap_nil (tags : List String) (j : Nat) (H : Hdr) (w : Held) (fs : Fields)
    (hw : w = .ptr ∨ w = .slice) :
    recurseVal (j + 1) (aliasMangler tags) (H, w.ty fs) .nilv = .ok .nilv := by
  have hrec : (aliasMangler tags).recurse = true := rfl
  rcases hw with rfl | rfl <;> simp [recurseVal, Held.ty, structish, hrec]

/-- the recursion into the type of a struct-typed field is the forward pass over the inner layer -/
theorem recurseType_wrap (tags : List String) (j : Nat) (H : Hdr) (w : Held) (I : List FT) :
    recurseType (j + 1) (aliasMangler tags) (H, w.ty (Fields.ofList I)) =
      mapOut (fun r => (H, w.ty (Fields.ofList r))) (mangleLayer j (aliasMangler tags) I) := by
  have hrec : (aliasMangler tags).recurse = true := rfl
  cases w <;>
    simp only [recurseType, Held.ty, structish, hrec, fields_toList_ofList,
      Bool.not_true, Bool.false_eq_true, if_false] <;>
    cases mangleLayer j (aliasMangler tags) I <;> rfl

theorem recurseType_wrap_ok (tags : List String) (j : Nat) (H : Hdr) (w : Held) (I : List FT)
    (h : ∃ r, mangleLayer j (aliasMangler tags) I = .ok r) :
    ∃ o', recurseType (j + 1) (aliasMangler tags) (H, w.ty (Fields.ofList I)) = .ok o' := by
  obtain ⟨r, hr⟩ := h
  exact ⟨_, by rw [recurseType_wrap, hr]; rfl⟩

theorem mapM'_structs (g : List Val → Outcome (List Val)) (inner : Val → Outcome Val)
    (hin : ∀ vs, inner (.struct vs) = mapOut Val.struct (g vs)) : ∀ (vss : List (List Val)),
    mapM' inner (vss.map Val.struct) = mapOut (List.map Val.struct) (mapM' g vss)
  | [] => rfl
  | vs :: vss => by
    simp only [List.map_cons, mapM', hin vs, mapM'_structs g inner hin vss]
    cases g vs <;> cases mapM' g vss <;> rfl

/-- the recursion into a slice / array of structs: the reverse pass over the element type's layer, element by
element (the first failing element wins) -/
theorem recurseVal_collection (tags : List String) (j : Nat) (H : Hdr) (w : Held) (I : List FT)
    (vss : List (List Val)) (hw : w = .slice ∨ ∃ n, w = .array n) :
    recurseVal (j + 1) (aliasMangler tags) (H, w.ty (Fields.ofList I)) (.list (vss.map Val.struct)) =
      mapOut (fun rs => .list (rs.map Val.struct)) (mapM' (unmangleLayer j (aliasMangler tags) I) vss) := by
  have hrec : (aliasMangler tags).recurse = true := rfl
  rcases hw with rfl | ⟨n, rfl⟩ <;>
  · simp only [recurseVal, Held.ty, structish, hrec, fields_toList_ofList,
      Bool.not_true, Bool.false_eq_true, if_false]
    rw [mapM'_structs (unmangleLayer j (aliasMangler tags) I) _ (fun vs => by
      cases h : unmangleLayer j (aliasMangler tags) I vs <;> simp [h])]
    cases mapM' (unmangleLayer j (aliasMangler tags) I) vss <;> rfl

/-- one level of nesting: the struct-typed field `hdr` (no alias tags) that holds the next level, its plain
siblings `pre`, `post` and their values -/
structure Level where
  pre : List FT
  hdr : Hdr
  held : Held
  post : List FT
  vpre : List Val
  vpost : List Val

/-- the enclosing field and its siblings carry no alias tags, the siblings have no struct below them, and
there is one value per sibling -/
def Level.WF (tags : List String) (L : Level) : Prop :=
  Plain tags L.pre ∧ Plain tags L.post ∧ NoAliasTag tags L.hdr ∧
    L.vpre.length = L.pre.length ∧ L.vpost.length = L.post.length

/-- the layer `I` nested below the levels `Ls` (outermost first): the top layer of the nested type -/
def nestLayer : List Level → List FT → List FT
  | [], I => I
  | L :: Ls, I => L.pre ++ [(L.hdr, L.held.ty (Fields.ofList (nestLayer Ls I)))] ++ L.post

/-- the values `vs` of the innermost layer nested below the levels `Ls`: the values of the top layer -/
def nestVals : List Level → List Val → List Val
  | [], vs => vs
  | L :: Ls, vs => L.vpre ++ [L.held.val (.struct (nestVals Ls vs))] ++ L.vpost

theorem nestLayer_append (Ls Ls' : List Level) (I : List FT) :
    nestLayer (Ls ++ Ls') I = nestLayer Ls (nestLayer Ls' I) := by
  induction Ls with
  | nil => rfl
  | cons L Ls ih => simp only [List.cons_append, nestLayer, ih]

/-- the forward pass over a level succeeds when the pass over the layer below does (fuel `+ 2`) -/
theorem mangleLayer_level_ok (tags : List String) (j : Nat) (L : Level) (hwf : L.WF tags) (below : List FT)
    (h : ∃ r, mangleLayer j (aliasMangler tags) below = .ok r) :
    ∃ r, mangleLayer (j + 2) (aliasMangler tags)
      (L.pre ++ [(L.hdr, L.held.ty (Fields.ofList below))] ++ L.post) = .ok r := by
  obtain ⟨hpre, hpost, _, _, _⟩ := hwf
  apply mangleLayer_alias_ok tags (j + 1)
  intro f hf hh
  simp only [List.mem_append, List.mem_singleton] at hf
  rcases hf with (hf | rfl) | hf
  · exact ⟨_, recurseType_id j _ (hh, f.2) (Or.inr (hpre f hf).2)⟩
  · exact recurseType_wrap_ok tags j hh L.held below h
  · exact ⟨_, recurseType_id j _ (hh, f.2) (Or.inr (hpost f hf).2)⟩

/-- the forward pass over the nested type succeeds when the pass over the innermost layer does -/
theorem mangleLayer_nest_ok (tags : List String) (I : List FT) (b : Nat)
    (hM : ∀ f, b ≤ f → ∃ r, mangleLayer f (aliasMangler tags) I = .ok r) :
    ∀ (Ls : List Level), (∀ L ∈ Ls, L.WF tags) → ∀ fuel, 2 * Ls.length + b ≤ fuel →
      ∃ r, mangleLayer fuel (aliasMangler tags) (nestLayer Ls I) = .ok r
  | [], _, fuel, hf => hM fuel (by simpa using hf)
  | L :: Ls, hwf, fuel, hf => by
    obtain ⟨j, rfl⟩ : ∃ j, fuel = j + 2 := ⟨fuel - 2, by simp at hf; omega⟩
    have hj : 2 * Ls.length + b ≤ j := by simp at hf; omega
    exact mangleLayer_level_ok tags j L (hwf L (by simp)) (nestLayer Ls I)
      (mangleLayer_nest_ok tags I b hM Ls (fun L' h' => hwf L' (by simp [h'])) j hj)

/-- NESTING COMMUTES WITH THE ALIAS PASS: whatever the outcome `R` of the reverse pass over a layer `I` on the
values `vs` is (for every fuel from `b` on), the outcome of the reverse pass over the top layer of the type that
nests `I` below `Ls.length` struct-typed fields without alias tags, on the nested values, is `R` — the result
nested the same way, or the same failure — for every fuel from `2 * Ls.length + b` on. -/
theorem nest_lift (tags : List String) (I : List FT) (vs : List Val) (R : Outcome (List Val)) (b : Nat)
    (hI : ∀ f, b ≤ f → unmangleLayer f (aliasMangler tags) I vs = R)
    (hM : ∀ f, b ≤ f → ∃ r, mangleLayer f (aliasMangler tags) I = .ok r) :
    ∀ (Ls : List Level), (∀ L ∈ Ls, L.WF tags) → ∀ fuel, 2 * Ls.length + b ≤ fuel →
      unmangleLayer fuel (aliasMangler tags) (nestLayer Ls I) (nestVals Ls vs) = mapOut (nestVals Ls) R ∧
      ∃ r, mangleLayer fuel (aliasMangler tags) (nestLayer Ls I) = .ok r
  | [], _, fuel, hf => by
    refine ⟨?_, hM fuel (by simpa using hf)⟩
    show unmangleLayer fuel (aliasMangler tags) I vs = mapOut (fun r => r) R
    rw [hI fuel (by simpa using hf)]
    cases R <;> rfl
  | L :: Ls, hwf, fuel, hf => by
    obtain ⟨j, rfl⟩ : ∃ j, fuel = j + 2 := ⟨fuel - 2, by simp at hf; omega⟩
    have hj : 2 * Ls.length + b ≤ j := by simp at hf; omega
    obtain ⟨ih1, ih2⟩ := nest_lift tags I vs R b hI hM Ls (fun L' h' => hwf L' (by simp [h'])) j hj
    have hL := hwf L (by simp)
    obtain ⟨hpre, hpost, hn, hlpre, hlpost⟩ := id hL
    refine ⟨?_, mangleLayer_level_ok tags j L hL (nestLayer Ls I) ih2⟩
    simp only [nestLayer, nestVals]
    rw [unmangleLayer_frame tags j L.pre _ L.post L.vpre _ L.vpost hpre hpost hlpre hlpost
      (by simp [aliasWidth, isAliased_of_noAliasTag hn]),
      unmangleLayer_noalias_single tags (j + 1) _ _ _ hn, recurseVal_wrap, ih1]
    obtain ⟨o', ho'⟩ := recurseType_wrap_ok tags j L.hdr L.held (nestLayer Ls I) ih2
    rw [ho']
    cases R <;> rfl

/-! ### the aliased leaf: in a layer, at depth -/

/-- the four patterns of `C14_patterns`, for anything that is `aliasUnmangle` on the two values with the result
mapped -/
theorem alias_patterns_of_eq {β : Type} (g : Val → β) (h : Hdr) (t : Ty) (fp fa : FT) (vp va : Val)
    (X : Outcome β) (hX : X = mapOut g (aliasUnmangle h t [(fp, vp), (fa, va)])) :
    (isUnsetAt t vp = false → isUnsetAt t va = true → X = .ok (g vp)) ∧
    (isUnsetAt t vp = true → isUnsetAt t va = false → X = .ok (g va)) ∧
    (isUnsetAt t vp = true → isUnsetAt t va = true → X = .ok (g vp)) ∧
    (isUnsetAt t vp = false → isUnsetAt t va = false →
      X = .err ("both alias and original set for field " ++ h.name)) := by
  subst hX
  refine ⟨?_, ?_, ?_, ?_⟩ <;> intro h1 h2 <;> simp [aliasUnmangle, h1, h2]

/-- an aliased leaf between plain siblings -/
theorem unmangleLayer_alias_leaf_framed (tags : List String) (k : Nat) (pre post : List FT) (h : Hdr) (t : Ty)
    (vpre vpost : List Val) (vp va : Val) (fp fa : FT)
    (hpre : Plain tags pre) (hpost : Plain tags post)
    (hal : isAliased tags h = true) (hst : structish t = none)
    (hlpre : vpre.length = pre.length) (hlpost : vpost.length = post.length) :
    unmangleLayer (k + 2) (aliasMangler tags) (pre ++ [(h, t)] ++ post) (vpre ++ [vp, va] ++ vpost) =
      mapOut (fun c => vpre ++ [c] ++ vpost) (aliasUnmangle h t [(fp, vp), (fa, va)]) := by
  rw [unmangleLayer_frame tags k pre _ post vpre _ vpost hpre hpost hlpre hlpost
    (by simp [aliasWidth, hal]), unmangleLayer_alias_leaf tags k h t vp va hal hst fp fa, mapOut_mapOut]

/-- an aliased leaf between ARBITRARY siblings: the three blocks in sequence -/
theorem unmangleLayer_alias_leaf_between (tags : List String) (k : Nat) (pre post : List FT) (h : Hdr) (t : Ty)
    (vpre vpost : List Val) (vp va : Val) (fp fa : FT)
    (hal : isAliased tags h = true) (hst : structish t = none)
    (hlpre : vpre.length = (pre.map (aliasWidth tags)).sum) :
    unmangleLayer (k + 2) (aliasMangler tags) (pre ++ [(h, t)] ++ post) (vpre ++ [vp, va] ++ vpost) =
      seqOut (unmangleLayer (k + 2) (aliasMangler tags) pre vpre)
        (seqOut (mapOut (fun c => [c]) (aliasUnmangle h t [(fp, vp), (fa, va)]))
          (unmangleLayer (k + 2) (aliasMangler tags) post vpost)) := by
  rw [List.append_assoc, List.append_assoc,
    unmangleLayer_alias_append tags (k + 1) pre _ vpre _ hlpre,
    unmangleLayer_alias_append tags (k + 1) [(h, t)] post [vp, va] vpost (by simp [aliasWidth, hal]),
    unmangleLayer_alias_leaf tags k h t vp va hal hst fp fa]

theorem mangleLayer_alias_leaf_framed_ok (tags : List String) (k : Nat) (pre post : List FT) (h : Hdr) (t : Ty)
    (hpre : Plain tags pre) (hpost : Plain tags post) (hst : structish t = none) :
    ∃ r, mangleLayer (k + 2) (aliasMangler tags) (pre ++ [(h, t)] ++ post) = .ok r := by
  apply mangleLayer_plain_ok
  intro f hf
  simp only [List.mem_append, List.mem_singleton] at hf
  rcases hf with (hf | rfl) | hf
  · exact (hpre f hf).2
  · exact hst
  · exact (hpost f hf).2

/-- an aliased leaf between plain siblings, nested below the levels `Ls` -/
theorem unmangleLayer_alias_leaf_nested (tags : List String) (Ls : List Level) (pre post : List FT) (h : Hdr)
    (t : Ty) (vpre vpost : List Val) (vp va : Val) (fp fa : FT)
    (hLs : ∀ L ∈ Ls, L.WF tags) (hpre : Plain tags pre) (hpost : Plain tags post)
    (hal : isAliased tags h = true) (hst : structish t = none)
    (hlpre : vpre.length = pre.length) (hlpost : vpost.length = post.length)
    (fuel : Nat) (hfuel : 2 * Ls.length + 2 ≤ fuel) :
    unmangleLayer fuel (aliasMangler tags) (nestLayer Ls (pre ++ [(h, t)] ++ post))
        (nestVals Ls (vpre ++ [vp, va] ++ vpost)) =
      mapOut (fun c => nestVals Ls (vpre ++ [c] ++ vpost)) (aliasUnmangle h t [(fp, vp), (fa, va)]) := by
  have := (nest_lift tags (pre ++ [(h, t)] ++ post) (vpre ++ [vp, va] ++ vpost)
    (mapOut (fun c => vpre ++ [c] ++ vpost) (aliasUnmangle h t [(fp, vp), (fa, va)])) 2
    (fun f hf => by
      obtain ⟨k, rfl⟩ : ∃ k, f = k + 2 := ⟨f - 2, by omega⟩
      exact unmangleLayer_alias_leaf_framed tags k pre post h t vpre vpost vp va fp fa hpre hpost hal hst
        hlpre hlpost)
    (fun f hf => by
      obtain ⟨k, rfl⟩ : ∃ k, f = k + 2 := ⟨f - 2, by omega⟩
      exact mangleLayer_alias_leaf_framed_ok tags k pre post h t hpre hpost hst)
    Ls hLs fuel hfuel).1
  rw [this, mapOut_mapOut]

/-- a nil pointer / nil slice at the level `L` below the levels `Ls`, above any layer `below` whose forward pass
succeeds from fuel `b` on: every value comes back as it was -/
theorem unmangleLayer_nil_nested (tags : List String) (Ls : List Level) (L : Level) (below : List FT) (b : Nat)
    (hLs : ∀ L' ∈ Ls, L'.WF tags) (hL : L.WF tags) (hw : L.held = .ptr ∨ L.held = .slice)
    (hM : ∀ f, b ≤ f → ∃ r, mangleLayer f (aliasMangler tags) below = .ok r)
    (fuel : Nat) (hfuel : 2 * Ls.length + (b + 2) ≤ fuel) :
    unmangleLayer fuel (aliasMangler tags)
        (nestLayer Ls (L.pre ++ [(L.hdr, L.held.ty (Fields.ofList below))] ++ L.post))
        (nestVals Ls (L.vpre ++ [.nilv] ++ L.vpost)) =
      .ok (nestVals Ls (L.vpre ++ [.nilv] ++ L.vpost)) := by
  have := (nest_lift tags (L.pre ++ [(L.hdr, L.held.ty (Fields.ofList below))] ++ L.post)
    (L.vpre ++ [.nilv] ++ L.vpost) (.ok (L.vpre ++ [.nilv] ++ L.vpost)) (b + 2)
    (fun f hf => by
      obtain ⟨k, rfl⟩ : ∃ k, f = k + 2 := ⟨f - 2, by omega⟩
      obtain ⟨hpre, hpost, hn, hlpre, hlpost⟩ := id hL
      rw [unmangleLayer_frame tags k L.pre _ L.post L.vpre _ L.vpost hpre hpost hlpre hlpost
        (by simp [aliasWidth, isAliased_of_noAliasTag hn]),
        unmangleLayer_noalias_single tags (k + 1) _ _ _ hn, recurseVal_wrap_nil tags k _ _ _ hw]
      obtain ⟨o', ho'⟩ := recurseType_wrap_ok tags k L.hdr L.held below (hM k (by omega))
      rw [ho']
      rfl)
    (fun f hf => by
      obtain ⟨k, rfl⟩ : ∃ k, f = k + 2 := ⟨f - 2, by omega⟩
      exact mangleLayer_level_ok tags k L hL below (hM k (by omega)))
    Ls hLs fuel hfuel).1
  rw [this]; rfl

/-! ### the special case of a chain of pointer-to-struct fields without siblings -/

/-- the struct type that holds the layer `inner` below `Hs.length` single-field structs, each held by a pointer
(`nestTy [H₁, H₂] inner` is `struct { H₁ *struct { H₂ *struct { inner } } }`) -/
def nestTy : List Hdr → List FT → Ty
  | [], inner => .struct (Fields.ofList inner)
  | H :: Hs, inner => .struct (Fields.ofList [(H, .ptr (nestTy Hs inner))])

/-- the struct value of type `nestTy Hs inner` (`n = Hs.length`) whose innermost struct holds `vs` -/
def nestVal : Nat → List Val → Val
  | 0, vs => .struct vs
  | n + 1, vs => .struct [.ptr (nestVal n vs)]

/-- the level of a lone pointer-to-struct field -/
def ptrLevel (H : Hdr) : Level := { pre := [], hdr := H, held := .ptr, post := [], vpre := [], vpost := [] }

theorem ptrLevel_WF {tags : List String} {H : Hdr} (hn : NoAliasTag tags H) : (ptrLevel H).WF tags :=
  ⟨fun _ h => (by cases h), fun _ h => (by cases h), hn, rfl, rfl⟩

theorem nestLayer_ptrChain (inner : List FT) : ∀ (H0 : Hdr) (Hs : List Hdr),
    nestLayer ((H0 :: Hs).map ptrLevel) inner = [(H0, .ptr (nestTy Hs inner))]
  | H0, [] => rfl
  | H0, H1 :: Hs => by
    have ih := nestLayer_ptrChain inner H1 Hs
    show (ptrLevel H0).pre ++ [((ptrLevel H0).hdr, (ptrLevel H0).held.ty
      (Fields.ofList (nestLayer ((H1 :: Hs).map ptrLevel) inner)))] ++ (ptrLevel H0).post = _
    rw [ih]
    rfl

theorem nestVals_ptrChain (vs : List Val) : ∀ (H0 : Hdr) (Hs : List Hdr),
    nestVals ((H0 :: Hs).map ptrLevel) vs = [.ptr (nestVal Hs.length vs)]
  | H0, [] => rfl
  | H0, H1 :: Hs => by
    have ih := nestVals_ptrChain vs H1 Hs
    show (ptrLevel H0).vpre ++ [(ptrLevel H0).held.val
      (.struct (nestVals ((H1 :: Hs).map ptrLevel) vs))] ++ (ptrLevel H0).vpost = _
    rw [ih]
    rfl

end Dials.Tf
