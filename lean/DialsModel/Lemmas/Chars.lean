/- ASCII character lemmas used by the string-model proofs. -/
import DialsModel.Model.Basic

namespace Dials

theorem toNat_ofNat_small (n : Nat) (h : n < 128) : (Char.ofNat n).toNat = n := by
  have : n.isValidChar := by left; omega
  simp [Char.ofNat, this, Char.ofNatAux, Char.toNat]

theorem isLowerA_iff (c : Char) : isLowerA c = true ↔ 97 ≤ c.toNat ∧ c.toNat ≤ 122 := by
  simp [isLowerA]
theorem isUpperA_iff (c : Char) : isUpperA c = true ↔ 65 ≤ c.toNat ∧ c.toNat ≤ 90 := by
  simp [isUpperA]
theorem isDigitA_iff (c : Char) : isDigitA c = true ↔ 48 ≤ c.toNat ∧ c.toNat ≤ 57 := by
  simp [isDigitA]

theorem toUpperA_toNat_of_lower (c : Char) (h : isLowerA c = true) : (toUpperA c).toNat = c.toNat - 32 := by
  have ⟨h1, h2⟩ := (isLowerA_iff c).1 h
  simp only [toUpperA, h, if_true]
  exact toNat_ofNat_small _ (by omega)

theorem isUpperA_toUpperA (c : Char) (h : isLowerA c = true) : isUpperA (toUpperA c) = true := by
  have ⟨h1, h2⟩ := (isLowerA_iff c).1 h
  rw [isUpperA_iff, toUpperA_toNat_of_lower c h]; omega

theorem toLowerA_toUpperA (c : Char) (h : isLowerA c = true) : toLowerA (toUpperA c) = c := by
  have ⟨h1, h2⟩ := (isLowerA_iff c).1 h
  simp only [toLowerA, isUpperA_toUpperA c h, if_true, toUpperA_toNat_of_lower c h]
  have : c.toNat - 32 + 32 = c.toNat := by omega
  rw [this]; exact Char.ofNat_toNat c

theorem not_upper_of_lower (c : Char) (h : isLowerA c = true) : isUpperA c = false := by
  have ⟨h1, h2⟩ := (isLowerA_iff c).1 h
  cases hu : isUpperA c with
  | false => rfl
  | true => have := (isUpperA_iff c).1 hu; omega

theorem not_lower_of_upper (c : Char) (h : isUpperA c = true) : isLowerA c = false := by
  cases hl : isLowerA c with
  | false => rfl
  | true => rw [not_upper_of_lower c hl] at h; cases h

theorem not_digit_of_lower (c : Char) (h : isLowerA c = true) : isDigitA c = false := by
  have ⟨h1, h2⟩ := (isLowerA_iff c).1 h
  cases hu : isDigitA c with
  | false => rfl
  | true => have := (isDigitA_iff c).1 hu; omega

theorem not_digit_of_upper (c : Char) (h : isUpperA c = true) : isDigitA c = false := by
  have ⟨h1, h2⟩ := (isUpperA_iff c).1 h
  cases hu : isDigitA c with
  | false => rfl
  | true => have := (isDigitA_iff c).1 hu; omega

theorem not_upper_of_digit (c : Char) (h : isDigitA c = true) : isUpperA c = false := by
  cases hu : isUpperA c with
  | false => rfl
  | true => rw [not_digit_of_upper c hu] at h; cases h

theorem not_lower_of_digit (c : Char) (h : isDigitA c = true) : isLowerA c = false := by
  cases hu : isLowerA c with
  | false => rfl
  | true => rw [not_digit_of_lower c hu] at h; cases h

theorem toLowerA_of_not_upper (c : Char) (h : isUpperA c = false) : toLowerA c = c := by
  simp [toLowerA, h]
theorem toUpperA_of_not_lower (c : Char) (h : isLowerA c = false) : toUpperA c = c := by
  simp [toUpperA, h]

theorem ne_of_toNat_ne {c d : Char} (h : c.toNat ≠ d.toNat) : c ≠ d := fun e => h (e ▸ rfl)

theorem lower_ne_underscore (c : Char) (h : isLowerA c = true) : (c == '_') = false := by
  have ⟨h1, h2⟩ := (isLowerA_iff c).1 h
  have : c ≠ '_' := ne_of_toNat_ne (by simp; omega)
  simpa using this
theorem lower_ne_dash (c : Char) (h : isLowerA c = true) : (c == '-') = false := by
  have ⟨h1, h2⟩ := (isLowerA_iff c).1 h
  have : c ≠ '-' := ne_of_toNat_ne (by simp; omega)
  simpa using this
theorem upper_ne_underscore (c : Char) (h : isUpperA c = true) : (c == '_') = false := by
  have ⟨h1, h2⟩ := (isUpperA_iff c).1 h
  have : c ≠ '_' := ne_of_toNat_ne (by simp; omega)
  simpa using this
theorem digit_ne_underscore (c : Char) (h : isDigitA c = true) : (c == '_') = false := by
  have ⟨h1, h2⟩ := (isDigitA_iff c).1 h
  have : c ≠ '_' := ne_of_toNat_ne (by simp; omega)
  simpa using this
theorem digit_ne_dash (c : Char) (h : isDigitA c = true) : (c == '-') = false := by
  have ⟨h1, h2⟩ := (isDigitA_iff c).1 h
  have : c ≠ '-' := ne_of_toNat_ne (by simp; omega)
  simpa using this

end Dials
