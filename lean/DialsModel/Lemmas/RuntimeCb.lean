/-
Invariants of the runtime model used by the callback properties (C06).

Method.  `step` is first abstracted (once, §4) into the relation `AStep` with 14 kinds of transitions:
every step that no callback invariant can notice is a `Boring` step; the others (store, submit,
client enqueue, dequeue, the callback goroutine's moves) are described by the fields they change.
All invariants are then proved by cases on `AStep`.

  §1   `run` lemmas and the induction principles (`run_split_induct`, `reachable_induct`)
  §2   client-table lemmas (`getC`, `setC`, held events, `CLe`)
  §3   projections of the state helpers (`Quiet`, `Boring`, `LogExt`), `HandLog`, `AStep`
  §4   the abstraction theorem `step_abs`
  §5   `Inv1`: client keys unique, held events are reg/unreg, `cb = sel → cbch = []`
  §6   `Inv2`: serial order on the callback channel            (C06_dequeue_in_order)
  §7   `Inv3`: versions and the shape of new-config events     (C06_old_is_pred)
  §8   `enters`, `EnterStep`, `Inv4`: OnNewConfig serials      (C06_global_increasing)
  §9   `MonStep`, `Inv5`: installed ⇒ queued or dropped        (C06_no_skip_without_drop)
  §10  `InvU`: a handle id is registered at most once (counting argument over `RegsUnique`)
  §11  `InvP`: registrations in flight stem from `begin … register` labels
  §12  `InvH`: handle table;  §13 `InvS`: per-handle serial order   (C06_no_stale_dup)
  §14  `LogShape`, `AdjOK`, `RegEnq`, `UQ`, `InvG`: unregistration  (C06_none_after_unreg)
-/
import DialsModel.Model.RuntimeSpec

namespace Dials.Runtime

/-! ## §1 run -/

theorem run_append (W : World) (s : State) (l1 l2 : List Label) :
    run W s (l1 ++ l2) = (run W s l1).bind (run W · l2) := by
  induction l1 generalizing s with
  | nil => simp [run]
  | cons l l1 ih =>
    simp only [List.cons_append, run]
    cases step W s l with
    | none => simp
    | some s1 => simp [ih]

theorem run_snoc (W : World) (s : State) (ls : List Label) (l : Label) :
    run W s (ls ++ [l]) = (run W s ls).bind (step W · l) := by
  rw [run_append]
  cases run W s ls with
  | none => simp
  | some s1 =>
    simp only [Option.bind_some, run]
    cases step W s1 l <;> simp

/-- Induction over a run, keeping track of the labels already executed (`past`) and still to come
(`fut`). -/
theorem run_split_induct {W : World} {init : State} (ls : List Label)
    (Inv : List Label → List Label → State → Prop)
    (h0 : Inv [] ls init)
    (hstep : ∀ past l fut s s', ls = past ++ l :: fut → run W init past = some s →
      Inv past (l :: fut) s → step W s l = some s' → Inv (past ++ [l]) fut s')
    {s : State} (hrun : run W init ls = some s) : Inv ls [] s := by
  have key : ∀ fut past s0, ls = past ++ fut → run W init past = some s0 → Inv past fut s0 →
      ∀ s', run W s0 fut = some s' → Inv ls [] s' := by
    intro fut
    induction fut with
    | nil =>
      intro past s0 hls _ hinv s' hr
      simp only [run, Option.some.injEq] at hr
      subst hr
      simp only [List.append_nil] at hls
      subst hls
      exact hinv
    | cons l fut ih =>
      intro past s0 hls hpast hinv s' hr
      simp only [run] at hr
      cases hst : step W s0 l with
      | none => simp [hst] at hr
      | some s1 =>
        simp only [hst, Option.bind_some] at hr
        have h1 := hstep past l fut s0 s1 hls hpast hinv hst
        refine ih (past ++ [l]) s1 (by simp [hls]) ?_ h1 s' hr
        rw [run_snoc, hpast]
        simp [hst]
  exact key ls [] init (by simp) (by simp [run]) h0 s hrun

/-- Plain induction over reachable states. -/
theorem reachable_induct {W : World} {P : Params} {sl : Slots} {w : List Bool}
    (Inv : State → Prop) (h0 : Inv (initState P sl w))
    (hstep : ∀ s l s', Reachable W P sl w s → Inv s → step W s l = some s' → Inv s')
    {s : State} (hr : Reachable W P sl w s) : Inv s := by
  obtain ⟨ls, hrun⟩ := hr
  refine run_split_induct (W := W) (init := initState P sl w) ls (fun _ _ s => Inv s) h0 ?_ hrun
  intro past l fut s s' _ hp hi hs
  exact hstep s l s' ⟨past, hp⟩ hi hs

/-! ## §2 client tables -/

def KeysNodup (cs : List (Nat × CSt)) : Prop := (cs.map (·.1)).Nodup

/-- the callback-channel event a client (with key `c`) is holding and may still send -/
def evOf (c : Nat) : CSt → Option CbEv
  | .ready (.register h ser cfg) _ => some (.reg h ser cfg)
  | .ready (.unregister h) ctx => some (.unreg h c ctx)
  | .sendCb ev _ => some ev
  | _ => none

def heldEv (p : Nat × CSt) : Option CbEv := evOf p.1 p.2

def held (cs : List (Nat × CSt)) : List CbEv := cs.filterMap heldEv

/-- weight of an optional event under a Boolean predicate -/
def wt (f : CbEv → Bool) : Option CbEv → Nat
  | some e => if f e then 1 else 0
  | none => 0

@[simp] theorem wt_none (f : CbEv → Bool) : wt f none = 0 := rfl
@[simp] theorem wt_some (f : CbEv → Bool) (e : CbEv) : wt f (some e) = if f e then 1 else 0 := rfl

theorem countP_held_cons (f : CbEv → Bool) (p : Nat × CSt) (cs : List (Nat × CSt)) :
    (held (p :: cs)).countP f = wt f (heldEv p) + (held cs).countP f := by
  unfold held
  rw [List.filterMap_cons]
  cases h : heldEv p with
  | none => simp
  | some e =>
    simp only [wt_some, List.countP_cons]
    omega

@[simp] theorem held_nil : held [] = [] := rfl

theorem countP_held_append (f : CbEv → Bool) (cs ds : List (Nat × CSt)) :
    (held (cs ++ ds)).countP f = (held cs).countP f + (held ds).countP f := by
  unfold held
  rw [List.filterMap_append, List.countP_append]

@[simp] theorem getC_nil (c : Nat) : getC [] c = .idle := rfl

theorem getC_cons (d : Nat) (x : CSt) (cs : List (Nat × CSt)) (c : Nat) :
    getC ((d, x) :: cs) c = if d = c then x else getC cs c := by
  unfold getC
  rw [List.find?_cons]
  by_cases h : d = c
  · simp [h]
  · have : (d == c) = false := by simp [h]
    simp [this, h]

theorem setC_cons (d : Nat) (x : CSt) (cs : List (Nat × CSt)) (c : Nat) (st : CSt) :
    setC ((d, x) :: cs) c st = if d = c then (d, st) :: cs else (d, x) :: setC cs c st := by
  by_cases h : d = c <;> simp [setC, h]

theorem keys_setC (cs : List (Nat × CSt)) (c : Nat) (st : CSt) :
    (setC cs c st).map (·.1) = if c ∈ cs.map (·.1) then cs.map (·.1) else cs.map (·.1) ++ [c] := by
  induction cs with
  | nil => simp [setC]
  | cons p cs ih =>
    obtain ⟨d, x⟩ := p
    rw [setC_cons]
    by_cases h : d = c
    · subst h; simp
    · have h' : ¬ c = d := fun e => h e.symm
      simp only [h, if_false, List.map_cons, List.mem_cons, h', false_or, ih]
      split <;> simp

theorem KeysNodup.setC {cs : List (Nat × CSt)} (h : KeysNodup cs) (c : Nat) (st : CSt) :
    KeysNodup (setC cs c st) := by
  unfold KeysNodup at *
  rw [keys_setC]
  split
  · exact h
  · rename_i hc
    rw [List.nodup_append]
    refine ⟨h, by simp, ?_⟩
    intro a ha b hb
    simp only [List.mem_singleton] at hb
    subst hb
    intro e; subst e; exact hc ha

theorem KeysNodup.block {cs : List (Nat × CSt)} (h : KeysNodup cs) (c : Nat) (st : CSt) :
    KeysNodup (cs.filter (fun p => p.1 != c) ++ [(c, st)]) := by
  unfold KeysNodup at *
  rw [List.map_append, List.nodup_append]
  refine ⟨?_, by simp, ?_⟩
  · have : (cs.filter (fun p => p.1 != c)).map (·.1) = (cs.map (·.1)).filter (fun k => k != c) := by
      rw [List.filter_map]; rfl
    rw [this]
    exact h.filter _
  · intro a ha b hb
    simp only [List.map_cons, List.map_nil, List.mem_singleton] at hb
    subst hb
    simp only [List.mem_map, List.mem_filter] at ha
    obtain ⟨p, ⟨_, hp⟩, rfl⟩ := ha
    simpa using hp

theorem KeysNodup.map {cs : List (Nat × CSt)} (h : KeysNodup cs) (g : Nat × CSt → Nat × CSt)
    (hg : ∀ p, (g p).1 = p.1) : KeysNodup (cs.map g) := by
  unfold KeysNodup at *
  have : (cs.map g).map (·.1) = cs.map (·.1) := by
    rw [List.map_map]; apply List.map_congr_left; intro p _; exact hg p
  rw [this]; exact h

theorem getC_mem {cs : List (Nat × CSt)} {c : Nat} (h : getC cs c ≠ .idle) : (c, getC cs c) ∈ cs := by
  induction cs with
  | nil => simp at h
  | cons p cs ih =>
    obtain ⟨d, x⟩ := p
    rw [getC_cons] at h ⊢
    by_cases hd : d = c
    · subst hd; simp
    · simp only [hd, if_false] at h ⊢
      exact List.mem_cons_of_mem _ (ih h)

theorem getC_of_mem {cs : List (Nat × CSt)} (hk : KeysNodup cs) {c : Nat} {st : CSt}
    (h : (c, st) ∈ cs) : getC cs c = st := by
  induction cs with
  | nil => simp at h
  | cons p cs ih =>
    obtain ⟨d, x⟩ := p
    rw [getC_cons]
    unfold KeysNodup at hk
    simp only [List.map_cons, List.nodup_cons, List.mem_map, not_exists, not_and] at hk
    by_cases hd : d = c
    · subst hd
      simp only [if_true]
      rcases List.mem_cons.1 h with h | h
      · simp only [Prod.mk.injEq, true_and] at h; exact h.symm
      · exact absurd rfl (hk.1 _ h)
    · simp only [hd, if_false]
      rcases List.mem_cons.1 h with h | h
      · simp only [Prod.mk.injEq] at h; exact absurd h.1.symm hd
      · exact ih hk.2 h

theorem find_getC {cs : List (Nat × CSt)} (hk : KeysNodup cs) {q : Nat × CSt → Bool} {c : Nat} {st : CSt}
    (h : cs.find? q = some (c, st)) : getC cs c = st :=
  getC_of_mem hk (List.mem_of_find?_eq_some h)

/-- counting held events through `setC` -/
theorem countP_held_setC (f : CbEv → Bool) (cs : List (Nat × CSt)) (c : Nat) (st : CSt) :
    (held (setC cs c st)).countP f + wt f (evOf c (getC cs c)) =
      (held cs).countP f + wt f (evOf c st) := by
  induction cs with
  | nil =>
    have : held [(c, st)] = (evOf c st).toList := by
      simp only [held, List.filterMap_cons, heldEv]; cases evOf c st <;> simp
    have h0 : evOf c .idle = none := rfl
    simp only [setC, this, getC_nil, h0, held_nil]
    cases evOf c st <;> simp
  | cons p cs ih =>
    obtain ⟨d, x⟩ := p
    rw [setC_cons, getC_cons]
    by_cases hd : d = c
    · subst hd
      simp only [if_true, countP_held_cons, heldEv]
      omega
    · simp only [hd, if_false, countP_held_cons]
      omega

theorem countP_held_filter_le (f : CbEv → Bool) (cs : List (Nat × CSt)) (c : Nat) :
    (held (cs.filter (fun p => p.1 != c))).countP f + wt f (evOf c (getC cs c)) ≤ (held cs).countP f := by
  induction cs with
  | nil => simp [evOf]
  | cons p cs ih =>
    obtain ⟨d, x⟩ := p
    rw [getC_cons, List.filter_cons]
    by_cases hd : d = c
    · subst hd
      simp only [bne_self_eq_false, Bool.false_eq_true, if_false, if_true, countP_held_cons, heldEv]
      have : (held (cs.filter (fun p => p.1 != d))).countP f ≤ (held cs).countP f := by
        have := ih; omega
      omega
    · have : (d != c) = true := by simp [hd]
      simp only [this, if_true, hd, if_false, countP_held_cons]
      omega

theorem countP_held_block (f : CbEv → Bool) (cs : List (Nat × CSt)) (c : Nat) (st : CSt) :
    (held (cs.filter (fun p => p.1 != c) ++ [(c, st)])).countP f + wt f (evOf c (getC cs c)) ≤
      (held cs).countP f + wt f (evOf c st) := by
  rw [countP_held_append, countP_held_cons]
  have := countP_held_filter_le f cs c
  simp only [held_nil, List.countP_nil, heldEv]
  omega

theorem countP_held_map_le (f : CbEv → Bool) (cs : List (Nat × CSt)) (g : Nat × CSt → Nat × CSt)
    (hg : ∀ p, heldEv (g p) = heldEv p ∨ heldEv (g p) = none) :
    (held (cs.map g)).countP f ≤ (held cs).countP f := by
  induction cs with
  | nil => simp
  | cons p cs ih =>
    rw [List.map_cons, countP_held_cons, countP_held_cons]
    rcases hg p with h | h <;> rw [h] <;> simp <;> omega

/-- `cs'` arises from `cs` by changes that create no held event -/
def CLe (cs cs' : List (Nat × CSt)) : Prop :=
  (KeysNodup cs → KeysNodup cs') ∧ ∀ f : CbEv → Bool, (held cs').countP f ≤ (held cs).countP f

theorem CLe.refl (cs : List (Nat × CSt)) : CLe cs cs := ⟨id, fun _ => Nat.le_refl _⟩

theorem CLe.trans {a b c : List (Nat × CSt)} (h1 : CLe a b) (h2 : CLe b c) : CLe a c :=
  ⟨fun h => h2.1 (h1.1 h), fun f => Nat.le_trans (h2.2 f) (h1.2 f)⟩

theorem CLe.setC_none (cs : List (Nat × CSt)) {c : Nat} {st : CSt} (h : evOf c st = none) :
    CLe cs (setC cs c st) := by
  refine ⟨fun hk => hk.setC c st, fun f => ?_⟩
  have := countP_held_setC f cs c st
  rw [h] at this
  simp only [wt_none] at this
  omega

/-- a client keeps its event (it blocks sending it) or replaces it by nothing -/
theorem CLe.setC_same (cs : List (Nat × CSt)) {c : Nat} {st : CSt} (h : evOf c st = evOf c (getC cs c)) :
    CLe cs (setC cs c st) := by
  refine ⟨fun hk => hk.setC c st, fun f => ?_⟩
  have := countP_held_setC f cs c st
  rw [h] at this
  omega

theorem CLe.block_none (cs : List (Nat × CSt)) {c : Nat} {st : CSt} (h : evOf c st = none) :
    CLe cs (cs.filter (fun p => p.1 != c) ++ [(c, st)]) := by
  refine ⟨fun hk => hk.block c st, fun f => ?_⟩
  have := countP_held_block f cs c st
  rw [h] at this
  simp only [wt_none] at this
  omega

theorem CLe.block_same (cs : List (Nat × CSt)) {c : Nat} {st : CSt} (h : evOf c st = evOf c (getC cs c)) :
    CLe cs (cs.filter (fun p => p.1 != c) ++ [(c, st)]) := by
  refine ⟨fun hk => hk.block c st, fun f => ?_⟩
  have := countP_held_block f cs c st
  rw [h] at this
  omega

theorem CLe.map (cs : List (Nat × CSt)) (g : Nat × CSt → Nat × CSt) (hk : ∀ p, (g p).1 = p.1)
    (hg : ∀ p, heldEv (g p) = heldEv p ∨ heldEv (g p) = none) : CLe cs (cs.map g) :=
  ⟨fun h => h.map g hk, fun f => countP_held_map_le f cs g hg⟩

theorem mem_held {cs : List (Nat × CSt)} {ev : CbEv} : ev ∈ held cs ↔ ∃ p ∈ cs, evOf p.1 p.2 = some ev := by
  simp [held, heldEv]

theorem CLe.mem {cs cs' : List (Nat × CSt)} (h : CLe cs cs') {ev : CbEv} (hm : ev ∈ held cs') : ev ∈ held cs := by
  have := h.2 (fun e => e == ev)
  have h1 : 0 < (held cs').countP (fun e => e == ev) := List.countP_pos_iff.2 ⟨ev, hm, by simp⟩
  have h2 : 0 < (held cs).countP (fun e => e == ev) := by omega
  obtain ⟨a, ha, hae⟩ := List.countP_pos_iff.1 h2
  simp only [beq_iff_eq] at hae
  subst hae; exact ha

/-! ## §3 projections of the state helpers -/

def monOld : MonPc → Option Slots
  | .events old _ => some old
  | .replyOk old _ => some old
  | .submitNew old => some old
  | _ => none

def cbBusy : CbPc → Bool
  | .got _ => true
  | .calls _ _ => true
  | _ => false

/-- observations no callback invariant looks at -/
def boringObs : Obs → Bool
  | .install _ _ => false
  | .enter _ => false
  | .queued _ _ => false
  | .dropped _ => false
  | .ret _ .unregTrue => false
  | .ret _ (.regOk _) => false
  | .unregProcessed _ => false
  | .regProcessed _ _ _ => false
  | _ => true

def boringRes : Res → Bool
  | .unregTrue => false
  | .regOk _ => false
  | _ => true

theorem boringObs_ret {c : Nat} {r : Res} (h : boringRes r = true) : boringObs (.ret c r) = true := by
  cases r <;> simp_all [boringObs, boringRes]

def LogExt (l l' : List Obs) : Prop := ∃ extra, l' = extra ++ l ∧ ∀ o ∈ extra, boringObs o = true

theorem LogExt.refl (l : List Obs) : LogExt l l := ⟨[], by simp, by simp⟩
theorem LogExt.cons {l l' : List Obs} {o : Obs} (ho : boringObs o = true) (h : LogExt l l') : LogExt l (o :: l') := by
  obtain ⟨e, rfl, he⟩ := h
  exact ⟨o :: e, by simp, by intro x hx; rcases List.mem_cons.1 hx with rfl | hx; exact ho; exact he x hx⟩
theorem LogExt.trans {a b c : List Obs} (h1 : LogExt a b) (h2 : LogExt b c) : LogExt a c := by
  obtain ⟨e1, rfl, he1⟩ := h1
  obtain ⟨e2, rfl, he2⟩ := h2
  exact ⟨e2 ++ e1, by simp, by intro x hx; rcases List.mem_append.1 hx with hx | hx; exact he2 x hx; exact he1 x hx⟩

/-- the fields the callback invariants look at, apart from `mon`, `clients`, `log` -/
structure SameCore (s s' : State) : Prop where
  view : s'.view = s.view
  cb : s'.cb = s.cb
  cbch : s'.cbch = s.cbch
  handles : s'.handles = s.handles
  lastSerial : s'.lastSerial = s.lastSerial
  lastVersion : s'.lastVersion = s.lastVersion

theorem SameCore.refl (s : State) : SameCore s s := ⟨rfl, rfl, rfl, rfl, rfl, rfl⟩
theorem SameCore.trans {a b c : State} (h1 : SameCore a b) (h2 : SameCore b c) : SameCore a c :=
  ⟨h2.view.trans h1.view, h2.cb.trans h1.cb, h2.cbch.trans h1.cbch, h2.handles.trans h1.handles,
   h2.lastSerial.trans h1.lastSerial, h2.lastVersion.trans h1.lastVersion⟩

/-- a step part that changes clients and log only in uninteresting ways and keeps `mon` -/
structure Quiet (s s' : State) : Prop where
  core : SameCore s s'
  mon : s'.mon = s.mon
  clients : CLe s.clients s'.clients
  log : LogExt s.log s'.log

theorem Quiet.refl (s : State) : Quiet s s := ⟨.refl s, rfl, .refl _, .refl _⟩
theorem Quiet.trans {a b c : State} (h1 : Quiet a b) (h2 : Quiet b c) : Quiet a c :=
  ⟨h1.core.trans h2.core, h2.mon.trans h1.mon, h1.clients.trans h2.clients, h1.log.trans h2.log⟩

theorem quiet_logAdd (s : State) {o : Obs} (ho : boringObs o = true) : Quiet s (s.logAdd o) :=
  ⟨⟨rfl, rfl, rfl, rfl, rfl, rfl⟩, rfl, .refl _, .cons ho (.refl _)⟩

theorem quiet_ret (s : State) (c : Nat) {r : Res} (hr : boringRes r = true) : Quiet s (s.ret c r) :=
  ⟨⟨rfl, rfl, rfl, rfl, rfl, rfl⟩, rfl, CLe.setC_none _ rfl, .cons (boringObs_ret hr) (.refl _)⟩

theorem quiet_setClient (s : State) (c : Nat) {st : CSt} (h : evOf c st = none) : Quiet s (s.setClient c st) :=
  ⟨⟨rfl, rfl, rfl, rfl, rfl, rfl⟩, rfl, CLe.setC_none _ h, .refl _⟩

theorem quiet_blockClient (s : State) (c : Nat) {st : CSt} (h : evOf c st = none) : Quiet s (s.blockClient c st) :=
  ⟨⟨rfl, rfl, rfl, rfl, rfl, rfl⟩, rfl, CLe.block_none _ h, .refl _⟩

theorem quiet_waitOr (s : State) (c ctx : Nat) {st : CSt} {r : Res} (h : evOf c st = none) (hr : boringRes r = true) :
    Quiet s (s.waitOr c ctx st r) := by
  unfold State.waitOr
  split
  · exact quiet_ret s c hr
  · exact quiet_setClient s c h

theorem quiet_replyTo (s : State) (c : Nat) {r : Res} (hr : boringRes r = true) : Quiet s (replyTo s c r) := by
  unfold replyTo
  have h1 : Quiet s (s.logAdd (.replied c r)) := quiet_logAdd s rfl
  dsimp only
  split
  · exact h1.trans (quiet_ret _ c hr)
  · exact h1

theorem quiet_admitCtlSender (s : State) : Quiet s (admitCtlSender s) := by
  unfold admitCtlSender
  split
  · rename_i c ctx _
    exact Quiet.trans (b := { s with monCtl := s.monCtl ++ [(c, ctx)] })
      ⟨⟨rfl, rfl, rfl, rfl, rfl, rfl⟩, rfl, .refl _, .refl _⟩ (quiet_waitOr _ c ctx rfl rfl)
  · exact .refl s

/-- a step that no callback invariant notices -/
structure Boring (s s' : State) : Prop where
  view : s'.view = s.view
  cb : s'.cb = s.cb ∨ (cbBusy s.cb = false ∧ cbBusy s'.cb = false ∧ (s'.cb = .sel → s.cbch = []))
  cbch : s'.cbch = s.cbch
  handles : s'.handles = s.handles
  lastSerial : s'.lastSerial = s.lastSerial
  lastVersion : s'.lastVersion = s.lastVersion
  mon : monOld s'.mon = monOld s.mon
  clients : CLe s.clients s'.clients
  log : LogExt s.log s'.log

theorem Quiet.boring {s s' : State} (h : Quiet s s') : Boring s s' :=
  ⟨h.core.view, .inl h.core.cb, h.core.cbch, h.core.handles, h.core.lastSerial, h.core.lastVersion,
   by rw [h.mon], h.clients, h.log⟩

theorem Boring.of_eqs {s s' : State} (hv : s'.view = s.view) (hcb : s'.cb = s.cb) (hq : s'.cbch = s.cbch)
    (hh : s'.handles = s.handles) (hl : s'.lastSerial = s.lastSerial) (hlv : s'.lastVersion = s.lastVersion)
    (hm : monOld s'.mon = monOld s.mon) (hc : s'.clients = s.clients) (hlog : s'.log = s.log) : Boring s s' :=
  ⟨hv, .inl hcb, hq, hh, hl, hlv, hm, by rw [hc]; exact .refl _, by rw [hlog]; exact .refl _⟩

/-- `Quiet` followed by an update of uninteresting fields -/
theorem Quiet.then {s s1 s' : State} (h : Quiet s s1) (hv : s'.view = s1.view) (hcb : s'.cb = s1.cb)
    (hq : s'.cbch = s1.cbch) (hh : s'.handles = s1.handles) (hl : s'.lastSerial = s1.lastSerial)
    (hlv : s'.lastVersion = s1.lastVersion) (hm : monOld s'.mon = monOld s.mon) (hc : s'.clients = s1.clients)
    (hlog : s'.log = s1.log) : Boring s s' :=
  ⟨hv.trans h.core.view, .inl (hcb.trans h.core.cb), hq.trans h.core.cbch, hh.trans h.core.handles,
   hl.trans h.core.lastSerial, hlv.trans h.core.lastVersion, hm, by rw [hc]; exact h.clients, by rw [hlog]; exact h.log⟩

/-- how the log and the table change when client `c` has handed over event `ev` -/
def HandLog (c : Nat) (ev : CbEv) (l l' : List Obs) : Prop :=
  match ev with
  | .reg h _ _ => l' = .ret c (.regOk h) :: l
  | .unreg _ _ _ => LogExt l l'
  | _ => l' = .ret c (.regOk 0) :: l

/-- the event the monitor may submit now -/
def SubmitOK (s : State) : CbEv → Prop
  | .watchErr _ _ _ => monOld s.mon = none
  | .newCfg old new _ => monOld s.mon = some old ∧ new = s.view
  | _ => False

inductive AStep : State → Label → State → Prop
  | boring {s s' : State} {l : Label} (hl : ∀ c op ctx, l ≠ .begin c op ctx) (hb : Boring s s') : AStep s l s'
  | begin {s : State} {c : Nat} (op : Op) (ctx : Nat) (hc : getC s.clients c = .idle) :
      AStep s (.begin c op ctx) (s.setClient c (.ready op ctx))
  | store {s : State} {l : Label} {slots' : Slots} {reply : Option Nat} (hl : ∀ c op ctx, l ≠ .begin c op ctx)
      (hm : s.mon = .store slots' reply) :
      AStep s l { s with view := ⟨s.view.serial + 1, slots'⟩, mon := .events s.view.cfg reply,
                         log := .install ⟨s.view.serial + 1, slots'⟩ s.skipVerify :: s.log }
  | submitDrop {s s' : State} {l : Label} (ev : CbEv) (hl : ∀ c op ctx, l ≠ .begin c op ctx)
      (hcore : SameCore s s') (hm : monOld s'.mon = none) (hc : s'.clients = s.clients)
      (hlog : ∃ extra, s'.log = extra ++ .dropped ev :: s.log ∧ ∀ o ∈ extra, boringObs o = true) : AStep s l s'
  | submitEnq {s s' : State} {l : Label} (ev : CbEv) (skip : Bool) (hl : ∀ c op ctx, l ≠ .begin c op ctx)
      (hev : SubmitOK s ev) (hview : s'.view = s.view)
      (hcb : s'.cb = (enqueueCb s ev).cb) (hq : s'.cbch = (enqueueCb s ev).cbch)
      (hh : s'.handles = s.handles) (hls : s'.lastSerial = s.lastSerial) (hlv : s'.lastVersion = s.lastVersion)
      (hm : monOld s'.mon = none) (hc : s'.clients = s.clients)
      (hlog : ∃ extra, s'.log = extra ++ .queued ev skip :: s.log ∧ ∀ o ∈ extra, boringObs o = true) : AStep s l s'
  | enq {s s' : State} {l : Label} (c : Nat) (ev : CbEv) (op : Op) (ctx : Nat) (st' : CSt)
      (hl : ∀ c op ctx, l ≠ .begin c op ctx)
      (hc : getC s.clients c = .ready op ctx) (hev : evOf c (.ready op ctx) = some ev)
      (hview : s'.view = s.view) (hcb : s'.cb = (enqueueCb s ev).cb) (hq : s'.cbch = (enqueueCb s ev).cbch)
      (hh : s'.handles = s.handles) (hls : s'.lastSerial = s.lastSerial) (hlv : s'.lastVersion = s.lastVersion)
      (hm : s'.mon = s.mon) (hcl : s'.clients = setC s.clients c st') (hst' : evOf c st' = none)
      (hlog : HandLog c ev s.log s'.log) : AStep s l s'
  | deq {s s' : State} {l : Label} (ev : CbEv) (rest : List CbEv) (hl : ∀ c op ctx, l ≠ .begin c op ctx)
      (hcb0 : s.cb = .top) (hq0 : s.cbch = ev :: rest)
      (hview : s'.view = s.view) (hcb : s'.cb = .got ev)
      (hh : s'.handles = s.handles) (hls : s'.lastSerial = s.lastSerial) (hlv : s'.lastVersion = s.lastVersion)
      (hm : s'.mon = s.mon)
      (hadm : (s'.cbch = rest ∧ s'.clients = s.clients ∧ s'.log = s.log) ∨
        ∃ c ev' ctx st', (c, CSt.sendCb ev' ctx) ∈ s.clients ∧ s'.cbch = rest ++ [ev'] ∧
          s'.clients = setC s.clients c st' ∧ evOf c st' = none ∧ HandLog c ev' s.log s'.log) : AStep s l s'
  | gotNew {s s' : State} {l : Label} (old : Slots) (new : Version) (supp : Bool) (hl : ∀ c op ctx, l ≠ .begin c op ctx)
      (hcb0 : s.cb = .got (.newCfg old new supp))
      (hview : s'.view = s.view) (hq : s'.cbch = s.cbch) (hh : s'.handles = s.handles)
      (hls : s'.lastSerial = new.serial) (hlv : s'.lastVersion = some new.cfg)
      (hm : s'.mon = s.mon) (hc : s'.clients = s.clients)
      (hres : ∃ extra, (∀ o ∈ extra, boringObs o = true) ∧
        match callsFor s.handles new.serial (some new.cfg) (.newCfg old new supp) with
        | [] => s'.cb = .top ∧ s'.log = extra ++ s.log
        | c :: cs => s'.cb = .calls (c :: cs) (.newCfg old new supp) ∧ s'.log = .enter c :: (extra ++ s.log)) :
      AStep s l s'
  | gotErr {s : State} {l : Label} (k : ErrK) (old : Slots) (new : Option Slots) (hl : ∀ c op ctx, l ≠ .begin c op ctx)
      (hcb0 : s.cb = .got (.watchErr k old new)) :
      AStep s l { s with cb := .calls [.onErr k old new] (.watchErr k old new), log := .enter (.onErr k old new) :: s.log }
  | gotReg {s s' : State} {l : Label} (h ser : Nat) (cfg : Option Slots) (hl : ∀ c op ctx, l ≠ .begin c op ctx)
      (hcb0 : s.cb = .got (.reg h ser cfg))
      (hview : s'.view = s.view) (hq : s'.cbch = s.cbch)
      (hls : s'.lastSerial = s.lastSerial) (hlv : s'.lastVersion = s.lastVersion)
      (hm : s'.mon = s.mon) (hc : s'.clients = s.clients)
      (hres : match callsFor s.handles s.lastSerial s.lastVersion (.reg h ser cfg) with
        | [] => s'.cb = .top ∧ s'.handles = s.handles ++ [(h, ser)] ∧
                  s'.log = .regProcessed h ser s.lastSerial :: s.log
        | c :: cs => s'.cb = .calls (c :: cs) (.reg h ser cfg) ∧ s'.handles = s.handles ∧
                  s'.log = .enter c :: .regProcessed h ser s.lastSerial :: s.log) : AStep s l s'
  | unreg {s s' : State} {l : Label} (h c tok : Nat) (hl : ∀ c op ctx, l ≠ .begin c op ctx)
      (hcb0 : s.cb = .got (.unreg h c tok) ∨ ∃ c0, s.cb = .calls [c0] (.unreg h c tok))
      (hview : s'.view = s.view) (hcb : s'.cb = .top) (hq : s'.cbch = s.cbch)
      (hh : s'.handles = s.handles.filter (fun x => x.1 != h))
      (hls : s'.lastSerial = s.lastSerial) (hlv : s'.lastVersion = s.lastVersion)
      (hm : s'.mon = s.mon) (hcl : CLe s.clients s'.clients)
      (hlog : s'.log = .unregProcessed h :: s.log ∨ s'.log = .ret c .unregTrue :: .unregProcessed h :: s.log) :
      AStep s l s'
  | next {s : State} {l : Label} (c0 c : Call) (cs : List Call) (ev : CbEv) (hl : ∀ c op ctx, l ≠ .begin c op ctx)
      (hcb0 : s.cb = .calls (c0 :: c :: cs) ev) :
      AStep s l { s with cb := .calls (c :: cs) ev, log := .enter c :: s.log }
  | finishPlain {s : State} {l : Label} (c0 : Call) (ev : CbEv) (hl : ∀ c op ctx, l ≠ .begin c op ctx)
      (hcb0 : s.cb = .calls [c0] ev)
      (hev : match ev with | .newCfg _ _ _ => True | .watchErr _ _ _ => True | _ => False) :
      AStep s l { s with cb := .top }
  | finishReg {s : State} {l : Label} (c0 : Call) (h ser : Nat) (cfg : Option Slots) (hl : ∀ c op ctx, l ≠ .begin c op ctx)
      (hcb0 : s.cb = .calls [c0] (.reg h ser cfg)) :
      AStep s l { s with cb := .top, handles := s.handles ++ [(h, ser)] }

/-! ## §4 abstraction -/

theorem enqueueCb_frame (s : State) (ev : CbEv) :
    (enqueueCb s ev).view = s.view ∧ (enqueueCb s ev).handles = s.handles ∧
    (enqueueCb s ev).lastSerial = s.lastSerial ∧ (enqueueCb s ev).lastVersion = s.lastVersion ∧
    (enqueueCb s ev).mon = s.mon ∧ (enqueueCb s ev).clients = s.clients ∧ (enqueueCb s ev).log = s.log ∧
    (enqueueCb s ev).skipVerify = s.skipVerify := by
  unfold enqueueCb cbTake
  split <;> simp

theorem trySubmit_cases (s : State) (ev : CbEv) (choice : Nat) :
    (SameCore s (trySubmit s ev choice) ∧ (trySubmit s ev choice).mon = s.mon ∧
      (trySubmit s ev choice).clients = s.clients ∧ (trySubmit s ev choice).log = .dropped ev :: s.log) ∨
    ((trySubmit s ev choice).view = s.view ∧ (trySubmit s ev choice).cb = (enqueueCb s ev).cb ∧
      (trySubmit s ev choice).cbch = (enqueueCb s ev).cbch ∧ (trySubmit s ev choice).handles = s.handles ∧
      (trySubmit s ev choice).lastSerial = s.lastSerial ∧ (trySubmit s ev choice).lastVersion = s.lastVersion ∧
      (trySubmit s ev choice).mon = s.mon ∧ (trySubmit s ev choice).clients = s.clients ∧
      (trySubmit s ev choice).log = .queued ev s.skipVerify :: s.log) := by
  unfold trySubmit
  split
  · right
    obtain ⟨h1, h2, h3, h4, h5, h6, h7, _⟩ := enqueueCb_frame s ev
    simp only [State.logAdd, h1, h2, h3, h4, h5, h6, h7, and_self]
  · left
    exact ⟨⟨rfl, rfl, rfl, rfl, rfl, rfl⟩, rfl, rfl, rfl⟩

/-- a monitor step that consists of `trySubmit` followed by uninteresting updates -/
theorem submit_abs {s s' : State} {l : Label} (hl : ∀ c op ctx, l ≠ .begin c op ctx) (ev : CbEv) (choice : Nat)
    (hev : SubmitOK s ev) (extra : List Obs) (hextra : ∀ o ∈ extra, boringObs o = true)
    (hview : s'.view = (trySubmit s ev choice).view) (hcb : s'.cb = (trySubmit s ev choice).cb)
    (hq : s'.cbch = (trySubmit s ev choice).cbch) (hh : s'.handles = (trySubmit s ev choice).handles)
    (hls : s'.lastSerial = (trySubmit s ev choice).lastSerial)
    (hlv : s'.lastVersion = (trySubmit s ev choice).lastVersion)
    (hm : monOld s'.mon = none) (hc : s'.clients = (trySubmit s ev choice).clients)
    (hlog : s'.log = extra ++ (trySubmit s ev choice).log) : AStep s l s' := by
  rcases trySubmit_cases s ev choice with ⟨h1, _, h3, h4⟩ | ⟨h1, h2, h3, h4, h5, h6, _, h8, h9⟩
  · refine .submitDrop ev hl ⟨hview.trans h1.view, hcb.trans h1.cb, hq.trans h1.cbch, hh.trans h1.handles,
      hls.trans h1.lastSerial, hlv.trans h1.lastVersion⟩ hm (hc.trans h3) ⟨extra, ?_, hextra⟩
    rw [hlog, h4]
  · refine .submitEnq ev s.skipVerify hl hev (hview.trans h1) (hcb.trans h2) (hq.trans h3) (hh.trans h4)
      (hls.trans h5) (hlv.trans h6) hm (hc.trans h8) ⟨extra, ?_, hextra⟩
    rw [hlog, h9]

theorem monTake_boring (s : State) (i : MonIn) (hm : monOld s.mon = none) : Boring s (monTake s i) := by
  cases i with
  | ctx => exact Boring.of_eqs rfl rfl rfl rfl rfl rfl (by rw [hm]; rfl) rfl rfl
  | ctl c tok =>
    simp only [monTake]
    have h := quiet_admitCtlSender { s with mon := .gotEnable c tok, monCtl := s.monCtl.drop 1 }
    exact ⟨h.core.view, .inl h.core.cb, h.core.cbch, h.core.handles, h.core.lastSerial, h.core.lastVersion,
      by rw [h.mon, hm]; rfl, h.clients, h.log⟩
  | msg c m =>
    simp only [monTake]
    have key : ∀ s1 : State, s1.view = s.view → s1.cb = s.cb → s1.cbch = s.cbch → s1.handles = s.handles →
        s1.lastSerial = s.lastSerial → s1.lastVersion = s.lastVersion → monOld s1.mon = none →
        s1.clients = s.clients → s1.log = s.log →
        Boring s (match m, getC s1.clients c with
          | .value _ _ (some _), .sendW _ ctx => s1.waitOr c ctx (.waitReply ctx) .ctxErr
          | _, _ => s1.ret c .okNil) := by
      intro s1 h1 h2 h3 h4 h5 h6 h7 h8 h9
      have hq : ∀ s2, Quiet s1 s2 → Boring s s2 := fun s2 q =>
        ⟨q.core.view.trans h1, .inl (q.core.cb.trans h2), q.core.cbch.trans h3, q.core.handles.trans h4,
         q.core.lastSerial.trans h5, q.core.lastVersion.trans h6, by rw [q.mon, h7, hm],
         by rw [← h8]; exact q.clients, by rw [← h9]; exact q.log⟩
      split
      · exact hq _ (quiet_waitOr _ _ _ rfl rfl)
      · exact hq _ (quiet_ret _ _ rfl)
    cases m with
    | value src v reply => exact key _ rfl rfl rfl rfl rfl rfl rfl rfl rfl
    | srcErr src e => exact key _ rfl rfl rfl rfl rfl rfl rfl rfl rfl
    | done src => exact key _ rfl rfl rfl rfl rfl rfl rfl rfl rfl

macro "logext" : tactic => `(tactic| repeat (first | exact LogExt.refl _ | apply LogExt.cons rfl))

/-- close a case where only uninteresting fields and boring log entries change -/
macro "boring_case" hl:ident hm:ident : tactic =>
  `(tactic| exact AStep.boring $hl ⟨rfl, .inl rfl, rfl, rfl, rfl, rfl, by simp [monOld, State.logAdd, $hm:ident], .refl _, by logext⟩)

theorem runMon_abs {W : World} {s s' : State} {l : Label} (hl : ∀ c op ctx, l ≠ .begin c op ctx) {choice : Nat}
    (h : runMon W s choice = some s') : AStep s l s' := by
  unfold runMon at h
  split at h
  · -- top
    rename_i hm
    split at h
    · simp only [Option.some.injEq] at h; subst h; boring_case hl hm
    · simp only [Option.map_eq_some_iff] at h
      obtain ⟨i, _, rfl⟩ := h
      exact .boring hl (monTake_boring s i (by simp [monOld, hm]))
  · simp at h
  · -- gotValue
    rename_i src v reply hm
    dsimp only at h
    split at h
    · simp only [Option.some.injEq] at h; subst h; boring_case hl hm
    · split at h <;> (simp only [Option.some.injEq] at h; subst h; boring_case hl hm)
  · -- verifyUpd
    rename_i slots' reply hm
    split at h <;> (simp only [Option.some.injEq] at h; subst h; boring_case hl hm)
  · -- submitErr
    rename_i k new reply hm
    dsimp only at h
    split at h <;> (simp only [Option.some.injEq] at h; subst h)
    · exact submit_abs hl (.watchErr k s.view.cfg new) choice (by simp [SubmitOK, monOld, hm]) [.reject k _]
        (by simp [boringObs]) rfl rfl rfl rfl rfl rfl rfl rfl rfl
    · exact submit_abs hl (.watchErr k s.view.cfg new) choice (by simp [SubmitOK, monOld, hm]) [.reject k _]
        (by simp [boringObs]) rfl rfl rfl rfl rfl rfl rfl rfl rfl
  · -- replyErr
    rename_i k c hm
    simp only [Option.some.injEq] at h; subst h
    refine .boring hl (Quiet.then (s1 := replyTo s c _) (quiet_replyTo s c ?_) rfl rfl rfl rfl rfl rfl
      (by simp [monOld, hm]) rfl rfl)
    cases k <;> rfl
  · -- store
    rename_i slots' reply hm
    simp only [Option.some.injEq] at h; subst h
    exact .store hl hm
  · -- events
    rename_i old reply hm
    dsimp only at h
    split at h <;> split at h <;> (simp only [Option.some.injEq] at h; subst h; boring_case hl hm)
  · -- replyOk
    rename_i old c hm
    simp only [Option.some.injEq] at h; subst h
    have q := quiet_replyTo s c (r := .okNil) rfl
    exact .boring hl (q.then rfl rfl rfl rfl rfl rfl (by simp [monOld, hm]) rfl rfl)
  · -- submitNew
    rename_i old hm
    simp only [Option.some.injEq] at h; subst h
    exact submit_abs hl (.newCfg old s.view (suppressedNow s)) choice (by simp [SubmitOK, monOld, hm]) []
        (by simp) rfl rfl rfl rfl rfl rfl rfl rfl rfl
  · -- gotSrcErr
    rename_i e hm
    split at h <;> (simp only [Option.some.injEq] at h; subst h; boring_case hl hm)
  · -- submitSrcErr
    rename_i e hm
    simp only [Option.some.injEq] at h; subst h
    exact submit_abs hl (.watchErr (.source e) s.view.cfg none) choice (by simp [SubmitOK, monOld, hm]) []
        (by simp) rfl rfl rfl rfl rfl rfl rfl rfl rfl
  · -- gotDone
    rename_i src hm
    dsimp only at h
    split at h <;> (simp only [Option.some.injEq] at h; subst h; boring_case hl hm)
  · -- gotEnable
    rename_i c tok hm
    split at h <;> (simp only [Option.some.injEq] at h; subst h; boring_case hl hm)
  · -- verifyEnable
    rename_i c tok hm
    simp only [Option.some.injEq] at h; subst h; boring_case hl hm
  · -- enableReply
    rename_i c tok ok noop hm
    simp only [Option.some.injEq] at h; subst h
    have q1 : Quiet s (if noop = true then s else { s with skipVerify := !ok }.logAdd (.enabled ok s.view)) := by
      split
      · exact .refl s
      · exact ⟨⟨rfl, rfl, rfl, rfl, rfl, rfl⟩, rfl, .refl _, by logext⟩
    generalize (if noop = true then s else { s with skipVerify := !ok }.logAdd (.enabled ok s.view)) = s1 at q1
    have hr : boringRes (if ok = true then Res.enableOk s1.view else Res.enableErr) = true := by split <;> rfl
    generalize (if ok = true then Res.enableOk s1.view else Res.enableErr) = r at hr
    have q2 : Quiet s1 (match getC s1.clients c with
        | .waitResp k => if (k == tok) = true then s1.ret c r else s1
        | _ => s1) := by
      split
      · split
        · exact quiet_ret s1 c hr
        · exact .refl s1
      · exact .refl s1
    exact .boring hl ((q1.trans q2).then rfl rfl rfl rfl rfl rfl (by simp [monOld, hm]) rfl rfl)
  · -- exit
    rename_i hm
    simp only [Option.some.injEq] at h; subst h
    refine .boring hl ⟨rfl, ?_, rfl, rfl, rfl, rfl, by simp [monOld, State.logAdd, hm], ?_, by logext⟩
    · simp only [State.logAdd]
      cases hcb : s.cb <;> simp [cbBusy]
    · simp only [State.logAdd]
      apply CLe.map
      · intro p; split <;> rfl
      · intro p
        obtain ⟨c, st⟩ := p
        simp only [heldEv]
        split <;> simp_all [evOf]
  · simp at h

theorem admitCbSender_cases (s : State) :
    admitCbSender s = s ∨
    ∃ c ev ctx st', (c, CSt.sendCb ev ctx) ∈ s.clients ∧ (admitCbSender s).view = s.view ∧
      (admitCbSender s).cb = s.cb ∧ (admitCbSender s).handles = s.handles ∧
      (admitCbSender s).lastSerial = s.lastSerial ∧ (admitCbSender s).lastVersion = s.lastVersion ∧
      (admitCbSender s).mon = s.mon ∧ (admitCbSender s).cbch = s.cbch ++ [ev] ∧
      (admitCbSender s).clients = setC s.clients c st' ∧ evOf c st' = none ∧
      HandLog c ev s.log (admitCbSender s).log := by
  unfold admitCbSender
  split
  · rename_i c ev ctx hf
    right
    have hmem := List.mem_of_find?_eq_some hf
    cases ev with
    | reg h ser cfg => exact ⟨c, _, ctx, .returned (.regOk h), hmem, rfl, rfl, rfl, rfl, rfl, rfl, rfl, rfl, rfl, rfl⟩
    | newCfg o n sp => exact ⟨c, _, ctx, .returned (.regOk 0), hmem, rfl, rfl, rfl, rfl, rfl, rfl, rfl, rfl, rfl, rfl⟩
    | watchErr k o n => exact ⟨c, _, ctx, .returned (.regOk 0), hmem, rfl, rfl, rfl, rfl, rfl, rfl, rfl, rfl, rfl, rfl⟩
    | unreg h c' tok =>
      dsimp only
      unfold State.waitOr
      split
      · exact ⟨c, _, ctx, .returned .unregFalse, hmem, rfl, rfl, rfl, rfl, rfl, rfl, rfl, rfl, rfl,
          by simp only [HandLog, State.ret]; logext⟩
      · exact ⟨c, _, ctx, .waitDone ctx, hmem, rfl, rfl, rfl, rfl, rfl, rfl, rfl, rfl, rfl,
          by simp only [HandLog, State.setClient]; logext⟩
  · left; rfl

theorem finishEv_unreg (s : State) (h c tok : Nat) :
    (finishEv s (.unreg h c tok)).view = s.view ∧ (finishEv s (.unreg h c tok)).cbch = s.cbch ∧
    (finishEv s (.unreg h c tok)).handles = s.handles.filter (fun x => x.1 != h) ∧
    (finishEv s (.unreg h c tok)).lastSerial = s.lastSerial ∧
    (finishEv s (.unreg h c tok)).lastVersion = s.lastVersion ∧
    (finishEv s (.unreg h c tok)).mon = s.mon ∧ CLe s.clients (finishEv s (.unreg h c tok)).clients ∧
    ((finishEv s (.unreg h c tok)).log = .unregProcessed h :: s.log ∨
      (finishEv s (.unreg h c tok)).log = .ret c .unregTrue :: .unregProcessed h :: s.log) := by
  unfold finishEv
  dsimp only
  split
  · split
    · exact ⟨rfl, rfl, rfl, rfl, rfl, rfl, CLe.setC_none _ rfl, .inr rfl⟩
    · exact ⟨rfl, rfl, rfl, rfl, rfl, rfl, .refl _, .inl rfl⟩
  · exact ⟨rfl, rfl, rfl, rfl, rfl, rfl, .refl _, .inl rfl⟩

theorem runCb_abs {s s' : State} {l : Label} (hl : ∀ c op ctx, l ≠ .begin c op ctx)
    (h : runCb s = some s') : AStep s l s' := by
  unfold runCb at h
  split at h
  · -- top
    rename_i hcb
    split at h
    · rename_i ev rest hq
      simp only [Option.some.injEq] at h; subst h
      rcases admitCbSender_cases (cbTake { s with cbch := rest } ev) with he | ⟨c, ev', ctx, st', h1, h2, h3, h4, h5, h6, h7, h8, h9, h10, h11⟩
      · rw [he]
        exact .deq ev rest hl hcb hq rfl rfl rfl rfl rfl rfl (.inl ⟨rfl, rfl, rfl⟩)
      · exact .deq ev rest hl hcb hq h2 h3 h4 h5 h6 h7 (.inr ⟨c, ev', ctx, st', h1, h8, h9, h10, h11⟩)
    · rename_i hq
      split at h <;> (simp only [Option.some.injEq] at h; subst h)
      · exact .boring hl ⟨rfl, .inr (by simp [cbBusy, hcb]), rfl, rfl, rfl, rfl, rfl, .refl _, .refl _⟩
      · exact .boring hl ⟨rfl, .inr (by simp [cbBusy, hcb, hq]), rfl, rfl, rfl, rfl, rfl, .refl _, .refl _⟩
  · -- got
    rename_i ev hcb
    cases ev with
    | newCfg old new supp =>
      cases supp with
      | false =>
        simp only [Facts.globalGate, Bool.not_false, if_true, finishEv, State.logAdd] at h
        cases hcalls : callsFor s.handles new.serial (some new.cfg) (.newCfg old new false) with
        | nil =>
          rw [hcalls] at h; simp only [Option.some.injEq] at h; subst h
          exact .gotNew old new false hl hcb rfl rfl rfl rfl rfl rfl rfl ⟨[], by simp, by rw [hcalls]; exact ⟨rfl, rfl⟩⟩
        | cons c cs =>
          rw [hcalls] at h; simp only [Option.some.injEq] at h; subst h
          exact .gotNew old new false hl hcb rfl rfl rfl rfl rfl rfl rfl ⟨[], by simp, by rw [hcalls]; exact ⟨rfl, rfl⟩⟩
      | true =>
        simp only [Facts.globalGate, Bool.not_true, Bool.false_eq_true, if_false, finishEv, State.logAdd] at h
        cases hcalls : callsFor s.handles new.serial (some new.cfg) (.newCfg old new true) with
        | nil =>
          rw [hcalls] at h; simp only [Option.some.injEq] at h; subst h
          exact .gotNew old new true hl hcb rfl rfl rfl rfl rfl rfl rfl
            ⟨[.withheld (.newCfg old new true) s.skipVerify], by simp [boringObs], by rw [hcalls]; exact ⟨rfl, rfl⟩⟩
        | cons c cs =>
          rw [hcalls] at h; simp only [Option.some.injEq] at h; subst h
          exact .gotNew old new true hl hcb rfl rfl rfl rfl rfl rfl rfl
            ⟨[.withheld (.newCfg old new true) s.skipVerify], by simp [boringObs], by rw [hcalls]; exact ⟨rfl, rfl⟩⟩
    | watchErr k old new =>
      simp only [callsFor, State.logAdd, Option.some.injEq] at h
      subst h
      exact .gotErr k old new hl hcb
    | reg hh ser cfg =>
      simp only [State.logAdd, finishEv] at h
      cases hcalls : callsFor s.handles s.lastSerial s.lastVersion (.reg hh ser cfg) with
      | nil =>
        rw [hcalls] at h; simp only [Option.some.injEq] at h; subst h
        exact .gotReg hh ser cfg hl hcb rfl rfl rfl rfl rfl rfl (by rw [hcalls]; exact ⟨rfl, rfl, rfl⟩)
      | cons c cs =>
        rw [hcalls] at h; simp only [Option.some.injEq] at h; subst h
        exact .gotReg hh ser cfg hl hcb rfl rfl rfl rfl rfl rfl (by rw [hcalls]; exact ⟨rfl, rfl, rfl⟩)
    | unreg hh c tok =>
      simp only [callsFor, Option.some.injEq] at h
      subst h
      obtain ⟨h1, h2, h3, h4, h5, h6, h7, h8⟩ := finishEv_unreg s hh c tok
      exact .unreg hh c tok hl (.inl hcb) h1 rfl h2 h3 h4 h5 h6 h7 h8
  · -- calls next
    rename_i c0 c cs ev hcb
    simp only [Option.some.injEq] at h; subst h
    exact .next c0 c cs ev hl hcb
  · -- calls finish
    rename_i c0 ev hcb
    simp only [Option.some.injEq] at h; subst h
    cases ev with
    | newCfg old new supp => exact .finishPlain c0 _ hl hcb trivial
    | watchErr k old new => exact .finishPlain c0 _ hl hcb trivial
    | reg hh ser cfg => exact .finishReg c0 hh ser cfg hl hcb
    | unreg hh c tok =>
      obtain ⟨h1, h2, h3, h4, h5, h6, h7, h8⟩ := finishEv_unreg s hh c tok
      exact .unreg hh c tok hl (.inr ⟨c0, hcb⟩) h1 rfl h2 h3 h4 h5 h6 h7 h8
  · simp at h
  · -- exit
    rename_i hcb
    simp only [Option.some.injEq] at h; subst h
    exact .boring hl ⟨rfl, .inr (by simp [cbBusy, hcb]), rfl, rfl, rfl, rfl, rfl, .refl _, .refl _⟩
  · simp at h
  · simp at h

theorem Boring.trans {a b c : State} (h1 : Boring a b) (h2 : Boring b c) : Boring a c := by
  refine ⟨h2.view.trans h1.view, ?_, h2.cbch.trans h1.cbch, h2.handles.trans h1.handles,
    h2.lastSerial.trans h1.lastSerial, h2.lastVersion.trans h1.lastVersion, h2.mon.trans h1.mon,
    h1.clients.trans h2.clients, h1.log.trans h2.log⟩
  rcases h1.cb with e1 | ⟨x1, y1, z1⟩
  · rcases h2.cb with e2 | ⟨x2, y2, z2⟩
    · exact .inl (e2.trans e1)
    · exact .inr ⟨by rw [← e1]; exact x2, y2, fun hc => by rw [← h1.cbch]; exact z2 hc⟩
  · rcases h2.cb with e2 | ⟨x2, y2, z2⟩
    · exact .inr ⟨x1, by rw [e2]; exact y1, fun hc => z1 (by rw [← e2]; exact hc)⟩
    · exact .inr ⟨x1, y2, fun hc => by rw [← h1.cbch]; exact z2 hc⟩

theorem offerW_boring (s : State) (c : Nat) (m : Msg) (ctx choice : Nat) :
    Boring s (offerW s c m ctx choice) := by
  unfold offerW
  dsimp only
  split
  · rename_i hcond
    have hm : s.mon = .sel := by
      simp only [Bool.and_eq_true, beq_iff_eq] at hcond
      exact hcond.1
    exact (quiet_setClient s c (st := .sendW m ctx) rfl).boring.trans
      (monTake_boring _ _ (by simp [State.setClient, hm, monOld]))
  · split
    · exact (quiet_ret s c rfl).boring
    · exact (quiet_blockClient s c (st := .sendW m ctx) rfl).boring

theorem offerCb_abs {s : State} {l : Label} (hl : ∀ c op ctx, l ≠ .begin c op ctx) {c : Nat} {op : Op} {ctx : Nat}
    {ev : CbEv} (choice : Nat) (hc : getC s.clients c = .ready op ctx) (hev : evOf c (.ready op ctx) = some ev) :
    AStep s l (offerCb s c ev ctx choice) := by
  have hru : (∃ h ser cfg, ev = .reg h ser cfg) ∨ (∃ h c' t, ev = .unreg h c' t) := by
    cases op <;> simp [evOf] at hev
    · exact .inl ⟨_, _, _, hev.symm⟩
    · exact .inr ⟨_, _, _, hev.symm⟩
  have hret : ∀ r, boringRes r = true → Quiet s (s.ret c r) := fun r hr => quiet_ret s c hr
  obtain ⟨h1, h2, h3, h4, h5, h6, h7, _⟩ := enqueueCb_frame s ev
  have hblock : AStep s l (s.blockClient c (.sendCb ev ctx)) :=
    .boring hl ⟨rfl, .inl rfl, rfl, rfl, rfl, rfl, rfl, CLe.block_same _ (by rw [hc, hev]; rfl), .refl _⟩
  unfold offerCb
  rcases hru with ⟨h, ser, cfg, rfl⟩ | ⟨h, c', t, rfl⟩
  · dsimp only
    split
    · exact .boring hl (hret _ rfl).boring
    · split
      · exact .enq c _ op ctx (.returned (.regOk h)) hl hc hev h1 rfl rfl h2 h3 h4 h5
          (by simp only [State.ret, h6]) rfl (by simp only [HandLog, State.ret, h7])
      · split
        · exact .boring hl (hret _ rfl).boring
        · exact hblock
  · dsimp only
    split
    · exact .boring hl (hret _ rfl).boring
    · split
      · unfold State.waitOr
        split
        · exact .enq c _ op ctx (.returned .unregFalse) hl hc hev h1 rfl rfl h2 h3 h4 h5
            (by simp only [State.ret, h6]) rfl (by simp only [HandLog, State.ret, h7]; logext)
        · exact .enq c _ op ctx (.waitDone ctx) hl hc hev h1 rfl rfl h2 h3 h4 h5
            (by simp only [State.setClient, h6]) rfl (by simp only [HandLog, State.setClient, h7]; logext)
      · split
        · exact .boring hl (hret _ rfl).boring
        · exact hblock

theorem runClient_abs {s s' : State} {l : Label} (hl : ∀ c op ctx, l ≠ .begin c op ctx) {c choice : Nat}
    (h : runClient s c choice = some s') : AStep s l s' := by
  unfold runClient at h
  split at h
  · rename_i op ctx hc
    split at h
    · -- view
      simp only [Option.some.injEq] at h; subst h
      exact .boring hl ((quiet_ret s c (r := .version s.view) rfl).trans (quiet_logAdd _ rfl)).boring
    · -- events
      split at h <;> (simp only [Option.some.injEq] at h; subst h)
      · rename_i v _
        have q0 : Quiet s { s with events := none } := ⟨⟨rfl, rfl, rfl, rfl, rfl, rfl⟩, rfl, .refl _, .refl _⟩
        exact .boring hl ((q0.trans (quiet_ret _ c (r := .event v.cfg) rfl)).trans (quiet_logAdd _ rfl)).boring
      · exact .boring hl (quiet_ret s c rfl).boring
    · simp only [Option.some.injEq] at h; subst h
      exact .boring hl (offerW_boring _ _ _ _ _)
    · simp only [Option.some.injEq] at h; subst h
      exact .boring hl (offerW_boring _ _ _ _ _)
    · simp only [Option.some.injEq] at h; subst h
      exact .boring hl (offerW_boring _ _ _ _ _)
    · -- register
      simp only [Option.some.injEq] at h; subst h
      exact offerCb_abs hl choice hc rfl
    · -- unregister
      simp only [Option.some.injEq] at h; subst h
      exact offerCb_abs hl choice hc rfl
    · -- enable
      split at h
      · simp only [Option.some.injEq] at h; subst h
        exact .boring hl (quiet_ret s c rfl).boring
      · dsimp only at h
        have q1 : Quiet s (s.logAdd (.enableCalled c)) := quiet_logAdd s rfl
        split at h
        · have q2 := q1.trans (quiet_waitOr (s.logAdd (.enableCalled c)) c ctx (st := .waitResp ctx) (r := .ctxErr) rfl rfl)
          split at h <;> (simp only [Option.some.injEq] at h; subst h)
          · rename_i hsel
            have hm : s.mon = .sel := by
              rw [beq_iff_eq, q2.mon] at hsel; exact hsel
            exact .boring hl (q2.then rfl rfl rfl rfl rfl rfl (by simp [monOld, hm]) rfl rfl)
          · exact .boring hl (q2.then rfl rfl rfl rfl rfl rfl (by rw [← q2.mon]) rfl rfl)
        · split at h <;> (simp only [Option.some.injEq] at h; subst h)
          · exact .boring hl (q1.trans (quiet_ret _ c rfl)).boring
          · exact .boring hl (q1.trans (quiet_blockClient _ c (st := .sendCtl ctx) rfl)).boring
  · simp at h

theorem cancelCtx_boring (s : State) (ctx : Nat) : Boring s (cancelCtx s ctx) := by
  unfold cancelCtx
  dsimp only
  have hcl : CLe s.clients (s.clients.map (fun p =>
      match p.2 with
      | .sendW _ k => if (k == ctx) = true then (p.1, CSt.returned .ctxErr) else p
      | .waitReply k => if (k == ctx) = true then (p.1, .returned .ctxErr) else p
      | .sendCb (.unreg _ _ _) k => if (k == ctx) = true then (p.1, .returned .unregFalse) else p
      | .sendCb _ k => if (k == ctx) = true then (p.1, .returned .regFail) else p
      | .waitDone k => if (k == ctx) = true then (p.1, .returned .unregFalse) else p
      | .sendCtl k => if (k == ctx) = true then (p.1, .returned .ctxErr) else p
      | .waitResp k => if (k == ctx) = true then (p.1, .returned .ctxErr) else p
      | _ => p)) := by
    apply CLe.map
    · intro p; split <;> (try split) <;> rfl
    · intro p
      obtain ⟨c, st⟩ := p
      simp only [heldEv]
      split <;> (try split) <;> simp [evOf]
  split
  · rename_i hcond
    simp only [Bool.and_eq_true, beq_iff_eq] at hcond
    exact ⟨rfl, .inl rfl, rfl, rfl, rfl, rfl, by simp [monOld, hcond.2], hcl, .refl _⟩
  · exact ⟨rfl, .inl rfl, rfl, rfl, rfl, rfl, rfl, hcl, .refl _⟩

theorem step_abs {W : World} {s s' : State} {l : Label} (h : step W s l = some s') : AStep s l s' := by
  cases l with
  | «begin» c op ctx =>
    simp only [step] at h
    split at h
    · rename_i hc
      simp only [Option.some.injEq] at h; subst h
      exact .begin op ctx hc
    · simp at h
  | ack c =>
    simp only [step] at h
    split at h
    · simp only [Option.some.injEq] at h; subst h
      exact .boring (by intros; simp) (quiet_setClient s c rfl).boring
    · simp at h
  | runMon choice => exact runMon_abs (by intros; simp) h
  | runCb => exact runCb_abs (by intros; simp) h
  | runClient c choice => exact runClient_abs (by intros; simp) h
  | cancel ctx =>
    simp only [step, Option.some.injEq] at h; subst h
    exact .boring (by intros; simp) (cancelCtx_boring s ctx)

/-! ## §5 basic invariants -/

theorem reachable_astep_induct {W : World} {P : Params} {sl : Slots} {w : List Bool}
    (Inv : State → Prop) (h0 : Inv (initState P sl w))
    (hstep : ∀ s l s', Reachable W P sl w s → Inv s → AStep s l s' → Inv s')
    {s : State} (hr : Reachable W P sl w s) : Inv s :=
  reachable_induct Inv h0 (fun s l s' hr hi hs => hstep s l s' hr hi (step_abs hs)) hr

def isRU : CbEv → Bool
  | .reg _ _ _ => true
  | .unreg _ _ _ => true
  | _ => false

theorem mem_held_setC {cs : List (Nat × CSt)} {c : Nat} {st : CSt} {ev : CbEv}
    (h : ev ∈ held (setC cs c st)) : ev ∈ held cs ∨ evOf c st = some ev := by
  have h0 := countP_held_setC (fun e => e == ev) cs c st
  have h1 : 0 < (held (setC cs c st)).countP (fun e => e == ev) := List.countP_pos_iff.2 ⟨ev, h, by simp⟩
  by_cases h2 : 0 < (held cs).countP (fun e => e == ev)
  · obtain ⟨a, ha, hae⟩ := List.countP_pos_iff.1 h2
    simp only [beq_iff_eq] at hae
    subst hae; exact .inl ha
  · right
    cases he : evOf c st with
    | none => rw [he] at h0; simp only [wt_none] at h0; omega
    | some e =>
      rw [he] at h0
      simp only [wt_some, beq_iff_eq] at h0
      by_cases hee : e = ev
      · rw [hee]
      · simp only [hee, if_false] at h0; omega

theorem getC_held {cs : List (Nat × CSt)} {c : Nat} {ev : CbEv} (h : evOf c (getC cs c) = some ev) : ev ∈ held cs := by
  have hne : getC cs c ≠ .idle := by
    intro e; rw [e] at h; simp [evOf] at h
  exact mem_held.2 ⟨_, getC_mem hne, h⟩

structure Inv1 (s : State) : Prop where
  keys : KeysNodup s.clients
  ru : ∀ ev ∈ held s.clients, isRU ev = true
  sel : s.cb = .sel → s.cbch = []

theorem inv1_init (P : Params) (sl : Slots) (w : List Bool) : Inv1 (initState P sl w) :=
  ⟨by simp [initState, KeysNodup], by simp [initState], by simp [initState]⟩

theorem enqueueCb_sel {s : State} {ev : CbEv} (_h : s.cb = .sel → s.cbch = []) :
    (enqueueCb s ev).cb = .sel → (enqueueCb s ev).cbch = [] := by
  unfold enqueueCb cbTake
  split
  · simp
  · rename_i hne
    intro hc
    exact absurd hc (by simpa using hne)

theorem inv1_step {s s' : State} {l : Label} (hi : Inv1 s) (hs : AStep s l s') : Inv1 s' := by
  cases hs with
  | boring hl hb =>
    refine ⟨hb.clients.1 hi.keys, fun ev hev => hi.ru ev (hb.clients.mem hev), ?_⟩
    intro hc
    rw [hb.cbch]
    rcases hb.cb with e | ⟨_, _, e⟩
    · exact hi.sel (e ▸ hc)
    · exact e hc
  | «begin» op ctx hc =>
    refine ⟨hi.keys.setC _ _, ?_, hi.sel⟩
    intro ev hev
    rcases mem_held_setC hev with h | h
    · exact hi.ru ev h
    · cases op <;> simp [evOf] at h <;> subst h <;> rfl
  | store hl hm => exact ⟨hi.keys, hi.ru, hi.sel⟩
  | submitDrop ev hl hcore hm hc hlog =>
    exact ⟨hc ▸ hi.keys, hc ▸ hi.ru, by rw [hcore.cb, hcore.cbch]; exact hi.sel⟩
  | submitEnq ev skip hl hev hview hcb hq hh hls hlv hm hc hlog =>
    exact ⟨hc ▸ hi.keys, hc ▸ hi.ru, by rw [hcb, hq]; exact enqueueCb_sel hi.sel⟩
  | enq c ev op ctx st' hl hc hev hview hcb hq hh hls hlv hm hcl hst' hlog =>
    refine ⟨hcl ▸ hi.keys.setC _ _, ?_, by rw [hcb, hq]; exact enqueueCb_sel hi.sel⟩
    rw [hcl]
    intro e he
    exact hi.ru e ((CLe.setC_none _ hst').mem he)
  | deq ev rest hl hcb0 hq0 hview hcb hh hls hlv hm hadm =>
    refine ⟨?_, ?_, by simp [hcb]⟩
    · rcases hadm with ⟨_, h2, _⟩ | ⟨c, ev', ctx, st', _, _, h3, _, _⟩
      · exact h2 ▸ hi.keys
      · exact h3 ▸ hi.keys.setC _ _
    · rcases hadm with ⟨_, h2, _⟩ | ⟨c, ev', ctx, st', _, _, h3, h4, _⟩
      · exact h2 ▸ hi.ru
      · rw [h3]; intro e he; exact hi.ru e ((CLe.setC_none _ h4).mem he)
  | gotNew old new supp hl hcb0 hview hq hh hls hlv hm hc hres =>
    refine ⟨hc ▸ hi.keys, hc ▸ hi.ru, ?_⟩
    obtain ⟨extra, _, hres⟩ := hres
    split at hres <;> (intro hsel; rw [hres.1] at hsel; simp at hsel)
  | gotErr k old new hl hcb0 => exact ⟨hi.keys, hi.ru, by simp⟩
  | gotReg _ ser cfg hl hcb0 hview hq hls hlv hm hc hres =>
    refine ⟨hc ▸ hi.keys, hc ▸ hi.ru, ?_⟩
    split at hres <;> (intro hsel; rw [hres.1] at hsel; simp at hsel)
  | unreg h c tok hl hcb0 hview hcb hq hh hls hlv hm hcl hlog =>
    exact ⟨hcl.1 hi.keys, fun ev hev => hi.ru ev (hcl.mem hev), by simp [hcb]⟩
  | next c0 c cs ev hl hcb0 => exact ⟨hi.keys, hi.ru, by simp⟩
  | finishPlain c0 ev hl hcb0 hev => exact ⟨hi.keys, hi.ru, by simp⟩
  | finishReg c0 h ser cfg hl hcb0 => exact ⟨hi.keys, hi.ru, by simp⟩

theorem inv1 {W : World} {P : Params} {sl : Slots} {w : List Bool} {s : State}
    (hr : Reachable W P sl w s) : Inv1 s :=
  reachable_astep_induct Inv1 (inv1_init P sl w) (fun _ _ _ _ hi hs => inv1_step hi hs) hr

/-! ## §6 serial order on the callback channel -/

def evLt (a b : CbEv) : Prop :=
  match a, b with
  | .newCfg _ n1 _, .newCfg _ n2 _ => n1.serial < n2.serial
  | _, _ => True

def serGt (n : Nat) : CbEv → Prop
  | .newCfg _ new _ => n < new.serial
  | _ => True

def serLt (n : Nat) : CbEv → Prop
  | .newCfg _ new _ => new.serial < n
  | _ => True

theorem serGt_ru {n : Nat} {ev : CbEv} (h : isRU ev = true) : serGt n ev := by cases ev <;> simp_all [isRU, serGt]
theorem serLt_ru {n : Nat} {ev : CbEv} (h : isRU ev = true) : serLt n ev := by cases ev <;> simp_all [isRU, serLt]
theorem evLt_ru {e ev : CbEv} (h : isRU ev = true) : evLt e ev := by cases ev <;> cases e <;> simp_all [isRU, evLt]
theorem serLt_mono {n m : Nat} {ev : CbEv} (h : serLt n ev) (hnm : n ≤ m) : serLt m ev := by
  cases ev <;> simp_all [serLt]; omega
theorem serGt_of_evLt {old : Slots} {new : Version} {supp : Bool} {ev : CbEv} (h : evLt (.newCfg old new supp) ev) :
    serGt new.serial ev := by
  cases ev <;> simp_all [serGt, evLt]

def hiOf (mo : Option Slots) (n : Nat) : Nat :=
  match mo with
  | some _ => n
  | none => n + 1

def QOK (lo hi : Nat) (cb : CbPc) (q : List CbEv) : Prop :=
  (∀ ev ∈ q, serGt lo ev ∧ serLt hi ev) ∧ q.Pairwise evLt ∧
    ∀ ev0, cb = .got ev0 → serGt lo ev0 ∧ serLt hi ev0 ∧ ∀ ev ∈ q, evLt ev0 ev

theorem QOK.mono {lo hi hi' : Nat} {cb : CbPc} {q : List CbEv} (h : QOK lo hi cb q) (hh : hi ≤ hi') : QOK lo hi' cb q :=
  ⟨fun ev hev => ⟨(h.1 ev hev).1, serLt_mono (h.1 ev hev).2 hh⟩, h.2.1,
   fun ev0 h0 => ⟨(h.2.2 ev0 h0).1, serLt_mono (h.2.2 ev0 h0).2.1 hh, (h.2.2 ev0 h0).2.2⟩⟩

theorem QOK.idle {lo hi : Nat} {cb cb' : CbPc} {q : List CbEv} (h : QOK lo hi cb q) (hcb : ∀ ev, cb' ≠ .got ev) :
    QOK lo hi cb' q :=
  ⟨h.1, h.2.1, fun ev0 h0 => absurd h0 (hcb ev0)⟩

theorem QOK.enqueue {lo hi : Nat} {s : State} {ev : CbEv} (h : QOK lo hi s.cb s.cbch) (hsel : s.cb = .sel → s.cbch = [])
    (h1 : serGt lo ev) (h3 : ∀ e, serLt hi e → evLt e ev) (hi' : Nat) (hh : hi ≤ hi')
    (h2' : serLt hi' ev) :
    QOK lo hi' (enqueueCb s ev).cb (enqueueCb s ev).cbch := by
  unfold enqueueCb cbTake
  split
  · rename_i hc
    simp only [hsel hc]
    exact ⟨by simp, by simp, fun ev0 h0 => by simp only [CbPc.got.injEq] at h0; subst h0; exact ⟨h1, h2', by simp⟩⟩
  · rename_i hne
    dsimp only
    refine ⟨?_, ?_, ?_⟩
    · intro e he
      rcases List.mem_append.1 he with he | he
      · exact ⟨(h.1 e he).1, serLt_mono (h.1 e he).2 hh⟩
      · simp only [List.mem_singleton] at he; subst he; exact ⟨h1, h2'⟩
    · rw [List.pairwise_append]
      refine ⟨h.2.1, by simp, ?_⟩
      intro a ha b hb
      simp only [List.mem_singleton] at hb; subst hb
      exact h3 a (h.1 a ha).2
    · intro ev0 h0
      obtain ⟨x, y, z⟩ := h.2.2 ev0 h0
      refine ⟨x, serLt_mono y hh, ?_⟩
      intro e he
      rcases List.mem_append.1 he with he | he
      · exact z e he
      · simp only [List.mem_singleton] at he; subst he; exact h3 ev0 y

structure Inv2 (s : State) : Prop where
  last : s.lastSerial < hiOf (monOld s.mon) s.view.serial
  q : QOK s.lastSerial (hiOf (monOld s.mon) s.view.serial) s.cb s.cbch

theorem inv2_init (P : Params) (sl : Slots) (w : List Bool) : Inv2 (initState P sl w) :=
  ⟨by simp [initState, hiOf, monOld], by simp [initState, QOK]⟩

theorem inv2_step {s s' : State} {l : Label} (h1 : Inv1 s) (hi : Inv2 s) (hs : AStep s l s') : Inv2 s' := by
  cases hs with
  | boring hl hb =>
    refine ⟨by rw [hb.lastSerial, hb.mon, hb.view]; exact hi.last, ?_⟩
    rw [hb.lastSerial, hb.mon, hb.view, hb.cbch]
    rcases hb.cb with e | ⟨_, e, _⟩
    · rw [e]; exact hi.q
    · exact hi.q.idle (fun ev hc => by rw [hc] at e; simp [cbBusy] at e)
  | «begin» op ctx hc => exact ⟨hi.last, hi.q⟩
  | store hl hm =>
    have := hi.last; have hq := hi.q
    simp only [hm, monOld, hiOf] at this hq
    exact ⟨by simpa [monOld, hiOf] using this, by simpa [monOld, hiOf] using hq⟩
  | submitDrop ev hl hcore hm hc hlog =>
    have hle : hiOf (monOld s.mon) s.view.serial ≤ hiOf (monOld s'.mon) s'.view.serial := by
      rw [hm, hcore.view]; cases monOld s.mon <;> simp [hiOf]
    refine ⟨by rw [hcore.lastSerial]; exact Nat.lt_of_lt_of_le hi.last hle, ?_⟩
    rw [hcore.lastSerial, hcore.cb, hcore.cbch]
    exact hi.q.mono hle
  | submitEnq ev skip hl hev hview hcb hq hh hls hlv hm hc hlog =>
    have hle : hiOf (monOld s.mon) s.view.serial ≤ hiOf (monOld s'.mon) s'.view.serial := by
      rw [hm, hview]; cases monOld s.mon <;> simp [hiOf]
    refine ⟨by rw [hls]; exact Nat.lt_of_lt_of_le hi.last hle, ?_⟩
    rw [hls, hcb, hq]
    have hlast := hi.last
    cases ev with
    | newCfg old new supp =>
      obtain ⟨hmo, hnew⟩ := hev
      subst hnew
      rw [hmo] at hlast
      refine hi.q.enqueue h1.sel ?_ ?_ _ hle ?_
      · simpa [serGt, hiOf] using hlast
      · intro e he; rw [hmo] at he; cases e <;> simp_all [serLt, evLt, hiOf]
      · rw [hm, hview]; simp [serLt, hiOf]
    | watchErr k o n =>
      exact hi.q.enqueue (ev := .watchErr k o n) h1.sel (by simp [serGt]) (fun e _ => by cases e <;> simp [evLt]) _ hle (by simp [serLt])
    | reg h ser cfg => exact absurd hev (by simp [SubmitOK])
    | unreg h c t => exact absurd hev (by simp [SubmitOK])
  | enq c ev op ctx st' hl hc hev hview hcb hq hh hls hlv hm hcl hst' hlog =>
    have hru : isRU ev = true := h1.ru ev (getC_held (by rw [hc]; exact hev))
    refine ⟨by rw [hls, hm, hview]; exact hi.last, ?_⟩
    rw [hls, hm, hview, hcb, hq]
    exact hi.q.enqueue h1.sel (serGt_ru hru) (fun e _ => evLt_ru hru) _ (Nat.le_refl _) (serLt_ru hru)
  | deq ev rest hl hcb0 hq0 hview hcb hh hls hlv hm hadm =>
    refine ⟨by rw [hls, hm, hview]; exact hi.last, ?_⟩
    rw [hls, hm, hview, hcb]
    obtain ⟨qa, qb, _⟩ := hi.q
    rw [hq0] at qa qb
    rw [List.pairwise_cons] at qb
    have hgot : ∀ q', (∀ e ∈ q', e ∈ rest ∨ isRU e = true) → q'.Pairwise evLt →
        QOK s.lastSerial (hiOf (monOld s.mon) s.view.serial) (.got ev) q' := by
      intro q' hq' hpw
      refine ⟨?_, hpw, ?_⟩
      · intro e he
        rcases hq' e he with h | h
        · exact qa e (List.mem_cons_of_mem _ h)
        · exact ⟨serGt_ru h, serLt_ru h⟩
      · intro ev0 h0
        simp only [CbPc.got.injEq] at h0; subst h0
        refine ⟨(qa _ (List.mem_cons_self ..)).1, (qa _ (List.mem_cons_self ..)).2, ?_⟩
        intro e he
        rcases hq' e he with h | h
        · exact qb.1 e h
        · exact evLt_ru h
    rcases hadm with ⟨h2, _, _⟩ | ⟨c, ev', ctx, st', hmem, h2, _, _, _⟩
    · rw [h2]; exact hgot rest (fun e he => .inl he) qb.2
    · have hru : isRU ev' = true := h1.ru ev' (mem_held.2 ⟨_, hmem, rfl⟩)
      rw [h2]
      refine hgot _ ?_ ?_
      · intro e he
        rcases List.mem_append.1 he with he | he
        · exact .inl he
        · simp only [List.mem_singleton] at he; subst he; exact .inr hru
      · rw [List.pairwise_append]
        exact ⟨qb.2, by simp, fun a _ b hb => by simp only [List.mem_singleton] at hb; subst hb; exact evLt_ru hru⟩
  | gotNew old new supp hl hcb0 hview hq hh hls hlv hm hc hres =>
    obtain ⟨qa, qb, qc⟩ := hi.q
    obtain ⟨g1, g2, g3⟩ := qc _ hcb0
    refine ⟨by rw [hls, hm, hview]; exact g2, ?_⟩
    rw [hls, hm, hview, hq]
    refine ⟨fun e he => ⟨serGt_of_evLt (g3 e he), (qa e he).2⟩, qb, ?_⟩
    obtain ⟨extra, _, hres⟩ := hres
    intro ev0 h0
    split at hres <;> (rw [hres.1] at h0; simp at h0)
  | gotErr k old new hl hcb0 => exact ⟨hi.last, hi.q.idle (by simp)⟩
  | gotReg h ser cfg hl hcb0 hview hq hls hlv hm hc hres =>
    refine ⟨by rw [hls, hm, hview]; exact hi.last, ?_⟩
    rw [hls, hm, hview, hq]
    refine hi.q.idle ?_
    intro ev0 h0
    split at hres <;> (rw [hres.1] at h0; simp at h0)
  | unreg h c tok hl hcb0 hview hcb hq hh hls hlv hm hcl hlog =>
    refine ⟨by rw [hls, hm, hview]; exact hi.last, ?_⟩
    rw [hls, hm, hview, hq, hcb]
    exact hi.q.idle (by simp)
  | next c0 c cs ev hl hcb0 => exact ⟨hi.last, hi.q.idle (by simp)⟩
  | finishPlain c0 ev hl hcb0 hev => exact ⟨hi.last, hi.q.idle (by simp)⟩
  | finishReg c0 h ser cfg hl hcb0 => exact ⟨hi.last, hi.q.idle (by simp)⟩

theorem inv2 {W : World} {P : Params} {sl : Slots} {w : List Bool} {s : State}
    (hr : Reachable W P sl w s) : Inv2 s :=
  reachable_astep_induct Inv2 (inv2_init P sl w) (fun _ _ _ hr hi hs => inv2_step (inv1 hr) hi hs) hr

/-! ## §7 versions -/

theorem LogExt.mem_iff {l l' : List Obs} (h : LogExt l l') {o : Obs} (hb : boringObs o = false) : o ∈ l' ↔ o ∈ l := by
  obtain ⟨e, rfl, he⟩ := h
  simp only [List.mem_append]
  constructor
  · rintro (h | h)
    · have := he o h; rw [hb] at this; cases this
    · exact h
  · exact .inr

theorem HandLog.mem_iff {c : Nat} {ev : CbEv} {l l' : List Obs} (h : HandLog c ev l l') {o : Obs}
    (hb : boringObs o = false) (hne : ∀ c r, o ≠ .ret c r) : o ∈ l' ↔ o ∈ l := by
  cases ev <;> simp only [HandLog] at h
  case unreg => exact h.mem_iff hb
  all_goals (subst h; simp [hne])

def vers (sl : Slots) (log : List Obs) : List Version := ⟨0, sl⟩ :: installsOf log.reverse

theorem versions_eq (s : State) (sl : Slots) : s.versions sl = vers sl s.log := rfl

theorem vers_cons (sl : Slots) (o : Obs) (log : List Obs) :
    vers sl (o :: log) = vers sl log ++ (match o with | .install v _ => [v] | _ => []) := by
  simp only [vers, installsOf, List.reverse_cons, List.filterMap_append, List.cons_append, List.cons.injEq, true_and]
  congr 1
  cases o <;> simp

theorem vers_append_boring (sl : Slots) (ext log : List Obs) (h : ∀ o ∈ ext, boringObs o = true) :
    vers sl (ext ++ log) = vers sl log := by
  induction ext with
  | nil => rfl
  | cons o ext ih =>
    rw [List.cons_append, vers_cons, ih (fun x hx => h x (List.mem_cons_of_mem _ hx))]
    have := h o (List.mem_cons_self ..)
    cases o <;> simp_all [boringObs]

theorem vers_logExt (sl : Slots) {l l' : List Obs} (h : LogExt l l') : vers sl l' = vers sl l := by
  obtain ⟨e, rfl, he⟩ := h
  exact vers_append_boring sl e l he

theorem vers_handLog (sl : Slots) {c : Nat} {ev : CbEv} {l l' : List Obs} (h : HandLog c ev l l') :
    vers sl l' = vers sl l := by
  cases ev <;> simp only [HandLog] at h
  case unreg => exact vers_logExt sl h
  all_goals (subst h; simp [vers_cons])

def VerOK (vs : List Version) (old : Slots) (new : Slots) (ser : Nat) : Prop :=
  1 ≤ ser ∧ vs[ser]? = some ⟨ser, new⟩ ∧ (vs[ser - 1]?).map (·.cfg) = some old

theorem VerOK.append {vs : List Version} {old new : Slots} {ser : Nat} (h : VerOK vs old new ser) (ys : List Version) :
    VerOK (vs ++ ys) old new ser := by
  obtain ⟨h1, h2, h3⟩ := h
  refine ⟨h1, ?_, ?_⟩
  · have hlt : ser < vs.length := by
      rcases Nat.lt_or_ge ser vs.length with h | h
      · exact h
      · rw [List.getElem?_eq_none h] at h2; cases h2
    rw [List.getElem?_append_left hlt]; exact h2
  · have hlt : ser - 1 < vs.length := by
      rcases Nat.lt_or_ge (ser - 1) vs.length with h | h
      · exact h
      · rw [List.getElem?_eq_none h] at h3; cases h3
    rw [List.getElem?_append_left hlt]; exact h3

def NewOK (vs : List Version) : CbEv → Prop
  | .newCfg old new _ => VerOK vs old new.cfg new.serial
  | _ => True

def CallOK (vs : List Version) : Call → Prop
  | .onNew old new ser => VerOK vs old new ser
  | .user _ old new ser false => VerOK vs old new ser
  | _ => True

theorem NewOK.append {vs : List Version} {ev : CbEv} (h : NewOK vs ev) (ys : List Version) : NewOK (vs ++ ys) ev := by
  cases ev <;> simp only [NewOK] at h ⊢
  exact h.append ys

theorem CallOK.append {vs : List Version} {c : Call} (h : CallOK vs c) (ys : List Version) : CallOK (vs ++ ys) c := by
  cases c with
  | onNew o n s => exact VerOK.append h ys
  | onErr k o n => trivial
  | user hh o n s cu =>
    cases cu
    · exact VerOK.append h ys
    · trivial

theorem NewOK_ru {vs : List Version} {ev : CbEv} (h : isRU ev = true) : NewOK vs ev := by
  cases ev <;> simp_all [isRU, NewOK]

theorem callsFor_ok {vs : List Version} {ev : CbEv} (h : NewOK vs ev) (hs : List (Nat × Nat)) (ls : Nat) (lv : Option Slots) :
    ∀ c ∈ callsFor hs ls lv ev, CallOK vs c := by
  intro c hc
  cases ev with
  | newCfg old new supp =>
    simp only [callsFor, List.mem_append, List.mem_map] at hc
    rcases hc with hc | ⟨x, _, rfl⟩
    · split at hc
      · simp only [List.mem_singleton] at hc; subst hc; exact h
      · simp at hc
    · exact h
  | watchErr k o n =>
    simp only [callsFor, List.mem_singleton] at hc; subst hc; trivial
  | reg hh ser cfg =>
    simp only [callsFor] at hc
    split at hc
    · split at hc
      · simp only [List.mem_singleton] at hc; subst hc; trivial
      · simp at hc
    · simp at hc
  | unreg hh c t => simp [callsFor] at hc

structure Inv3 (sl : Slots) (s : State) : Prop where
  len : (vers sl s.log).length = s.view.serial + 1
  cur : (vers sl s.log)[s.view.serial]? = some s.view
  old : ∀ old, monOld s.mon = some old →
    1 ≤ s.view.serial ∧ ((vers sl s.log)[s.view.serial - 1]?).map (·.cfg) = some old
  q : ∀ ev ∈ s.cbch, NewOK (vers sl s.log) ev
  got : ∀ ev, s.cb = .got ev → NewOK (vers sl s.log) ev
  calls : ∀ cs ev, s.cb = .calls cs ev → ∀ c ∈ cs, CallOK (vers sl s.log) c
  log : ∀ c, Obs.enter c ∈ s.log → CallOK (vers sl s.log) c

theorem inv3_init (P : Params) (sl : Slots) (w : List Bool) : Inv3 sl (initState P sl w) :=
  ⟨by simp [initState, vers, installsOf], by simp [initState, vers, installsOf], by simp [initState, monOld],
   by simp [initState], by simp [initState], by simp [initState], by simp [initState]⟩

/-- the part of `Inv3` that talks about the queue and the callback goroutine, for a fixed version list -/
theorem enqueue_newOK {vs : List Version} {s : State} {ev : CbEv}
    (hq : ∀ e ∈ s.cbch, NewOK vs e) (hg : ∀ e, s.cb = .got e → NewOK vs e) (hev : NewOK vs ev) :
    (∀ e ∈ (enqueueCb s ev).cbch, NewOK vs e) ∧ (∀ e, (enqueueCb s ev).cb = .got e → NewOK vs e) ∧
    (∀ cs e, (enqueueCb s ev).cb = .calls cs e → s.cb = .calls cs e) := by
  unfold enqueueCb cbTake
  split
  · rename_i hc
    refine ⟨hq, ?_, ?_⟩
    · intro e he; simp only [CbPc.got.injEq] at he; subst he; exact hev
    · intro cs e he; simp at he
  · refine ⟨?_, hg, fun _ _ h => h⟩
    intro e he
    rcases List.mem_append.1 he with he | he
    · exact hq e he
    · simp only [List.mem_singleton] at he; subst he; exact hev

theorem inv3_step {sl : Slots} {s s' : State} {l : Label} (h1 : Inv1 s) (hi : Inv3 sl s) (hs : AStep s l s') :
    Inv3 sl s' := by
  cases hs with
  | boring hl hb =>
    have hv := vers_logExt sl hb.log
    refine ⟨by rw [hv, hb.view]; exact hi.len, by rw [hv, hb.view]; exact hi.cur,
      by rw [hv, hb.view, hb.mon]; exact hi.old, by rw [hv, hb.cbch]; exact hi.q, ?_, ?_, ?_⟩
    · rw [hv]; intro ev he
      rcases hb.cb with e | ⟨_, e, _⟩
      · exact hi.got ev (e ▸ he)
      · rw [he] at e; simp [cbBusy] at e
    · rw [hv]; intro cs ev he
      rcases hb.cb with e | ⟨_, e, _⟩
      · exact hi.calls cs ev (e ▸ he)
      · rw [he] at e; simp [cbBusy] at e
    · rw [hv]; intro c hc
      exact hi.log c ((hb.log.mem_iff rfl).1 hc)
  | «begin» op ctx hc => exact ⟨hi.len, hi.cur, hi.old, hi.q, hi.got, hi.calls, hi.log⟩
  | store hl hm =>
    have hlen := hi.len
    have hcur := hi.cur
    refine ⟨?_, ?_, ?_, ?_, ?_, ?_, ?_⟩ <;> dsimp only <;> simp only [vers_cons]
    · simp [hlen]
    · rw [List.getElem?_append_right (by omega)]
      simp [hlen]
    · intro old ho
      simp only [monOld, Option.some.injEq] at ho
      subst ho
      refine ⟨by simp, ?_⟩
      simp only [Nat.add_sub_cancel]
      rw [List.getElem?_append_left (by omega), hcur]
      rfl
    · exact fun ev he => (hi.q ev he).append _
    · exact fun ev he => (hi.got ev he).append _
    · exact fun cs ev he c hc => (hi.calls cs ev he c hc).append _
    · intro c hc
      simp only [List.mem_cons, reduceCtorEq, false_or] at hc
      exact (hi.log c hc).append _
  | submitDrop ev hl hcore hm hc hlog =>
    obtain ⟨extra, hlog, hex⟩ := hlog
    have hv : vers sl s'.log = vers sl s.log := by
      rw [hlog, vers_append_boring _ _ _ hex, vers_cons]; simp
    refine ⟨by rw [hv, hcore.view]; exact hi.len, by rw [hv, hcore.view]; exact hi.cur,
      by rw [hm]; simp, by rw [hv, hcore.cbch]; exact hi.q, by rw [hv, hcore.cb]; exact hi.got,
      by rw [hv, hcore.cb]; exact hi.calls, ?_⟩
    rw [hv, hlog]; intro c hc
    simp only [List.mem_append, List.mem_cons, reduceCtorEq, false_or] at hc
    rcases hc with hc | hc
    · have := hex _ hc; simp [boringObs] at this
    · exact hi.log c hc
  | submitEnq ev skip hl hev hview hcb hq hh hls hlv hm hc hlog =>
    obtain ⟨extra, hlog, hex⟩ := hlog
    have hv : vers sl s'.log = vers sl s.log := by
      rw [hlog, vers_append_boring _ _ _ hex, vers_cons]; simp
    have hevok : NewOK (vers sl s.log) ev := by
      cases ev with
      | newCfg old new supp =>
        obtain ⟨hmo, hnew⟩ := hev
        subst hnew
        obtain ⟨o1, o2⟩ := hi.old old hmo
        exact ⟨o1, hi.cur, o2⟩
      | _ => trivial
    obtain ⟨e1, e2, e3⟩ := enqueue_newOK hi.q hi.got hevok
    refine ⟨by rw [hv, hview]; exact hi.len, by rw [hv, hview]; exact hi.cur,
      by rw [hm]; simp, by rw [hv, hq]; exact e1, by rw [hv, hcb]; exact e2,
      by rw [hv, hcb]; exact fun cs e he => hi.calls cs e (e3 cs e he), ?_⟩
    rw [hv, hlog]; intro c hc
    simp only [List.mem_append, List.mem_cons, reduceCtorEq, false_or] at hc
    rcases hc with hc | hc
    · have := hex _ hc; simp [boringObs] at this
    · exact hi.log c hc
  | enq c ev op ctx st' hl hc hev hview hcb hq hh hls hlv hm hcl hst' hlog =>
    have hru : isRU ev = true := h1.ru ev (getC_held (by rw [hc]; exact hev))
    have hv := vers_handLog sl hlog
    obtain ⟨e1, e2, e3⟩ := enqueue_newOK (ev := ev) hi.q hi.got (NewOK_ru hru)
    refine ⟨by rw [hv, hview]; exact hi.len, by rw [hv, hview]; exact hi.cur,
      by rw [hv, hview, hm]; exact hi.old, by rw [hv, hq]; exact e1, by rw [hv, hcb]; exact e2,
      by rw [hv, hcb]; exact fun cs e he => hi.calls cs e (e3 cs e he), ?_⟩
    rw [hv]; intro c' hc'
    exact hi.log c' ((hlog.mem_iff rfl (by simp)).1 hc')
  | deq ev rest hl hcb0 hq0 hview hcb hh hls hlv hm hadm =>
    have hqq := hi.q
    rw [hq0] at hqq
    have hv : vers sl s'.log = vers sl s.log := by
      rcases hadm with ⟨_, _, h3⟩ | ⟨c, ev', ctx, st', _, _, _, _, h5⟩
      · rw [h3]
      · exact vers_handLog sl h5
    refine ⟨by rw [hv, hview]; exact hi.len, by rw [hv, hview]; exact hi.cur,
      by rw [hv, hview, hm]; exact hi.old, ?_, ?_, by rw [hcb]; simp, ?_⟩
    · rw [hv]
      rcases hadm with ⟨h1', _, _⟩ | ⟨c, ev', ctx, st', hmem, h2, _, _, _⟩
      · rw [h1']; exact fun e he => hqq e (List.mem_cons_of_mem _ he)
      · rw [h2]; intro e he
        rcases List.mem_append.1 he with he | he
        · exact hqq e (List.mem_cons_of_mem _ he)
        · simp only [List.mem_singleton] at he; subst he
          exact NewOK_ru (h1.ru _ (mem_held.2 ⟨_, hmem, rfl⟩))
    · rw [hv, hcb]; intro e he
      simp only [CbPc.got.injEq] at he; subst he
      exact hqq _ (List.mem_cons_self ..)
    · rw [hv]; intro c' hc'
      rcases hadm with ⟨_, _, h3⟩ | ⟨c, ev', ctx, st', _, _, _, _, h5⟩
      · rw [h3] at hc'; exact hi.log c' hc'
      · exact hi.log c' ((h5.mem_iff rfl (by simp)).1 hc')
  | gotNew old new supp hl hcb0 hview hq hh hls hlv hm hc hres =>
    obtain ⟨extra, hex, hres⟩ := hres
    have hok := callsFor_ok (hi.got _ hcb0) s.handles new.serial (some new.cfg)
    have hv : vers sl s'.log = vers sl s.log := by
      split at hres
      · rw [hres.2, vers_append_boring _ _ _ hex]
      · rw [hres.2, vers_cons, vers_append_boring _ _ _ hex]; simp
    refine ⟨by rw [hv, hview]; exact hi.len, by rw [hv, hview]; exact hi.cur,
      by rw [hv, hview, hm]; exact hi.old, by rw [hv, hq]; exact hi.q, ?_, ?_, ?_⟩
    · intro e he; split at hres <;> (rw [hres.1] at he; simp at he)
    · rw [hv]; intro cs e he
      split at hres
      · rw [hres.1] at he; simp at he
      · rename_i c0 cs0 heq
        rw [hres.1] at he
        simp only [CbPc.calls.injEq] at he
        rw [← he.1, ← heq]; exact hok
    · rw [hv]; intro c' hc'
      split at hres
      · rw [hres.2] at hc'
        simp only [List.mem_append] at hc'
        rcases hc' with hc' | hc'
        · have := hex _ hc'; simp [boringObs] at this
        · exact hi.log c' hc'
      · rename_i c0 cs0 heq
        rw [hres.2] at hc'
        simp only [List.mem_cons, Obs.enter.injEq, List.mem_append] at hc'
        rcases hc' with hc' | hc' | hc'
        · subst hc'; exact hok _ (by rw [heq]; exact List.mem_cons_self ..)
        · have := hex _ hc'; simp [boringObs] at this
        · exact hi.log c' hc'
  | gotErr k old new hl hcb0 =>
    refine ⟨?_, ?_, ?_, ?_, ?_, ?_, ?_⟩ <;> dsimp only <;> simp only [vers_cons, List.append_nil]
    · exact hi.len
    · exact hi.cur
    · exact hi.old
    · exact hi.q
    · simp
    · intro cs ev he c hc
      simp only [CbPc.calls.injEq] at he
      rw [← he.1] at hc
      simp only [List.mem_singleton] at hc; subst hc; trivial
    · intro c hc
      simp only [List.mem_cons, Obs.enter.injEq] at hc
      rcases hc with hc | hc
      · subst hc; trivial
      · exact hi.log c hc
  | gotReg h ser cfg hl hcb0 hview hq hls hlv hm hc hres =>
    have hok := callsFor_ok (hi.got _ hcb0) s.handles s.lastSerial s.lastVersion
    have hv : vers sl s'.log = vers sl s.log := by
      split at hres
      · rw [hres.2.2, vers_cons]; simp
      · rw [hres.2.2, vers_cons, vers_cons]; simp
    refine ⟨by rw [hv, hview]; exact hi.len, by rw [hv, hview]; exact hi.cur,
      by rw [hv, hview, hm]; exact hi.old, by rw [hv, hq]; exact hi.q, ?_, ?_, ?_⟩
    · intro e he; split at hres <;> (rw [hres.1] at he; simp at he)
    · rw [hv]; intro cs e he
      split at hres
      · rw [hres.1] at he; simp at he
      · rename_i c0 cs0 heq
        rw [hres.1] at he
        simp only [CbPc.calls.injEq] at he
        rw [← he.1, ← heq]; exact hok
    · rw [hv]; intro c' hc'
      split at hres
      · rw [hres.2.2] at hc'
        simp only [List.mem_cons, reduceCtorEq, false_or] at hc'
        exact hi.log c' hc'
      · rename_i c0 cs0 heq
        rw [hres.2.2] at hc'
        simp only [List.mem_cons, Obs.enter.injEq, reduceCtorEq, false_or] at hc'
        rcases hc' with hc' | hc'
        · subst hc'; exact hok _ (by rw [heq]; exact List.mem_cons_self ..)
        · exact hi.log c' hc'
  | unreg h c tok hl hcb0 hview hcb hq hh hls hlv hm hcl hlog =>
    have hv : vers sl s'.log = vers sl s.log := by
      rcases hlog with h | h <;> (rw [h]; simp [vers_cons])
    refine ⟨by rw [hv, hview]; exact hi.len, by rw [hv, hview]; exact hi.cur,
      by rw [hv, hview, hm]; exact hi.old, by rw [hv, hq]; exact hi.q, by rw [hcb]; simp, by rw [hcb]; simp, ?_⟩
    rw [hv]; intro c' hc'
    rcases hlog with h | h <;> (rw [h] at hc'; simp only [List.mem_cons, reduceCtorEq, false_or] at hc'; exact hi.log c' hc')
  | next c0 c cs ev hl hcb0 =>
    have hcs := hi.calls _ _ hcb0
    refine ⟨?_, ?_, ?_, ?_, ?_, ?_, ?_⟩ <;> dsimp only <;> simp only [vers_cons, List.append_nil]
    · exact hi.len
    · exact hi.cur
    · exact hi.old
    · exact hi.q
    · simp
    · intro cs' ev' he c' hc'
      simp only [CbPc.calls.injEq] at he
      rw [← he.1] at hc'
      exact hcs c' (List.mem_cons_of_mem _ hc')
    · intro c' hc'
      simp only [List.mem_cons, Obs.enter.injEq] at hc'
      rcases hc' with hc' | hc'
      · subst hc'; exact hcs _ (by simp)
      · exact hi.log c' hc'
  | finishPlain c0 ev hl hcb0 hev => exact ⟨hi.len, hi.cur, hi.old, hi.q, by simp, by simp, hi.log⟩
  | finishReg c0 h ser cfg hl hcb0 => exact ⟨hi.len, hi.cur, hi.old, hi.q, by simp, by simp, hi.log⟩

theorem inv3 {W : World} {P : Params} {sl : Slots} {w : List Bool} {s : State}
    (hr : Reachable W P sl w s) : Inv3 sl s :=
  reachable_astep_induct (Inv3 sl) (inv3_init P sl w) (fun _ _ _ hr hi hs => inv3_step (inv1 hr) hi hs) hr

/-! ## §8 the calls entered so far -/

/-- the callbacks entered so far, newest first -/
def enters (log : List Obs) : List Call :=
  log.filterMap fun o => match o with | .enter c => some c | _ => none

theorem mem_enters {log : List Obs} {c : Call} : c ∈ enters log ↔ Obs.enter c ∈ log := by
  simp only [enters, List.mem_filterMap]
  constructor
  · rintro ⟨o, ho, h⟩
    cases o <;> simp at h
    subst h; exact ho
  · intro h; exact ⟨_, h, rfl⟩

theorem enters_cons (o : Obs) (log : List Obs) :
    enters (o :: log) = (match o with | .enter c => [c] | _ => []) ++ enters log := by
  simp only [enters, List.filterMap_cons]
  cases o <;> simp

theorem enters_append_boring (ext log : List Obs) (h : ∀ o ∈ ext, boringObs o = true) :
    enters (ext ++ log) = enters log := by
  induction ext with
  | nil => rfl
  | cons o ext ih =>
    rw [List.cons_append, enters_cons, ih (fun x hx => h x (List.mem_cons_of_mem _ hx))]
    have := h o (List.mem_cons_self ..)
    cases o <;> simp_all [boringObs]

theorem enters_logExt {l l' : List Obs} (h : LogExt l l') : enters l' = enters l := by
  obtain ⟨e, rfl, he⟩ := h
  exact enters_append_boring e l he

theorem enters_handLog {c : Nat} {ev : CbEv} {l l' : List Obs} (h : HandLog c ev l l') : enters l' = enters l := by
  cases ev <;> simp only [HandLog] at h
  case unreg => exact enters_logExt h
  all_goals (subst h; simp [enters_cons])

/-- what an abstract step does to the list of entered calls -/
inductive EnterStep (s s' : State) : Prop
  | same (h : enters s'.log = enters s.log) (hcb : ∀ cs ev, s'.cb = .calls cs ev → s.cb = .calls cs ev)
  | first (c : Call) (cs : List Call) (ev : CbEv) (h : enters s'.log = c :: enters s.log) (hcb0 : s.cb = .got ev)
      (hcalls : callsFor s.handles s'.lastSerial s'.lastVersion ev = c :: cs) (hcb : s'.cb = .calls (c :: cs) ev)
      (hnew : ∀ old new supp, ev = .newCfg old new supp → s'.lastSerial = new.serial)
      (hreg : ∀ h ser cfg, ev = .reg h ser cfg → Obs.regProcessed h ser s.lastSerial ∈ s'.log)
  | next (c0 c : Call) (cs : List Call) (ev : CbEv) (h : enters s'.log = c :: enters s.log)
      (hcb0 : s.cb = .calls (c0 :: c :: cs) ev) (hcb : s'.cb = .calls (c :: cs) ev)

theorem enqueueCb_calls {s : State} {ev : CbEv} {cs : List Call} {e : CbEv}
    (h : (enqueueCb s ev).cb = .calls cs e) : s.cb = .calls cs e := by
  unfold enqueueCb cbTake at h
  split at h
  · simp at h
  · exact h

theorem AStep.enterStep {s s' : State} {l : Label} (hs : AStep s l s') : EnterStep s s' := by
  cases hs with
  | boring hl hb =>
    refine .same (enters_logExt hb.log) ?_
    intro cs ev he
    rcases hb.cb with e | ⟨_, e, _⟩
    · exact e ▸ he
    · rw [he] at e; simp [cbBusy] at e
  | «begin» op ctx hc => exact .same rfl (fun _ _ h => h)
  | store hl hm => exact .same (by simp [enters_cons]) (fun _ _ h => h)
  | submitDrop ev hl hcore hm hc hlog =>
    obtain ⟨extra, hlog, hex⟩ := hlog
    exact .same (by rw [hlog, enters_append_boring _ _ hex, enters_cons]; simp) (by rw [hcore.cb]; exact fun _ _ h => h)
  | submitEnq ev skip hl hev hview hcb hq hh hls hlv hm hc hlog =>
    obtain ⟨extra, hlog, hex⟩ := hlog
    exact .same (by rw [hlog, enters_append_boring _ _ hex, enters_cons]; simp)
      (by rw [hcb]; exact fun _ _ h => enqueueCb_calls h)
  | enq c ev op ctx st' hl hc hev hview hcb hq hh hls hlv hm hcl hst' hlog =>
    exact .same (enters_handLog hlog) (by rw [hcb]; exact fun _ _ h => enqueueCb_calls h)
  | deq ev rest hl hcb0 hq0 hview hcb hh hls hlv hm hadm =>
    refine .same ?_ (by rw [hcb]; simp)
    rcases hadm with ⟨_, _, h3⟩ | ⟨c, ev', ctx, st', _, _, _, _, h5⟩
    · rw [h3]
    · exact enters_handLog h5
  | gotNew old new supp hl hcb0 hview hq hh hls hlv hm hc hres =>
    obtain ⟨extra, hex, hres⟩ := hres
    split at hres
    · exact .same (by rw [hres.2, enters_append_boring _ _ hex]) (by rw [hres.1]; simp)
    · rename_i c0 cs0 heq
      exact .first c0 cs0 _ (by rw [hres.2, enters_cons, enters_append_boring _ _ hex]; simp) hcb0
        (by rw [hls, hlv]; exact heq) hres.1 (by intro o n sp h; cases h; exact hls) (by simp)
  | gotErr k old new hl hcb0 =>
    exact .first (.onErr k old new) [] _ (by simp [enters_cons]) hcb0 (by simp [callsFor]) rfl (by simp) (by simp)
  | gotReg h ser cfg hl hcb0 hview hq hls hlv hm hc hres =>
    split at hres
    · exact .same (by rw [hres.2.2, enters_cons]; simp) (by rw [hres.1]; simp)
    · rename_i c0 cs0 heq
      exact .first c0 cs0 _ (by rw [hres.2.2, enters_cons, enters_cons]; simp) hcb0
        (by rw [hls, hlv]; exact heq) hres.1 (by simp)
        (by intro h' ser' cfg' e; cases e; rw [hres.2.2]; simp)
  | unreg h c tok hl hcb0 hview hcb hq hh hls hlv hm hcl hlog =>
    refine .same ?_ (by rw [hcb]; simp)
    rcases hlog with h | h <;> (rw [h]; simp [enters_cons])
  | next c0 c cs ev hl hcb0 => exact .next c0 c cs ev (by simp [enters_cons]) hcb0 rfl
  | finishPlain c0 ev hl hcb0 hev => exact .same rfl (by simp)
  | finishReg c0 h ser cfg hl hcb0 => exact .same rfl (by simp)


theorem AStep.lastSerial_cases {s s' : State} {l : Label} (hs : AStep s l s') :
    (s'.lastSerial = s.lastSerial ∧ s'.lastVersion = s.lastVersion) ∨
    ∃ old new supp, s.cb = .got (.newCfg old new supp) ∧ s'.lastSerial = new.serial ∧ s'.lastVersion = some new.cfg := by
  cases hs with
  | boring hl hb => exact .inl ⟨hb.lastSerial, hb.lastVersion⟩
  | «begin» op ctx hc => exact .inl ⟨rfl, rfl⟩
  | store hl hm => exact .inl ⟨rfl, rfl⟩
  | submitDrop ev hl hcore hm hc hlog => exact .inl ⟨hcore.lastSerial, hcore.lastVersion⟩
  | submitEnq ev skip hl hev hview hcb hq hh hls hlv hm hc hlog => exact .inl ⟨hls, hlv⟩
  | enq c ev op ctx st' hl hc hev hview hcb hq hh hls hlv hm hcl hst' hlog => exact .inl ⟨hls, hlv⟩
  | deq ev rest hl hcb0 hq0 hview hcb hh hls hlv hm hadm => exact .inl ⟨hls, hlv⟩
  | gotNew old new supp hl hcb0 hview hq hh hls hlv hm hc hres => exact .inr ⟨old, new, supp, hcb0, hls, hlv⟩
  | gotErr k old new hl hcb0 => exact .inl ⟨rfl, rfl⟩
  | gotReg h ser cfg hl hcb0 hview hq hls hlv hm hc hres => exact .inl ⟨hls, hlv⟩
  | unreg h c tok hl hcb0 hview hcb hq hh hls hlv hm hcl hlog => exact .inl ⟨hls, hlv⟩
  | next c0 c cs ev hl hcb0 => exact .inl ⟨rfl, rfl⟩
  | finishPlain c0 ev hl hcb0 hev => exact .inl ⟨rfl, rfl⟩
  | finishReg c0 h ser cfg hl hcb0 => exact .inl ⟨rfl, rfl⟩

theorem AStep.lastSerial_mono {s s' : State} {l : Label} (h2 : Inv2 s) (hs : AStep s l s') :
    s.lastSerial ≤ s'.lastSerial := by
  rcases hs.lastSerial_cases with ⟨h, _⟩ | ⟨old, new, supp, hcb, h, _⟩
  · omega
  · have := (h2.q.2.2 _ hcb).1
    simp only [serGt] at this
    omega

def callGt (a b : Call) : Prop :=
  match a, b with
  | .onNew _ _ s2, .onNew _ _ s1 => s1 < s2
  | _, _ => True

def isOnNew : Call → Bool
  | .onNew _ _ _ => true
  | _ => false

theorem callGt_of_not {a b : Call} (h : isOnNew a = false) : callGt a b := by
  cases a <;> simp_all [isOnNew, callGt]

theorem callsFor_head {hs : List (Nat × Nat)} {ls : Nat} {lv : Option Slots} {ev : CbEv} {c : Call} {cs : List Call}
    (h : callsFor hs ls lv ev = c :: cs) :
    (∀ x ∈ cs, isOnNew x = false) ∧
    (isOnNew c = true → ∃ old new supp, ev = .newCfg old new supp ∧ c = .onNew old new.cfg new.serial) := by
  cases ev with
  | newCfg old new supp =>
    simp only [callsFor] at h
    split at h
    · simp only [List.singleton_append, List.cons.injEq] at h
      refine ⟨?_, fun _ => ⟨old, new, supp, rfl, h.1.symm⟩⟩
      rw [← h.2]; intro x hx
      simp only [List.mem_map] at hx
      obtain ⟨y, _, rfl⟩ := hx; rfl
    · simp only [List.nil_append] at h
      have hall : ∀ x ∈ c :: cs, isOnNew x = false := by
        rw [← h]; intro x hx
        simp only [List.mem_map] at hx
        obtain ⟨y, _, rfl⟩ := hx; rfl
      refine ⟨fun x hx => hall x (List.mem_cons_of_mem _ hx), fun hc => ?_⟩
      rw [hall c (List.mem_cons_self ..)] at hc; cases hc
  | watchErr k o n =>
    simp only [callsFor, List.cons.injEq] at h
    obtain ⟨rfl, rfl⟩ := h
    exact ⟨by simp, by simp [isOnNew]⟩
  | reg hh ser cfg =>
    simp only [callsFor] at h
    split at h
    · split at h
      · simp only [List.cons.injEq] at h
        obtain ⟨rfl, rfl⟩ := h
        exact ⟨by simp, by simp [isOnNew]⟩
      · simp at h
    · simp at h
  | unreg hh c t => simp [callsFor] at h

structure Inv4 (s : State) : Prop where
  pw : (enters s.log).Pairwise callGt
  le : ∀ o n sr, Call.onNew o n sr ∈ enters s.log → sr ≤ s.lastSerial
  tail : ∀ cs ev, s.cb = .calls cs ev → ∀ c ∈ cs.tail, isOnNew c = false

theorem inv4_init (P : Params) (sl : Slots) (w : List Bool) : Inv4 (initState P sl w) :=
  ⟨by simp [initState, enters], by simp [initState, enters], by simp [initState]⟩

theorem inv4_step {s s' : State} {l : Label} (h2 : Inv2 s) (hi : Inv4 s) (hs : AStep s l s') : Inv4 s' := by
  have hmono := hs.lastSerial_mono h2
  rcases hs.enterStep with ⟨he, hcb⟩ | ⟨c, cs, ev, he, hcb0, hcalls, hcb, hnew, _⟩ | ⟨c0, c, cs, ev, he, hcb0, hcb⟩
  · refine ⟨by rw [he]; exact hi.pw, ?_, fun cs ev h => hi.tail cs ev (hcb cs ev h)⟩
    rw [he]; intro o n sr h
    exact Nat.le_trans (hi.le o n sr h) hmono
  · obtain ⟨ht, hh⟩ := callsFor_head hcalls
    refine ⟨?_, ?_, ?_⟩
    · rw [he, List.pairwise_cons]
      refine ⟨?_, hi.pw⟩
      intro b hb
      cases hon : isOnNew c with
      | false => exact callGt_of_not hon
      | true =>
        obtain ⟨old, new, supp, rfl, rfl⟩ := hh hon
        cases b with
        | onNew o n sr =>
          have h1 := hi.le o n sr hb
          have h3 := (h2.q.2.2 _ hcb0).1
          simp only [serGt] at h3
          simp only [callGt]; omega
        | _ => trivial
    · rw [he]; intro o n sr h
      rcases List.mem_cons.1 h with h | h
      · have hon : isOnNew c = true := by rw [← h]; rfl
        obtain ⟨old, new, supp, rfl, hc⟩ := hh hon
        rw [← h] at hc
        simp only [Call.onNew.injEq] at hc
        rw [hnew old new supp rfl, hc.2.2]; exact Nat.le_refl _
      · exact Nat.le_trans (hi.le o n sr h) hmono
    · intro cs' ev' h
      rw [hcb] at h
      simp only [CbPc.calls.injEq] at h
      rw [← h.1]; exact ht
  · have hc : isOnNew c = false := hi.tail _ _ hcb0 c (by simp)
    refine ⟨?_, ?_, ?_⟩
    · rw [he, List.pairwise_cons]
      exact ⟨fun b _ => callGt_of_not hc, hi.pw⟩
    · rw [he]; intro o n sr h
      rcases List.mem_cons.1 h with h | h
      · rw [← h] at hc; cases hc
      · exact Nat.le_trans (hi.le o n sr h) hmono
    · intro cs' ev' h
      rw [hcb] at h
      simp only [CbPc.calls.injEq] at h
      rw [← h.1]
      intro x hx
      exact hi.tail _ _ hcb0 x (by simp only [List.tail_cons]; exact List.mem_cons_of_mem _ hx)

theorem inv4 {W : World} {P : Params} {sl : Slots} {w : List Bool} {s : State}
    (hr : Reachable W P sl w s) : Inv4 s :=
  reachable_astep_induct Inv4 (inv4_init P sl w) (fun _ _ _ hr hi hs => inv4_step (inv2 hr) hi hs) hr

theorem pairwise_of_split {α : Type} {R : α → α → Prop} {l : List α} (hp : l.Pairwise R) {l1 l2 l3 : List α} {x y : α}
    (h : l = l1 ++ x :: l2 ++ y :: l3) : R x y := by
  subst h
  rw [List.append_assoc, List.pairwise_append] at hp
  have h2 := hp.2.1
  rw [List.cons_append, List.pairwise_cons] at h2
  exact h2.1 y (by simp)

/-- chronological `Before` read off the newest-first log -/
theorem before_log {log : List Obs} {a b : Obs} (h : Before log.reverse a b) :
    ∃ l1 l2 l3, log = l1 ++ b :: l2 ++ a :: l3 := by
  obtain ⟨m1, m2, m3, hm⟩ := h
  refine ⟨m3.reverse, m2.reverse, m1.reverse, ?_⟩
  have := congrArg List.reverse hm
  simp only [List.reverse_reverse, List.reverse_append, List.reverse_cons, List.append_assoc,
    List.cons_append, List.nil_append] at this
  rw [this]; simp

theorem before_enters {log : List Obs} {a b : Call} (h : Before log.reverse (.enter a) (.enter b)) :
    ∃ l1 l2 l3, enters log = l1 ++ b :: l2 ++ a :: l3 := by
  obtain ⟨l1, l2, l3, rfl⟩ := before_log h
  refine ⟨enters l1, enters l2, enters l3, ?_⟩
  simp [enters, List.filterMap_append]

/-! ## §9 every installed version is queued or dropped -/

theorem HandLog.ext {c : Nat} {ev : CbEv} {l l' : List Obs} (h : HandLog c ev l l') : ∃ ext, l' = ext ++ l := by
  cases ev <;> simp only [HandLog] at h
  case unreg => obtain ⟨e, he, _⟩ := h; exact ⟨e, he⟩
  all_goals exact ⟨[_], h⟩

/-- what an abstract step does from the monitor's point of view -/
inductive MonStep (s s' : State) : Prop
  | same (hm : monOld s'.mon = monOld s.mon) (hv : s'.view = s.view) (hvers : ∀ sl, vers sl s'.log = vers sl s.log)
      (hext : ∃ ext, s'.log = ext ++ s.log)
  | store (slots' : Slots) (reply : Option Nat) (hm : s.mon = .store slots' reply)
      (hm' : s'.mon = .events s.view.cfg reply) (hv : s'.view = ⟨s.view.serial + 1, slots'⟩)
      (hlog : s'.log = .install ⟨s.view.serial + 1, slots'⟩ s.skipVerify :: s.log)
  | drop (ev : CbEv) (hm' : monOld s'.mon = none) (hv : s'.view = s.view)
      (hvers : ∀ sl, vers sl s'.log = vers sl s.log) (hlog : ∃ extra, s'.log = extra ++ .dropped ev :: s.log)
  | enq (ev : CbEv) (skip : Bool) (hev : SubmitOK s ev) (hm' : monOld s'.mon = none) (hv : s'.view = s.view)
      (hvers : ∀ sl, vers sl s'.log = vers sl s.log) (hlog : ∃ extra, s'.log = extra ++ .queued ev skip :: s.log)

theorem AStep.monStep {s s' : State} {l : Label} (hs : AStep s l s') : MonStep s s' := by
  cases hs with
  | boring hl hb =>
    obtain ⟨e, he, _⟩ := hb.log
    exact .same hb.mon hb.view (fun sl => vers_logExt sl hb.log) ⟨e, he⟩
  | «begin» op ctx hc => exact .same rfl rfl (fun _ => rfl) ⟨[], rfl⟩
  | store hl hm => exact .store _ _ hm rfl rfl rfl
  | submitDrop ev hl hcore hm hc hlog =>
    obtain ⟨extra, hlog, hex⟩ := hlog
    exact .drop ev hm hcore.view (fun sl => by rw [hlog, vers_append_boring _ _ _ hex, vers_cons]; simp) ⟨extra, hlog⟩
  | submitEnq ev skip hl hev hview hcb hq hh hls hlv hm hc hlog =>
    obtain ⟨extra, hlog, hex⟩ := hlog
    exact .enq ev skip hev hm hview (fun sl => by rw [hlog, vers_append_boring _ _ _ hex, vers_cons]; simp) ⟨extra, hlog⟩
  | enq c ev op ctx st' hl hc hev hview hcb hq hh hls hlv hm hcl hst' hlog =>
    exact .same (by rw [hm]) hview (fun sl => vers_handLog sl hlog) hlog.ext
  | deq ev rest hl hcb0 hq0 hview hcb hh hls hlv hm hadm =>
    rcases hadm with ⟨_, _, h3⟩ | ⟨c, ev', ctx, st', _, _, _, _, h5⟩
    · exact .same (by rw [hm]) hview (fun sl => by rw [h3]) ⟨[], h3⟩
    · exact .same (by rw [hm]) hview (fun sl => vers_handLog sl h5) h5.ext
  | gotNew old new supp hl hcb0 hview hq hh hls hlv hm hc hres =>
    obtain ⟨extra, hex, hres⟩ := hres
    split at hres
    · exact .same (by rw [hm]) hview (fun sl => by rw [hres.2, vers_append_boring _ _ _ hex]) ⟨extra, hres.2⟩
    · exact .same (by rw [hm]) hview (fun sl => by rw [hres.2, vers_cons, vers_append_boring _ _ _ hex]; simp)
        ⟨_ :: extra, hres.2⟩
  | gotErr k old new hl hcb0 => exact .same rfl rfl (fun sl => by simp [vers_cons]) ⟨[_], rfl⟩
  | gotReg h ser cfg hl hcb0 hview hq hls hlv hm hc hres =>
    split at hres
    · exact .same (by rw [hm]) hview (fun sl => by rw [hres.2.2, vers_cons]; simp) ⟨[_], hres.2.2⟩
    · exact .same (by rw [hm]) hview (fun sl => by rw [hres.2.2, vers_cons, vers_cons]; simp) ⟨[_, _], hres.2.2⟩
  | unreg h c tok hl hcb0 hview hcb hq hh hls hlv hm hcl hlog =>
    rcases hlog with h | h
    · exact .same (by rw [hm]) hview (fun sl => by rw [h]; simp [vers_cons]) ⟨[_], h⟩
    · exact .same (by rw [hm]) hview (fun sl => by rw [h]; simp [vers_cons]) ⟨[_, _], h⟩
  | next c0 c cs ev hl hcb0 => exact .same rfl rfl (fun sl => by simp [vers_cons]) ⟨[_], rfl⟩
  | finishPlain c0 ev hl hcb0 hev => exact .same rfl rfl (fun _ => rfl) ⟨[], rfl⟩
  | finishReg c0 h ser cfg hl hcb0 => exact .same rfl rfl (fun _ => rfl) ⟨[], rfl⟩

def Inv5 (sl : Slots) (s : State) : Prop :=
  (∃ ev, Obs.dropped ev ∈ s.log) ∨
  ∀ v ∈ (vers sl s.log).tail, (∃ old supp skip, Obs.queued (.newCfg old v supp) skip ∈ s.log) ∨
    ((monOld s.mon).isSome = true ∧ v = s.view)

theorem inv5_init (P : Params) (sl : Slots) (w : List Bool) : Inv5 sl (initState P sl w) :=
  .inr (by simp [initState, vers, installsOf])

theorem inv5_step {sl : Slots} {s s' : State} {l : Label} (hi : Inv5 sl s) (hs : AStep s l s') : Inv5 sl s' := by
  rcases hs.monStep with ⟨hm, hv, hvers, ext, hext⟩ | ⟨slots', reply, hm, hm', hv, hlog⟩ |
      ⟨ev, hm', hv, hvers, extra, hlog⟩ | ⟨ev, skip, hev, hm', hv, hvers, extra, hlog⟩
  · rcases hi with ⟨ev, h⟩ | h
    · exact .inl ⟨ev, by rw [hext]; exact List.mem_append_right _ h⟩
    · right
      rw [hvers, hm, hv]
      intro v hvm
      rcases h v hvm with ⟨o, sp, sk, hq⟩ | h
      · exact .inl ⟨o, sp, sk, by rw [hext]; exact List.mem_append_right _ hq⟩
      · exact .inr h
  · rcases hi with ⟨ev, h⟩ | h
    · exact .inl ⟨ev, by rw [hlog]; exact List.mem_cons_of_mem _ h⟩
    · right
      rw [hlog, vers_cons, hm', hv]
      intro v hvm
      simp only [vers, List.cons_append, List.tail_cons, List.mem_append, List.mem_singleton] at hvm
      rcases hvm with hvm | hvm
      · rcases h v (by simpa [vers] using hvm) with ⟨o, sp, sk, hq⟩ | h
        · exact .inl ⟨o, sp, sk, List.mem_cons_of_mem _ hq⟩
        · rw [hm] at h; simp [monOld] at h
      · exact .inr ⟨rfl, hvm⟩
  · exact .inl ⟨ev, by rw [hlog]; simp⟩
  · rcases hi with ⟨ev', h⟩ | h
    · exact .inl ⟨ev', by rw [hlog]; simp [h]⟩
    · right
      rw [hvers, hm', hv]
      intro v hvm
      left
      rcases h v hvm with ⟨o, sp, sk, hq⟩ | ⟨h1, h2⟩
      · exact ⟨o, sp, sk, by rw [hlog]; simp [hq]⟩
      · cases ev with
        | newCfg old new supp =>
          obtain ⟨_, hnew⟩ := hev
          subst hnew; subst h2
          exact ⟨old, supp, skip, by rw [hlog]; simp⟩
        | watchErr k o n =>
          simp only [SubmitOK] at hev
          rw [hev] at h1; simp at h1
        | reg _ _ _ => exact absurd hev (by simp [SubmitOK])
        | unreg _ _ _ => exact absurd hev (by simp [SubmitOK])

theorem inv5 {W : World} {P : Params} {sl : Slots} {w : List Bool} {s : State}
    (hr : Reachable W P sl w s) : Inv5 sl s :=
  reachable_astep_induct (Inv5 sl) (inv5_init P sl w) (fun _ _ _ _ hi hs => inv5_step hi hs) hr

/-! ## §10 a handle id is registered at most once -/

def isRegE (h : Nat) : CbEv → Bool
  | .reg h' _ _ => h' == h
  | _ => false

def cntCb (h : Nat) : CbPc → Nat
  | .got ev => if isRegE h ev then 1 else 0
  | _ => 0

def regProc (h : Nat) (log : List Obs) : Bool :=
  log.any fun o => match o with | .regProcessed h' _ _ => h' == h | _ => false

def cntLog (h : Nat) (log : List Obs) : Nat := if regProc h log then 1 else 0

def cntFut (h : Nat) (fut : List Label) : Nat := (regHandles fut).count h

theorem regProc_cons (h : Nat) (o : Obs) (log : List Obs) :
    regProc h (o :: log) = ((match o with | .regProcessed h' _ _ => h' == h | _ => false) || regProc h log) := by
  simp [regProc]

theorem regProc_append_boring (h : Nat) (ext log : List Obs) (hb : ∀ o ∈ ext, boringObs o = true) :
    regProc h (ext ++ log) = regProc h log := by
  induction ext with
  | nil => rfl
  | cons o ext ih =>
    rw [List.cons_append, regProc_cons, ih (fun x hx => hb x (List.mem_cons_of_mem _ hx))]
    have := hb o (List.mem_cons_self ..)
    cases o <;> simp_all [boringObs]

theorem regProc_logExt (h : Nat) {l l' : List Obs} (hl : LogExt l l') : regProc h l' = regProc h l := by
  obtain ⟨e, rfl, he⟩ := hl
  exact regProc_append_boring h e l he

theorem regProc_handLog (h : Nat) {c : Nat} {ev : CbEv} {l l' : List Obs} (hl : HandLog c ev l l') :
    regProc h l' = regProc h l := by
  cases ev <;> simp only [HandLog] at hl
  case unreg => exact regProc_logExt h hl
  all_goals (subst hl; simp [regProc_cons])

/-- the total number of places where a registration of `h` is pending or recorded -/
def regTotal (h : Nat) (fut : List Label) (s : State) : Nat :=
  cntFut h fut + (held s.clients).countP (isRegE h) + s.cbch.countP (isRegE h) + cntCb h s.cb + cntLog h s.log

def InvU (fut : List Label) (s : State) : Prop := ∀ h, regTotal h fut s ≤ 1

theorem cntFut_cons_other (h : Nat) {l : Label} (fut : List Label) (hl : ∀ c op ctx, l ≠ .begin c op ctx) :
    cntFut h (l :: fut) = cntFut h fut := by
  simp only [cntFut, regHandles, List.filterMap_cons]
  cases l with
  | «begin» c op ctx => exact absurd rfl (hl c op ctx)
  | _ => rfl

theorem enqueueCb_count (h : Nat) (s : State) (ev : CbEv) (hsel : s.cb = .sel → s.cbch = []) :
    (enqueueCb s ev).cbch.countP (isRegE h) + cntCb h (enqueueCb s ev).cb =
      s.cbch.countP (isRegE h) + cntCb h s.cb + (if isRegE h ev then 1 else 0) := by
  unfold enqueueCb cbTake
  split
  · rename_i hc
    simp [hsel hc, hc, cntCb]
  · simp only [List.countP_append, List.countP_cons, List.countP_nil]
    omega

theorem invU_step {fut : List Label} {s s' : State} {l : Label} (h1 : Inv1 s) (hi : InvU (l :: fut) s)
    (hs : AStep s l s') : InvU fut s' := by
  intro h
  have hi := hi h
  unfold regTotal at hi ⊢
  cases hs with
  | boring hl hb =>
    rw [cntFut_cons_other h fut hl] at hi
    have h2 := hb.clients.2 (isRegE h)
    have h3 : cntCb h s'.cb = cntCb h s.cb := by
      rcases hb.cb with e | ⟨e1, e2, _⟩
      · rw [e]
      · cases hc : s.cb <;> cases hc' : s'.cb <;> simp_all [cbBusy, cntCb]
    rw [hb.cbch, h3]
    simp only [cntLog, regProc_logExt h hb.log]
    simp only [cntLog] at hi
    omega
  | @«begin» c op ctx hc =>
    have h2 := countP_held_setC (isRegE h) s.clients c (.ready op ctx)
    rw [hc] at h2
    simp only [State.setClient]
    have h3 : cntFut h (.begin c op ctx :: fut) = cntFut h fut + wt (isRegE h) (evOf c (.ready op ctx)) := by
      simp only [cntFut, regHandles, List.filterMap_cons]
      cases op <;> simp [evOf, isRegE, List.count_cons]
    rw [h3] at hi
    have e0 : evOf c .idle = none := rfl
    rw [e0] at h2
    simp only [wt_none] at h2
    omega
  | store hl hm =>
    rw [cntFut_cons_other h fut hl] at hi
    simpa [cntLog, regProc_cons] using hi
  | submitDrop ev hl hcore hm hc hlog =>
    rw [cntFut_cons_other h fut hl] at hi
    obtain ⟨extra, hlog, hex⟩ := hlog
    have : cntLog h s'.log = cntLog h s.log := by
      simp only [cntLog, hlog, regProc_append_boring h _ _ hex, regProc_cons]; simp
    rw [hc, hcore.cbch, hcore.cb, this]; exact hi
  | submitEnq ev skip hl hev hview hcb hq hh hls hlv hm hc hlog =>
    rw [cntFut_cons_other h fut hl] at hi
    obtain ⟨extra, hlog, hex⟩ := hlog
    have : cntLog h s'.log = cntLog h s.log := by
      simp only [cntLog, hlog, regProc_append_boring h _ _ hex, regProc_cons]; simp
    have h2 := enqueueCb_count h s ev h1.sel
    have h3 : isRegE h ev = false := by cases ev <;> simp_all [SubmitOK, isRegE]
    rw [h3] at h2
    rw [hc, hcb, hq, this]; simp only [Bool.false_eq_true, if_false] at h2; omega
  | enq c ev op ctx st' hl hc hev hview hcb hq hh hls hlv hm hcl hst' hlog =>
    rw [cntFut_cons_other h fut hl] at hi
    have h2 := enqueueCb_count h s ev h1.sel
    have h3 := countP_held_setC (isRegE h) s.clients c st'
    rw [hc, hev, hst'] at h3
    simp only [wt_some, wt_none] at h3
    rw [hcl, hcb, hq]
    simp only [cntLog, regProc_handLog h hlog]
    simp only [cntLog] at hi
    omega
  | deq ev rest hl hcb0 hq0 hview hcb hh hls hlv hm hadm =>
    rw [cntFut_cons_other h fut hl] at hi
    rw [hcb0, hq0] at hi
    simp only [List.countP_cons, cntCb] at hi
    rw [hcb]
    simp only [cntCb]
    rcases hadm with ⟨h1', h2, h3⟩ | ⟨c, ev', ctx, st', hmem, h2, h3, h4, h5⟩
    · rw [h1', h2, h3]; omega
    · have h6 := countP_held_setC (isRegE h) s.clients c st'
      rw [getC_of_mem h1.keys hmem, h4] at h6
      simp only [evOf, wt_some, wt_none] at h6
      rw [h2, h3]
      simp only [List.countP_append, List.countP_cons, List.countP_nil, cntLog, regProc_handLog h h5]
      simp only [cntLog] at hi
      omega
  | gotNew old new supp hl hcb0 hview hq hh hls hlv hm hc hres =>
    rw [cntFut_cons_other h fut hl] at hi
    obtain ⟨extra, hex, hres⟩ := hres
    rw [hcb0] at hi
    simp only [cntCb, isRegE] at hi
    rw [hc, hq]
    split at hres
    · rw [hres.1, hres.2]
      simp only [cntCb, cntLog, regProc_append_boring h _ _ hex]
      simp only [cntLog] at hi; omega
    · rw [hres.1, hres.2]
      simp only [cntCb, cntLog, regProc_cons, regProc_append_boring h _ _ hex, Bool.false_or]
      simp only [cntLog] at hi; omega
  | gotErr k old new hl hcb0 =>
    rw [cntFut_cons_other h fut hl] at hi
    rw [hcb0] at hi
    simpa [cntCb, cntLog, regProc_cons, isRegE] using hi
  | gotReg h' ser cfg hl hcb0 hview hq hls hlv hm hc hres =>
    rw [cntFut_cons_other h fut hl] at hi
    rw [hcb0] at hi
    simp only [cntCb, isRegE] at hi
    rw [hc, hq]
    split at hres
    · rw [hres.1, hres.2.2]
      simp only [cntCb, cntLog, regProc_cons]
      simp only [cntLog] at hi
      cases hh' : (h' == h)
      · simp only [hh', Bool.false_eq_true, if_false, Bool.false_or] at hi ⊢; omega
      · simp only [hh', if_true, Bool.true_or] at hi ⊢; omega
    · rw [hres.1, hres.2.2]
      simp only [cntCb, cntLog, regProc_cons, Bool.false_or]
      simp only [cntLog] at hi
      cases hh' : (h' == h)
      · simp only [hh', Bool.false_eq_true, if_false, Bool.false_or] at hi ⊢; omega
      · simp only [hh', if_true, Bool.true_or] at hi ⊢; omega
  | unreg h' c tok hl hcb0 hview hcb hq hh hls hlv hm hcl hlog =>
    rw [cntFut_cons_other h fut hl] at hi
    have h2 := hcl.2 (isRegE h)
    have h3 : cntLog h s'.log = cntLog h s.log := by
      rcases hlog with e | e <;> (rw [e]; simp [cntLog, regProc_cons])
    have h4 : cntCb h s.cb = 0 := by
      rcases hcb0 with e | ⟨c0, e⟩ <;> (rw [e]; simp [cntCb, isRegE])
    rw [hcb, hq, h3]
    simp only [cntCb]
    omega
  | next c0 c cs ev hl hcb0 =>
    rw [cntFut_cons_other h fut hl] at hi
    rw [hcb0] at hi
    simpa [cntCb, cntLog, regProc_cons] using hi
  | finishPlain c0 ev hl hcb0 hev =>
    rw [cntFut_cons_other h fut hl] at hi
    rw [hcb0] at hi
    simpa [cntCb] using hi
  | finishReg c0 h' ser cfg hl hcb0 =>
    rw [cntFut_cons_other h fut hl] at hi
    rw [hcb0] at hi
    simpa [cntCb] using hi

theorem invU_init (P : Params) (sl : Slots) (w : List Bool) {ls : List Label} (hu : RegsUnique ls) :
    InvU ls (initState P sl w) := by
  intro h
  simp only [regTotal, initState, held_nil, List.countP_nil, cntCb, cntLog, regProc, List.any_nil, cntFut]
  have := List.nodup_iff_count.1 hu h
  simpa using this

/-! ## §11 registrations in flight stem from `begin … register` labels -/

theorem run_astep_induct {W : World} {P : Params} {sl : Slots} {w : List Bool} (ls : List Label)
    (Inv : List Label → List Label → State → Prop)
    (h0 : Inv [] ls (initState P sl w))
    (hstep : ∀ past l fut s s', ls = past ++ l :: fut → Reachable W P sl w s →
      run W (initState P sl w) past = some s → Inv past (l :: fut) s → AStep s l s' → Inv (past ++ [l]) fut s')
    {s : State} (hrun : run W (initState P sl w) ls = some s) : Inv ls [] s :=
  run_split_induct ls Inv h0
    (fun past l fut s s' hls hp hi hs => hstep past l fut s s' hls ⟨past, hp⟩ hp hi (step_abs hs)) hrun

def RegBegun (past : List Label) (h ser : Nat) : Prop :=
  ∃ c cfg ctx, Label.begin c (.register h ser cfg) ctx ∈ past

theorem RegBegun.mono {past past' : List Label} {h ser : Nat} (hb : RegBegun past h ser)
    (hsub : ∀ l ∈ past, l ∈ past') : RegBegun past' h ser := by
  obtain ⟨c, cfg, ctx, hm⟩ := hb
  exact ⟨c, cfg, ctx, hsub _ hm⟩

theorem callsFor_user {hs : List (Nat × Nat)} {ls : Nat} {lv : Option Slots} {ev : CbEv} {h : Nat} {o n : Slots}
    {sr : Nat} {cu : Bool} (hc : Call.user h o n sr cu ∈ callsFor hs ls lv ev) :
    (∃ old new supp m, ev = .newCfg old new supp ∧ sr = new.serial ∧ cu = false ∧ (h, m) ∈ hs ∧ m < new.serial) ∨
    (∃ ser c, ev = .reg h ser (some c) ∧ ser < ls ∧ sr = ls ∧ cu = true) := by
  cases ev with
  | newCfg old new supp =>
    left
    simp only [callsFor, List.mem_append, List.mem_map, List.mem_filter] at hc
    rcases hc with hc | ⟨x, ⟨hx, hf⟩, hxe⟩
    · split at hc <;> simp at hc
    · simp only [Call.user.injEq] at hxe
      obtain ⟨rfl, _, _, rfl, rfl⟩ := hxe
      refine ⟨old, new, supp, x.2, rfl, rfl, rfl, hx, ?_⟩
      simp only [Facts.cbSkip, ge_iff_le, Bool.not_eq_eq_eq_not, Bool.not_true, decide_eq_false_iff_not,
        Nat.not_le] at hf
      exact hf
  | watchErr k o' n' => simp [callsFor] at hc
  | reg hh ser cfg =>
    right
    simp only [callsFor] at hc
    split at hc
    · split at hc
      · rename_i c hcu
        simp only [List.mem_singleton, Call.user.injEq] at hc
        obtain ⟨rfl, _, _, rfl, rfl⟩ := hc
        exact ⟨ser, c, rfl, by simpa [Facts.catchUp] using hcu, rfl, rfl⟩
      · simp at hc
    · simp at hc
  | unreg hh c t => simp [callsFor] at hc

structure InvP (past : List Label) (s : State) : Prop where
  cl : ∀ h ser cfg, CbEv.reg h ser cfg ∈ held s.clients → RegBegun past h ser
  q : ∀ h ser cfg, CbEv.reg h ser cfg ∈ s.cbch → RegBegun past h ser
  got : ∀ h ser cfg, s.cb = .got (.reg h ser cfg) → RegBegun past h ser
  hnd : ∀ h m, (h, m) ∈ s.handles → RegBegun past h m
  calls : ∀ cs ev, s.cb = .calls cs ev → (∀ h ser cfg, ev = .reg h ser cfg → RegBegun past h ser) ∧
    ∀ h o n sr cu, Call.user h o n sr cu ∈ cs → ∃ ser, RegBegun past h ser ∧ ser < sr
  log : ∀ h o n sr cu, Call.user h o n sr cu ∈ enters s.log → ∃ ser, RegBegun past h ser ∧ ser < sr

theorem InvP.mono {past past' : List Label} {s : State} (hi : InvP past s) (hsub : ∀ l ∈ past, l ∈ past') :
    InvP past' s :=
  ⟨fun h ser cfg x => (hi.cl h ser cfg x).mono hsub, fun h ser cfg x => (hi.q h ser cfg x).mono hsub,
   fun h ser cfg x => (hi.got h ser cfg x).mono hsub, fun h m x => (hi.hnd h m x).mono hsub,
   fun cs ev x => ⟨fun h ser cfg e => ((hi.calls cs ev x).1 h ser cfg e).mono hsub,
     fun h o n sr cu y => by
       obtain ⟨ser, a, b⟩ := (hi.calls cs ev x).2 h o n sr cu y
       exact ⟨ser, a.mono hsub, b⟩⟩,
   fun h o n sr cu y => by
     obtain ⟨ser, a, b⟩ := hi.log h o n sr cu y
     exact ⟨ser, a.mono hsub, b⟩⟩

theorem invP_init (P : Params) (sl : Slots) (w : List Bool) : InvP [] (initState P sl w) :=
  ⟨by simp [initState], by simp [initState], by simp [initState], by simp [initState], by simp [initState],
   by simp [initState, enters]⟩

theorem enqueueCb_reg {past : List Label} {s : State} {ev : CbEv}
    (hq : ∀ h ser cfg, CbEv.reg h ser cfg ∈ s.cbch → RegBegun past h ser)
    (hg : ∀ h ser cfg, s.cb = .got (.reg h ser cfg) → RegBegun past h ser)
    (hev : ∀ h ser cfg, ev = .reg h ser cfg → RegBegun past h ser) :
    (∀ h ser cfg, CbEv.reg h ser cfg ∈ (enqueueCb s ev).cbch → RegBegun past h ser) ∧
    (∀ h ser cfg, (enqueueCb s ev).cb = .got (.reg h ser cfg) → RegBegun past h ser) := by
  unfold enqueueCb cbTake
  split
  · refine ⟨hq, ?_⟩
    intro h ser cfg he
    simp only [CbPc.got.injEq] at he
    exact hev h ser cfg he
  · refine ⟨?_, hg⟩
    intro h ser cfg he
    rcases List.mem_append.1 he with he | he
    · exact hq h ser cfg he
    · simp only [List.mem_singleton] at he
      exact hev h ser cfg he.symm

/-- the callback-goroutine and log part, given the rest for the old state -/
theorem invP_calls {past : List Label} {s s' : State} {l : Label} (hi : InvP past s) (hs : AStep s l s') :
    (∀ cs ev, s'.cb = .calls cs ev → (∀ h ser cfg, ev = .reg h ser cfg → RegBegun past h ser) ∧
      ∀ h o n sr cu, Call.user h o n sr cu ∈ cs → ∃ ser, RegBegun past h ser ∧ ser < sr) ∧
    (∀ h o n sr cu, Call.user h o n sr cu ∈ enters s'.log → ∃ ser, RegBegun past h ser ∧ ser < sr) := by
  rcases hs.enterStep with ⟨he, hcb⟩ | ⟨c, cs, ev, he, hcb0, hcalls, hcb, hnew, _⟩ | ⟨c0, c, cs, ev, he, hcb0, hcb⟩
  · exact ⟨fun cs ev h => hi.calls cs ev (hcb cs ev h), by rw [he]; exact hi.log⟩
  · have hall : ∀ h o n sr cu, Call.user h o n sr cu ∈ c :: cs → ∃ ser, RegBegun past h ser ∧ ser < sr := by
      intro h o n sr cu hm
      rw [← hcalls] at hm
      rcases callsFor_user hm with ⟨old, new, supp, m, _, rfl, _, hmem, hlt⟩ | ⟨ser, c', rfl, hlt, rfl, _⟩
      · exact ⟨m, hi.hnd h m hmem, hlt⟩
      · exact ⟨ser, hi.got h ser _ hcb0, hlt⟩
    refine ⟨?_, ?_⟩
    · intro cs' ev' h
      rw [hcb] at h
      simp only [CbPc.calls.injEq] at h
      obtain ⟨rfl, rfl⟩ := h
      exact ⟨fun h ser cfg e => hi.got h ser cfg (e ▸ hcb0), hall⟩
    · rw [he]; intro h o n sr cu hm
      rcases List.mem_cons.1 hm with hm | hm
      · exact hall h o n sr cu (hm ▸ List.mem_cons_self ..)
      · exact hi.log h o n sr cu hm
  · obtain ⟨ha, hb⟩ := hi.calls _ _ hcb0
    refine ⟨?_, ?_⟩
    · intro cs' ev' h
      rw [hcb] at h
      simp only [CbPc.calls.injEq] at h
      obtain ⟨rfl, rfl⟩ := h
      exact ⟨ha, fun h o n sr cu hm => hb h o n sr cu (List.mem_cons_of_mem _ hm)⟩
    · rw [he]; intro h o n sr cu hm
      rcases List.mem_cons.1 hm with hm | hm
      · exact hb h o n sr cu (by rw [← hm]; simp)
      · exact hi.log h o n sr cu hm

theorem invP_step {past : List Label} {s s' : State} {l : Label} (hi : InvP past s) (hs : AStep s l s') :
    InvP (past ++ [l]) s' := by
  have hsub : ∀ x ∈ past, x ∈ past ++ [l] := fun x hx => List.mem_append_left _ hx
  obtain ⟨hcalls, hlog⟩ := invP_calls hi hs
  have hmk : (∀ h ser cfg, CbEv.reg h ser cfg ∈ held s'.clients → RegBegun (past ++ [l]) h ser) →
      (∀ h ser cfg, CbEv.reg h ser cfg ∈ s'.cbch → RegBegun past h ser) →
      (∀ h ser cfg, s'.cb = .got (.reg h ser cfg) → RegBegun past h ser) →
      (∀ h m, (h, m) ∈ s'.handles → RegBegun past h m) → InvP (past ++ [l]) s' := by
    intro a b c d
    exact ⟨a, fun h ser cfg x => (b h ser cfg x).mono hsub, fun h ser cfg x => (c h ser cfg x).mono hsub,
      fun h m x => (d h m x).mono hsub,
      fun cs ev x => ⟨fun h ser cfg e => ((hcalls cs ev x).1 h ser cfg e).mono hsub,
        fun h o n sr cu y => by
          obtain ⟨ser, a, b⟩ := (hcalls cs ev x).2 h o n sr cu y
          exact ⟨ser, a.mono hsub, b⟩⟩,
      fun h o n sr cu y => by
        obtain ⟨ser, a, b⟩ := hlog h o n sr cu y
        exact ⟨ser, a.mono hsub, b⟩⟩
  have hcl : ∀ cs', CLe s.clients cs' → ∀ h ser cfg, CbEv.reg h ser cfg ∈ held cs' → RegBegun (past ++ [l]) h ser :=
    fun cs' hle h ser cfg hm => (hi.cl h ser cfg (hle.mem hm)).mono hsub
  cases hs with
  | boring hl hb =>
    refine hmk (hcl _ hb.clients) (by rw [hb.cbch]; exact hi.q) ?_ (by rw [hb.handles]; exact hi.hnd)
    intro h ser cfg he
    rcases hb.cb with e | ⟨_, e, _⟩
    · exact hi.got h ser cfg (e ▸ he)
    · rw [he] at e; simp [cbBusy] at e
  | @«begin» c op ctx hc =>
    refine hmk ?_ hi.q hi.got hi.hnd
    intro h ser cfg hm
    rcases mem_held_setC hm with hm | hm
    · exact (hi.cl h ser cfg hm).mono hsub
    · cases op <;> simp [evOf] at hm
      obtain ⟨rfl, rfl, rfl⟩ := hm
      exact ⟨c, _, ctx, List.mem_append_right _ (List.mem_singleton.2 rfl)⟩
  | store hl hm => exact hmk (hcl _ (.refl _)) hi.q hi.got hi.hnd
  | submitDrop ev hl hcore hm hc hlog =>
    exact hmk (hcl _ (hc ▸ .refl _)) (by rw [hcore.cbch]; exact hi.q) (by rw [hcore.cb]; exact hi.got)
      (by rw [hcore.handles]; exact hi.hnd)
  | submitEnq ev skip hl hev hview hcb hq hh hls hlv hm hc hlog =>
    obtain ⟨e1, e2⟩ := enqueueCb_reg (ev := ev) hi.q hi.got
      (by intro h ser cfg e; subst e; exact absurd hev (by simp [SubmitOK]))
    exact hmk (hcl _ (hc ▸ .refl _)) (by rw [hq]; exact e1) (by rw [hcb]; exact e2) (by rw [hh]; exact hi.hnd)
  | enq c ev op ctx st' hl hc hev hview hcb hq hh hls hlv hm hcl' hst' hlog =>
    obtain ⟨e1, e2⟩ := enqueueCb_reg (ev := ev) hi.q hi.got
      (by intro h ser cfg e; subst e; exact hi.cl h ser cfg (getC_held (by rw [hc]; exact hev)))
    exact hmk (hcl _ (hcl' ▸ CLe.setC_none _ hst')) (by rw [hq]; exact e1) (by rw [hcb]; exact e2)
      (by rw [hh]; exact hi.hnd)
  | deq ev rest hl hcb0 hq0 hview hcb hh hls hlv hm hadm =>
    have hqq := hi.q
    rw [hq0] at hqq
    refine hmk ?_ ?_ ?_ (by rw [hh]; exact hi.hnd)
    · rcases hadm with ⟨_, h2, _⟩ | ⟨c, ev', ctx, st', _, _, h3, h4, _⟩
      · exact hcl _ (h2 ▸ .refl _)
      · exact hcl _ (h3 ▸ CLe.setC_none _ h4)
    · rcases hadm with ⟨h1', _, _⟩ | ⟨c, ev', ctx, st', hmem, h2, _, _, _⟩
      · rw [h1']; exact fun h ser cfg he => hqq h ser cfg (List.mem_cons_of_mem _ he)
      · rw [h2]; intro h ser cfg he
        rcases List.mem_append.1 he with he | he
        · exact hqq h ser cfg (List.mem_cons_of_mem _ he)
        · simp only [List.mem_singleton] at he; subst he
          exact hi.cl h ser cfg (mem_held.2 ⟨_, hmem, rfl⟩)
    · rw [hcb]; intro h ser cfg he
      simp only [CbPc.got.injEq] at he; subst he
      exact hqq h ser cfg (List.mem_cons_self ..)
  | gotNew old new supp hl hcb0 hview hq hh hls hlv hm hc hres =>
    refine hmk (hcl _ (hc ▸ .refl _)) (by rw [hq]; exact hi.q) ?_ (by rw [hh]; exact hi.hnd)
    obtain ⟨extra, _, hres⟩ := hres
    intro h ser cfg he
    split at hres <;> (rw [hres.1] at he; simp at he)
  | gotErr k old new hl hcb0 => exact hmk (hcl _ (.refl _)) hi.q (by simp) hi.hnd
  | gotReg h' ser' cfg' hl hcb0 hview hq hls hlv hm hc hres =>
    refine hmk (hcl _ (hc ▸ .refl _)) (by rw [hq]; exact hi.q) ?_ ?_
    · intro h ser cfg he
      split at hres <;> (rw [hres.1] at he; simp at he)
    · intro h m hmem
      split at hres
      · rw [hres.2.1] at hmem
        rcases List.mem_append.1 hmem with hmem | hmem
        · exact hi.hnd h m hmem
        · simp only [List.mem_singleton, Prod.mk.injEq] at hmem
          obtain ⟨rfl, rfl⟩ := hmem
          exact hi.got _ _ _ hcb0
      · rw [hres.2.1] at hmem; exact hi.hnd h m hmem
  | unreg h' c tok hl hcb0 hview hcb hq hh hls hlv hm hcl' hlog =>
    refine hmk (hcl _ hcl') (by rw [hq]; exact hi.q) (by rw [hcb]; simp) ?_
    rw [hh]; intro h m hmem
    exact hi.hnd h m (List.mem_filter.1 hmem).1
  | next c0 c cs ev hl hcb0 => exact hmk (hcl _ (.refl _)) hi.q (by simp) hi.hnd
  | finishPlain c0 ev hl hcb0 hev => exact hmk (hcl _ (.refl _)) hi.q (by simp) hi.hnd
  | finishReg c0 h' ser' cfg' hl hcb0 =>
    refine hmk (hcl _ (.refl _)) hi.q (by simp) ?_
    intro h m hmem
    rcases List.mem_append.1 hmem with hmem | hmem
    · exact hi.hnd h m hmem
    · simp only [List.mem_singleton, Prod.mk.injEq] at hmem
      obtain ⟨rfl, rfl⟩ := hmem
      exact (hi.calls _ _ hcb0).1 _ _ _ rfl

/-! ## §12 handles -/

theorem filterMap_nodup_inj {α β : Type} {f : α → Option β} {l : List α} (hn : (l.filterMap f).Nodup) {a b : α}
    (ha : a ∈ l) (hb : b ∈ l) {x : β} (hfa : f a = some x) (hfb : f b = some x) : a = b := by
  induction l with
  | nil => cases ha
  | cons y l ih =>
    rw [List.filterMap_cons] at hn
    rcases List.mem_cons.1 ha with ha' | ha' <;> rcases List.mem_cons.1 hb with hb' | hb'
    · rw [ha', hb']
    · subst ha'
      rw [hfa, List.nodup_cons] at hn
      exact absurd (List.mem_filterMap.2 ⟨_, hb', hfb⟩) hn.1
    · subst hb'
      rw [hfb, List.nodup_cons] at hn
      exact absurd (List.mem_filterMap.2 ⟨_, ha', hfa⟩) hn.1
    · cases hy : f y with
      | none => rw [hy] at hn; exact ih hn ha' hb'
      | some z => rw [hy, List.nodup_cons] at hn; exact ih hn.2 ha' hb'

theorem regsUnique_ser {ls : List Label} (hu : RegsUnique ls) {c c' h ser ser' ctx ctx' : Nat} {cfg cfg' : Option Slots}
    (h1 : Label.begin c (.register h ser cfg) ctx ∈ ls) (h2 : Label.begin c' (.register h ser' cfg') ctx' ∈ ls) :
    ser = ser' := by
  have := filterMap_nodup_inj hu h1 h2 (x := h) rfl rfl
  simp only [Label.begin.injEq, Op.register.injEq] at this
  exact this.2.1.2.1

theorem AStep.log_ext {s s' : State} {l : Label} (hs : AStep s l s') : ∃ ext, s'.log = ext ++ s.log := by
  rcases hs.monStep with ⟨_, _, _, h⟩ | ⟨_, _, _, _, _, h⟩ | ⟨ev, _, _, _, e, h⟩ | ⟨ev, skip, _, _, _, _, e, h⟩
  · exact h
  · exact ⟨[_], h⟩
  · exact ⟨e ++ [.dropped ev], by rw [h]; simp⟩
  · exact ⟨e ++ [.queued ev skip], by rw [h]; simp⟩

theorem regProc_mono {h : Nat} {l l' : List Obs} (he : ∃ ext, l' = ext ++ l) (hp : regProc h l = true) :
    regProc h l' = true := by
  obtain ⟨ext, rfl⟩ := he
  simp only [regProc, List.any_append, Bool.or_eq_true] at hp ⊢
  exact .inr hp

theorem regTotal_got {fut : List Label} {s : State} (hu : InvU fut s) {h ser : Nat} {cfg : Option Slots}
    (hcb : s.cb = .got (.reg h ser cfg)) : regProc h s.log = false := by
  have := hu h
  unfold regTotal at this
  rw [hcb] at this
  simp only [cntCb, isRegE, beq_self_eq_true, if_true, cntLog] at this
  cases hp : regProc h s.log
  · rfl
  · rw [hp] at this; simp at this

structure InvH (s : State) : Prop where
  proc : ∀ h m, (h, m) ∈ s.handles → regProc h s.log = true
  nodup : (s.handles.map (·.1)).Nodup
  calls : ∀ cs h ser cfg, s.cb = .calls cs (.reg h ser cfg) → regProc h s.log = true ∧ h ∉ s.handles.map (·.1)

theorem invH_init (P : Params) (sl : Slots) (w : List Bool) : InvH (initState P sl w) :=
  ⟨by simp [initState], by simp [initState], by simp [initState]⟩

theorem not_mem_ids {s : State} (hi : InvH s) {h : Nat} (hp : regProc h s.log = false) : h ∉ s.handles.map (·.1) := by
  intro hm
  simp only [List.mem_map] at hm
  obtain ⟨⟨h', m⟩, hm, rfl⟩ := hm
  have := hi.proc h' m hm
  simp only at hp
  rw [hp] at this; cases this

theorem nodup_append_single {hs : List (Nat × Nat)} {h ser : Nat} (hn : (hs.map (·.1)).Nodup) (hh : h ∉ hs.map (·.1)) :
    ((hs ++ [(h, ser)]).map (·.1)).Nodup := by
  rw [List.map_append, List.nodup_append]
  refine ⟨hn, by simp, ?_⟩
  intro a ha b hb
  simp only [List.map_cons, List.map_nil, List.mem_singleton] at hb
  subst hb
  intro e; subst e; exact hh ha

theorem invH_step {fut : List Label} {s s' : State} {l : Label} (hu : InvU fut s) (hi : InvH s) (hs : AStep s l s') :
    InvH s' := by
  have hext := hs.log_ext
  have hmono : ∀ h, regProc h s.log = true → regProc h s'.log = true := fun h => regProc_mono hext
  have same : s'.handles = s.handles → (∀ cs h ser cfg, s'.cb = .calls cs (.reg h ser cfg) →
      ∃ cs0, s.cb = .calls cs0 (.reg h ser cfg)) → InvH s' := by
    intro hh hc
    refine ⟨by rw [hh]; exact fun h m x => hmono h (hi.proc h m x), by rw [hh]; exact hi.nodup, ?_⟩
    intro cs h ser cfg he
    obtain ⟨cs0, he0⟩ := hc cs h ser cfg he
    obtain ⟨a, b⟩ := hi.calls cs0 h ser cfg he0
    exact ⟨hmono h a, by rw [hh]; exact b⟩
  cases hs with
  | boring hl hb =>
    refine same hb.handles ?_
    intro cs h ser cfg he
    rcases hb.cb with e | ⟨_, e, _⟩
    · exact ⟨cs, e ▸ he⟩
    · rw [he] at e; simp [cbBusy] at e
  | «begin» op ctx hc => exact same rfl (fun cs h ser cfg he => ⟨cs, he⟩)
  | store hl hm => exact same rfl (fun cs h ser cfg he => ⟨cs, he⟩)
  | submitDrop ev hl hcore hm hc hlog => exact same hcore.handles (fun cs h ser cfg he => ⟨cs, hcore.cb ▸ he⟩)
  | submitEnq ev skip hl hev hview hcb hq hh hls hlv hm hc hlog =>
    exact same hh (fun cs h ser cfg he => ⟨cs, enqueueCb_calls (hcb ▸ he)⟩)
  | enq c ev op ctx st' hl hc hev hview hcb hq hh hls hlv hm hcl hst' hlog =>
    exact same hh (fun cs h ser cfg he => ⟨cs, enqueueCb_calls (hcb ▸ he)⟩)
  | deq ev rest hl hcb0 hq0 hview hcb hh hls hlv hm hadm =>
    exact same hh (fun cs h ser cfg he => by rw [hcb] at he; simp at he)
  | gotNew old new supp hl hcb0 hview hq hh hls hlv hm hc hres =>
    refine same hh ?_
    obtain ⟨extra, _, hres⟩ := hres
    intro cs h ser cfg he
    split at hres <;> (rw [hres.1] at he; simp at he)
  | gotErr k old new hl hcb0 => exact same rfl (fun cs h ser cfg he => by simp at he)
  | gotReg h' ser' cfg' hl hcb0 hview hq hls hlv hm hc hres =>
    have hnp := regTotal_got hu hcb0
    have hnot := not_mem_ids hi hnp
    split at hres
    · obtain ⟨r1, r2, r3⟩ := hres
      refine ⟨?_, by rw [r2]; exact nodup_append_single hi.nodup hnot, by rw [r1]; simp⟩
      rw [r2]; intro h m hmem
      rcases List.mem_append.1 hmem with hmem | hmem
      · exact hmono h (hi.proc h m hmem)
      · simp only [List.mem_singleton, Prod.mk.injEq] at hmem
        obtain ⟨rfl, rfl⟩ := hmem
        rw [r3]; simp [regProc_cons]
    · obtain ⟨r1, r2, r3⟩ := hres
      refine ⟨by rw [r2]; exact fun h m x => hmono h (hi.proc h m x), by rw [r2]; exact hi.nodup, ?_⟩
      intro cs h ser cfg he
      rw [r1] at he
      simp only [CbPc.calls.injEq, CbEv.reg.injEq] at he
      obtain ⟨_, rfl, rfl, rfl⟩ := he
      exact ⟨by rw [r3]; simp [regProc_cons], by rw [r2]; exact hnot⟩
  | unreg h' c tok hl hcb0 hview hcb hq hh hls hlv hm hcl hlog =>
    refine ⟨?_, ?_, by rw [hcb]; simp⟩
    · rw [hh]; intro h m hmem
      exact hmono h (hi.proc h m (List.mem_filter.1 hmem).1)
    · rw [hh]
      exact hi.nodup.sublist ((List.filter_sublist).map _)
  | next c0 c cs ev hl hcb0 =>
    refine same rfl ?_
    intro cs' h ser cfg he
    simp only [CbPc.calls.injEq] at he
    exact ⟨_, he.2 ▸ hcb0⟩
  | finishPlain c0 ev hl hcb0 hev => exact same rfl (fun cs h ser cfg he => by simp at he)
  | finishReg c0 h' ser' cfg' hl hcb0 =>
    obtain ⟨a, b⟩ := hi.calls _ _ _ _ hcb0
    refine ⟨?_, nodup_append_single hi.nodup b, by simp⟩
    intro h m hmem
    rcases List.mem_append.1 hmem with hmem | hmem
    · exact hi.proc h m hmem
    · simp only [List.mem_singleton, Prod.mk.injEq] at hmem
      obtain ⟨rfl, rfl⟩ := hmem
      exact a

/-! ## §13 the calls of one handle carry strictly increasing serials -/

def userGt (a b : Call) : Prop :=
  match a, b with
  | .user h2 _ _ s2 _, .user h1 _ _ s1 _ => h1 = h2 → s1 < s2
  | _, _ => True

def userId : Call → Option Nat
  | .user h _ _ _ _ => some h
  | _ => none

def Fresh (ents : List Call) : Call → Prop
  | .user h _ _ sr _ => ∀ o n s1 cu, Call.user h o n s1 cu ∈ ents → s1 < sr
  | _ => True

theorem regProc_of_mem {h ser ls : Nat} {log : List Obs} (hm : Obs.regProcessed h ser ls ∈ log) :
    regProc h log = true := by
  simp only [regProc, List.any_eq_true]
  exact ⟨_, hm, by simp⟩

theorem callsFor_ids_nodup {hs : List (Nat × Nat)} (hn : (hs.map (·.1)).Nodup) (ls : Nat) (lv : Option Slots)
    (ev : CbEv) : ((callsFor hs ls lv ev).filterMap userId).Nodup := by
  cases ev with
  | newCfg old new supp =>
    simp only [callsFor, List.filterMap_append]
    have h1 : (if Facts.globalGate supp = true then [Call.onNew old new.cfg new.serial] else []).filterMap userId = [] := by
      split <;> simp [userId]
    rw [h1, List.nil_append, List.filterMap_map]
    have h2 : (userId ∘ fun h : Nat × Nat => Call.user h.1 old new.cfg new.serial false) = fun h => some h.1 := by
      funext h; rfl
    rw [h2]
    have h3 : ∀ l : List (Nat × Nat), l.filterMap (fun h => some h.1) = l.map (·.1) := by
      intro l; induction l <;> simp_all
    rw [h3]
    exact hn.sublist ((List.filter_sublist).map _)
  | watchErr k o n => simp [callsFor, List.filterMap_cons, userId]
  | reg h ser cfg =>
    simp only [callsFor]
    split
    · split <;> simp [userId]
    · simp
  | unreg h c t => simp [callsFor]

theorem ids_nodup_cons {c : Call} {cs : List Call} (hn : ((c :: cs).filterMap userId).Nodup) {h : Nat} {o n o' n' : Slots}
    {sr sr' : Nat} {cu cu' : Bool} (hc : c = .user h o n sr cu) (hm : Call.user h o' n' sr' cu' ∈ cs) : False := by
  subst hc
  simp only [List.filterMap_cons, userId, List.nodup_cons] at hn
  exact hn.1 (List.mem_filterMap.2 ⟨_, hm, rfl⟩)

theorem ids_nodup_tail {c : Call} {cs : List Call} (hn : ((c :: cs).filterMap userId).Nodup) :
    (cs.filterMap userId).Nodup := by
  rw [List.filterMap_cons] at hn
  cases hc : userId c with
  | none => rw [hc] at hn; exact hn
  | some x => rw [hc] at hn; exact (List.nodup_cons.1 hn).2

structure InvS (s : State) : Prop where
  ent : ∀ h o n sr cu, Call.user h o n sr cu ∈ enters s.log → regProc h s.log = true ∧ sr ≤ s.lastSerial
  pw : (enters s.log).Pairwise userGt
  calls : ∀ cs ev, s.cb = .calls cs ev → (cs.filterMap userId).Nodup ∧
    (∀ h o n sr cu, Call.user h o n sr cu ∈ cs → sr ≤ s.lastSerial ∧ regProc h s.log = true) ∧
    (∀ c ∈ cs.tail, Fresh (enters s.log) c)

theorem invS_init (P : Params) (sl : Slots) (w : List Bool) : InvS (initState P sl w) :=
  ⟨by simp [initState, enters], by simp [initState, enters], by simp [initState]⟩

theorem invS_step {fut : List Label} {s s' : State} {l : Label} (h2 : Inv2 s) (hu : InvU fut s) (hh : InvH s)
    (hi : InvS s) (hs : AStep s l s') : InvS s' := by
  have hmono := hs.lastSerial_mono h2
  have hext := hs.log_ext
  have hpm : ∀ h, regProc h s.log = true → regProc h s'.log = true := fun h => regProc_mono hext
  have hold : ∀ h o n sr cu, Call.user h o n sr cu ∈ enters s.log → regProc h s'.log = true ∧ sr ≤ s'.lastSerial :=
    fun h o n sr cu hm => ⟨hpm h (hi.ent h o n sr cu hm).1, Nat.le_trans (hi.ent h o n sr cu hm).2 hmono⟩
  rcases hs.enterStep with ⟨he, hcb⟩ | ⟨c, cs, ev, he, hcb0, hcalls, hcb, hnew, hreg⟩ | ⟨c0, c, cs, ev, he, hcb0, hcb⟩
  · refine ⟨by rw [he]; exact hold, by rw [he]; exact hi.pw, ?_⟩
    intro cs ev h
    obtain ⟨a, b, c⟩ := hi.calls cs ev (hcb cs ev h)
    refine ⟨a, fun h o n sr cu hm => ⟨Nat.le_trans (b h o n sr cu hm).1 hmono, hpm h (b h o n sr cu hm).2⟩, ?_⟩
    rw [he]; exact c
  · have hnd : ((c :: cs).filterMap userId).Nodup := by rw [← hcalls]; exact callsFor_ids_nodup hh.nodup _ _ _
    -- facts about every user call of this event
    have hall : ∀ h o n sr cu, Call.user h o n sr cu ∈ c :: cs →
        sr ≤ s'.lastSerial ∧ regProc h s'.log = true ∧
        ((∃ old new supp, ev = .newCfg old new supp ∧ sr = new.serial) ∨
          (∃ ser cfg, ev = .reg h ser cfg ∧ cs = [])) := by
      intro h o n sr cu hm
      have hm' := hm
      rw [← hcalls] at hm'
      rcases callsFor_user hm' with ⟨old, new, supp, m, rfl, rfl, _, hmem, _⟩ | ⟨ser, c', rfl, _, rfl, _⟩
      · exact ⟨by rw [hnew old new supp rfl]; exact Nat.le_refl _, hpm h (hh.proc h m hmem), .inl ⟨old, new, supp, rfl, rfl⟩⟩
      · refine ⟨Nat.le_refl _, regProc_of_mem (hreg h ser _ rfl), .inr ⟨ser, _, rfl, ?_⟩⟩
        simp only [callsFor] at hcalls
        split at hcalls <;> simp at hcalls
        exact hcalls.2
    -- entries already logged are older than the calls of a new-config event
    have hlt : ∀ old new supp, ev = .newCfg old new supp → ∀ h o n s1 cu, Call.user h o n s1 cu ∈ enters s.log →
        s1 < new.serial := by
      intro old new supp hev h o n s1 cu hm
      subst hev
      have h3 := (h2.q.2.2 _ hcb0).1
      simp only [serGt] at h3
      have := (hi.ent h o n s1 cu hm).2
      omega
    refine ⟨?_, ?_, ?_⟩
    · rw [he]; intro h o n sr cu hm
      rcases List.mem_cons.1 hm with hm | hm
      · obtain ⟨a, b, _⟩ := hall h o n sr cu (hm ▸ List.mem_cons_self ..)
        exact ⟨b, a⟩
      · exact hold h o n sr cu hm
    · rw [he, List.pairwise_cons]
      refine ⟨?_, hi.pw⟩
      intro b hb
      cases c with
      | user h2' o2 n2 s2 cu2 =>
        cases b with
        | user h1 o1 n1 s1 cu1 =>
          simp only [userGt]
          intro e; subst e
          obtain ⟨_, _, hk⟩ := hall h1 o2 n2 s2 cu2 (List.mem_cons_self ..)
          rcases hk with ⟨old, new, supp, hev, rfl⟩ | ⟨ser, cfg, hev, _⟩
          · exact hlt old new supp hev h1 o1 n1 s1 cu1 hb
          · subst hev
            have := regTotal_got hu hcb0
            rw [(hi.ent h1 o1 n1 s1 cu1 hb).1] at this; cases this
        | _ => trivial
      | _ => trivial
    · intro cs' ev' h
      rw [hcb] at h
      simp only [CbPc.calls.injEq] at h
      obtain ⟨rfl, rfl⟩ := h
      refine ⟨hnd, fun h o n sr cu hm => ⟨(hall h o n sr cu hm).1, (hall h o n sr cu hm).2.1⟩, ?_⟩
      intro c' hc'
      simp only [List.tail_cons] at hc'
      cases c' with
      | user h o n sr cu =>
        simp only [Fresh]
        intro o1 n1 s1 cu1 hm
        obtain ⟨_, _, hk⟩ := hall h o n sr cu (List.mem_cons_of_mem _ hc')
        rw [he] at hm
        rcases List.mem_cons.1 hm with hm | hm
        · exact absurd (ids_nodup_cons hnd hm.symm hc') id
        · rcases hk with ⟨old, new, supp, hev, rfl⟩ | ⟨ser, cfg, _, hnil⟩
          · exact hlt old new supp hev h o1 n1 s1 cu1 hm
          · rw [hnil] at hc'; cases hc'
      | _ => trivial
  · obtain ⟨a, b, d⟩ := hi.calls _ _ hcb0
    have hfresh : Fresh (enters s.log) c := d c (by simp)
    refine ⟨?_, ?_, ?_⟩
    · rw [he]; intro h o n sr cu hm
      rcases List.mem_cons.1 hm with hm | hm
      · obtain ⟨x, y⟩ := b h o n sr cu (by rw [hm]; simp)
        exact ⟨hpm h y, Nat.le_trans x hmono⟩
      · exact hold h o n sr cu hm
    · rw [he, List.pairwise_cons]
      refine ⟨?_, hi.pw⟩
      intro x hx
      cases c with
      | user h2' o2 n2 s2 cu2 =>
        cases x with
        | user h1 o1 n1 s1 cu1 =>
          simp only [userGt]
          intro e; subst e
          exact hfresh o1 n1 s1 cu1 hx
        | _ => trivial
      | _ => trivial
    · intro cs' ev' h
      rw [hcb] at h
      simp only [CbPc.calls.injEq] at h
      obtain ⟨rfl, rfl⟩ := h
      have a' := ids_nodup_tail a
      refine ⟨a', ?_, ?_⟩
      · intro h o n sr cu hm
        obtain ⟨x, y⟩ := b h o n sr cu (List.mem_cons_of_mem _ hm)
        exact ⟨Nat.le_trans x hmono, hpm h y⟩
      · intro c' hc'
        simp only [List.tail_cons] at hc'
        have hf' : Fresh (enters s.log) c' := d c' (by simp only [List.tail_cons]; exact List.mem_cons_of_mem _ hc')
        cases c' with
        | user h o n sr cu =>
          simp only [Fresh] at hf' ⊢
          intro o1 n1 s1 cu1 hm
          rw [he] at hm
          rcases List.mem_cons.1 hm with hm | hm
          · exact absurd (ids_nodup_cons a' hm.symm hc') id
          · exact hf' o1 n1 s1 cu1 hm
        | _ => trivial

structure InvReg (past fut : List Label) (s : State) : Prop where
  u : InvU fut s
  p : InvP past s
  h : InvH s
  s : InvS s

theorem invReg {W : World} {P : Params} {sl : Slots} {w : List Bool} {s : State} {ls : List Label}
    (hrun : run W (initState P sl w) ls = some s) (hu : RegsUnique ls) : InvReg ls [] s := by
  refine run_astep_induct ls InvReg ⟨invU_init P sl w hu, invP_init P sl w, invH_init P sl w, invS_init P sl w⟩ ?_ hrun
  intro past l fut s s' _ hr _ hi hs
  exact ⟨invU_step (inv1 hr) hi.u hs, invP_step hi.p hs, invH_step hi.u hi.h hs,
    invS_step (inv2 hr) hi.u hi.h hi.s hs⟩

/-! ## §14 unregistration -/

/-- observations that are neither a callback entry nor part of an unregistration -/
def plainObs : Obs → Bool
  | .enter _ => false
  | .unregProcessed _ => false
  | .ret _ .unregTrue => false
  | _ => true

set_option linter.unusedSimpArgs false in
theorem plain_of_boring {o : Obs} (h : boringObs o = true) : plainObs o = true := by
  cases o <;> simp_all [boringObs, plainObs]
  rename_i c r; cases r <;> simp_all [boringObs, plainObs]

theorem HandLog.plain {c : Nat} {ev : CbEv} {l l' : List Obs} (h : HandLog c ev l l') :
    ∃ ext, l' = ext ++ l ∧ ∀ o ∈ ext, plainObs o = true := by
  cases ev <;> simp only [HandLog] at h
  case unreg => obtain ⟨e, he, hb⟩ := h; exact ⟨e, he, fun o ho => plain_of_boring (hb o ho)⟩
  all_goals exact ⟨[_], h, by simp [plainObs]⟩

/-- the shape of the log extension of an abstract step -/
inductive LogShape (s s' : State) : Prop
  | plain (ext : List Obs) (h : s'.log = ext ++ s.log) (hp : ∀ o ∈ ext, plainObs o = true)
  | enter (c : Call) (ext : List Obs) (h : s'.log = .enter c :: (ext ++ s.log)) (hp : ∀ o ∈ ext, plainObs o = true)
  | unreg (h c tok : Nat) (ext : List Obs) (hext : ext = [] ∨ ext = [.ret c .unregTrue])
      (hlog : s'.log = ext ++ .unregProcessed h :: s.log)
      (hcb0 : s.cb = .got (.unreg h c tok) ∨ ∃ c0, s.cb = .calls [c0] (.unreg h c tok))
      (hcb : s'.cb = .top) (hh : s'.handles = s.handles.filter (fun x => x.1 != h))

theorem AStep.logShape {s s' : State} {l : Label} (hs : AStep s l s') : LogShape s s' := by
  cases hs with
  | boring hl hb =>
    obtain ⟨e, he, hb⟩ := hb.log
    exact .plain e he (fun o ho => plain_of_boring (hb o ho))
  | «begin» op ctx hc => exact .plain [] rfl (by simp)
  | store hl hm => exact .plain [_] rfl (by simp [plainObs])
  | submitDrop ev hl hcore hm hc hlog =>
    obtain ⟨extra, hlog, hex⟩ := hlog
    refine .plain (extra ++ [.dropped ev]) (by rw [hlog]; simp) ?_
    intro o ho
    rcases List.mem_append.1 ho with ho | ho
    · exact plain_of_boring (hex o ho)
    · simp only [List.mem_singleton] at ho; subst ho; rfl
  | submitEnq ev skip hl hev hview hcb hq hh hls hlv hm hc hlog =>
    obtain ⟨extra, hlog, hex⟩ := hlog
    refine .plain (extra ++ [.queued ev skip]) (by rw [hlog]; simp) ?_
    intro o ho
    rcases List.mem_append.1 ho with ho | ho
    · exact plain_of_boring (hex o ho)
    · simp only [List.mem_singleton] at ho; subst ho; rfl
  | enq c ev op ctx st' hl hc hev hview hcb hq hh hls hlv hm hcl hst' hlog =>
    obtain ⟨e, he, hp⟩ := hlog.plain
    exact .plain e he hp
  | deq ev rest hl hcb0 hq0 hview hcb hh hls hlv hm hadm =>
    rcases hadm with ⟨_, _, h3⟩ | ⟨c, ev', ctx, st', _, _, _, _, h5⟩
    · exact .plain [] h3 (by simp)
    · obtain ⟨e, he, hp⟩ := h5.plain
      exact .plain e he hp
  | gotNew old new supp hl hcb0 hview hq hh hls hlv hm hc hres =>
    obtain ⟨extra, hex, hres⟩ := hres
    split at hres
    · exact .plain extra hres.2 (fun o ho => plain_of_boring (hex o ho))
    · exact .enter _ extra hres.2 (fun o ho => plain_of_boring (hex o ho))
  | gotErr k old new hl hcb0 => exact .enter _ [] rfl (by simp)
  | gotReg h ser cfg hl hcb0 hview hq hls hlv hm hc hres =>
    split at hres
    · exact .plain [_] hres.2.2 (by simp [plainObs])
    · exact .enter _ [_] hres.2.2 (by simp [plainObs])
  | unreg h c tok hl hcb0 hview hcb hq hh hls hlv hm hcl hlog =>
    rcases hlog with e | e
    · exact .unreg h c tok [] (.inl rfl) e hcb0 hcb hh
    · exact .unreg h c tok [_] (.inr rfl) e hcb0 hcb hh
  | next c0 c cs ev hl hcb0 => exact .enter c [] rfl (by simp)
  | finishPlain c0 ev hl hcb0 hev => exact .plain [] rfl (by simp)
  | finishReg c0 h ser cfg hl hcb0 => exact .plain [] rfl (by simp)

/-- `ret c unregTrue` is logged only right after `unregProcessed` -/
def AdjOK (log : List Obs) : Prop :=
  ∀ c l1 l2, log = l1 ++ Obs.ret c .unregTrue :: l2 → ∃ h l3, l2 = Obs.unregProcessed h :: l3

theorem AdjOK.ext {log ext : List Obs} (h : AdjOK log) (hp : ∀ o ∈ ext, ∀ c, o ≠ Obs.ret c .unregTrue) :
    AdjOK (ext ++ log) := by
  intro c l1 l2 heq
  rcases List.append_eq_append_iff.1 heq with ⟨a', h1, h2⟩ | ⟨c', h1, h2⟩
  · exact h c a' l2 h2
  · cases c' with
    | nil =>
      simp only [List.nil_append] at h2
      exact h c [] l2 h2.symm
    | cons x c'' =>
      simp only [List.cons_append, List.cons.injEq] at h2
      exact absurd h2.1.symm (hp x (by rw [h1]; simp) c)

theorem adjOK_step {s s' : State} {l : Label} (hi : AdjOK s.log) (hs : AStep s l s') : AdjOK s'.log := by
  rcases hs.logShape with ⟨ext, h, hp⟩ | ⟨c, ext, h, hp⟩ | ⟨h, c, tok, ext, hext, hlog, _, _, _⟩
  · rw [h]; exact hi.ext (fun o ho c e => by have := hp o ho; rw [e] at this; simp [plainObs] at this)
  · rw [h]
    have : Obs.enter c :: (ext ++ s.log) = (Obs.enter c :: ext) ++ s.log := rfl
    rw [this]
    refine hi.ext ?_
    intro o ho c' e
    rcases List.mem_cons.1 ho with ho | ho
    · rw [ho] at e; cases e
    · have := hp o ho; rw [e] at this; simp [plainObs] at this
  · rw [hlog]
    have h0 : AdjOK (Obs.unregProcessed h :: s.log) := by
      have := hi.ext (ext := [Obs.unregProcessed h]) (by simp)
      exact this
    rcases hext with rfl | rfl
    · exact h0
    · intro c' l1 l2 heq
      cases l1 with
      | nil =>
        simp only [List.nil_append, List.cons_append, List.cons.injEq] at heq
        exact ⟨h, s.log, heq.2.symm⟩
      | cons x l1' =>
        simp only [List.cons_append, List.nil_append, List.cons.injEq] at heq
        exact h0 c' l1' l2 heq.2

theorem adjOK {W : World} {P : Params} {sl : Slots} {w : List Bool} {s : State}
    (hr : Reachable W P sl w s) : AdjOK s.log :=
  reachable_astep_induct (fun s => AdjOK s.log)
    (by intro c l1 l2 h; simp [initState] at h) (fun _ _ _ _ hi hs => adjOK_step hi hs) hr

/-- the registration event of `h` has been put on the callback channel -/
def RegEnq (h : Nat) (s : State) : Prop :=
  regProc h s.log = true ∨ (∃ ser cfg, s.cb = .got (.reg h ser cfg)) ∨ (∃ ser cfg, CbEv.reg h ser cfg ∈ s.cbch)

theorem enqueueCb_mem (s : State) (ev : CbEv) :
    ev ∈ (enqueueCb s ev).cbch ∨ (enqueueCb s ev).cb = .got ev := by
  unfold enqueueCb cbTake
  split
  · exact .inr rfl
  · exact .inl (by simp)

theorem enqueueCb_keep {s : State} {ev : CbEv} :
    (∀ e, e ∈ s.cbch → e ∈ (enqueueCb s ev).cbch) ∧ (∀ e, s.cb = .got e → (enqueueCb s ev).cb = .got e) := by
  unfold enqueueCb cbTake
  split
  · rename_i hc
    exact ⟨fun e he => he, fun e he => by rw [hc] at he; cases he⟩
  · exact ⟨fun e he => List.mem_append_left _ he, fun e he => he⟩

theorem regEnq_step {h : Nat} {s s' : State} {l : Label} (hi : RegEnq h s) (hs : AStep s l s') : RegEnq h s' := by
  rcases hi with hp | ⟨ser, cfg, hg⟩ | ⟨ser, cfg, hq⟩
  · exact .inl (regProc_mono hs.log_ext hp)
  · cases hs with
    | boring hl hb =>
      rcases hb.cb with e | ⟨e, _, _⟩
      · exact .inr (.inl ⟨ser, cfg, by rw [e]; exact hg⟩)
      · rw [hg] at e; simp [cbBusy] at e
    | «begin» op ctx hc => exact .inr (.inl ⟨ser, cfg, hg⟩)
    | store hl hm => exact .inr (.inl ⟨ser, cfg, hg⟩)
    | submitDrop ev hl hcore hm hc hlog => exact .inr (.inl ⟨ser, cfg, by rw [hcore.cb]; exact hg⟩)
    | submitEnq ev skip hl hev hview hcb hq hh hls hlv hm hc hlog =>
      exact .inr (.inl ⟨ser, cfg, by rw [hcb]; exact enqueueCb_keep.2 _ hg⟩)
    | enq c ev op ctx st' hl hc hev hview hcb hq hh hls hlv hm hcl hst' hlog =>
      exact .inr (.inl ⟨ser, cfg, by rw [hcb]; exact enqueueCb_keep.2 _ hg⟩)
    | deq ev rest hl hcb0 hq0 hview hcb hh hls hlv hm hadm => rw [hg] at hcb0; cases hcb0
    | gotNew old new supp hl hcb0 hview hq hh hls hlv hm hc hres => rw [hg] at hcb0; cases hcb0
    | gotErr k old new hl hcb0 => rw [hg] at hcb0; cases hcb0
    | gotReg h' ser' cfg' hl hcb0 hview hq hls hlv hm hc hres =>
      rw [hg] at hcb0
      simp only [CbPc.got.injEq, CbEv.reg.injEq] at hcb0
      obtain ⟨rfl, rfl, rfl⟩ := hcb0
      left
      split at hres <;> (rw [hres.2.2]; simp [regProc_cons])
    | unreg h' c tok hl hcb0 hview hcb hq hh hls hlv hm hcl hlog =>
      rcases hcb0 with e | ⟨c0, e⟩ <;> (rw [hg] at e; cases e)
    | next c0 c cs ev hl hcb0 => rw [hg] at hcb0; cases hcb0
    | finishPlain c0 ev hl hcb0 hev => rw [hg] at hcb0; cases hcb0
    | finishReg c0 h' ser' cfg' hl hcb0 => rw [hg] at hcb0; cases hcb0
  · cases hs with
    | boring hl hb => exact .inr (.inr ⟨ser, cfg, by rw [hb.cbch]; exact hq⟩)
    | «begin» op ctx hc => exact .inr (.inr ⟨ser, cfg, hq⟩)
    | store hl hm => exact .inr (.inr ⟨ser, cfg, hq⟩)
    | submitDrop ev hl hcore hm hc hlog => exact .inr (.inr ⟨ser, cfg, by rw [hcore.cbch]; exact hq⟩)
    | submitEnq ev skip hl hev hview hcb hq' hh hls hlv hm hc hlog =>
      exact .inr (.inr ⟨ser, cfg, by rw [hq']; exact enqueueCb_keep.1 _ hq⟩)
    | enq c ev op ctx st' hl hc hev hview hcb hq' hh hls hlv hm hcl hst' hlog =>
      exact .inr (.inr ⟨ser, cfg, by rw [hq']; exact enqueueCb_keep.1 _ hq⟩)
    | deq ev rest hl hcb0 hq0 hview hcb hh hls hlv hm hadm =>
      rw [hq0] at hq
      rcases List.mem_cons.1 hq with hq | hq
      · exact .inr (.inl ⟨ser, cfg, by rw [hcb, hq]⟩)
      · refine .inr (.inr ⟨ser, cfg, ?_⟩)
        rcases hadm with ⟨h1, _, _⟩ | ⟨_, _, _, _, _, h2, _, _, _⟩
        · rw [h1]; exact hq
        · rw [h2]; exact List.mem_append_left _ hq
    | gotNew old new supp hl hcb0 hview hq' hh hls hlv hm hc hres => exact .inr (.inr ⟨ser, cfg, by rw [hq']; exact hq⟩)
    | gotErr k old new hl hcb0 => exact .inr (.inr ⟨ser, cfg, hq⟩)
    | gotReg h' ser' cfg' hl hcb0 hview hq' hls hlv hm hc hres => exact .inr (.inr ⟨ser, cfg, by rw [hq']; exact hq⟩)
    | unreg h' c tok hl hcb0 hview hcb hq' hh hls hlv hm hcl hlog => exact .inr (.inr ⟨ser, cfg, by rw [hq']; exact hq⟩)
    | next c0 c cs ev hl hcb0 => exact .inr (.inr ⟨ser, cfg, hq⟩)
    | finishPlain c0 ev hl hcb0 hev => exact .inr (.inr ⟨ser, cfg, hq⟩)
    | finishReg c0 h' ser' cfg' hl hcb0 => exact .inr (.inr ⟨ser, cfg, hq⟩)

/-- every queued unregistration of `h` comes after the registration of `h` -/
def UQ (log : List Obs) (cb : CbPc) (q : List CbEv) : Prop :=
  ∀ l1 l2 h c t, q = l1 ++ CbEv.unreg h c t :: l2 →
    regProc h log = true ∨ (∃ ser cfg, cb = .got (.reg h ser cfg)) ∨ (∃ ser cfg, CbEv.reg h ser cfg ∈ l1)

theorem UQ.snoc {log : List Obs} {cb : CbPc} {q : List CbEv} {ev : CbEv} (hq : UQ log cb q)
    (hev : ∀ h c t, ev = .unreg h c t →
      regProc h log = true ∨ (∃ ser cfg, cb = .got (.reg h ser cfg)) ∨ (∃ ser cfg, CbEv.reg h ser cfg ∈ q)) :
    UQ log cb (q ++ [ev]) := by
  intro l1 l2 h c t heq
  rcases List.append_eq_append_iff.1 heq with ⟨a', h1, h2⟩ | ⟨c', h1, h2⟩
  · cases a' with
    | nil =>
      simp only [List.nil_append, List.cons.injEq] at h2
      simp only [List.append_nil] at h1
      rw [h1]; exact hev h c t h2.1
    | cons x a'' =>
      simp only [List.cons_append, List.cons.injEq] at h2
      have := h2.2
      cases a'' <;> simp at this
  · cases c' with
    | nil =>
      simp only [List.nil_append, List.cons.injEq] at h2
      simp only [List.append_nil] at h1
      rw [← h1]; exact hev h c t h2.1.symm
    | cons x c'' =>
      simp only [List.cons_append, List.cons.injEq] at h2
      obtain ⟨rfl, _⟩ := h2
      exact hq l1 c'' h c t h1

theorem UQ.mono {log log' : List Obs} {cb cb' : CbPc} {q : List CbEv} (hq : UQ log cb q)
    (hl : ∀ h, regProc h log = true → regProc h log' = true)
    (hc : ∀ h ser cfg, cb = .got (.reg h ser cfg) → cb' = .got (.reg h ser cfg) ∨ regProc h log' = true) :
    UQ log' cb' q := by
  intro l1 l2 h c t heq
  rcases hq l1 l2 h c t heq with hp | ⟨ser, cfg, hg⟩ | hm
  · exact .inl (hl h hp)
  · rcases hc h ser cfg hg with e | e
    · exact .inr (.inl ⟨ser, cfg, e⟩)
    · exact .inl e
  · exact .inr (.inr hm)

theorem UQ.enqueue {log : List Obs} {s : State} {ev : CbEv} (hq : UQ log s.cb s.cbch) (hsel : s.cb = .sel → s.cbch = [])
    (hev : ∀ h c t, ev = .unreg h c t →
      regProc h log = true ∨ (∃ ser cfg, s.cb = .got (.reg h ser cfg)) ∨ (∃ ser cfg, CbEv.reg h ser cfg ∈ s.cbch)) :
    UQ log (enqueueCb s ev).cb (enqueueCb s ev).cbch ∧
      (∀ h c t, (enqueueCb s ev).cb = .got (.unreg h c t) → s.cb = .got (.unreg h c t) ∨ regProc h log = true) := by
  unfold enqueueCb cbTake
  split
  · rename_i hc
    refine ⟨?_, ?_⟩
    · rw [hsel hc]; intro l1 l2 h c t heq; cases l1 <;> simp at heq
    · intro h c t he
      simp only [CbPc.got.injEq] at he
      rcases hev h c t he with hp | ⟨ser, cfg, hg⟩ | ⟨ser, cfg, hm⟩
      · exact .inr hp
      · rw [hc] at hg; cases hg
      · rw [hsel hc] at hm; cases hm
  · exact ⟨hq.snoc hev, fun h c t he => .inl he⟩

theorem UQ.deq {log : List Obs} {ev : CbEv} {rest : List CbEv} (hq : UQ log .top (ev :: rest)) :
    UQ log (.got ev) rest ∧ (∀ h c t, ev = .unreg h c t → regProc h log = true) := by
  refine ⟨?_, ?_⟩
  · intro l1 l2 h c t heq
    rcases hq (ev :: l1) l2 h c t (by rw [heq]; rfl) with hp | ⟨ser, cfg, hg⟩ | ⟨ser, cfg, hm⟩
    · exact .inl hp
    · cases hg
    · rcases List.mem_cons.1 hm with hm | hm
      · exact .inr (.inl ⟨ser, cfg, by rw [hm]⟩)
      · exact .inr (.inr ⟨ser, cfg, hm⟩)
  · intro h c t he
    rcases hq [] rest h c t (by rw [he]; rfl) with hp | ⟨ser, cfg, hg⟩ | ⟨ser, cfg, hm⟩
    · exact hp
    · cases hg
    · cases hm

def RU (a b : Obs) : Prop :=
  match a, b with
  | .enter (.user h _ _ _ _), .unregProcessed h' => h ≠ h'
  | _, _ => True

theorem RU_of_not_enter {a b : Obs} (h : ∀ c, a ≠ .enter c) : RU a b := by
  unfold RU
  split
  · exact absurd rfl (h _)
  · trivial

theorem RU_of_not_unreg {a b : Obs} (h : ∀ x, b ≠ .unregProcessed x) : RU a b := by
  unfold RU
  split
  · exact absurd rfl (h _)
  · trivial

theorem pairwise_RU_ext {ext log : List Obs} (hp : ∀ o ∈ ext, ∀ c, o ≠ Obs.enter c) (h : log.Pairwise RU) :
    (ext ++ log).Pairwise RU := by
  induction ext with
  | nil => exact h
  | cons o ext ih =>
    rw [List.cons_append, List.pairwise_cons]
    exact ⟨fun b _ => RU_of_not_enter (hp o (List.mem_cons_self ..)), ih (fun x hx => hp x (List.mem_cons_of_mem _ hx))⟩

theorem plain_not_enter {o : Obs} (h : plainObs o = true) (c : Call) : o ≠ .enter c := by
  intro e; rw [e] at h; simp [plainObs] at h

theorem enters_append_plain (ext log : List Obs) (h : ∀ o ∈ ext, plainObs o = true) :
    enters (ext ++ log) = enters log := by
  induction ext with
  | nil => rfl
  | cons o ext ih =>
    rw [List.cons_append, enters_cons, ih (fun x hx => h x (List.mem_cons_of_mem _ hx))]
    have := h o (List.mem_cons_self ..)
    cases o <;> simp_all [plainObs]

theorem plain_not_unreg {o : Obs} (h : plainObs o = true) (x : Nat) : o ≠ .unregProcessed x := by
  intro e; rw [e] at h; simp [plainObs] at h

/-- new `unregProcessed` entries -/
theorem LogShape.unregP {s s' : State} (hsh : LogShape s s') :
    (∀ h, Obs.unregProcessed h ∈ s'.log ↔ Obs.unregProcessed h ∈ s.log) ∨
    (∃ h c tok, (s.cb = .got (.unreg h c tok) ∨ ∃ c0, s.cb = .calls [c0] (.unreg h c tok)) ∧ s'.cb = .top ∧
      s'.handles = s.handles.filter (fun x => x.1 != h) ∧
      ∀ h', Obs.unregProcessed h' ∈ s'.log ↔ (h' = h ∨ Obs.unregProcessed h' ∈ s.log)) := by
  rcases hsh with ⟨ext, h, hp⟩ | ⟨c, ext, h, hp⟩ | ⟨h, c, tok, ext, hext, hlog, hcb0, hcb, hh⟩
  · left; intro x; rw [h]
    simp only [List.mem_append]
    constructor
    · rintro (hm | hm)
      · exact absurd rfl (plain_not_unreg (hp _ hm) x)
      · exact hm
    · exact .inr
  · left; intro x; rw [h]
    simp only [List.mem_cons, reduceCtorEq, false_or, List.mem_append]
    constructor
    · rintro (hm | hm)
      · exact absurd rfl (plain_not_unreg (hp _ hm) x)
      · exact hm
    · exact .inr
  · right
    refine ⟨h, c, tok, hcb0, hcb, hh, ?_⟩
    intro x; rw [hlog]
    rcases hext with rfl | rfl <;> simp

structure InvG (s : State) : Prop where
  g0 : ∀ c h, Obs.ret c (.regOk h) ∈ s.log → RegEnq h s
  cl : ∀ h c t, CbEv.unreg h c t ∈ held s.clients → RegEnq h s
  q : UQ s.log s.cb s.cbch
  got : ∀ h c t, s.cb = .got (.unreg h c t) → regProc h s.log = true
  gc : ∀ h, Obs.unregProcessed h ∈ s.log → regProc h s.log = true
  gd : ∀ h m, (h, m) ∈ s.handles → Obs.unregProcessed h ∉ s.log
  calls : ∀ cs ev, s.cb = .calls cs ev → (∀ h c t, ev ≠ .unreg h c t) ∧
    (∀ h ser cfg, ev = .reg h ser cfg → Obs.unregProcessed h ∉ s.log) ∧
    (∀ h o n sr cu, Call.user h o n sr cu ∈ cs → Obs.unregProcessed h ∉ s.log)
  pw : s.log.Pairwise RU

theorem invG_init (P : Params) (sl : Slots) (w : List Bool) : InvG (initState P sl w) :=
  ⟨by simp [initState], by simp [initState], by intro l1 l2 h c t he; cases l1 <;> simp [initState] at he,
   by simp [initState], by simp [initState], by simp [initState], by simp [initState], by simp [initState]⟩

/-- the callback-goroutine part (`calls`) and the log order (`pw`) -/
theorem invG_calls {fut : List Label} {s s' : State} {l : Label} (hu : InvU fut s) (hi : InvG s) (hs : AStep s l s') :
    (∀ cs ev, s'.cb = .calls cs ev → (∀ h c t, ev ≠ .unreg h c t) ∧
      (∀ h ser cfg, ev = .reg h ser cfg → Obs.unregProcessed h ∉ s'.log) ∧
      (∀ h o n sr cu, Call.user h o n sr cu ∈ cs → Obs.unregProcessed h ∉ s'.log)) ∧
    s'.log.Pairwise RU := by
  have hgotreg : ∀ h ser cfg, s.cb = .got (.reg h ser cfg) → Obs.unregProcessed h ∉ s.log := by
    intro h ser cfg hg hm
    have := regTotal_got hu hg
    rw [hi.gc h hm] at this; cases this
  have hun := hs.logShape.unregP
  -- while calls are pending no unregistration is processed
  have hsame : ∀ cs ev, s'.cb = .calls cs ev → ∀ h, Obs.unregProcessed h ∈ s'.log → Obs.unregProcessed h ∈ s.log := by
    intro cs ev hc h hm
    rcases hun with hu' | ⟨h', c, tok, _, hcb, _, _⟩
    · exact (hu' h).1 hm
    · rw [hcb] at hc; cases hc
  have hcalls : ∀ cs ev, s'.cb = .calls cs ev → (∀ h c t, ev ≠ .unreg h c t) ∧
      (∀ h ser cfg, ev = .reg h ser cfg → Obs.unregProcessed h ∉ s.log) ∧
      (∀ h o n sr cu, Call.user h o n sr cu ∈ cs → Obs.unregProcessed h ∉ s.log) := by
    rcases hs.enterStep with ⟨he, hcb⟩ | ⟨c, cs, ev, he, hcb0, hcalls, hcb, hnew, hreg⟩ | ⟨c0, c, cs, ev, he, hcb0, hcb⟩
    · exact fun cs ev h => hi.calls cs ev (hcb cs ev h)
    · intro cs' ev' h
      rw [hcb] at h
      simp only [CbPc.calls.injEq] at h
      obtain ⟨rfl, rfl⟩ := h
      refine ⟨?_, ?_, ?_⟩
      · intro h c' t e; subst e; simp [callsFor] at hcalls
      · intro h ser cfg e; subst e; exact hgotreg h ser cfg hcb0
      · intro h o n sr cu hm
        rw [← hcalls] at hm
        rcases callsFor_user hm with ⟨old, new, supp, m, _, _, _, hmem, _⟩ | ⟨ser, c', e, _, _, _⟩
        · exact hi.gd h m hmem
        · subst e; exact hgotreg h ser _ hcb0
    · intro cs' ev' h
      rw [hcb] at h
      simp only [CbPc.calls.injEq] at h
      obtain ⟨rfl, rfl⟩ := h
      obtain ⟨a, b, d⟩ := hi.calls _ _ hcb0
      exact ⟨a, b, fun h o n sr cu hm => d h o n sr cu (List.mem_cons_of_mem _ hm)⟩
  refine ⟨?_, ?_⟩
  · intro cs ev hc
    obtain ⟨a, b, d⟩ := hcalls cs ev hc
    exact ⟨a, fun h ser cfg e hm => b h ser cfg e (hsame cs ev hc h hm),
      fun h o n sr cu hm hm' => d h o n sr cu hm (hsame cs ev hc h hm')⟩
  · rcases hs.logShape with ⟨ext, h, hp⟩ | ⟨c, ext, h, hp⟩ | ⟨h, c, tok, ext, hext, hlog, _, _, _⟩
    · rw [h]; exact pairwise_RU_ext (fun o ho => plain_not_enter (hp o ho)) hi.pw
    · rw [h, List.pairwise_cons]
      refine ⟨?_, pairwise_RU_ext (fun o ho => plain_not_enter (hp o ho)) hi.pw⟩
      intro b hb
      rcases List.mem_append.1 hb with hb | hb
      · exact RU_of_not_unreg (plain_not_unreg (hp b hb))
      · -- `c` is the head of the pending calls of `s'`
        have hent : enters s'.log = c :: enters s.log := by
          rw [h, enters_cons, enters_append_plain _ _ hp]; rfl
        have hpend : ∃ cs ev, s'.cb = .calls (c :: cs) ev := by
          rcases hs.enterStep with ⟨he, _⟩ | ⟨c', cs, ev, he, _, _, hcb, _, _⟩ | ⟨c0, c', cs, ev, he, _, hcb⟩
          · rw [hent] at he
            have := congrArg List.length he
            simp at this
          · rw [hent] at he
            simp only [List.cons.injEq, and_true] at he
            exact ⟨cs, ev, he ▸ hcb⟩
          · rw [hent] at he
            simp only [List.cons.injEq, and_true] at he
            exact ⟨cs, ev, he ▸ hcb⟩
        obtain ⟨cs, ev, hcb⟩ := hpend
        obtain ⟨_, _, d⟩ := hcalls _ _ hcb
        cases c with
        | user hh o n sr cu =>
          cases b with
          | unregProcessed h' =>
            simp only [RU]
            intro e; subst e
            exact d hh o n sr cu (List.mem_cons_self ..) hb
          | _ => trivial
        | _ => trivial
    · rw [hlog]
      have : ext ++ Obs.unregProcessed h :: s.log = (ext ++ [Obs.unregProcessed h]) ++ s.log := by simp
      rw [this]
      refine pairwise_RU_ext ?_ hi.pw
      intro o ho c'
      rcases List.mem_append.1 ho with ho | ho
      · rcases hext with rfl | rfl <;> simp at ho
        subst ho; simp
      · simp only [List.mem_singleton] at ho; subst ho; simp

theorem invG_step {fut : List Label} {s s' : State} {l : Label} (h1 : Inv1 s) (hu : InvU fut s) (hi : InvG s)
    (hown : ∀ c h ctx, l = .begin c (.unregister h) ctx → ∃ c', Obs.ret c' (.regOk h) ∈ s.log)
    (hs : AStep s l s') : InvG s' := by
  obtain ⟨hcalls, hpw⟩ := invG_calls hu hi hs
  have hmono : ∀ h, regProc h s.log = true → regProc h s'.log = true := fun h => regProc_mono hs.log_ext
  have hre : ∀ h, RegEnq h s → RegEnq h s' := fun h x => regEnq_step x hs
  have hgotreg : ∀ h ser cfg, s.cb = .got (.reg h ser cfg) → Obs.unregProcessed h ∉ s.log := by
    intro h ser cfg hg hm
    have := regTotal_got hu hg
    rw [hi.gc h hm] at this; cases this
  -- assembling the result from the per-case facts
  have mk : (∀ c h, Obs.ret c (.regOk h) ∈ s'.log → Obs.ret c (.regOk h) ∈ s.log ∨ RegEnq h s') →
      (∀ h c t, CbEv.unreg h c t ∈ held s'.clients → CbEv.unreg h c t ∈ held s.clients ∨ RegEnq h s') →
      UQ s'.log s'.cb s'.cbch →
      (∀ h c t, s'.cb = .got (.unreg h c t) → regProc h s'.log = true) →
      (∀ h, Obs.unregProcessed h ∈ s'.log → Obs.unregProcessed h ∈ s.log ∨ regProc h s'.log = true) →
      (∀ h m, (h, m) ∈ s'.handles → Obs.unregProcessed h ∉ s'.log) → InvG s' := by
    intro a b c d e f
    refine ⟨?_, ?_, c, d, ?_, f, hcalls, hpw⟩
    · intro c' h hm
      rcases a c' h hm with x | x
      · exact hre h (hi.g0 c' h x)
      · exact x
    · intro h c' t hm
      rcases b h c' t hm with x | x
      · exact hre h (hi.cl h c' t x)
      · exact x
    · intro h hm
      rcases e h hm with x | x
      · exact hmono h (hi.gc h x)
      · exact x
  have cle : ∀ cs', CLe s.clients cs' → s'.clients = cs' →
      ∀ h c t, CbEv.unreg h c t ∈ held s'.clients → CbEv.unreg h c t ∈ held s.clients ∨ RegEnq h s' :=
    fun cs' hle he h c t hm => .inl (hle.mem (he ▸ hm))
  have gdsame : s'.handles = s.handles → (∀ h, Obs.unregProcessed h ∈ s'.log → Obs.unregProcessed h ∈ s.log) →
      ∀ h m, (h, m) ∈ s'.handles → Obs.unregProcessed h ∉ s'.log :=
    fun hh hl h m hm hx => hi.gd h m (hh ▸ hm) (hl h hx)
  have uqsame : s'.cbch = s.cbch → (∀ h ser cfg, s.cb = .got (.reg h ser cfg) →
      s'.cb = .got (.reg h ser cfg) ∨ regProc h s'.log = true) → UQ s'.log s'.cb s'.cbch :=
    fun hq hc => hq ▸ hi.q.mono hmono hc
  cases hs with
  | boring hl hb =>
    have hcbsame : ∀ ev, s.cb = .got ev → s'.cb = .got ev := by
      intro ev he
      rcases hb.cb with e | ⟨e, _, _⟩
      · rw [e]; exact he
      · rw [he] at e; simp [cbBusy] at e
    have hcbsame' : ∀ ev, s'.cb = .got ev → s.cb = .got ev := by
      intro ev he
      rcases hb.cb with e | ⟨_, e, _⟩
      · rw [← e]; exact he
      · rw [he] at e; simp [cbBusy] at e
    refine mk (fun c h hm => .inl ((hb.log.mem_iff rfl).1 hm)) (cle _ hb.clients rfl)
      (uqsame hb.cbch (fun h ser cfg hg => .inl (hcbsame _ hg)))
      (fun h c t hg => hmono h (hi.got h c t (hcbsame' _ hg)))
      (fun h hm => .inl ((hb.log.mem_iff rfl).1 hm))
      (gdsame hb.handles (fun h hm => (hb.log.mem_iff rfl).1 hm))
  | @«begin» c op ctx hc =>
    refine mk (fun c h hm => .inl hm) ?_ (uqsame rfl (fun h ser cfg hg => .inl hg)) hi.got (fun h hm => .inl hm)
      (gdsame rfl (fun h hm => hm))
    intro h c' t hm
    rcases mem_held_setC hm with hm | hm
    · exact .inl hm
    · right
      cases op <;> simp [evOf] at hm
      obtain ⟨rfl, rfl, rfl⟩ := hm
      obtain ⟨c'', hret⟩ := hown _ _ _ rfl
      exact hre _ (hi.g0 c'' _ hret)
  | store hl hm =>
    exact mk (fun c h hm => .inl (by simpa using hm)) (cle _ (.refl _) rfl)
      (uqsame rfl (fun h ser cfg hg => .inl hg)) (fun h c t hg => hmono h (hi.got h c t hg))
      (fun h hm => .inl (by simpa using hm)) (gdsame rfl (fun h hm => by simpa using hm))
  | submitDrop ev hl hcore hm hc hlog =>
    obtain ⟨extra, hlog, hex⟩ := hlog
    have hmem : ∀ o, boringObs o = false → (∀ e, o ≠ .dropped e) → o ∈ s'.log → o ∈ s.log := by
      intro o hb hne hm
      rw [hlog] at hm
      simp only [List.mem_append, List.mem_cons] at hm
      rcases hm with hm | hm | hm
      · have := hex o hm; rw [hb] at this; cases this
      · exact absurd hm (hne ev)
      · exact hm
    exact mk (fun c h hm => .inl (hmem _ rfl (by simp) hm)) (cle _ (.refl _) hc)
      (uqsame hcore.cbch (fun h ser cfg hg => .inl (hcore.cb.trans hg)))
      (fun h c t hg => hmono h (hi.got h c t (hcore.cb ▸ hg)))
      (fun h hm => .inl (hmem _ rfl (by simp) hm)) (gdsame hcore.handles (fun h hm => hmem _ rfl (by simp) hm))
  | submitEnq ev skip hl hev hview hcb hq hh hls hlv hm hc hlog =>
    obtain ⟨extra, hlog, hex⟩ := hlog
    have hmem : ∀ o, boringObs o = false → (∀ e k, o ≠ .queued e k) → o ∈ s'.log → o ∈ s.log := by
      intro o hb hne hm
      rw [hlog] at hm
      simp only [List.mem_append, List.mem_cons] at hm
      rcases hm with hm | hm | hm
      · have := hex o hm; rw [hb] at this; cases this
      · exact absurd hm (hne ev skip)
      · exact hm
    obtain ⟨e1, e2⟩ := hi.q.enqueue (ev := ev) h1.sel
      (by intro h c t e; subst e; exact absurd hev (by simp [SubmitOK]))
    refine mk (fun c h hm => .inl (hmem _ rfl (by simp) hm)) (cle _ (.refl _) hc)
      (by rw [hcb, hq]; exact e1.mono hmono (fun h ser cfg hg => .inl hg)) ?_
      (fun h hm => .inl (hmem _ rfl (by simp) hm)) (gdsame hh (fun h hm => hmem _ rfl (by simp) hm))
    intro h c t hg
    rcases e2 h c t (hcb ▸ hg) with x | x
    · exact hmono h (hi.got h c t x)
    · exact hmono h x
  | enq c ev op ctx st' hl hc hev hview hcb hq hh hls hlv hm hcl hst' hlog =>
    have hheld : ev ∈ held s.clients := getC_held (by rw [hc]; exact hev)
    have hru := h1.ru ev hheld
    obtain ⟨e1, e2⟩ := hi.q.enqueue (ev := ev) h1.sel
      (by intro h c' t e; subst e; exact hi.cl h c' t hheld)
    refine mk ?_ (cle _ (CLe.setC_none _ hst') hcl)
      (by rw [hcb, hq]; exact e1.mono hmono (fun h ser cfg hg => .inl hg)) ?_
      (fun h hm => .inl ((hlog.mem_iff rfl (by simp)).1 hm))
      (gdsame hh (fun h hm => (hlog.mem_iff rfl (by simp)).1 hm))
    · intro c' h hm
      cases ev with
      | reg h' ser cfg =>
        simp only [HandLog] at hlog
        rw [hlog] at hm
        rcases List.mem_cons.1 hm with hm | hm
        · simp only [Obs.ret.injEq, Res.regOk.injEq] at hm
          obtain ⟨_, rfl⟩ := hm
          right
          rcases enqueueCb_mem s (.reg h ser cfg) with x | x
          · exact .inr (.inr ⟨ser, cfg, hq ▸ x⟩)
          · exact .inr (.inl ⟨ser, cfg, hcb ▸ x⟩)
        · exact .inl hm
      | unreg h' c'' t =>
        simp only [HandLog] at hlog
        exact .inl ((hlog.mem_iff rfl).1 hm)
      | newCfg _ _ _ => simp [isRU] at hru
      | watchErr _ _ _ => simp [isRU] at hru
    · intro h c' t hg
      rcases e2 h c' t (hcb ▸ hg) with x | x
      · exact hmono h (hi.got h c' t x)
      · exact hmono h x
  | deq ev rest hl hcb0 hq0 hview hcb hh hls hlv hm hadm =>
    have hqq := hi.q
    rw [hcb0, hq0] at hqq
    obtain ⟨d1, d2⟩ := hqq.deq
    rcases hadm with ⟨a1, a2, a3⟩ | ⟨c, ev', ctx, st', hmem, a1, a2, a3, a4⟩
    · refine mk (fun c h hm => .inl (a3 ▸ hm)) (cle _ (.refl _) a2)
        (by rw [hcb, a1, a3]; exact d1) ?_ (fun h hm => .inl (a3 ▸ hm)) (gdsame hh (fun h hm => a3 ▸ hm))
      intro h c t hg
      rw [hcb] at hg
      simp only [CbPc.got.injEq] at hg
      rw [a3]; exact d2 h c t hg
    · have hheld : ev' ∈ held s.clients := mem_held.2 ⟨_, hmem, rfl⟩
      have hru := h1.ru ev' hheld
      refine mk ?_ (cle _ (CLe.setC_none _ a3) a2) ?_ ?_
        (fun h hm => .inl ((a4.mem_iff rfl (by simp)).1 hm))
        (gdsame hh (fun h hm => (a4.mem_iff rfl (by simp)).1 hm))
      · intro c' h hm
        cases ev' with
        | reg h' ser cfg =>
          simp only [HandLog] at a4
          rw [a4] at hm
          rcases List.mem_cons.1 hm with hm | hm
          · simp only [Obs.ret.injEq, Res.regOk.injEq] at hm
            obtain ⟨_, rfl⟩ := hm
            exact .inr (.inr (.inr ⟨ser, cfg, by rw [a1]; simp⟩))
          · exact .inl hm
        | unreg h' c'' t =>
          simp only [HandLog] at a4
          exact .inl ((a4.mem_iff rfl).1 hm)
        | newCfg _ _ _ => simp [isRU] at hru
        | watchErr _ _ _ => simp [isRU] at hru
      · rw [hcb, a1]
        refine (d1.snoc ?_).mono hmono (fun h ser cfg hg => .inl hg)
        intro h c' t e
        subst e
        rcases hi.cl h c' t hheld with x | ⟨ser, cfg, x⟩ | ⟨ser, cfg, x⟩
        · exact .inl x
        · rw [hcb0] at x; cases x
        · rw [hq0] at x
          rcases List.mem_cons.1 x with x | x
          · exact .inr (.inl ⟨ser, cfg, by rw [x]⟩)
          · exact .inr (.inr ⟨ser, cfg, x⟩)
      · intro h c' t hg
        rw [hcb] at hg
        simp only [CbPc.got.injEq] at hg
        exact hmono h (d2 h c' t hg)
  | gotNew old new supp hl hcb0 hview hq hh hls hlv hm hc hres =>
    obtain ⟨extra, hex, hres⟩ := hres
    have hmem : ∀ o, boringObs o = false → (∀ c, o ≠ .enter c) → o ∈ s'.log → o ∈ s.log := by
      intro o hb hne hm
      split at hres
      · rw [hres.2] at hm
        rcases List.mem_append.1 hm with hm | hm
        · have := hex o hm; rw [hb] at this; cases this
        · exact hm
      · rw [hres.2] at hm
        rcases List.mem_cons.1 hm with hm | hm
        · exact absurd hm (hne _)
        · rcases List.mem_append.1 hm with hm | hm
          · have := hex o hm; rw [hb] at this; cases this
          · exact hm
    refine mk (fun c h hm => .inl (hmem _ rfl (by simp) hm)) (cle _ (.refl _) hc)
      (uqsame hq (fun h ser cfg hg => by rw [hcb0] at hg; cases hg)) ?_
      (fun h hm => .inl (hmem _ rfl (by simp) hm)) (gdsame hh (fun h hm => hmem _ rfl (by simp) hm))
    intro h c t hg
    split at hres <;> (rw [hres.1] at hg; cases hg)
  | gotErr k old new hl hcb0 =>
    exact mk (fun c h hm => .inl (by simpa using hm)) (cle _ (.refl _) rfl)
      (uqsame rfl (fun h ser cfg hg => by rw [hcb0] at hg; cases hg)) (by simp)
      (fun h hm => .inl (by simpa using hm)) (gdsame rfl (fun h hm => by simpa using hm))
  | gotReg h' ser' cfg' hl hcb0 hview hq hls hlv hm hc hres =>
    have hmem : ∀ o, (∀ c, o ≠ .enter c) → (∀ a b c, o ≠ .regProcessed a b c) → o ∈ s'.log → o ∈ s.log := by
      intro o hne hne' hm
      split at hres
      · rw [hres.2.2] at hm
        rcases List.mem_cons.1 hm with hm | hm
        · exact absurd hm (hne' _ _ _)
        · exact hm
      · rw [hres.2.2] at hm
        rcases List.mem_cons.1 hm with hm | hm
        · exact absurd hm (hne _)
        · rcases List.mem_cons.1 hm with hm | hm
          · exact absurd hm (hne' _ _ _)
          · exact hm
    have hproc : regProc h' s'.log = true := by
      split at hres <;> (rw [hres.2.2]; simp [regProc_cons])
    refine mk (fun c h hm => .inl (hmem _ (by simp) (by simp) hm)) (cle _ (.refl _) hc)
      (uqsame hq ?_) ?_ (fun h hm => .inl (hmem _ (by simp) (by simp) hm)) ?_
    · intro h ser cfg hg
      rw [hcb0] at hg
      simp only [CbPc.got.injEq, CbEv.reg.injEq] at hg
      obtain ⟨rfl, _, _⟩ := hg
      exact .inr hproc
    · intro h c t hg
      split at hres <;> (rw [hres.1] at hg; cases hg)
    · intro h m hmm hx
      have hx' := hmem _ (by simp) (by simp) hx
      split at hres
      · rw [hres.2.1] at hmm
        rcases List.mem_append.1 hmm with hmm | hmm
        · exact hi.gd h m hmm hx'
        · simp only [List.mem_singleton, Prod.mk.injEq] at hmm
          obtain ⟨rfl, rfl⟩ := hmm
          exact hgotreg _ _ _ hcb0 hx'
      · rw [hres.2.1] at hmm
        exact hi.gd h m hmm hx'
  | unreg h' c tok hl hcb0 hview hcb hq hh hls hlv hm hcl hlog =>
    have hproc : regProc h' s.log = true := by
      rcases hcb0 with e | ⟨c0, e⟩
      · exact hi.got h' c tok e
      · exact absurd rfl ((hi.calls _ _ e).1 h' c tok)
    have hmem : ∀ o, (∀ x, o ≠ .unregProcessed x) → (∀ x, o ≠ .ret x .unregTrue) → o ∈ s'.log → o ∈ s.log := by
      intro o hne hne' hm
      rcases hlog with e | e
      · rw [e] at hm
        rcases List.mem_cons.1 hm with hm | hm
        · exact absurd hm (hne _)
        · exact hm
      · rw [e] at hm
        rcases List.mem_cons.1 hm with hm | hm
        · exact absurd hm (hne' _)
        · rcases List.mem_cons.1 hm with hm | hm
          · exact absurd hm (hne _)
          · exact hm
    have hunp : ∀ h, Obs.unregProcessed h ∈ s'.log → h = h' ∨ Obs.unregProcessed h ∈ s.log := by
      intro h hx
      rcases hlog with e | e <;> (rw [e] at hx; simp at hx; exact hx)
    refine mk (fun c h hm => .inl (hmem _ (by simp) (by simp) hm)) (cle _ hcl rfl)
      (uqsame hq ?_) (by rw [hcb]; simp) ?_ ?_
    · intro h ser cfg hg
      rcases hcb0 with e | ⟨c0, e⟩ <;> (rw [hg] at e; cases e)
    · intro h hx
      rcases hunp h hx with rfl | hx
      · exact .inr (hmono _ hproc)
      · exact .inl hx
    · intro h m hmm hx
      rw [hh] at hmm
      obtain ⟨hm1, hm2⟩ := List.mem_filter.1 hmm
      rcases hunp h hx with rfl | hx
      · simp at hm2
      · exact hi.gd h m hm1 hx
  | next c0 c cs ev hl hcb0 =>
    exact mk (fun c h hm => .inl (by simpa using hm)) (cle _ (.refl _) rfl)
      (uqsame rfl (fun h ser cfg hg => by rw [hcb0] at hg; cases hg)) (by simp)
      (fun h hm => .inl (by simpa using hm)) (gdsame rfl (fun h hm => by simpa using hm))
  | finishPlain c0 ev hl hcb0 hev =>
    exact mk (fun c h hm => .inl hm) (cle _ (.refl _) rfl)
      (uqsame rfl (fun h ser cfg hg => by rw [hcb0] at hg; cases hg)) (by simp)
      (fun h hm => .inl hm) (gdsame rfl (fun h hm => hm))
  | finishReg c0 h' ser' cfg' hl hcb0 =>
    refine mk (fun c h hm => .inl hm) (cle _ (.refl _) rfl)
      (uqsame rfl (fun h ser cfg hg => by rw [hcb0] at hg; cases hg)) (by simp)
      (fun h hm => .inl hm) ?_
    intro h m hmm hx
    rcases List.mem_append.1 hmm with hmm | hmm
    · exact hi.gd h m hmm hx
    · simp only [List.mem_singleton, Prod.mk.injEq] at hmm
      obtain ⟨rfl, rfl⟩ := hmm
      exact (hi.calls _ _ hcb0).2.1 _ _ _ rfl hx

structure InvUnreg (fut : List Label) (s : State) : Prop where
  u : InvU fut s
  g : InvG s

theorem invUnreg {W : World} {P : Params} {sl : Slots} {w : List Bool} {s : State} {ls : List Label}
    (hrun : run W (initState P sl w) ls = some s) (hu : RegsUnique ls) (ho : UnregOwned W P sl w ls) :
    InvUnreg [] s := by
  refine run_astep_induct ls (fun _ fut s => InvUnreg fut s) ⟨invU_init P sl w hu, invG_init P sl w⟩ ?_ hrun
  intro past l fut s s' hls hr hp hi hs
  refine ⟨invU_step (inv1 hr) hi.u hs, invG_step (inv1 hr) hi.u hi.g ?_ hs⟩
  intro c h ctx hl
  subst hl
  obtain ⟨s1, c', h1, h2⟩ := ho past fut c h ctx hls
  rw [hp] at h1
  simp only [Option.some.injEq] at h1
  subst h1
  exact ⟨c', h2⟩

end Dials.Runtime
