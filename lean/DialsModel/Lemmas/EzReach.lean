/-
The runtime state in which ez returns is a reachable state of the runtime model started by
`Params.Config` with ez's parameters and sources (so that the theorems of C04–C09 apply to it).
-/
import DialsModel.Lemmas.EzExec

namespace Dials.Ez
open Dials Dials.Runtime

def Next.run : Next → Run
  | .cont r => r
  | .exit _ r => r

theorem RunReach.of_eq {E : Env} {r r' : Run} (h : RunReach E r) (hst : r'.st = r.st) (hs : r'.started = r.started) :
    RunReach E r' := by
  intro h'
  rw [hst]
  exact h (hs ▸ h')

theorem RunReach.execTok {E : Env} {sch : Sched} {r : Run} {chk : Bool} {t : Facts.EzTok} (h : RunReach E r) :
    RunReach E (execTok E sch r chk t).run := by
  cases t <;> simp only [Ez.execTok]
  case config =>
    split
    · simp only [Next.run]
      have h0 : RunReach E { st := initState ezParams (slots₀ E) watching₀, started := true } := fun _ => ⟨[], rfl⟩
      split <;> split <;> first | exact (h0.attempt _).attempt _ | exact h0.attempt _ | exact h0
    · split <;> exact h
  case deferDone =>
    split
    · exact h.of_eq rfl rfl
    · exact h
  case view =>
    split
    · exact h
    · split
      · rename_i heq
        exact (h.call heq).of_eq rfl rfl
      · exact h
  case configPath =>
    split
    · exact h.of_eq rfl rfl
    · exact h
  case decoder =>
    split
    · split <;> exact h
    · exact h
  case fileSource => exact h
  case setSource =>
    split
    · exact h
    · split
      · exact h
      · split
        · split <;> exact h
        · split
          · rename_i heq; exact h.call heq
          · rename_i heq; split <;> exact h.call heq
          · exact h
  case enable =>
    split
    · exact h
    · split
      · rename_i heq; exact (h.attempts _).call heq
      · rename_i heq; split <;> exact (h.attempts _).call heq
      · exact h
  case drain =>
    split
    · exact h
    · split
      · rename_i heq; exact (h.attempts _).call heq
      · exact h

theorem RunReach.cfgStep {E : Env} {sch : Sched} {c : Cfg} (h : RunReach E c.r) : RunReach E (c.step E sch).r := by
  unfold Cfg.step
  split
  · exact h
  · split
    · exact h
    · rename_i t ts _
      have ht := h.execTok (sch := sch) (chk := c.chk.contains t) (t := t)
      unfold Cfg.next
      split
      · rename_i heq; rw [heq] at ht; exact ht
      · rename_i heq; rw [heq] at ht
        split <;> exact ht

theorem RunReach.cfgRun {E : Env} {sch : Sched} (n : Nat) {c : Cfg} (h : RunReach E c.r) :
    RunReach E (Cfg.run E sch n c).r := by
  induction n generalizing c with
  | zero => exact h
  | succ n ih => exact ih h.cfgStep

theorem RunReach.finish {E : Env} {r : Run} (h : RunReach E r) : RunReach E (finish E r) := by
  unfold Ez.finish
  split
  · cases hc : Ez.call E.W r (.done fileSlot) with
    | none => simpa using h
    | some p =>
      obtain ⟨r', res⟩ := p
      simpa using h.call hc
  · exact h

theorem Run.step_started {W : World} {r r' : Run} {l : Label} (h : r.step W l = some r') : r'.started = r.started := by
  unfold Run.step Run.withSt at h
  cases hst : Runtime.step W r.st l with
  | none => simp [hst] at h
  | some s' =>
    simp only [hst, Option.map_some, Option.some.injEq] at h
    subst h
    rfl

theorem monUntilRet_started {W : World} {n : Nat} {r r' : Run} (h : monUntilRet W n r = some r') :
    r'.started = r.started := by
  induction n generalizing r with
  | zero => simp [monUntilRet] at h
  | succ n ih =>
    unfold monUntilRet at h
    split at h
    · cases h; rfl
    · cases hst : r.step W (.runMon 0) with
      | none => simp [hst] at h
      | some r1 => rw [ih (by simpa [hst] using h), Run.step_started hst]

theorem call_started {W : World} {r r' : Run} {op : Op} {res : Res} (hs : call W r op = some (r', res)) :
    r'.started = r.started := by
  unfold call at hs
  cases h1 : r.step W (.begin 0 op 0) with
  | none => simp [h1] at hs
  | some r1 =>
    cases h2 : r1.step W (.runClient 0 0) with
    | none => simp [h1, h2, Run.stepL] at hs
    | some r2 =>
      cases h3 : monUntilRet W 8 r2 with
      | none => simp [h1, h2, h3, Run.stepL] at hs
      | some r3 =>
        simp only [h1, h2, h3, Option.bind_some, Run.stepL, callFinish] at hs
        split at hs
        · cases h4 : r3.step W (.ack 0) with
          | none => simp [h4] at hs
          | some r4 =>
            simp only [h4, Option.map_some, Option.some.injEq, Prod.mk.injEq] at hs
            obtain ⟨rfl, -⟩ := hs
            rw [Run.step_started h4, monUntilRet_started h3, Run.step_started h2, Run.step_started h1]
        · cases hs

theorem finish_started (E : Env) (r : Run) : (finish E r).started = r.started := by
  unfold finish
  split
  · cases hc : call E.W r (.done fileSlot) with
    | none => simp
    | some p =>
      obtain ⟨r', res⟩ := p
      simpa using call_started hc
  · rfl

/-- the state in which ez returns is reachable from Config's initial state -/
theorem ezRun_reachable (E : Env) (sch : Sched) (s : State) (h : (ezRun E sch).st = some s) :
    Reachable E.W ezParams (slots₀ E) watching₀ s := by
  have h0 : RunReach E (Cfg.mk { st := initState ezParams [] [] } Facts.ezMainOps Facts.ezChecked none).r :=
    fun hs => by cases hs
  have h1 := (RunReach.cfgRun (sch := sch) fuel h0).finish
  unfold ezRun Out.of at h
  split at h
  · cases h
  · split at h
    · rename_i hst
      simp only [Option.some.injEq] at h
      subst h
      exact h1 (by rw [finish_started]; exact hst)
    · cases h

end Dials.Ez
