/-
Helper lemmas for C08 (progress / shutdown of the runtime model): projection lemmas for the small
state-update helpers, the client table (`getC`/`setC`), the callback-goroutine invariant and the
drain argument for the callback queue.
-/
import DialsModel.Model.RuntimeSpec

namespace Dials.Runtime

/-! ### client table -/

theorem getC_cons (d : Nat) (x : CSt) (rest : List (Nat × CSt)) (c : Nat) :
    getC ((d, x) :: rest) c = if d == c then x else getC rest c := by
  simp only [getC, List.find?_cons]
  cases d == c <;> rfl

theorem getC_nil (c : Nat) : getC [] c = .idle := rfl

theorem getC_setC_self (cs : List (Nat × CSt)) (c : Nat) (st : CSt) : getC (setC cs c st) c = st := by
  induction cs with
  | nil => simp [setC, getC_cons]
  | cons p rest ih =>
    obtain ⟨d, x⟩ := p
    simp only [setC]
    split
    · next h => simp [getC_cons, h]
    · next h => simp [getC_cons, h, ih]

theorem mem_setC {cs : List (Nat × CSt)} {c : Nat} {st : CSt} {p : Nat × CSt}
    (h : p ∈ setC cs c st) : p ∈ cs ∨ p = (c, st) := by
  induction cs with
  | nil => simp [setC] at h; exact Or.inr h
  | cons q rest ih =>
    obtain ⟨d, x⟩ := q
    simp only [setC] at h
    split at h
    · next hd =>
      have hd' : d = c := by simpa using hd
      rcases List.mem_cons.mp h with h | h
      · right; rw [h, hd']
      · left; exact List.mem_cons_of_mem _ h
    · rcases List.mem_cons.mp h with h | h
      · left; rw [h]; exact List.mem_cons_self
      · rcases ih h with h | h
        · left; exact List.mem_cons_of_mem _ h
        · right; exact h

/-- a key-preserving map over the client table acts pointwise on a non-idle entry -/
theorem getC_map_of_ne_idle (f : Nat × CSt → Nat × CSt) (hf : ∀ p, (f p).1 = p.1)
    (cs : List (Nat × CSt)) (c : Nat) (h : getC cs c ≠ .idle) :
    getC (cs.map f) c = (f (c, getC cs c)).2 := by
  induction cs with
  | nil => exact absurd rfl h
  | cons p rest ih =>
    obtain ⟨d, x⟩ := p
    have e : f (d, x) = (d, (f (d, x)).2) := by
      have := hf (d, x)
      exact Prod.ext this rfl
    rw [List.map_cons, e, getC_cons, getC_cons]
    rw [getC_cons] at h
    split
    · next hd =>
      have hd' : d = c := by simpa using hd
      subst hd'; rfl
    · next hd =>
      simp only [hd] at h
      exact ih h

/-! ### projection lemmas -/

section proj
variable (s : State) (c : Nat) (r : Res) (o : Obs) (st : CSt) (ctx : Nat)

@[simp] theorem ret_cb : (s.ret c r).cb = s.cb := rfl
@[simp] theorem ret_mon : (s.ret c r).mon = s.mon := rfl
@[simp] theorem ret_cbch : (s.ret c r).cbch = s.cbch := rfl
@[simp] theorem ret_handles : (s.ret c r).handles = s.handles := rfl
@[simp] theorem ret_monDone : (s.ret c r).monDone = s.monDone := rfl
@[simp] theorem ret_view : (s.ret c r).view = s.view := rfl
@[simp] theorem ret_slots : (s.ret c r).slots = s.slots := rfl
@[simp] theorem ret_skipVerify : (s.ret c r).skipVerify = s.skipVerify := rfl
@[simp] theorem ret_monCtl : (s.ret c r).monCtl = s.monCtl := rfl
@[simp] theorem ret_cancelled : (s.ret c r).cancelled = s.cancelled := rfl
@[simp] theorem ret_clients : (s.ret c r).clients = setC s.clients c (.returned r) := rfl

@[simp] theorem logAdd_cb : (s.logAdd o).cb = s.cb := rfl
@[simp] theorem logAdd_mon : (s.logAdd o).mon = s.mon := rfl
@[simp] theorem logAdd_cbch : (s.logAdd o).cbch = s.cbch := rfl
@[simp] theorem logAdd_handles : (s.logAdd o).handles = s.handles := rfl
@[simp] theorem logAdd_monDone : (s.logAdd o).monDone = s.monDone := rfl
@[simp] theorem logAdd_view : (s.logAdd o).view = s.view := rfl
@[simp] theorem logAdd_slots : (s.logAdd o).slots = s.slots := rfl
@[simp] theorem logAdd_skipVerify : (s.logAdd o).skipVerify = s.skipVerify := rfl
@[simp] theorem logAdd_monCtl : (s.logAdd o).monCtl = s.monCtl := rfl
@[simp] theorem logAdd_cancelled : (s.logAdd o).cancelled = s.cancelled := rfl
@[simp] theorem logAdd_clients : (s.logAdd o).clients = s.clients := rfl

@[simp] theorem setClient_cb : (s.setClient c st).cb = s.cb := rfl
@[simp] theorem setClient_mon : (s.setClient c st).mon = s.mon := rfl
@[simp] theorem setClient_cbch : (s.setClient c st).cbch = s.cbch := rfl
@[simp] theorem setClient_handles : (s.setClient c st).handles = s.handles := rfl
@[simp] theorem setClient_monDone : (s.setClient c st).monDone = s.monDone := rfl
@[simp] theorem setClient_view : (s.setClient c st).view = s.view := rfl
@[simp] theorem setClient_slots : (s.setClient c st).slots = s.slots := rfl
@[simp] theorem setClient_skipVerify : (s.setClient c st).skipVerify = s.skipVerify := rfl
@[simp] theorem setClient_monCtl : (s.setClient c st).monCtl = s.monCtl := rfl
@[simp] theorem setClient_cancelled : (s.setClient c st).cancelled = s.cancelled := rfl
@[simp] theorem setClient_clients : (s.setClient c st).clients = setC s.clients c st := rfl

@[simp] theorem blockClient_cb : (s.blockClient c st).cb = s.cb := rfl
@[simp] theorem blockClient_mon : (s.blockClient c st).mon = s.mon := rfl
@[simp] theorem blockClient_cbch : (s.blockClient c st).cbch = s.cbch := rfl
@[simp] theorem blockClient_handles : (s.blockClient c st).handles = s.handles := rfl
@[simp] theorem blockClient_monDone : (s.blockClient c st).monDone = s.monDone := rfl

@[simp] theorem isCancelled_ret : (s.ret c r).isCancelled ctx = s.isCancelled ctx := rfl
@[simp] theorem isCancelled_logAdd : (s.logAdd o).isCancelled ctx = s.isCancelled ctx := rfl
@[simp] theorem isCancelled_setClient : (s.setClient c st).isCancelled ctx = s.isCancelled ctx := rfl

theorem waitOr_cases (fail : Res) :
    s.waitOr c ctx st fail = s.ret c fail ∨ s.waitOr c ctx st fail = s.setClient c st := by
  unfold State.waitOr; split
  · exact Or.inl rfl
  · exact Or.inr rfl

@[simp] theorem waitOr_cb (fail : Res) : (s.waitOr c ctx st fail).cb = s.cb := by
  rcases waitOr_cases s c st ctx fail with h | h <;> rw [h] <;> rfl
@[simp] theorem waitOr_mon (fail : Res) : (s.waitOr c ctx st fail).mon = s.mon := by
  rcases waitOr_cases s c st ctx fail with h | h <;> rw [h] <;> rfl
@[simp] theorem waitOr_cbch (fail : Res) : (s.waitOr c ctx st fail).cbch = s.cbch := by
  rcases waitOr_cases s c st ctx fail with h | h <;> rw [h] <;> rfl
@[simp] theorem waitOr_handles (fail : Res) : (s.waitOr c ctx st fail).handles = s.handles := by
  rcases waitOr_cases s c st ctx fail with h | h <;> rw [h] <;> rfl
@[simp] theorem waitOr_monDone (fail : Res) : (s.waitOr c ctx st fail).monDone = s.monDone := by
  rcases waitOr_cases s c st ctx fail with h | h <;> rw [h] <;> rfl
@[simp] theorem waitOr_view (fail : Res) : (s.waitOr c ctx st fail).view = s.view := by
  rcases waitOr_cases s c st ctx fail with h | h <;> rw [h] <;> rfl
@[simp] theorem waitOr_slots (fail : Res) : (s.waitOr c ctx st fail).slots = s.slots := by
  rcases waitOr_cases s c st ctx fail with h | h <;> rw [h] <;> rfl
@[simp] theorem waitOr_skipVerify (fail : Res) : (s.waitOr c ctx st fail).skipVerify = s.skipVerify := by
  rcases waitOr_cases s c st ctx fail with h | h <;> rw [h] <;> rfl
@[simp] theorem waitOr_monCtl (fail : Res) : (s.waitOr c ctx st fail).monCtl = s.monCtl := by
  rcases waitOr_cases s c st ctx fail with h | h <;> rw [h] <;> rfl
@[simp] theorem waitOr_cancelled (fail : Res) : (s.waitOr c ctx st fail).cancelled = s.cancelled := by
  rcases waitOr_cases s c st ctx fail with h | h <;> rw [h] <;> rfl

theorem replyTo_cases : replyTo s c r = s.logAdd (.replied c r) ∨
    replyTo s c r = (s.logAdd (.replied c r)).ret c r := by
  unfold replyTo; dsimp only; split
  · exact Or.inr rfl
  · exact Or.inl rfl

@[simp] theorem replyTo_cb : (replyTo s c r).cb = s.cb := by
  rcases replyTo_cases s c r with h | h <;> rw [h] <;> rfl
@[simp] theorem replyTo_cbch : (replyTo s c r).cbch = s.cbch := by
  rcases replyTo_cases s c r with h | h <;> rw [h] <;> rfl
@[simp] theorem replyTo_handles : (replyTo s c r).handles = s.handles := by
  rcases replyTo_cases s c r with h | h <;> rw [h] <;> rfl
@[simp] theorem replyTo_monDone : (replyTo s c r).monDone = s.monDone := by
  rcases replyTo_cases s c r with h | h <;> rw [h] <;> rfl
@[simp] theorem replyTo_monCtl : (replyTo s c r).monCtl = s.monCtl := by
  rcases replyTo_cases s c r with h | h <;> rw [h] <;> rfl
@[simp] theorem replyTo_cancelled : (replyTo s c r).cancelled = s.cancelled := by
  rcases replyTo_cases s c r with h | h <;> rw [h] <;> rfl

end proj

/-! ### cancelCtx -/

/-- the wake-up function of `cancelCtx` -/
def wake (ctx : Nat) : Nat × CSt → Nat × CSt := fun p =>
    match p.2 with
    | .sendW _ k => if k == ctx then (p.1, .returned .ctxErr) else p
    | .waitReply k => if k == ctx then (p.1, .returned .ctxErr) else p
    | .sendCb (.unreg _ _ _) k => if k == ctx then (p.1, .returned .unregFalse) else p
    | .sendCb _ k => if k == ctx then (p.1, .returned .regFail) else p
    | .waitDone k => if k == ctx then (p.1, .returned .unregFalse) else p
    | .sendCtl k => if k == ctx then (p.1, .returned .ctxErr) else p
    | .waitResp k => if k == ctx then (p.1, .returned .ctxErr) else p
    | _ => p

theorem wake_fst (ctx : Nat) (p : Nat × CSt) : (wake ctx p).1 = p.1 := by
  unfold wake
  split <;> (try split) <;> rfl

theorem cancelCtx_mon (s : State) (ctx : Nat) :
    (cancelCtx s ctx).mon = if (ctx == 0 && s.mon == .sel) = true then .exit else s.mon := by
  unfold cancelCtx; dsimp only; split <;> rfl

theorem cancelCtx_clients (s : State) (ctx : Nat) :
    (cancelCtx s ctx).clients = s.clients.map (wake ctx) := by
  unfold cancelCtx; dsimp only; split <;> rfl

theorem cancelCtx_cb (s : State) (ctx : Nat) : (cancelCtx s ctx).cb = s.cb := by
  unfold cancelCtx; dsimp only; split <;> rfl
theorem cancelCtx_monDone (s : State) (ctx : Nat) : (cancelCtx s ctx).monDone = s.monDone := by
  unfold cancelCtx; dsimp only; split <;> rfl
theorem cancelCtx_isCancelled (s : State) (ctx : Nat) : (cancelCtx s ctx).isCancelled ctx = true := by
  unfold cancelCtx State.isCancelled; dsimp only
  split <;> dsimp only <;> split <;> simp_all

theorem runMon_exit (W : World) (t : State) (ch : Nat) (h : t.mon = .exit) :
    ∃ t', runMon W t ch = some t' ∧ t'.mon = .finished ∧ t'.monDone = true := by
  simp only [runMon, h]
  exact ⟨_, rfl, rfl, rfl⟩

/-! ### iterating one label -/

def iterStep (W : World) (l : Label) : Nat → State → Option State
  | 0, s => some s
  | n + 1, s => (step W s l).bind (iterStep W l n)

theorem iterStep_unique (W : World) (l : Label) (f : Nat → State → Option State)
    (h0 : ∀ s, f 0 s = some s) (hs : ∀ n s, f (n + 1) s = (step W s l).bind (f n)) :
    ∀ n s, f n s = iterStep W l n s := by
  intro n
  induction n with
  | zero => intro s; rw [h0]; rfl
  | succ n ih =>
    intro s
    have : f n = iterStep W l n := funext ih
    rw [hs, this]; rfl

theorem iterStep_succ {W : World} {l : Label} {s s1 s2 : State} {n : Nat}
    (h1 : step W s l = some s1) (h2 : iterStep W l n s1 = some s2) :
    iterStep W l (n + 1) s = some s2 := by
  simp only [iterStep, h1, Option.bind_some, h2]

theorem iterStep_add {W : World} {l : Label} {a b : Nat} {s s1 s2 : State}
    (h1 : iterStep W l a s = some s1) (h2 : iterStep W l b s1 = some s2) :
    iterStep W l (a + b) s = some s2 := by
  induction a generalizing s with
  | zero =>
    simp only [iterStep, Option.some.injEq] at h1
    subst h1; simpa using h2
  | succ a ih =>
    simp only [iterStep] at h1
    cases hst : step W s l with
    | none => simp [hst] at h1
    | some t =>
      simp only [hst, Option.bind_some] at h1
      have := ih h1
      have e : a + 1 + b = (a + b) + 1 := by omega
      rw [e]
      exact iterStep_succ hst this

/-! ### enqueueCb / trySubmit -/

section proj2
variable (s : State) (ev : CbEv) (ch : Nat)

theorem enqueueCb_cases :
    (s.cb = .sel ∧ enqueueCb s ev = { s with cb := .got ev }) ∨
    (s.cb ≠ .sel ∧ enqueueCb s ev = { s with cbch := s.cbch ++ [ev] }) := by
  unfold enqueueCb cbTake
  split
  · next h => exact Or.inl ⟨h, rfl⟩
  · next h => exact Or.inr ⟨h, rfl⟩

@[simp] theorem enqueueCb_mon : (enqueueCb s ev).mon = s.mon := by
  rcases enqueueCb_cases s ev with ⟨_, h⟩ | ⟨_, h⟩ <;> rw [h]
@[simp] theorem enqueueCb_clients : (enqueueCb s ev).clients = s.clients := by
  rcases enqueueCb_cases s ev with ⟨_, h⟩ | ⟨_, h⟩ <;> rw [h]
@[simp] theorem enqueueCb_cancelled : (enqueueCb s ev).cancelled = s.cancelled := by
  rcases enqueueCb_cases s ev with ⟨_, h⟩ | ⟨_, h⟩ <;> rw [h]
@[simp] theorem enqueueCb_monCtl : (enqueueCb s ev).monCtl = s.monCtl := by
  rcases enqueueCb_cases s ev with ⟨_, h⟩ | ⟨_, h⟩ <;> rw [h]
@[simp] theorem enqueueCb_monDone : (enqueueCb s ev).monDone = s.monDone := by
  rcases enqueueCb_cases s ev with ⟨_, h⟩ | ⟨_, h⟩ <;> rw [h]
@[simp] theorem enqueueCb_handles : (enqueueCb s ev).handles = s.handles := by
  rcases enqueueCb_cases s ev with ⟨_, h⟩ | ⟨_, h⟩ <;> rw [h]
theorem enqueueCb_cb : (enqueueCb s ev).cb = s.cb ∨ (s.cb = .sel ∧ (enqueueCb s ev).cb = .got ev) := by
  rcases enqueueCb_cases s ev with ⟨h1, h⟩ | ⟨_, h⟩ <;> rw [h]
  · exact Or.inr ⟨h1, rfl⟩
  · exact Or.inl rfl

theorem trySubmit_cases :
    trySubmit s ev ch = (enqueueCb s ev).logAdd (.queued ev s.skipVerify) ∨
    trySubmit s ev ch = s.logAdd (.dropped ev) := by
  unfold trySubmit; split
  · exact Or.inl rfl
  · exact Or.inr rfl

@[simp] theorem trySubmit_mon : (trySubmit s ev ch).mon = s.mon := by
  rcases trySubmit_cases s ev ch with h | h <;> rw [h] <;> simp
@[simp] theorem trySubmit_clients : (trySubmit s ev ch).clients = s.clients := by
  rcases trySubmit_cases s ev ch with h | h <;> rw [h] <;> simp
@[simp] theorem trySubmit_cancelled : (trySubmit s ev ch).cancelled = s.cancelled := by
  rcases trySubmit_cases s ev ch with h | h <;> rw [h] <;> simp
@[simp] theorem trySubmit_monCtl : (trySubmit s ev ch).monCtl = s.monCtl := by
  rcases trySubmit_cases s ev ch with h | h <;> rw [h] <;> simp
@[simp] theorem trySubmit_monDone : (trySubmit s ev ch).monDone = s.monDone := by
  rcases trySubmit_cases s ev ch with h | h <;> rw [h] <;> simp
@[simp] theorem trySubmit_handles : (trySubmit s ev ch).handles = s.handles := by
  rcases trySubmit_cases s ev ch with h | h <;> rw [h] <;> simp
theorem trySubmit_cb : (trySubmit s ev ch).cb = s.cb ∨ (s.cb = .sel ∧ (trySubmit s ev ch).cb = .got ev) := by
  rcases trySubmit_cases s ev ch with h | h <;> rw [h]
  · exact enqueueCb_cb s ev
  · exact Or.inl rfl

end proj2
/-! ### predicates over the client table -/

def AllC (Q : CSt → Prop) (cs : List (Nat × CSt)) : Prop := ∀ p ∈ cs, Q p.2

theorem AllC_setC {Q : CSt → Prop} {cs : List (Nat × CSt)} {c : Nat} {st : CSt}
    (h : AllC Q cs) (hst : Q st) : AllC Q (setC cs c st) := by
  intro p hp
  rcases mem_setC hp with hp | hp
  · exact h p hp
  · rw [hp]; exact hst

theorem AllC_map {Q : CSt → Prop} {cs : List (Nat × CSt)} {f : Nat × CSt → Nat × CSt}
    (h : AllC Q cs) (hf : ∀ p, Q p.2 → Q (f p).2) : AllC Q (cs.map f) := by
  intro p hp
  obtain ⟨q, hq, rfl⟩ := List.mem_map.mp hp
  exact hf q (h q hq)

def NotSendW (st : CSt) : Prop := ∀ m k, st ≠ .sendW m k

/-- the monitor's select has no ready input -/
def NoIn (s : State) : Prop :=
  s.cancelled.contains 0 = false ∧ s.monCtl = [] ∧ AllC NotSendW s.clients

theorem NoIn_of_readyIns {s : State} (h : readyIns s = []) : NoIn s := by
  unfold readyIns at h
  simp only [List.append_eq_nil_iff] at h
  obtain ⟨⟨h1, h2⟩, h3⟩ := h
  refine ⟨?_, ?_, ?_⟩
  · unfold State.isCancelled at h1
    cases hc : s.cancelled.contains 0 with
    | false => rfl
    | true => rw [hc] at h1; simp at h1
  · cases hm : s.monCtl with
    | nil => rfl
    | cons p rest => obtain ⟨c, tok⟩ := p; rw [hm] at h2; simp at h2
  · intro p hp m k hpk
    rw [List.filterMap_eq_nil_iff] at h3
    have := h3 p hp
    rw [hpk] at this
    simp at this

theorem readyIns_of_NoIn {s : State} (h : NoIn s) : readyIns s = [] := by
  obtain ⟨h1, h2, h3⟩ := h
  unfold readyIns State.isCancelled
  rw [h1, h2]
  simp only [Bool.false_eq_true, if_false, List.nil_append, List.filterMap_eq_nil_iff]
  intro p hp
  split
  · next m k hpk => exact absurd hpk (h3 p hp m k)
  · rfl

theorem NoIn_ret {s : State} (h : NoIn s) (c : Nat) (r : Res) : NoIn (s.ret c r) :=
  ⟨h.1, h.2.1, AllC_setC h.2.2 (fun _ _ e => CSt.noConfusion e)⟩

theorem NoIn_of_eq {s s' : State} (h : NoIn s) (h1 : s'.cancelled = s.cancelled) (h2 : s'.monCtl = s.monCtl)
    (h3 : s'.clients = s.clients ∨ ∃ c r, s'.clients = setC s.clients c (.returned r)) : NoIn s' := by
  unfold NoIn
  rw [h1, h2]
  refine ⟨h.1, h.2.1, ?_⟩
  rcases h3 with h3 | ⟨c, r, h3⟩ <;> rw [h3]
  · exact h.2.2
  · exact AllC_setC h.2.2 (fun _ _ e => CSt.noConfusion e)

theorem NoIn_replyTo {s : State} (h : NoIn s) (c : Nat) (r : Res) : NoIn (replyTo s c r) := by
  rcases replyTo_cases s c r with e | e <;> rw [e]
  · exact h
  · exact NoIn_ret (s := s.logAdd _) h c r

theorem NoIn_trySubmit {s : State} (h : NoIn s) (ev : CbEv) (ch : Nat) : NoIn (trySubmit s ev ch) := by
  unfold NoIn
  rw [trySubmit_cancelled, trySubmit_monCtl, trySubmit_clients]
  exact h

def monRank : MonPc → Nat
  | .sel => 0 | .finished => 0
  | .top => 1 | .exit => 1
  | .replyErr _ _ => 2 | .submitNew _ => 2 | .submitSrcErr _ => 2 | .gotDone _ => 2 | .enableReply _ _ _ _ => 2
  | .submitErr _ _ _ => 3 | .replyOk _ _ => 3 | .gotSrcErr _ => 3 | .verifyEnable _ _ => 3
  | .events _ _ => 4 | .gotEnable _ _ => 4
  | .store _ _ => 5
  | .verifyUpd _ _ => 6
  | .gotValue _ _ _ => 7

theorem monRank_le (pc : MonPc) : monRank pc ≤ 7 := by
  cases pc <;> simp [monRank]

theorem mon_step_rank (W : World) (s : State) (h : NoIn s) (hm : s.mon ≠ .sel ∧ s.mon ≠ .finished) :
    ∃ s', runMon W s 0 = some s' ∧ NoIn s' ∧ monRank s'.mon < monRank s.mon := by
  obtain ⟨hm1, hm2⟩ := hm
  cases hmon : s.mon with
  | sel => exact absurd hmon hm1
  | finished => exact absurd hmon hm2
  | top =>
    refine ⟨{ s with mon := .sel }, ?_, h, by simp [monRank]⟩
    simp only [runMon, hmon, readyIns_of_NoIn h]
  | gotValue src v reply =>
    simp only [runMon, hmon]
    split
    · exact ⟨_, rfl, h, by simp [monRank]⟩
    · split
      · exact ⟨_, rfl, h, by simp [monRank]⟩
      · exact ⟨_, rfl, h, by simp [monRank]⟩
  | verifyUpd sl reply =>
    simp only [runMon, hmon]
    split
    · exact ⟨_, rfl, h, by simp [monRank]⟩
    · exact ⟨_, rfl, h, by simp [monRank]⟩
  | submitErr k new reply =>
    simp only [runMon, hmon]
    split
    · exact ⟨_, rfl, NoIn_trySubmit h _ _, by simp [monRank]⟩
    · exact ⟨_, rfl, NoIn_trySubmit h _ _, by simp [monRank]⟩
  | replyErr k c =>
    simp only [runMon, hmon]
    exact ⟨_, rfl, NoIn_replyTo h _ _, by simp [monRank]⟩
  | store sl reply =>
    simp only [runMon, hmon]
    exact ⟨_, rfl, h, by simp [monRank]⟩
  | events old reply =>
    simp only [runMon, hmon]
    split <;> split <;> exact ⟨_, rfl, h, by simp [monRank]⟩
  | replyOk old c =>
    simp only [runMon, hmon]
    exact ⟨_, rfl, NoIn_replyTo h _ _, by simp [monRank]⟩
  | submitNew old =>
    simp only [runMon, hmon]
    exact ⟨_, rfl, NoIn_trySubmit h _ _, by simp [monRank]⟩
  | gotSrcErr e =>
    simp only [runMon, hmon]
    split <;> exact ⟨_, rfl, h, by simp [monRank]⟩
  | submitSrcErr e =>
    simp only [runMon, hmon]
    exact ⟨_, rfl, NoIn_trySubmit h _ _, by simp [monRank]⟩
  | gotDone src =>
    simp only [runMon, hmon]
    split <;> exact ⟨_, rfl, h, by simp [monRank]⟩
  | gotEnable c tok =>
    simp only [runMon, hmon]
    split <;> exact ⟨_, rfl, h, by simp [monRank]⟩
  | verifyEnable c tok =>
    simp only [runMon, hmon]
    exact ⟨_, rfl, h, by simp [monRank]⟩
  | enableReply c tok ok noop =>
    cases noop <;> simp only [runMon, hmon, Bool.false_eq_true, if_false, if_true, logAdd_clients] <;>
      split <;> (try split) <;>
      refine ⟨_, rfl, NoIn_of_eq h rfl rfl ?_, by simp [monRank]⟩ <;>
      first | exact Or.inl rfl | exact Or.inr ⟨_, _, rfl⟩
  | exit =>
    simp only [runMon, hmon]
    refine ⟨_, rfl, ⟨h.1, h.2.1, AllC_map h.2.2 ?_⟩, by simp [monRank]⟩
    intro p hp
    split <;> first | exact hp | (intro m k e; cases e)

theorem mon_returns (W : World) : ∀ n s, monRank s.mon ≤ n → NoIn s →
    ∃ k s', k ≤ n ∧ iterStep W (.runMon 0) k s = some s' ∧ (s'.mon = .sel ∨ s'.mon = .finished) := by
  intro n
  induction n with
  | zero =>
    intro s hr _
    refine ⟨0, s, Nat.le_refl _, rfl, ?_⟩
    cases hmon : s.mon <;> simp [hmon, monRank] at hr ⊢
  | succ n ih =>
    intro s hr hn
    by_cases hm : s.mon = .sel ∨ s.mon = .finished
    · exact ⟨0, s, Nat.zero_le _, rfl, hm⟩
    · have hm' : s.mon ≠ .sel ∧ s.mon ≠ .finished := ⟨fun e => hm (Or.inl e), fun e => hm (Or.inr e)⟩
      obtain ⟨s1, e1, hn1, hlt⟩ := mon_step_rank W s hn hm'
      obtain ⟨k, s', hk, e2, hfin⟩ := ih s1 (by omega) hn1
      exact ⟨k + 1, s', by omega, iterStep_succ (l := .runMon 0) e1 e2, hfin⟩

/-! ### installing a reported value -/

theorem monTake_value (s : State) (c src v : Nat) (reply : Option Nat) :
    let t := monTake s (.msg c (.value src v reply))
    t.mon = .gotValue src v reply ∧ t.cb = s.cb ∧ t.cbch = s.cbch ∧ t.slots = s.slots ∧ t.view = s.view ∧
      t.skipVerify = s.skipVerify := by
  unfold monTake
  dsimp only
  split <;> simp

theorem runMon_gotValue_ok (W : World) (t : State) (src v : Nat) (reply : Option Nat) (ch : Nat)
    (hm : t.mon = .gotValue src v reply) (hs : W.stackOk (setSlot t.slots src v) = true) :
    ∃ t', runMon W t ch = some t' ∧
      t'.mon = (if t.skipVerify then .store (setSlot t.slots src v) reply else .verifyUpd (setSlot t.slots src v) reply) ∧
      t'.view = t.view ∧ t'.cb = t.cb ∧ t'.cbch = t.cbch := by
  simp only [runMon, hm, hs, Facts.verifyOnUpdate, logAdd_skipVerify]
  cases t.skipVerify <;> exact ⟨_, rfl, rfl, rfl, rfl, rfl⟩

theorem runMon_verifyUpd_ok (W : World) (t : State) (sl : Slots) (reply : Option Nat) (ch : Nat)
    (hm : t.mon = .verifyUpd sl reply) (hv : W.valid sl = true) :
    ∃ t', runMon W t ch = some t' ∧ t'.mon = .store sl reply ∧ t'.view = t.view ∧ t'.cb = t.cb ∧ t'.cbch = t.cbch := by
  simp only [runMon, hm, hv]
  exact ⟨_, rfl, rfl, rfl, rfl, rfl⟩

theorem runMon_store (W : World) (t : State) (sl : Slots) (reply : Option Nat) (ch : Nat)
    (hm : t.mon = .store sl reply) :
    ∃ t', runMon W t ch = some t' ∧ t'.view = ⟨Facts.nextSerial t.view.serial, sl⟩ ∧ t'.cb = t.cb ∧ t'.cbch = t.cbch := by
  simp only [runMon, hm]
  exact ⟨_, rfl, rfl, rfl, rfl⟩

theorem install_chain (W : World) (t : State) (src v : Nat) (reply : Option Nat)
    (hm : t.mon = .gotValue src v reply) (hs : W.stackOk (setSlot t.slots src v) = true)
    (hv : t.skipVerify = true ∨ W.valid (setSlot t.slots src v) = true) :
    ∃ n s2, n ≤ 3 ∧ iterStep W (.runMon 0) n t = some s2 ∧
      s2.view = ⟨Facts.nextSerial t.view.serial, setSlot t.slots src v⟩ ∧ s2.cb = t.cb ∧ s2.cbch = t.cbch := by
  obtain ⟨t1, e1, m1, v1, c1, q1⟩ := runMon_gotValue_ok W t src v reply 0 hm hs
  cases hsv : t.skipVerify with
  | true =>
    rw [hsv] at m1
    obtain ⟨t2, e2, v2, c2, q2⟩ := runMon_store W t1 _ _ 0 m1
    refine ⟨2, t2, by omega, iterStep_succ (l := .runMon 0) e1 (iterStep_succ (l := .runMon 0) e2 rfl), ?_, ?_, ?_⟩
    · rw [v2, v1]
    · rw [c2, c1]
    · rw [q2, q1]
  | false =>
    rw [hsv] at m1 hv
    have hv' : W.valid (setSlot t.slots src v) = true := by
      rcases hv with h | h
      · cases h
      · exact h
    obtain ⟨t2, e2, m2, v2, c2, q2⟩ := runMon_verifyUpd_ok W t1 _ _ 0 m1 hv'
    obtain ⟨t3, e3, v3, c3, q3⟩ := runMon_store W t2 _ _ 0 m2
    refine ⟨3, t3, by omega,
      iterStep_succ (l := .runMon 0) e1 (iterStep_succ (l := .runMon 0) e2 (iterStep_succ (l := .runMon 0) e3 rfl)),
      ?_, ?_, ?_⟩
    · rw [v3, v2, v1]
    · rw [c3, c2, c1]
    · rw [q3, q2, q1]

/-! ### more projections: admitCtlSender, monTake, offerW, offerCb, finishEv, admitCbSender -/

@[simp] theorem admitCtlSender_cb (s : State) : (admitCtlSender s).cb = s.cb := by
  unfold admitCtlSender; split <;> simp
@[simp] theorem admitCtlSender_monDone (s : State) : (admitCtlSender s).monDone = s.monDone := by
  unfold admitCtlSender; split <;> simp

@[simp] theorem monTake_cb (s : State) (i : MonIn) : (monTake s i).cb = s.cb := by
  unfold monTake
  split
  · rfl
  · simp
  · dsimp only; split <;> simp <;> split <;> rfl
@[simp] theorem monTake_monDone (s : State) (i : MonIn) : (monTake s i).monDone = s.monDone := by
  unfold monTake
  split
  · rfl
  · simp
  · dsimp only; split <;> simp <;> split <;> rfl

/-- what a step other than the monitor's exit and the callback goroutine's own steps can do to the
callback goroutine -/
def CbOk (s s' : State) : Prop :=
  s'.monDone = s.monDone ∧ (s'.cb = s.cb ∨ (s.cb = .sel ∧ ∃ ev, s'.cb = .got ev))

theorem CbOk_refl (s : State) : CbOk s s := ⟨rfl, Or.inl rfl⟩

theorem CbOk_of {s t s' : State} (h : CbOk s t) (h1 : s'.monDone = t.monDone) (h2 : s'.cb = t.cb) : CbOk s s' := by
  unfold CbOk; rw [h1, h2]; exact h

theorem CbOk_same {s s' : State} (h1 : s'.monDone = s.monDone) (h2 : s'.cb = s.cb) : CbOk s s' :=
  ⟨h1, Or.inl h2⟩

theorem CbOk_enqueueCb (s : State) (ev : CbEv) : CbOk s (enqueueCb s ev) := by
  refine ⟨enqueueCb_monDone s ev, ?_⟩
  rcases enqueueCb_cb s ev with h | ⟨h1, h2⟩
  · exact Or.inl h
  · exact Or.inr ⟨h1, ev, h2⟩

theorem CbOk_trySubmit (s : State) (ev : CbEv) (ch : Nat) : CbOk s (trySubmit s ev ch) := by
  refine ⟨trySubmit_monDone s ev ch, ?_⟩
  rcases trySubmit_cb s ev ch with h | ⟨h1, h2⟩
  · exact Or.inl h
  · exact Or.inr ⟨h1, ev, h2⟩

theorem CbOk_replyTo (s : State) (c : Nat) (r : Res) : CbOk s (replyTo s c r) :=
  CbOk_same (replyTo_monDone s c r) (replyTo_cb s c r)

theorem CbOk_offerW (s : State) (c : Nat) (m : Msg) (ctx ch : Nat) : CbOk s (offerW s c m ctx ch) := by
  unfold offerW; dsimp only
  split
  · exact CbOk_same (by simp) (by simp)
  · split <;> exact CbOk_same rfl rfl

theorem CbOk_offerCb (s : State) (c : Nat) (ev : CbEv) (ctx ch : Nat) : CbOk s (offerCb s c ev ctx ch) := by
  unfold offerCb; dsimp only
  split
  · exact CbOk_same rfl rfl
  · split
    · split
      · exact CbOk_of (CbOk_enqueueCb s (.unreg _ _ _)) (waitOr_monDone ..) (waitOr_cb ..)
      · exact CbOk_of (CbOk_enqueueCb s (.reg _ _ _)) rfl rfl
      · exact CbOk_of (CbOk_enqueueCb s ev) rfl rfl
    · split <;> exact CbOk_same rfl rfl

theorem CbOk_cancelCtx (s : State) (ctx : Nat) : CbOk s (cancelCtx s ctx) :=
  CbOk_same (cancelCtx_monDone s ctx) (cancelCtx_cb s ctx)

theorem CbOk_runClient {s s' : State} {c ch : Nat} (h : runClient s c ch = some s') : CbOk s s' := by
  unfold runClient at h
  split at h
  · split at h
    · simp only [Option.some.injEq] at h; subst h; exact CbOk_same rfl rfl
    · split at h <;> (simp only [Option.some.injEq] at h; subst h; exact CbOk_same rfl rfl)
    · simp only [Option.some.injEq] at h; subst h; exact CbOk_offerW ..
    · simp only [Option.some.injEq] at h; subst h; exact CbOk_offerW ..
    · simp only [Option.some.injEq] at h; subst h; exact CbOk_offerW ..
    · simp only [Option.some.injEq] at h; subst h; exact CbOk_offerCb ..
    · simp only [Option.some.injEq] at h; subst h; exact CbOk_offerCb ..
    · split at h
      · simp only [Option.some.injEq] at h; subst h; exact CbOk_same rfl rfl
      · dsimp only at h
        split at h
        · split at h <;> (simp only [Option.some.injEq] at h; subst h; exact CbOk_same (by simp) (by simp))
        · split at h <;> (simp only [Option.some.injEq] at h; subst h; exact CbOk_same rfl rfl)
  · cases h

theorem CbOk_runMon {W : World} {s s' : State} {ch : Nat} (h : runMon W s ch = some s')
    (hne : s.mon ≠ .exit) : CbOk s s' := by
  unfold runMon at h
  split at h
  · -- top
    split at h
    · simp only [Option.some.injEq] at h; subst h; exact CbOk_same rfl rfl
    · simp only [Option.map_eq_some_iff] at h
      obtain ⟨i, _, rfl⟩ := h
      exact CbOk_same (monTake_monDone s i) (monTake_cb s i)
  · cases h
  · dsimp only at h
    split at h
    · simp only [Option.some.injEq] at h; subst h; exact CbOk_same rfl rfl
    · split at h <;> (simp only [Option.some.injEq] at h; subst h; exact CbOk_same rfl rfl)
  · split at h <;> (simp only [Option.some.injEq] at h; subst h; exact CbOk_same rfl rfl)
  · dsimp only at h
    split at h <;> (simp only [Option.some.injEq] at h; subst h; exact CbOk_of (CbOk_trySubmit s _ _) rfl rfl)
  · simp only [Option.some.injEq] at h; subst h; exact CbOk_of (CbOk_replyTo s _ _) rfl rfl
  · simp only [Option.some.injEq] at h; subst h; exact CbOk_same rfl rfl
  · dsimp only at h
    split at h <;> split at h <;> (simp only [Option.some.injEq] at h; subst h; exact CbOk_same rfl rfl)
  · simp only [Option.some.injEq] at h; subst h; exact CbOk_of (CbOk_replyTo s _ _) rfl rfl
  · simp only [Option.some.injEq] at h; subst h; exact CbOk_of (CbOk_trySubmit s _ _) rfl rfl
  · split at h <;> (simp only [Option.some.injEq] at h; subst h; exact CbOk_same rfl rfl)
  · simp only [Option.some.injEq] at h; subst h; exact CbOk_of (CbOk_trySubmit s _ _) rfl rfl
  · dsimp only at h
    split at h <;> (simp only [Option.some.injEq] at h; subst h; exact CbOk_same rfl rfl)
  · split at h <;> (simp only [Option.some.injEq] at h; subst h; exact CbOk_same rfl rfl)
  · simp only [Option.some.injEq] at h; subst h; exact CbOk_same rfl rfl
  · -- enableReply
    simp only [Option.some.injEq] at h; subst h
    refine CbOk_same ?_ ?_
    · dsimp only
      split <;> (try split) <;> (try split) <;> rfl
    · dsimp only
      split <;> (try split) <;> (try split) <;> rfl
  · next he => exact absurd he hne
  · cases h

/-! ### the callback goroutine's invariant -/

/-- the callback goroutine never parks at an empty call list, and never blocks in its select once
monDone is closed -/
def CbInv (s : State) : Prop :=
  (∀ ev, s.cb ≠ .calls [] ev) ∧ (s.monDone = true → s.cb ≠ .sel)

theorem CbInv_of_CbOk {s s' : State} (hi : CbInv s) (h : CbOk s s') : CbInv s' := by
  obtain ⟨h1, h2⟩ := h
  rcases h2 with h2 | ⟨_, ev, h2⟩
  · unfold CbInv; rw [h1, h2]; exact hi
  · unfold CbInv; rw [h2]
    exact ⟨fun _ e => CbPc.noConfusion e, fun _ e => CbPc.noConfusion e⟩

@[simp] theorem finishEv_cb (s : State) (ev : CbEv) : (finishEv s ev).cb = s.cb := by
  unfold finishEv
  split <;> try rfl
  dsimp only; split <;> (try split) <;> rfl
@[simp] theorem finishEv_monDone (s : State) (ev : CbEv) : (finishEv s ev).monDone = s.monDone := by
  unfold finishEv
  split <;> try rfl
  dsimp only; split <;> (try split) <;> rfl
@[simp] theorem finishEv_cbch (s : State) (ev : CbEv) : (finishEv s ev).cbch = s.cbch := by
  unfold finishEv
  split <;> try rfl
  dsimp only; split <;> (try split) <;> rfl

@[simp] theorem admitCbSender_cb (s : State) : (admitCbSender s).cb = s.cb := by
  unfold admitCbSender; split
  · dsimp only; split <;> simp
  · rfl
@[simp] theorem admitCbSender_monDone (s : State) : (admitCbSender s).monDone = s.monDone := by
  unfold admitCbSender; split
  · dsimp only; split <;> simp
  · rfl

theorem CbInv_runCb {s s' : State} (h : runCb s = some s') : CbInv s' := by
  unfold runCb at h
  split at h
  · -- top
    split at h
    · simp only [Option.some.injEq] at h; subst h
      unfold CbInv
      rw [admitCbSender_cb, admitCbSender_monDone]
      exact ⟨fun _ e => CbPc.noConfusion e, fun _ e => CbPc.noConfusion e⟩
    · split at h
      · simp only [Option.some.injEq] at h; subst h
        exact ⟨fun _ e => CbPc.noConfusion e, fun _ e => CbPc.noConfusion e⟩
      · next hd =>
        simp only [Option.some.injEq] at h; subst h
        exact ⟨fun _ e => CbPc.noConfusion e, fun hd' => absurd hd' hd⟩
  · -- got
    dsimp only at h
    split at h
    · simp only [Option.some.injEq] at h; subst h
      exact ⟨fun _ e => CbPc.noConfusion e, fun _ e => CbPc.noConfusion e⟩
    · simp only [Option.some.injEq] at h; subst h
      exact ⟨fun _ e => by simp at e, fun _ e => CbPc.noConfusion e⟩
  · simp only [Option.some.injEq] at h; subst h
    exact ⟨fun _ e => by simp at e, fun _ e => CbPc.noConfusion e⟩
  · simp only [Option.some.injEq] at h; subst h
    exact ⟨fun _ e => CbPc.noConfusion e, fun _ e => CbPc.noConfusion e⟩
  · cases h
  · simp only [Option.some.injEq] at h; subst h
    exact ⟨fun _ e => CbPc.noConfusion e, fun _ e => CbPc.noConfusion e⟩
  · cases h
  · cases h

theorem CbInv_runMon_exit {W : World} {s s' : State} {ch : Nat} (hi : CbInv s) (h : runMon W s ch = some s')
    (he : s.mon = .exit) : CbInv s' := by
  simp only [runMon, he, Option.some.injEq] at h
  subst h
  refine ⟨?_, ?_⟩
  · intro ev
    simp only [logAdd_cb]
    split
    · exact fun e => CbPc.noConfusion e
    · exact hi.1 ev
  · intro _
    simp only [logAdd_cb]
    split
    · exact fun e => CbPc.noConfusion e
    · next hne => exact fun e => hne e

theorem CbInv_step {W : World} {s s' : State} {l : Label} (hi : CbInv s) (h : step W s l = some s') : CbInv s' := by
  cases l with
  | «begin» c op ctx =>
    simp only [step] at h
    split at h
    · simp only [Option.some.injEq] at h; subst h; exact CbInv_of_CbOk hi (CbOk_same rfl rfl)
    · cases h
  | ack c =>
    simp only [step] at h
    split at h
    · simp only [Option.some.injEq] at h; subst h; exact CbInv_of_CbOk hi (CbOk_same rfl rfl)
    · cases h
  | runMon ch =>
    by_cases he : s.mon = .exit
    · exact CbInv_runMon_exit hi h he
    · exact CbInv_of_CbOk hi (CbOk_runMon h he)
  | runCb => exact CbInv_runCb h
  | runClient c ch => exact CbInv_of_CbOk hi (CbOk_runClient h)
  | cancel ctx =>
    simp only [step, Option.some.injEq] at h; subst h
    exact CbInv_of_CbOk hi (CbOk_cancelCtx s ctx)

theorem CbInv_run {W : World} : ∀ (ls : List Label) (s s' : State), CbInv s → run W s ls = some s' → CbInv s' := by
  intro ls
  induction ls with
  | nil => intro s s' hi h; simp only [run, Option.some.injEq] at h; subst h; exact hi
  | cons l ls ih =>
    intro s s' hi h
    simp only [run] at h
    cases hst : step W s l with
    | none => simp [hst] at h
    | some t =>
      simp only [hst, Option.bind_some] at h
      exact ih t s' (CbInv_step hi hst) h

theorem CbInv_reachable {W : World} {P : Params} {sl : Slots} {w : List Bool} {s : State}
    (h : Reachable W P sl w s) : CbInv s := by
  obtain ⟨ls, h⟩ := h
  refine CbInv_run ls _ s ?_ h
  exact ⟨fun _ e => CbPc.noConfusion e, fun _ e => CbPc.noConfusion e⟩

/-! ### draining the callback queue after monDone -/

def NotSendCb (st : CSt) : Prop := ∀ ev k, st ≠ .sendCb ev k

/-- monDone is closed and nobody is blocked sending on cbch -/
def Drain (s : State) : Prop := s.monDone = true ∧ AllC NotSendCb s.clients

theorem admitCbSender_of_AllC {s : State} (h : AllC NotSendCb s.clients) : admitCbSender s = s := by
  unfold admitCbSender
  split
  · next c ev ctx heq =>
    exact absurd rfl (h _ (List.mem_of_find?_eq_some heq) ev ctx)
  · rfl

theorem finishEv_handles_length (s : State) (ev : CbEv) :
    (finishEv s ev).handles.length ≤ s.handles.length + 1 := by
  unfold finishEv
  split
  · omega
  · omega
  · simp
  · next h c tok =>
    dsimp only
    have : (s.handles.filter (fun x => x.1 != h)).length ≤ s.handles.length := List.length_filter_le _ _
    split <;> (try split) <;> simp only [ret_handles] <;> omega

theorem finishEv_clients {s : State} (ev : CbEv) (h : AllC NotSendCb s.clients) :
    AllC NotSendCb (finishEv s ev).clients := by
  unfold finishEv
  split
  · exact h
  · exact h
  · exact h
  · dsimp only
    split
    · split
      · exact AllC_setC h (fun _ _ e => CSt.noConfusion e)
      · exact h
    · exact h

theorem Drain_finishEv {s : State} (ev : CbEv) (h : Drain s) : Drain (finishEv s ev) :=
  ⟨by rw [finishEv_monDone]; exact h.1, finishEv_clients ev h.2⟩

theorem callsFor_length (hs : List (Nat × Nat)) (ls : Nat) (lv : Option Slots) (ev : CbEv) :
    (callsFor hs ls lv ev).length ≤ hs.length + 1 := by
  unfold callsFor
  split
  · simp
  · next old new supp =>
    have := List.length_filter_le (fun h : Nat × Nat => !(Facts.cbSkip h.2 new.serial)) hs
    simp only [List.length_append, List.length_map]
    split <;> simp <;> omega
  · split
    · split <;> simp
    · simp
  · simp


/-- the goroutine-local bookkeeping at `cb.got` before the calls are computed -/
def cbPre (s : State) (ev : CbEv) : State :=
  let s := match ev with
    | .newCfg _ new _ => { s with lastSerial := new.serial, lastVersion := some new.cfg }
    | .reg h ser _ => s.logAdd (.regProcessed h ser s.lastSerial)
    | _ => s
  match ev with
  | .newCfg _ _ suppressed => if Facts.globalGate suppressed then s else s.logAdd (.withheld ev s.skipVerify)
  | _ => s

theorem runCb_got_eq {s : State} {ev : CbEv} (hc : s.cb = .got ev) :
    runCb s = match callsFor (cbPre s ev).handles (cbPre s ev).lastSerial (cbPre s ev).lastVersion ev with
      | [] => some { (finishEv (cbPre s ev) ev) with cb := .top }
      | c :: cs => some ({ (cbPre s ev) with cb := .calls (c :: cs) ev }.logAdd (.enter c)) := by
  cases s
  simp only at hc
  subst hc
  rfl

@[simp] theorem cbPre_handles (s : State) (ev : CbEv) : (cbPre s ev).handles = s.handles := by
  unfold cbPre; cases ev <;> dsimp only <;> (try split) <;> rfl
@[simp] theorem cbPre_cbch (s : State) (ev : CbEv) : (cbPre s ev).cbch = s.cbch := by
  unfold cbPre; cases ev <;> dsimp only <;> (try split) <;> rfl
@[simp] theorem cbPre_monDone (s : State) (ev : CbEv) : (cbPre s ev).monDone = s.monDone := by
  unfold cbPre; cases ev <;> dsimp only <;> (try split) <;> rfl
@[simp] theorem cbPre_clients (s : State) (ev : CbEv) : (cbPre s ev).clients = s.clients := by
  unfold cbPre; cases ev <;> dsimp only <;> (try split) <;> rfl

theorem Drain_cbPre {s : State} (ev : CbEv) (h : Drain s) : Drain (cbPre s ev) := by
  unfold Drain; rw [cbPre_monDone, cbPre_clients]; exact h

theorem runCb_top_cons {s : State} {ev : CbEv} {rest : List CbEv} (hc : s.cb = .top) (hq : s.cbch = ev :: rest)
    (hd : Drain s) :
    ∃ s', runCb s = some s' ∧ s'.cb = .got ev ∧ s'.cbch = rest ∧ s'.handles = s.handles ∧ Drain s' := by
  refine ⟨cbTake { s with cbch := rest } ev, ?_, rfl, rfl, rfl, hd⟩
  simp only [runCb, hc, hq]
  rw [admitCbSender_of_AllC]; exact hd.2

theorem runCb_top_nil {s : State} (hc : s.cb = .top) (hq : s.cbch = []) (hd : s.monDone = true) :
    runCb s = some { s with cb := .exit } := by
  simp only [runCb, hc, hq, hd, if_true]

theorem runCb_exit {s : State} (hc : s.cb = .exit) : runCb s = some { s with cb := .finished } := by
  simp only [runCb, hc]

theorem runCb_got {s : State} {ev : CbEv} (hc : s.cb = .got ev) (hd : Drain s) :
    ∃ s', runCb s = some s' ∧ s'.cbch = s.cbch ∧ Drain s' ∧
      ((s'.cb = .top ∧ s'.handles.length ≤ s.handles.length + 1) ∨
       (∃ c cs, s'.cb = .calls (c :: cs) ev ∧ cs.length ≤ s.handles.length ∧ s'.handles = s.handles)) := by
  rw [runCb_got_eq hc]
  have hlen := callsFor_length (cbPre s ev).handles (cbPre s ev).lastSerial (cbPre s ev).lastVersion ev
  split
  · refine ⟨_, rfl, ?_, ?_, Or.inl ⟨rfl, ?_⟩⟩
    · show (finishEv (cbPre s ev) ev).cbch = s.cbch
      rw [finishEv_cbch, cbPre_cbch]
    · exact Drain_finishEv ev (Drain_cbPre ev hd)
    · have := finishEv_handles_length (cbPre s ev) ev
      rw [cbPre_handles] at this
      exact this
  · next c cs heq =>
    rw [heq, cbPre_handles] at hlen
    simp only [List.length_cons] at hlen
    refine ⟨_, rfl, ?_, ?_, Or.inr ⟨c, cs, rfl, by omega, ?_⟩⟩
    · show (cbPre s ev).cbch = s.cbch
      exact cbPre_cbch s ev
    · exact Drain_cbPre ev hd
    · show (cbPre s ev).handles = s.handles
      exact cbPre_handles s ev

theorem runCb_calls_last {s : State} {c : Call} {ev : CbEv} (hc : s.cb = .calls [c] ev) (hd : Drain s) :
    ∃ s', runCb s = some s' ∧ s'.cbch = s.cbch ∧ Drain s' ∧ s'.cb = .top ∧
      s'.handles.length ≤ s.handles.length + 1 := by
  refine ⟨{ (finishEv s ev) with cb := .top }, ?_, ?_, ?_, rfl, ?_⟩
  · simp only [runCb, hc]
  · exact finishEv_cbch s ev
  · exact Drain_finishEv ev hd
  · exact finishEv_handles_length s ev

theorem runCb_calls_more {s : State} {c c' : Call} {cs : List Call} {ev : CbEv}
    (hc : s.cb = .calls (c :: c' :: cs) ev) (hd : Drain s) :
    ∃ s', runCb s = some s' ∧ s'.cbch = s.cbch ∧ Drain s' ∧ s'.cb = .calls (c' :: cs) ev ∧
      s'.handles = s.handles := by
  refine ⟨{ s with cb := .calls (c' :: cs) ev }.logAdd (.enter c'), ?_, rfl, hd, rfl, rfl⟩
  simp only [runCb, hc]

theorem drain_calls (W : World) (ev : CbEv) : ∀ (cs : List Call) (c : Call) (s : State),
    s.cb = .calls (c :: cs) ev → Drain s →
    ∃ s', iterStep W .runCb (cs.length + 1) s = some s' ∧ s'.cb = .top ∧ s'.cbch = s.cbch ∧ Drain s' ∧
      s'.handles.length ≤ s.handles.length + 1 := by
  intro cs
  induction cs with
  | nil =>
    intro c s hc hd
    obtain ⟨s', e, hq, hd', hc', hl⟩ := runCb_calls_last hc hd
    exact ⟨s', iterStep_succ (l := .runCb) e rfl, hc', hq, hd', hl⟩
  | cons c' cs ih =>
    intro c s hc hd
    obtain ⟨s1, e, hq, hd1, hc1, hh⟩ := runCb_calls_more hc hd
    obtain ⟨s', e', hc', hq', hd', hl⟩ := ih c' s1 hc1 hd1
    refine ⟨s', iterStep_succ (l := .runCb) e e', hc', by rw [hq', hq], hd', by rw [← hh]; exact hl⟩

theorem drain_event (W : World) {s : State} {ev : CbEv} {rest : List CbEv} (hc : s.cb = .top)
    (hq : s.cbch = ev :: rest) (hd : Drain s) :
    ∃ n s', n ≤ s.handles.length + 3 ∧ iterStep W .runCb n s = some s' ∧ s'.cb = .top ∧ s'.cbch = rest ∧
      Drain s' ∧ s'.handles.length ≤ s.handles.length + 1 := by
  obtain ⟨s1, e1, hc1, hq1, hh1, hd1⟩ := runCb_top_cons hc hq hd
  obtain ⟨s2, e2, hq2, hd2, hcase⟩ := runCb_got hc1 hd1
  rcases hcase with ⟨hc2, hl2⟩ | ⟨c, cs, hc2, hl2, hh2⟩
  · refine ⟨2, s2, by omega, iterStep_succ (l := .runCb) e1 (iterStep_succ (l := .runCb) e2 rfl), hc2,
      by rw [hq2, hq1], hd2, by rw [← hh1]; exact hl2⟩
  · obtain ⟨s3, e3, hc3, hq3, hd3, hl3⟩ := drain_calls W ev cs c s2 hc2 hd2
    have e : cs.length + 1 + 1 + 1 = (cs.length + 1 + 1) + 1 := rfl
    refine ⟨cs.length + 1 + 1 + 1, s3, by rw [hh1] at hl2; omega,
      iterStep_succ (l := .runCb) e1 (iterStep_succ (l := .runCb) e2 e3), hc3, by rw [hq3, hq2, hq1], hd3,
      by rw [hh2, hh1] at hl3; exact hl3⟩

theorem drain_top (W : World) : ∀ (q : Nat) (s : State), s.cb = .top → s.cbch.length = q → Drain s →
    ∃ n s', n ≤ q * (s.handles.length + q + 3) + 2 ∧ iterStep W .runCb n s = some s' ∧ s'.cb = .finished := by
  intro q
  induction q with
  | zero =>
    intro s hc hq hd
    have hq' : s.cbch = [] := List.eq_nil_of_length_eq_zero hq
    refine ⟨2, { s with cb := .finished }, by omega, ?_, rfl⟩
    exact iterStep_succ (l := .runCb) (runCb_top_nil hc hq' hd.1)
      (iterStep_succ (l := .runCb) (runCb_exit (s := { s with cb := .exit }) rfl) rfl)
  | succ q ih =>
    intro s hc hq hd
    cases hcb : s.cbch with
    | nil => rw [hcb] at hq; simp at hq
    | cons ev rest =>
      rw [hcb] at hq
      simp only [List.length_cons, Nat.add_right_cancel_iff] at hq
      obtain ⟨n1, s1, hn1, e1, hc1, hq1, hd1, hl1⟩ := drain_event W hc hcb hd
      obtain ⟨n2, s2, hn2, e2, hfin⟩ := ih s1 hc1 (by rw [hq1]; exact hq) hd1
      refine ⟨n1 + n2, s2, ?_, iterStep_add e1 e2, hfin⟩
      have m1 : q * (s1.handles.length + q + 3) ≤ q * (s.handles.length + q + 4) :=
        Nat.mul_le_mul_left q (by omega)
      have m2 : (q + 1) * (s.handles.length + (q + 1) + 3) =
          q * (s.handles.length + q + 4) + (s.handles.length + q + 4) := by
        have e : s.handles.length + (q + 1) + 3 = s.handles.length + q + 4 := by omega
        rw [e, Nat.succ_mul]
      omega

theorem cb_exits (W : World) (s : State) (hi : CbInv s) (hd : Drain s) :
    ∃ n s', n ≤ (s.cbch.length + 1) * (s.handles.length + s.cbch.length + 4) + 4 +
        (match s.cb with | .calls cs _ => cs.length | _ => 0) ∧
      iterStep W .runCb n s = some s' ∧ s'.cb = .finished := by
  have key : ∀ t : State, t.cb = .top → t.cbch = s.cbch → Drain t → t.handles.length ≤ s.handles.length + 1 →
      ∃ n s', n ≤ s.cbch.length * (s.handles.length + s.cbch.length + 4) + 2 ∧
        iterStep W .runCb n t = some s' ∧ s'.cb = .finished := by
    intro t hc hq hd' hl
    obtain ⟨n, s', hn, e, hfin⟩ := drain_top W s.cbch.length t hc (by rw [hq]) hd'
    have m1 : s.cbch.length * (t.handles.length + s.cbch.length + 3) ≤
        s.cbch.length * (s.handles.length + s.cbch.length + 4) := Nat.mul_le_mul_left _ (by omega)
    exact ⟨n, s', by omega, e, hfin⟩
  have m2 : (s.cbch.length + 1) * (s.handles.length + s.cbch.length + 4) =
      s.cbch.length * (s.handles.length + s.cbch.length + 4) + (s.handles.length + s.cbch.length + 4) := by
    rw [Nat.succ_mul]
  cases hcb : s.cb with
  | top =>
    obtain ⟨n, s', hn, e, hfin⟩ := key s hcb rfl hd (by omega)
    exact ⟨n, s', by simp only []; omega, e, hfin⟩
  | sel => exact absurd hcb (hi.2 hd.1)
  | got ev =>
    obtain ⟨s2, e2, hq2, hd2, hcase⟩ := runCb_got hcb hd
    rcases hcase with ⟨hc2, hl2⟩ | ⟨c, cs, hc2, hl2, hh2⟩
    · obtain ⟨n, s', hn, e, hfin⟩ := key s2 hc2 hq2 hd2 hl2
      exact ⟨n + 1, s', by simp only []; omega, iterStep_succ (l := .runCb) e2 e, hfin⟩
    · obtain ⟨s3, e3, hc3, hq3, hd3, hl3⟩ := drain_calls W ev cs c s2 hc2 hd2
      obtain ⟨n, s', hn, e, hfin⟩ := key s3 hc3 (by rw [hq3, hq2]) hd3 (by rw [hh2] at hl3; exact hl3)
      refine ⟨(cs.length + 1 + n) + 1, s', by simp only []; omega,
        iterStep_succ (l := .runCb) e2 (iterStep_add e3 e), hfin⟩
  | calls cs ev =>
    cases cs with
    | nil => exact absurd hcb (hi.1 ev)
    | cons c cs =>
      obtain ⟨s3, e3, hc3, hq3, hd3, hl3⟩ := drain_calls W ev cs c s hcb hd
      obtain ⟨n, s', hn, e, hfin⟩ := key s3 hc3 hq3 hd3 hl3
      exact ⟨cs.length + 1 + n, s', by simp only [List.length_cons]; omega, iterStep_add e3 e, hfin⟩
  | exit =>
    exact ⟨1, { s with cb := .finished }, by simp only []; omega,
      iterStep_succ (l := .runCb) (runCb_exit hcb) rfl, rfl⟩
  | finished => exact ⟨0, s, Nat.zero_le _, rfl, hcb⟩

end Dials.Runtime
