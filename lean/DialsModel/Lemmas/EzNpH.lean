/-
Symbolic execution of the ez script, schedule family `race = .handoff` (generated pattern; see EzExec.lean).
-/
import DialsModel.Lemmas.EzExec

namespace Dials.Ez
open Dials Dials.Runtime

set_option maxRecDepth 8000
set_option linter.unusedSimpArgs false
set_option maxHeartbeats 3200000

/-- ConfigPath answers "no file": the file-less stack is the full stack and is verified -/
theorem ezRun_nopath_handoff (E : Env) (sch : Sched) (b : Bool) (hs : sch.race = .handoff)
    (h0 : E.W.stackOk (baseCfg E) = true) (hp : E.path (baseCfg E) = none) (h2 : E.W.valid (baseCfg E) = b) :
    summary E.W (ezRun E sch) =
      { err := if b then none else some .verify
        view := some ⟨0, baseCfg E⟩, events := some none, skip := some (!b)
        verifies := [(baseCfg E, b)], globals := [], later := [], received := [], path := none
        slots := some (baseCfg E), idle := some E.watch, quiet := some true, room := some true } := by
  simp only [baseCfg, fullCfg, blankV] at hp h0 h2 ⊢
  obtain ⟨mp, cp, race, cw⟩ := sch
  subst hs
  rcases Bool.eq_false_or_eq_true E.watch with hw | hw <;>
  cases b <;> cases mp <;> cases cp <;> cases cw <;> ez_exec [hp, h0, h2, hw]

end Dials.Ez
