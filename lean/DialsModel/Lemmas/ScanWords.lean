/-
Bare words (what people type: `--tags=a,b,c`, `HOSTS=db1:5432,db2:5432`, `LIMITS=cpu:2,mem:4`) next to quoted strings:
texts made of words of identifier characters, quoted strings, commas and - in map mode - colons are scanned into
exactly the corresponding tokens.  A word may hold spaces (the custom IsIdentRune accepts the space; only LEADING white
space is skipped by the scanner), so "a b, c" is the two words "a b" and "c".
-/
import DialsModel.Lemmas.Scan
import DialsModel.Lemmas.QuoteItems
import DialsModel.Model.ParseInt

namespace Dials.Parse

inductive WPiece where
  | word (w : S)
  | str (z : S)
  | qstr (is : List QItem)          -- any byte string, quoted item by item (Model/QuoteItems.lean)
  | comma
  | colon
deriving Repr, DecidableEq

def WPiece.tok : WPiece → Tok
  | .word w => .word w
  | .str z => .str (some z)
  | .qstr is => .str (some (itemsBytes is))
  | .comma => .comma
  | .colon => .colon

def WPiece.text : WPiece → List Char
  | .word w => w
  | .str z => quote z
  | .qstr is => quoteItems is
  | .comma => [',']
  | .colon => [':']

def WPiece.isWord : WPiece → Bool
  | .word _ => true
  | _ => false

/-- a bare word: non-empty, identifier characters only (so no comma, quote, backslash, NUL, control character - and no
colon in map mode), not starting with a space -/
def BareWord (m : Bool) (w : S) : Prop := w ≠ [] ∧ (∀ c ∈ w, identRune m c = true) ∧ w.head? ≠ some ' '

def WPiece.ok (m : Bool) : WPiece → Prop
  | .word w => BareWord m w
  | .str z => z.all isAscii = true
  | .qstr is => ∀ i ∈ is, i.ok
  | .comma => True
  | .colon => m = true

/-- two words never stand next to each other (they would be one word) -/
def Renderable (m : Bool) : List WPiece → Prop
  | [] => True
  | [p] => p.ok m
  | p :: q :: r => p.ok m ∧ (p.isWord = true → q.isWord = false) ∧ Renderable m (q :: r)

def wrender (ps : List WPiece) : List Char := ps.flatMap WPiece.text

theorem identRune_nul (m : Bool) : identRune m NUL = false := by cases m <;> decide

theorem identRune_not_ws (m : Bool) (c : Char) (h : identRune m c = true) (hs : c ≠ ' ') : isWs c = false := by
  by_cases h1 : c = '\t'
  · subst h1; cases m <;> simp_all (config := { decide := true })
  by_cases h2 : c = '\n'
  · subst h2; cases m <;> simp_all (config := { decide := true })
  by_cases h3 : c = '\r'
  · subst h3; cases m <;> simp_all (config := { decide := true })
  simp [isWs, h1, h2, h3, hs]

theorem spanIdent_word (m : Bool) (w rest : List Char) (hw : ∀ c ∈ w, identRune m c = true)
    (hr : ∀ c, rest.head? = some c → identRune m c = false) : spanIdent m (w ++ rest) = (w, rest) := by
  induction w with
  | nil =>
    cases rest with
    | nil => rfl
    | cons c cs => simp [spanIdent, hr c rfl]
  | cons c cs ih =>
    have hc := hw c (by simp)
    have := ih (fun x hx => hw x (by simp [hx]))
    simp [spanIdent, hc, this]

theorem word_noNUL (m : Bool) (w : S) (hw : ∀ c ∈ w, identRune m c = true) : w.contains NUL = false := by
  simp only [List.contains_eq_mem, decide_eq_false_iff_not]
  intro h
  have := hw NUL h
  rw [identRune_nul] at this
  exact absurd this (by decide)

theorem wpiece_noNUL (m : Bool) (p : WPiece) (h : p.ok m) : p.text.contains NUL = false := by
  cases p with
  | word w => exact word_noNUL m w h.2.1
  | str z => exact quote_noNUL z h
  | qstr is => exact quoteItems_noNUL is h
  | comma => decide
  | colon => decide

theorem wrender_noNUL (m : Bool) : ∀ ps : List WPiece, Renderable m ps → (wrender ps).contains NUL = false
  | [], _ => by simp [wrender]
  | [p], h => by simpa [wrender] using wpiece_noNUL m p h
  | p :: q :: r, h => by
    have h1 := wpiece_noNUL m p h.1
    have h2 := wrender_noNUL m (q :: r) h.2.2
    simp only [wrender, List.flatMap_cons, List.contains_eq_mem, List.mem_append, decide_eq_false_iff_not] at *
    intro hx
    cases hx with
    | inl hx => exact h1 hx
    | inr hx => exact h2 hx

/-- the first character of a piece that is not a word is no identifier character (in the mode the piece is legal in) -/
theorem nonword_head (m : Bool) (q : WPiece) (hq : q.ok m) (hw : q.isWord = false) (tail : List Char) :
    ∀ c, (q.text ++ tail).head? = some c → identRune m c = false := by
  intro c hc
  cases q with
  | word w => simp [WPiece.isWord] at hw
  | str z => simp [WPiece.text, quote] at hc; subst hc; exact identRune_quote m
  | qstr is => simp [WPiece.text, quoteItems] at hc; subst hc; exact identRune_quote m
  | comma => simp [WPiece.text] at hc; subst hc; exact identRune_comma m
  | colon =>
    have hm : m = true := hq
    subst hm
    simp [WPiece.text] at hc; subst hc; exact identRune_colon_map

theorem scanTok_wpiece (m : Bool) (p : WPiece) (h : p.ok m) (rest : List Char)
    (hr : p.isWord = true → ∀ c, rest.head? = some c → identRune m c = false) :
    ∃ c cs, p.text ++ rest = c :: cs ∧ isWs c = false ∧ scanTok m c cs = .tok p.tok rest := by
  cases p with
  | word w =>
    obtain ⟨hne, hid, hsp⟩ := h
    cases w with
    | nil => exact absurd rfl hne
    | cons c w' =>
      have hc : identRune m c = true := hid c (by simp)
      have hcs : c ≠ ' ' := by intro e; subst e; simp at hsp
      refine ⟨c, w' ++ rest, by simp [WPiece.text], identRune_not_ws m c hc hcs, ?_⟩
      have := spanIdent_word m w' rest (fun x hx => hid x (by simp [hx])) (hr rfl)
      simp [scanTok, hc, this, WPiece.tok]
  | str z =>
    refine ⟨'"', quoteBody z ++ '"' :: rest, by simp [WPiece.text, quote], by decide, ?_⟩
    simp [scanTok, identRune_quote, scanStrBody_quoteBody z h, unqBody_quoteBody z h, WPiece.tok]
  | qstr is =>
    obtain ⟨cs, hcs, htok⟩ := scanTok_quoteItems m is h rest
    exact ⟨'"', cs, hcs, by decide, htok⟩
  | comma =>
    refine ⟨',', rest, by simp [WPiece.text], by decide, ?_⟩
    simp [scanTok, identRune_comma, WPiece.tok]
  | colon =>
    have hm : m = true := h
    subst hm
    refine ⟨':', rest, by simp [WPiece.text], by decide, ?_⟩
    simp [scanTok, identRune_colon_map, WPiece.tok]

theorem wpiece_text_length_pos (m : Bool) (p : WPiece) (h : p.ok m) : 0 < p.text.length := by
  cases p with
  | word w => have := h.1; cases w <;> simp_all [WPiece.text]
  | str z => simp [WPiece.text, quote]
  | qstr is => simp [WPiece.text, quoteItems]
  | comma => simp [WPiece.text]
  | colon => simp [WPiece.text]

theorem scanAllF_wrender (m : Bool) : ∀ ps : List WPiece, Renderable m ps → ∀ fuel, (wrender ps).length < fuel →
    scanAllF m fuel (wrender ps) = some (ps.map WPiece.tok ++ [.eof]) := by
  intro ps
  induction ps with
  | nil =>
    intro _ fuel hf
    cases fuel with
    | zero => simp at hf
    | succ f => simp [wrender, scanAllF, skipWs]
  | cons p ps ih =>
    intro hok fuel hf
    have hp : p.ok m := by cases ps <;> first | exact hok | exact hok.1
    have hps : Renderable m ps := by
      cases ps with
      | nil => trivial
      | cons q r => exact hok.2.2
    have hrest : p.isWord = true → ∀ c, (wrender ps).head? = some c → identRune m c = false := by
      intro hw
      cases ps with
      | nil => intro c hc; simp [wrender] at hc
      | cons q r =>
        have hq : q.ok m := by cases r <;> first | exact hok.2.2 | exact hok.2.2.1
        have := nonword_head m q hq (hok.2.1 hw) (wrender r)
        simpa [wrender] using this
    cases fuel with
    | zero => simp at hf
    | succ f =>
      obtain ⟨c, cs, hcs, hws, htok⟩ := scanTok_wpiece m p hp (wrender ps) hrest
      have hr : wrender (p :: ps) = c :: cs := by simpa [wrender] using hcs
      have hnn : (c :: cs).contains NUL = false := by rw [← hr]; exact wrender_noNUL m _ hok
      have hlen : (wrender ps).length < f := by
        have : (wrender (p :: ps)).length = p.text.length + (wrender ps).length := by simp [wrender]
        have := wpiece_text_length_pos m p hp
        omega
      rw [hr]
      simp only [scanAllF, skipWs, hws, Bool.false_eq_true, if_false, htok, take_noNUL _ _ hnn, ih hps f hlen]
      simp

theorem scanText_wrender (m : Bool) (ps : List WPiece) (h : Renderable m ps) :
    scanText m (wrender ps) = some (ps.map WPiece.tok ++ [.eof]) :=
  scanAllF_wrender m ps h _ (Nat.lt_succ_self _)

/-! ### comma-separated bare words -/

def wordPieces : List S → List WPiece
  | [] => []
  | [w] => [.word w]
  | w :: v :: ws => .word w :: .comma :: wordPieces (v :: ws)

theorem joinComma_wrender : ∀ ws : List S, joinComma ws = wrender (wordPieces ws)
  | [] => rfl
  | [w] => by simp [joinComma, wordPieces, wrender, WPiece.text]
  | w :: v :: ws => by
    have := joinComma_wrender (v :: ws)
    simp [joinComma, wordPieces, wrender, WPiece.text] at this ⊢
    exact this

theorem wordPieces_renderable (m : Bool) : ∀ ws : List S, (∀ w ∈ ws, BareWord m w) → Renderable m (wordPieces ws)
  | [], _ => trivial
  | [w], h => h w (by simp)
  | w :: v :: ws, h => by
    have ih := wordPieces_renderable m (v :: ws) (fun x hx => h x (by simp [List.mem_cons] at hx ⊢; right; exact hx))
    refine ⟨h w (by simp), fun _ => rfl, ?_⟩
    cases ws with
    | nil => exact ⟨trivial, fun h => by simp [WPiece.isWord] at h, ih⟩
    | cons u us => exact ⟨trivial, fun h => by simp [WPiece.isWord] at h, ih⟩

/-- the words, as the token stream the slice state machine expects -/
def wordToks : List S → List Tok
  | [] => [.eof]
  | [w] => [.word w, .eof]
  | w :: ws => .word w :: .comma :: wordToks ws

theorem wordToks_pieces : ∀ ws : List S, wordToks ws = (wordPieces ws).map WPiece.tok ++ [.eof]
  | [] => rfl
  | [w] => rfl
  | w :: v :: ws => by
    have := wordToks_pieces (v :: ws)
    simp [wordToks, wordPieces, WPiece.tok] at this ⊢
    exact this

theorem splitSlice_words (ws : List S) : ∀ acc, splitSlice (wordToks ws) true acc = .ok (acc ++ ws) := by
  induction ws with
  | nil => intro acc; simp [wordToks, splitSlice]
  | cons w ws ih =>
    intro acc
    cases ws with
    | nil => simp [wordToks, splitSlice]
    | cons v vs =>
      have := ih (acc ++ [w])
      simp [wordToks, splitSlice] at this ⊢
      exact this

/-! ### the state machines do not care whether a value was quoted -/

def deQuote : Tok → Tok
  | .str (some z) => .word z
  | t => t

theorem splitSlice_deQuote (ts : List Tok) : ∀ (b : Bool) (acc : List S),
    splitSlice (ts.map deQuote) b acc = splitSlice ts b acc := by
  induction ts with
  | nil => intro b acc; rfl
  | cons t ts ih =>
    intro b acc
    cases t with
    | str u => cases u <;> simp [deQuote, splitSlice, ih]
    | word w => simp [deQuote, splitSlice, ih]
    | comma => simp [deQuote, splitSlice, ih]
    | colon => simp [deQuote, splitSlice]
    | other => simp [deQuote, splitSlice]
    | eof => simp [deQuote, splitSlice]
    | scanErr => simp [deQuote, splitSlice]

theorem splitSet_deQuote (ts : List Tok) : ∀ (b : Bool) (acc : List S),
    splitSet (ts.map deQuote) b acc = splitSet ts b acc := by
  induction ts with
  | nil => intro b acc; rfl
  | cons t ts ih =>
    intro b acc
    cases t with
    | str u => cases u <;> simp [deQuote, splitSet, ih]
    | word w => simp [deQuote, splitSet, ih]
    | comma => simp [deQuote, splitSet, ih]
    | colon => simp [deQuote, splitSet]
    | other => simp [deQuote, splitSet]
    | eof => simp [deQuote, splitSet]
    | scanErr => simp [deQuote, splitSet]

theorem splitMapWith_deQuote (add : List (S × S) → S → S → Outcome (List (S × S))) (ts : List Tok) : ∀ (st : MapSt),
    splitMapWith add (ts.map deQuote) st = splitMapWith add ts st := by
  induction ts with
  | nil => intro st; rfl
  | cons t ts ih =>
    intro st
    cases t with
    | str u => cases u <;> simp [deQuote, splitMapWith, ih]
    | word w => simp [deQuote, splitMapWith, ih]
    | comma =>
      simp only [List.map_cons, deQuote, splitMapWith, ih]
    | colon => simp [deQuote, splitMapWith, ih]
    | other => simp [deQuote, splitMapWith, ih]
    | eof => simp [deQuote, splitMapWith]
    | scanErr => simp [deQuote, splitMapWith]

theorem wordToks_deQuote : ∀ ws : List S, wordToks ws = (canonSlice ws).map deQuote
  | [] => rfl
  | [w] => rfl
  | w :: v :: ws => by
    have := wordToks_deQuote (v :: ws)
    simp [wordToks, canonSlice, deQuote] at this ⊢
    exact this

/-! ### `k:v,k2:v2` -/

def joinPairs : List (S × S) → List Char
  | [] => []
  | [(k, v)] => k ++ ':' :: v
  | (k, v) :: rest => k ++ ':' :: (v ++ ',' :: joinPairs rest)

def pairPieces : List (S × S) → List WPiece
  | [] => []
  | [(k, v)] => [.word k, .colon, .word v]
  | (k, v) :: q :: rest => .word k :: .colon :: .word v :: .comma :: pairPieces (q :: rest)

theorem joinPairs_wrender : ∀ kvs : List (S × S), joinPairs kvs = wrender (pairPieces kvs)
  | [] => rfl
  | [(k, v)] => by simp [joinPairs, pairPieces, wrender, WPiece.text]
  | (k, v) :: q :: rest => by
    have := joinPairs_wrender (q :: rest)
    simp [joinPairs, pairPieces, wrender, WPiece.text] at this ⊢
    exact this

theorem pairPieces_toks : ∀ kvs : List (S × S), (pairPieces kvs).map WPiece.tok ++ [.eof] = (canonMap kvs).map deQuote
  | [] => rfl
  | [(k, v)] => rfl
  | (k, v) :: q :: rest => by
    have := pairPieces_toks (q :: rest)
    simp [pairPieces, canonMap, deQuote, WPiece.tok] at this ⊢
    exact this

theorem pairPieces_renderable : ∀ kvs : List (S × S), (∀ p ∈ kvs, BareWord true p.1 ∧ BareWord true p.2) →
    Renderable true (pairPieces kvs)
  | [], _ => trivial
  | [(k, v)], h => by
    have hkv := h (k, v) (by simp)
    exact ⟨hkv.1, fun _ => rfl, rfl, fun h => by simp [WPiece.isWord] at h, hkv.2⟩
  | (k, v) :: q :: rest, h => by
    have hkv := h (k, v) (by simp)
    have ih := pairPieces_renderable (q :: rest) (fun x hx => h x (by simp [List.mem_cons] at hx ⊢; right; exact hx))
    refine ⟨hkv.1, fun _ => rfl, rfl, fun h => by simp [WPiece.isWord] at h, hkv.2, fun _ => rfl, ?_⟩
    obtain ⟨k2, v2⟩ := q
    cases rest with
    | nil => exact ⟨trivial, fun h => by simp [WPiece.isWord] at h, ih⟩
    | cons u us => exact ⟨trivial, fun h => by simp [WPiece.isWord] at h, ih⟩

/-! ### slices and maps of ARBITRARY strings, printed item by item -/

def printSliceItems : List (List QItem) → List Char
  | [] => []
  | [x] => quoteItems x
  | x :: xs => quoteItems x ++ ',' :: printSliceItems xs

def qslicePieces : List (List QItem) → List WPiece
  | [] => []
  | [x] => [.qstr x]
  | x :: y :: xs => .qstr x :: .comma :: qslicePieces (y :: xs)

theorem printSliceItems_wrender : ∀ xs, printSliceItems xs = wrender (qslicePieces xs)
  | [] => rfl
  | [x] => by simp [printSliceItems, qslicePieces, wrender, WPiece.text]
  | x :: y :: xs => by
    have := printSliceItems_wrender (y :: xs)
    simp [printSliceItems, qslicePieces, wrender, WPiece.text] at this ⊢
    exact this

theorem qslicePieces_toks : ∀ xs, (qslicePieces xs).map WPiece.tok ++ [.eof] = canonSlice (xs.map itemsBytes)
  | [] => rfl
  | [x] => rfl
  | x :: y :: xs => by
    have := qslicePieces_toks (y :: xs)
    simp [qslicePieces, canonSlice, WPiece.tok] at this ⊢
    exact this

theorem qslicePieces_renderable (m : Bool) : ∀ xs : List (List QItem), (∀ x ∈ xs, ∀ i ∈ x, i.ok) → Renderable m (qslicePieces xs)
  | [], _ => trivial
  | [x], h => h x (by simp)
  | x :: y :: xs, h => by
    have ih := qslicePieces_renderable m (y :: xs) (fun z hz => h z (by simp [List.mem_cons] at hz ⊢; right; exact hz))
    refine ⟨h x (by simp), fun hw => by simp [WPiece.isWord] at hw, ?_⟩
    cases xs with
    | nil => exact ⟨trivial, fun h => by simp [WPiece.isWord] at h, ih⟩
    | cons u us => exact ⟨trivial, fun h => by simp [WPiece.isWord] at h, ih⟩

def printMapItems : List (List QItem × List QItem) → List Char
  | [] => []
  | [(k, v)] => quoteItems k ++ ':' :: quoteItems v
  | (k, v) :: rest => quoteItems k ++ ':' :: (quoteItems v ++ ',' :: printMapItems rest)

def qmapPieces : List (List QItem × List QItem) → List WPiece
  | [] => []
  | [(k, v)] => [.qstr k, .colon, .qstr v]
  | (k, v) :: q :: rest => .qstr k :: .colon :: .qstr v :: .comma :: qmapPieces (q :: rest)

theorem printMapItems_wrender : ∀ kvs, printMapItems kvs = wrender (qmapPieces kvs)
  | [] => rfl
  | [(k, v)] => by simp [printMapItems, qmapPieces, wrender, WPiece.text]
  | (k, v) :: q :: rest => by
    have := printMapItems_wrender (q :: rest)
    simp [printMapItems, qmapPieces, wrender, WPiece.text] at this ⊢
    exact this

theorem qmapPieces_toks : ∀ kvs : List (List QItem × List QItem),
    (qmapPieces kvs).map WPiece.tok ++ [.eof] = canonMap (kvs.map fun p => (itemsBytes p.1, itemsBytes p.2))
  | [] => rfl
  | [(k, v)] => rfl
  | (k, v) :: q :: rest => by
    have := qmapPieces_toks (q :: rest)
    simp [qmapPieces, canonMap, WPiece.tok] at this ⊢
    exact this

theorem qmapPieces_renderable : ∀ kvs : List (List QItem × List QItem),
    (∀ p ∈ kvs, (∀ i ∈ p.1, i.ok) ∧ (∀ i ∈ p.2, i.ok)) → Renderable true (qmapPieces kvs)
  | [], _ => trivial
  | [(k, v)], h => by
    have hkv := h (k, v) (by simp)
    exact ⟨hkv.1, fun hw => by simp [WPiece.isWord] at hw, rfl, fun h => by simp [WPiece.isWord] at h, hkv.2⟩
  | (k, v) :: q :: rest, h => by
    have hkv := h (k, v) (by simp)
    have ih := qmapPieces_renderable (q :: rest) (fun x hx => h x (by simp [List.mem_cons] at hx ⊢; right; exact hx))
    refine ⟨hkv.1, fun hw => by simp [WPiece.isWord] at hw, rfl, fun h => by simp [WPiece.isWord] at h, hkv.2,
      fun hw => by simp [WPiece.isWord] at hw, ?_⟩
    obtain ⟨k2, v2⟩ := q
    cases rest with
    | nil => exact ⟨trivial, fun h => by simp [WPiece.isWord] at h, ih⟩
    | cons u us => exact ⟨trivial, fun h => by simp [WPiece.isWord] at h, ih⟩

end Dials.Parse
