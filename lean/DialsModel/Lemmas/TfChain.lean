/-
Chain-level round trip for the Transformer (C10): a spec-level notion of a lossless mangler
(`Lossless`: an encoder in the direction opposite to `unmangle`, with its laws), the forward
encoder of one layer (`encLayer` / `encVal`, the mirror image of `unmangleLayer` / `recurseVal`,
including the recursion into struct-typed fields behind pointer / slice / array), the layer theorem
(`unmangleLayer_encLayer`), the chain theorem (`chain_roundtrip`) and the `Lossless` instances of
the library's manglers.
-/
import DialsModel.Lemmas.Tf

namespace Dials.Tf

/-! ### pointwise relation between a field list and a value list -/

/-- `R` holds between the fields and the values position by position (and the lengths agree) -/
def All2 (R : FT → Val → Prop) : List FT → List Val → Prop
  | [], [] => True
  | f :: fs, v :: vs => R f v ∧ All2 R fs vs
  | _, _ => False

@[simp] theorem All2_nil (R : FT → Val → Prop) : All2 R [] [] = True := rfl
@[simp] theorem All2_cons (R : FT → Val → Prop) (f : FT) (fs : List FT) (v : Val) (vs : List Val) :
    All2 R (f :: fs) (v :: vs) = (R f v ∧ All2 R fs vs) := rfl
@[simp] theorem All2_nil_cons (R : FT → Val → Prop) (v : Val) (vs : List Val) :
    All2 R [] (v :: vs) = False := rfl
@[simp] theorem All2_cons_nil (R : FT → Val → Prop) (f : FT) (fs : List FT) :
    All2 R (f :: fs) [] = False := rfl

theorem All2.length {R : FT → Val → Prop} : ∀ {fs : List FT} {vs : List Val}, All2 R fs vs → vs.length = fs.length
  | [], [], _ => rfl
  | [], _ :: _, h => by simp at h
  | _ :: _, [], h => by simp at h
  | _ :: fs, _ :: vs, h => by
    simp only [All2_cons] at h
    simp [All2.length h.2]

theorem All2.mono {R S : FT → Val → Prop} (hrs : ∀ f v, R f v → S f v) :
    ∀ {fs : List FT} {vs : List Val}, All2 R fs vs → All2 S fs vs
  | [], [], _ => by simp
  | [], _ :: _, h => by simp at h
  | _ :: _, [], h => by simp at h
  | f :: fs, v :: vs, h => by
    simp only [All2_cons] at h ⊢
    exact ⟨hrs f v h.1, All2.mono hrs h.2⟩

theorem All2.mem {R : FT → Val → Prop} : ∀ {fs : List FT} {vs : List Val}, All2 R fs vs →
    ∀ f v, (f, v) ∈ fs.zip vs → R f v
  | [], [], _, f, v, hm => by simp at hm
  | [], _ :: _, h, _, _, _ => by simp at h
  | _ :: _, [], h, _, _, _ => by simp at h
  | f' :: fs, v' :: vs, h, f, v, hm => by
    simp only [All2_cons] at h
    simp only [List.zip_cons_cons, List.mem_cons, Prod.mk.injEq] at hm
    rcases hm with ⟨rfl, rfl⟩ | hm
    · exact h.1
    · exact All2.mem h.2 f v hm

theorem All2.of_mem {R : FT → Val → Prop} : ∀ {fs : List FT} {vs : List Val}, vs.length = fs.length →
    (∀ f v, (f, v) ∈ fs.zip vs → R f v) → All2 R fs vs
  | [], [], _, _ => by simp
  | [], _ :: _, h, _ => by simp at h
  | _ :: _, [], h, _ => by simp at h
  | f :: fs, v :: vs, hl, h => by
    simp only [All2_cons]
    exact ⟨h f v (by simp), All2.of_mem (by simpa using hl) (fun f' v' hm => h f' v' (by simp [hm]))⟩

/-! ### the shape of a value under a struct-ish type -/

/-- a value `w` of the struct-ish type `t` (inner struct fields `ifs`): a struct value behind the
type's wrapper (pointer: nil or a pointer to a struct value; slice: nil or a list of struct values;
array: a list of struct values) whose field values satisfy `R` against the inner fields -/
def Shaped (R : List FT → List Val → Prop) (ifs : Fields) : Ty → Val → Prop
  | .ptr _, .nilv => True
  | .ptr _, .ptr (.struct svs) => R ifs.toList svs
  | .struct _, .struct svs => R ifs.toList svs
  | .slice _, .nilv => True
  | .slice _, .list xs => ∀ x ∈ xs, ∃ svs, x = .struct svs ∧ R ifs.toList svs
  | .array _ _, .list xs => ∀ x ∈ xs, ∃ svs, x = .struct svs ∧ R ifs.toList svs
  | _, _ => False

theorem structish_some {t : Ty} {ifs : Fields} {wrap : Ty → Ty} (h : structish t = some (ifs, wrap)) :
    t = .struct ifs ∨ t = .ptr (.struct ifs) ∨ t = .slice (.struct ifs) ∨ ∃ n, t = .array n (.struct ifs) := by
  cases t with
  | struct fs => simp [structish] at h; simp [h.1]
  | ptr e => cases e <;> simp [structish] at h; simp [h.1]
  | slice e => cases e <;> simp [structish] at h; simp [h.1]
  | array n e => cases e <;> simp [structish] at h; simp [h.1]
  | _ => simp [structish] at h

/-! ### lossless manglers -/

/-- A lossless mangler.  `enc` translates a value of an original field into the values of its mangled
fields (the direction opposite to `unmangle`; it exists only in the specification).  `Dom f` = the
fields, `Good f v` = the values the laws are claimed for.

* `len`: the encoder fills exactly the fields `mangle` produced;
* `inv`: `unmangle` of the encoded values is the original value.  `unmangleLayer` hands `unmangle`
  the outputs with their RECURSIVELY MANGLED types, so the law is stated for every list `outs'` of
  the right length in place of `outs` (all library manglers ignore the field components of the tuples);
* `sub`: for a recursing mangler, the encoded value of a struct-ish output field is a struct value
  behind the type's wrapper whose inner values are again in the domain of the laws (this is what makes
  `Good` hereditary; it is a one-step condition, the induction is done once in the layer theorem). -/
structure Lossless (m : Mangler) (Dom : FT → Prop) (Good : FT → Val → Prop) where
  enc : Hdr → Ty → Val → List Val
  len : ∀ f, Dom f → ∀ outs, m.mangle f.1 f.2 = .ok outs → ∀ v, Good f v →
          (enc f.1 f.2 v).length = outs.length
  inv : ∀ f, Dom f → ∀ outs, m.mangle f.1 f.2 = .ok outs → ∀ v, Good f v →
          ∀ outs' : List FT, outs'.length = outs.length →
            m.unmangle f.1 f.2 (outs'.zip (enc f.1 f.2 v)) = .ok v
  sub : m.recurse = true → ∀ f, Dom f → ∀ outs, m.mangle f.1 f.2 = .ok outs → ∀ v, Good f v →
          ∀ o w, (o, w) ∈ outs.zip (enc f.1 f.2 v) → ∀ ifs wrap, structish o.2 = some (ifs, wrap) →
            Shaped (All2 fun g x => Dom g ∧ Good g x) ifs o.2 w

/-! ### the forward encoder of one layer -/

mutual
/-- one mangler, forwards, over one layer of values: `fs` are the layer's INPUT fields, `vs` their
values; the result are the values of the layer's OUTPUT fields (`mangleLayer fuel m fs`) -/
def encLayer (m : Mangler) (enc : Hdr → Ty → Val → List Val) : Nat → List FT → List Val → List Val
  | 0, _, _ => []
  | fuel + 1, fs, vs =>
    ((fs.zip vs).map fun (p : FT × Val) =>
      match m.mangle p.1.1 p.1.2 with
      | .ok outs => (outs.zip (enc p.1.1 p.1.2 p.2)).map fun (q : FT × Val) => encVal m enc fuel q.1 q.2
      | _ => []).flatten
/-- the value of one output field: if the mangler recurses and the field is struct-ish, the struct
value(s) behind the pointer / slice / array are encoded with the same mangler -/
def encVal (m : Mangler) (enc : Hdr → Ty → Val → List Val) : Nat → FT → Val → Val
  | 0, _, v => v
  | fuel + 1, (_, t), v =>
    if !m.recurse then v
    else match structish t with
      | none => v
      | some (ifs, _) =>
        let inner (sv : Val) : Val :=
          match sv with
          | .struct svs => .struct (encLayer m enc fuel ifs.toList svs)
          | x => x
        match t, v with
        | .ptr _, .ptr sv => .ptr (inner sv)
        | .struct _, sv => inner sv
        | .slice _, .list xs => .list (xs.map inner)
        | .array _ _, .list xs => .list (xs.map inner)
        | _, x => x
end

/-! ### unfolding -/

/-- the encoded values of one field's outputs -/
def encGroup (m : Mangler) (enc : Hdr → Ty → Val → List Val) (fuel : Nat) (p : FT × Val) : List Val :=
  match m.mangle p.1.1 p.1.2 with
  | .ok outs => (outs.zip (enc p.1.1 p.1.2 p.2)).map fun (q : FT × Val) => encVal m enc fuel q.1 q.2
  | _ => []

theorem encLayer_succ (m : Mangler) (enc : Hdr → Ty → Val → List Val) (fuel : Nat) (fs : List FT) (vs : List Val) :
    encLayer m enc (fuel + 1) fs vs = ((fs.zip vs).map (encGroup m enc fuel)).flatten := by
  rw [encLayer]; rfl

/-- the body of `unmangleLayer`'s loop over the (field, outputs, output values) triples -/
def unmBody (fuel : Nat) (m : Mangler) (x : FT × List FT × List Val) : Outcome Val :=
  let (f, outs, gvals) := x
  if outs.length != gvals.length then .panic "slice bounds out of range"
  else
    match mapM' (fun (p : FT × Val) => recurseVal fuel m p.1 p.2) (outs.zip gvals) with
    | .ok vs =>
      match mapM' (recurseType fuel m) outs with
      | .ok outs' => m.unmangle f.1 f.2 (outs'.zip vs)
      | .err c => .err c
      | .panic c => .panic c
    | .err c => .err c
    | .panic c => .panic c

theorem unmangleLayer_succ (fuel : Nat) (m : Mangler) (fs : List FT) (vals : List Val) :
    unmangleLayer (fuel + 1) m fs vals =
      match mapM' (fun (f : FT) => m.mangle f.1 f.2) fs with
      | .err c => .err c
      | .panic c => .panic c
      | .ok outss => mapM' (unmBody fuel m) (fs.zip (outss.zip (splitCounts (outss.map List.length) vals))) := by
  rw [unmangleLayer]; rfl

theorem unmBody_ok {fuel : Nat} {m : Mangler} {f : FT} {outs outs' : List FT} {gvals ws : List Val} {v : Val}
    (hl : gvals.length = outs.length)
    (hv : mapM' (fun (p : FT × Val) => recurseVal fuel m p.1 p.2) (outs.zip gvals) = .ok ws)
    (ht : mapM' (recurseType fuel m) outs = .ok outs')
    (hu : m.unmangle f.1 f.2 (outs'.zip ws) = .ok v) : unmBody fuel m (f, outs, gvals) = .ok v := by
  simp only [unmBody, hl, bne_self_eq_false, Bool.false_eq_true, if_false, hv, ht, hu]

/-! ### mapM' helpers -/

theorem mapM'_mem_ok {α β} {f : α → Outcome β} : ∀ {xs : List α} {r : List β}, mapM' f xs = .ok r →
    ∀ x ∈ xs, ∃ b, f x = .ok b
  | [], _, _, x, hx => by simp at hx
  | y :: ys, r, h, x, hx => by
    obtain ⟨c, cs, hc, hcs, rfl⟩ := mapM'_cons_ok h
    simp only [List.mem_cons] at hx
    rcases hx with rfl | hx
    · exact ⟨c, hc⟩
    · exact mapM'_mem_ok hcs x hx

theorem mapM'_map_ok {α β} {f : α → Outcome β} {g : β → α} : ∀ (xs : List β), (∀ x ∈ xs, f (g x) = .ok x) →
    mapM' f (xs.map g) = .ok xs
  | [], _ => by simp [mapM']
  | x :: xs, h => by
    simp [mapM', h x (by simp), mapM'_map_ok xs (fun y hy => h y (by simp [hy]))]

theorem mapM'_zip_enc {rv : FT → Val → Outcome Val} {ev : FT → Val → Val} :
    ∀ (outs : List FT) (ws : List Val), ws.length = outs.length →
      (∀ o w, (o, w) ∈ outs.zip ws → rv o (ev o w) = .ok w) →
      mapM' (fun (p : FT × Val) => rv p.1 p.2) (outs.zip ((outs.zip ws).map fun q => ev q.1 q.2)) = .ok ws
  | [], [], _, _ => by simp [mapM']
  | [], _ :: _, h, _ => by simp at h
  | _ :: _, [], h, _ => by simp at h
  | o :: outs, w :: ws, hl, h => by
    have h1 := h o w (by simp)
    have h2 := mapM'_zip_enc outs ws (by simpa using hl) (fun o' w' hm => h o' w' (by simp [hm]))
    simp [mapM', h1, h2]

/-- a successful `mangleLayer` pass: every field's `mangle` succeeded, and so did the recursion into
each of its outputs; the groups have the lengths of the manglers' own outputs -/
theorem mangleLayer_groups (fuel : Nat) (m : Mangler) : ∀ (fs : List FT) (groups : List (List FT)),
    mapM' (fun (f : FT) =>
      match m.mangle f.1 f.2 with
      | .ok outs => mapM' (recurseType fuel m) outs
      | .err c => .err c
      | .panic c => .panic c) fs = .ok groups →
    ∃ outss, mapM' (fun (f : FT) => m.mangle f.1 f.2) fs = .ok outss ∧
      outss.map List.length = groups.map List.length ∧
      ∀ f ∈ fs, ∃ outs outs', m.mangle f.1 f.2 = .ok outs ∧ mapM' (recurseType fuel m) outs = .ok outs'
  | [], groups, h => by
    simp [mapM'] at h; subst h
    exact ⟨[], by simp [mapM'], rfl, by simp⟩
  | f :: fs, groups, h => by
    obtain ⟨b, bs, hb, hbs, rfl⟩ := mapM'_cons_ok h
    obtain ⟨outss, h1, h2, h3⟩ := mangleLayer_groups fuel m fs bs hbs
    split at hb
    · rename_i outs hm
      refine ⟨outs :: outss, by simp [mapM', hm, h1], by simp [h2, mapM'_length hb], ?_⟩
      intro g hg
      simp only [List.mem_cons] at hg
      rcases hg with rfl | hg
      · exact ⟨outs, b, hm, hb⟩
      · exact h3 g hg
    · cases hb
    · cases hb

theorem mangleLayer_succ_ok {fuel : Nat} {m : Mangler} {fs fs' : List FT}
    (h : mangleLayer (fuel + 1) m fs = .ok fs') :
    ∃ groups, mapM' (fun (f : FT) =>
      match m.mangle f.1 f.2 with
      | .ok outs => mapM' (recurseType fuel m) outs
      | .err c => .err c
      | .panic c => .panic c) fs = .ok groups ∧ fs' = groups.flatten := by
  simp only [mangleLayer] at h
  split at h
  · rename_i groups hg
    cases h
    exact ⟨groups, hg, rfl⟩
  · cases h
  · cases h

/-! ### the layer theorem -/

/-- the loop of `unmangleLayer` over the encoded groups, given the statement for each field -/
theorem layer_groups (m : Mangler) (enc : Hdr → Ty → Val → List Val) (fuel : Nat) (R : FT → Val → Prop)
    (hb : ∀ f v outs, R f v → m.mangle f.1 f.2 = .ok outs →
      (encGroup m enc fuel (f, v)).length = outs.length ∧
        unmBody fuel m (f, outs, encGroup m enc fuel (f, v)) = .ok v) :
    ∀ (fs : List FT) (vs : List Val) (outss : List (List FT)),
      mapM' (fun (f : FT) => m.mangle f.1 f.2) fs = .ok outss → All2 R fs vs →
      ((fs.zip vs).map (encGroup m enc fuel)).map List.length = outss.map List.length ∧
      mapM' (unmBody fuel m) (fs.zip (outss.zip ((fs.zip vs).map (encGroup m enc fuel)))) = .ok vs
  | [], [], outss, h, _ => by
    simp [mapM'] at h; subst h; simp [mapM']
  | [], _ :: _, _, _, h => by simp at h
  | _ :: _, [], _, _, h => by simp at h
  | f :: fs, v :: vs, outss, h, hr => by
    obtain ⟨outs, outss', ho, hos, rfl⟩ := mapM'_cons_ok h
    simp only [All2_cons] at hr
    obtain ⟨ih1, ih2⟩ := layer_groups m enc fuel R hb fs vs outss' hos hr.2
    obtain ⟨h1, h2⟩ := hb f v outs hr.1 ho
    constructor
    · simp only [List.zip_cons_cons, List.map_cons, h1, ih1]
    · simp only [List.zip_cons_cons, List.map_cons, mapM', h2, ih2]

/-- `recurseVal` undoes `encVal` on one output field, given the layer statement at the inner fuel -/
theorem recurseVal_encVal (m : Mangler) (enc : Hdr → Ty → Val → List Val) (R : FT → Val → Prop) (fuel : Nat)
    (hP : ∀ (fs fs' : List FT) (vs : List Val), mangleLayer fuel m fs = .ok fs' → All2 R fs vs →
      unmangleLayer fuel m fs (encLayer m enc fuel fs vs) = .ok vs)
    (o o' : FT) (w : Val) (ht : recurseType (fuel + 1) m o = .ok o')
    (hsh : m.recurse = true → ∀ ifs wrap, structish o.2 = some (ifs, wrap) → Shaped (All2 R) ifs o.2 w) :
    recurseVal (fuel + 1) m o (encVal m enc (fuel + 1) o w) = .ok w := by
  obtain ⟨h, t⟩ := o
  cases hr : m.recurse with
  | false => simp [recurseVal, encVal, hr]
  | true =>
    cases hs : structish t with
    | none => simp [recurseVal, encVal, hr, hs]
    | some x =>
      obtain ⟨ifs, wrap⟩ := x
      have hshape := hsh hr ifs wrap hs
      simp only [recurseType, hr, hs] at ht
      have hml : ∃ r, mangleLayer fuel m ifs.toList = .ok r := by
        simp only [Bool.not_true, Bool.false_eq_true, if_false] at ht
        split at ht
        · rename_i r hr'
          exact ⟨r, hr'⟩
        · cases ht
        · cases ht
      obtain ⟨r, hr'⟩ := hml
      have hin : ∀ svs, All2 R ifs.toList svs →
          unmangleLayer fuel m ifs.toList (encLayer m enc fuel ifs.toList svs) = .ok svs :=
        fun svs hg => hP ifs.toList r svs hr' hg
      rcases structish_some hs with rfl | rfl | rfl | ⟨n, rfl⟩
      · cases w with
        | struct svs =>
          simp only [Shaped] at hshape
          simp only [recurseVal, encVal, hr, structish, Bool.not_true, Bool.false_eq_true, if_false, hin svs hshape]
        | _ => simp [Shaped] at hshape
      · cases w with
        | nilv => simp [recurseVal, encVal, hr, structish]
        | ptr sv =>
          cases sv with
          | struct svs =>
            simp only [Shaped] at hshape
            simp only [recurseVal, encVal, hr, structish, Bool.not_true, Bool.false_eq_true, if_false, hin svs hshape]
            rfl
          | _ => simp [Shaped] at hshape
        | _ => simp [Shaped] at hshape
      · cases w with
        | nilv => simp [recurseVal, encVal, hr, structish]
        | list xs =>
          simp only [Shaped] at hshape
          simp only [recurseVal, encVal, hr, structish, Bool.not_true, Bool.false_eq_true, if_false]
          rw [mapM'_map_ok xs]
          · rfl
          · intro x hx
            obtain ⟨svs, rfl, hg⟩ := hshape x hx
            simp only [hin svs hg]
        | _ => simp [Shaped] at hshape
      · cases w with
        | list xs =>
          simp only [Shaped] at hshape
          simp only [recurseVal, encVal, hr, structish, Bool.not_true, Bool.false_eq_true, if_false]
          rw [mapM'_map_ok xs]
          · rfl
          · intro x hx
            obtain ⟨svs, rfl, hg⟩ := hshape x hx
            simp only [hin svs hg]
        | _ => simp [Shaped] at hshape

/-- one layer at fuel + 1, given the statement for the output fields at `fuel` -/
theorem layer_step {m : Mangler} {Dom : FT → Prop} {Good : FT → Val → Prop} (L : Lossless m Dom Good) (fuel : Nat)
    (hQ : ∀ (o o' : FT) (w : Val), recurseType fuel m o = .ok o' →
      (m.recurse = true → ∀ ifs wrap, structish o.2 = some (ifs, wrap) →
        Shaped (All2 fun g x => Dom g ∧ Good g x) ifs o.2 w) →
      recurseVal fuel m o (encVal m L.enc fuel o w) = .ok w)
    (fs fs' : List FT) (vs : List Val) (hm : mangleLayer (fuel + 1) m fs = .ok fs')
    (hgood : All2 (fun f v => Dom f ∧ Good f v) fs vs) :
    unmangleLayer (fuel + 1) m fs (encLayer m L.enc (fuel + 1) fs vs) = .ok vs ∧
      (encLayer m L.enc (fuel + 1) fs vs).length = fs'.length := by
  obtain ⟨groups, hg, rfl⟩ := mangleLayer_succ_ok hm
  obtain ⟨outss, hmg, hlen, hall⟩ := mangleLayer_groups fuel m fs groups hg
  let R' : FT → Val → Prop := fun f v => (Dom f ∧ Good f v) ∧
    ∃ outs outs', m.mangle f.1 f.2 = .ok outs ∧ mapM' (recurseType fuel m) outs = .ok outs'
  have hR : All2 R' fs vs := All2.of_mem (All2.length hgood)
    (fun f v hmem => ⟨All2.mem hgood f v hmem, hall f (List.of_mem_zip hmem).1⟩)
  have hb : ∀ f v outs, R' f v → m.mangle f.1 f.2 = .ok outs →
      (encGroup m L.enc fuel (f, v)).length = outs.length ∧
        unmBody fuel m (f, outs, encGroup m L.enc fuel (f, v)) = .ok v := by
    intro f v outs hr hmf
    obtain ⟨⟨hd, hgd⟩, outs0, outs', hm0, hrt⟩ := hr
    rw [hm0] at hmf; cases hmf
    have hl := L.len f hd outs hm0 v hgd
    have eg : encGroup m L.enc fuel (f, v) =
        (outs.zip (L.enc f.1 f.2 v)).map fun q => encVal m L.enc fuel q.1 q.2 := by
      simp only [encGroup, hm0]
    rw [eg]
    have hlen' : ((outs.zip (L.enc f.1 f.2 v)).map fun q => encVal m L.enc fuel q.1 q.2).length = outs.length := by
      simp [hl]
    refine ⟨hlen', unmBody_ok hlen' ?_ hrt (L.inv f hd outs hm0 v hgd outs' (mapM'_length hrt))⟩
    apply mapM'_zip_enc (rv := recurseVal fuel m) (ev := encVal m L.enc fuel) outs (L.enc f.1 f.2 v) hl
    intro o w hmem
    obtain ⟨o', ho'⟩ := mapM'_mem_ok hrt o (List.of_mem_zip hmem).1
    exact hQ o o' w ho' (fun hrec ifs wrap hs => L.sub hrec f hd outs hm0 v hgd o w hmem ifs wrap hs)
  obtain ⟨h1, h2⟩ := layer_groups m L.enc fuel R' hb fs vs outss hmg hR
  constructor
  · rw [unmangleLayer_succ, hmg, encLayer_succ]
    simp only
    rw [← h1, splitCounts_flatten]
    exact h2
  · rw [encLayer_succ, List.length_flatten, List.length_flatten, h1, hlen]

/-- LAYER THEOREM (full recursion, no `NoRec` restriction): for a lossless mangler, a field list on
which `mangleLayer` succeeds and good values, `unmangleLayer` undoes `encLayer`, and `encLayer` fills
exactly the translated fields. -/
theorem unmangleLayer_encLayer {m : Mangler} {Dom : FT → Prop} {Good : FT → Val → Prop} (L : Lossless m Dom Good) :
    ∀ (fuel : Nat),
      (∀ (fs fs' : List FT) (vs : List Val), mangleLayer fuel m fs = .ok fs' →
        All2 (fun f v => Dom f ∧ Good f v) fs vs →
        unmangleLayer fuel m fs (encLayer m L.enc fuel fs vs) = .ok vs ∧
          (encLayer m L.enc fuel fs vs).length = fs'.length) ∧
      (∀ (o o' : FT) (w : Val), recurseType fuel m o = .ok o' →
        (m.recurse = true → ∀ ifs wrap, structish o.2 = some (ifs, wrap) →
          Shaped (All2 fun g x => Dom g ∧ Good g x) ifs o.2 w) →
        recurseVal fuel m o (encVal m L.enc fuel o w) = .ok w)
  | 0 => by
    constructor
    · intro fs fs' vs hm; simp [mangleLayer] at hm
    · intro o o' w ht; simp [recurseType] at ht
  | fuel + 1 => by
    obtain ⟨ihP, ihQ⟩ := unmangleLayer_encLayer L fuel
    constructor
    · intro fs fs' vs hm hgood
      exact layer_step L fuel ihQ fs fs' vs hm hgood
    · intro o o' w ht hsh
      exact recurseVal_encVal m L.enc (fun g x => Dom g ∧ Good g x) fuel
        (fun fs fs' vs hm hg => (ihP fs fs' vs hm hg).1) o o' w ht hsh

/-! ### the chain -/

/-- a mangler packaged with its losslessness data -/
structure LM where
  m : Mangler
  Dom : FT → Prop
  Good : FT → Val → Prop
  L : Lossless m Dom Good

/-- the translated values: `encLayer` along the layers of the chain, first mangler first -/
def encChain (fuel : Nat) : List LM → List FT → List Val → List Val
  | [], _, vs => vs
  | l :: ls, fs, vs =>
    match mangleLayer fuel l.m fs with
    | .ok fs' => encChain fuel ls fs' (encLayer l.m l.L.enc fuel fs vs)
    | _ => []

/-- the values are good for every layer they pass: `vs` for the first mangler on `fs`, their encoding
for the second mangler on the translated fields, … -/
def ChainGood (fuel : Nat) : List LM → List FT → List Val → Prop
  | [], fs, vs => vs.length = fs.length
  | l :: ls, fs, vs => All2 (fun f v => l.Dom f ∧ l.Good f v) fs vs ∧
      ∀ fs', mangleLayer fuel l.m fs = .ok fs' → ChainGood fuel ls fs' (encLayer l.m l.L.enc fuel fs vs)

theorem chain_roundtrip_fold (fuel : Nat) : ∀ (ls : List LM) (fs tfs : List FT) (vs : List Val),
    translate fuel (ls.map (·.m)) fs = .ok tfs → ChainGood fuel ls fs vs →
    ∃ lys, layers fuel (ls.map (·.m)) fs = .ok lys ∧
      reverseFold fuel lys (encChain fuel ls fs vs) = .ok vs ∧ (encChain fuel ls fs vs).length = tfs.length
  | [], fs, tfs, vs, h, hg => by
    simp [translate] at h; subst h
    exact ⟨[], by simp [layers], by simp [reverseFold, encChain], by simpa [encChain, ChainGood] using hg⟩
  | l :: ls, fs, tfs, vs, h, hg => by
    simp only [List.map_cons, translate] at h
    split at h
    · rename_i fs' hm
      obtain ⟨hg1, hg2⟩ := hg
      obtain ⟨r, hr, ih1, ih2⟩ := chain_roundtrip_fold fuel ls fs' tfs _ h (hg2 fs' hm)
      refine ⟨(l.m, fs) :: r, by simp [layers, hm, hr], ?_, ?_⟩
      · simp only [encChain, hm, reverseFold, List.foldr_cons] at ih1 ⊢
        rw [ih1]
        exact ((unmangleLayer_encLayer l.L fuel).1 fs fs' vs hm hg1).1
      · simpa only [encChain, hm] using ih2
    · cases h
    · cases h

/-- CHAIN THEOREM: for a chain of lossless manglers on which `translate` succeeds and values that are
good for every layer, `reverse` undoes `encChain`, and `encChain` fills exactly the translated fields. -/
theorem chain_roundtrip (fuel : Nat) (ls : List LM) (fs tfs : List FT) (vs : List Val)
    (ht : translate fuel (ls.map (·.m)) fs = .ok tfs) (hg : ChainGood fuel ls fs vs) :
    reverse fuel (ls.map (·.m)) fs (encChain fuel ls fs vs) = .ok vs ∧
      (encChain fuel ls fs vs).length = tfs.length := by
  obtain ⟨lys, hl, h1, h2⟩ := chain_roundtrip_fold fuel ls fs tfs vs ht hg
  exact ⟨by rw [reverse_eq fuel _ fs _ lys hl]; exact h1, h2⟩

/-! ### hereditary goodness -/

mutual
/-- `v` is well shaped for `t` as far as a recursing mangler descends — a struct value (one value per
field) under a struct type, nil or a pointer to one under a pointer to a struct, nil or a list of
them under a slice of structs, a list of them under an array of structs; every other type is not
looked into — and the local condition `P` holds for every field value of these struct values,
hereditarily -/
def Hered (P : Hdr → Ty → Val → Prop) : Ty → Val → Prop
  | .struct fs, v => ∃ svs, v = .struct svs ∧ HeredFs P fs svs
  | .ptr (.struct fs), v => v = .nilv ∨ ∃ svs, v = .ptr (.struct svs) ∧ HeredFs P fs svs
  | .slice (.struct fs), v =>
    v = .nilv ∨ ∃ xs, v = .list xs ∧ ∀ x ∈ xs, ∃ svs, x = .struct svs ∧ HeredFs P fs svs
  | .array _ (.struct fs), v => ∃ xs, v = .list xs ∧ ∀ x ∈ xs, ∃ svs, x = .struct svs ∧ HeredFs P fs svs
  | _, _ => True
def HeredFs (P : Hdr → Ty → Val → Prop) : Fields → List Val → Prop
  | .nil, vs => vs = []
  | .cons n tg a t r, vs => ∃ v vs', vs = v :: vs' ∧ P ⟨n, tg, a⟩ t v ∧ Hered P t v ∧ HeredFs P r vs'
end

/-- the hereditary closure of a local condition: it holds at the field itself and at every field
value of the struct values below it -/
def HG (P : Hdr → Ty → Val → Prop) : FT → Val → Prop := fun f v => P f.1 f.2 v ∧ Hered P f.2 v

@[simp] theorem HeredFs_nil (P : Hdr → Ty → Val → Prop) : HeredFs P .nil [] ↔ True := by simp [HeredFs]
@[simp] theorem HeredFs_cons (P : Hdr → Ty → Val → Prop) (n : String) (tg : List (String × String)) (a : Bool)
    (t : Ty) (r : Fields) (v : Val) (vs : List Val) :
    HeredFs P (.cons n tg a t r) (v :: vs) ↔ P ⟨n, tg, a⟩ t v ∧ Hered P t v ∧ HeredFs P r vs := by
  simp only [HeredFs]
  constructor
  · rintro ⟨v', vs', h, hp, hh, hr⟩
    cases h
    exact ⟨hp, hh, hr⟩
  · rintro ⟨hp, hh, hr⟩
    exact ⟨v, vs, rfl, hp, hh, hr⟩
@[simp] theorem Hered_struct (P : Hdr → Ty → Val → Prop) (fs : Fields) (svs : List Val) :
    Hered P (.struct fs) (.struct svs) ↔ HeredFs P fs svs := by
  simp [Hered]
@[simp] theorem Hered_ptr_struct (P : Hdr → Ty → Val → Prop) (fs : Fields) (svs : List Val) :
    Hered P (.ptr (.struct fs)) (.ptr (.struct svs)) ↔ HeredFs P fs svs := by
  simp [Hered]
@[simp] theorem Hered_slice_struct (P : Hdr → Ty → Val → Prop) (fs : Fields) (xs : List Val) :
    Hered P (.slice (.struct fs)) (.list xs) ↔ ∀ x ∈ xs, ∃ svs, x = .struct svs ∧ HeredFs P fs svs := by
  simp [Hered]
@[simp] theorem Hered_array_struct (P : Hdr → Ty → Val → Prop) (n : Nat) (fs : Fields) (xs : List Val) :
    Hered P (.array n (.struct fs)) (.list xs) ↔ ∀ x ∈ xs, ∃ svs, x = .struct svs ∧ HeredFs P fs svs := by
  simp [Hered]

theorem HeredFs_All2 (P : Hdr → Ty → Val → Prop) : ∀ (fs : Fields) (svs : List Val),
    HeredFs P fs svs → All2 (HG P) fs.toList svs
  | .nil, svs, h => by
    simp only [HeredFs] at h; subst h; simp [Fields.toList]
  | .cons n tg a t r, svs, h => by
    simp only [HeredFs] at h
    obtain ⟨v, vs', rfl, hp, hh, hr⟩ := h
    simp only [Fields.toList, All2_cons]
    exact ⟨⟨hp, hh⟩, HeredFs_All2 P r vs' hr⟩

theorem All2_HeredFs (P : Hdr → Ty → Val → Prop) : ∀ (fs : Fields) (svs : List Val),
    All2 (HG P) fs.toList svs → HeredFs P fs svs
  | .nil, [], _ => by simp [HeredFs]
  | .nil, _ :: _, h => by simp [Fields.toList] at h
  | .cons n tg a t r, [], h => by simp [Fields.toList] at h
  | .cons n tg a t r, v :: vs, h => by
    simp only [Fields.toList, All2_cons] at h
    simp only [HeredFs]
    exact ⟨v, vs, rfl, h.1.1, h.1.2, All2_HeredFs P r vs h.2⟩

theorem Hered_shaped {P : Hdr → Ty → Val → Prop} {t : Ty} {ifs : Fields} {wrap : Ty → Ty} {v : Val}
    (hs : structish t = some (ifs, wrap)) (h : Hered P t v) : Shaped (All2 (HG P)) ifs t v := by
  rcases structish_some hs with rfl | rfl | rfl | ⟨n, rfl⟩
  · simp only [Hered] at h
    obtain ⟨svs, rfl, hf⟩ := h
    exact HeredFs_All2 P ifs svs hf
  · simp only [Hered] at h
    rcases h with rfl | ⟨svs, rfl, hf⟩
    · simp [Shaped]
    · exact HeredFs_All2 P ifs svs hf
  · simp only [Hered] at h
    rcases h with rfl | ⟨xs, rfl, hf⟩
    · simp [Shaped]
    · intro x hx
      obtain ⟨svs, rfl, hf'⟩ := hf x hx
      exact ⟨svs, rfl, HeredFs_All2 P ifs svs hf'⟩
  · simp only [Hered] at h
    obtain ⟨xs, rfl, hf⟩ := h
    intro x hx
    obtain ⟨svs, rfl, hf'⟩ := hf x hx
    exact ⟨svs, rfl, HeredFs_All2 P ifs svs hf'⟩

theorem Shaped.mono {R S : List FT → List Val → Prop} (hrs : ∀ fs vs, R fs vs → S fs vs) {ifs : Fields} :
    ∀ {t : Ty} {v : Val}, Shaped R ifs t v → Shaped S ifs t v := by
  intro t v h
  have hl : ∀ xs : List Val, (∀ x ∈ xs, ∃ svs, x = Val.struct svs ∧ R ifs.toList svs) →
      ∀ x ∈ xs, ∃ svs, x = Val.struct svs ∧ S ifs.toList svs := by
    intro xs h x hx
    obtain ⟨svs, rfl, hg⟩ := h x hx
    exact ⟨svs, rfl, hrs _ _ hg⟩
  cases t with
  | ptr e =>
    cases v with
    | nilv => simp [Shaped]
    | ptr sv =>
      cases sv with
      | struct svs => simp only [Shaped] at h ⊢; exact hrs _ _ h
      | _ => simp [Shaped] at h
    | _ => simp [Shaped] at h
  | struct fs =>
    cases v with
    | struct svs => simp only [Shaped] at h ⊢; exact hrs _ _ h
    | _ => simp [Shaped] at h
  | slice e =>
    cases v with
    | nilv => simp [Shaped]
    | list xs => simp only [Shaped] at h ⊢; exact hl xs h
    | _ => simp [Shaped] at h
  | array n e =>
    cases v with
    | list xs => simp only [Shaped] at h ⊢; exact hl xs h
    | _ => simp [Shaped] at h
  | _ => simp [Shaped] at h

theorem HG_sub {P : Hdr → Ty → Val → Prop} {t : Ty} {ifs : Fields} {wrap : Ty → Ty} {v : Val}
    (hs : structish t = some (ifs, wrap)) (h : Hered P t v) :
    Shaped (All2 fun g x => True ∧ HG P g x) ifs t v :=
  Shaped.mono (fun _ _ hg => All2.mono (fun _ _ hx => ⟨True.intro, hx⟩) hg) (Hered_shaped hs h)

/-! ### instances -/

/-- builder for the manglers with exactly one output field per input field: `e` encodes the value -/
def Lossless.single (m : Mangler) (Good : FT → Val → Prop) (e : Ty → Val → Val)
    (hm : ∀ h t outs, m.mangle h t = .ok outs → ∃ h' t', outs = [(h', t')] ∧
      ∀ v, Good (h, t) v → ∀ ifs wrap, structish t' = some (ifs, wrap) →
        Shaped (All2 fun g x => True ∧ Good g x) ifs t' (e t v))
    (hu : ∀ h t o v, Good (h, t) v → m.unmangle h t [(o, e t v)] = .ok v) :
    Lossless m (fun _ => True) Good where
  enc := fun _ t v => [e t v]
  len := by
    intro f _ outs hmf v _
    obtain ⟨h', t', rfl, _⟩ := hm f.1 f.2 outs hmf
    rfl
  inv := by
    intro f _ outs hmf v hg outs' hl
    obtain ⟨h', t', rfl, _⟩ := hm f.1 f.2 outs hmf
    match outs', hl with
    | [o'], _ => exact hu f.1 f.2 o' v hg
  sub := by
    intro _ f _ outs hmf v hg o w hmem ifs wrap hs
    obtain ⟨h', t', rfl, hsub⟩ := hm f.1 f.2 outs hmf
    simp only [List.zip_cons_cons, List.zip_nil_right, List.mem_singleton, Prod.mk.injEq] at hmem
    obtain ⟨rfl, rfl⟩ := hmem
    exact hsub v hg ifs wrap hs

/-- the same builder with a restriction `Dom` on the fields -/
def Lossless.singleDom (m : Mangler) (Dom : FT → Prop) (Good : FT → Val → Prop) (e : Ty → Val → Val)
    (hm : ∀ h t outs, Dom (h, t) → m.mangle h t = .ok outs → ∃ h' t', outs = [(h', t')] ∧
      ∀ v, Good (h, t) v → ∀ ifs wrap, structish t' = some (ifs, wrap) →
        Shaped (All2 fun g x => Dom g ∧ Good g x) ifs t' (e t v))
    (hu : ∀ h t o v, Dom (h, t) → Good (h, t) v → m.unmangle h t [(o, e t v)] = .ok v) :
    Lossless m Dom Good where
  enc := fun _ t v => [e t v]
  len := by
    intro f hd outs hmf v _
    obtain ⟨h', t', rfl, _⟩ := hm f.1 f.2 outs hd hmf
    rfl
  inv := by
    intro f hd outs hmf v hg outs' hl
    obtain ⟨h', t', rfl, _⟩ := hm f.1 f.2 outs hd hmf
    match outs', hl with
    | [o'], _ => exact hu f.1 f.2 o' v hd hg
  sub := by
    intro _ f hd outs hmf v hg o w hmem ifs wrap hs
    obtain ⟨h', t', rfl, hsub⟩ := hm f.1 f.2 outs hd hmf
    simp only [List.zip_cons_cons, List.zip_nil_right, List.mem_singleton, Prod.mk.injEq] at hmem
    obtain ⟨rfl, rfl⟩ := hmem
    exact hsub v hg ifs wrap hs

/-- the trivial local condition -/
def PTrue : Hdr → Ty → Val → Prop := fun _ _ _ => True

/-- plain well-shapedness: `Hered` with no local condition -/
abbrev WS : FT → Val → Prop := HG PTrue

/-- tag copy: the identity on values -/
def losslessTagCopy (src new : String) : Lossless (tagCopyMangler src new) (fun _ => True) WS :=
  Lossless.single _ WS (fun _ v => v)
    (by
      intro h t outs hm
      have : ∃ h', outs = [(h', t)] := by
        simp only [tagCopyMangler] at hm
        repeat' split at hm
        all_goals (cases hm; exact ⟨_, rfl⟩)
      obtain ⟨h', rfl⟩ := this
      exact ⟨h', t, rfl, fun v hg ifs wrap hs => HG_sub hs hg.2⟩)
    (by intro h t o v _; simp [tagCopyMangler])

/-- tag reformat: the identity on values (wherever `mangle` succeeds) -/
def losslessTagReformat (tag : String) (dec : List Char → Option (List (List Char))) (enc : CaseConv.Scheme) :
    Lossless (tagReformatMangler tag dec enc) (fun _ => True) WS :=
  Lossless.single _ WS (fun _ v => v)
    (by
      intro h t outs hm
      have : ∃ h', outs = [(h', t)] := by
        simp only [tagReformatMangler] at hm
        repeat' split at hm
        all_goals first | (cases hm; exact ⟨_, rfl⟩) | cases hm
      obtain ⟨h', rfl⟩ := this
      exact ⟨h', t, rfl, fun v hg ifs wrap hs => HG_sub hs hg.2⟩)
    (by intro h t o v _; simp [tagReformatMangler])

theorem structish_subType {t : Ty} {x : Fields × (Ty → Ty)} (h : structish (subType t) = some x) :
    subType t = t := by
  cases t with
  | ptr e => cases e <;> simp_all [subType, structish]
  | slice e => cases e <;> simp_all [subType, structish]
  | array n e => cases e <;> simp_all [subType, structish]
  | _ => simp_all [subType, structish]

/-- Duration → ParsingDuration: the identity on (untyped) values -/
def losslessDurSub : Lossless durSubMangler (fun _ => True) WS :=
  Lossless.single _ WS (fun _ v => v)
    (by
      intro h t outs hm
      simp only [durSubMangler] at hm
      cases hm
      refine ⟨h, subType t, rfl, fun v hg ifs wrap hs => ?_⟩
      have he := structish_subType hs
      rw [he] at hs ⊢
      exact HG_sub hs hg.2)
    (by intro h t o v _; simp [durSubMangler])

/-! #### set → slice -/

/-- a set-typed field holds nil or a set; sets of structs (struct-keyed `map[K]struct{}`) are excluded:
their translated type `[]K` is struct-ish and would be recursed into -/
def setP : Hdr → Ty → Val → Prop := fun _ t v =>
  ∀ k, t = .set k → (∀ fs, k ≠ .struct fs) ∧ (v = .nilv ∨ ∃ vs, v = .setv vs)

/-- the translated value of a field under set → slice: a set becomes the list of its elements -/
def setEnc : Ty → Val → Val := fun t v =>
  match t with
  | .set _ => (match v with | .setv vs => .list vs | x => x)
  | _ => v

def losslessSetSlice : Lossless setSliceMangler (fun _ => True) (HG setP) :=
  Lossless.single _ (HG setP) setEnc
    (by
      intro h t outs hm
      by_cases hset : ∃ k, t = .set k
      · obtain ⟨k, rfl⟩ := hset
        simp only [setSliceMangler] at hm
        cases hm
        refine ⟨h, .slice k, rfl, fun v hg ifs wrap hs => ?_⟩
        have hk := (hg.1 k rfl).1
        cases k <;> simp [structish] at hs
        exact absurd rfl (hk _)
      · have : outs = [(h, t)] := by
          cases t <;> simp only [setSliceMangler] at hm <;> first | (cases hm; rfl) | exact absurd ⟨_, rfl⟩ hset
        subst this
        refine ⟨h, t, rfl, fun v hg ifs wrap hs => ?_⟩
        have he : setEnc t v = v := by
          cases t <;> first | rfl | exact absurd ⟨_, rfl⟩ hset
        rw [he]
        exact HG_sub hs hg.2)
    (by
      intro h t o v hg
      cases t with
      | set k =>
        rcases (hg.1 k rfl).2 with rfl | ⟨vs, rfl⟩ <;> simp [setSliceMangler, setEnc]
      | _ => simp [setSliceMangler, setEnc])

/-! #### text unmarshaler -/

/-- text-unmarshalable fields carry their text (`UnmarshalText` is external to the model) -/
def tuP : Hdr → Ty → Val → Prop := fun _ t v =>
  isTU t = true → (v = .nilv ∨ ∃ str, v = .ptr (.s str))

def losslessTextUnmarshaler : Lossless textUnmarshalerMangler (fun _ => True) (HG tuP) :=
  Lossless.single _ (HG tuP) (fun _ v => v)
    (by
      intro h t outs hm
      simp only [textUnmarshalerMangler] at hm
      cases hm
      refine ⟨h, _, rfl, fun v hg ifs wrap hs => ?_⟩
      cases htu : isTU t with
      | true => simp [htu, strPtrTy, structish] at hs
      | false =>
        simp only [htu, Bool.false_eq_true, if_false] at hs ⊢
        exact HG_sub hs hg.2)
    (by
      intro h t o v hg
      cases htu : isTU t with
      | true =>
        rcases hg.1 htu with rfl | ⟨str, rfl⟩ <;> simp [textUnmarshalerMangler, htu]
      | false => simp [textUnmarshalerMangler, htu])

/-! #### string casting -/

/-- the type handed to parse.String for a field of type `t` -/
def scCastTo : Ty → Ty
  | .slice e => .slice e
  | .map k v => .map k v
  | .set k => .set k
  | .ptr e => e
  | other => other

/-- pointer-to-collection fields: parse.String's result is boxed -/
def scBoxed : Ty → Bool
  | .ptr (.slice _) => true
  | .ptr (.map _ _) => true
  | .ptr (.set _) => true
  | _ => false

/-- the values a formatter `fmt` represents faithfully for `parse`: unset, or what `parse` makes of
the formatted text at the field's cast type (boxed for a pointer-to-collection field) -/
def scGood (parse : String → Ty → Outcome Val) (fmt : Ty → Val → String) : FT → Val → Prop := fun f v =>
  v = .nilv ∨ ∃ u, parse (fmt f.2 v) (scCastTo f.2) = .ok u ∧ v = if scBoxed f.2 then .ptr u else u

/-- the translated value of a field under string casting: unset, or a pointer to the formatted text -/
def scEnc (fmt : Ty → Val → String) : Ty → Val → Val := fun t v =>
  match v with
  | .nilv => .nilv
  | x => .ptr (.s (fmt t x))

/-- `Dom`: the field's type has an element type (pointer, slice, array, map, set) — `unmangle` calls
`Type.Elem()` on it for a set value; after Pointerify every field the string cast meets is one -/
def losslessStringCast (parse : String → Ty → Outcome Val) (fmt : Ty → Val → String) :
    Lossless (stringCastMangler parse) (fun f => hasElemTy f.2 = true) (scGood parse fmt) :=
  Lossless.singleDom _ (fun f => hasElemTy f.2 = true) (scGood parse fmt) (scEnc fmt)
    (by
      intro h t outs _ hm
      simp only [stringCastMangler] at hm
      cases hm
      exact ⟨h, strPtrTy, rfl, fun v hg ifs wrap hs => by simp [strPtrTy, structish] at hs⟩)
    (by
      intro h t o v hd hg
      simp only at hd
      by_cases hn : v = .nilv
      · subst hn; simp [stringCastMangler, scEnc]
      · have he : scEnc fmt t v = .ptr (.s (fmt t v)) := by
          cases v <;> first | rfl | exact absurd rfl hn
        rcases hg with rfl | ⟨u, hp, hv⟩
        · exact absurd rfl hn
        · rw [he]
          simp only at hp hv
          cases t with
          | ptr e =>
            cases e <;> simp only [scCastTo, scBoxed, Bool.false_eq_true, if_false, if_true] at hp hv <;>
              simp only [stringCastMangler, hasElemTy, Bool.not_true, Bool.false_eq_true, if_false, hp] <;>
              exact congrArg Outcome.ok hv.symm
          | slice e | array n e | map k e | set k =>
            simp only [scCastTo, scBoxed, Bool.false_eq_true, if_false] at hp hv
            simp only [stringCastMangler, hasElemTy, Bool.not_true, Bool.false_eq_true, if_false, hp]
            exact congrArg Outcome.ok hv.symm
          | _ => simp [hasElemTy] at hd)

/-! #### alias -/

/-- the field carries an alias tag for one of the mangler's tags: `aliasMangle` doubles it -/
def isAliased (tags : List String) (h : Hdr) : Bool :=
  !(tags.filterMap fun tag => (tagGet h.tags (tag ++ "alias")).map fun a => (tag, a)).isEmpty

theorem aliasMangle_shape (tags : List String) (h : Hdr) (t : Ty) :
    (isAliased tags h = false ∧ aliasMangle tags h t = .ok [(h, t)]) ∨
    (isAliased tags h = true ∧ ∃ h1 h2, aliasMangle tags h t = .ok [(h1, t), (h2, t)]) := by
  simp only [aliasMangle, isAliased]
  split
  · rename_i he
    left
    simp [he]
  · rename_i he
    right
    exact ⟨by simpa using he, _, _, rfl⟩

/-- struct-ish types without a nil value: a struct, an array of structs -/
def bareStructish : Ty → Bool
  | .struct _ => true
  | .array _ (.struct _) => true
  | _ => false

theorem Hered_nilv (P : Hdr → Ty → Val → Prop) {t : Ty} (h : bareStructish t = false) : Hered P t .nilv := by
  cases t with
  | struct fs => simp [bareStructish] at h
  | ptr e => cases e <;> simp [Hered]
  | slice e => cases e <;> simp [Hered]
  | array n e => cases e <;> first | (simp [Hered]; done) | simp [bareStructish] at h
  | _ => simp [Hered]

/-- an aliased (doubled) field's type has a nil value: the alias copy is encoded as nil.  (Excluded:
alias tags on fields of bare struct / array-of-struct type, which Pointerify leaves only inside the
element structs of collections.) -/
def aliasP (tags : List String) : Hdr → Ty → Val → Prop := fun h t _ =>
  isAliased tags h = true → bareStructish t = false

def losslessAlias (tags : List String) : Lossless (aliasMangler tags) (fun _ => True) (HG (aliasP tags)) where
  enc := fun h _ v => if isAliased tags h then [v, .nilv] else [v]
  len := by
    intro f _ outs hm v _
    simp only [aliasMangler] at hm
    rcases aliasMangle_shape tags f.1 f.2 with ⟨ha, hs⟩ | ⟨ha, h1, h2, hs⟩
    · rw [hs] at hm; cases hm; simp [ha]
    · rw [hs] at hm; cases hm; simp [ha]
  inv := by
    intro f _ outs hm v _ outs' hl
    simp only [aliasMangler] at hm ⊢
    rcases aliasMangle_shape tags f.1 f.2 with ⟨ha, hs⟩ | ⟨ha, h1, h2, hs⟩
    · rw [hs] at hm; cases hm
      match outs', hl with
      | [o'], _ => simp [ha, aliasUnmangle]
    · rw [hs] at hm; cases hm
      match outs', hl with
      | [o1, o2], _ => simp [ha, aliasUnmangle]
  sub := by
    intro _ f _ outs hm v hg o w hmem ifs wrap hst
    simp only [aliasMangler] at hm
    rcases aliasMangle_shape tags f.1 f.2 with ⟨ha, hs⟩ | ⟨ha, h1, h2, hs⟩
    · rw [hs] at hm; cases hm
      simp only [ha, Bool.false_eq_true, if_false, List.zip_cons_cons, List.zip_nil_right,
        List.mem_singleton, Prod.mk.injEq] at hmem
      obtain ⟨rfl, rfl⟩ := hmem
      exact HG_sub hst hg.2
    · rw [hs] at hm; cases hm
      simp only [ha, if_true, List.zip_cons_cons, List.zip_nil_right, List.mem_cons, List.not_mem_nil,
        or_false, Prod.mk.injEq] at hmem
      rcases hmem with ⟨rfl, rfl⟩ | ⟨rfl, rfl⟩
      · exact HG_sub hst hg.2
      · exact HG_sub hst (Hered_nilv _ (hg.1 ha))

/-! #### flatten -/

/-- the values the flatten mangler can restore: those `populate` builds from some filling of the
field's leaves (an intermediate struct is allocated exactly when one of its leaves is set, behind
exactly the pointers of its type, with one value per field) -/
def flattenGood (fuel : Nat) : FT → Val → Prop := fun f v =>
  ∃ vals a, vals.length = leafN f.2 ∧ populate fuel f.2 vals = .ok (v, [], a)

/-- `Dom` is flatten's fuel only: since the repair of P02 (a struct held by value receives the rebuilt
struct itself) no "every struct behind a pointer" condition is needed -/
def losslessFlatten (cfg : FlattenCfg) (fuel : Nat) :
    Lossless (flattenMangler cfg fuel) (fun f => tySize f.2 < fuel) (flattenGood fuel) where
  enc := fun _ t v => flatLeaves fuel t v
  len := by
    intro f hd outs hm v hg
    obtain ⟨vals, a, hl, hp⟩ := hg
    obtain ⟨v', hp', hfl, _⟩ := populate_spec fuel f.2 hd vals [] hl
    rw [List.append_nil, hp] at hp'
    cases hp'
    simp only [flattenMangler] at hm
    rw [hfl, hl, flattenMangle_length cfg fuel f.1 f.2 outs hm]
  inv := by
    intro f hd outs hm v hg outs' hl'
    obtain ⟨vals, a, hl, hp⟩ := hg
    obtain ⟨v', hp', hfl, _⟩ := populate_spec fuel f.2 hd vals [] hl
    rw [List.append_nil, hp] at hp'
    cases hp'
    simp only [flattenMangler] at hm ⊢
    have hlen : outs.length = vals.length := by rw [hl, flattenMangle_length cfg fuel f.1 f.2 outs hm]
    have hmap : (outs'.zip (flatLeaves fuel f.2 v)).map (·.2) = vals := by
      rw [hfl, List.map_snd_zip]; omega
    simp only [flattenUnmangle, hmap, hp]
    simp
  sub := by
    intro hr
    simp [flattenMangler] at hr

/-! ### goodness of the encoded values for the next layer

The encoding of one (recursing, lossless) layer is hereditarily well shaped for the TRANSLATED fields,
so that the next recursing mangler of the chain can take it up. -/

theorem toList_ofList : ∀ (r : List FT), (Fields.ofList r).toList = r
  | [] => rfl
  | (h, t) :: r => by simp [Fields.ofList, Fields.toList, toList_ofList r]

theorem Hered_of_not_structish (P : Hdr → Ty → Val → Prop) {t : Ty} (h : structish t = none) (v : Val) :
    Hered P t v := by
  cases t with
  | struct fs => simp [structish] at h
  | ptr e => cases e <;> first | (simp [Hered]; done) | simp [structish] at h
  | slice e => cases e <;> first | (simp [Hered]; done) | simp [structish] at h
  | array n e => cases e <;> first | (simp [Hered]; done) | simp [structish] at h
  | _ => simp [Hered]

theorem All2.append {R : FT → Val → Prop} : ∀ {a : List FT} {b : List Val} {c : List FT} {d : List Val},
    All2 R a b → All2 R c d → All2 R (a ++ c) (b ++ d)
  | [], [], _, _, _, h => by simpa using h
  | [], _ :: _, _, _, h, _ => by simp at h
  | _ :: _, [], _, _, h, _ => by simp at h
  | f :: a, v :: b, c, d, h1, h2 => by
    simp only [All2_cons, List.cons_append] at h1 ⊢
    exact ⟨h1.1, All2.append h1.2 h2⟩

/-- the recursed outputs of one field against their encoded values -/
theorem All2_outs {S : FT → Val → Prop} {rt : FT → Outcome FT} {ev : FT → Val → Val} :
    ∀ (outs : List FT) (ws : List Val) (g : List FT), ws.length = outs.length → mapM' rt outs = .ok g →
      (∀ o w o', (o, w) ∈ outs.zip ws → rt o = .ok o' → S o' (ev o w)) →
      All2 S g ((outs.zip ws).map fun q => ev q.1 q.2)
  | [], [], g, _, hg, _ => by simp [mapM'] at hg; subst hg; simp
  | [], _ :: _, _, h, _, _ => by simp at h
  | _ :: _, [], _, h, _, _ => by simp at h
  | o :: outs, w :: ws, g, hl, hg, h => by
    obtain ⟨o', g', ho, hg', rfl⟩ := mapM'_cons_ok hg
    simp only [List.zip_cons_cons, List.map_cons, All2_cons]
    exact ⟨h o w o' (by simp) ho,
      All2_outs outs ws g' (by simpa using hl) hg' (fun o1 w1 o1' hm => h o1 w1 o1' (by simp [hm]))⟩

/-- the translated fields against the encoded groups, given the statement for each field -/
theorem All2_groups {S R : FT → Val → Prop} {F : FT → Outcome (List FT)} {eg : FT × Val → List Val}
    (hb : ∀ f v g, R f v → F f = .ok g → All2 S g (eg (f, v))) :
    ∀ (fs : List FT) (vs : List Val) (groups : List (List FT)), mapM' F fs = .ok groups → All2 R fs vs →
      All2 S groups.flatten ((fs.zip vs).map eg).flatten
  | [], [], groups, h, _ => by simp [mapM'] at h; subst h; simp
  | [], _ :: _, _, _, h => by simp at h
  | _ :: _, [], _, _, h => by simp at h
  | f :: fs, v :: vs, groups, h, hr => by
    obtain ⟨g, gs, hg, hgs, rfl⟩ := mapM'_cons_ok h
    simp only [All2_cons] at hr
    simp only [List.zip_cons_cons, List.map_cons, List.flatten_cons]
    exact All2.append (hb f v g hr.1 hg) (All2_groups hb fs vs gs hgs hr.2)

/-- a local condition that does not depend on what the recursion changes: the inner fields of a
struct-ish type and the value -/
def RecInvariant (P : Hdr → Ty → Val → Prop) : Prop :=
  ∀ h t ifs wrap ifs' w w', structish t = some (ifs, wrap) → P h t w → P h (wrap (.struct ifs')) w'

/-- TRANSPORT: the encoding of one recursing lossless layer is hereditarily good (`HG P'`) for the
translated fields, if `P'` holds locally for every encoded output value and is invariant under the
recursion. -/
theorem encLayer_hered {m : Mangler} {Dom : FT → Prop} {Good : FT → Val → Prop} (L : Lossless m Dom Good)
    (hrec : m.recurse = true) (P' : Hdr → Ty → Val → Prop) (hinv : RecInvariant P')
    (hloc : ∀ f v outs, Dom f → Good f v → m.mangle f.1 f.2 = .ok outs →
      ∀ o w, (o, w) ∈ outs.zip (L.enc f.1 f.2 v) → P' o.1 o.2 w) :
    ∀ (fuel : Nat),
      (∀ (fs fs' : List FT) (vs : List Val), mangleLayer fuel m fs = .ok fs' →
        All2 (fun f v => Dom f ∧ Good f v) fs vs → All2 (HG P') fs' (encLayer m L.enc fuel fs vs)) ∧
      (∀ (o o' : FT) (w : Val), recurseType fuel m o = .ok o' → P' o.1 o.2 w →
        (∀ ifs wrap, structish o.2 = some (ifs, wrap) →
          Shaped (All2 fun g x => Dom g ∧ Good g x) ifs o.2 w) →
        HG P' o' (encVal m L.enc fuel o w))
  | 0 => by
    constructor
    · intro fs fs' vs hm; simp [mangleLayer] at hm
    · intro o o' w ht; simp [recurseType] at ht
  | fuel + 1 => by
    obtain ⟨ihP, ihQ⟩ := encLayer_hered L hrec P' hinv hloc fuel
    constructor
    · intro fs fs' vs hm hgood
      obtain ⟨groups, hg, rfl⟩ := mangleLayer_succ_ok hm
      rw [encLayer_succ]
      refine All2_groups (R := fun f v => Dom f ∧ Good f v) ?_ fs vs groups hg hgood
      intro f v g hr hF
      split at hF
      · rename_i outs hmf
        have eg : encGroup m L.enc fuel (f, v) =
            (outs.zip (L.enc f.1 f.2 v)).map fun q => encVal m L.enc fuel q.1 q.2 := by
          simp only [encGroup, hmf]
        rw [eg]
        apply All2_outs (rt := recurseType fuel m) (ev := encVal m L.enc fuel) outs _ g
          (L.len f hr.1 outs hmf v hr.2) hF
        intro o w o' hmem ho
        exact ihQ o o' w ho (hloc f v outs hr.1 hr.2 hmf o w hmem)
          (fun ifs wrap hs => L.sub hrec f hr.1 outs hmf v hr.2 o w hmem ifs wrap hs)
      · cases hF
      · cases hF
    · intro o o' w ht hp hsh
      obtain ⟨h, t⟩ := o
      cases hs : structish t with
      | none =>
        simp only [recurseType, hrec, hs, Bool.not_true, Bool.false_eq_true, if_false] at ht
        cases ht
        have : encVal m L.enc (fuel + 1) (h, t) w = w := by simp [encVal, hrec, hs]
        rw [this]
        exact ⟨hp, Hered_of_not_structish P' hs w⟩
      | some x =>
        obtain ⟨ifs, wrap⟩ := x
        have hshape := hsh ifs wrap hs
        simp only [recurseType, hrec, hs, Bool.not_true, Bool.false_eq_true, if_false] at ht
        split at ht
        · rename_i r hr'
          cases ht
          have hin : ∀ svs, All2 (fun g x => Dom g ∧ Good g x) ifs.toList svs →
              HeredFs P' (Fields.ofList r) (encLayer m L.enc fuel ifs.toList svs) := by
            intro svs hg
            apply All2_HeredFs
            rw [toList_ofList]
            exact ihP ifs.toList r svs hr' hg
          refine ⟨hinv h t ifs wrap (Fields.ofList r) w _ hs hp, ?_⟩
          simp only at hshape ⊢
          rcases structish_some hs with rfl | rfl | rfl | ⟨n, rfl⟩
          · simp only [structish, Option.some.injEq, Prod.mk.injEq, true_and] at hs
            subst hs
            cases w with
            | struct svs =>
              simp only [Shaped] at hshape
              simp only [encVal, hrec, structish, Bool.not_true, Bool.false_eq_true, if_false, id, Hered]
              exact ⟨_, rfl, hin svs hshape⟩
            | _ => simp [Shaped] at hshape
          · simp only [structish, Option.some.injEq, Prod.mk.injEq, true_and] at hs
            subst hs
            cases w with
            | nilv => simp [encVal, hrec, structish, Hered]
            | ptr sv =>
              cases sv with
              | struct svs =>
                simp only [Shaped] at hshape
                simp only [encVal, hrec, structish, Bool.not_true, Bool.false_eq_true, if_false, Hered]
                exact Or.inr ⟨_, rfl, hin svs hshape⟩
              | _ => simp [Shaped] at hshape
            | _ => simp [Shaped] at hshape
          · simp only [structish, Option.some.injEq, Prod.mk.injEq, true_and] at hs
            subst hs
            cases w with
            | nilv => simp [encVal, hrec, structish, Hered]
            | list xs =>
              simp only [Shaped] at hshape
              simp only [encVal, hrec, structish, Bool.not_true, Bool.false_eq_true, if_false, Hered]
              refine Or.inr ⟨_, rfl, ?_⟩
              intro x hx
              simp only [List.mem_map] at hx
              obtain ⟨y, hy, rfl⟩ := hx
              obtain ⟨svs, rfl, hg⟩ := hshape y hy
              exact ⟨_, rfl, hin svs hg⟩
            | _ => simp [Shaped] at hshape
          · simp only [structish, Option.some.injEq, Prod.mk.injEq, true_and] at hs
            subst hs
            cases w with
            | list xs =>
              simp only [Shaped] at hshape
              simp only [encVal, hrec, structish, Bool.not_true, Bool.false_eq_true, if_false, Hered]
              refine ⟨_, rfl, ?_⟩
              intro x hx
              simp only [List.mem_map] at hx
              obtain ⟨y, hy, rfl⟩ := hx
              obtain ⟨svs, rfl, hg⟩ := hshape y hy
              exact ⟨_, rfl, hin svs hg⟩
            | _ => simp [Shaped] at hshape
        · cases ht
        · cases ht

theorem recInvariant_PTrue : RecInvariant PTrue := fun _ _ _ _ _ _ _ _ _ => True.intro

/-- the encoding of ANY recursing lossless layer is (plainly) well shaped for the translated fields -/
theorem encLayer_WS {m : Mangler} {Dom : FT → Prop} {Good : FT → Val → Prop} (L : Lossless m Dom Good)
    (hrec : m.recurse = true) (fuel : Nat) (fs fs' : List FT) (vs : List Val)
    (hm : mangleLayer fuel m fs = .ok fs') (hg : All2 (fun f v => Dom f ∧ Good f v) fs vs) :
    All2 WS fs' (encLayer m L.enc fuel fs vs) :=
  (encLayer_hered L hrec PTrue recInvariant_PTrue (fun _ _ _ _ _ _ _ _ _ => True.intro) fuel).1 fs fs' vs hm hg

/-! ### value-identity layers -/

theorem flatten_singletons {eg : FT × Val → List Val} : ∀ (fs : List FT) (vs : List Val), vs.length = fs.length →
    (∀ f v, (f, v) ∈ fs.zip vs → eg (f, v) = [v]) → ((fs.zip vs).map eg).flatten = vs
  | [], [], _, _ => rfl
  | [], _ :: _, h, _ => by simp at h
  | _ :: _, [], h, _ => by simp at h
  | f :: fs, v :: vs, hl, h => by
    simp only [List.zip_cons_cons, List.map_cons, List.flatten_cons, h f v (by simp),
      flatten_singletons fs vs (by simpa using hl) (fun f' v' hm => h f' v' (by simp [hm]))]
    rfl

/-- a lossless mangler whose encoder is the identity (`enc v = [v]`: tag copy, tag reformat,
Duration substitution, text unmarshaler) leaves the values as they are, at every depth -/
theorem encLayer_id {m : Mangler} {Dom : FT → Prop} {Good : FT → Val → Prop} (L : Lossless m Dom Good)
    (hid : ∀ h t v, L.enc h t v = [v]) :
    ∀ (fuel : Nat),
      (∀ (fs fs' : List FT) (vs : List Val), mangleLayer fuel m fs = .ok fs' →
        All2 (fun f v => Dom f ∧ Good f v) fs vs → encLayer m L.enc fuel fs vs = vs) ∧
      (∀ (o o' : FT) (w : Val), recurseType fuel m o = .ok o' →
        (m.recurse = true → ∀ ifs wrap, structish o.2 = some (ifs, wrap) →
          Shaped (All2 fun g x => Dom g ∧ Good g x) ifs o.2 w) →
        encVal m L.enc fuel o w = w)
  | 0 => by
    constructor
    · intro fs fs' vs hm; simp [mangleLayer] at hm
    · intro o o' w ht; simp [recurseType] at ht
  | fuel + 1 => by
    obtain ⟨ihP, ihQ⟩ := encLayer_id L hid fuel
    constructor
    · intro fs fs' vs hm hgood
      obtain ⟨groups, hg, rfl⟩ := mangleLayer_succ_ok hm
      obtain ⟨outss, hmg, hlen, hall⟩ := mangleLayer_groups fuel m fs groups hg
      rw [encLayer_succ]
      apply flatten_singletons fs vs (All2.length hgood)
      intro f v hmem
      obtain ⟨hd, hgd⟩ := All2.mem hgood f v hmem
      obtain ⟨outs, outs', hmf, hrt⟩ := hall f (List.of_mem_zip hmem).1
      have hl := L.len f hd outs hmf v hgd
      rw [hid] at hl
      simp only [encGroup, hmf, hid]
      match outs, hl with
      | [o], _ =>
        obtain ⟨o', ho'⟩ := mapM'_mem_ok hrt o (by simp)
        have hsub := fun hrec ifs wrap hs => L.sub hrec f hd [o] hmf v hgd o v (by simp [hid]) ifs wrap hs
        simp only [List.zip_cons_cons, List.zip_nil_right, List.map_cons, List.map_nil]
        rw [ihQ o o' v ho' hsub]
    · intro o o' w ht hsh
      obtain ⟨h, t⟩ := o
      cases hr : m.recurse with
      | false => simp [encVal, hr]
      | true =>
        cases hs : structish t with
        | none => simp [encVal, hr, hs]
        | some x =>
          obtain ⟨ifs, wrap⟩ := x
          have hshape := hsh hr ifs wrap hs
          simp only [recurseType, hr, hs, Bool.not_true, Bool.false_eq_true, if_false] at ht
          split at ht
          · rename_i r hr'
            have hin : ∀ svs, All2 (fun g x => Dom g ∧ Good g x) ifs.toList svs →
                encLayer m L.enc fuel ifs.toList svs = svs := fun svs hg => ihP ifs.toList r svs hr' hg
            have hl : ∀ xs : List Val, (∀ x ∈ xs, ∃ svs, x = Val.struct svs ∧
                All2 (fun g x => Dom g ∧ Good g x) ifs.toList svs) →
                xs.map (fun sv => match sv with
                  | .struct svs => Val.struct (encLayer m L.enc fuel ifs.toList svs)
                  | x => x) = xs := by
              intro xs hx
              conv => rhs; rw [← List.map_id xs]
              apply List.map_congr_left
              intro x hxm
              obtain ⟨svs, rfl, hg⟩ := hx x hxm
              simp only [hin svs hg, id]
            simp only at hshape
            rcases structish_some hs with rfl | rfl | rfl | ⟨n, rfl⟩
            · cases w with
              | struct svs =>
                simp only [Shaped] at hshape
                simp only [encVal, hr, structish, Bool.not_true, Bool.false_eq_true, if_false, hin svs hshape]
              | _ => simp [Shaped] at hshape
            · cases w with
              | nilv => simp [encVal, hr, structish]
              | ptr sv =>
                cases sv with
                | struct svs =>
                  simp only [Shaped] at hshape
                  simp only [encVal, hr, structish, Bool.not_true, Bool.false_eq_true, if_false, hin svs hshape]
                | _ => simp [Shaped] at hshape
              | _ => simp [Shaped] at hshape
            · cases w with
              | nilv => simp [encVal, hr, structish]
              | list xs =>
                simp only [Shaped] at hshape
                simp only [encVal, hr, structish, Bool.not_true, Bool.false_eq_true, if_false, hl xs hshape]
              | _ => simp [Shaped] at hshape
            · cases w with
              | list xs =>
                simp only [Shaped] at hshape
                simp only [encVal, hr, structish, Bool.not_true, Bool.false_eq_true, if_false, hl xs hshape]
              | _ => simp [Shaped] at hshape
          · cases ht
          · cases ht

/-! ### the library manglers, packaged -/

def lmAlias (tags : List String) : LM := ⟨aliasMangler tags, _, _, losslessAlias tags⟩
def lmFlatten (cfg : FlattenCfg) (fuelF : Nat) : LM := ⟨flattenMangler cfg fuelF, _, _, losslessFlatten cfg fuelF⟩
def lmSetSlice : LM := ⟨setSliceMangler, _, _, losslessSetSlice⟩
def lmDurSub : LM := ⟨durSubMangler, _, _, losslessDurSub⟩
def lmStringCast (parse : String → Ty → Outcome Val) (fmt : Ty → Val → String) : LM :=
  ⟨stringCastMangler parse, _, _, losslessStringCast parse fmt⟩
def lmTextUnmarshaler : LM := ⟨textUnmarshalerMangler, _, _, losslessTextUnmarshaler⟩
def lmTagCopy (src new : String) : LM := ⟨tagCopyMangler src new, _, _, losslessTagCopy src new⟩
def lmTagReformat (tag : String) (dec : List Char → Option (List (List Char))) (enc : CaseConv.Scheme) : LM :=
  ⟨tagReformatMangler tag dec enc, _, _, losslessTagReformat tag dec enc⟩

theorem All2.and_dom {Dom : FT → Prop} {Good : FT → Val → Prop} : ∀ {fs : List FT} {vs : List Val},
    (∀ f ∈ fs, Dom f) → All2 Good fs vs → All2 (fun f v => Dom f ∧ Good f v) fs vs
  | [], [], _, _ => by simp
  | [], _ :: _, _, h => by simp at h
  | _ :: _, [], _, h => by simp at h
  | f :: fs, v :: vs, hd, h => by
    simp only [All2_cons] at h ⊢
    exact ⟨⟨hd f (by simp), h.1⟩, All2.and_dom (fun g hg => hd g (by simp [hg])) h.2⟩

theorem All2.and_true {Good : FT → Val → Prop} {fs : List FT} {vs : List Val} (h : All2 Good fs vs) :
    All2 (fun f v => True ∧ Good f v) fs vs :=
  All2.mono (fun _ _ hx => ⟨True.intro, hx⟩) h

/-- the last layer of a chain: the final length condition follows from the layer theorem -/
theorem chainGood_last (fuel : Nat) (l : LM) (fs : List FT) (vs : List Val)
    (h : All2 (fun f v => l.Dom f ∧ l.Good f v) fs vs) : ChainGood fuel [l] fs vs :=
  ⟨h, fun fs' hm => ((unmangleLayer_encLayer l.L fuel).1 fs fs' vs hm h).2⟩

/-- `reverse` of a chain with one more mangler in front -/
theorem reverse_cons {fuel : Nat} {m : Mangler} {ms : List Mangler} {fs fs' : List FT} {vals r : List Val}
    (hm : mangleLayer fuel m fs = .ok fs') (hr : reverse fuel ms fs' vals = .ok r) :
    reverse fuel (m :: ms) fs vals = unmangleLayer fuel m fs r := by
  cases hl : layers fuel ms fs' with
  | ok ls =>
    rw [reverse_eq fuel ms fs' vals ls hl] at hr
    have hl' : layers fuel (m :: ms) fs = .ok ((m, fs) :: ls) := by simp [layers, hm, hl]
    rw [reverse_eq fuel (m :: ms) fs vals _ hl']
    simp only [reverseFold, List.foldr_cons] at hr ⊢
    rw [hr]
  | err c => simp [reverse, hl] at hr
  | panic c => simp [reverse, hl] at hr

theorem encVal_noRecurse (m : Mangler) (enc : Hdr → Ty → Val → List Val) (hr : m.recurse = false) :
    ∀ (fuel : Nat) (o : FT) (w : Val), encVal m enc fuel o w = w
  | 0, _, _ => by simp [encVal]
  | fuel + 1, (h, t), w => by simp [encVal, hr]

theorem map_snd_zip_eq {α β} : ∀ (xs : List α) (ys : List β), ys.length = xs.length →
    (xs.zip ys).map (·.2) = ys
  | [], [], _ => rfl
  | [], _ :: _, h => by simp at h
  | _ :: _, [], h => by simp at h
  | x :: xs, y :: ys, h => by
    simp only [List.zip_cons_cons, List.map_cons, map_snd_zip_eq xs ys (by simpa using h)]

/-- a non-recursing lossless layer (flatten): the encoding is the concatenation of the fields'
encodings -/
theorem encLayer_noRecurse {m : Mangler} {Dom : FT → Prop} {Good : FT → Val → Prop} (L : Lossless m Dom Good)
    (hr : m.recurse = false) (fuel : Nat) (fs fs' : List FT) (vs : List Val)
    (hm : mangleLayer fuel m fs = .ok fs') (hg : All2 (fun f v => Dom f ∧ Good f v) fs vs) :
    encLayer m L.enc fuel fs vs = ((fs.zip vs).map fun p => L.enc p.1.1 p.1.2 p.2).flatten := by
  cases fuel with
  | zero => simp [mangleLayer] at hm
  | succ fuel =>
    obtain ⟨groups, hgr, rfl⟩ := mangleLayer_succ_ok hm
    obtain ⟨outss, hmg, hlen, hall⟩ := mangleLayer_groups fuel m fs groups hgr
    rw [encLayer_succ]
    congr 1
    apply List.map_congr_left
    intro p hp
    obtain ⟨f, v⟩ := p
    obtain ⟨hd, hgd⟩ := All2.mem hg f v hp
    obtain ⟨outs, outs', hmf, _⟩ := hall f (List.of_mem_zip hp).1
    have hl := L.len f hd outs hmf v hgd
    simp only [encGroup, hmf, encVal_noRecurse m L.enc hr]
    exact map_snd_zip_eq outs _ hl

theorem flatten_map_singleton {α β} (g : α → β) : ∀ (xs : List α), (xs.map fun x => [g x]).flatten = xs.map g
  | [] => rfl
  | x :: xs => by simp [flatten_map_singleton g xs]

/-- the string-cast layer: every value becomes nil or a pointer to its formatted text -/
theorem encLayer_stringCast (parse : String → Ty → Outcome Val) (fmt : Ty → Val → String) (fuel : Nat)
    (fs : List FT) (vs : List Val) :
    encLayer (stringCastMangler parse) (losslessStringCast parse fmt).enc (fuel + 1) fs vs =
      (fs.zip vs).map fun p => scEnc fmt p.1.2 p.2 := by
  rw [encLayer_succ, ← flatten_map_singleton (fun (p : FT × Val) => scEnc fmt p.1.2 p.2)]
  congr 1
  apply List.map_congr_left
  intro p _
  have : ∀ w, encVal (stringCastMangler parse) (losslessStringCast parse fmt).enc fuel (p.1.1, strPtrTy) w = w := by
    intro w
    cases fuel with
    | zero => simp [encVal]
    | succ k => simp [encVal, strPtrTy, structish]
  simp only [encGroup, stringCastMangler, losslessStringCast, Lossless.singleDom, List.zip_cons_cons,
    List.zip_nil_right, List.map_cons, List.map_nil]
  exact congrArg (fun x => [x]) (this _)

/-! #### anonymous flatten -/

/-- the local condition of the anonymous-flatten mangler, on embedded (anonymous) fields of type
pointer-to-struct only: an unset embedded `*struct` has no field of bare struct / array-of-struct type (its
spliced fields are encoded as nil); a set one has a set field (otherwise it reverses to nil).  Every
other embedded field — a bare struct, a leaf, and since the repair of P08 also an embedded pointer to a
non-struct (`*T` for a named scalar, `*string`, `**struct`), which `anonMangle` / `anonUnmangle` pass
through unchanged — carries no condition. -/
def anonP : Hdr → Ty → Val → Prop := fun h t v =>
  h.anon = true →
    match t with
    | .ptr (.struct ifs) =>
      (v = .nilv → ∀ f ∈ ifs.toList, bareStructish f.2 = false) ∧
      (∀ svs, v = .ptr (.struct svs) → svs.all Val.isNil = false)
    | _ => True

/-- the spliced values of an embedded struct -/
def anonEnc : Hdr → Ty → Val → List Val := fun h t v =>
  if !h.anon then [v]
  else match t, v with
    | .struct _, .struct svs => svs
    | .ptr (.struct ifs), .nilv => nils ifs.toList.length
    | .ptr (.struct _), .ptr (.struct svs) => svs
    | _, x => [x]

theorem anonMangle_shape : ∀ (fuel : Nat) (h : Hdr) (t : Ty) (outs : List FT), anonMangle fuel h t = .ok outs →
    (h.anon = false ∧ outs = [(h, t)]) ∨
    (h.anon = true ∧ ((∃ ifs, t = .struct ifs ∧ outs = ifs.toList) ∨
      (∃ ifs, t = .ptr (.struct ifs) ∧ outs = ifs.toList) ∨
      ((∀ ifs, t ≠ .ptr (.struct ifs)) ∧ (∀ ifs, t ≠ .struct ifs) ∧ outs = [(h, t)])))
  | 0, _, _, _, hm => by simp [anonMangle] at hm
  | fuel + 1, h, t, outs, hm => by
    cases ha : h.anon with
    | false =>
      simp only [anonMangle, ha, Bool.not_false, if_true] at hm
      cases hm
      exact Or.inl ⟨rfl, rfl⟩
    | true =>
      refine Or.inr ⟨rfl, ?_⟩
      unfold anonMangle at hm
      simp only [ha, Bool.not_true, Bool.false_eq_true, if_false] at hm
      split at hm
      · rename_i ifs
        cases fuel with
        | zero => simp [anonMangle] at hm
        | succ k =>
          simp only [anonMangle, ha, Bool.not_true, Bool.false_eq_true, if_false] at hm
          cases hm
          exact Or.inr (Or.inl ⟨ifs, rfl, rfl⟩)
      · rename_i ifs
        cases hm
        exact Or.inl ⟨ifs, rfl, rfl⟩
      · rename_i hnp hns
        cases hm
        exact Or.inr (Or.inr ⟨fun ifs h' => hnp ifs h', fun ifs h' => hns ifs h', rfl⟩)

/-- an embedded field that is neither a struct nor a pointer to a struct is encoded as itself … -/
theorem anonEnc_other {h : Hdr} {t : Ty} (hnp : ∀ ifs, t ≠ .ptr (.struct ifs)) (hns : ∀ ifs, t ≠ .struct ifs)
    (v : Val) : anonEnc h t v = [v] := by
  unfold anonEnc
  split
  · rfl
  · split
    · exact absurd rfl (hns _)
    · exact absurd rfl (hnp _)
    · exact absurd rfl (hnp _)
    · rfl

/-- … and `anonUnmangle` forwards its single value -/
theorem anonUnmangle_other {h : Hdr} {t : Ty} (hnp : ∀ ifs, t ≠ .ptr (.struct ifs)) (hns : ∀ ifs, t ≠ .struct ifs)
    (o : FT) (v : Val) (rest : List (FT × Val)) : anonUnmangle h t ((o, v) :: rest) = .ok v := by
  unfold anonUnmangle
  split
  · rfl
  · split
    · exact absurd rfl (hnp _)
    · exact absurd rfl (hns _)
    · rfl

theorem all_isNil_nils (n : Nat) : (nils n).all Val.isNil = true := by
  simp [nils, Val.isNil]

theorem mem_zip_nils {o : FT} {w : Val} {fs : List FT} {n : Nat} (h : (o, w) ∈ fs.zip (nils n)) :
    o ∈ fs ∧ w = .nilv := by
  have h' := List.of_mem_zip h
  exact ⟨h'.1, mem_nils h'.2⟩

def losslessAnon (fuel : Nat) : Lossless (anonMangler fuel) (fun _ => True) (HG anonP) where
  enc := anonEnc
  len := by
    intro f _ outs hm v hg
    obtain ⟨h, t⟩ := f
    simp only [anonMangler] at hm
    rcases anonMangle_shape fuel h t outs hm with ⟨ha, rfl⟩ | ⟨ha, hc⟩
    · simp [anonEnc, ha]
    · rcases hc with ⟨ifs, rfl, rfl⟩ | ⟨ifs, rfl, rfl⟩ | ⟨hnp, hns, rfl⟩
      · obtain ⟨svs, rfl, hf⟩ := (by simpa [Hered] using hg.2 : ∃ svs, v = .struct svs ∧ HeredFs anonP ifs svs)
        simp only [anonEnc, ha, Bool.not_true, Bool.false_eq_true, if_false]
        exact All2.length (HeredFs_All2 anonP ifs svs hf)
      · have hh : v = .nilv ∨ ∃ svs, v = .ptr (.struct svs) ∧ HeredFs anonP ifs svs := by
          simpa [Hered] using hg.2
        rcases hh with rfl | ⟨svs, rfl, hf⟩
        · simp [anonEnc, ha, nils_length]
        · simp only [anonEnc, ha, Bool.not_true, Bool.false_eq_true, if_false]
          exact All2.length (HeredFs_All2 anonP ifs svs hf)
      · show (anonEnc h t v).length = [(h, t)].length
        rw [anonEnc_other hnp hns]; rfl
  inv := by
    intro f _ outs hm v hg outs' hl
    obtain ⟨h, t⟩ := f
    simp only [anonMangler] at hm ⊢
    rcases anonMangle_shape fuel h t outs hm with ⟨ha, rfl⟩ | ⟨ha, hc⟩
    · match outs', hl with
      | [o'], _ => simp [anonEnc, anonUnmangle, ha]
    · rcases hc with ⟨ifs, rfl, rfl⟩ | ⟨ifs, rfl, rfl⟩ | ⟨hnp, hns, rfl⟩
      · obtain ⟨svs, rfl, hf⟩ := (by simpa [Hered] using hg.2 : ∃ svs, v = .struct svs ∧ HeredFs anonP ifs svs)
        have hlen : svs.length = outs'.length := by
          rw [hl]; exact All2.length (HeredFs_All2 anonP ifs svs hf)
        simp only [anonEnc, anonUnmangle, ha, Bool.not_true, Bool.false_eq_true, if_false]
        rw [show (fun (x : FT × Val) => x.2) = (·.2) from rfl, map_snd_zip_eq outs' svs hlen]
      · have hh : v = .nilv ∨ ∃ svs, v = .ptr (.struct svs) ∧ HeredFs anonP ifs svs := by
          simpa [Hered] using hg.2
        rcases hh with rfl | ⟨svs, rfl, hf⟩
        · have hlen : (nils ifs.toList.length).length = outs'.length := by rw [hl, nils_length]
          simp only [anonEnc, anonUnmangle, ha, Bool.not_true, Bool.false_eq_true, if_false]
          rw [show (fun (x : FT × Val) => x.2) = (·.2) from rfl, map_snd_zip_eq outs' _ hlen, all_isNil_nils]
          rfl
        · have hlen : svs.length = outs'.length := by
            rw [hl]; exact All2.length (HeredFs_All2 anonP ifs svs hf)
          have hnn := (hg.1 ha).2 svs rfl
          simp only [anonEnc, anonUnmangle, ha, Bool.not_true, Bool.false_eq_true, if_false]
          rw [show (fun (x : FT × Val) => x.2) = (·.2) from rfl, map_snd_zip_eq outs' svs hlen, hnn]
          rfl
      · match outs', hl with
        | [o'], _ =>
          show anonUnmangle h t ([o'].zip (anonEnc h t v)) = .ok v
          rw [anonEnc_other hnp hns]
          exact anonUnmangle_other hnp hns o' v []
  sub := by
    intro _ f _ outs hm v hg o w hmem ifs' wrap hst
    obtain ⟨h, t⟩ := f
    simp only [anonMangler] at hm
    rcases anonMangle_shape fuel h t outs hm with ⟨ha, rfl⟩ | ⟨ha, hc⟩
    · simp only [anonEnc, ha, Bool.not_false, if_true, List.zip_cons_cons, List.zip_nil_right,
        List.mem_singleton, Prod.mk.injEq] at hmem
      obtain ⟨rfl, rfl⟩ := hmem
      exact HG_sub hst hg.2
    · rcases hc with ⟨ifs, rfl, rfl⟩ | ⟨ifs, rfl, rfl⟩ | ⟨hnp, hns, rfl⟩
      · obtain ⟨svs, rfl, hf⟩ := (by simpa [Hered] using hg.2 : ∃ svs, v = .struct svs ∧ HeredFs anonP ifs svs)
        simp only [anonEnc, ha, Bool.not_true, Bool.false_eq_true, if_false] at hmem
        exact HG_sub hst (All2.mem (HeredFs_All2 anonP ifs svs hf) o w hmem).2
      · have hh : v = .nilv ∨ ∃ svs, v = .ptr (.struct svs) ∧ HeredFs anonP ifs svs := by
          simpa [Hered] using hg.2
        rcases hh with rfl | ⟨svs, rfl, hf⟩
        · simp only [anonEnc, ha, Bool.not_true, Bool.false_eq_true, if_false] at hmem
          obtain ⟨ho, rfl⟩ := mem_zip_nils hmem
          exact HG_sub hst (Hered_nilv _ ((hg.1 ha).1 rfl o ho))
        · simp only [anonEnc, ha, Bool.not_true, Bool.false_eq_true, if_false] at hmem
          exact HG_sub hst (All2.mem (HeredFs_All2 anonP ifs svs hf) o w hmem).2
      · have he : anonEnc h t v = [v] := anonEnc_other hnp hns v
        simp only [he, List.zip_cons_cons, List.zip_nil_right, List.mem_singleton, Prod.mk.injEq] at hmem
        obtain ⟨rfl, rfl⟩ := hmem
        exact HG_sub hst hg.2

def lmAnon (fuel : Nat) : LM := ⟨anonMangler fuel, _, _, losslessAnon fuel⟩

/-! ### "has an element type" passes through the type-preserving layers -/

theorem mapM'_mem_result {α β} {f : α → Outcome β} : ∀ {xs : List α} {r : List β}, mapM' f xs = .ok r →
    ∀ b ∈ r, ∃ x ∈ xs, f x = .ok b
  | [], r, h, b, hb => by simp [mapM'] at h; subst h; simp at hb
  | y :: ys, r, h, b, hb => by
    obtain ⟨c, cs, hc, hcs, rfl⟩ := mapM'_cons_ok h
    simp only [List.mem_cons] at hb
    rcases hb with rfl | hb
    · exact ⟨y, by simp, hc⟩
    · obtain ⟨x, hx, hfx⟩ := mapM'_mem_result hcs b hb
      exact ⟨x, by simp [hx], hfx⟩

/-- the recursion into a struct-ish field keeps the kind of its type -/
theorem recurseType_hasElemTy (m : Mangler) : ∀ (fuel : Nat) (o o' : FT), recurseType fuel m o = .ok o' →
    hasElemTy o'.2 = hasElemTy o.2
  | 0, _, _, h => by simp [recurseType] at h
  | fuel + 1, (h, t), o', ht => by
    simp only [recurseType] at ht
    split at ht
    · cases ht; rfl
    · split at ht
      · cases ht; rfl
      · rename_i ifs wrap hs
        split at ht
        · cases ht
          rcases structish_some hs with rfl | rfl | rfl | ⟨n, rfl⟩ <;>
            (simp only [structish, Option.some.injEq, Prod.mk.injEq, true_and] at hs; subst hs; rfl)
        · cases ht
        · cases ht

/-- a layer of a mangler whose outputs keep the kind of the field's type (tag copy, tag reformat, …)
keeps "every field type has an element type" -/
theorem mangleLayer_hasElemTy {m : Mangler}
    (hm1 : ∀ h t outs, m.mangle h t = .ok outs → ∀ o ∈ outs, hasElemTy o.2 = hasElemTy t)
    {fuel : Nat} {fs fs' : List FT} (hm : mangleLayer fuel m fs = .ok fs')
    (hel : ∀ f ∈ fs, hasElemTy f.2 = true) : ∀ f' ∈ fs', hasElemTy f'.2 = true := by
  cases fuel with
  | zero => simp [mangleLayer] at hm
  | succ fuel =>
    obtain ⟨groups, hg, rfl⟩ := mangleLayer_succ_ok hm
    intro f' hf'
    obtain ⟨g, hgm, hfg⟩ := List.mem_flatten.1 hf'
    obtain ⟨f, hf, hF⟩ := mapM'_mem_result hg g hgm
    split at hF
    · rename_i outs hmf
      obtain ⟨o, ho, hro⟩ := mapM'_mem_result hF f' hfg
      rw [recurseType_hasElemTy m fuel o f' hro, hm1 f.1 f.2 outs hmf o ho]
      exact hel f hf
    · cases hF
    · cases hF

theorem tagCopy_mangle_ty (src new : String) (h : Hdr) (t : Ty) (outs : List FT)
    (hm : (tagCopyMangler src new).mangle h t = .ok outs) : ∃ h', outs = [(h', t)] := by
  simp only [tagCopyMangler] at hm
  repeat' split at hm
  all_goals (cases hm; exact ⟨_, rfl⟩)

theorem tagReformat_mangle_ty (tag : String) (dec : List Char → Option (List (List Char))) (enc : CaseConv.Scheme)
    (h : Hdr) (t : Ty) (outs : List FT) (hm : (tagReformatMangler tag dec enc).mangle h t = .ok outs) :
    ∃ h', outs = [(h', t)] := by
  simp only [tagReformatMangler] at hm
  repeat' split at hm
  all_goals first | (cases hm; exact ⟨_, rfl⟩) | cases hm

/-- nil-able field types (what Pointerify produces) have an element type -/
theorem hasElemTy_of_isNilable {t : Ty} (h : isNilableTy t = true) : hasElemTy t = true := by
  cases t <;> simp_all [isNilableTy, hasElemTy]

end Dials.Tf
