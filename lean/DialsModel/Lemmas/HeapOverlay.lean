/-
C02: the heap-level model of overlay.go (Model/HeapOverlay.lean) is LOCAL, and the invariant of the real
`compose` (`composeR`).

For any set of addresses `P` that is closed under exported references (`Closed`) and contains every
address not yet allocated, `overlayFieldH` / `overlayStructH` started on a base and an overlay location
inside the set only write cells of the set (`OvExt.frame`), never shrink the heap, keep every cell's kind,
keep the heap well-formed and keep the set closed (`OvInv`) -- on EVERY exit (ok / err / panic / stuck).

Instantiated with `P a := m ≤ a` (`FreshHeap m`) this gives the loop invariant of `composeR`: nothing below
the size of the caller's heap is ever written, and the result reaches only cells allocated since.
-/
import DialsModel.Model.HeapOverlay
import DialsModel.Lemmas.HeapCompose

namespace Dials.Heap
open Dials.Overlay (Ty Fields FieldKind omitField)

mutual
def inV (P : Nat → Prop) : HV → Prop
  | .sc _ => True
  | .nil => True
  | .ptr a => P a
  | .mp a => P a
  | .sl a _ => P a
  | .st fs => inFs P fs
  | .ar es => inFs P es
  | .ifc d => inV P d
def inFs (P : Nat → Prop) : HFs → Prop
  | .nil => True
  | .cons ex v rest => (ex = true → inV P v) ∧ inFs P rest
end

def inCell (P : Nat → Prop) : Cell → Prop
  | .val v => inV P v
  | .mapc es => ∀ p ∈ es, inV P p.1 ∧ inV P p.2
  | .arr es => ∀ v ∈ es, inV P v

def Closed (P : Nat → Prop) (h : Heap) : Prop := ∀ a c, P a → h[a]? = some c → inCell P c

structure OvInv (P : Nat → Prop) (h : Heap) : Prop where
  closed : Closed P h
  cells : CellsOK h
  fresh : ∀ a, h.length ≤ a → P a

structure OvExt (P : Nat → Prop) (h h' : Heap) : Prop where
  len : h.length ≤ h'.length
  frame : ∀ a, ¬ P a → h'[a]? = h[a]?
  kinded : Kinded h h'

theorem OvExt.refl (P : Nat → Prop) (h : Heap) : OvExt P h h :=
  ⟨Nat.le_refl _, fun _ _ => rfl, Kinded.refl h⟩

theorem OvExt.trans {P : Nat → Prop} {h1 h2 h3 : Heap} (e1 : OvExt P h1 h2) (e2 : OvExt P h2 h3) : OvExt P h1 h3 :=
  ⟨Nat.le_trans e1.len e2.len, fun a ha => by rw [e2.frame a ha, e1.frame a ha], e1.kinded.trans e2.kinded⟩

/-! ## paths -/

theorem fsGet_in {P : Nat → Prop} : ∀ (fs : HFs) (i : Nat) (v : HV), inFs P fs → fsGet fs i = some v → inV P v
  | .nil, _, _, _, hg => by simp [fsGet] at hg
  | .cons ex v0 r, 0, v, hi, hg => by
    simp only [fsGet] at hg
    split at hg
    · cases hg; exact hi.1 ‹_›
    · cases hg
  | .cons ex v0 r, i + 1, v, hi, hg => by
    simp only [fsGet] at hg
    exact fsGet_in r i v hi.2 hg

theorem fsGet_ok {h : Heap} : ∀ (fs : HFs) (i : Nat) (v : HV), okFs h fs = true → fsGet fs i = some v → okV h v = true
  | .nil, _, _, _, hg => by simp [fsGet] at hg
  | .cons ex v0 r, 0, v, hi, hg => by
    simp only [fsGet] at hg
    simp only [okFs, Bool.and_eq_true] at hi
    split at hg
    · cases hg; exact hi.1
    · cases hg
  | .cons ex v0 r, i + 1, v, hi, hg => by
    simp only [fsGet] at hg
    simp only [okFs, Bool.and_eq_true] at hi
    exact fsGet_ok r i v hi.2 hg

theorem fsSet_in {P : Nat → Prop} : ∀ (fs : HFs) (i : Nat) (w : HV), inFs P fs → inV P w → inFs P (fsSet fs i w)
  | .nil, _, _, _, _ => by simp [fsSet, inFs]
  | .cons ex v0 r, 0, w, hi, hw => by
    simp only [fsSet, inFs]; exact ⟨fun _ => hw, hi.2⟩
  | .cons ex v0 r, i + 1, w, hi, hw => by
    simp only [fsSet, inFs]; exact ⟨hi.1, fsSet_in r i w hi.2 hw⟩

theorem fsSet_ok {h : Heap} : ∀ (fs : HFs) (i : Nat) (w : HV), okFs h fs = true → okV h w = true → okFs h (fsSet fs i w) = true
  | .nil, _, _, _, _ => by simp [fsSet, okFs]
  | .cons ex v0 r, 0, w, hi, hw => by
    simp only [okFs, Bool.and_eq_true] at hi
    simp only [fsSet, okFs, Bool.and_eq_true]; exact ⟨hw, hi.2⟩
  | .cons ex v0 r, i + 1, w, hi, hw => by
    simp only [okFs, Bool.and_eq_true] at hi
    simp only [fsSet, okFs, Bool.and_eq_true]; exact ⟨hi.1, fsSet_ok r i w hi.2 hw⟩

theorem getPath_in {P : Nat → Prop} : ∀ (p : List Nat) (v w : HV), inV P v → getPath v p = some w → inV P w := by
  intro p
  induction p with
  | nil => intro v w hv hg; simp only [getPath, Option.some.injEq] at hg; subst hg; exact hv
  | cons i p ih =>
    intro v w hv hg
    cases v <;> simp only [getPath, reduceCtorEq] at hg
    rename_i fs
    split at hg
    · rename_i v1 h1
      exact ih v1 w (fsGet_in fs i v1 hv h1) hg
    · cases hg

theorem getPath_ok {h : Heap} : ∀ (p : List Nat) (v w : HV), okV h v = true → getPath v p = some w → okV h w = true := by
  intro p
  induction p with
  | nil => intro v w hv hg; simp only [getPath, Option.some.injEq] at hg; subst hg; exact hv
  | cons i p ih =>
    intro v w hv hg
    cases v <;> simp only [getPath, reduceCtorEq] at hg
    rename_i fs
    split at hg
    · rename_i v1 h1
      exact ih v1 w (fsGet_ok fs i v1 (by simpa [okV] using hv) h1) hg
    · cases hg

theorem setPath_in {P : Nat → Prop} : ∀ (p : List Nat) (v w v' : HV), inV P v → inV P w → setPath v p w = some v' → inV P v' := by
  intro p
  induction p with
  | nil => intro v w v' _ hw hg; simp only [setPath, Option.some.injEq] at hg; subst hg; exact hw
  | cons i p ih =>
    intro v w v' hv hw hg
    cases v <;> simp only [setPath, reduceCtorEq] at hg
    rename_i fs
    split at hg
    · rename_i v1 h1
      split at hg
      · rename_i v2 h2
        cases hg
        exact fsSet_in fs i v2 hv (ih v1 w v2 (fsGet_in fs i v1 hv h1) hw h2)
      · cases hg
    · cases hg

theorem setPath_ok {h : Heap} : ∀ (p : List Nat) (v w v' : HV), okV h v = true → okV h w = true → setPath v p w = some v' → okV h v' = true := by
  intro p
  induction p with
  | nil => intro v w v' _ hw hg; simp only [setPath, Option.some.injEq] at hg; subst hg; exact hw
  | cons i p ih =>
    intro v w v' hv hw hg
    cases v <;> simp only [setPath, reduceCtorEq] at hg
    rename_i fs
    have hfs : okFs h fs = true := by simpa [okV] using hv
    split at hg
    · rename_i v1 h1
      split at hg
      · rename_i v2 h2
        cases hg
        simp only [okV]
        exact fsSet_ok fs i v2 hfs (ih v1 w v2 (fsGet_ok fs i v1 hfs h1) hw h2)
      · cases hg
    · cases hg

/-! ## reads and writes -/

theorem readLoc_in {P : Nat → Prop} {h : Heap} (I : OvInv P h) {l : Loc} {v : HV} (hl : P l.addr)
    (hr : readLoc h l = some v) : inV P v ∧ okV h v = true := by
  unfold readLoc at hr
  split at hr
  · rename_i v0 h0
    exact ⟨getPath_in l.path v0 v (I.closed l.addr _ hl h0) hr, getPath_ok l.path v0 v (I.cells.val h0) hr⟩
  · cases hr

theorem readLoc_ptr {P : Nat → Prop} {h : Heap} (I : OvInv P h) {l : Loc} {c : Nat} (hl : P l.addr)
    (hr : readLoc h l = some (.ptr c)) : P c := (readLoc_in I hl hr).1

/-- the result of a sound step: the invariant holds again and only cells of the set were written -/
def Snd (P : Nat → Prop) (h : Heap) (r : Heap × St) : Prop := OvInv P r.1 ∧ OvExt P h r.1

theorem Snd.refl {P : Nat → Prop} {h : Heap} (I : OvInv P h) (st : St) : Snd P h (h, st) := ⟨I, OvExt.refl P h⟩

theorem Snd.trans {P : Nat → Prop} {h h1 : Heap} {r : Heap × St} (e : OvExt P h h1) (s : Snd P h1 r) : Snd P h r :=
  ⟨s.1, e.trans s.2⟩

theorem Snd.st {P : Nat → Prop} {h h1 : Heap} {st : St} (s : Snd P h (h1, st)) (st' : St) : Snd P h (h1, st') := s

theorem writeLoc_sound {P : Nat → Prop} {h h' : Heap} (I : OvInv P h) {l : Loc} {w : HV} (hl : P l.addr)
    (hw : inV P w) (hok : okV h w = true) (hc : writeLoc h l w = some h') : OvInv P h' ∧ OvExt P h h' := by
  unfold writeLoc at hc
  split at hc
  · rename_i v0 h0
    split at hc
    · rename_i v' hs
      cases hc
      have hk : Kinded h (h.set l.addr (.val v')) :=
        Kinded.set_val v' fun c hc => by rw [h0] at hc; cases hc; exact ⟨v0, rfl⟩
      have hin : inV P v' := setPath_in l.path v0 w v' (I.closed l.addr _ hl h0) hw hs
      have hok' : okV h v' = true := setPath_ok l.path v0 w v' (I.cells.val h0) hok hs
      refine ⟨⟨?_, I.cells.set hk (by simp only [okCell]; exact okV_kinded hk v' hok'), ?_⟩, ⟨by simp, ?_, hk⟩⟩
      · intro a c ha hg
        rw [List.getElem?_set] at hg
        split at hg
        · split at hg
          · cases hg; exact hin
          · cases hg
        · exact I.closed a c ha hg
      · intro a ha; exact I.fresh a (by simpa using ha)
      · intro a ha
        have : l.addr ≠ a := fun he => ha (he ▸ hl)
        exact List.getElem?_set_ne this
    · cases hc
  · cases hc

mutual
theorem pureV_in (P : Nat → Prop) (h : Heap) : ∀ v, pureV v = true → inV P v ∧ okV h v = true
  | .sc _, _ => ⟨trivial, rfl⟩
  | .nil, _ => ⟨trivial, rfl⟩
  | .ptr _, hp => by simp [pureV] at hp
  | .mp _, hp => by simp [pureV] at hp
  | .sl _ _, hp => by simp [pureV] at hp
  | .st fs, hp => by simp only [pureV] at hp; simp only [inV, okV]; exact pureFs_in P h fs hp
  | .ar fs, hp => by simp only [pureV] at hp; simp only [inV, okV]; exact pureFs_in P h fs hp
  | .ifc d, hp => by simp only [pureV] at hp; simp only [inV, okV]; exact pureV_in P h d hp
theorem pureFs_in (P : Nat → Prop) (h : Heap) : ∀ fs, pureFs fs = true → inFs P fs ∧ okFs h fs = true
  | .nil, _ => ⟨trivial, rfl⟩
  | .cons ex v r, hp => by
    simp only [pureFs, Bool.and_eq_true] at hp
    simp only [inFs, okFs, Bool.and_eq_true]
    exact ⟨⟨fun _ => (pureV_in P h v hp.1).1, (pureFs_in P h r hp.2).1⟩, (pureV_in P h v hp.1).2, (pureFs_in P h r hp.2).2⟩
end

theorem pure_zeroTag (z : Zeros) (n : Nat) : pureV (zeroTag z n) = true := by
  unfold zeroTag
  split
  · split
    · assumption
    · rfl
  · rfl

mutual
theorem pure_zeroH (z : Zeros) : ∀ t, pureV (zeroH z t) = true
  | .scalar n => by simp only [zeroH]; exact pure_zeroTag z n
  | .tu n => by simp only [zeroH]; exact pure_zeroTag z n
  | .slice _ => rfl
  | .map _ => rfl
  | .ptr _ => rfl
  | .chan => rfl
  | .func => rfl
  | .struct fs => by simp only [zeroH, pureV]; exact pure_zeroFs z fs
theorem pure_zeroFs (z : Zeros) : ∀ fs, pureFs (zeroFs z fs) = true
  | .nil => rfl
  | .cons k t r => by simp only [zeroFs, pureFs, Bool.and_eq_true]; exact ⟨pure_zeroH z t, pure_zeroFs z r⟩
end

/-- appending a reference-free value cell -/
theorem alloc_sound {P : Nat → Prop} {h : Heap} (I : OvInv P h) {v : HV} (hp : pureV v = true) :
    OvInv P (h ++ [.val v]) ∧ OvExt P h (h ++ [.val v]) ∧ P h.length := by
  have hfr : P h.length := I.fresh _ (Nat.le_refl _)
  refine ⟨⟨?_, I.cells.append (by simp only [okCell]; exact (pureV_in P _ v hp).2), ?_⟩,
    ⟨by simp, ?_, Kinded.append h _⟩, hfr⟩
  · intro a c ha hg
    rcases Nat.lt_or_ge a h.length with hlt | hge
    · rw [List.getElem?_append_left hlt] at hg; exact I.closed a c ha hg
    · rw [List.getElem?_append_right hge] at hg
      cases hh : a - h.length with
      | zero => rw [hh] at hg; simp at hg; subst hg; exact (pureV_in P h v hp).1
      | succ n => rw [hh] at hg; simp at hg
  · intro a ha; exact I.fresh a (by simp at ha; omega)
  · intro a ha
    have hlt : a < h.length := by
      rcases Nat.lt_or_ge a h.length with hlt | hge
      · exact hlt
      · exact absurd (I.fresh a hge) ha
    exact List.getElem?_append_left hlt

theorem setLoc_sound {P : Nat → Prop} {h : Heap} (I : OvInv P h) (bt vt : Ty) {bl : Loc} {v : HV} (hb : P bl.addr)
    (hv : inV P v ∧ okV h v = true) : Snd P h (setLoc h bt vt bl v) := by
  unfold setLoc
  split
  · split
    · rename_i h' hw; exact writeLoc_sound I hb hv.1 hv.2 hw
    · exact Snd.refl I _
  · exact Snd.refl I _

theorem elemLoc_in {P : Nat → Prop} {h : Heap} (I : OvInv P h) {ol el : Loc} (ho : P ol.addr)
    (he : elemLoc h ol = some el) : P el.addr := by
  unfold elemLoc at he
  split at he
  · rename_i c hr
    split at he
    · cases he; exact readLoc_ptr I ho hr
    · cases he
  · cases he

theorem setFromElem_sound {P : Nat → Prop} {h : Heap} (I : OvInv P h) (bt oe : Ty) {bl ol : Loc} (hb : P bl.addr)
    (ho : P ol.addr) : Snd P h (setFromElem h bt oe bl ol) := by
  unfold setFromElem
  split
  · rename_i el he
    split
    · rename_i pv hr
      exact setLoc_sound I bt oe hb (readLoc_in I (elemLoc_in I ho he) hr)
    · exact Snd.refl I _
  · exact Snd.refl I _

/-- `base.Set(reflect.New(T))`: allocate the zero struct, store the pointer -/
theorem allocWrite_sound {P : Nat → Prop} {h h2 : Heap} (I : OvInv P h) (z : Zeros) (bfs : Fields) {bl : Loc}
    (hb : P bl.addr) (hw : writeLoc (h ++ [.val (.st (zeroFs z bfs))]) bl (.ptr h.length) = some h2) :
    OvInv P h2 ∧ OvExt P h h2 ∧ P h.length := by
  obtain ⟨I1, e1, hp⟩ := alloc_sound I (v := .st (zeroFs z bfs)) (by simp only [pureV]; exact pure_zeroFs z bfs)
  obtain ⟨I2, e2⟩ := writeLoc_sound I1 hb (w := .ptr h.length) hp (by simp [okV]) hw
  exact ⟨I2, e1.trans e2, hp⟩

theorem Snd.alloc {P : Nat → Prop} {h h2 : Heap} {r : Heap × St} (I : OvInv P h) (z : Zeros) (bfs : Fields) {bl : Loc}
    (hb : P bl.addr) (hw : writeLoc (h ++ [.val (.st (zeroFs z bfs))]) bl (.ptr h.length) = some h2)
    (k : OvInv P h2 → P h.length → Snd P h2 r) : Snd P h r := by
  obtain ⟨I2, e2, hp⟩ := allocWrite_sound I z bfs hb hw
  exact Snd.trans e2 (k I2 hp)

/-! ## the overlay is local -/

theorem overlay_sound_aux (P : Nat → Prop) (z : Zeros) : ∀ n : Nat,
    (∀ (settable : Bool) (bt ot : Ty) (h : Heap) (bl ol : Loc), sizeOf bt < n → OvInv P h → P bl.addr → P ol.addr →
      Snd P h (overlayFieldH z settable bt ot h bl ol)) ∧
    (∀ (bfs ofs : Fields) (h : Heap) (bl ol : Loc) (i j : Nat), sizeOf bfs < n → OvInv P h → P bl.addr → P ol.addr →
      Snd P h (overlayStructH z bfs ofs h bl ol i j)) := by
  intro n
  induction n with
  | zero => exact ⟨fun _ _ _ _ _ _ hn => by omega, fun _ _ _ _ _ _ _ hn => by omega⟩
  | succ n ih =>
    refine ⟨?_, ?_⟩
    · intro settable bt ot h bl ol hn I hb ho
      unfold overlayFieldH
      split
      all_goals repeat' (first
        | exact Snd.refl I _
        | exact setLoc_sound I _ _ hb (readLoc_in I ho (by assumption))
        | exact setLoc_sound I _ _ (P := P) (bl := ⟨_, []⟩) (readLoc_ptr I hb (by assumption)) (readLoc_in I ho (by assumption))
        | exact setFromElem_sound I _ _ hb ho
        | exact ih.2 _ _ _ _ _ _ _ (by simp only [Ty.ptr.sizeOf_spec, Ty.struct.sizeOf_spec] at hn; omega) I hb ho
        | exact ih.2 _ _ _ _ _ _ _ (by simp only [Ty.ptr.sizeOf_spec, Ty.struct.sizeOf_spec] at hn; omega) I hb (elemLoc_in I ho (by assumption))
        | exact ih.2 _ _ _ ⟨_, []⟩ _ _ _ (by simp only [Ty.ptr.sizeOf_spec, Ty.struct.sizeOf_spec] at hn; omega) I (readLoc_ptr I hb (by assumption)) (elemLoc_in I ho (by assumption))
        | exact Snd.alloc I z _ hb (by assumption) (fun I2 _ => Snd.refl I2 _)
        | exact Snd.alloc I z _ hb (by assumption) (fun I2 hp =>
            ih.2 _ _ _ ⟨_, []⟩ _ _ _ (by simp only [Ty.ptr.sizeOf_spec, Ty.struct.sizeOf_spec] at hn; omega) I2 hp (elemLoc_in I2 ho (by assumption)))
        | split)
    · intro bfs ofs h bl ol i j hn I hb ho
      unfold overlayStructH
      split
      · exact Snd.refl I _
      · rename_i k t r
        simp only [Fields.cons.sizeOf_spec] at hn
        split
        · exact ih.2 r _ h bl ol (i + 1) j (by omega) I hb ho
        · split
          · exact Snd.refl I _
          · rename_i ot ofs'
            have hf := ih.1 (decide (k ≠ .unexported)) t ot h (bl.field i) (ol.field j) (by omega) I hb ho
            generalize overlayFieldH z (decide (k ≠ .unexported)) t ot h (bl.field i) (ol.field j) = res at hf ⊢
            obtain ⟨h', st⟩ := res
            cases st with
            | ok => exact Snd.trans hf.2 (ih.2 r ofs' h' bl ol _ _ (by omega) hf.1 hb ho)
            | _ => exact hf

theorem overlayFieldH_sound (P : Nat → Prop) (z : Zeros) (settable : Bool) (bt ot : Ty) (h : Heap) (bl ol : Loc)
    (I : OvInv P h) (hb : P bl.addr) (ho : P ol.addr) :
    OvInv P (overlayFieldH z settable bt ot h bl ol).1 ∧ OvExt P h (overlayFieldH z settable bt ot h bl ol).1 :=
  (overlay_sound_aux P z (sizeOf bt + 1)).1 settable bt ot h bl ol (Nat.lt_succ_self _) I hb ho

theorem overlayStructH_sound (P : Nat → Prop) (z : Zeros) (bfs ofs : Fields) (h : Heap) (bl ol : Loc) (i j : Nat)
    (I : OvInv P h) (hb : P bl.addr) (ho : P ol.addr) :
    OvInv P (overlayStructH z bfs ofs h bl ol i j).1 ∧ OvExt P h (overlayStructH z bfs ofs h bl ol i j).1 :=
  (overlay_sound_aux P z (sizeOf bfs + 1)).2 bfs ofs h bl ol i j (Nat.lt_succ_self _) I hb ho

/-! ## marks -/

mutual
theorem frV_iff_inV (m : Nat) : ∀ v, frV m v ↔ inV (fun a => m ≤ a) v
  | .sc _ => Iff.rfl
  | .nil => Iff.rfl
  | .ptr _ => Iff.rfl
  | .mp _ => Iff.rfl
  | .sl _ _ => Iff.rfl
  | .st fs => by simp only [frV, inV]; exact frFs_iff_inFs m fs
  | .ar fs => by simp only [frV, inV]; exact frFs_iff_inFs m fs
  | .ifc d => by simp only [frV, inV]; exact frV_iff_inV m d
theorem frFs_iff_inFs (m : Nat) : ∀ fs, frFs m fs ↔ inFs (fun a => m ≤ a) fs
  | .nil => Iff.rfl
  | .cons ex v r => by
    simp only [frFs, inFs]
    exact ⟨fun h => ⟨fun he => (frV_iff_inV m v).1 (h.1 he), (frFs_iff_inFs m r).1 h.2⟩,
      fun h => ⟨fun he => (frV_iff_inV m v).2 (h.1 he), (frFs_iff_inFs m r).2 h.2⟩⟩
end

theorem frCell_iff_inCell (m : Nat) (c : Cell) : frCell m c ↔ inCell (fun a => m ≤ a) c := by
  cases c with
  | val v => exact frV_iff_inV m v
  | mapc es =>
    simp only [frCell, inCell]
    exact ⟨fun h p hp => ⟨(frV_iff_inV m _).1 (h p hp).1, (frV_iff_inV m _).1 (h p hp).2⟩,
      fun h p hp => ⟨(frV_iff_inV m _).2 (h p hp).1, (frV_iff_inV m _).2 (h p hp).2⟩⟩
  | arr es =>
    simp only [frCell, inCell]
    exact ⟨fun h p hp => (frV_iff_inV m _).1 (h p hp), fun h p hp => (frV_iff_inV m _).2 (h p hp)⟩

theorem freshHeap_iff_closed (m : Nat) (h : Heap) : FreshHeap m h ↔ Closed (fun a => m ≤ a) h :=
  ⟨fun hf a c ha hg => (frCell_iff_inCell m c).1 (hf a c ha hg), fun hc a c ha hg => (frCell_iff_inCell m c).2 (hc a c ha hg)⟩

theorem OvInv.of_fresh {m : Nat} {h : Heap} (hf : FreshHeap m h) (hc : CellsOK h) (hm : m ≤ h.length) :
    OvInv (fun a => m ≤ a) h :=
  ⟨(freshHeap_iff_closed m h).1 hf, hc, fun _ ha => Nat.le_trans hm ha⟩

/-! ## the copier relative to an older mark -/

theorem deepCopy_fresh_at {m f : Nat} {h h' : Heap} {v v' : HV} (hh : HeapOK h = true) (hv : okV h v = true)
    (hm : m ≤ h.length) (hf : FreshHeap m h) (hc : deepCopy f h v = some (h', v')) : FreshHeap m h' ∧ frV m v' := by
  obtain ⟨s', hr, rfl⟩ := deepCopy_run (WF_of hh hv) hc
  have hi0 : Inv m (CS.init h) :=
    ⟨hm, hf, fun a a' hl => by simp [CS.init, lookup_nil] at hl, fun a a' hl => by simp [CS.init, lookup_nil] at hl,
      fun a b c hl => by simp [CS.init, lookup_nil] at hl, fun a b c hl => by simp [CS.init, lookup_nil] at hl⟩
  obtain ⟨hi, hv'⟩ := run_inv m hr hi0 (by simp [tgtGe, Task.tgt])
  exact ⟨hi.fresh, hv'⟩

/-! ## one layer of `compose` -/

/-- loop invariant of the real `compose` on the current heap `hi`, relative to the mark `m` (the size of the
caller's heap): the heap is closed, everything at or above the mark only references cells at or above the
mark, and the base `b` is a value cell above the mark -/
structure LInv (m b : Nat) (hi : Heap) : Prop where
  len : m ≤ hi.length
  ok : HeapOK hi = true
  fresh : FreshHeap m hi
  base : m ≤ b
  cell : ∃ v, hi[b]? = some (Cell.val v)

/-- how one step moves the heap: it grows, nothing below the mark changes, kinds are kept -/
structure LExt (m : Nat) (hi h' : Heap) : Prop where
  len : hi.length ≤ h'.length
  frozen : ∀ a, a < m → h'[a]? = hi[a]?
  kinded : Kinded hi h'

theorem LExt.refl (m : Nat) (h : Heap) : LExt m h h := ⟨Nat.le_refl _, fun _ _ => rfl, Kinded.refl h⟩

theorem LExt.trans {m : Nat} {h1 h2 h3 : Heap} (e1 : LExt m h1 h2) (e2 : LExt m h2 h3) : LExt m h1 h3 :=
  ⟨Nat.le_trans e1.len e2.len, fun a ha => by rw [e2.frozen a ha, e1.frozen a ha], e1.kinded.trans e2.kinded⟩

theorem LInv.copy {m b f : Nat} {hi h1 : Heap} {v v' : HV} (I : LInv m b hi) (hv : okV hi v = true)
    (hc : deepCopy f hi v = some (h1, v')) : LInv m b h1 ∧ LExt m hi h1 ∧ okV h1 v' = true ∧ frV m v' := by
  obtain ⟨hlen, hfr⟩ := frozen_main hc
  obtain ⟨hok, hokv⟩ := deepCopy_ok I.ok hv hc
  obtain ⟨hf, hfv⟩ := deepCopy_fresh_at I.ok hv I.len I.fresh hc
  have hk : Kinded hi h1 := Kinded.of_prefix hfr
  obtain ⟨w, hw⟩ := I.cell
  exact ⟨⟨Nat.le_trans I.len hlen, hok, hf, I.base, hk.val b w hw⟩,
    ⟨hlen, fun a ha => hfr a (Nat.lt_of_lt_of_le ha I.len), hk⟩, hokv, hfv⟩

theorem LInv.append {m b : Nat} {h1 : Heap} {sv : HV} (I : LInv m b h1) (hv : okV h1 sv = true) (hf : frV m sv) :
    LInv m b (h1 ++ [.val sv]) ∧ LExt m h1 (h1 ++ [.val sv]) := by
  have hk := Kinded.append h1 (.val sv)
  obtain ⟨w, hw⟩ := I.cell
  refine ⟨⟨by simp; exact Nat.le_succ_of_le I.len, ?_, I.fresh.append (c := .val sv) hf, I.base, hk.val b w hw⟩,
    ⟨by simp, fun a ha => List.getElem?_append_left (Nat.lt_of_lt_of_le ha I.len), hk⟩⟩
  exact ((CellsOK.of_heapOK I.ok).append (by simp only [okCell]; exact okV_kinded hk sv hv)).to_heapOK

theorem LInv.overlay {m b c : Nat} {h1 : Heap} (I : LInv m b h1) (hc : m ≤ c) (z : Zeros) (bfs ofs : Fields) :
    LInv m b (overlayStructH z bfs ofs h1 ⟨b, []⟩ ⟨c, []⟩ 0 0).1 ∧
    LExt m h1 (overlayStructH z bfs ofs h1 ⟨b, []⟩ ⟨c, []⟩ 0 0).1 := by
  obtain ⟨I', e⟩ := overlayStructH_sound (fun a => m ≤ a) z bfs ofs h1 ⟨b, []⟩ ⟨c, []⟩ 0 0
    (OvInv.of_fresh I.fresh (CellsOK.of_heapOK I.ok) I.len) I.base hc
  obtain ⟨w, hw⟩ := I.cell
  exact ⟨⟨Nat.le_trans I.len e.len, I'.cells.to_heapOK, (freshHeap_iff_closed m _).2 I'.closed, I.base, e.kinded.val b w hw⟩,
    ⟨e.len, fun a ha => e.frame a (by omega), e.kinded⟩⟩

/-- one source of `compose` (= the harness op `verifOverlayH`), every exit -/
theorem overlayLayerH_inv {z : Zeros} {f : Nat} {bfs ofs : Fields} {m b : Nat} {hi h' : Heap} {v : HV} {st : St}
    (I : LInv m b hi) (hv : okV hi v = true) (hc : overlayLayerH z f bfs ofs hi b v = some (h', st)) :
    LInv m b h' ∧ LExt m hi h' := by
  unfold overlayLayerH at hc
  -- F8b: breaks (as intended) if the regenerated fact flips
  have hF : Facts.composeCopiesSources = true := rfl
  simp only [hF, if_true] at hc
  split at hc
  · rename_i c
    split at hc
    · cases hc
    · rename_i h1 c' hd
      obtain ⟨I1, e1, _, hfc⟩ := I.copy hv hd
      obtain ⟨I2, e2⟩ := I1.overlay (c := c') hfc z bfs ofs
      simp only [Option.some.injEq] at hc
      rw [hc] at I2 e2
      exact ⟨I2, e1.trans e2⟩
    · rename_i h1 w _ hd
      obtain ⟨I1, e1, _, _⟩ := I.copy hv hd
      cases hc
      exact ⟨I1, e1⟩
  · rename_i fs
    split at hc
    · cases hc
    · rename_i h1 sv hd
      obtain ⟨I1, e1, hok, hfv⟩ := I.copy hv hd
      obtain ⟨I2, e2⟩ := I1.append hok hfv
      obtain ⟨I3, e3⟩ := I2.overlay (c := h1.length) (Nat.le_trans I.len e1.len) z bfs ofs
      simp only [Option.some.injEq] at hc
      rw [hc] at I3 e3
      exact ⟨I3, e1.trans (e2.trans e3)⟩
  · cases hc; exact ⟨I, LExt.refl m _⟩
  · cases hc; exact ⟨I, LExt.refl m _⟩

theorem verifOverlayH_inv {z : Zeros} {f : Nat} {bfs ofs : Fields} {m b : Nat} {hi h' : Heap} {v : HV} {st : St}
    (I : LInv m b hi) (hv : okV hi v = true) (hc : verifOverlayH z f bfs ofs hi b v = some (h', st)) :
    LInv m b h' ∧ LExt m hi h' := overlayLayerH_inv I hv hc

theorem composeLoop_inv {z : Zeros} {f : Nat} {bfs : Fields} {m b : Nat} :
    ∀ (vs : List (Fields × HV)) (hi : Heap), LInv m b hi → (∀ p ∈ vs, okV hi p.2 = true) →
      ∀ h' st, composeLoop z f bfs b hi vs = some (h', st) → LInv m b h' ∧ LExt m hi h' := by
  intro vs
  induction vs with
  | nil =>
    intro hi I _ h' st hc
    simp only [composeLoop, Option.some.injEq, Prod.mk.injEq] at hc
    obtain ⟨rfl, _⟩ := hc
    exact ⟨I, LExt.refl m _⟩
  | cons p vs ih =>
    intro hi I hvs h' st hc
    obtain ⟨ofs, v⟩ := p
    simp only [composeLoop] at hc
    split at hc
    · cases hc
    · rename_i h1 hl
      obtain ⟨I1, e1⟩ := overlayLayerH_inv I (hvs (ofs, v) (by simp)) hl
      obtain ⟨I2, e2⟩ := ih h1 I1 (fun q hq => okV_kinded e1.kinded _ (hvs q (List.mem_cons_of_mem _ hq))) h' st hc
      exact ⟨I2, e1.trans e2⟩
    · rename_i h1 st1 _ hl
      simp only [Option.some.injEq, Prod.mk.injEq] at hc
      obtain ⟨rfl, _⟩ := hc
      exact overlayLayerH_inv I (hvs (ofs, v) (by simp)) hl

/-! ## the real `compose` -/

structure RInv (h h' : Heap) (r : HV) : Prop where
  len : h.length ≤ h'.length
  frozen : ∀ a, a < h.length → h'[a]? = h[a]?
  ok : HeapOK h' = true
  okr : okV h' r = true
  fresh : ∀ a, ReachV h' r a → h.length ≤ a

theorem RInv.of_cinv {h h' : Heap} {r : HV} (c : CInv h h' r) : RInv h h' r :=
  ⟨c.len, c.frozen, c.ok, c.okb, c.fresh⟩

theorem composeR_inv {z : Zeros} {f : Nat} {bfs : Fields} {h : Heap} {d : HV} {vs : List (Fields × HV)}
    (hh : HeapOK h = true) (hd : okV h d = true) (hvs : ∀ p ∈ vs, okV h p.2 = true)
    {h' : Heap} {st : St} {r : HV} (hc : composeR z f bfs h d vs = some (h', st, r)) : RInv h h' r := by
  unfold composeR at hc
  -- F8a: breaks (as intended) if the regenerated fact flips
  have hF : Facts.composeCopiesDefaults = true := rfl
  simp only [hF, if_true] at hc
  split at hc
  · cases hc
  · rename_i h1 b hd1
    have C := CInv.start hh hd hd1
    split at hc
    · rename_i w hw
      split at hc
      · cases hc
      · rename_i h2 st2 hl
        simp only [Option.some.injEq, Prod.mk.injEq] at hc
        obtain ⟨rfl, rfl, rfl⟩ := hc
        obtain ⟨hf1, hfb⟩ := deepCopy_fresh_at hh hd (Nat.le_refl _) (Inv.init h).fresh hd1
        have I1 : LInv h.length b h1 := ⟨C.len, C.ok, hf1, hfb, ⟨w, hw⟩⟩
        have hk1 : Kinded h h1 := Kinded.of_prefix C.frozen
        obtain ⟨I2, e2⟩ := composeLoop_inv vs h1 I1 (fun p hp => okV_kinded hk1 _ (hvs p hp)) h2 st2 hl
        obtain ⟨w2, hw2⟩ := I2.cell
        refine ⟨I2.len, fun a ha => by rw [e2.frozen a ha, C.frozen a ha], I2.ok, by simp [okV, hw2], ?_⟩
        intro a ha
        exact reach_fresh I2.fresh ha I2.base
    · simp only [Option.some.injEq, Prod.mk.injEq] at hc
      obtain ⟨rfl, _, rfl⟩ := hc
      exact RInv.of_cinv C
  · rename_i h1 r1 _ hd1
    simp only [Option.some.injEq, Prod.mk.injEq] at hc
    obtain ⟨rfl, _, rfl⟩ := hc
    exact RInv.of_cinv (CInv.start hh hd hd1)

/-! ## the real overlay step satisfies the (well-formed) locality laws -/

mutual
theorem inV_mono {P Q : Nat → Prop} (hpq : ∀ a, P a → Q a) : ∀ v, inV P v → inV Q v
  | .sc _, _ => trivial
  | .nil, _ => trivial
  | .ptr a, h => hpq a h
  | .mp a, h => hpq a h
  | .sl a _, h => hpq a h
  | .st fs, h => by simp only [inV] at h ⊢; exact inFs_mono hpq fs h
  | .ar fs, h => by simp only [inV] at h ⊢; exact inFs_mono hpq fs h
  | .ifc d, h => by simp only [inV] at h ⊢; exact inV_mono hpq d h
theorem inFs_mono {P Q : Nat → Prop} (hpq : ∀ a, P a → Q a) : ∀ fs, inFs P fs → inFs Q fs
  | .nil, _ => trivial
  | .cons ex v r, h => by
    simp only [inFs] at h ⊢
    exact ⟨fun he => inV_mono hpq v (h.1 he), inFs_mono hpq r h.2⟩
end

theorem inCell_mono {P Q : Nat → Prop} (hpq : ∀ a, P a → Q a) (c : Cell) (h : inCell P c) : inCell Q c := by
  cases c with
  | val v => exact inV_mono hpq v h
  | mapc es => exact fun p hp => ⟨inV_mono hpq _ (h p hp).1, inV_mono hpq _ (h p hp).2⟩
  | arr es => exact fun p hp => inV_mono hpq _ (h p hp)

/-- generalisation of `reach_fresh`: a closed set containing the exported references of a value contains
everything the value reaches -/
theorem reach_in {P : Nat → Prop} {hp : Heap} (hc : Closed P hp) {v : HV} {a : Nat} (hr : ReachV hp v a) :
    inV P v → P a := by
  refine ReachV.rec (h := hp) (motive_1 := fun v a _ => inV P v → P a)
    (motive_2 := fun fs a _ => inFs P fs → P a) ?_ ?_ ?_ ?_ ?_ ?_ ?_ ?_ ?_ ?_ ?_ ?_ hr
  · intro a h; exact h
  · intro a v b hg _ ih h; exact ih (hc a _ h hg)
  · intro a h; exact h
  · intro a es k v b hg hmem _ ih h; exact ih (hc a _ h hg (k, v) hmem).1
  · intro a es k v b hg hmem _ ih h; exact ih (hc a _ h hg (k, v) hmem).2
  · intro a len h; exact h
  · intro a len es v b hg hmem _ ih h; exact ih (hc a _ h hg v hmem)
  · intro fs b _ ih h; exact ih h
  · intro fs b _ ih h; exact ih h
  · intro d b _ ih h; exact ih h
  · intro v rest b _ ih h; exact ih (h.1 rfl)
  · intro ex v rest b _ ih h; exact ih h.2

mutual
/-- every reference at an exported position of a value is reachable from it -/
theorem refs_reach (h : Heap) (Q : Nat → Prop) : ∀ v, (∀ x, ReachV h v x → Q x) → inV Q v
  | .sc _, _ => trivial
  | .nil, _ => trivial
  | .ptr a, hq => hq a (.ptrHere a)
  | .mp a, hq => hq a (.mpHere a)
  | .sl a len, hq => hq a (.slHere a len)
  | .st fs, hq => by simp only [inV]; exact refsFs_reach h Q fs fun x hx => hq x (.st fs x hx)
  | .ar fs, hq => by simp only [inV]; exact refsFs_reach h Q fs fun x hx => hq x (.ar fs x hx)
  | .ifc d, hq => by simp only [inV]; exact refs_reach h Q d fun x hx => hq x (.ifc d x hx)
theorem refsFs_reach (h : Heap) (Q : Nat → Prop) : ∀ fs, (∀ x, ReachFs h fs x → Q x) → inFs Q fs
  | .nil, _ => trivial
  | .cons ex v r, hq => by
    simp only [inFs]
    refine ⟨fun he => ?_, refsFs_reach h Q r fun x hx => hq x (.there ex v r x hx)⟩
    subst he
    exact refs_reach h Q v fun x hx => hq x (.here v r x hx)
end

/-- reachability is transitive through well-kinded cells: the cell at a reachable address only holds
(at exported positions) references that are reachable too -/
theorem reach_cell {hp : Heap} (hc : CellsOK hp) {v : HV} {a : Nat} (hr : ReachV hp v a) :
    okV hp v = true → ∀ c, hp[a]? = some c → inCell (fun x => ReachV hp v x) c := by
  refine ReachV.rec (h := hp)
    (motive_1 := fun v a _ => okV hp v = true → ∀ c, hp[a]? = some c → inCell (fun x => ReachV hp v x) c)
    (motive_2 := fun fs a _ => okFs hp fs = true → ∀ c, hp[a]? = some c → inCell (fun x => ReachFs hp fs x) c)
    ?_ ?_ ?_ ?_ ?_ ?_ ?_ ?_ ?_ ?_ ?_ ?_ hr
  · intro a hk c hg
    obtain ⟨w, hw⟩ := okV_ptr hk
    rw [hw] at hg; cases hg
    exact refs_reach hp _ w fun x hx => .ptrIn a w x hw hx
  · intro a w b hg _ ih _ c hgc
    exact inCell_mono (fun x hx => .ptrIn a w x hg hx) c (ih (hc.val hg) c hgc)
  · intro a hk c hg
    obtain ⟨es, hw⟩ := okV_mp hk
    rw [hw] at hg; cases hg
    intro p hp'
    exact ⟨refs_reach hp _ p.1 fun x hx => .mpKey a es p.1 p.2 x hw hp' hx,
      refs_reach hp _ p.2 fun x hx => .mpVal a es p.1 p.2 x hw hp' hx⟩
  · intro a es k w b hg hmem _ ih _ c hgc
    exact inCell_mono (fun x hx => .mpKey a es k w x hg hmem hx) c (ih (hc.mapc hg (k, w) hmem).1 c hgc)
  · intro a es k w b hg hmem _ ih _ c hgc
    exact inCell_mono (fun x hx => .mpVal a es k w x hg hmem hx) c (ih (hc.mapc hg (k, w) hmem).2 c hgc)
  · intro a len hk c hg
    obtain ⟨es, hw⟩ := okV_sl hk
    rw [hw] at hg; cases hg
    intro w hw'
    exact refs_reach hp _ w fun x hx => .slIn a len es w x hw hw' hx
  · intro a len es w b hg hmem _ ih _ c hgc
    exact inCell_mono (fun x hx => .slIn a len es w x hg hmem hx) c (ih (hc.arr hg w hmem) c hgc)
  · intro fs b _ ih hk c hgc
    exact inCell_mono (fun x hx => .st fs x hx) c (ih (by simpa [okV] using hk) c hgc)
  · intro fs b _ ih hk c hgc
    exact inCell_mono (fun x hx => .ar fs x hx) c (ih (by simpa [okV] using hk) c hgc)
  · intro d b _ ih hk c hgc
    exact inCell_mono (fun x hx => .ifc d x hx) c (ih (by simpa [okV] using hk) c hgc)
  · intro w rest b _ ih hk c hgc
    simp only [okFs, Bool.and_eq_true] at hk
    exact inCell_mono (fun x hx => .here w rest x hx) c (ih hk.1 c hgc)
  · intro ex w rest b _ ih hk c hgc
    simp only [okFs, Bool.and_eq_true] at hk
    exact inCell_mono (fun x hx => .there ex w rest x hx) c (ih hk.2 c hgc)

/-- the set of everything two well-formed values reach, plus the unallocated addresses, is closed -/
theorem OvInv.of_reach {h : Heap} {b o : HV} (hh : HeapOK h = true) (hb : okV h b = true) (ho : okV h o = true) :
    OvInv (fun a => ReachV h b a ∨ ReachV h o a ∨ h.length ≤ a) h := by
  have hc := CellsOK.of_heapOK hh
  refine ⟨?_, hc, fun a ha => .inr (.inr ha)⟩
  intro a c ha hg
  rcases ha with ha | ha | ha
  · exact inCell_mono (fun x hx => .inl hx) c (reach_cell hc ha hb c hg)
  · exact inCell_mono (fun x hx => .inr (.inl hx)) c (reach_cell hc ha ho c hg)
  · have := lt_of_getElem? hg; omega

/-! ### the heap never shrinks (no well-formedness needed) -/

theorem writeLoc_len {h h' : Heap} {l : Loc} {w : HV} (hc : writeLoc h l w = some h') : h'.length = h.length := by
  unfold writeLoc at hc
  split at hc
  · split at hc
    · cases hc; simp
    · cases hc
  · cases hc

/-- the step does not shrink the heap -/
def Len (h : Heap) (r : Heap × St) : Prop := h.length ≤ r.1.length

theorem Len.refl (h : Heap) (st : St) : Len h (h, st) := Nat.le_refl _

theorem setLoc_len (h : Heap) (bt vt : Ty) (bl : Loc) (v : HV) : Len h (setLoc h bt vt bl v) := by
  unfold setLoc
  split
  · split
    · rename_i h' hw; exact Nat.le_of_eq (writeLoc_len hw).symm
    · exact Len.refl h _
  · exact Len.refl h _

theorem setFromElem_len (h : Heap) (bt oe : Ty) (bl ol : Loc) : Len h (setFromElem h bt oe bl ol) := by
  unfold setFromElem
  split
  · split
    · exact setLoc_len h bt oe bl _
    · exact Len.refl h _
  · exact Len.refl h _

theorem Len.alloc {h h2 : Heap} {r : Heap × St} {c : Cell} {bl : Loc} {w : HV}
    (hw : writeLoc (h ++ [c]) bl w = some h2) (k : Len h2 r) : Len h r := by
  have := writeLoc_len hw
  simp only [List.length_append, List.length_singleton] at this
  exact Nat.le_trans (by omega) k

theorem overlay_len_aux (z : Zeros) : ∀ n : Nat,
    (∀ (settable : Bool) (bt ot : Ty) (h : Heap) (bl ol : Loc), sizeOf bt < n →
      Len h (overlayFieldH z settable bt ot h bl ol)) ∧
    (∀ (bfs ofs : Fields) (h : Heap) (bl ol : Loc) (i j : Nat), sizeOf bfs < n →
      Len h (overlayStructH z bfs ofs h bl ol i j)) := by
  intro n
  induction n with
  | zero => exact ⟨fun _ _ _ _ _ _ hn => by omega, fun _ _ _ _ _ _ _ hn => by omega⟩
  | succ n ih =>
    refine ⟨?_, ?_⟩
    · intro settable bt ot h bl ol hn
      unfold overlayFieldH
      split
      all_goals repeat' (first
        | exact Len.refl h _
        | exact setLoc_len _ _ _ _ _
        | exact setFromElem_len _ _ _ _ _
        | exact ih.2 _ _ _ _ _ _ _ (by simp only [Ty.ptr.sizeOf_spec, Ty.struct.sizeOf_spec] at hn; omega)
        | exact Len.alloc (by assumption) (Len.refl _ _)
        | exact Len.alloc (by assumption)
            (ih.2 _ _ _ _ _ _ _ (by simp only [Ty.ptr.sizeOf_spec, Ty.struct.sizeOf_spec] at hn; omega))
        | split)
    · intro bfs ofs h bl ol i j hn
      unfold overlayStructH
      split
      · exact Len.refl h _
      · rename_i k t r
        simp only [Fields.cons.sizeOf_spec] at hn
        split
        · exact ih.2 r _ h bl ol (i + 1) j (by omega)
        · split
          · exact Len.refl h _
          · rename_i ot ofs'
            have hf := ih.1 (decide (k ≠ .unexported)) t ot h (bl.field i) (ol.field j) (by omega)
            generalize overlayFieldH z (decide (k ≠ .unexported)) t ot h (bl.field i) (ol.field j) = res at hf ⊢
            obtain ⟨h', st⟩ := res
            cases st with
            | ok => exact Nat.le_trans hf (ih.2 r ofs' h' bl ol _ _ (by omega))
            | _ => exact hf

theorem overlayStructH_len (z : Zeros) (bfs ofs : Fields) (h : Heap) (bl ol : Loc) (i j : Nat) :
    h.length ≤ (overlayStructH z bfs ofs h bl ol i j).1.length :=
  (overlay_len_aux z (sizeOf bfs + 1)).2 bfs ofs h bl ol i j (Nat.lt_succ_self _)

theorem overlayFieldH_len (z : Zeros) (settable : Bool) (bt ot : Ty) (h : Heap) (bl ol : Loc) :
    h.length ≤ (overlayFieldH z settable bt ot h bl ol).1.length :=
  (overlay_len_aux z (sizeOf bt + 1)).1 settable bt ot h bl ol (Nat.lt_succ_self _)

/-! ### `ovReal` -/

/-- the overlay step of `compose` as a function on (heap, base value, source value): both are pointers to
struct cells -/
def ovReal (z : Zeros) (bfs ofs : Fields) (h : Heap) (b o : HV) : Heap × HV :=
  match b, o with
  | .ptr a, .ptr c => ((overlayStructH z bfs ofs h ⟨a, []⟩ ⟨c, []⟩ 0 0).1, .ptr a)
  | _, _ => (h, b)

/-- `OverlayLocal` (Model/HeapSpec.lean) with `frame` and `reach` restricted to well-formed inputs -/
structure OverlayLocalWF (ov : Heap → HV → HV → Heap × HV) : Prop where
  grows : ∀ h b o, h.length ≤ (ov h b o).1.length
  frame : ∀ h b o mark, HeapOK h = true → okV h b = true → okV h o = true →
    (∀ a, ReachV h b a → mark ≤ a) → (∀ a, ReachV h o a → mark ≤ a) →
    ∀ a, a < mark → (ov h b o).1[a]? = h[a]?
  reach : ∀ h b o mark, HeapOK h = true → okV h b = true → okV h o = true → mark ≤ h.length →
    (∀ a, ReachV h b a → mark ≤ a) → (∀ a, ReachV h o a → mark ≤ a) →
    ∀ a, ReachV (ov h b o).1 (ov h b o).2 a → mark ≤ a
  wf : ∀ h b o, HeapOK h = true → okV h b = true → okV h o = true →
    HeapOK (ov h b o).1 = true ∧ okV (ov h b o).1 (ov h b o).2 = true

theorem ovReal_cases (z : Zeros) (bfs ofs : Fields) (h : Heap) (b o : HV) :
    (∃ a c, b = .ptr a ∧ o = .ptr c ∧
      ovReal z bfs ofs h b o = ((overlayStructH z bfs ofs h ⟨a, []⟩ ⟨c, []⟩ 0 0).1, .ptr a)) ∨
    ovReal z bfs ofs h b o = (h, b) := by
  unfold ovReal
  split
  · exact .inl ⟨_, _, rfl, rfl, rfl⟩
  · exact .inr rfl

theorem ovReal_sound (z : Zeros) (bfs ofs : Fields) {h : Heap} {a c : Nat} (hh : HeapOK h = true)
    (hb : okV h (.ptr a) = true) (ho : okV h (.ptr c) = true) :
    let P := fun x => ReachV h (.ptr a) x ∨ ReachV h (.ptr c) x ∨ h.length ≤ x
    OvInv P (overlayStructH z bfs ofs h ⟨a, []⟩ ⟨c, []⟩ 0 0).1 ∧
    OvExt P h (overlayStructH z bfs ofs h ⟨a, []⟩ ⟨c, []⟩ 0 0).1 :=
  overlayStructH_sound _ z bfs ofs h ⟨a, []⟩ ⟨c, []⟩ 0 0 (OvInv.of_reach hh hb ho)
    (.inl (.ptrHere a)) (.inr (.inl (.ptrHere c)))

theorem overlayLocalWF_ovReal (z : Zeros) (bfs ofs : Fields) : OverlayLocalWF (ovReal z bfs ofs) := by
  refine ⟨fun h b o => ?_, fun h b o mark hh hb ho hrb hro x hx => ?_,
    fun h b o mark hh hb ho hm hrb hro x hx => ?_, fun h b o hh hb ho => ?_⟩
  · rcases ovReal_cases z bfs ofs h b o with ⟨a, c, rfl, rfl, he⟩ | he
    · rw [he]; exact overlayStructH_len z bfs ofs h _ _ 0 0
    · rw [he]; exact Nat.le_refl _
  · rcases ovReal_cases z bfs ofs h b o with ⟨a, c, rfl, rfl, he⟩ | he
    · rw [he]
      obtain ⟨_, e⟩ := ovReal_sound z bfs ofs hh hb ho
      refine e.frame x ?_
      obtain ⟨w, hw⟩ := okV_ptr hb
      have h1 := lt_of_getElem? hw
      have h2 := hrb a (.ptrHere a)
      rintro (h3 | h3 | h3)
      · have := hrb x h3; omega
      · have := hro x h3; omega
      · omega
    · rw [he]
  · rcases ovReal_cases z bfs ofs h b o with ⟨a, c, rfl, rfl, he⟩ | he
    · rw [he] at hx
      obtain ⟨I', _⟩ := ovReal_sound z bfs ofs hh hb ho
      have hp := reach_in I'.closed hx (.inl (.ptrHere a))
      rcases hp with h3 | h3 | h3
      · exact hrb x h3
      · exact hro x h3
      · omega
    · rw [he] at hx; exact hrb x hx
  · rcases ovReal_cases z bfs ofs h b o with ⟨a, c, rfl, rfl, he⟩ | he
    · rw [he]
      obtain ⟨I', e⟩ := ovReal_sound z bfs ofs hh hb ho
      exact ⟨I'.cells.to_heapOK, okV_kinded e.kinded _ hb⟩
    · rw [he]; exact ⟨hh, hb⟩

/-! ## the abstract fold of `composeH` needs only the well-formed laws -/

theorem CInv.step_wf {ov : Heap → HV → HV → Heap × HV} (hov : OverlayLocalWF ov) {f : Nat} {h hi hj : Heap}
    {bi v v' : HV} (I : CInv h hi bi) (hv : okV h v = true) (hc : deepCopy f hi v = some (hj, v')) :
    CInv h (ov hj bi v').1 (ov hj bi v').2 := by
  have hvi : okV hi v = true := okV_kinded (Kinded.of_prefix I.frozen) v hv
  obtain ⟨hlen, hfr⟩ := frozen_main hc
  obtain ⟨hokj, hokv'⟩ := deepCopy_ok I.ok hvi hc
  have hfv' := fresh_main (WF_of I.ok hvi) hc
  have hokbj : okV hj bi = true := okV_kinded (Kinded.of_prefix hfr) bi I.okb
  have hrb : ∀ a, ReachV hj bi a → h.length ≤ a := fun a ha =>
    I.fresh a (reach_prefix (CellsOK.of_heapOK I.ok) hfr ha I.okb)
  have hrv : ∀ a, ReachV hj v' a → h.length ≤ a := fun a ha => Nat.le_trans I.len (hfv' a ha)
  have hmark : h.length ≤ hj.length := Nat.le_trans I.len hlen
  obtain ⟨hok', hokb'⟩ := hov.wf hj bi v' hokj hokbj hokv'
  refine ⟨Nat.le_trans hmark (hov.grows hj bi v'), fun a ha => ?_, hok', hokb',
    hov.reach hj bi v' h.length hokj hokbj hokv' hmark hrb hrv⟩
  rw [hov.frame hj bi v' h.length hokj hokbj hokv' hrb hrv a ha, hfr a (Nat.lt_of_lt_of_le ha I.len), I.frozen a ha]

theorem compose_fold_wf {ov : Heap → HV → HV → Heap × HV} (hov : OverlayLocalWF ov) (f : Nat) (h : Heap) :
    ∀ (vs : List HV) (acc : Option (Heap × HV)), (∀ v ∈ vs, okV h v = true) →
      (∀ hi bi, acc = some (hi, bi) → CInv h hi bi) →
      ∀ h' r, vs.foldl (composeStep ov f) acc = some (h', r) → CInv h h' r := by
  intro vs
  induction vs with
  | nil => intro acc _ hacc h' r hf; exact hacc h' r hf
  | cons v vs ih =>
    intro acc hvs hacc h' r hf
    simp only [List.foldl_cons] at hf
    refine ih (composeStep ov f acc v) (fun w hw => hvs w (List.mem_cons_of_mem _ hw)) ?_ h' r hf
    intro hi bi hstep
    cases acc with
    | none => simp [composeStep] at hstep
    | some p =>
      obtain ⟨h1, b⟩ := p
      simp only [composeStep] at hstep
      cases hdc : deepCopy f h1 v with
      | none => rw [hdc] at hstep; cases hstep
      | some q =>
        obtain ⟨h2, v'⟩ := q
        rw [hdc] at hstep
        simp only [Option.some.injEq] at hstep
        have := CInv.step_wf hov (hacc h1 b rfl) (hvs v (by simp)) hdc
        rw [hstep] at this
        exact this

/-- `compose_inv` from the well-formed form of the overlay laws -/
theorem compose_inv_wf {ov : Heap → HV → HV → Heap × HV} (hov : OverlayLocalWF ov) {f : Nat} {h : Heap} {d : HV}
    {vs : List HV} (hh : HeapOK h = true) (hd : okV h d = true) (hvs : ∀ v ∈ vs, okV h v = true)
    {h' : Heap} {r : HV} (hc : composeH ov f h d vs = some (h', r)) : CInv h h' r := by
  rw [composeH_eq] at hc
  exact compose_fold_wf hov f h vs (deepCopy f h d) hvs (fun hi bi hs => CInv.start hh hd hs) h' r hc

end Dials.Heap
