/-
Helper lemmas and inductive invariants of the runtime model (used by Props/C04, Props/C05).
-/
import DialsModel.Model.RuntimeSpec

set_option linter.unusedSimpArgs false

namespace Dials.Runtime

/-! ### relevant observations -/

/-- observations that matter for C04/C05; everything else is bookkeeping of the helpers -/
def rel : Obs → Bool
  | .install _ _ => true
  | .gotUpd _ _ _ => true
  | .seen _ _ => true
  | .evRecv _ _ => true
  | .enter _ => true
  | .ret _ (.enableOk _) => true
  | _ => false

/-- the relevant part of the log (newest first) -/
def State.rlog (s : State) : List Obs := s.log.filter rel

/-! ### client table -/

theorem getC_setC_same (cs : List (Nat × CSt)) (c : Nat) (st : CSt) : getC (setC cs c st) c = st := by
  induction cs with
  | nil => simp [setC, getC]
  | cons p rest ih =>
    obtain ⟨d, x⟩ := p
    by_cases hd : (d == c) = true
    · simp [setC, hd, getC]
    · simp [setC, hd, getC]
      exact ih

theorem mem_setC {cs : List (Nat × CSt)} {c : Nat} {st : CSt} {p : Nat × CSt}
    (h : p ∈ setC cs c st) : p ∈ cs ∨ p.2 = st := by
  induction cs with
  | nil => simp [setC] at h; right; simp [h]
  | cons q rest ih =>
    obtain ⟨d, x⟩ := q
    unfold setC at h
    split at h
    · simp only [List.mem_cons] at h
      rcases h with h | h
      · right; simp [h]
      · left; exact List.mem_cons_of_mem _ h
    · simp only [List.mem_cons] at h
      rcases h with h | h
      · left; simp [h]
      · rcases ih h with h | h
        · left; exact List.mem_cons_of_mem _ h
        · right; exact h

theorem getC_mem {cs : List (Nat × CSt)} {c : Nat} {st : CSt} (h : getC cs c = st) (hne : st ≠ .idle) :
    (c, st) ∈ cs := by
  unfold getC at h
  split at h
  · rename_i p hp
    have hm := List.mem_of_find?_eq_some hp
    have hc := List.find?_some hp
    simp at hc
    obtain ⟨a, b⟩ := p
    simp at hc h
    subst hc; subst h; exact hm
  · exact absurd h.symm hne

/-! ### projection lemmas for the helper functions -/

attribute [simp] State.logAdd State.setClient State.blockClient State.ret cbTake

/-- split every `if`/`match` and simplify -/
macro "proj" : tactic => `(tactic| repeat' (first | rfl | split | simp))

@[simp] theorem waitOr_P (s : State) (c ctx : Nat) (st : CSt) (f : Res) : (s.waitOr c ctx st f).P = s.P := by
  unfold State.waitOr; proj
@[simp] theorem waitOr_view (s : State) (c ctx : Nat) (st : CSt) (f : Res) : (s.waitOr c ctx st f).view = s.view := by
  unfold State.waitOr; proj
@[simp] theorem waitOr_slots (s : State) (c ctx : Nat) (st : CSt) (f : Res) : (s.waitOr c ctx st f).slots = s.slots := by
  unfold State.waitOr; proj
@[simp] theorem waitOr_skipVerify (s : State) (c ctx : Nat) (st : CSt) (f : Res) : (s.waitOr c ctx st f).skipVerify = s.skipVerify := by
  unfold State.waitOr; proj
@[simp] theorem waitOr_mon (s : State) (c ctx : Nat) (st : CSt) (f : Res) : (s.waitOr c ctx st f).mon = s.mon := by
  unfold State.waitOr; proj
@[simp] theorem waitOr_cb (s : State) (c ctx : Nat) (st : CSt) (f : Res) : (s.waitOr c ctx st f).cb = s.cb := by
  unfold State.waitOr; proj
@[simp] theorem waitOr_lastSerial (s : State) (c ctx : Nat) (st : CSt) (f : Res) : (s.waitOr c ctx st f).lastSerial = s.lastSerial := by
  unfold State.waitOr; proj
@[simp] theorem waitOr_lastVersion (s : State) (c ctx : Nat) (st : CSt) (f : Res) : (s.waitOr c ctx st f).lastVersion = s.lastVersion := by
  unfold State.waitOr; proj
@[simp] theorem waitOr_cbch (s : State) (c ctx : Nat) (st : CSt) (f : Res) : (s.waitOr c ctx st f).cbch = s.cbch := by
  unfold State.waitOr; proj
@[simp] theorem waitOr_events (s : State) (c ctx : Nat) (st : CSt) (f : Res) : (s.waitOr c ctx st f).events = s.events := by
  unfold State.waitOr; proj
@[simp] theorem waitOr_monDone (s : State) (c ctx : Nat) (st : CSt) (f : Res) : (s.waitOr c ctx st f).monDone = s.monDone := by
  unfold State.waitOr; proj

@[simp] theorem finishEv_P (s : State) (ev : CbEv) : (finishEv s ev).P = s.P := by
  unfold finishEv; proj
@[simp] theorem finishEv_view (s : State) (ev : CbEv) : (finishEv s ev).view = s.view := by
  unfold finishEv; proj
@[simp] theorem finishEv_slots (s : State) (ev : CbEv) : (finishEv s ev).slots = s.slots := by
  unfold finishEv; proj
@[simp] theorem finishEv_skipVerify (s : State) (ev : CbEv) : (finishEv s ev).skipVerify = s.skipVerify := by
  unfold finishEv; proj
@[simp] theorem finishEv_mon (s : State) (ev : CbEv) : (finishEv s ev).mon = s.mon := by
  unfold finishEv; proj
@[simp] theorem finishEv_cb (s : State) (ev : CbEv) : (finishEv s ev).cb = s.cb := by
  unfold finishEv; proj
@[simp] theorem finishEv_lastSerial (s : State) (ev : CbEv) : (finishEv s ev).lastSerial = s.lastSerial := by
  unfold finishEv; proj
@[simp] theorem finishEv_lastVersion (s : State) (ev : CbEv) : (finishEv s ev).lastVersion = s.lastVersion := by
  unfold finishEv; proj
@[simp] theorem finishEv_cbch (s : State) (ev : CbEv) : (finishEv s ev).cbch = s.cbch := by
  unfold finishEv; proj
@[simp] theorem finishEv_events (s : State) (ev : CbEv) : (finishEv s ev).events = s.events := by
  unfold finishEv; proj
@[simp] theorem finishEv_monDone (s : State) (ev : CbEv) : (finishEv s ev).monDone = s.monDone := by
  unfold finishEv; proj

@[simp] theorem enqueueCb_P (s : State) (ev : CbEv) : (enqueueCb s ev).P = s.P := by
  unfold enqueueCb; proj
@[simp] theorem enqueueCb_view (s : State) (ev : CbEv) : (enqueueCb s ev).view = s.view := by
  unfold enqueueCb; proj
@[simp] theorem enqueueCb_slots (s : State) (ev : CbEv) : (enqueueCb s ev).slots = s.slots := by
  unfold enqueueCb; proj
@[simp] theorem enqueueCb_skipVerify (s : State) (ev : CbEv) : (enqueueCb s ev).skipVerify = s.skipVerify := by
  unfold enqueueCb; proj
@[simp] theorem enqueueCb_mon (s : State) (ev : CbEv) : (enqueueCb s ev).mon = s.mon := by
  unfold enqueueCb; proj
@[simp] theorem enqueueCb_lastSerial (s : State) (ev : CbEv) : (enqueueCb s ev).lastSerial = s.lastSerial := by
  unfold enqueueCb; proj
@[simp] theorem enqueueCb_lastVersion (s : State) (ev : CbEv) : (enqueueCb s ev).lastVersion = s.lastVersion := by
  unfold enqueueCb; proj
@[simp] theorem enqueueCb_events (s : State) (ev : CbEv) : (enqueueCb s ev).events = s.events := by
  unfold enqueueCb; proj
@[simp] theorem enqueueCb_monDone (s : State) (ev : CbEv) : (enqueueCb s ev).monDone = s.monDone := by
  unfold enqueueCb; proj

@[simp] theorem admitCbSender_P (s : State)  : (admitCbSender s).P = s.P := by
  unfold admitCbSender; proj
@[simp] theorem admitCbSender_view (s : State)  : (admitCbSender s).view = s.view := by
  unfold admitCbSender; proj
@[simp] theorem admitCbSender_slots (s : State)  : (admitCbSender s).slots = s.slots := by
  unfold admitCbSender; proj
@[simp] theorem admitCbSender_skipVerify (s : State)  : (admitCbSender s).skipVerify = s.skipVerify := by
  unfold admitCbSender; proj
@[simp] theorem admitCbSender_mon (s : State)  : (admitCbSender s).mon = s.mon := by
  unfold admitCbSender; proj
@[simp] theorem admitCbSender_cb (s : State)  : (admitCbSender s).cb = s.cb := by
  unfold admitCbSender; proj
@[simp] theorem admitCbSender_lastSerial (s : State)  : (admitCbSender s).lastSerial = s.lastSerial := by
  unfold admitCbSender; proj
@[simp] theorem admitCbSender_lastVersion (s : State)  : (admitCbSender s).lastVersion = s.lastVersion := by
  unfold admitCbSender; proj
@[simp] theorem admitCbSender_events (s : State)  : (admitCbSender s).events = s.events := by
  unfold admitCbSender; proj
@[simp] theorem admitCbSender_monDone (s : State)  : (admitCbSender s).monDone = s.monDone := by
  unfold admitCbSender; proj

@[simp] theorem trySubmit_P (s : State) (ev : CbEv) (ch : Nat) : (trySubmit s ev ch).P = s.P := by
  unfold trySubmit; proj
@[simp] theorem trySubmit_view (s : State) (ev : CbEv) (ch : Nat) : (trySubmit s ev ch).view = s.view := by
  unfold trySubmit; proj
@[simp] theorem trySubmit_slots (s : State) (ev : CbEv) (ch : Nat) : (trySubmit s ev ch).slots = s.slots := by
  unfold trySubmit; proj
@[simp] theorem trySubmit_skipVerify (s : State) (ev : CbEv) (ch : Nat) : (trySubmit s ev ch).skipVerify = s.skipVerify := by
  unfold trySubmit; proj
@[simp] theorem trySubmit_mon (s : State) (ev : CbEv) (ch : Nat) : (trySubmit s ev ch).mon = s.mon := by
  unfold trySubmit; proj
@[simp] theorem trySubmit_lastSerial (s : State) (ev : CbEv) (ch : Nat) : (trySubmit s ev ch).lastSerial = s.lastSerial := by
  unfold trySubmit; proj
@[simp] theorem trySubmit_lastVersion (s : State) (ev : CbEv) (ch : Nat) : (trySubmit s ev ch).lastVersion = s.lastVersion := by
  unfold trySubmit; proj
@[simp] theorem trySubmit_events (s : State) (ev : CbEv) (ch : Nat) : (trySubmit s ev ch).events = s.events := by
  unfold trySubmit; proj
@[simp] theorem trySubmit_monDone (s : State) (ev : CbEv) (ch : Nat) : (trySubmit s ev ch).monDone = s.monDone := by
  unfold trySubmit; proj

@[simp] theorem replyTo_P (s : State) (c : Nat) (r : Res) : (replyTo s c r).P = s.P := by
  unfold replyTo; proj
@[simp] theorem replyTo_view (s : State) (c : Nat) (r : Res) : (replyTo s c r).view = s.view := by
  unfold replyTo; proj
@[simp] theorem replyTo_slots (s : State) (c : Nat) (r : Res) : (replyTo s c r).slots = s.slots := by
  unfold replyTo; proj
@[simp] theorem replyTo_skipVerify (s : State) (c : Nat) (r : Res) : (replyTo s c r).skipVerify = s.skipVerify := by
  unfold replyTo; proj
@[simp] theorem replyTo_mon (s : State) (c : Nat) (r : Res) : (replyTo s c r).mon = s.mon := by
  unfold replyTo; proj
@[simp] theorem replyTo_cb (s : State) (c : Nat) (r : Res) : (replyTo s c r).cb = s.cb := by
  unfold replyTo; proj
@[simp] theorem replyTo_lastSerial (s : State) (c : Nat) (r : Res) : (replyTo s c r).lastSerial = s.lastSerial := by
  unfold replyTo; proj
@[simp] theorem replyTo_lastVersion (s : State) (c : Nat) (r : Res) : (replyTo s c r).lastVersion = s.lastVersion := by
  unfold replyTo; proj
@[simp] theorem replyTo_cbch (s : State) (c : Nat) (r : Res) : (replyTo s c r).cbch = s.cbch := by
  unfold replyTo; proj
@[simp] theorem replyTo_events (s : State) (c : Nat) (r : Res) : (replyTo s c r).events = s.events := by
  unfold replyTo; proj
@[simp] theorem replyTo_monDone (s : State) (c : Nat) (r : Res) : (replyTo s c r).monDone = s.monDone := by
  unfold replyTo; proj

@[simp] theorem admitCtlSender_P (s : State)  : (admitCtlSender s).P = s.P := by
  unfold admitCtlSender; proj
@[simp] theorem admitCtlSender_view (s : State)  : (admitCtlSender s).view = s.view := by
  unfold admitCtlSender; proj
@[simp] theorem admitCtlSender_slots (s : State)  : (admitCtlSender s).slots = s.slots := by
  unfold admitCtlSender; proj
@[simp] theorem admitCtlSender_skipVerify (s : State)  : (admitCtlSender s).skipVerify = s.skipVerify := by
  unfold admitCtlSender; proj
@[simp] theorem admitCtlSender_mon (s : State)  : (admitCtlSender s).mon = s.mon := by
  unfold admitCtlSender; proj
@[simp] theorem admitCtlSender_cb (s : State)  : (admitCtlSender s).cb = s.cb := by
  unfold admitCtlSender; proj
@[simp] theorem admitCtlSender_lastSerial (s : State)  : (admitCtlSender s).lastSerial = s.lastSerial := by
  unfold admitCtlSender; proj
@[simp] theorem admitCtlSender_lastVersion (s : State)  : (admitCtlSender s).lastVersion = s.lastVersion := by
  unfold admitCtlSender; proj
@[simp] theorem admitCtlSender_cbch (s : State)  : (admitCtlSender s).cbch = s.cbch := by
  unfold admitCtlSender; proj
@[simp] theorem admitCtlSender_events (s : State)  : (admitCtlSender s).events = s.events := by
  unfold admitCtlSender; proj
@[simp] theorem admitCtlSender_monDone (s : State)  : (admitCtlSender s).monDone = s.monDone := by
  unfold admitCtlSender; proj

@[simp] theorem monTake_P (s : State) (i : MonIn) : (monTake s i).P = s.P := by
  unfold monTake; proj
@[simp] theorem monTake_view (s : State) (i : MonIn) : (monTake s i).view = s.view := by
  unfold monTake; proj
@[simp] theorem monTake_slots (s : State) (i : MonIn) : (monTake s i).slots = s.slots := by
  unfold monTake; proj
@[simp] theorem monTake_skipVerify (s : State) (i : MonIn) : (monTake s i).skipVerify = s.skipVerify := by
  unfold monTake; proj
@[simp] theorem monTake_cb (s : State) (i : MonIn) : (monTake s i).cb = s.cb := by
  unfold monTake; proj
@[simp] theorem monTake_lastSerial (s : State) (i : MonIn) : (monTake s i).lastSerial = s.lastSerial := by
  unfold monTake; proj
@[simp] theorem monTake_lastVersion (s : State) (i : MonIn) : (monTake s i).lastVersion = s.lastVersion := by
  unfold monTake; proj
@[simp] theorem monTake_cbch (s : State) (i : MonIn) : (monTake s i).cbch = s.cbch := by
  unfold monTake; proj
@[simp] theorem monTake_events (s : State) (i : MonIn) : (monTake s i).events = s.events := by
  unfold monTake; proj
@[simp] theorem monTake_monDone (s : State) (i : MonIn) : (monTake s i).monDone = s.monDone := by
  unfold monTake; proj

@[simp] theorem offerW_P (s : State) (c : Nat) (m : Msg) (ctx ch : Nat) : (offerW s c m ctx ch).P = s.P := by
  unfold offerW; proj
@[simp] theorem offerW_view (s : State) (c : Nat) (m : Msg) (ctx ch : Nat) : (offerW s c m ctx ch).view = s.view := by
  unfold offerW; proj
@[simp] theorem offerW_slots (s : State) (c : Nat) (m : Msg) (ctx ch : Nat) : (offerW s c m ctx ch).slots = s.slots := by
  unfold offerW; proj
@[simp] theorem offerW_skipVerify (s : State) (c : Nat) (m : Msg) (ctx ch : Nat) : (offerW s c m ctx ch).skipVerify = s.skipVerify := by
  unfold offerW; proj
@[simp] theorem offerW_cb (s : State) (c : Nat) (m : Msg) (ctx ch : Nat) : (offerW s c m ctx ch).cb = s.cb := by
  unfold offerW; proj
@[simp] theorem offerW_lastSerial (s : State) (c : Nat) (m : Msg) (ctx ch : Nat) : (offerW s c m ctx ch).lastSerial = s.lastSerial := by
  unfold offerW; proj
@[simp] theorem offerW_lastVersion (s : State) (c : Nat) (m : Msg) (ctx ch : Nat) : (offerW s c m ctx ch).lastVersion = s.lastVersion := by
  unfold offerW; proj
@[simp] theorem offerW_cbch (s : State) (c : Nat) (m : Msg) (ctx ch : Nat) : (offerW s c m ctx ch).cbch = s.cbch := by
  unfold offerW; proj
@[simp] theorem offerW_events (s : State) (c : Nat) (m : Msg) (ctx ch : Nat) : (offerW s c m ctx ch).events = s.events := by
  unfold offerW; proj
@[simp] theorem offerW_monDone (s : State) (c : Nat) (m : Msg) (ctx ch : Nat) : (offerW s c m ctx ch).monDone = s.monDone := by
  unfold offerW; proj

@[simp] theorem offerCb_P (s : State) (c : Nat) (ev : CbEv) (ctx ch : Nat) : (offerCb s c ev ctx ch).P = s.P := by
  unfold offerCb; proj
@[simp] theorem offerCb_view (s : State) (c : Nat) (ev : CbEv) (ctx ch : Nat) : (offerCb s c ev ctx ch).view = s.view := by
  unfold offerCb; proj
@[simp] theorem offerCb_slots (s : State) (c : Nat) (ev : CbEv) (ctx ch : Nat) : (offerCb s c ev ctx ch).slots = s.slots := by
  unfold offerCb; proj
@[simp] theorem offerCb_skipVerify (s : State) (c : Nat) (ev : CbEv) (ctx ch : Nat) : (offerCb s c ev ctx ch).skipVerify = s.skipVerify := by
  unfold offerCb; proj
@[simp] theorem offerCb_mon (s : State) (c : Nat) (ev : CbEv) (ctx ch : Nat) : (offerCb s c ev ctx ch).mon = s.mon := by
  unfold offerCb; proj
@[simp] theorem offerCb_lastSerial (s : State) (c : Nat) (ev : CbEv) (ctx ch : Nat) : (offerCb s c ev ctx ch).lastSerial = s.lastSerial := by
  unfold offerCb; proj
@[simp] theorem offerCb_lastVersion (s : State) (c : Nat) (ev : CbEv) (ctx ch : Nat) : (offerCb s c ev ctx ch).lastVersion = s.lastVersion := by
  unfold offerCb; proj
@[simp] theorem offerCb_events (s : State) (c : Nat) (ev : CbEv) (ctx ch : Nat) : (offerCb s c ev ctx ch).events = s.events := by
  unfold offerCb; proj
@[simp] theorem offerCb_monDone (s : State) (c : Nat) (ev : CbEv) (ctx ch : Nat) : (offerCb s c ev ctx ch).monDone = s.monDone := by
  unfold offerCb; proj

@[simp] theorem cancelCtx_P (s : State) (ctx : Nat) : (cancelCtx s ctx).P = s.P := by
  unfold cancelCtx; proj
@[simp] theorem cancelCtx_view (s : State) (ctx : Nat) : (cancelCtx s ctx).view = s.view := by
  unfold cancelCtx; proj
@[simp] theorem cancelCtx_slots (s : State) (ctx : Nat) : (cancelCtx s ctx).slots = s.slots := by
  unfold cancelCtx; proj
@[simp] theorem cancelCtx_skipVerify (s : State) (ctx : Nat) : (cancelCtx s ctx).skipVerify = s.skipVerify := by
  unfold cancelCtx; proj
@[simp] theorem cancelCtx_cb (s : State) (ctx : Nat) : (cancelCtx s ctx).cb = s.cb := by
  unfold cancelCtx; proj
@[simp] theorem cancelCtx_lastSerial (s : State) (ctx : Nat) : (cancelCtx s ctx).lastSerial = s.lastSerial := by
  unfold cancelCtx; proj
@[simp] theorem cancelCtx_lastVersion (s : State) (ctx : Nat) : (cancelCtx s ctx).lastVersion = s.lastVersion := by
  unfold cancelCtx; proj
@[simp] theorem cancelCtx_cbch (s : State) (ctx : Nat) : (cancelCtx s ctx).cbch = s.cbch := by
  unfold cancelCtx; proj
@[simp] theorem cancelCtx_events (s : State) (ctx : Nat) : (cancelCtx s ctx).events = s.events := by
  unfold cancelCtx; proj
@[simp] theorem cancelCtx_monDone (s : State) (ctx : Nat) : (cancelCtx s ctx).monDone = s.monDone := by
  unfold cancelCtx; proj

/-! ### what the helpers add to the log is not relevant -/

theorem waitOr_rlog (s : State) (c ctx : Nat) (st : CSt) (f : Res) (h : rel (.ret c f) = false) :
    (s.waitOr c ctx st f).log.filter rel = s.log.filter rel := by
  unfold State.waitOr; split <;> simp [List.filter_cons, h]
@[simp] theorem waitOr_rlog_ctxErr (s : State) (c ctx : Nat) (st : CSt) :
    (s.waitOr c ctx st .ctxErr).log.filter rel = s.log.filter rel := waitOr_rlog _ _ _ _ _ rfl
@[simp] theorem waitOr_rlog_unregFalse (s : State) (c ctx : Nat) (st : CSt) :
    (s.waitOr c ctx st .unregFalse).log.filter rel = s.log.filter rel := waitOr_rlog _ _ _ _ _ rfl
@[simp] theorem finishEv_rlog (s : State) (ev : CbEv) : (finishEv s ev).log.filter rel = s.log.filter rel := by
  unfold finishEv; repeat' (first | rfl | split | simp [List.filter_cons, rel])
@[simp] theorem enqueueCb_log (s : State) (ev : CbEv) : (enqueueCb s ev).log = s.log := by
  unfold enqueueCb; proj
@[simp] theorem admitCbSender_rlog (s : State) : (admitCbSender s).log.filter rel = s.log.filter rel := by
  unfold admitCbSender; repeat' (first | rfl | split | simp [List.filter_cons, rel])
@[simp] theorem trySubmit_rlog (s : State) (ev : CbEv) (ch : Nat) :
    (trySubmit s ev ch).log.filter rel = s.log.filter rel := by
  unfold trySubmit; repeat' (first | rfl | split | simp [List.filter_cons, rel])
theorem replyTo_rlog (s : State) (c : Nat) (r : Res) (h : rel (.ret c r) = false) :
    (replyTo s c r).log.filter rel = s.log.filter rel := by
  have h2 : rel (.replied c r) = false := rfl
  unfold replyTo; simp only [State.logAdd, State.ret]; split <;> simp [List.filter_cons, h, h2]
@[simp] theorem replyTo_rlog_okNil (s : State) (c : Nat) :
    (replyTo s c .okNil).log.filter rel = s.log.filter rel := replyTo_rlog _ _ _ rfl
@[simp] theorem replyTo_rlog_errStack (s : State) (c : Nat) :
    (replyTo s c .errStack).log.filter rel = s.log.filter rel := replyTo_rlog _ _ _ rfl
@[simp] theorem replyTo_rlog_errVerify (s : State) (c : Nat) :
    (replyTo s c .errVerify).log.filter rel = s.log.filter rel := replyTo_rlog _ _ _ rfl
@[simp] theorem admitCtlSender_rlog (s : State) : (admitCtlSender s).log.filter rel = s.log.filter rel := by
  unfold admitCtlSender; repeat' (first | rfl | split | simp [List.filter_cons, rel])
@[simp] theorem monTake_rlog (s : State) (i : MonIn) : (monTake s i).log.filter rel = s.log.filter rel := by
  unfold monTake; repeat' (first | rfl | split | simp [List.filter_cons, rel])
@[simp] theorem offerW_rlog (s : State) (c : Nat) (m : Msg) (ctx ch : Nat) :
    (offerW s c m ctx ch).log.filter rel = s.log.filter rel := by
  unfold offerW; repeat' (first | rfl | split | simp [List.filter_cons, rel])
@[simp] theorem offerCb_rlog (s : State) (c : Nat) (ev : CbEv) (ctx ch : Nat) :
    (offerCb s c ev ctx ch).log.filter rel = s.log.filter rel := by
  unfold offerCb; repeat' (first | rfl | split | simp [List.filter_cons, rel])
@[simp] theorem cancelCtx_log (s : State) (ctx : Nat) : (cancelCtx s ctx).log = s.log := by
  unfold cancelCtx; proj

/-! ### frames -/

def instR : List Obs → List Version
  | [] => []
  | .install v _ :: l => v :: instR l
  | _ :: l => instR l

def slotsOf (sl : Slots) : List Obs → Slots
  | [] => sl
  | .gotUpd src v _ :: l => setSlot (slotsOf sl l) src v
  | _ :: l => slotsOf sl l

def MonPc.plain : MonPc → Bool
  | .top | .sel | .gotValue _ _ _ | .replyErr _ _ | .gotSrcErr _ | .submitSrcErr _ | .gotDone _
  | .gotEnable _ _ | .exit | .finished => true
  | _ => false

theorem monTake_plain (s : State) (i : MonIn) : (monTake s i).mon.plain = true := by
  unfold monTake; repeat' (first | rfl | split | simp)

theorem offerW_mon (s : State) (c : Nat) (m : Msg) (ctx ch : Nat) :
    (offerW s c m ctx ch).mon = s.mon ∨ (s.mon = .sel ∧ (offerW s c m ctx ch).mon.plain = true) := by
  unfold offerW
  simp only []
  split
  · rename_i h
    simp at h
    right; exact ⟨h.1, monTake_plain _ _⟩
  · left; proj

theorem cancelCtx_mon (s : State) (ctx : Nat) :
    (cancelCtx s ctx).mon = s.mon ∨ (s.mon = .sel ∧ (cancelCtx s ctx).mon.plain = true) := by
  unfold cancelCtx
  simp only
  split
  · rename_i h
    simp at h
    right; exact ⟨h.2, rfl⟩
  · left; rfl

/-- what a step that is not a monitor step leaves alone -/
structure Frame0 (sl : Slots) (s s' : State) : Prop where
  hP : s'.P = s.P
  hview : s'.view = s.view
  hslots : s'.slots = s.slots
  hskip : s'.skipVerify = true → s.skipVerify = true
  hinst : instR s'.rlog = instR s.rlog
  hsl : slotsOf sl s'.rlog = slotsOf sl s.rlog
  hmem : ∀ v k, Obs.install v k ∈ s'.rlog → Obs.install v k ∈ s.rlog

/-- a step that is not a monitor step leaves the monitor alone, or wakes it from its select -/
structure FrameA (sl : Slots) (s s' : State) : Prop extends Frame0 sl s s' where
  hskipEq : s'.skipVerify = s.skipVerify
  hmon : s'.mon = s.mon ∨ (s.mon = .sel ∧ s'.mon.plain = true)

theorem frameA_runCb (sl : Slots) (s s' : State) (h : runCb s = some s') : FrameA sl s s' := by
  cases hc : s.cb <;> simp only [runCb, hc] at h
  all_goals repeat' (first | contradiction | split at h)
  all_goals (simp only [Option.some.injEq] at h; subst h)
  all_goals (refine ⟨⟨?_, ?_, ?_, ?_, ?_, ?_, ?_⟩, ?_, ?_⟩ <;> simp [State.rlog, List.filter_cons, rel, instR, slotsOf])


theorem frameA_runClient (sl : Slots) (s s' : State) (c ch : Nat) (h : runClient s c ch = some s') :
    FrameA sl s s' := by
  cases hc : getC s.clients c <;> simp only [runClient, hc] at h
  all_goals try contradiction
  rename_i op ctx
  cases op <;> simp only at h
  all_goals repeat' (first | contradiction | split at h)
  all_goals (simp only [Option.some.injEq] at h; subst h)
  all_goals (refine ⟨⟨?_, ?_, ?_, ?_, ?_, ?_, ?_⟩, ?_, ?_⟩ <;> simp [State.rlog, List.filter_cons, rel, instR, slotsOf, offerW_mon])
  all_goals (rename_i h1; simp at h1; right; exact ⟨h1, rfl⟩)


theorem frameA_step (W : World) (sl : Slots) (s s' : State) (l : Label) (h : step W s l = some s')
    (hl : ∀ ch, l ≠ .runMon ch) : FrameA sl s s' := by
  cases l with
  | runMon ch => exact absurd rfl (hl ch)
  | runCb => exact frameA_runCb sl s s' h
  | runClient c ch => exact frameA_runClient sl s s' c ch h
  | begin c op ctx =>
    simp only [step] at h
    split at h
    · simp only [Option.some.injEq] at h; subst h
      refine ⟨⟨?_, ?_, ?_, ?_, ?_, ?_, ?_⟩, ?_, ?_⟩ <;> simp [State.rlog]
    · contradiction
  | ack c =>
    simp only [step] at h
    split at h
    · simp only [Option.some.injEq] at h; subst h
      refine ⟨⟨?_, ?_, ?_, ?_, ?_, ?_, ?_⟩, ?_, ?_⟩ <;> simp [State.rlog]
    · contradiction
  | cancel ctx =>
    simp only [step, Option.some.injEq] at h; subst h
    refine ⟨⟨?_, ?_, ?_, ?_, ?_, ?_, ?_⟩, ?_, ?_⟩ <;> simp [State.rlog, cancelCtx_mon]

/-! ### the monitor invariant -/

/-- between updates: a good stack of the latest values is the view -/
def Fresh (W : World) (slots : Slots) (skip : Bool) (view : Version) : Prop :=
  W.stackOk slots = true → (skip = true ∨ W.valid slots = true) → view.cfg = slots

def MonFacts (W : World) (slots : Slots) (skip : Bool) (view : Version) : MonPc → Prop
  | .verifyUpd sl' _ => sl' = slots ∧ W.stackOk sl' = true ∧ skip = false
  | .store sl' _ => sl' = slots ∧ W.stackOk sl' = true ∧ (skip = false → W.valid sl' = true)
  | .submitErr k new _ =>
    (k = .stack ∧ new = none ∧ W.stackOk slots = false) ∨
    (k = .verify ∧ new = some slots ∧ W.stackOk slots = true ∧ W.valid slots = false ∧ skip = false)
  | .events _ _ => view.cfg = slots
  | .replyOk _ _ => view.cfg = slots
  | .submitNew _ => view.cfg = slots
  | .verifyEnable _ _ => skip = true ∧ Fresh W slots skip view
  | .enableReply _ _ _ noop => (noop = false → skip = true) ∧ Fresh W slots skip view
  | _ => Fresh W slots skip view

theorem MonFacts_plain {W : World} {slots : Slots} {skip : Bool} {view : Version} {pc : MonPc}
    (h : pc.plain = true) : MonFacts W slots skip view pc ↔ Fresh W slots skip view := by
  cases pc <;> simp [MonPc.plain] at h <;> simp [MonFacts]

def SerOk : List Version → Prop
  | [] => True
  | v :: l => v.serial = l.length + 1 ∧ SerOk l

structure InvA (W : World) (P : Params) (sl : Slots) (s : State) : Prop where
  hP : s.P = P
  skipDelay : s.skipVerify = true → P.delay = true
  viewLast : (instR s.rlog).head?.getD ⟨0, sl⟩ = s.view
  viewSer : (instR s.rlog).length = s.view.serial
  serOk : SerOk (instR s.rlog)
  slotsEq : slotsOf sl s.rlog = s.slots
  instOk : ∀ v skip, Obs.install v skip ∈ s.rlog → W.stackOk v.cfg = true ∧ (skip = false → W.valid v.cfg = true)
  monF : MonFacts W s.slots s.skipVerify s.view s.mon

theorem InvA_init (W : World) (P : Params) (sl : Slots) (w : List Bool) : InvA W P sl (initState P sl w) := by
  constructor <;> simp [State.rlog, initState, instR, slotsOf, SerOk, MonFacts, Facts.initialSkipVerify, Fresh]

theorem InvA_of_frame {W : World} {P : Params} {sl : Slots} {s s' : State} (f : Frame0 sl s s')
    (hm : MonFacts W s.slots s'.skipVerify s.view s'.mon) (inv : InvA W P sl s) : InvA W P sl s' := by
  obtain ⟨h1, h2, h3, h4, h5, h6, h7, h8⟩ := inv
  obtain ⟨f1, f2, f3, f4, f6, f7, f8⟩ := f
  refine ⟨f1 ▸ h1, fun h => h2 (f4 h), ?_, ?_, ?_, ?_, ?_, ?_⟩
  · rw [f2, f6]; exact h3
  · rw [f2, f6]; exact h4
  · rw [f6]; exact h5
  · rw [f3, f7]; exact h6
  · intro v k hm; exact h7 v k (f8 v k hm)
  · rw [f2, f3]; exact hm

theorem InvA_frame {W : World} {P : Params} {sl : Slots} {s s' : State} (f : FrameA sl s s')
    (inv : InvA W P sl s) : InvA W P sl s' := by
  refine InvA_of_frame f.toFrame0 ?_ inv
  have h8 := inv.monF
  rw [f.hskipEq]
  rcases f.hmon with f5 | ⟨f5, f5'⟩
  · rw [f5]; exact h8
  · rw [f5] at h8
    exact (MonFacts_plain f5').2 ((MonFacts_plain (by rfl)).1 h8)

theorem mem_filter_rel_install {v : Version} {k : Bool} {l : List Obs} :
    Obs.install v k ∈ l.filter rel ↔ Obs.install v k ∈ l := by
  simp [List.mem_filter, rel]

theorem InvA_gotUpd {W : World} {P : Params} {sl : Slots} {s s' : State} {src v : Nat} {r : Option Nat}
    (inv : InvA W P sl s) (e1 : s'.P = s.P) (e2 : s'.skipVerify = s.skipVerify) (e3 : s'.view = s.view)
    (e4 : s'.rlog = .gotUpd src v r :: s.rlog) (e5 : s'.slots = setSlot s.slots src v)
    (hm : MonFacts W s'.slots s'.skipVerify s'.view s'.mon) : InvA W P sl s' := by
  obtain ⟨h1, h2, h3, h4, h5, h6, h7, -⟩ := inv
  refine ⟨e1 ▸ h1, e2 ▸ h2, ?_, ?_, ?_, ?_, ?_, hm⟩
  · rw [e4, e3]; simpa [instR] using h3
  · rw [e4, e3]; simpa [instR] using h4
  · rw [e4]; simpa [instR] using h5
  · rw [e4, e5]; simp [slotsOf, h6]
  · intro v k hmem
    rw [e4] at hmem
    simp only [List.mem_cons, reduceCtorEq, false_or] at hmem
    exact h7 v k hmem

theorem InvA_install {W : World} {P : Params} {sl : Slots} {s s' : State} {sl' : Slots}
    (inv : InvA W P sl s) (e1 : s'.P = s.P) (e2 : s'.skipVerify = s.skipVerify)
    (e3 : s'.view = ⟨s.view.serial + 1, sl'⟩)
    (e4 : s'.rlog = .install ⟨s.view.serial + 1, sl'⟩ s.skipVerify :: s.rlog) (e5 : s'.slots = s.slots)
    (hs : W.stackOk sl' = true) (hv : s.skipVerify = false → W.valid sl' = true)
    (hm : MonFacts W s'.slots s'.skipVerify s'.view s'.mon) : InvA W P sl s' := by
  obtain ⟨h1, h2, h3, h4, h5, h6, h7, -⟩ := inv
  refine ⟨e1 ▸ h1, e2 ▸ h2, ?_, ?_, ?_, ?_, ?_, hm⟩
  · rw [e4, e3]; simp [instR]
  · rw [e4, e3]; simp [instR, h4]
  · rw [e4]; simp [instR, SerOk, h4, h5]
  · rw [e4, e5]; simpa [slotsOf] using h6
  · intro v k hmem
    rw [e4] at hmem
    simp only [List.mem_cons, Obs.install.injEq] at hmem
    rcases hmem with ⟨rfl, rfl⟩ | hmem
    · exact ⟨hs, hv⟩
    · exact h7 v k hmem

theorem InvA_runMon {W : World} {P : Params} {sl : Slots} {s s' : State} {ch : Nat}
    (h : runMon W s ch = some s') (inv : InvA W P sl s) : InvA W P sl s' := by
  have h8 := inv.monF
  cases hm : s.mon <;> simp only [runMon, hm] at h
  case gotValue src v r =>
    repeat' split at h
    all_goals simp only [Option.some.injEq] at h
    all_goals subst h
    all_goals refine InvA_gotUpd (src := src) (v := v) (r := r) inv ?_ ?_ ?_ ?_ ?_ ?_
    all_goals first | (simp [State.rlog, List.filter_cons, rel]; done) | skip
    all_goals simp_all [MonFacts, Facts.verifyOnUpdate]
  case store sl' r => 
    simp only [Option.some.injEq] at h
    subst h
    rw [hm] at h8
    refine InvA_install (sl' := sl') inv ?_ ?_ ?_ ?_ ?_ h8.2.1 h8.2.2 ?_
    all_goals first | (simp [State.rlog, List.filter_cons, rel, Facts.nextSerial]; done) | skip
    simp [MonFacts, h8.1]
  case enableReply c tok ok noop =>
    rw [hm] at h8
    simp only [MonFacts] at h8
    cases noop <;> simp only [Option.some.injEq, Bool.false_eq_true, if_false, if_true] at h
    all_goals repeat' (first | contradiction | split at h)
    all_goals subst h
    all_goals refine InvA_of_frame ?_ ?_ inv
    all_goals first | (constructor <;> simp [State.rlog, List.filter_cons, rel, instR, slotsOf] <;> simp_all; done) | skip
    all_goals (simp [MonFacts, Fresh] at h8 ⊢)
    all_goals first | exact h8 | (intro hs _; exact h8.2 hs (Or.inl h8.1))
  all_goals repeat' (first | contradiction | split at h)
  all_goals simp only [Option.some.injEq, Option.map_eq_some_iff] at h
  all_goals first | subst h | (obtain ⟨i, -, h⟩ := h; subst h)
  all_goals rw [hm] at h8
  all_goals simp only [MonFacts] at h8
  all_goals refine InvA_of_frame ?_ ?_ inv
  all_goals first | (constructor <;> simp [State.rlog, List.filter_cons, rel, instR, slotsOf]; done) | skip
  all_goals first | (simp [MonFacts]; done) | (simp [MonFacts]; exact h8; done) | skip
  all_goals first | (rw [monTake_skipVerify]; exact (MonFacts_plain (monTake_plain _ _)).2 h8) | (rcases h8 with h8 | h8 <;> simp_all [MonFacts, Fresh]; done) | (simp_all [MonFacts, Fresh]; done)

theorem InvA_step {W : World} {P : Params} {sl : Slots} {s s' : State} {l : Label}
    (h : step W s l = some s') (inv : InvA W P sl s) : InvA W P sl s' := by
  by_cases hl : ∃ ch, l = .runMon ch
  · obtain ⟨ch, rfl⟩ := hl
    exact InvA_runMon h inv
  · exact InvA_frame (frameA_step W sl s s' l h (fun ch e => hl ⟨ch, e⟩)) inv

/-- lifting a step invariant to all reachable states -/
theorem reachable_induction {W : World} {P : Params} {sl : Slots} {w : List Bool} {I : State → Prop}
    (h0 : I (initState P sl w)) (hstep : ∀ s s' l, I s → step W s l = some s' → I s')
    {s : State} (hr : Reachable W P sl w s) : I s := by
  obtain ⟨ls, hls⟩ := hr
  generalize initState P sl w = s0 at h0 hls
  induction ls generalizing s0 with
  | nil => simp only [run, Option.some.injEq] at hls; exact hls ▸ h0
  | cons l ls ih =>
    simp only [run] at hls
    cases hs : step W s0 l with
    | none => simp [hs] at hls
    | some s1 =>
      simp only [hs, Option.bind_some] at hls
      exact ih s1 (hstep s0 s1 l h0 hs) hls

theorem InvA_reachable {W : World} {P : Params} {sl : Slots} {w : List Bool} {s : State}
    (hr : Reachable W P sl w s) : InvA W P sl s :=
  reachable_induction (InvA_init W P sl w) (fun _ _ _ i h => InvA_step h i) hr

/-! ### connecting the invariant's vocabulary with the specification's -/

theorem instR_filter_rel (l : List Obs) : instR (l.filter rel) = instR l := by
  induction l with
  | nil => rfl
  | cons o l ih =>
    simp only [List.filter_cons]
    split
    · cases o <;> simp_all [instR, rel]
    · cases o <;> simp_all [instR, rel]

theorem instR_eq_filterMap (l : List Obs) :
    instR l = l.filterMap (fun o => match o with | .install v _ => some v | _ => none) := by
  induction l with
  | nil => rfl
  | cons o l ih => cases o <;> simp [instR, ih]

theorem installs_eq (s : State) : s.installs = (instR s.rlog).reverse := by
  rw [State.rlog, instR_filter_rel, instR_eq_filterMap]
  simp only [State.installs, installsOf, State.history, List.filterMap_reverse]
  rfl

theorem slotsOf_filter_rel (sl : Slots) (l : List Obs) : slotsOf sl (l.filter rel) = slotsOf sl l := by
  induction l with
  | nil => rfl
  | cons o l ih =>
    simp only [List.filter_cons]
    split
    · cases o <;> simp_all [slotsOf, rel]
    · cases o <;> simp_all [slotsOf, rel]

theorem foldl_reverse_eq_slotsOf (sl : Slots) (l : List Obs) :
    l.reverse.foldl (fun acc o => match o with | .gotUpd src v _ => setSlot acc src v | _ => acc) sl = slotsOf sl l := by
  induction l with
  | nil => rfl
  | cons o l ih => cases o <;> simp [List.foldl_append, slotsOf, ih]

theorem SerOk_getElem {I : List Version} (h : SerOk I) (i : Nat) (hi : i < I.reverse.length) :
    (I.reverse[i]).serial = i + 1 := by
  induction I generalizing i with
  | nil => simp at hi
  | cons v I ih =>
    simp only [List.reverse_cons, List.length_append, List.length_reverse, List.length_cons, List.length_nil] at hi
    simp only [List.reverse_cons]
    by_cases hlt : i < I.reverse.length
    · rw [List.getElem_append_left hlt]; exact ih h.2 i hlt
    · have : i = I.length := by simp at hlt; omega
      subst this
      simp [h.1]

theorem getLast_versions (sl : Slots) (I : List Version) (h : (⟨0, sl⟩ :: I.reverse : List Version) ≠ []) :
    (⟨0, sl⟩ :: I.reverse : List Version).getLast h = I.head?.getD ⟨0, sl⟩ := by
  cases I with
  | nil => rfl
  | cons v I => simp [List.getLast_cons]

/-! ### clients never hold a new-config event -/

def CbEv.isNew : CbEv → Bool
  | .newCfg _ _ _ => true
  | _ => false

def CSt.ok : CSt → Bool
  | .sendCb ev _ => !ev.isNew
  | _ => true

def ClOk (cs : List (Nat × CSt)) : Prop := ∀ p ∈ cs, p.2.ok = true

theorem ClOk_setC {cs : List (Nat × CSt)} {c : Nat} {st : CSt} (h : ClOk cs) (hst : st.ok = true) :
    ClOk (setC cs c st) := by
  intro p hp
  rcases mem_setC hp with hp | hp
  · exact h p hp
  · rw [hp]; exact hst

theorem ClOk_block {cs : List (Nat × CSt)} {c : Nat} {st : CSt} (h : ClOk cs) (hst : st.ok = true) :
    ClOk (cs.filter (fun p => p.1 != c) ++ [(c, st)]) := by
  intro p hp
  simp only [List.mem_append, List.mem_filter, List.mem_singleton] at hp
  rcases hp with hp | hp
  · exact h p hp.1
  · rw [hp]; exact hst

theorem ClOk_waitOr {s : State} {c ctx : Nat} {st : CSt} {f : Res} (h : ClOk s.clients) (hst : st.ok = true) :
    ClOk (s.waitOr c ctx st f).clients := by
  unfold State.waitOr; split
  · exact ClOk_setC h rfl
  · exact ClOk_setC h hst

theorem ClOk_finishEv {s : State} {ev : CbEv} (h : ClOk s.clients) : ClOk (finishEv s ev).clients := by
  unfold finishEv
  repeat' (first | exact h | split | simp only [])
  all_goals first | exact h | exact ClOk_setC h rfl

theorem ClOk_enqueueCb {s : State} {ev : CbEv} : (enqueueCb s ev).clients = s.clients := by
  unfold enqueueCb; proj

theorem ClOk_admitCbSender {s : State} (h : ClOk s.clients) : ClOk (admitCbSender s).clients := by
  unfold admitCbSender
  repeat' (first | exact h | split | simp only [])
  all_goals first | exact h | exact ClOk_setC h rfl | exact ClOk_waitOr h rfl

theorem ClOk_trySubmit {s : State} {ev : CbEv} {ch : Nat} : (trySubmit s ev ch).clients = s.clients := by
  unfold trySubmit; split <;> simp [ClOk_enqueueCb]

theorem ClOk_replyTo {s : State} {c : Nat} {r : Res} (h : ClOk s.clients) : ClOk (replyTo s c r).clients := by
  unfold replyTo
  repeat' (first | exact h | split | simp only [])
  all_goals first | exact h | exact ClOk_setC h rfl

theorem ClOk_admitCtlSender {s : State} (h : ClOk s.clients) : ClOk (admitCtlSender s).clients := by
  unfold admitCtlSender
  repeat' (first | exact h | split | simp only [])
  all_goals first | exact h | exact ClOk_waitOr h rfl

theorem ClOk_monTake {s : State} {i : MonIn} (h : ClOk s.clients) : ClOk (monTake s i).clients := by
  unfold monTake
  repeat' (first | exact h | split | simp only [])
  all_goals first | exact h | exact ClOk_setC h rfl | exact ClOk_waitOr h rfl | exact ClOk_admitCtlSender h

theorem ClOk_offerW {s : State} {c : Nat} {m : Msg} {ctx ch : Nat} (h : ClOk s.clients) :
    ClOk (offerW s c m ctx ch).clients := by
  unfold offerW
  repeat' (first | exact h | split | simp only [])
  all_goals first | exact h | exact ClOk_setC h rfl | exact ClOk_block h rfl |
    exact ClOk_monTake (ClOk_setC h rfl)

theorem ClOk_offerCb {s : State} {c : Nat} {ev : CbEv} {ctx ch : Nat} (h : ClOk s.clients)
    (hev : ev.isNew = false) : ClOk (offerCb s c ev ctx ch).clients := by
  have h' : ClOk (enqueueCb s ev).clients := by rw [ClOk_enqueueCb]; exact h
  unfold offerCb
  repeat' (first | exact h | split | simp only [])
  all_goals first | exact h | exact ClOk_setC h rfl | exact ClOk_setC h' rfl | exact ClOk_waitOr h' rfl |
    exact ClOk_block h (by simp [CSt.ok, hev])

theorem ClOk_cancelCtx {s : State} {ctx : Nat} (h : ClOk s.clients) : ClOk (cancelCtx s ctx).clients := by
  have : ClOk (s.clients.map (fun p =>
      match p.2 with
      | .sendW _ k => if k == ctx then (p.1, .returned .ctxErr) else p
      | .waitReply k => if k == ctx then (p.1, .returned .ctxErr) else p
      | .sendCb (.unreg _ _ _) k => if k == ctx then (p.1, .returned .unregFalse) else p
      | .sendCb _ k => if k == ctx then (p.1, .returned .regFail) else p
      | .waitDone k => if k == ctx then (p.1, .returned .unregFalse) else p
      | .sendCtl k => if k == ctx then (p.1, .returned .ctxErr) else p
      | .waitResp k => if k == ctx then (p.1, .returned .ctxErr) else p
      | _ => p)) := by
    intro p hp
    simp only [List.mem_map] at hp
    obtain ⟨q, hq, rfl⟩ := hp
    have := h q hq
    repeat' (first | exact this | rfl | split)
  unfold cancelCtx
  simp only []
  split <;> exact this


theorem ClOk_runMon {W : World} {s s' : State} {ch : Nat} (h : runMon W s ch = some s') (inv : ClOk s.clients) :
    ClOk s'.clients := by
  cases hm : s.mon <;> simp only [runMon, hm] at h
  case exit =>
    simp only [Option.some.injEq] at h; subst h
    intro p hp
    simp only [State.logAdd, List.mem_map] at hp
    obtain ⟨q, hq, rfl⟩ := hp
    have := inv q hq
    repeat' (first | exact this | rfl | split)
  all_goals repeat' (first | contradiction | split at h)
  all_goals simp only [Option.some.injEq, Option.map_eq_some_iff] at h
  all_goals first | subst h | (obtain ⟨i, -, h⟩ := h; subst h)
  all_goals first | exact inv | exact ClOk_monTake inv | skip
  all_goals simp [ClOk_trySubmit]
  all_goals first | exact inv | exact ClOk_replyTo inv | exact ClOk_setC inv rfl | skip

theorem ClOk_runCb {s s' : State} (h : runCb s = some s') (inv : ClOk s.clients) : ClOk s'.clients := by
  cases hc : s.cb <;> simp only [runCb, hc] at h
  all_goals repeat' (first | contradiction | split at h)
  all_goals (simp only [Option.some.injEq] at h; subst h)
  all_goals first | exact inv | skip
  all_goals simp
  all_goals first | exact inv | exact ClOk_finishEv inv | exact ClOk_admitCbSender inv | skip

theorem ClOk_runClient {s s' : State} {c ch : Nat} (h : runClient s c ch = some s') (inv : ClOk s.clients) :
    ClOk s'.clients := by
  cases hc : getC s.clients c <;> simp only [runClient, hc] at h
  all_goals try contradiction
  rename_i op ctx
  cases op <;> simp only at h
  all_goals repeat' (first | contradiction | split at h)
  all_goals (simp only [Option.some.injEq] at h; subst h)
  all_goals first | exact inv | exact ClOk_offerW inv | exact ClOk_offerCb inv rfl | skip
  all_goals simp
  all_goals first | exact inv | exact ClOk_setC inv rfl | exact ClOk_block inv rfl | exact ClOk_waitOr inv rfl | skip

theorem ClOk_step {W : World} {s s' : State} {l : Label} (h : step W s l = some s') (inv : ClOk s.clients) :
    ClOk s'.clients := by
  cases l with
  | runMon ch => exact ClOk_runMon h inv
  | runCb => exact ClOk_runCb h inv
  | runClient c ch => exact ClOk_runClient h inv
  | begin c op ctx =>
    simp only [step] at h
    split at h
    · simp only [Option.some.injEq] at h; subst h
      exact ClOk_setC inv rfl
    · contradiction
  | ack c =>
    simp only [step] at h
    split at h
    · simp only [Option.some.injEq] at h; subst h
      exact ClOk_setC inv rfl
    · contradiction
  | cancel ctx =>
    simp only [step, Option.some.injEq] at h; subst h
    exact ClOk_cancelCtx inv

/-! ### everything observed is a version -/

def EvOk (I : List Version) : CbEv → Prop
  | .newCfg _ new _ => new ∈ I
  | _ => True

def CallOk (I : List Version) : Call → Prop
  | .onNew _ new ser => (⟨ser, new⟩ : Version) ∈ I
  | .user _ _ new ser _ => (⟨ser, new⟩ : Version) ∈ I
  | .onErr _ _ _ => True

def CbPcOk (I : List Version) : CbPc → Prop
  | .got ev => EvOk I ev
  | .calls cs _ => ∀ c ∈ cs, CallOk I c
  | _ => True

def CbOk (I : List Version) (cb : CbPc) (cbch : List CbEv) : Prop := CbPcOk I cb ∧ ∀ ev ∈ cbch, EvOk I ev

def LastOk (I : List Version) (ser : Nat) (ver : Option Slots) : Prop :=
  ser = 0 ∨ ∃ cfg, ver = some cfg ∧ (⟨ser, cfg⟩ : Version) ∈ I

def ObsOkB (sl : Slots) (I : List Version) : Obs → Prop
  | .seen _ v => v = ⟨0, sl⟩ ∨ v ∈ I
  | .evRecv _ v => v ∈ I
  | .enter c => CallOk I c
  | .ret _ (.enableOk v) => v = ⟨0, sl⟩ ∨ v ∈ I
  | _ => True

def MonEvOk (I : List Version) (view : Version) : MonPc → Prop
  | .events _ _ => view ∈ I
  | .replyOk _ _ => view ∈ I
  | .submitNew _ => view ∈ I
  | _ => True

def LogAll (p : Obs → Prop) : List Obs → Prop
  | [] => True
  | o :: l => p o ∧ LogAll p l

theorem LogAll_iff {p : Obs → Prop} {l : List Obs} : LogAll p l ↔ ∀ o ∈ l, p o := by
  induction l with
  | nil => simp [LogAll]
  | cons o l ih => simp [LogAll, ih]

theorem EvOk_of_notNew {I : List Version} {ev : CbEv} (h : ev.isNew = false) : EvOk I ev := by
  cases ev <;> simp_all [EvOk, CbEv.isNew]

theorem EvOk_mono {I I' : List Version} (h : ∀ v ∈ I, v ∈ I') {ev : CbEv} (hev : EvOk I ev) : EvOk I' ev := by
  cases ev <;> simp_all [EvOk]

theorem CallOk_mono {I I' : List Version} (h : ∀ v ∈ I, v ∈ I') {c : Call} (hc : CallOk I c) : CallOk I' c := by
  cases c <;> simp_all [CallOk]

theorem CbOk_mono {I I' : List Version} (h : ∀ v ∈ I, v ∈ I') {cb : CbPc} {cbch : List CbEv}
    (hc : CbOk I cb cbch) : CbOk I' cb cbch := by
  refine ⟨?_, fun ev hev => EvOk_mono h (hc.2 ev hev)⟩
  cases cb <;> simp only [CbPcOk]
  · exact EvOk_mono h hc.1
  · exact fun c hcs => CallOk_mono h (hc.1 c hcs)

theorem ObsOkB_mono {sl : Slots} {I I' : List Version} (h : ∀ v ∈ I, v ∈ I') {o : Obs} (ho : ObsOkB sl I o) :
    ObsOkB sl I' o := by
  cases o <;> try exact trivial
  case seen c v => exact ho.imp id (h v)
  case evRecv c v => exact h v ho
  case enter c => exact CallOk_mono h ho
  case ret c r => cases r <;> first | exact trivial | exact ho.imp id (h _)

theorem LogAll_mono {p q : Obs → Prop} (h : ∀ o, p o → q o) {l : List Obs} (hl : LogAll p l) : LogAll q l := by
  induction l with
  | nil => trivial
  | cons o l ih => exact ⟨h o hl.1, ih hl.2⟩

theorem CbOk_enqueueCb {I : List Version} {s : State} {ev : CbEv} (h : CbOk I s.cb s.cbch) (hev : EvOk I ev) :
    CbOk I (enqueueCb s ev).cb (enqueueCb s ev).cbch := by
  unfold enqueueCb
  split
  · exact ⟨hev, h.2⟩
  · refine ⟨h.1, ?_⟩
    intro e he
    simp only [List.mem_append, List.mem_singleton] at he
    rcases he with he | rfl
    · exact h.2 e he
    · exact hev

theorem CbOk_trySubmit {I : List Version} {s : State} {ev : CbEv} {ch : Nat} (h : CbOk I s.cb s.cbch)
    (hev : EvOk I ev) : CbOk I (trySubmit s ev ch).cb (trySubmit s ev ch).cbch := by
  unfold trySubmit
  split
  · exact CbOk_enqueueCb h hev
  · exact h

theorem CbOk_offerCb {I : List Version} {s : State} {c : Nat} {ev : CbEv} {ctx ch : Nat} (h : CbOk I s.cb s.cbch)
    (hev : EvOk I ev) : CbOk I (offerCb s c ev ctx ch).cb (offerCb s c ev ctx ch).cbch := by
  have h' := CbOk_enqueueCb h hev
  unfold offerCb
  repeat' (first | exact h | split | simp only [])
  all_goals first | exact h | (simp; exact h')

theorem cbch_admitCbSender {I : List Version} {s : State} (hcl : ClOk s.clients) (h : ∀ ev ∈ s.cbch, EvOk I ev) :
    ∀ ev ∈ (admitCbSender s).cbch, EvOk I ev := by
  unfold admitCbSender
  split
  · rename_i c ev ctx hf
    have hm := List.mem_of_find?_eq_some hf
    have hev : EvOk I ev := EvOk_of_notNew (by simpa [CSt.ok] using hcl _ hm)
    have : ∀ e ∈ s.cbch ++ [ev], EvOk I e := by
      intro e he
      simp only [List.mem_append, List.mem_singleton] at he
      rcases he with he | rfl
      · exact h e he
      · exact hev
    simp only []
    split <;> simpa using this
  · exact h

theorem callsFor_ok {I : List Version} {handles : List (Nat × Nat)} {ls : Nat} {lv : Option Slots} {ev : CbEv}
    (hev : EvOk I ev) (hl : LastOk I ls lv) : ∀ c ∈ callsFor handles ls lv ev, CallOk I c := by
  intro c hc
  cases ev with
  | watchErr k old new => simp [callsFor] at hc; subst hc; trivial
  | newCfg old new supp =>
    simp only [callsFor, List.mem_append, List.mem_map] at hc
    rcases hc with hc | ⟨h, _, rfl⟩
    · split at hc
      · simp at hc; subst hc; exact hev
      · simp at hc
    · exact hev
  | reg h ser cfg =>
    cases cfg with
    | none => simp [callsFor] at hc
    | some c0 =>
      simp only [callsFor] at hc
      split at hc
      · rename_i hcu
        simp at hc; subst hc
        simp only [Facts.catchUp, decide_eq_true_eq] at hcu
        rcases hl with hl | ⟨cfg, hlv, hmem⟩
        · omega
        · simp only [CallOk, hlv, Option.getD_some]; exact hmem
      · simp at hc
  | unreg h c0 tok => simp [callsFor] at hc


structure InvB (sl : Slots) (s : State) : Prop where
  evch : ∀ v, s.events = some v → v ∈ instR s.rlog
  monev : MonEvOk (instR s.rlog) s.view s.mon
  cb : CbOk (instR s.rlog) s.cb s.cbch
  last : LastOk (instR s.rlog) s.lastSerial s.lastVersion
  log : LogAll (ObsOkB sl (instR s.rlog)) s.rlog

theorem InvB_init (P : Params) (sl : Slots) (w : List Bool) : InvB sl (initState P sl w) := by
  constructor <;> simp [State.rlog, initState, instR, MonEvOk, CbOk, CbPcOk, LastOk, LogAll]

theorem LastOk_new {I : List Version} {new : Version} (h : new ∈ I) : LastOk I new.serial (some new.cfg) :=
  Or.inr ⟨new.cfg, rfl, h⟩

theorem got_calls {I : List Version} {handles : List (Nat × Nat)} {ls : Nat} {lv : Option Slots} {ev : CbEv}
    {c : Call} {cs : List Call} (hev : EvOk I ev) (hl : LastOk I ls lv)
    (heq : callsFor handles ls lv ev = c :: cs) : ∀ x ∈ c :: cs, CallOk I x :=
  heq ▸ callsFor_ok hev hl

theorem InvB_runCb {sl : Slots} {s s' : State} (hcl : ClOk s.clients) (h : runCb s = some s')
    (inv : InvB sl s) : InvB sl s' := by
  obtain ⟨h1, h2, h3, h4, h5⟩ := inv
  simp only [State.rlog] at h1 h2 h3 h4 h5
  cases hc : s.cb
  case got ev =>
    rw [hc] at h3
    have hev : EvOk (instR (List.filter rel s.log)) ev := h3.1
    cases ev <;> simp only [runCb, hc] at h
    case newCfg old new supp =>
      cases hg : Facts.globalGate supp <;> simp only [hg, if_true, if_false, Bool.false_eq_true] at h
      all_goals repeat' (first | contradiction | split at h)
      all_goals (simp only [Option.some.injEq] at h; subst h)
      all_goals refine ⟨?_, ?_, ?_, ?_, ?_⟩
      all_goals simp [State.rlog, List.filter_cons, rel, instR, LogAll, ObsOkB]
      all_goals first | assumption | exact ⟨trivial, h3.2⟩ | exact LastOk_new h3.1 | skip
      all_goals first
        | exact ⟨got_calls hev (LastOk_new h3.1) ‹callsFor _ _ _ _ = _ :: _›, h3.2⟩
        | exact ⟨got_calls hev (LastOk_new h3.1) ‹callsFor _ _ _ _ = _ :: _› _ List.mem_cons_self, h5⟩
    all_goals repeat' (first | contradiction | split at h)
    all_goals (simp only [Option.some.injEq] at h; subst h)
    all_goals refine ⟨?_, ?_, ?_, ?_, ?_⟩
    all_goals simp [State.rlog, List.filter_cons, rel, instR, LogAll, ObsOkB]
    all_goals first | assumption | exact ⟨trivial, h3.2⟩ | skip
    all_goals first
      | exact ⟨got_calls hev h4 ‹callsFor _ _ _ _ = _ :: _›, h3.2⟩
      | exact ⟨got_calls hev h4 ‹callsFor _ _ _ _ = _ :: _› _ List.mem_cons_self, h5⟩
  all_goals simp only [runCb, hc] at h
  case top =>
    repeat' (first | contradiction | split at h)
    all_goals (simp only [Option.some.injEq] at h; subst h)
    all_goals refine ⟨?_, ?_, ?_, ?_, ?_⟩
    all_goals simp [State.rlog, List.filter_cons, rel, instR, LogAll, ObsOkB]
    all_goals first | assumption | skip
    · rename_i ev rest hch
      rw [hch] at h3
      refine ⟨h3.2 ev (List.mem_cons_self), cbch_admitCbSender (by simpa using hcl) ?_⟩
      intro e he
      exact h3.2 e (List.mem_cons_of_mem _ (by simpa using he))
    · exact ⟨trivial, h3.2⟩
    · exact ⟨trivial, h3.2⟩
  all_goals repeat' (first | contradiction | split at h)
  all_goals (simp only [Option.some.injEq] at h; subst h)
  all_goals rw [hc] at h3
  all_goals try (rename_i heq; simp only [CbPc.calls.injEq] at heq; obtain ⟨rfl, rfl⟩ := heq)
  all_goals refine ⟨?_, ?_, ?_, ?_, ?_⟩
  all_goals simp [State.rlog, List.filter_cons, rel, instR, LogAll, ObsOkB]
  all_goals first | assumption | exact ⟨trivial, h3.2⟩ | skip
  · exact ⟨fun x hx => h3.1 x (List.mem_cons_of_mem _ hx), h3.2⟩
  · exact ⟨h3.1 _ (List.mem_cons_of_mem _ List.mem_cons_self), h5⟩

theorem MonEvOk_plain {I : List Version} {v : Version} {pc : MonPc} (h : pc.plain = true) : MonEvOk I v pc := by
  cases pc <;> simp [MonPc.plain] at h <;> trivial

theorem MonEvOk_of {I : List Version} {v : Version} {pc pc' : MonPc} (h : MonEvOk I v pc)
    (hm : pc' = pc ∨ (pc = .sel ∧ pc'.plain = true)) : MonEvOk I v pc' := by
  rcases hm with rfl | ⟨_, hp⟩
  · exact h
  · exact MonEvOk_plain hp

theorem InvB_runClient {sl : Slots} {s s' : State} {c ch : Nat}
    (hv : s.view = ⟨0, sl⟩ ∨ s.view ∈ instR s.rlog) (h : runClient s c ch = some s')
    (inv : InvB sl s) : InvB sl s' := by
  obtain ⟨h1, h2, h3, h4, h5⟩ := inv
  simp only [State.rlog] at h1 h2 h3 h4 h5 hv
  cases hc : getC s.clients c <;> simp only [runClient, hc] at h
  all_goals try contradiction
  rename_i op ctx
  cases op <;> simp only at h
  all_goals repeat' (first | contradiction | split at h)
  all_goals (simp only [Option.some.injEq] at h; subst h)
  all_goals refine ⟨?_, ?_, ?_, ?_, ?_⟩
  all_goals simp [State.rlog, List.filter_cons, rel, instR, LogAll, ObsOkB]
  all_goals first | assumption | exact MonEvOk_of h2 (offerW_mon _ _ _ _ _) | exact CbOk_offerCb h3 trivial | skip
  all_goals first | exact ⟨hv, h5⟩ | exact ⟨h1 _ ‹s.events = some _›, h5⟩ | trivial

theorem InvB_runMon {W : World} {sl : Slots} {s s' : State} {ch : Nat}
    (hv : s.view = ⟨0, sl⟩ ∨ s.view ∈ instR s.rlog) (h : runMon W s ch = some s')
    (inv : InvB sl s) : InvB sl s' := by
  obtain ⟨h1, h2, h3, h4, h5⟩ := inv
  simp only [State.rlog] at h1 h2 h3 h4 h5 hv
  cases hm : s.mon <;> simp only [runMon, hm] at h
  case store sl' r =>
    simp only [Option.some.injEq] at h; subst h
    have mono : ∀ v ∈ instR (List.filter rel s.log),
        v ∈ (⟨Facts.nextSerial s.view.serial, sl'⟩ : Version) :: instR (List.filter rel s.log) :=
      fun v hv => List.mem_cons_of_mem _ hv
    refine ⟨?_, ?_, ?_, ?_, ?_⟩
    all_goals simp only [State.rlog, State.logAdd, List.filter_cons, rel, instR, LogAll, ObsOkB, if_true]
    · exact fun v hv => mono v (h1 v hv)
    · exact List.mem_cons_self
    · exact CbOk_mono mono h3
    · rcases h4 with h4 | ⟨cfg, h4, h4'⟩
      · exact Or.inl h4
      · exact Or.inr ⟨cfg, h4, mono _ h4'⟩
    · exact ⟨trivial, LogAll_mono (fun o ho => ObsOkB_mono mono ho) h5⟩
  all_goals repeat' (first | contradiction | split at h)
  all_goals simp only [Option.some.injEq, Option.map_eq_some_iff] at h
  all_goals first | subst h | (obtain ⟨i, -, h⟩ := h; subst h)
  all_goals rw [hm] at h2
  all_goals refine ⟨?_, ?_, ?_, ?_, ?_⟩
  all_goals simp [State.rlog, List.filter_cons, rel, instR, LogAll, ObsOkB, MonEvOk]
  all_goals first | assumption | exact MonEvOk_plain (monTake_plain _ _) | skip
  all_goals first | exact ⟨hv, h5⟩ | exact ⟨trivial, h3.2⟩ | exact CbOk_trySubmit h3 trivial |
    exact CbOk_trySubmit h3 h2

theorem InvA.view_mem {W : World} {P : Params} {sl : Slots} {s : State} (inv : InvA W P sl s) :
    s.view = ⟨0, sl⟩ ∨ s.view ∈ instR s.rlog := by
  have h := inv.viewLast
  cases hI : instR s.rlog with
  | nil => rw [hI] at h; exact Or.inl h.symm
  | cons v I => rw [hI] at h; exact Or.inr (by simp at h; simp [h])

theorem InvB_step {W : World} {P : Params} {sl : Slots} {s s' : State} {l : Label}
    (hA : InvA W P sl s) (hcl : ClOk s.clients) (h : step W s l = some s') (inv : InvB sl s) : InvB sl s' := by
  cases l with
  | runMon ch => exact InvB_runMon hA.view_mem h inv
  | runCb => exact InvB_runCb hcl h inv
  | runClient c ch => exact InvB_runClient hA.view_mem h inv
  | begin c op ctx =>
    simp only [step] at h
    split at h
    · simp only [Option.some.injEq] at h; subst h
      obtain ⟨h1, h2, h3, h4, h5⟩ := inv
      exact ⟨h1, h2, h3, h4, h5⟩
    · contradiction
  | ack c =>
    simp only [step] at h
    split at h
    · simp only [Option.some.injEq] at h; subst h
      obtain ⟨h1, h2, h3, h4, h5⟩ := inv
      exact ⟨h1, h2, h3, h4, h5⟩
    · contradiction
  | cancel ctx =>
    simp only [step, Option.some.injEq] at h; subst h
    obtain ⟨h1, h2, h3, h4, h5⟩ := inv
    refine ⟨?_, ?_, ?_, ?_, ?_⟩
    all_goals simp only [State.rlog, cancelCtx_log, cancelCtx_events, cancelCtx_view, cancelCtx_cb, cancelCtx_cbch,
      cancelCtx_lastSerial, cancelCtx_lastVersion]
    · exact h1
    · exact MonEvOk_of h2 (cancelCtx_mon _ _)
    · exact h3
    · exact h4
    · exact h5

/-- all invariants together -/
structure Inv (W : World) (P : Params) (sl : Slots) (s : State) : Prop where
  a : InvA W P sl s
  cl : ClOk s.clients
  b : InvB sl s

theorem Inv_reachable {W : World} {P : Params} {sl : Slots} {w : List Bool} {s : State}
    (hr : Reachable W P sl w s) : Inv W P sl s := by
  refine reachable_induction (I := Inv W P sl) ⟨InvA_init W P sl w, ?_, InvB_init P sl w⟩ ?_ hr
  · intro p hp; simp [initState] at hp
  · intro s s' l i h
    exact ⟨InvA_step h i.a, ClOk_step h i.cl, InvB_step i.a i.cl h i.b⟩

/-! ### serials only go up -/

def SeenLe (n : Nat) : Obs → Prop
  | .seen _ v => v.serial ≤ n
  | _ => True

def RecvLe (n : Nat) : Obs → Prop
  | .evRecv _ v => v.serial ≤ n
  | _ => True

def RecvLt (n : Nat) : Obs → Prop
  | .evRecv _ v => v.serial < n
  | _ => True

/-- `older` may precede `newer` -/
def OrdOk (newer older : Obs) : Prop :=
  match older, newer with
  | .seen _ v1, .seen _ v2 => v1.serial ≤ v2.serial
  | .evRecv _ v1, .evRecv _ v2 => v1.serial < v2.serial
  | _, _ => True

def LogSorted : List Obs → Prop
  | [] => True
  | o :: l => LogAll (OrdOk o) l ∧ LogSorted l

def MonPc.isEvents : MonPc → Bool
  | .events _ _ => true
  | _ => false

theorem isEvents_of {pc pc' : MonPc} (hm : pc' = pc ∨ (pc = .sel ∧ pc'.plain = true))
    (h : pc'.isEvents = true) : pc.isEvents = true := by
  rcases hm with rfl | ⟨_, hp⟩
  · exact h
  · cases pc' <;> simp_all [MonPc.plain, MonPc.isEvents]

theorem monTake_not_isEvents (s : State) (i : MonIn) : (monTake s i).mon.isEvents = false := by
  have := monTake_plain s i
  cases h : (monTake s i).mon <;> simp_all [MonPc.plain, MonPc.isEvents]

theorem SeenLe_mono {n m : Nat} (h : n ≤ m) {o : Obs} (ho : SeenLe n o) : SeenLe m o := by
  cases o <;> simp_all [SeenLe] <;> omega
theorem RecvLe_mono {n m : Nat} (h : n ≤ m) {o : Obs} (ho : RecvLe n o) : RecvLe m o := by
  cases o <;> simp_all [RecvLe] <;> omega
theorem RecvLt_of_Le {n m : Nat} (h : n < m) {o : Obs} (ho : RecvLe n o) : RecvLt m o := by
  cases o <;> simp_all [RecvLe, RecvLt] <;> omega
theorem OrdOk_seen {c : Nat} {v : Version} {o : Obs} (ho : SeenLe v.serial o) : OrdOk (.seen c v) o := by
  cases o <;> simp_all [SeenLe, OrdOk]
theorem OrdOk_evRecv {c : Nat} {v : Version} {o : Obs} (ho : RecvLt v.serial o) : OrdOk (.evRecv c v) o := by
  cases o <;> simp_all [RecvLt, OrdOk]

theorem LogAll_OrdOk_gotUpd {a b : Nat} {r : Option Nat} {l : List Obs} : LogAll (OrdOk (.gotUpd a b r)) l :=
  LogAll_iff.2 (fun x _ => by cases x <;> trivial)
theorem LogAll_OrdOk_ret {c : Nat} {r : Res} {l : List Obs} : LogAll (OrdOk (.ret c r)) l :=
  LogAll_iff.2 (fun x _ => by cases x <;> trivial)
theorem LogAll_OrdOk_enter {c : Call} {l : List Obs} : LogAll (OrdOk (.enter c)) l :=
  LogAll_iff.2 (fun x _ => by cases x <;> trivial)

structure InvC (s : State) : Prop where
  seenLe : LogAll (SeenLe s.view.serial) s.rlog
  recvLe : LogAll (RecvLe s.view.serial) s.rlog
  recvLtEv : ∀ u, s.events = some u → LogAll (RecvLt u.serial) s.rlog
  evLe : ∀ u, s.events = some u → u.serial ≤ s.view.serial
  atEvents : s.mon.isEvents = true →
    LogAll (RecvLt s.view.serial) s.rlog ∧ ∀ u, s.events = some u → u.serial < s.view.serial
  sorted : LogSorted s.rlog

theorem InvC_init (P : Params) (sl : Slots) (w : List Bool) : InvC (initState P sl w) := by
  constructor <;> simp [State.rlog, initState, LogAll, LogSorted, MonPc.isEvents]

theorem InvC_runMon {W : World} {s s' : State} {ch : Nat} (h : runMon W s ch = some s') (inv : InvC s) :
    InvC s' := by
  obtain ⟨h1, h2, h3, h4, h5, h6⟩ := inv
  simp only [State.rlog] at h1 h2 h3 h4 h5 h6
  cases hm : s.mon <;> simp only [runMon, hm] at h
  case store sl' r =>
    simp only [Option.some.injEq] at h; subst h
    refine ⟨?_, ?_, ?_, ?_, ?_, ?_⟩
    all_goals simp only [State.rlog, State.logAdd, List.filter_cons, rel, if_true, LogAll, LogSorted,
      Facts.nextSerial, SeenLe, RecvLe, RecvLt, true_and]
    · exact LogAll_mono (fun o ho => SeenLe_mono (Nat.le_succ _) ho) h1
    · exact LogAll_mono (fun o ho => RecvLe_mono (Nat.le_succ _) ho) h2
    · exact h3
    · exact fun u hu => Nat.le_succ_of_le (h4 u hu)
    · exact fun _ => ⟨LogAll_mono (fun o ho => RecvLt_of_Le (Nat.lt_succ_self _) ho) h2,
        fun u hu => Nat.lt_succ_of_le (h4 u hu)⟩
    · refine ⟨LogAll_iff.2 (fun o _ => ?_), h6⟩
      cases o <;> trivial
  case events old r =>
    rw [hm] at h5
    have h5' := h5 rfl
    repeat' (first | contradiction | split at h)
    all_goals simp only [Option.some.injEq] at h
    all_goals subst h
    all_goals refine ⟨?_, ?_, ?_, ?_, ?_, ?_⟩
    all_goals simp [State.rlog, MonPc.isEvents]
    all_goals first | assumption | exact h5'.1
  all_goals repeat' (first | contradiction | split at h)
  all_goals simp only [Option.some.injEq, Option.map_eq_some_iff] at h
  all_goals first | subst h | (obtain ⟨i, -, h⟩ := h; subst h)
  all_goals rw [hm] at h5
  all_goals refine ⟨?_, ?_, ?_, ?_, ?_, ?_⟩
  all_goals simp [State.rlog, List.filter_cons, rel, LogAll, LogSorted, SeenLe, RecvLe, RecvLt,
    monTake_not_isEvents]
  all_goals first | assumption | exact ⟨LogAll_OrdOk_gotUpd, h6⟩ | exact ⟨LogAll_OrdOk_ret, h6⟩ | exact ⟨LogAll_OrdOk_enter, h6⟩

theorem InvC_runCb {s s' : State} (h : runCb s = some s') (inv : InvC s) : InvC s' := by
  obtain ⟨h1, h2, h3, h4, h5, h6⟩ := inv
  simp only [State.rlog] at h1 h2 h3 h4 h5 h6
  cases hc : s.cb
  case got ev =>
    cases ev <;> simp only [runCb, hc] at h
    all_goals repeat' (first | contradiction | split at h)
    all_goals (simp only [Option.some.injEq] at h; subst h)
    all_goals refine ⟨?_, ?_, ?_, ?_, ?_, ?_⟩
    all_goals simp [State.rlog, List.filter_cons, rel, LogAll, LogSorted, SeenLe, RecvLe, RecvLt]
    all_goals first | assumption | exact ⟨LogAll_OrdOk_gotUpd, h6⟩ | exact ⟨LogAll_OrdOk_ret, h6⟩ | exact ⟨LogAll_OrdOk_enter, h6⟩
  all_goals simp only [runCb, hc] at h
  all_goals repeat' (first | contradiction | split at h)
  all_goals (simp only [Option.some.injEq] at h; subst h)
  all_goals refine ⟨?_, ?_, ?_, ?_, ?_, ?_⟩
  all_goals simp [State.rlog, List.filter_cons, rel, LogAll, LogSorted, SeenLe, RecvLe, RecvLt]
  all_goals first | assumption | exact ⟨LogAll_OrdOk_gotUpd, h6⟩ | exact ⟨LogAll_OrdOk_ret, h6⟩ | exact ⟨LogAll_OrdOk_enter, h6⟩

theorem InvC_runClient {s s' : State} {c ch : Nat} (h : runClient s c ch = some s') (inv : InvC s) :
    InvC s' := by
  obtain ⟨h1, h2, h3, h4, h5, h6⟩ := inv
  simp only [State.rlog] at h1 h2 h3 h4 h5 h6
  cases hc : getC s.clients c <;> simp only [runClient, hc] at h
  all_goals try contradiction
  rename_i op ctx
  cases op <;> simp only at h
  all_goals repeat' (first | contradiction | split at h)
  all_goals (simp only [Option.some.injEq] at h; subst h)
  all_goals refine ⟨?_, ?_, ?_, ?_, ?_, ?_⟩
  all_goals simp [State.rlog, List.filter_cons, rel, LogAll, LogSorted, SeenLe, RecvLe, RecvLt]
  all_goals first | assumption | exact ⟨LogAll_OrdOk_gotUpd, h6⟩ | exact ⟨LogAll_OrdOk_ret, h6⟩ | exact ⟨LogAll_OrdOk_enter, h6⟩ |
    exact fun hh => h5 (isEvents_of (offerW_mon _ _ _ _ _) hh) | skip
  · exact ⟨LogAll_mono (fun o ho => OrdOk_seen ho) h1, h6⟩
  · exact ⟨h4 _ ‹s.events = some _›, h2⟩
  · exact fun hh => ⟨(h5 hh).2 _ ‹s.events = some _›, (h5 hh).1⟩
  · exact ⟨LogAll_mono (fun o ho => OrdOk_evRecv ho) (h3 _ ‹s.events = some _›), h6⟩
  · simp [MonPc.isEvents]

theorem InvC_step {W : World} {s s' : State} {l : Label} (h : step W s l = some s') (inv : InvC s) :
    InvC s' := by
  cases l with
  | runMon ch => exact InvC_runMon h inv
  | runCb => exact InvC_runCb h inv
  | runClient c ch => exact InvC_runClient h inv
  | begin c op ctx =>
    simp only [step] at h
    split at h
    · simp only [Option.some.injEq] at h; subst h
      obtain ⟨h1, h2, h3, h4, h5, h6⟩ := inv
      exact ⟨h1, h2, h3, h4, h5, h6⟩
    · contradiction
  | ack c =>
    simp only [step] at h
    split at h
    · simp only [Option.some.injEq] at h; subst h
      obtain ⟨h1, h2, h3, h4, h5, h6⟩ := inv
      exact ⟨h1, h2, h3, h4, h5, h6⟩
    · contradiction
  | cancel ctx =>
    simp only [step, Option.some.injEq] at h; subst h
    obtain ⟨h1, h2, h3, h4, h5, h6⟩ := inv
    refine ⟨?_, ?_, ?_, ?_, ?_, ?_⟩
    all_goals simp only [State.rlog, cancelCtx_log, cancelCtx_events, cancelCtx_view]
    · exact h1
    · exact h2
    · exact h3
    · exact h4
    · exact fun hh => h5 (isEvents_of (cancelCtx_mon _ _) hh)
    · exact h6

theorem InvC_reachable {W : World} {P : Params} {sl : Slots} {w : List Bool} {s : State}
    (hr : Reachable W P sl w s) : InvC s :=
  reachable_induction (InvC_init P sl w) (fun _ _ _ i h => InvC_step h i) hr

theorem LogSorted_append {X Y : List Obs} (h : LogSorted (X ++ Y)) : LogSorted Y := by
  induction X with
  | nil => exact h
  | cons x X ih => exact ih h.2

theorem rlog_of_before {s : State} {a b : Obs} (ha : rel a = true) (hb : rel b = true)
    (h : Before s.history a b) : ∃ X Y, s.rlog = X ++ b :: Y ∧ a ∈ Y := by
  obtain ⟨l1, l2, l3, e⟩ := h
  have e2 : s.log = l3.reverse ++ b :: (l2.reverse ++ a :: l1.reverse) := by
    have := congrArg List.reverse e
    simpa [State.history] using this
  refine ⟨l3.reverse.filter rel, (l2.reverse ++ a :: l1.reverse).filter rel, ?_, ?_⟩
  · simp [State.rlog, e2, List.filter_cons, hb]
  · simp [List.mem_filter, ha]

theorem ordOk_of_before {s : State} (hs : LogSorted s.rlog) {a b : Obs} (ha : rel a = true) (hb : rel b = true)
    (h : Before s.history a b) : OrdOk b a := by
  obtain ⟨X, Y, e, hmem⟩ := rlog_of_before ha hb h
  rw [e] at hs
  exact LogAll_iff.1 (LogSorted_append hs).1 a hmem

/-! ### interface for the property files -/

theorem observed_ok {W : World} {P : Params} {sl : Slots} {w : List Bool} {s : State}
    (hr : Reachable W P sl w s) {o : Obs} (ho : o ∈ s.log) (hrel : rel o = true) :
    ObsOkB sl (instR s.rlog) o :=
  LogAll_iff.1 (Inv_reachable hr).b.log o (List.mem_filter.2 ⟨ho, hrel⟩)

theorem mem_installs {s : State} {v : Version} : v ∈ s.installs ↔ v ∈ instR s.rlog := by
  rw [installs_eq, List.mem_reverse]

theorem mem_versions {s : State} {sl : Slots} {v : Version} (h : v = ⟨0, sl⟩ ∨ v ∈ instR s.rlog) :
    v ∈ s.versions sl := by
  simp only [State.versions, List.mem_cons, mem_installs]
  exact h

end Dials.Runtime
