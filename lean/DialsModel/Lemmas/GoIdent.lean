/- Helper lemmas for the Go-identifier half of C19: `goLoop` on a good identifier. -/
import DialsModel.Model.CaseConvSpec
import DialsModel.Lemmas.CaseConv

namespace Dials.CaseConv

/-! ### character / string facts -/

theorem upperS_of_all_upper (w : Str) (h : w.all isUpperA = true) : upperS w = w := by
  induction w with
  | nil => rfl
  | cons c cs ih =>
    simp only [List.all_cons, Bool.and_eq_true] at h
    simp only [upperS, List.map_cons] at *
    rw [toUpperA_of_not_lower c (not_lower_of_upper c h.1), ih h.2]

theorem allUpper_of_all_upper (w : Str) (h : w.all isUpperA = true) : allUpper w = true := by
  simp [allUpper, upperS_of_all_upper w h]

theorem toUpperA_ne_of_lower (d : Char) (h : isLowerA d = true) : toUpperA d ≠ d := by
  intro e
  have h1 := isUpperA_toUpperA d h
  rw [e, not_upper_of_lower d h] at h1
  cases h1

theorem allUpper_capWord (w : Str) (h : isCapWord w = true) : allUpper w = false := by
  match w, h with
  | c :: d :: rest, h =>
    simp only [isCapWord, Bool.and_eq_true] at h
    have hne := toUpperA_ne_of_lower d h.1.2
    simp only [allUpper, upperS, List.map_cons]
    cases hb : (c :: d :: rest == toUpperA c :: toUpperA d :: List.map toUpperA rest) with
    | false => rfl
    | true =>
      have := eq_of_beq hb
      simp only [List.cons.injEq] at this
      exact absurd this.2.1.symm hne

theorem flushWord_capWord (inits : List Str) (acc : Words) (w : Str) (h : isCapWord w = true) :
    flushWord inits acc w = acc ++ [lowerS w] := by
  have hne : w.isEmpty = false := by
    match w, h with
    | c :: d :: rest, _ => rfl
  simp [flushWord, hne, allUpper_capWord w h]

theorem flushWord_upper (inits : List Str) (acc : Words) (w : Str) (hne : w ≠ [])
    (h : w.all isUpperA = true) : flushWord inits acc w = acc ++ extractInitialismsWith inits w := by
  have hne : w.isEmpty = false := by cases w <;> simp_all
  simp [flushWord, hne, allUpper_of_all_upper w h]

theorem flushWord_nil (inits : List Str) (acc : Words) : flushWord inits acc [] = acc := by
  simp [flushWord]

theorem firstAfter_false_of_head (c : Char) (rest : Str)
    (h : ∀ r2 tl, rest = r2 :: tl → isLowerA r2 = false) : firstAfterInitialism c rest = false := by
  match rest, h with
  | [], _ => rfl
  | [_], _ => rfl
  | r2 :: _ :: _, h => simp [firstAfterInitialism, h r2 _ rfl]

theorem firstAfter_false_of_not_upper (c : Char) (rest : Str) (h : isUpperA c = false) :
    firstAfterInitialism c rest = false := by
  match rest with
  | [] => rfl
  | [_] => rfl
  | r2 :: _ :: _ => simp [firstAfterInitialism, h]

theorem firstAfter_true (c d : Char) (y : Str) (hc : isUpperA c = true) (hd : isLowerA d = true)
    (hy : y ≠ []) : firstAfterInitialism c (d :: y) = true := by
  cases y with
  | nil => exact absurd rfl hy
  | cons x y => simp [firstAfterInitialism, hc, hd]

/-! ### single steps of `goLoop` -/

abbrev usB : Char → Bool := fun c => c == '_'

/-- a lower-case character is appended to the current word -/
theorem goLoop_lower (inits : List Str) (prev : Option Char) (d : Char) (tl cur : Str) (acc : Words)
    (hd : isLowerA d = true) :
    goLoop inits usB prev (d :: tl) cur acc = goLoop inits usB (some d) tl (cur ++ [d]) acc := by
  have hu := not_upper_of_lower d hd
  rw [goLoop]
  simp [hu, firstAfter_false_of_not_upper d tl hu, lower_ne_underscore d hd]

theorem goLoop_lowers (inits : List Str) (ls : Str) (h : ls.all isLowerA = true) (prev : Option Char)
    (tl cur : Str) (acc : Words) :
    ∃ p, (ls = [] → p = prev) ∧ (ls ≠ [] → ∃ q, p = some q ∧ isLowerA q = true) ∧
      goLoop inits usB prev (ls ++ tl) cur acc = goLoop inits usB p tl (cur ++ ls) acc := by
  induction ls generalizing prev cur with
  | nil => exact ⟨prev, fun _ => rfl, fun h => absurd rfl h, by simp⟩
  | cons d ls ih =>
    simp only [List.all_cons, Bool.and_eq_true] at h
    obtain ⟨p, hp1, hp2, hp3⟩ := ih h.2 (some d) (cur ++ [d])
    refine ⟨p, fun e => (by cases e), fun _ => ?_, ?_⟩
    · by_cases hl : ls = []
      · exact ⟨d, hp1 hl, h.1⟩
      · exact hp2 hl
    · rw [List.cons_append, goLoop_lower inits prev d _ cur acc h.1, hp3]; simp

/-- an upper-case character in the middle of an upper-case run is appended -/
theorem goLoop_mid (inits : List Str) (prev : Option Char) (u : Char) (tl cur : Str) (acc : Words)
    (hu : isUpperA u = true) (hp : prevLower prev = false) (hfa : firstAfterInitialism u tl = false)
    (hne : tl ≠ []) :
    goLoop inits usB prev (u :: tl) cur acc = goLoop inits usB (some u) tl (cur ++ [u]) acc := by
  have he : tl.isEmpty = false := by cases tl <;> simp_all
  rw [goLoop]
  simp [hp, hfa, upper_ne_underscore u hu, he]

/-- the first character of a word after an upper-case run flushes the run -/
theorem goLoop_firstAfter (inits : List Str) (prev : Option Char) (c d : Char) (y cur : Str)
    (acc : Words) (hc : isUpperA c = true) (hd : isLowerA d = true) (hy : y ≠ []) :
    goLoop inits usB prev (c :: d :: y) cur acc =
      goLoop inits usB (some c) (d :: y) [c] (flushWord inits acc cur) := by
  rw [goLoop]
  simp [firstAfter_true c d y hc hd hy, upper_ne_underscore c hc]

/-- an upper-case character after a lower-case one flushes the word -/
theorem goLoop_prevLower (inits : List Str) (p c : Char) (tl cur : Str)
    (acc : Words) (hc : isUpperA c = true) (hp : isLowerA p = true) :
    goLoop inits usB (some p) (c :: tl) cur acc =
      goLoop inits usB (some c) tl [c] (flushWord inits acc cur) := by
  rw [goLoop]
  simp [hc, prevLower, hp, upper_ne_underscore c hc]

theorem all_upper_append {a b : Str} (ha : a.all isUpperA = true) (hb : b.all isUpperA = true) :
    (a ++ b).all isUpperA = true := by
  simp only [List.all_append, ha, hb, Bool.and_self]

/-- an upper-case run that ends the string -/
theorem goLoop_run_eos (inits : List Str) (us : Str) (hne : us ≠ []) (hus : us.all isUpperA = true)
    (prev : Option Char) (cur : Str) (acc : Words) (hp : prevLower prev = false) (hcn : cur ≠ [])
    (hcu : cur.all isUpperA = true) :
    goLoop inits usB prev us cur acc = acc ++ extractInitialismsWith inits (cur ++ us) := by
  induction us generalizing prev cur with
  | nil => exact absurd rfl hne
  | cons u us ih =>
    simp only [List.all_cons, Bool.and_eq_true] at hus
    cases us with
    | nil =>
      have hce : cur.isEmpty = false := by cases cur <;> simp_all
      have hall : allUpper (cur ++ [u]) = true :=
        allUpper_of_all_upper _ (all_upper_append hcu (by simp [hus.1]))
      rw [goLoop]
      simp [hp, firstAfterInitialism, upper_ne_underscore u hus.1, hus.1, hce, hall]
    | cons q r =>
      have hq : isUpperA q = true := by
        have := hus.2; simp only [List.all_cons, Bool.and_eq_true] at this; exact this.1
      rw [goLoop_mid inits prev u (q :: r) cur acc hus.1 hp
        (firstAfter_false_of_head u _ (fun r2 tl e => by
          cases e; exact not_lower_of_upper _ hq)) (by simp)]
      rw [ih (by simp) hus.2 (some u) (cur ++ [u]) (by simp [prevLower, not_lower_of_upper u hus.1])
        (by simp) (all_upper_append hcu (by simp [hus.1]))]
      simp

/-- an upper-case run followed by a capitalised word (with at least two more characters) -/
theorem goLoop_run_word (inits : List Str) (us : Str) (hus : us.all isUpperA = true)
    (c d : Char) (y : Str) (hc : isUpperA c = true) (hd : isLowerA d = true) (hy : y ≠ [])
    (prev : Option Char) (cur : Str) (acc : Words) (hp : prevLower prev = false) (hcn : cur ≠ [])
    (hcu : cur.all isUpperA = true) :
    goLoop inits usB prev (us ++ c :: d :: y) cur acc =
      goLoop inits usB (some c) (d :: y) [c] (acc ++ extractInitialismsWith inits (cur ++ us)) := by
  induction us generalizing prev cur with
  | nil =>
    rw [List.nil_append, goLoop_firstAfter inits prev c d y cur acc hc hd hy,
      flushWord_upper inits acc cur hcn hcu, List.append_nil]
  | cons u us ih =>
    simp only [List.all_cons, Bool.and_eq_true] at hus
    have hhead : ∀ r2 tl, us ++ c :: d :: y = r2 :: tl → isLowerA r2 = false := by
      intro r2 tl e
      cases us with
      | nil => simp only [List.nil_append, List.cons.injEq] at e; rw [← e.1]; exact not_lower_of_upper c hc
      | cons q r =>
        simp only [List.cons_append, List.cons.injEq] at e
        have := hus.2; simp only [List.all_cons, Bool.and_eq_true] at this
        rw [← e.1]; exact not_lower_of_upper q this.1
    rw [List.cons_append, goLoop_mid inits prev u _ cur acc hus.1 hp
      (firstAfter_false_of_head u _ hhead) (by simp)]
    rw [ih hus.2 (some u) (cur ++ [u]) (by simp [prevLower, not_lower_of_upper u hus.1])
      (by simp) (all_upper_append hcu (by simp [hus.1]))]
    simp

/-! ### token facts -/

theorem capWord_cases {w : Str} (h : isCapWord w = true) :
    ∃ c d w', w = c :: d :: w' ∧ isUpperA c = true ∧ isLowerA d = true ∧ w'.all isLowerA = true := by
  match w, h with
  | c :: d :: rest, h =>
    simp only [isCapWord, Bool.and_eq_true] at h
    exact ⟨c, d, rest, rfl, h.1.1, h.1.2, h.2⟩

theorem initStr_cases {i : Str} (h : isInitStr i = true) :
    ∃ u us, i = u :: us ∧ (u :: us).all isUpperA = true := by
  cases i with
  | nil => simp [isInitStr] at h
  | cons u us =>
    simp only [isInitStr, List.isEmpty_cons, Bool.not_false, Bool.true_and] at h
    exact ⟨u, us, rfl, h⟩

theorem render_cons (t : Tok) (ts : List Tok) : render (t :: ts) = t.str ++ render ts := by
  simp [render]

theorem expected_cons (t : Tok) (ts : List Tok) : expected (t :: ts) = lowerS t.str :: expected ts := by
  simp [expected]

theorem wf_head_upper {t : Tok} (h : t.wf = true) : ∃ c tl, t.str = c :: tl ∧ isUpperA c = true := by
  cases t with
  | word w =>
    obtain ⟨c, d, w', e, hc, _, _⟩ := capWord_cases h
    exact ⟨c, d :: w', e, hc⟩
  | init i =>
    obtain ⟨u, us, e, hu⟩ := initStr_cases h
    simp only [List.all_cons, Bool.and_eq_true] at hu
    exact ⟨u, us, e, hu.1⟩

theorem tailOk_tail (t : Tok) (ts : List Tok) (h : tailOk (t :: ts) = true) : tailOk ts = true := by
  match ts with
  | [] => rfl
  | [_] => rfl
  | t2 :: t3 :: r =>
    cases t <;> simpa [tailOk] using h

theorem tailOk_init_word (j w : Str) (ts : List Tok) (h : tailOk (.init j :: .word w :: ts) = true) :
    ts = [] → 3 ≤ w.length := by
  intro e; subst e
  simpa [tailOk] using h

theorem flatten_singleton {run : List Str} {u : Char} (hne : ∀ i ∈ run, i ≠ [])
    (h : [u] = run.flatten) : run = [[u]] := by
  match run with
  | [] => simp at h
  | [] :: r => exact absurd rfl (hne [] (by simp))
  | (a :: i) :: r =>
    simp only [List.flatten_cons, List.cons_append, List.cons.injEq] at h
    have h2 : i = [] ∧ r.flatten = [] := by
      have := h.2.symm
      simpa using this
    cases r with
    | nil => simp [h.1, h2.1]
    | cons b r =>
      have hb := hne b (by simp)
      have : b = [] := by
        have := h2.2; simp only [List.flatten_cons, List.append_eq_nil_iff] at this; exact this.1
      exact absurd this hb

/-! ### the token-level invariant -/

/-- the run `r` is tokenised as intended by the scan-order matcher -/
def OkRun (inits : List Str) (r : List Str) : Prop :=
  extractInitialismsWith inits r.flatten = r.map lowerS

/-- state after a complete word `w` (pending in `cur`) -/
def AfterWord (inits : List Str) (rest : List Tok) : Prop :=
  ∀ (w : Str) (p : Char) (acc : Words), isCapWord w = true → isLowerA p = true →
    (∀ r ∈ initRunsAux rest [], OkRun inits r) → tailOk rest = true →
    goLoop inits usB (some p) (render rest) w acc = acc ++ [lowerS w] ++ expected rest

/-- state after the first character `u` of a run of initialisms whose remaining characters are `us` -/
def InRun (inits : List Str) (rest : List Tok) : Prop :=
  ∀ (run : List Str) (u : Char) (us : Str) (acc : Words) (j : Str), u :: us = run.flatten →
    (∀ i ∈ run, i ≠ []) → (u :: us).all isUpperA = true →
    (∀ r ∈ initRunsAux rest run, OkRun inits r) → tailOk (.init j :: rest) = true →
    goLoop inits usB (some u) (us ++ render rest) [u] acc = acc ++ run.map lowerS ++ expected rest

theorem run_ne_nil {run : List Str} {u : Char} {us : Str} (h : u :: us = run.flatten) :
    run.isEmpty = false := by
  cases run with
  | nil => simp at h
  | cons a r => rfl

theorem afterWord_nil (inits : List Str) : AfterWord inits [] := by
  intro w p acc hw _ _ _
  obtain ⟨c, d, w', e, _⟩ := capWord_cases hw
  subst e
  simp [render, expected, goLoop]

theorem inRun_nil (inits : List Str) : InRun inits [] := by
  intro run u us acc j hflat hne hU hok _
  have hrun : OkRun inits run := hok run (by simp [initRunsAux, run_ne_nil hflat])
  simp only [render, List.map_nil, List.flatten_nil, List.append_nil, expected]
  cases us with
  | nil =>
    rw [flatten_singleton hne hflat]
    simp [goLoop]
  | cons q r =>
    simp only [List.all_cons, Bool.and_eq_true] at hU
    rw [goLoop_run_eos inits (q :: r) (by simp) (by simpa using hU.2) (some u) [u] acc
      (by simp [prevLower, not_lower_of_upper u hU.1]) (by simp) (by simp [hU.1])]
    have : [u] ++ q :: r = run.flatten := by simpa using hflat
    rw [this, hrun]

/-- from just after the capital `c` of a word `c :: d :: v` to the end -/
theorem word_tail (inits : List Str) (rest : List Tok) (hA : AfterWord inits rest) (c d : Char)
    (v : Str) (hv : isCapWord (c :: d :: v) = true) (prev : Option Char) (acc : Words)
    (hok : ∀ r ∈ initRunsAux rest [], OkRun inits r) (ht : tailOk rest = true) :
    goLoop inits usB prev (d :: (v ++ render rest)) [c] acc =
      acc ++ [lowerS (c :: d :: v)] ++ expected rest := by
  have hv' := hv
  simp only [isCapWord, Bool.and_eq_true] at hv'
  obtain ⟨p, _, hp, he⟩ := goLoop_lowers inits (d :: v) (by simp [hv'.1.2, hv'.2]) prev
    (render rest) [c] acc
  obtain ⟨q, hq, hql⟩ := hp (by simp)
  subst hq
  rw [List.cons_append] at he
  rw [he]
  exact hA _ q acc hv hql hok ht

theorem afterWord_word (inits : List Str) (rest : List Tok) (hA : AfterWord inits rest) (v : Str)
    (hv : isCapWord v = true) : AfterWord inits (.word v :: rest) := by
  intro w p acc hw hp hok ht
  obtain ⟨c, d, v', e, hc, hd, hv'⟩ := capWord_cases hv
  subst e
  have hok' : ∀ r ∈ initRunsAux rest [], OkRun inits r := by
    intro r hr; exact hok r (by simpa [initRunsAux] using hr)
  rw [render_cons, expected_cons]
  simp only [Tok.str, List.cons_append]
  rw [goLoop_prevLower inits p c _ w acc hc hp, flushWord_capWord inits acc w hw,
    word_tail inits rest hA c d v' hv (some c) _ hok' (tailOk_tail _ _ ht)]
  simp

theorem afterWord_init (inits : List Str) (rest : List Tok) (hB : InRun inits rest) (i : Str)
    (hi : isInitStr i = true) : AfterWord inits (.init i :: rest) := by
  intro w p acc hw hp hok ht
  obtain ⟨u, us, e, hU⟩ := initStr_cases hi
  subst e
  have hu : isUpperA u = true := by
    simp only [List.all_cons, Bool.and_eq_true] at hU; exact hU.1
  rw [render_cons, expected_cons]
  simp only [Tok.str, List.cons_append]
  rw [goLoop_prevLower inits p u _ w acc hu hp, flushWord_capWord inits acc w hw,
    hB [u :: us] u us _ (u :: us) (by simp) (by simp) hU
      (by intro r hr; exact hok r (by simpa [initRunsAux] using hr)) ht]
  simp

theorem inRun_init (inits : List Str) (rest : List Tok) (hB : InRun inits rest) (i : Str)
    (hi : isInitStr i = true) : InRun inits (.init i :: rest) := by
  intro run u us acc j hflat hne hU hok ht
  obtain ⟨a, as, e, hA⟩ := initStr_cases hi
  subst e
  rw [render_cons, expected_cons]
  simp only [Tok.str]
  rw [← List.append_assoc,
    hB (run ++ [a :: as]) u (us ++ a :: as) acc (a :: as) (by simp [← hflat])
      (by intro x hx; simp only [List.mem_append, List.mem_singleton] at hx
          rcases hx with hx | hx
          · exact hne x hx
          · subst hx; simp)
      (by rw [← List.cons_append]; exact all_upper_append hU hA)
      (by intro r hr; exact hok r (by simpa [initRunsAux] using hr))
      (tailOk_tail _ _ ht)]
  simp

theorem inRun_word (inits : List Str) (rest : List Tok) (hA : AfterWord inits rest)
    (hwf : rest.all Tok.wf = true) (v : Str)
    (hv : isCapWord v = true) : InRun inits (.word v :: rest) := by
  intro run u us acc j hflat hne hU hok ht
  obtain ⟨c, d, v', e, hc, hd, hv'⟩ := capWord_cases hv
  subst e
  have hrunne := run_ne_nil hflat
  have hrun : OkRun inits run := hok run (by simp [initRunsAux, hrunne])
  have hok' : ∀ r ∈ initRunsAux rest [], OkRun inits r := by
    intro r hr; exact hok r (by simp [initRunsAux, hrunne, hr])
  have hy : v' ++ render rest ≠ [] := by
    cases rest with
    | nil =>
      have := tailOk_init_word j _ [] ht rfl
      cases v' with
      | nil => simp at this
      | cons x y => simp
    | cons t rest' =>
      simp only [List.all_cons, Bool.and_eq_true] at hwf
      obtain ⟨x, tl, e, _⟩ := wf_head_upper hwf.1
      simp [render_cons, e]
  simp only [List.all_cons, Bool.and_eq_true] at hU
  rw [render_cons, expected_cons]
  simp only [Tok.str, List.cons_append]
  rw [goLoop_run_word inits us hU.2 c d _ hc hd hy (some u) [u] acc
    (by simp [prevLower, not_lower_of_upper u hU.1]) (by simp) (by simp [hU.1])]
  have : [u] ++ us = run.flatten := by simpa using hflat
  rw [this, hrun,
    word_tail inits rest hA c d v' hv (some c) _ hok' (tailOk_tail _ _ (tailOk_tail _ _ ht))]
  simp

theorem tokens_inv (inits : List Str) (rest : List Tok) (hwf : rest.all Tok.wf = true) :
    AfterWord inits rest ∧ InRun inits rest := by
  induction rest with
  | nil => exact ⟨afterWord_nil inits, inRun_nil inits⟩
  | cons t rest ih =>
    simp only [List.all_cons, Bool.and_eq_true] at hwf
    obtain ⟨ihA, ihB⟩ := ih hwf.2
    cases t with
    | word v => exact ⟨afterWord_word inits rest ihA v hwf.1, inRun_word inits rest ihA hwf.2 v hwf.1⟩
    | init i => exact ⟨afterWord_init inits rest ihB i hwf.1, inRun_init inits rest ihB i hwf.1⟩

/-! ### the start state -/

theorem goLoop_start_word (inits : List Str) (c d : Char) (y : Str) (hc : isUpperA c = true) :
    goLoop inits usB none (c :: d :: y) [] [] = goLoop inits usB (some c) (d :: y) [c] [] := by
  rw [goLoop]
  cases hfa : firstAfterInitialism c (d :: y) <;>
    simp [prevLower, upper_ne_underscore c hc, flushWord]

theorem goLoop_start_upper (inits : List Str) (u : Char) (tl : Str) (hu : isUpperA u = true)
    (hfa : firstAfterInitialism u tl = false) :
    goLoop inits usB none (u :: tl) [] [] = goLoop inits usB (some u) tl [u] [] := by
  rw [goLoop]
  simp [prevLower, hfa, upper_ne_underscore u hu]

theorem render_head_not_lower (rest : List Tok) (hwf : rest.all Tok.wf = true) :
    ∀ r2 tl, render rest = r2 :: tl → isLowerA r2 = false := by
  intro r2 tl e
  cases rest with
  | nil => simp [render] at e
  | cons t rest =>
    simp only [List.all_cons, Bool.and_eq_true] at hwf
    obtain ⟨x, tl', e', hx⟩ := wf_head_upper hwf.1
    rw [render_cons, e'] at e
    simp only [List.cons_append, List.cons.injEq] at e
    rw [← e.1]; exact not_lower_of_upper x hx

/-- On a good identifier, the Go-camel-case loop returns exactly the lower-cased tokens. -/
theorem goLoop_good (inits : List Str) (ts : List Tok) (h : GoodIdent inits ts = true) :
    goLoop inits (fun c => c == '_') none (render ts) [] [] = expected ts := by
  simp only [GoodIdent, Bool.and_eq_true] at h
  obtain ⟨⟨⟨hne, hwf⟩, hruns⟩, ht⟩ := h
  have hok : ∀ r ∈ initRunsAux ts [], OkRun inits r := by
    intro r hr
    simp only [runsOk, initRuns, List.all_eq_true] at hruns
    exact eq_of_beq (hruns r hr)
  cases ts with
  | nil => simp at hne
  | cons t rest =>
    simp only [List.all_cons, Bool.and_eq_true] at hwf
    obtain ⟨hA, hB⟩ := tokens_inv inits rest hwf.2
    cases t with
    | word v =>
      obtain ⟨c, d, v', e, hc, hd, hv'⟩ := capWord_cases hwf.1
      subst e
      rw [render_cons, expected_cons]
      simp only [Tok.str, List.cons_append]
      rw [goLoop_start_word inits c d _ hc,
        word_tail inits rest hA c d v' hwf.1 (some c) []
          (by intro r hr; exact hok r (by simpa [initRunsAux] using hr)) (tailOk_tail _ _ ht)]
      simp
    | init i =>
      obtain ⟨u, us, e, hU⟩ := initStr_cases hwf.1
      subst e
      have hU' := hU
      simp only [List.all_cons, Bool.and_eq_true] at hU'
      have hhead : ∀ r2 tl, us ++ render rest = r2 :: tl → isLowerA r2 = false := by
        intro r2 tl e
        cases us with
        | nil => exact render_head_not_lower rest hwf.2 r2 tl (by simpa using e)
        | cons q r =>
          simp only [List.cons_append, List.cons.injEq] at e
          have := hU'.2; simp only [List.all_cons, Bool.and_eq_true] at this
          rw [← e.1]; exact not_lower_of_upper q this.1
      rw [render_cons, expected_cons]
      simp only [Tok.str, List.cons_append]
      rw [goLoop_start_upper inits u _ hU'.1 (firstAfter_false_of_head u _ hhead),
        hB [u :: us] u us [] (u :: us) (by simp) (by simp) hU
          (by intro r hr; exact hok r (by simpa [initRunsAux] using hr)) ht]
      simp

/-! ### `isIdentifier` -/

def startsLower (k : String) : Bool :=
  match k.toList with
  | c :: _ => isLowerA c
  | [] => false

theorem goKeywords_startLower : goKeywords.all startsLower = true := by decide

theorem not_keyword_of_upper (c : Char) (cs : Str) (hc : isUpperA c = true) :
    goKeywords.contains (String.ofList (c :: cs)) = false := by
  cases hk : goKeywords.contains (String.ofList (c :: cs)) with
  | false => rfl
  | true =>
    have hmem := List.contains_iff_mem.1 hk
    have := List.all_eq_true.1 goKeywords_startLower _ hmem
    simp only [startsLower, String.toList_ofList] at this
    rw [not_lower_of_upper c hc] at this
    cases this

theorem tok_all_letters {t : Tok} (h : t.wf = true) : t.str.all isLetterA = true := by
  cases t with
  | word w =>
    obtain ⟨c, d, w', e, hc, hd, hw'⟩ := capWord_cases h
    subst e
    simp only [Tok.str, List.all_cons, isLetterA, hc, hd, Bool.true_or, Bool.or_true, Bool.true_and]
    rw [List.all_eq_true] at hw' ⊢
    intro x hx; simp [isLetterA, hw' x hx]
  | init i =>
    have hi : i.all isUpperA = true := by
      simp only [Tok.wf, isInitStr, Bool.and_eq_true] at h; exact h.2
    simp only [Tok.str]
    rw [List.all_eq_true] at hi ⊢
    intro x hx; simp [isLetterA, hi x hx]

theorem render_all_letters (ts : List Tok) (hwf : ts.all Tok.wf = true) :
    (render ts).all isLetterA = true := by
  induction ts with
  | nil => rfl
  | cons t ts ih =>
    simp only [List.all_cons, Bool.and_eq_true] at hwf
    rw [render_cons, List.all_append, tok_all_letters hwf.1, ih hwf.2]; rfl

theorem isIdentifier_good (inits : List Str) (ts : List Tok) (h : GoodIdent inits ts = true) :
    isIdentifier (render ts) = true := by
  simp only [GoodIdent, Bool.and_eq_true] at h
  obtain ⟨⟨⟨hne, hwf⟩, _⟩, _⟩ := h
  have hall := render_all_letters ts hwf
  cases ts with
  | nil => simp at hne
  | cons t rest =>
    have hwf' := hwf
    simp only [List.all_cons, Bool.and_eq_true] at hwf'
    obtain ⟨c, tl, e, hc⟩ := wf_head_upper hwf'.1
    rw [render_cons, e, List.cons_append] at hall ⊢
    simp only [List.all_cons, Bool.and_eq_true] at hall
    have htl : (tl ++ render rest).all (fun d => isLetterA d || d == '_' || isDigitA d) = true := by
      have h2 := hall.2
      rw [List.all_eq_true] at h2 ⊢
      intro x hx; simp [h2 x hx]
    simp only [isIdentifier, hall.1, Bool.true_or, htl, not_keyword_of_upper c _ hc, Bool.not_false,
      Bool.and_self]

/-- … and so does the public decoder (an identifier that starts with an upper-case letter is a valid
Go identifier and not a keyword). -/
theorem decodeGoCamelWith_good (inits : List Str) (ts : List Tok) (h : GoodIdent inits ts = true) :
    decodeGoCamelWith inits (render ts) = some (expected ts) := by
  simp only [decodeGoCamelWith, isIdentifier_good inits ts h, if_true, goLoop_good inits ts h]

end Dials.CaseConv
