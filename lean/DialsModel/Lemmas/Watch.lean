/-
Helper lemmas about the watch-loop model (Model/Watch.lean) used by Props/C17.lean.
-/
import DialsModel.Model.Watch

namespace Dials.Watch

variable {V : Type}

/-! ### reports / lastReported / errorsReported over appended action lists -/

theorem reports_append (a b : List (Action V)) : reports (a ++ b) = reports a ++ reports b := by
  induction a with
  | nil => rfl
  | cons x xs ih => cases x <;> simp [reports, ih]

theorem errorsReported_append (a b : List (Action V)) :
    errorsReported (a ++ b) = errorsReported a ++ errorsReported b := by
  induction a with
  | nil => rfl
  | cons x xs ih => cases x <;> simp [errorsReported, ih]

theorem lastReported_append (v0 : V) (a b : List (Action V)) :
    lastReported v0 (a ++ b) = lastReported (lastReported v0 a) b := by
  unfold lastReported
  rw [reports_append, List.getLast?_append]
  cases (reports b).getLast? <;> simp

theorem lastReported_of_reports_nil (v0 : V) (a : List (Action V)) (h : reports a = []) :
    lastReported v0 a = v0 := by
  simp [lastReported, h]

theorem lastReported_of_reports_single (v0 v : V) (a : List (Action V)) (h : reports a = [v]) :
    lastReported v0 a = v := by
  simp [lastReported, h]

/-! ### the pieces of an iteration report nothing by themselves -/

theorem reports_missingStep (c : Cfg) (w : Bool) (e : Env) : reports (missingStep (V := V) c w e).2 = [] := by
  unfold missingStep; split <;> simp [reports]

theorem errors_missingStep (c : Cfg) (w : Bool) (e : Env) :
    errorsReported (missingStep (V := V) c w e).2 = [] := by
  unfold missingStep; split <;> simp [errorsReported]

theorem reports_fileWatchStep (c : Cfg) (w : Bool) (e : Env) : reports (fileWatchStep (V := V) c w e).2 = [] := by
  unfold fileWatchStep; split <;> simp [reports]

theorem errors_fileWatchStep (c : Cfg) (w : Bool) (e : Env) :
    errorsReported (fileWatchStep (V := V) c w e).2 = [] := by
  unfold fileWatchStep; split <;> simp [errorsReported]

theorem reports_dirWatchStep (w o n : Path) (e : Env) : reports (dirWatchStep (V := V) w o n e) = [] := by
  unfold dirWatchStep
  repeat' split
  all_goals simp [reports]

theorem errors_dirWatchStep (w o n : Path) (e : Env) : errorsReported (dirWatchStep (V := V) w o n e) = [] := by
  unfold dirWatchStep
  repeat' split
  all_goals simp [errorsReported]

/-! ### classification (regenerated arms F15l) -/

theorem reports_classify (r : VRes V) :
    reports (classify r) = match r with
      | .ok v => [v]
      | _ => [] := by
  cases r with
  | ok v => simp [classify, armAction, Facts.watchArmNil, reports]
  | unchanged => simp [classify, armAction, Facts.watchArmUnchanged, reports]
  | decErr => simp [classify, armAction, Facts.watchArmDefault, reports]
  | openErr ne sc =>
    cases sc <;> cases ne <;> simp [classify, armAction, Facts.watchArmDefault, Facts.watchArmSyscall, reports]

theorem errors_classify (r : VRes V) :
    errorsReported (classify r) = match r with
      | .ok _ => []
      | .unchanged => []
      | .decErr => [.decoder]
      | .openErr ne sc => if sc && ne then [] else [.openE] := by
  cases r with
  | ok v => simp [classify, armAction, Facts.watchArmNil, errorsReported]
  | unchanged => simp [classify, armAction, Facts.watchArmUnchanged, errorsReported]
  | decErr => simp [classify, armAction, Facts.watchArmDefault, errorsReported]
  | openErr ne sc =>
    cases sc <;> cases ne <;> simp [classify, armAction, Facts.watchArmDefault, Facts.watchArmSyscall, errorsReported]

/-! ### `Source.Value` (regenerated orders F15a–c) -/

theorem value_openErr (dec : Bytes → Option V) (last : Option Bytes) (ne sc : Bool) :
    value dec last (.openErr ne sc) = (last, .openErr ne sc) := rfl

theorem value_decErr (dec : Bytes → Option V) (last : Option Bytes) (b : Bytes) (h : dec b = none) :
    value dec last (.content b) = (last, .decErr) := by
  simp [value, h, Facts.fileDecodeErrBeforeChecksum]

theorem value_same (dec : Bytes → Option V) (b : Bytes) (v : V) (h : dec b = some v) :
    value dec (some b) (.content b) = (some b, .unchanged) := by
  simp [value, h, Facts.fileUnchangedWhenEqual]

theorem value_new (dec : Bytes → Option V) (last : Option Bytes) (b : Bytes) (v : V) (h : dec b = some v)
    (hne : last ≠ some b) : value dec last (.content b) = (some b, .ok v) := by
  simp [value, h, Facts.fileUnchangedWhenEqual, hne]

/-- the result of `Value` satisfies `os.IsNotExist` only for a not-exist error of `os.Open` -/
theorem value_isNotExist (dec : Bytes → Option V) (last : Option Bytes) (r : Read) :
    (value dec last r).2.isNotExist = match r with
      | .openErr ne _ => ne
      | .content _ => false := by
  cases r with
  | openErr ne sc => rfl
  | content b =>
    simp only [value]
    cases dec b with
    | none => rfl
    | some v => dsimp only; split <;> rfl

theorem found_iff (dec : Bytes → Option V) (l : Option Bytes) (r : Read) :
    (value dec l r).2.isNotExist = !found r := by
  rw [value_isNotExist]
  cases r with
  | openErr ne sc => cases ne <;> rfl
  | content b => rfl

/-- The content of the most recent read that decoded (what `lastHMACSHA256` remembers). -/
def lastDecoded (dec : Bytes → Option V) (last : Option Bytes) : List Read → Option Bytes
  | [] => last
  | .content b :: rs => lastDecoded dec (if (dec b).isSome then some b else last) rs
  | .openErr _ _ :: rs => lastDecoded dec last rs

theorem value_lastSum (dec : Bytes → Option V) (last : Option Bytes) (r : Read) :
    (value dec last r).1 = lastDecoded dec last [r] := by
  cases r with
  | openErr ne sc => rfl
  | content b =>
    cases h : dec b with
    | none => simp [value, h, lastDecoded, Facts.fileDecodeErrBeforeChecksum]
    | some v => simp [value, h, lastDecoded]

theorem lastDecoded_append (dec : Bytes → Option V) (last : Option Bytes) (a b : List Read) :
    lastDecoded dec last (a ++ b) = lastDecoded dec (lastDecoded dec last a) b := by
  induction a generalizing last with
  | nil => rfl
  | cons x xs ih => cases x <;> simp [lastDecoded, ih]

/-! ### one iteration: the two branches, remembered checksum, reports, errors -/

theorem iter_missing (dec : Bytes → Option V) (c : Cfg) (s : WState) (r : IterRead)
    (h : (value dec s.lastSum r.val).2.isNotExist = true) :
    iter dec c s r =
      ({ s with lastSum := (value dec s.lastSum r.val).1,
                watchingFile := (missingStep (V := V) c s.watchingFile r.env).1,
                watches := applyWatches s.watches (missingStep (V := V) c s.watchingFile r.env).2 },
       (missingStep c s.watchingFile r.env).2) := by
  simp [iter, h, Facts.watchSkipsMissing]

theorem iter_found (dec : Bytes → Option V) (c : Cfg) (s : WState) (r : IterRead)
    (h : (value dec s.lastSum r.val).2.isNotExist = false) :
    iter dec c s r =
      ({ lastSum := (value dec s.lastSum r.val).1,
         watchingFile := (fileWatchStep (V := V) c s.watchingFile r.env).1,
         resolved := r.env.resolved.getD s.resolved,
         watches := applyWatches s.watches ((fileWatchStep (V := V) c s.watchingFile r.env).2 ++
            dirWatchStep (dirOf c.cleaned) (dirOf s.resolved) (dirOf (r.env.resolved.getD s.resolved)) r.env) },
       (fileWatchStep c s.watchingFile r.env).2 ++
          dirWatchStep (dirOf c.cleaned) (dirOf s.resolved) (dirOf (r.env.resolved.getD s.resolved)) r.env ++
          classify (value dec s.lastSum r.val).2) := by
  simp [iter, h]

theorem iter_lastSum (dec : Bytes → Option V) (c : Cfg) (s : WState) (r : IterRead) :
    (iter dec c s r).1.lastSum = (value dec s.lastSum r.val).1 := by
  cases h : (value dec s.lastSum r.val).2.isNotExist with
  | true => rw [iter_missing dec c s r h]
  | false => rw [iter_found dec c s r h]

theorem iter_reports (dec : Bytes → Option V) (c : Cfg) (s : WState) (r : IterRead) :
    reports (iter dec c s r).2 = match (value dec s.lastSum r.val).2 with
      | .ok v => [v]
      | _ => [] := by
  cases h : (value dec s.lastSum r.val).2.isNotExist with
  | true =>
    rw [iter_missing dec c s r h]
    simp only [reports_missingStep]
    cases hv : (value dec s.lastSum r.val).2 with
    | ok v => simp [hv, VRes.isNotExist] at h
    | unchanged => rfl
    | decErr => rfl
    | openErr ne sc => rfl
  | false =>
    rw [iter_found dec c s r h]
    simp only [reports_append, reports_fileWatchStep, reports_dirWatchStep, reports_classify, List.nil_append]

theorem iter_errors (dec : Bytes → Option V) (c : Cfg) (s : WState) (r : IterRead) :
    errorsReported (iter dec c s r).2 = match (value dec s.lastSum r.val).2 with
      | .ok _ => []
      | .unchanged => []
      | .decErr => [.decoder]
      | .openErr ne _ => if ne then [] else [.openE] := by
  cases h : (value dec s.lastSum r.val).2.isNotExist with
  | true =>
    rw [iter_missing dec c s r h]
    simp only [errors_missingStep]
    cases hv : (value dec s.lastSum r.val).2 with
    | ok v => simp [hv, VRes.isNotExist] at h
    | unchanged => simp [hv, VRes.isNotExist] at h
    | decErr => simp [hv, VRes.isNotExist] at h
    | openErr ne sc =>
      rw [hv] at h
      simp only [VRes.isNotExist] at h
      simp [h]
  | false =>
    rw [iter_found dec c s r h]
    simp only [errorsReported_append, errors_fileWatchStep, errors_dirWatchStep, errors_classify, List.nil_append]
    cases hv : (value dec s.lastSum r.val).2 with
    | ok v => rfl
    | unchanged => rfl
    | decErr => rfl
    | openErr ne sc =>
      rw [hv] at h
      simp only [VRes.isNotExist] at h
      simp [h]

/-! ### repeating an iteration with the same reads -/

theorem value_idem_fst (dec : Bytes → Option V) (l : Option Bytes) (r : Read) :
    (value dec (value dec l r).1 r).1 = (value dec l r).1 := by
  simp only [value_lastSum]
  cases r with
  | openErr ne sc => rfl
  | content b => cases h : (dec b).isSome <;> simp [lastDecoded, h]

theorem value_idem_notExist (dec : Bytes → Option V) (l : Option Bytes) (r : Read) :
    (value dec (value dec l r).1 r).2.isNotExist = (value dec l r).2.isNotExist := by
  simp only [value_isNotExist]

theorem value_idem_not_ok (dec : Bytes → Option V) (l : Option Bytes) (r : Read) (v : V) :
    (value dec (value dec l r).1 r).2 ≠ .ok v := by
  cases r with
  | openErr ne sc => simp [value]
  | content b =>
    cases hd : dec b with
    | none => simp [value_decErr dec _ _ hd]
    | some w =>
      have h1 : (value dec l (.content b)).1 = some b := by simp [value, hd]
      rw [h1, value_same dec _ w hd]
      simp

theorem applyWatches_nil (w : List Path) : applyWatches (V := V) w [] = w := rfl

theorem applyWatches_append (w : List Path) (a b : List (Action V)) :
    applyWatches w (a ++ b) = applyWatches (applyWatches w a) b := by
  simp [applyWatches, List.foldl_append]

theorem missingStep_idem (c : Cfg) (wf : Bool) (e : Env) :
    missingStep (V := V) c (missingStep (V := V) c wf e).1 e = ((missingStep (V := V) c wf e).1, []) := by
  cases wf <;> simp [missingStep, Facts.watchMissingRemovesFileWatch]

theorem fileWatchStep_idem (c : Cfg) (wf : Bool) (e : Env) (w : List Path) :
    (fileWatchStep (V := V) c (fileWatchStep (V := V) c wf e).1 e).1 = (fileWatchStep (V := V) c wf e).1 ∧
    applyWatches w (fileWatchStep (V := V) c (fileWatchStep (V := V) c wf e).1 e).2 = w := by
  cases wf <;> cases h : e.addFileOk <;> simp [fileWatchStep, h, applyWatches, applyWatch]

theorem dirWatchStep_same (w p : Path) (e : Env) : dirWatchStep (V := V) w p p e = [] := by
  simp [dirWatchStep, Facts.dirWatchSkipWhenEqual]

theorem getD_getD (o : Option Path) (p : Path) : o.getD (o.getD p) = o.getD p := by
  cases o <;> rfl

theorem iter_idem_state (dec : Bytes → Option V) (c : Cfg) (s : WState) (r : IterRead) :
    (iter dec c (iter dec c s r).1 r).1 = (iter dec c s r).1 := by
  cases h : (value dec s.lastSum r.val).2.isNotExist with
  | true =>
    have h2 : (value dec (iter dec c s r).1.lastSum r.val).2.isNotExist = true := by
      rw [iter_lastSum, value_idem_notExist, h]
    rw [iter_missing dec c _ r h2, iter_lastSum, value_idem_fst]
    rw [iter_missing dec c s r h]
    simp only [missingStep_idem, applyWatches_nil]
  | false =>
    have h2 : (value dec (iter dec c s r).1.lastSum r.val).2.isNotExist = false := by
      rw [iter_lastSum, value_idem_notExist, h]
    rw [iter_found dec c _ r h2, iter_lastSum, value_idem_fst]
    rw [iter_found dec c s r h]
    simp only [getD_getD, dirWatchStep_same, List.append_nil, (fileWatchStep_idem c s.watchingFile r.env _).2]
    rw [(fileWatchStep_idem (V := V) c s.watchingFile r.env s.watches).1]

/-! ### the watch table -/

theorem mem_applyWatch_add (w : List Path) (p q : Path) :
    q ∈ applyWatch (V := V) w (.addWatch p true) ↔ q ∈ w ∨ q = p := by
  show (q ∈ if p ∈ w then w else w ++ [p]) ↔ _
  by_cases h : p ∈ w
  · simp only [h, if_true]
    constructor
    · intro hq; exact Or.inl hq
    · intro hq
      cases hq with
      | inl h1 => exact h1
      | inr h1 => rw [h1]; exact h
  · simp [h]

theorem applyWatch_add_failed (w : List Path) (p : Path) : applyWatch (V := V) w (.addWatch p false) = w := rfl

theorem mem_applyWatch_remove (w : List Path) (p q : Path) (ok : Bool) :
    q ∈ applyWatch (V := V) w (.removeWatch p ok) ↔ q ∈ w ∧ q ≠ p := by
  simp [applyWatch]

/-- `updateDirWatches` never drops the watch on the config file's own directory (F15f4), whatever the OS answers. -/
theorem own_mem_dirWatchStep (own old new : Path) (e : Env) (w : List Path) (h : own ∈ w) :
    own ∈ applyWatches (V := V) w (dirWatchStep own old new e) := by
  by_cases h1 : old = new
  · subst h1
    rw [dirWatchStep_same]
    exact h
  · cases ha : e.addDirOk with
    | false =>
      have hD : dirWatchStep (V := V) own old new e = [.addWatch new false] := by
        simp [dirWatchStep, h1, ha, Facts.dirWatchAddBeforeRemove, Facts.dirWatchKeepOldOnAddErr]
      rw [hD]
      exact h
    | true =>
      by_cases h2 : old = own
      · subst h2
        have hD : dirWatchStep (V := V) old old new e = [.addWatch new true] := by
          simp [dirWatchStep, h1, ha, Facts.dirWatchAddBeforeRemove, Facts.dirWatchKeepsOwnDir]
        rw [hD]
        show old ∈ applyWatch w (Action.addWatch (V := V) new true)
        rw [mem_applyWatch_add]
        exact Or.inl h
      · have hD : dirWatchStep (V := V) own old new e = [.addWatch new true, .removeWatch old e.rmDirOk] := by
          simp [dirWatchStep, h1, ha, h2, Facts.dirWatchAddBeforeRemove]
        rw [hD]
        show own ∈ applyWatch (applyWatch w (Action.addWatch (V := V) new true)) (Action.removeWatch (V := V) old e.rmDirOk)
        rw [mem_applyWatch_remove, mem_applyWatch_add]
        exact ⟨Or.inl h, fun h3 => h2 h3.symm⟩

theorem mem_fileWatchStep (c : Cfg) (wf : Bool) (e : Env) (w : List Path) (q : Path) (h : q ∈ w) :
    q ∈ applyWatches (V := V) w (fileWatchStep (V := V) c wf e).2 := by
  cases wf with
  | true => simpa [fileWatchStep, applyWatches] using h
  | false =>
    cases ha : e.addFileOk with
    | false => simpa [fileWatchStep, ha, applyWatches, applyWatch] using h
    | true =>
      have e1 : (fileWatchStep (V := V) c false e).2 = [.addWatch c.cleaned true] := by simp [fileWatchStep, ha]
      rw [e1]
      show q ∈ applyWatch w (Action.addWatch (V := V) c.cleaned true)
      rw [mem_applyWatch_add]
      exact Or.inl h

/-- one pass keeps the watch on the config file's own directory -/
theorem own_dir_step (dec : Bytes → Option V) (c : Cfg) (s : WState) (r : IterRead)
    (hcfg : dirOf c.cleaned ≠ c.cleaned) (h : dirOf c.cleaned ∈ s.watches) :
    dirOf c.cleaned ∈ (iter dec c s r).1.watches := by
  cases hm : (value dec s.lastSum r.val).2.isNotExist with
  | true =>
    rw [iter_missing dec c s r hm]
    cases hw : s.watchingFile with
    | false =>
      have e : missingStep (V := V) c false r.env = (false, []) := by simp [missingStep]
      rw [e]
      exact h
    | true =>
      have e : missingStep (V := V) c true r.env = (false, [.removeWatch c.cleaned r.env.rmFileOk]) := by
        simp [missingStep, Facts.watchMissingRemovesFileWatch]
      rw [e]
      show dirOf c.cleaned ∈ applyWatch s.watches (Action.removeWatch (V := V) c.cleaned r.env.rmFileOk)
      rw [mem_applyWatch_remove]
      exact ⟨h, hcfg⟩
  | false =>
    rw [iter_found dec c s r hm]
    show dirOf c.cleaned ∈ applyWatches s.watches _
    rw [applyWatches_append]
    exact own_mem_dirWatchStep _ _ _ _ _ (mem_fileWatchStep c _ _ _ _ h)

/-! ### runs -/

theorem run_nil (dec : Bytes → Option V) (c : Cfg) (s : WState) : run dec c s [] = (s, []) := rfl

theorem run_cons (dec : Bytes → Option V) (c : Cfg) (s : WState) (r : IterRead) (rs : List IterRead) :
    run dec c s (r :: rs) = ((run dec c (iter dec c s r).1 rs).1, (iter dec c s r).2 ++ (run dec c (iter dec c s r).1 rs).2) := rfl

theorem run_append (dec : Bytes → Option V) (c : Cfg) (s : WState) (a b : List IterRead) :
    run dec c s (a ++ b) =
      ((run dec c (run dec c s a).1 b).1, (run dec c s a).2 ++ (run dec c (run dec c s a).1 b).2) := by
  induction a generalizing s with
  | nil => simp [run_nil]
  | cons x xs ih =>
    simp only [List.cons_append, run_cons, ih, List.append_assoc]

theorem run_single (dec : Bytes → Option V) (c : Cfg) (s : WState) (r : IterRead) :
    run dec c s [r] = iter dec c s r := by
  simp [run_cons, run_nil]

theorem run_lastSum (dec : Bytes → Option V) (c : Cfg) (s : WState) (rs : List IterRead) :
    (run dec c s rs).1.lastSum = lastDecoded dec s.lastSum (rs.map (·.val)) := by
  induction rs generalizing s with
  | nil => rfl
  | cons r rs ih =>
    rw [run_cons]
    simp only [ih, iter_lastSum, value_lastSum, List.map_cons]
    rw [← lastDecoded_append]
    rfl

end Dials.Watch
