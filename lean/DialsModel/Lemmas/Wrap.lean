/-
Helper lemmas for C20 (source wrappers).  The lemmas `step_*` are where the regenerated facts
F16*/F18* are consumed: they state what the model does for the code as found; if a fact changes
they no longer check.
-/
import DialsModel.Model.Wrap

namespace Dials.Wrap

/-! ### transforming wrappers -/

section
variable {Ty Ty' Val Val' : Type} [Inhabited Ty'] [Inhabited Val'] [Inhabited Val]

/-- the explicit three-step pipeline, for rules that return every error -/
def pipeline (p1 p2 p3 : String) (X : Xf Ty Ty' Val Val') (inner : Ty' → Outcome Val') (T : Ty) : Outcome Val :=
  match X.translate T with
  | .ok T' =>
    (match inner T' with
     | .ok v' =>
       (match X.reverse T v' with
        | .ok v => .ok v
        | .err c => .err (p3 ++ c)
        | .panic c => .panic c)
     | .err c => .err (p2 ++ c)
     | .panic c => .panic c)
  | .err c => .err (p1 ++ c)
  | .panic c => .panic c

theorem wrappedValue_eq_pipeline (R : Rules) {p1 p2 p3 : String}
    (h1 : R.translate = some p1) (h2 : R.inner = some p2) (h3 : R.reverse = some p3)
    (X : Xf Ty Ty' Val Val') (inner : Ty' → Outcome Val') (T : Ty) :
    wrappedValue R X inner T = pipeline p1 p2 p3 X inner T := by
  unfold wrappedValue pipeline guard
  rw [h1, h2, h3]
  cases X.translate T with
  | ok T' =>
    simp only
    cases inner T' with
    | ok v' =>
      simp only
      cases X.reverse T v' <;> rfl
    | err c => rfl
    | panic c => rfl
  | err c => rfl
  | panic c => rfl

theorem srcRules_some : ∃ p1 p2 p3, srcRules.translate = some p1 ∧ srcRules.inner = some p2 ∧ srcRules.reverse = some p3 :=
  ⟨_, _, _, rfl, rfl, rfl⟩

theorem decRules_some : ∃ p1 p2 p3, decRules.translate = some p1 ∧ decRules.inner = some p2 ∧ decRules.reverse = some p3 :=
  ⟨_, _, _, rfl, rfl, rfl⟩

omit [Inhabited Val'] [Inhabited Val] in
theorem wrappedWatch_eq : ∃ p1 p2 : String, ∀ (X : Xf Ty Ty' Val Val') (innerWatch : Ty' → Outcome Unit) (T : Ty),
    wrappedWatch X innerWatch T =
      match X.translate T with
      | .ok T' =>
        (match innerWatch T' with
         | .ok _ => .ok ()
         | .err c => .err (p2 ++ c)
         | .panic c => .panic c)
      | .err c => .err (p1 ++ c)
      | .panic c => .panic c := by
  have h1 : ∃ p, Facts.wrapWatchTranslateErr = some p := ⟨_, rfl⟩
  have h2 : ∃ p, Facts.wrapWatchInnerErr = some p := ⟨_, rfl⟩
  obtain ⟨p1, h1⟩ := h1
  obtain ⟨p2, h2⟩ := h2
  refine ⟨p1, p2, ?_⟩
  intro X innerWatch T
  unfold wrappedWatch guard
  rw [h1, h2]
  cases X.translate T with
  | ok T' => simp only; cases innerWatch T' <;> rfl
  | err c => rfl
  | panic c => rfl

/-- fact F16e as found: the inner watcher holds the wrapping args -/
theorem watchOverrides_eq : watchOverrides = Facts.wrapOverrides := by
  simp [watchOverrides, Facts.wrapWatchPassesWrappedArgs]

omit [Inhabited Ty'] [Inhabited Val'] in
/-- one call on the wrapped args, for the method set as found -/
theorem wrappedCall_fst (X : Xf Ty Ty' Val Val') (T : Ty) (under : Msg Val Val' → Outcome Unit) (c : Call Val') :
    (wrappedCall watchOverrides X T under c).1 = (native X T c).toList := by
  cases c with
  | report b v' =>
    cases b <;>
    · simp only [wrappedCall, overrideOf, watchOverrides_eq, Facts.wrapOverrides, reportName, native]
      cases X.reverse T v' <;> simp
  | done => simp [wrappedCall, overrideOf, watchOverrides_eq, Facts.wrapOverrides, native]
  | reportError e => simp [wrappedCall, overrideOf, watchOverrides_eq, Facts.wrapOverrides, native]

omit [Inhabited Ty'] [Inhabited Val'] in
theorem wrappedCall_report_snd (X : Xf Ty Ty' Val Val') (T : Ty) (under : Msg Val Val' → Outcome Unit) (b : Bool) (v' : Val') :
    ∃ p, (wrappedCall watchOverrides X T under (.report b v')).2 =
      match X.reverse T v' with
      | .ok v => under (.value b v)
      | .err c => .err (p ++ c)
      | .panic c => .panic c := by
  cases b <;>
  · simp only [wrappedCall, overrideOf, watchOverrides_eq, Facts.wrapOverrides, reportName]
    cases X.reverse T v' <;> simp

end

/-! ### Blank -/

theorem step_value (b : Blank) :
    step code b .value =
      match b.inner with
      | some s => (b, [.innerValue s.id], .innerResult s.id s.valueOk)
      | none => (b, [], .zeroValue) := by
  cases b with
  | mk inner wa t => cases inner <;> rfl

theorem step_watch (b : Blank) :
    step code b .watch =
      if b.t then (b, [], .error "blank has already been used") else ({ b with t := true, wa := true }, [], .nil) := by
  simp [step, code, Facts.blankWatchOnce]

theorem step_done (b : Blank) :
    step code b .done = (b, if b.wa && !b.innerIsWatcher then [.doneFwd] else [], .nil) := by
  simp only [step, code, Facts.blankDoneChecksWatcher, Facts.blankDoneChecksNil]
  cases b.innerIsWatcher <;> cases b.wa <;> simp

theorem step_setSource_nil (b : Blank) (rep : Bool) :
    (step code b (.setSource none rep)).1 = b ∧ (step code b (.setSource none rep)).2.1 = [] ∧
      (step code b (.setSource none rep)).2.2 ≠ .nil := by
  simp only [step, code, Facts.blankNilRefused]
  cases b.t <;> simp

/-- `SetSource(s)` for the code as found, branch by branch -/
def setSourceSpec (b : Blank) (s : Src) (rep : Bool) : Blank × List Ev × Ret :=
  if b.innerIsWatcher then (b, [], .error "disallowed attempt to replace Watcher Source")
  else if !s.valueOk then (b, [.innerValue s.id], .error "initial call to Value failed")
  else if !b.wa then ({ b with inner := some s }, [.innerValue s.id], .panic "nil WatchArgs")
  else if !rep then ({ b with inner := some s }, [.innerValue s.id, .report s.id true], .error "failed to propagate change")
  else if s.watcher then
    (if !s.watchOk then
      ({ b with inner := some s }, [.innerValue s.id, .report s.id true, .innerWatch s.id], .error "call to Watch failed")
     else ({ b with inner := some s }, [.innerValue s.id, .report s.id true, .innerWatch s.id], .nil))
  else ({ b with inner := some s }, [.innerValue s.id, .report s.id true], .nil)

theorem step_setSource_gen (C : BlankCode) (h1 : C.refusesWatcher = true) (h2 : C.valueErr.isSome = true)
    (h3 : C.assignPos = 1) (h4 : C.reportBlocking = true) (h5 : C.reportErr.isSome = true) (h6 : C.watchErr.isSome = true)
    (b : Blank) (s : Src) (rep : Bool) :
    step C b (.setSource (some s) rep) = setSourceSpec b s rep := by
  simp only [step, setSourceSpec, setSourceWatch, assignAt, h1, h2, h3, h4, h5, h6]
  cases b.innerIsWatcher <;> cases s.valueOk <;> cases hwa : b.wa <;> cases rep <;> cases s.watcher <;> cases s.watchOk <;>
    simp [hwa]

/-- the facts F18c–F18i as found: the watcher guard comes first, every error is returned, `b.inner = s` stands between
the Value check and the report, and the report is the blocking one -/
theorem step_setSource (b : Blank) (s : Src) (rep : Bool) :
    step code b (.setSource (some s) rep) = setSourceSpec b s rep :=
  step_setSource_gen code rfl rfl rfl (by decide) rfl rfl b s rep

theorem setSourceSpec_state (b : Blank) (s : Src) (rep : Bool) :
    (setSourceSpec b s rep).1 = if b.innerIsWatcher || !s.valueOk then b else { b with inner := some s } := by
  unfold setSourceSpec
  cases b.innerIsWatcher <;> cases s.valueOk <;> cases b.wa <;> cases rep <;> cases s.watcher <;> cases s.watchOk <;> simp

/-- `wa` and `t` are set together -/
theorem step_wa_t (b : Blank) (op : Op) (h : b.wa = b.t) : (step code b op).1.wa = (step code b op).1.t := by
  cases op with
  | value => rw [step_value]; cases b.inner <;> exact h
  | watch => rw [step_watch]; cases ht : b.t <;> simp [h, ht]
  | done => rw [step_done]; exact h
  | setSource s rep =>
    cases s with
    | none => rw [(step_setSource_nil b rep).1]; exact h
    | some s =>
      rw [step_setSource, setSourceSpec_state]
      split <;> simp [h]

theorem final_nil (C : BlankCode) (b : Blank) : final C b [] = b := rfl

theorem final_cons (C : BlankCode) (b : Blank) (op : Op) (ops : List Op) :
    final C b (op :: ops) = final C (step C b op).1 ops := rfl

theorem run_cons_snd (C : BlankCode) (b : Blank) (op : Op) (ops : List Op) :
    (run C b (op :: ops)).2 = ((step C b op).2.1, (step C b op).2.2) :: (run C (step C b op).1 ops).2 := rfl

theorem final_append (C : BlankCode) (b : Blank) (xs ys : List Op) :
    final C b (xs ++ ys) = final C (final C b xs) ys := by
  induction xs generalizing b with
  | nil => rfl
  | cons x xs ih => simp only [List.cons_append, final_cons]; exact ih _

theorem final_wa_t (b : Blank) (ops : List Op) (h : b.wa = b.t) : (final code b ops).wa = (final code b ops).t := by
  induction ops generalizing b with
  | nil => exact h
  | cons op ops ih => rw [final_cons]; exact ih _ (step_wa_t b op h)

/-- who holds the slot, starting from a Blank that may already have an inner source -/
def holderFrom (cur : Option Src) (cands : List Src) : Option Src :=
  match cur with
  | some c => if c.watcher then some c else (match holder cands with | some h => some h | none => some c)
  | none => holder cands

theorem holder_cons (s : Src) (cs : List Src) :
    holder (s :: cs) = if s.watcher then some s else (match holder cs with | some h => some h | none => some s) := by
  unfold holder
  cases hs : s.watcher with
  | true => simp [List.find?, hs]
  | false =>
    simp only [List.find?, hs, Bool.false_eq_true, if_false]
    cases hf : cs.find? (·.watcher) with
    | some w => simp
    | none =>
      simp only
      cases cs with
      | nil => simp
      | cons c cs' => simp [List.getLast?_cons_cons]; cases h : (c :: cs').getLast? <;> simp_all

theorem holderFrom_step (cur : Option Src) (s : Src) (cs : List Src)
    (hcur : (match cur with | some c => c.watcher | none => false) = false) :
    holderFrom cur (s :: cs) = holderFrom (some s) cs := by
  rw [holderFrom.eq_def, holderFrom.eq_def, holder_cons]
  cases cur with
  | none => simp
  | some c =>
    simp only at hcur
    simp only [hcur, Bool.false_eq_true, if_false]
    cases s.watcher <;> simp
    cases holder cs <;> simp

theorem holderFrom_watcher (c : Src) (h : c.watcher = true) (cs : List Src) : holderFrom (some c) cs = some c := by
  simp [holderFrom, h]

theorem final_inner (b : Blank) (ops : List Op) :
    (final code b ops).inner = holderFrom b.inner (candidates ops) := by
  induction ops generalizing b with
  | nil =>
    simp only [final_nil, candidates, holderFrom, holder]
    cases b.inner <;> simp
  | cons op ops ih =>
    rw [final_cons, ih]
    cases op with
    | value => rw [step_value]; cases hb : b.inner <;> simp [candidates, hb]
    | watch => rw [step_watch]; cases b.t <;> simp [candidates]
    | done => rw [step_done]; simp [candidates]
    | setSource s rep =>
      cases s with
      | none => rw [(step_setSource_nil b rep).1]; simp [candidates]
      | some s =>
        rw [step_setSource, setSourceSpec_state]
        cases hw : b.innerIsWatcher with
        | true =>
          simp only [Bool.true_or, if_true]
          unfold Blank.innerIsWatcher at hw
          cases hb : b.inner with
          | none => simp [hb] at hw
          | some c =>
            simp only [hb] at hw
            rw [holderFrom_watcher c hw, holderFrom_watcher c hw]
        | false =>
          cases hv : s.valueOk with
          | false => simp [candidates, hv]
          | true =>
            simp only [Bool.false_or, Bool.not_true, Bool.false_eq_true, if_false, candidates, hv, if_true]
            rw [holderFrom_step b.inner s (candidates ops)]
            unfold Blank.innerIsWatcher at hw
            exact hw

theorem holder_any_watcher (cs : List Src) :
    (match holder cs with | some s => s.watcher | none => false) = cs.any (·.watcher) := by
  induction cs with
  | nil => rfl
  | cons c cs ih =>
    rw [holder_cons]
    cases hc : c.watcher with
    | true => simp [hc]
    | false =>
      simp only [Bool.false_eq_true, if_false, List.any_cons, hc, Bool.false_or]
      rw [← ih]
      cases holder cs <;> simp [hc]

theorem final_wa (b : Blank) (ops : List Op) (h : b.wa = b.t) :
    (final code b ops).wa = (b.wa || watched ops) := by
  induction ops generalizing b with
  | nil => simp [final_nil, watched]
  | cons op ops ih =>
    rw [final_cons, ih _ (step_wa_t b op h)]
    cases op with
    | value => rw [step_value]; cases b.inner <;> simp [watched, Op.isWatch]
    | watch =>
      rw [step_watch]
      cases ht : b.t <;> simp [watched, Op.isWatch, h, ht]
    | done => rw [step_done]; simp [watched, Op.isWatch]
    | setSource s rep =>
      cases s with
      | none => rw [(step_setSource_nil b rep).1]; simp [watched, Op.isWatch]
      | some s =>
        rw [step_setSource, setSourceSpec_state]
        split <;> simp [watched, Op.isWatch]

end Dials.Wrap
