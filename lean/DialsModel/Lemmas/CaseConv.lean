/- Helper lemmas for Props/C19: the decoders' loops consume a word / a joined word list. -/
import DialsModel.Model.CaseConv
import DialsModel.Lemmas.Chars

namespace Dials.CaseConv

/-- a word over [a-z][a-z0-9]* -/
def isWord : Str → Bool
  | [] => false
  | c :: cs => isLowerA c && cs.all lowerOk

theorem lowerOk_cases {c : Char} (h : lowerOk c = true) : isLowerA c = true ∨ isDigitA c = true := by
  simpa [lowerOk] using h

theorem lowerOk_not_upper {c : Char} (h : lowerOk c = true) : isUpperA c = false := by
  rcases lowerOk_cases h with h | h
  · exact not_upper_of_lower c h
  · exact not_upper_of_digit c h

theorem lowerOk_alnum {c : Char} (h : lowerOk c = true) : isAlnum c = true := by
  rcases lowerOk_cases h with h | h <;> simp [isAlnum, isLetterA, h]

theorem lowerOk_toLower {c : Char} (h : lowerOk c = true) : toLowerA c = c :=
  toLowerA_of_not_upper c (lowerOk_not_upper h)

theorem lowerOk_lower_upper {c : Char} (h : lowerOk c = true) : toLowerA (toUpperA c) = c := by
  rcases lowerOk_cases h with h | h
  · exact toLowerA_toUpperA c h
  · rw [toUpperA_of_not_lower c (not_lower_of_digit c h), toLowerA_of_not_upper c (not_upper_of_digit c h)]

theorem lowerOk_upperOk_upper {c : Char} (h : lowerOk c = true) : upperOk (toUpperA c) = true := by
  rcases lowerOk_cases h with h | h
  · simp [upperOk, isUpperA_toUpperA c h]
  · rw [toUpperA_of_not_lower c (not_lower_of_digit c h)]; simp [upperOk, h]

theorem lowerOk_ne_us {c : Char} (h : lowerOk c = true) : (c == '_') = false := by
  rcases lowerOk_cases h with h | h
  · exact lower_ne_underscore c h
  · exact digit_ne_underscore c h

theorem lowerOk_ne_dash {c : Char} (h : lowerOk c = true) : (c == '-') = false := by
  rcases lowerOk_cases h with h | h
  · exact lower_ne_dash c h
  · exact digit_ne_dash c h

theorem upperOk_ne_us {c : Char} (h : upperOk c = true) : (c == '_') = false := by
  have : isUpperA c = true ∨ isDigitA c = true := by simpa [upperOk] using h
  rcases this with h | h
  · exact upper_ne_underscore c h
  · exact digit_ne_underscore c h

theorem lowerS_of_all_lowerOk (w : Str) (h : w.all lowerOk = true) : lowerS w = w := by
  induction w with
  | nil => rfl
  | cons c cs ih =>
    simp only [List.all_cons, Bool.and_eq_true] at h
    simp only [lowerS, List.map_cons] at *
    rw [lowerOk_toLower h.1, ih h.2]

theorem lowerS_upperS_of_all_lowerOk (w : Str) (h : w.all lowerOk = true) : lowerS (upperS w) = w := by
  induction w with
  | nil => rfl
  | cons c cs ih =>
    simp only [List.all_cons, Bool.and_eq_true] at h
    simp only [lowerS, upperS, List.map_cons] at *
    rw [lowerOk_lower_upper h.1, ih h.2]

theorem word_all_lowerOk {w : Str} (h : isWord w = true) : w.all lowerOk = true := by
  cases w with
  | nil => simp [isWord] at h
  | cons c cs =>
    simp only [isWord, Bool.and_eq_true] at h
    simp [List.all_cons, lowerOk, h.1, h.2]

theorem word_ne_nil {w : Str} (h : isWord w = true) : w ≠ [] := by
  cases w with
  | nil => simp [isWord] at h
  | cons c cs => simp

/-! ### camel -/

theorem camelLoop_tail (cs : Str) (h : cs.all lowerOk = true) (r cur : Str) :
    camelLoop (cs ++ r) cur = camelLoop r (cur ++ cs) := by
  induction cs generalizing cur with
  | nil => simp
  | cons c cs ih =>
    simp only [List.all_cons, Bool.and_eq_true] at h
    simp only [List.cons_append, camelLoop, lowerOk_alnum h.1, lowerOk_not_upper h.1]
    simp only [Bool.not_true, Bool.false_eq_true, if_false]
    rw [ih h.2]; simp

theorem camelLoop_words (ws : Words) (hne : ws ≠ []) (h : ∀ w ∈ ws, isWord w = true) (cur : Str) :
    camelLoop ((ws.map title).flatten) cur = some ((if cur.isEmpty then [] else [lowerS cur]) ++ ws) := by
  induction ws generalizing cur with
  | nil => exact absurd rfl hne
  | cons w ws ih =>
    have hw := h w (by simp)
    cases w with
    | nil => simp [isWord] at hw
    | cons c cs =>
      simp only [isWord, Bool.and_eq_true] at hw
      have hU := isUpperA_toUpperA c hw.1
      have hal : isAlnum (toUpperA c) = true := by simp [isAlnum, isLetterA, hU]
      have hword : lowerS (toUpperA c :: cs) = c :: cs := by
        simp only [lowerS, List.map_cons]
        rw [toLowerA_toUpperA c hw.1]
        have := lowerS_of_all_lowerOk cs hw.2
        simp only [lowerS] at this; rw [this]
      simp only [List.map_cons, List.flatten_cons, title, List.cons_append, camelLoop, hal, hU]
      simp only [Bool.not_true, Bool.false_eq_true, if_false, if_true]
      rw [camelLoop_tail cs hw.2]
      by_cases hws : ws = []
      · subst hws
        simp only [List.map_nil, List.flatten_nil, camelLoop, List.cons_append, List.nil_append, hword]
        cases cur <;> simp
      · rw [ih hws (fun w hw' => h w (by simp [hw']))]
        simp only [List.cons_append, List.nil_append, List.isEmpty_cons, Bool.false_eq_true, if_false, hword]
        cases cur <;> simp

/-! ### split-character decoders -/

theorem splitLoop_tail (sep : Char) (ok : Char → Bool) (k : Bool) (cs : Str)
    (h : ∀ c ∈ cs, ok c = true ∧ (c == sep) = false) (r cur : Str) :
    splitLoop sep ok k (cs ++ r) cur = splitLoop sep ok k r (cur ++ cs) := by
  induction cs generalizing cur with
  | nil => simp
  | cons c cs ih =>
    have hc := h c (by simp)
    simp only [List.cons_append, splitLoop, hc.1, hc.2]
    simp only [Bool.not_true, Bool.false_eq_true, if_false]
    rw [ih (fun c hc' => h c (by simp [hc']))]; simp

theorem splitLoop_join (sep : Char) (ok : Char → Bool) (k : Bool) (w : Str) (ws : Words)
    (h : ∀ v ∈ w :: ws, v ≠ [] ∧ ∀ c ∈ v, ok c = true ∧ (c == sep) = false) (cur : Str) :
    splitLoop sep ok k (joinWith sep (w :: ws)) cur = some (lowerS (cur ++ w) :: ws.map lowerS) := by
  induction ws generalizing w cur with
  | nil =>
    have hw := h w (by simp)
    have := splitLoop_tail sep ok k w hw.2 [] cur
    simp only [List.append_nil] at this
    simp only [joinWith, this, splitLoop, List.map_nil]
    have : (cur ++ w).isEmpty = false := by
      cases w with
      | nil => exact absurd rfl hw.1
      | cons a b => cases cur <;> simp
    simp [this]
  | cons w2 ws ih =>
    have hw := h w (by simp)
    simp only [joinWith]
    rw [splitLoop_tail sep ok k w hw.2]
    simp only [splitLoop, beq_self_eq_true, if_true]
    rw [ih w2 (fun v hv => h v (by simp at hv ⊢; rcases hv with hv | hv <;> simp [hv])) []]
    have : (cur ++ w).isEmpty = false := by
      cases w with
      | nil => exact absurd rfl hw.1
      | cons a b => cases cur <;> simp
    simp [this]

theorem map_lowerS_words (ws : Words) (h : ∀ w ∈ ws, isWord w = true) : ws.map lowerS = ws := by
  induction ws with
  | nil => rfl
  | cons w ws ih =>
    simp only [List.map_cons]
    rw [lowerS_of_all_lowerOk w (word_all_lowerOk (h w (by simp))), ih (fun v hv => h v (by simp [hv]))]

theorem map_lowerS_upperS_words (ws : Words) (h : ∀ w ∈ ws, isWord w = true) : (ws.map upperS).map lowerS = ws := by
  induction ws with
  | nil => rfl
  | cons w ws ih =>
    simp only [List.map_cons]
    rw [lowerS_upperS_of_all_lowerOk w (word_all_lowerOk (h w (by simp))), ih (fun v hv => h v (by simp [hv]))]

theorem badStart_join_false (sep : Char) (w : Str) (ws : Words) (c : Char) (cs : Str) (hw : w = c :: cs)
    (hc : isDigitA c = false) : badStart (joinWith sep (w :: ws)) = false := by
  subst hw
  cases ws <;> simp [joinWith, badStart, hc]

end Dials.CaseConv
