/-
Helper lemmas for C10 (Props/C10.lean): the Transformer's positional bookkeeping, the flatten
mangler's fuel conventions, and the nil-preservation of one layer / a chain.
-/
import DialsModel.Model.TfSpec

namespace Dials.Tf

/-! ### splitCounts -/

theorem splitCounts_flatten {α : Type} : ∀ (groups : List (List α)),
    splitCounts (groups.map List.length) groups.flatten = groups
  | [] => by simp [splitCounts]
  | g :: gs => by
    simp [splitCounts, List.take_left', List.drop_left', splitCounts_flatten gs]

/-! ### mapM' -/

theorem mapM'_ok_of_forall {α β} (f : α → Outcome β) (k : α → β) :
    ∀ (xs : List α), (∀ x ∈ xs, f x = .ok (k x)) → mapM' f xs = .ok (xs.map k)
  | [], _ => by simp [mapM']
  | x :: xs, h => by
    have h1 := h x (by simp)
    have h2 := mapM'_ok_of_forall f k xs (fun y hy => h y (by simp [hy]))
    simp [mapM', h1, h2]

/-- inversion of a successful `mapM'` on a cons -/
theorem mapM'_cons_ok {α β} {f : α → Outcome β} {x : α} {xs : List α} {r : List β}
    (h : mapM' f (x :: xs) = .ok r) :
    ∃ b bs, f x = .ok b ∧ mapM' f xs = .ok bs ∧ r = b :: bs := by
  simp only [mapM'] at h
  split at h
  · rename_i b hb
    split at h
    · rename_i bs hbs
      cases h
      exact ⟨b, bs, hb, hbs, rfl⟩
    · cases h
    · cases h
  · cases h
  · cases h

theorem mapM'_length {α β} {f : α → Outcome β} : ∀ {xs : List α} {r : List β},
    mapM' f xs = .ok r → r.length = xs.length
  | [], r, h => by simp [mapM'] at h; subst h; rfl
  | x :: xs, r, h => by
    obtain ⟨b, bs, _, hbs, rfl⟩ := mapM'_cons_ok h
    simp [mapM'_length hbs]

/-! ### sizes, pointer stripping -/

theorem stripPtrs_ne_ptr : ∀ (t e : Ty), stripPtrs t ≠ .ptr e
  | .ptr e', e => by simp only [stripPtrs]; exact stripPtrs_ne_ptr e' e
  | .struct _, _ => by simp [stripPtrs]
  | .basic _ _, _ => by simp [stripPtrs]
  | .dur, _ | .pdur, _ | .tu _, _ | .slice _, _ | .array _ _, _ | .map _ _, _ | .set _, _ => by
    simp [stripPtrs]

theorem tySize_stripPtrs_le : ∀ (t : Ty), tySize (stripPtrs t) ≤ tySize t
  | .ptr e => by
    have := tySize_stripPtrs_le e
    simp only [stripPtrs, tySize]; omega
  | .struct _ => by simp [stripPtrs]
  | .basic _ _ => by simp [stripPtrs]
  | .dur | .pdur | .tu _ | .slice _ | .array _ _ | .map _ _ | .set _ => by simp [stripPtrs]

theorem tySize_lt_of_mem_toList : ∀ (fs : Fields) (f : FT), f ∈ fs.toList → tySize f.2 < fieldsSize fs
  | .nil, f, h => by simp [Fields.toList] at h
  | .cons n tg a t r, f, h => by
    simp only [Fields.toList, List.mem_cons] at h
    simp only [fieldsSize]
    rcases h with h | h
    · subst h; simp; omega
    · have := tySize_lt_of_mem_toList r f h; omega

/-- the fields of the struct under `t`'s pointers are at least two smaller than `t` -/
theorem tySize_field_lt {t : Ty} {ifs : Fields} (hs : stripPtrs t = .struct ifs) {f : FT}
    (hf : f ∈ ifs.toList) : tySize f.2 + 2 ≤ tySize t := by
  have h1 := tySize_stripPtrs_le t
  rw [hs] at h1
  simp only [tySize] at h1
  have h2 := tySize_lt_of_mem_toList ifs f hf
  omega

/-! ### a fuel-free leaf count -/

mutual
/-- number of flattened leaves of a type, by structural recursion (no fuel) -/
def leafN : Ty → Nat
  | .ptr e => leafN e
  | .struct fs => leafNs fs
  | _ => 1
def leafNs : Fields → Nat
  | .nil => 0
  | .cons _ _ _ t rest => leafN t + leafNs rest
end

theorem leafN_stripPtrs : ∀ (t : Ty), leafN (stripPtrs t) = leafN t
  | .ptr e => by simp only [stripPtrs, leafN]; exact leafN_stripPtrs e
  | .struct _ => by simp [stripPtrs]
  | .basic _ _ => by simp [stripPtrs]
  | .dur | .pdur | .tu _ | .slice _ | .array _ _ | .map _ _ | .set _ => by simp [stripPtrs]

theorem leafNs_eq_sum : ∀ (fs : Fields), leafNs fs = (fs.toList.map fun f => leafN f.2).sum
  | .nil => by simp [leafNs, Fields.toList]
  | .cons _ _ _ t r => by simp [leafNs, Fields.toList, leafNs_eq_sum r]

theorem leafN_of_struct {t : Ty} {ifs : Fields} (hs : stripPtrs t = .struct ifs) :
    leafN t = (ifs.toList.map fun f => leafN f.2).sum := by
  rw [← leafN_stripPtrs t, hs, leafN, leafNs_eq_sum]

theorem leafN_of_leaf {t : Ty} (hs : ∀ ifs, stripPtrs t ≠ .struct ifs) : leafN t = 1 := by
  rw [← leafN_stripPtrs t]
  cases h : stripPtrs t with
  | ptr e => exact absurd h (stripPtrs_ne_ptr t e)
  | struct fs => exact absurd h (hs fs)
  | _ => simp [leafN]

/-- with fuel above the size of the type, `leafCount` is the fuel-free count -/
theorem leafCount_eq_leafN : ∀ (fuel : Nat) (t : Ty), tySize t < fuel → leafCount fuel t = leafN t
  | 0, _, h => by omega
  | fuel + 1, t, h => by
    simp only [leafCount]
    split
    · rename_i ifs hs
      rw [leafN_of_struct hs]
      congr 1
      apply List.map_congr_left
      intro f hf
      have := tySize_field_lt hs hf
      exact leafCount_eq_leafN fuel f.2 (by omega)
    · rename_i hs
      exact (leafN_of_leaf (fun ifs h => hs ifs h)).symm

/-! ### flattenStruct: the number of outputs -/

theorem flattenStruct_length (cfg : FlattenCfg) : ∀ (fuel : Nat) (names words path : List String)
    (fs : List FT) (outs : List FT), flattenStruct cfg fuel names words path fs = .ok outs →
    outs.length = (fs.map fun f => leafN f.2).sum
  | 0, _, _, _, _, _, h => by simp [flattenStruct] at h
  | _ + 1, _, _, _, [], outs, h => by
    simp [flattenStruct] at h; subst h; simp
  | fuel + 1, names, words, path, (nh, nt) :: rest, outs, h => by
    simp only [flattenStruct] at h
    split at h
    · cases h
    · cases h
    · rename_i tags words' _
      split at h
      · rename_i a b ha hb
        cases h
        have hb' := flattenStruct_length cfg fuel names words path rest b hb
        simp only [List.length_append, List.map_cons, List.sum_cons, hb']
        congr 1
        split at ha
        · rename_i ifs hs
          rw [flattenStruct_length cfg fuel _ _ _ _ a ha, leafN_of_struct hs]
        · rename_i hs
          cases ha
          simp [leafN_of_leaf (fun ifs h => hs ifs h)]
      all_goals cases h

theorem flattenMangle_length (cfg : FlattenCfg) (fuel : Nat) (h : Hdr) (t : Ty) (outs : List FT)
    (hm : flattenMangle cfg fuel h t = .ok outs) : outs.length = leafN t := by
  simp only [flattenMangle] at hm
  split at hm
  · cases hm
  · split at hm
    · cases hm
    · cases hm
    · split at hm
      · rename_i ifs hs
        rw [flattenStruct_length cfg fuel _ _ _ _ outs hm, leafN_of_struct hs]
      · rename_i hs
        cases hm
        simp [leafN_of_leaf (fun ifs h => hs ifs h)]

/-! ### "every struct sits behind a pointer" -/

mutual
/-- every struct type nested in `t` (as flatten sees it: through pointers and struct fields, not into
slices / arrays / maps, which are leaves) sits behind at least one pointer — what Pointerify
guarantees.  (Before the repair of P02 `populate` panicked — reflect.Set of a `*struct` into a `struct` —
exactly where this fails and a child is set; since the repair `populate_spec` needs no such
hypothesis.  The predicate is kept for `Canon`-style statements about values: a by-value struct has
two representations of "nothing set", the zero struct and `nilv`.) -/
def structsBehindPtr : Ty → Bool
  | .ptr e => underPtr e
  | .struct _ => false
  | _ => true
def underPtr : Ty → Bool
  | .ptr e => underPtr e
  | .struct fs => fieldsBehindPtr fs
  | _ => true
def fieldsBehindPtr : Fields → Bool
  | .nil => true
  | .cons _ _ _ t rest => structsBehindPtr t && fieldsBehindPtr rest
end

theorem underPtr_of_struct : ∀ (t : Ty) (ifs : Fields), stripPtrs t = .struct ifs →
    underPtr t = fieldsBehindPtr ifs
  | .ptr e, ifs, h => by simp only [stripPtrs] at h; simp only [underPtr]; exact underPtr_of_struct e ifs h
  | .struct fs, ifs, h => by simp [stripPtrs] at h; subst h; simp [underPtr]
  | .basic _ _, _, h => by simp [stripPtrs] at h
  | .dur, _, h | .pdur, _, h | .tu _, _, h | .slice _, _, h | .array _ _, _, h | .map _ _, _, h
  | .set _, _, h => by simp [stripPtrs] at h

theorem structsBehindPtr_of_struct {t : Ty} {ifs : Fields} (hs : stripPtrs t = .struct ifs)
    (hg : structsBehindPtr t = true) : ptrDepth t ≠ 0 ∧ fieldsBehindPtr ifs = true := by
  cases t with
  | ptr e =>
    simp only [stripPtrs] at hs
    simp only [structsBehindPtr] at hg
    rw [underPtr_of_struct e ifs hs] at hg
    simp [ptrDepth, hg]
  | struct fs => simp [structsBehindPtr] at hg
  | _ => simp [stripPtrs] at hs

theorem fieldsBehindPtr_mem : ∀ (fs : Fields), fieldsBehindPtr fs = true →
    ∀ f ∈ fs.toList, structsBehindPtr f.2 = true
  | .nil, _, f, h => by simp [Fields.toList] at h
  | .cons _ _ _ t r, hg, f, h => by
    simp only [fieldsBehindPtr, Bool.and_eq_true] at hg
    simp only [Fields.toList, List.mem_cons] at h
    rcases h with h | h
    · subst h; exact hg.1
    · exact fieldsBehindPtr_mem r hg.2 f h

/-! ### populate / flatLeaves: unfolding -/

theorem populate_struct {t : Ty} {ifs : Fields} (hs : stripPtrs t = .struct ifs) (fuel : Nat)
    (vals : List Val) :
    populate (fuel + 1) t vals =
      match populate.fields fuel (ifs.toList.length + 1) ifs.toList vals [] false with
      | .ok (fvs, vals', any) =>
        if any then .ok (wrapPtrs (ptrDepth t) (.struct fvs), vals', true)
        else .ok (.nilv, vals', false)
      | .err c => .err c
      | .panic c => .panic c := by
  unfold populate
  split
  · rename_i ifs' hs'
    rw [hs] at hs'; cases hs'; rfl
  · rename_i hn
    exact absurd hs (hn ifs)

theorem populate_leaf {t : Ty} (hs : ∀ ifs, stripPtrs t ≠ .struct ifs) (fuel : Nat) (vals : List Val) :
    populate (fuel + 1) t vals =
      match vals with
      | [] => .panic "index out of range"
      | v :: vals' => .ok (v, vals', !v.isNil) := by
  unfold populate
  split
  · rename_i ifs' hs'
    exact absurd hs' (hs ifs')
  · rfl

theorem flatLeaves_struct {t : Ty} {ifs : Fields} (hs : stripPtrs t = .struct ifs) (fuel : Nat) (v : Val) :
    flatLeaves (fuel + 1) t v =
      flatLeaves.go fuel (ifs.toList.length + 1) ifs.toList (flatLeaves.strip (ptrDepth t) v) := by
  simp only [flatLeaves]
  split
  · rename_i ifs' hs'
    rw [hs] at hs'; cases hs'; rfl
  · rename_i hn
    exact absurd hs (hn ifs)

theorem flatLeaves_leaf {t : Ty} (hs : ∀ ifs, stripPtrs t ≠ .struct ifs) (fuel : Nat) (v : Val) :
    flatLeaves (fuel + 1) t v = [v] := by
  unfold flatLeaves
  split
  · rename_i ifs' hs'
    exact absurd hs' (hs ifs')
  · rfl

theorem strip_wrapPtrs : ∀ (n : Nat) (fvs : List Val),
    flatLeaves.strip n (wrapPtrs n (.struct fvs)) = some fvs
  | 0, fvs => by simp [wrapPtrs, flatLeaves.strip]
  | n + 1, fvs => by simp [wrapPtrs, flatLeaves.strip, strip_wrapPtrs n fvs]

theorem strip_nilv (n : Nat) : flatLeaves.strip n .nilv = none := by
  cases n <;> simp [flatLeaves.strip]

/-- one step of populate's field loop, uniformly for struct-typed and leaf fields -/
theorem populate_fields_step (fuel fl : Nat) (f : FT) (fs : List FT) (vals acc : List Val) (any : Bool) :
    populate.fields (fuel + 1) (fl + 1) (f :: fs) vals acc any =
      match populate (fuel + 1) f.2 vals with
      | .ok (v, vals', a) => populate.fields (fuel + 1) fl fs vals' (acc ++ [v]) (any || a)
      | .err c => .err c
      | .panic c => .panic c := by
  conv => lhs; unfold populate.fields
  split
  · rfl
  · rename_i hn
    rw [populate_leaf (fun ifs h => hn ifs h)]
    cases vals <;> rfl

theorem go_cons (fuel fl : Nat) (f : FT) (fs : List FT) (x : Val) (xs : List Val) :
    flatLeaves.go fuel (fl + 1) (f :: fs) (some (x :: xs)) =
      flatLeaves fuel f.2 x ++ flatLeaves.go fuel fl fs (some xs) := by
  conv => lhs; unfold flatLeaves.go

theorem go_none_cons (fuel fl : Nat) (f : FT) (fs : List FT) :
    flatLeaves.go fuel (fl + 1) (f :: fs) none =
      flatLeaves fuel f.2 .nilv ++ flatLeaves.go fuel fl fs none := by
  conv => lhs; unfold flatLeaves.go

/-! ### an unset value reads back as unset leaves -/

theorem all_nil_eq_nils : ∀ (vals : List Val), (∀ x ∈ vals, x = Val.nilv) → vals = nils vals.length
  | [], _ => rfl
  | x :: xs, h => by
    have h1 := h x (by simp)
    have h2 := all_nil_eq_nils xs (fun y hy => h y (by simp [hy]))
    subst h1
    simp only [List.length_cons, nils, List.replicate_succ]
    congr 1

theorem nils_add (a b : Nat) : nils (a + b) = nils a ++ nils b := by
  simp [nils, List.replicate_append_replicate]

theorem flatLeaves_nilv : ∀ (fuel : Nat) (t : Ty), tySize t < fuel →
    flatLeaves fuel t .nilv = nils (leafN t)
  | 0, _, h => by omega
  | fuel + 1, t, h => by
    cases hs : stripPtrs t with
    | struct ifs =>
      rw [flatLeaves_struct hs, strip_nilv, leafN_of_struct hs]
      have key : ∀ (fs : List FT), (∀ f ∈ fs, tySize f.2 < fuel) → ∀ fl, fs.length < fl →
          flatLeaves.go fuel fl fs none = nils (fs.map fun f => leafN f.2).sum := by
        intro fs
        induction fs with
        | nil =>
          intro _ fl hfl
          cases fl with
          | zero => omega
          | succ fl => unfold flatLeaves.go; rfl
        | cons f fs ih =>
          intro hsz fl hfl
          cases fl with
          | zero => omega
          | succ fl =>
            rw [go_none_cons, flatLeaves_nilv fuel f.2 (hsz f (by simp)),
              ih (fun g hg => hsz g (by simp [hg])) fl (by simp at hfl; omega)]
            simp [nils_add]
      exact key ifs.toList (fun f hf => by have := tySize_field_lt hs hf; omega) _ (by omega)
    | _ =>
      rw [flatLeaves_leaf (by intro ifs h; rw [hs] at h; cases h), leafN_of_leaf (by intro ifs h; rw [hs] at h; cases h)]
      rfl

/-! ### populate is the inverse of reading the leaves -/

def anySet (vals : List Val) : Bool := vals.any (fun x => !x.isNil)

theorem anySet_append (a b : List Val) : anySet (a ++ b) = (anySet a || anySet b) := by
  simp [anySet, List.any_append]

theorem anySet_false_iff (vals : List Val) : anySet vals = false ↔ ∀ x ∈ vals, x = Val.nilv := by
  induction vals with
  | nil => simp [anySet]
  | cons x xs ih =>
    simp only [anySet, List.any_cons, Bool.or_eq_false_iff, List.mem_cons, forall_eq_or_imp] at ih ⊢
    rw [ih]
    cases x <;> simp [Val.isNil]

/-- the result of `populate` on a filling `vals` of the leaves of `t` -/
def PopSpec (fuel : Nat) (t : Ty) (vals rest : List Val) : Prop :=
  ∃ v, populate fuel t (vals ++ rest) = .ok (v, rest, anySet vals) ∧
    flatLeaves fuel t v = vals ∧ ((∀ x ∈ vals, x = Val.nilv) → v = .nilv)

/-- the field loop, given the statement for the field types at the inner fuel -/
theorem populate_fields_spec (fuel : Nat)
    (ih : ∀ t, tySize t < fuel + 1 → ∀ vals rest, vals.length = leafN t →
      PopSpec (fuel + 1) t vals rest) :
    ∀ (fs : List FT), (∀ f ∈ fs, tySize f.2 < fuel + 1) → ∀ fl, fs.length < fl →
    ∀ (vals rest acc : List Val) (any : Bool), vals.length = (fs.map fun f => leafN f.2).sum →
      ∃ fvs, populate.fields (fuel + 1) fl fs (vals ++ rest) acc any = .ok (acc ++ fvs, rest, any || anySet vals) ∧
        flatLeaves.go (fuel + 1) fl fs (some fvs) = vals := by
  intro fs
  induction fs with
  | nil =>
    intro _ fl hfl vals rest acc any hl
    cases fl with
    | zero => omega
    | succ fl =>
      have : vals = [] := by simpa using hl
      subst this
      refine ⟨[], ?_, ?_⟩
      · unfold populate.fields; simp [anySet]
      · unfold flatLeaves.go; rfl
  | cons f fs ihfs =>
    intro hsz fl hfl vals rest acc any hl
    cases fl with
    | zero => omega
    | succ fl =>
      simp only [List.map_cons, List.sum_cons] at hl
      -- split the filling
      have hv : vals = vals.take (leafN f.2) ++ vals.drop (leafN f.2) := (List.take_append_drop _ _).symm
      generalize h1 : vals.take (leafN f.2) = v1 at hv
      generalize h2 : vals.drop (leafN f.2) = v2 at hv
      have hl1 : v1.length = leafN f.2 := by rw [← h1, List.length_take]; omega
      have hl2 : v2.length = (fs.map fun f => leafN f.2).sum := by rw [← h2, List.length_drop]; omega
      subst hv
      obtain ⟨v, hp, hfl1, _⟩ := ih f.2 (hsz f (by simp)) v1 (v2 ++ rest) hl1
      obtain ⟨fvs, hp2, hgo⟩ := ihfs (fun g hg' => hsz g (by simp [hg'])) fl
        (by simp at hfl; omega) v2 rest (acc ++ [v]) (any || anySet v1) hl2
      refine ⟨v :: fvs, ?_, ?_⟩
      · rw [populate_fields_step, List.append_assoc, hp]
        simp only
        rw [hp2]
        simp [anySet_append, Bool.or_assoc]
      · rw [go_cons, hfl1, hgo]

/-- `populate` restores EVERY filling of the leaves of EVERY type (no pointer hypothesis since the repair
of P02: a struct held by value receives the rebuilt struct itself) -/
theorem populate_spec : ∀ (fuel : Nat) (t : Ty), tySize t < fuel → ∀ (vals rest : List Val),
    vals.length = leafN t → PopSpec fuel t vals rest
  | 0, _, h => by omega
  | 1, t, h => by
    -- every type has size ≥ 1
    exfalso
    cases t <;> simp [tySize] at h
  | fuel + 2, t, h => by
    intro vals rest hl
    cases hs : stripPtrs t with
    | struct ifs =>
      have hsz : ∀ f ∈ ifs.toList, tySize f.2 < fuel + 1 := fun f hf => by
        have := tySize_field_lt hs hf; omega
      obtain ⟨fvs, hp, hgo⟩ := populate_fields_spec fuel (fun t' h' => populate_spec (fuel + 1) t' h')
        ifs.toList hsz (ifs.toList.length + 1) (by omega) vals rest [] false
        (by rw [hl, leafN_of_struct hs])
      unfold PopSpec
      rw [populate_struct hs, hp]
      simp only [List.nil_append, Bool.false_or]
      cases hany : anySet vals with
      | true =>
        have hnn : ¬ ∀ x ∈ vals, x = Val.nilv := by
          rw [← anySet_false_iff, hany]; simp
        refine ⟨wrapPtrs (ptrDepth t) (.struct fvs), ?_, ?_, fun hn => absurd hn hnn⟩
        · simp
        · rw [flatLeaves_struct hs, strip_wrapPtrs, hgo]
      | false =>
        have hn : ∀ x ∈ vals, x = Val.nilv := (anySet_false_iff vals).1 hany
        refine ⟨.nilv, by simp, ?_, fun _ => rfl⟩
        rw [flatLeaves_nilv _ _ h, ← hl]
        exact (all_nil_eq_nils vals hn).symm
    | _ =>
      have hleaf : ∀ ifs, stripPtrs t ≠ .struct ifs := by intro ifs h'; rw [hs] at h'; cases h'
      rw [leafN_of_leaf hleaf] at hl
      match vals, hl with
      | [x], _ =>
        refine ⟨x, ?_, ?_, fun hn => hn x (by simp)⟩
        · rw [populate_leaf hleaf]; simp [anySet]
        · rw [flatLeaves_leaf hleaf]

/-! ### one layer, all unset -/

theorem nils_length (n : Nat) : (nils n).length = n := by simp [nils]

theorem mem_nils {n : Nat} {v : Val} (h : v ∈ nils n) : v = Val.nilv := by
  simp only [nils, List.mem_replicate] at h; exact h.2

theorem nils_succ (n : Nat) : nils (n + 1) = Val.nilv :: nils n := by
  simp [nils, List.replicate_succ]

theorem nils_flatten_length : ∀ (groups : List (List FT)),
    nils groups.flatten.length = (groups.map fun g => nils g.length).flatten
  | [] => by simp [nils]
  | g :: gs => by
    simp only [List.flatten_cons, List.length_append, nils_add, List.map_cons, nils_flatten_length gs]

theorem splitCounts_nils (groups : List (List FT)) :
    splitCounts (groups.map List.length) (nils groups.flatten.length) =
      groups.map fun g => nils g.length := by
  have h := splitCounts_flatten (groups.map fun g => nils g.length)
  rw [nils_flatten_length]
  simpa [List.map_map, Function.comp_def, nils_length] using h

/-- no recursion happens below this mangler on these fields: it does not recurse at all, or none of its
output fields is struct-ish -/
def NoRec (m : Mangler) (fs : List FT) : Prop :=
  m.recurse = false ∨ ∀ f ∈ fs, ∀ outs, m.mangle f.1 f.2 = .ok outs → ∀ o ∈ outs, structish o.2 = none

theorem recurseType_id (fuel : Nat) (m : Mangler) (o : FT)
    (h : m.recurse = false ∨ structish o.2 = none) : recurseType (fuel + 1) m o = .ok o := by
  obtain ⟨hd, t⟩ := o
  simp only [recurseType]
  rcases h with h | h
  · simp [h]
  · simp only at h
    simp [h]

theorem recurseVal_id (fuel : Nat) (m : Mangler) (o : FT) (v : Val)
    (h : m.recurse = false ∨ structish o.2 = none) : recurseVal (fuel + 1) m o v = .ok v := by
  obtain ⟨hd, t⟩ := o
  simp only [recurseVal]
  rcases h with h | h
  · simp [h]
  · simp only at h
    simp [h]

theorem mapM'_recurseType_id (m : Mangler) (outs : List FT)
    (h : ∀ o ∈ outs, m.recurse = false ∨ structish o.2 = none) :
    ∀ (fuel : Nat) (b : List FT), mapM' (recurseType fuel m) outs = .ok b →
      b = outs ∧ (outs ≠ [] → 0 < fuel)
  | 0, b, hb => by
    cases outs with
    | nil => simp [mapM'] at hb; simp [hb]
    | cons o os => simp [mapM', recurseType] at hb
  | fuel + 1, b, hb => by
    have := mapM'_ok_of_forall (recurseType (fuel + 1) m) id outs
      (fun o ho => recurseType_id fuel m o (h o ho))
    rw [this] at hb
    simp at hb
    simp [hb]

theorem mapM'_zip_mem {α β} {f : α → Outcome β} : ∀ {xs : List α} {r : List β},
    mapM' f xs = .ok r → ∀ x b, (x, b) ∈ xs.zip r → f x = .ok b
  | [], r, _, x, b, hm => by simp at hm
  | y :: ys, r, h, x, b, hm => by
    obtain ⟨c, cs, hc, hcs, rfl⟩ := mapM'_cons_ok h
    simp only [List.zip_cons_cons, List.mem_cons, Prod.mk.injEq] at hm
    rcases hm with ⟨rfl, rfl⟩ | hm
    · exact hc
    · exact mapM'_zip_mem hcs x b hm

/-- mangleLayer without recursion: the groups are the manglers' own outputs -/
theorem mangleLayer_noRec (fuel : Nat) (m : Mangler) :
    ∀ (fs : List FT) (groups : List (List FT)), NoRec m fs →
    mapM' (fun (f : FT) =>
      match m.mangle f.1 f.2 with
      | .ok outs => mapM' (recurseType fuel m) outs
      | .err c => .err c
      | .panic c => .panic c) fs = .ok groups →
    mapM' (fun (f : FT) => m.mangle f.1 f.2) fs = .ok groups ∧ ∀ g ∈ groups, g ≠ [] → 0 < fuel
  | [], groups, _, h => by
    simp [mapM'] at h; subst h; simp [mapM']
  | f :: fs, groups, hnr, h => by
    obtain ⟨b, bs, hb, hbs, rfl⟩ := mapM'_cons_ok h
    have hnr' : NoRec m fs := by
      rcases hnr with hnr | hnr
      · exact Or.inl hnr
      · exact Or.inr (fun g hg => hnr g (by simp [hg]))
    obtain ⟨ih1, ih2⟩ := mangleLayer_noRec fuel m fs bs hnr' hbs
    split at hb
    · rename_i outs hm
      have hcond : ∀ o ∈ outs, m.recurse = false ∨ structish o.2 = none := by
        intro o ho
        rcases hnr with hnr | hnr
        · exact Or.inl hnr
        · exact Or.inr (hnr f (by simp) outs hm o ho)
      obtain ⟨rfl, hpos⟩ := mapM'_recurseType_id m outs hcond fuel b hb
      refine ⟨by simp [mapM', hm, ih1], ?_⟩
      intro g hg
      simp only [List.mem_cons] at hg
      rcases hg with rfl | hg
      · exact hpos
      · exact ih2 g hg
    · cases hb
    · cases hb

/-- a `mapM'` over the zipped (field, outputs, all-nil group) triples whose body gives unset on each -/
theorem mapM'_triples_nils (body : FT × List FT × List Val → Outcome Val) :
    ∀ (fs : List FT) (groups : List (List FT)), groups.length = fs.length →
    (∀ f outs, (f, outs) ∈ fs.zip groups → body (f, outs, nils outs.length) = .ok Val.nilv) →
    mapM' body (fs.zip (groups.zip (groups.map fun g => nils g.length))) = .ok (nils fs.length)
  | [], _, _, _ => by simp [mapM', nils]
  | f :: fs, [], h, _ => by simp at h
  | f :: fs, g :: gs, h, hb => by
    have h1 := hb f g (by simp)
    have h2 := mapM'_triples_nils body fs gs (by simpa using h)
      (fun f' o' hm => hb f' o' (by simp [hm]))
    simp only [List.map_cons, List.zip_cons_cons, mapM', h1, h2, List.length_cons, nils_succ]

theorem zip_nils_map_snd (outs : List FT) : (outs.zip (nils outs.length)).map (·.2) = nils outs.length := by
  rw [List.map_snd_zip]
  simp [nils_length]

theorem unmangleLayer_nils (fuel : Nat) (m : Mangler) (fs fs' : List FT)
    (hm : mangleLayer fuel m fs = .ok fs') (hnr : NoRec m fs)
    (hnp : NilPreserving m (fun _ => True)) :
    unmangleLayer fuel m fs (nils fs'.length) = .ok (nils fs.length) := by
  cases fuel with
  | zero => simp [mangleLayer] at hm
  | succ fuel =>
    simp only [mangleLayer] at hm
    split at hm
    · rename_i groups hg
      cases hm
      obtain ⟨hmg, hpos⟩ := mangleLayer_noRec fuel m fs groups hnr hg
      simp only [unmangleLayer, hmg, splitCounts_nils]
      apply mapM'_triples_nils _ fs groups (mapM'_length hmg)
      intro f outs hmem
      have hmf : m.mangle f.1 f.2 = .ok outs := mapM'_zip_mem hmg f outs hmem
      have hfin : f ∈ fs := (List.of_mem_zip hmem).1
      have hoin : outs ∈ groups := (List.of_mem_zip hmem).2
      have hcond : ∀ o ∈ outs, m.recurse = false ∨ structish o.2 = none := by
        intro o ho
        rcases hnr with hnr | hnr
        · exact Or.inl hnr
        · exact Or.inr (hnr f hfin outs hmf o ho)
      have hunm := hnp f True.intro outs hmf (nils outs.length) (nils_length _) (fun v hv => mem_nils hv)
      simp only [nils_length, bne_self_eq_false, Bool.false_eq_true, if_false]
      cases outs with
      | nil => simpa [mapM', nils] using hunm
      | cons o os =>
        have hF : 0 < fuel := hpos _ hoin (by simp)
        obtain ⟨fuel', rfl⟩ : ∃ k, fuel = k + 1 := ⟨fuel - 1, by omega⟩
        have hv : mapM' (fun (p : FT × Val) => recurseVal (fuel' + 1) m p.1 p.2)
            ((o :: os).zip (nils (o :: os).length)) = .ok (nils (o :: os).length) := by
          rw [mapM'_ok_of_forall _ (·.2) _ (fun p hp => by
            have hp1 : p.1 ∈ (o :: os) := (List.of_mem_zip (a := p.1) (b := p.2) hp).1
            exact recurseVal_id fuel' m p.1 p.2 (hcond p.1 hp1))]
          rw [zip_nils_map_snd]
        have ht : mapM' (recurseType (fuel' + 1) m) (o :: os) = .ok (o :: os) := by
          have := mapM'_ok_of_forall (recurseType (fuel' + 1) m) id (o :: os)
            (fun q hq => recurseType_id fuel' m q (hcond q hq))
          simpa using this
        rw [hv]
        simp only
        rw [ht]
        exact hunm
    · cases hm
    · cases hm

/-! ### the chain -/

theorem layers_mem (fuel : Nat) : ∀ (ms : List Mangler) (fs : List FT) (ls : List (Mangler × List FT)),
    layers fuel ms fs = .ok ls → ∀ l ∈ ls, l.1 ∈ ms
  | [], _, ls, h, l, hl => by simp [layers] at h; subst h; simp at hl
  | m :: ms, fs, ls, h, l, hl => by
    simp only [layers] at h
    split at h
    · rename_i fs' _
      split at h
      · rename_i r hr
        cases h
        simp only [List.mem_cons] at hl
        rcases hl with rfl | hl
        · simp
        · exact List.mem_cons_of_mem _ (layers_mem fuel ms fs' r hr l hl)
      · cases h
      · cases h
    · cases h
    · cases h

/-- ReverseTranslate's fold over the layers -/
def reverseFold (fuel : Nat) (ls : List (Mangler × List FT)) (vals : List Val) : Outcome (List Val) :=
  ls.foldr (fun (l : Mangler × List FT) acc =>
    match acc with
    | .ok vs => unmangleLayer fuel l.1 l.2 vs
    | e => e) (.ok vals)

theorem reverse_eq (fuel : Nat) (ms : List Mangler) (fs : List FT) (vals : List Val)
    (ls : List (Mangler × List FT)) (h : layers fuel ms fs = .ok ls) :
    reverse fuel ms fs vals = reverseFold fuel ls vals := by
  simp only [reverse, h]
  rfl

theorem chain_nils (fuel : Nat) : ∀ (ms : List Mangler) (fs tfs : List FT),
    translate fuel ms fs = .ok tfs →
    ∃ ls, layers fuel ms fs = .ok ls ∧
      ((∀ l ∈ ls, NoRec l.1 l.2) → (∀ l ∈ ls, NilPreserving l.1 (fun _ => True)) →
        reverseFold fuel ls (nils tfs.length) = .ok (nils fs.length))
  | [], fs, tfs, h => by
    simp [translate] at h; subst h
    exact ⟨[], by simp [layers], fun _ _ => by simp [reverseFold]⟩
  | m :: ms, fs, tfs, h => by
    simp only [translate] at h
    split at h
    · rename_i fs' hm
      obtain ⟨r, hr, ih⟩ := chain_nils fuel ms fs' tfs h
      refine ⟨(m, fs) :: r, by simp [layers, hm, hr], ?_⟩
      intro hnr hnp
      have ih' := ih (fun l hl => hnr l (by simp [hl])) (fun l hl => hnp l (by simp [hl]))
      simp only [reverseFold, List.foldr_cons] at ih' ⊢
      rw [ih']
      exact unmangleLayer_nils fuel m fs fs' hm (hnr (m, fs) (by simp)) (hnp (m, fs) (by simp))
    · cases h
    · cases h

/-! ### nil-preservation of the single manglers -/

theorem all_nil_len1 {vals : List Val} (hl : vals.length = 1) (hn : ∀ v ∈ vals, v = Val.nilv) :
    vals = [Val.nilv] := by
  match vals, hl, hn with
  | [v], _, hn => rw [hn v (by simp)]

theorem all_nil_len2 {vals : List Val} (hl : vals.length = 2) (hn : ∀ v ∈ vals, v = Val.nilv) :
    vals = [Val.nilv, Val.nilv] := by
  match vals, hl, hn with
  | [v1, v2], _, hn => rw [hn v1 (by simp), hn v2 (by simp)]

theorem np_alias (tags : List String) : NilPreserving (aliasMangler tags) (fun _ => True) := by
  intro f _ outs hm vals hl hn
  simp only [aliasMangler, aliasMangle] at hm
  split at hm
  · cases hm
    rw [all_nil_len1 hl hn]
    simp [aliasMangler, aliasUnmangle]
  · cases hm
    rw [all_nil_len2 hl hn]
    simp [aliasMangler, aliasUnmangle]

theorem np_setSlice : NilPreserving setSliceMangler (fun _ => True) := by
  intro f _ outs hm vals hl hn
  obtain ⟨h, t⟩ := f
  cases t <;>
  · simp only [setSliceMangler] at hm
    cases hm
    rw [all_nil_len1 hl hn]
    simp [setSliceMangler]

theorem np_stringCast (parse : String → Ty → Outcome Val) :
    NilPreserving (stringCastMangler parse) (fun _ => True) := by
  intro f _ outs hm vals hl hn
  simp only [stringCastMangler] at hm
  cases hm
  rw [all_nil_len1 hl hn]
  simp [stringCastMangler]

theorem np_textUnmarshaler : NilPreserving textUnmarshalerMangler (fun _ => True) := by
  intro f _ outs hm vals hl hn
  simp only [textUnmarshalerMangler] at hm
  cases hm
  rw [all_nil_len1 hl hn]
  cases h : isTU f.2 <;> simp [textUnmarshalerMangler, h]

theorem np_tagCopy (src new : String) : NilPreserving (tagCopyMangler src new) (fun _ => True) := by
  intro f _ outs hm vals hl hn
  have hlen : outs.length = 1 := by
    simp only [tagCopyMangler] at hm
    repeat' split at hm
    all_goals (cases hm; rfl)
  rw [hlen] at hl
  rw [all_nil_len1 hl hn]
  match outs, hlen with
  | [o], _ => simp [tagCopyMangler]

theorem np_tagReformat (tag : String) (dec : List Char → Option (List (List Char))) (enc : CaseConv.Scheme) :
    NilPreserving (tagReformatMangler tag dec enc) (fun _ => True) := by
  intro f _ outs hm vals hl hn
  have hlen : outs.length = 1 := by
    simp only [tagReformatMangler] at hm
    repeat' split at hm
    all_goals first | (cases hm; rfl) | cases hm
  rw [hlen] at hl
  rw [all_nil_len1 hl hn]
  match outs, hlen with
  | [o], _ => simp [tagReformatMangler]

theorem np_durSub : NilPreserving durSubMangler (fun _ => True) := by
  intro f _ outs hm vals hl hn
  simp only [durSubMangler] at hm
  cases hm
  rw [all_nil_len1 hl hn]
  simp [durSubMangler]

theorem np_flatten (cfg : FlattenCfg) (fuel : Nat) :
    NilPreserving (flattenMangler cfg fuel) (fun f => tySize f.2 < fuel) := by
  intro f hf outs hm vals hl hn
  simp only [flattenMangler] at hm ⊢
  have hlen : vals.length = leafN f.2 := by rw [hl, flattenMangle_length cfg fuel f.1 f.2 outs hm]
  obtain ⟨v, hp, _, hv⟩ := populate_spec fuel f.2 hf vals [] hlen
  have hmap : (outs.zip vals).map (·.2) = vals := by
    rw [List.map_snd_zip]; omega
  simp only [flattenUnmangle, hmap]
  rw [List.append_nil] at hp
  rw [hp]
  simp [hv hn]

end Dials.Tf
