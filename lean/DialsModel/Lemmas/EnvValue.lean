/-
Helper lemmas for C11 (Props/C11.lean): the UNMANGLE direction of the env chain's layers for an
arbitrary filling of the translated fields — one generic layer lemma (`unmangleLayer_vals`: where
the recursion leaves the values alone, a layer is `unmangle` applied group by group), its instances
for string cast / tag reformat / tag copy / flatten / alias, and the composition along the chain.
-/
import DialsModel.Lemmas.TfChain
import DialsModel.Lemmas.TfCanon
import DialsModel.Lemmas.EnvAlias

namespace Dials.Tf

/-! ### small list / `mapM'` facts -/

theorem All2.append_inv {R : FT → Val → Prop} : ∀ (a c : List FT) (v : List Val), All2 R (a ++ c) v →
    All2 R a (v.take a.length) ∧ All2 R c (v.drop a.length)
  | [], c, v, h => by simpa using h
  | f :: a, c, [], h => by simp at h
  | f :: a, c, x :: v, h => by
    simp only [List.cons_append, All2_cons] at h
    obtain ⟨h1, h2⟩ := All2.append_inv a c v h.2
    simp only [List.length_cons, List.take_succ_cons, List.drop_succ_cons, All2_cons]
    exact ⟨⟨h.1, h1⟩, h2⟩

theorem mapM'_append {α β} (f : α → Outcome β) : ∀ (xs ys : List α) (a b : List β),
    mapM' f xs = .ok a → mapM' f ys = .ok b → mapM' f (xs ++ ys) = .ok (a ++ b)
  | [], ys, a, b, h1, h2 => by simp [mapM'] at h1; subst h1; simpa using h2
  | x :: xs, ys, a, b, h1, h2 => by
    obtain ⟨c, cs, hc, hcs, rfl⟩ := mapM'_cons_ok h1
    simp [mapM', hc, mapM'_append f xs ys cs b hcs h2]

/-- a `mapM'` is never `.ok` if one element fails -/
theorem mapM'_not_ok {α β} {f : α → Outcome β} : ∀ {xs : List α} {x : α}, x ∈ xs → (∀ b, f x ≠ .ok b) →
    ∀ r, mapM' f xs ≠ .ok r
  | y :: ys, x, hx, hf, r, h => by
    obtain ⟨c, cs, hc, hcs, rfl⟩ := mapM'_cons_ok h
    rcases List.mem_cons.1 hx with rfl | hx
    · exact hf c hc
    · exact mapM'_not_ok hx hf cs hcs

/-- … and it is an error if no element panics and one is an error -/
theorem mapM'_err {α β} {f : α → Outcome β} : ∀ {xs : List α}, (∀ x ∈ xs, ∀ c, f x ≠ .panic c) →
    (∃ x ∈ xs, ∃ c, f x = .err c) → ∃ c, mapM' f xs = .err c
  | [], _, ⟨x, hx, _⟩ => by cases hx
  | y :: ys, hnp, ⟨x, hx, c, hc⟩ => by
    simp only [mapM']
    cases hy : f y with
    | err c' => exact ⟨c', rfl⟩
    | panic c' => exact absurd hy (hnp y (by simp) c')
    | ok b =>
      have hx' : x ∈ ys := by
        rcases List.mem_cons.1 hx with rfl | hx
        · rw [hy] at hc; cases hc
        · exact hx
      obtain ⟨c', hc'⟩ := mapM'_err (fun z hz => hnp z (by simp [hz])) ⟨x, hx', c, hc⟩
      simp only [hc']
      exact ⟨c', rfl⟩

theorem splitCounts_ones {α} : ∀ (n : Nat) (vs : List α), vs.length = n →
    splitCounts (List.replicate n 1) vs = vs.map fun v => [v]
  | 0, [], _ => rfl
  | 0, _ :: _, h => by simp at h
  | n + 1, [], h => by simp at h
  | n + 1, v :: vs, h => by
    simp only [List.replicate_succ, splitCounts, List.take_succ_cons, List.take_zero, List.drop_succ_cons,
      List.drop_zero, List.map_cons, splitCounts_ones n vs (by simpa using h)]

/-! ### one layer, backwards, where the recursion leaves the values alone -/

/-- the loop of `unmangleLayer` over the groups, when `recurseVal` is the identity on every output
value and `unmangle` only looks at the values of its tuples -/
theorem unmBody_groups {m : Mangler} {U : Hdr → Ty → List Val → Outcome Val}
    (hU : ∀ h t (fvs : List (FT × Val)), m.unmangle h t fvs = U h t (fvs.map (·.2))) (k : Nat) :
    ∀ (fs : List FT) (outss : List (List FT)) (vals : List Val),
      mapM' (fun (f : FT) => m.mangle f.1 f.2) fs = .ok outss →
      (∀ f ∈ fs, ∃ outs outs', m.mangle f.1 f.2 = .ok outs ∧ mapM' (recurseType k m) outs = .ok outs') →
      All2 (fun o w => ∀ o', recurseType k m o = .ok o' → recurseVal k m o w = .ok w) outss.flatten vals →
      mapM' (unmBody k m) (fs.zip (outss.zip (splitCounts (outss.map List.length) vals))) =
        mapM' (fun (p : FT × List Val) => U p.1.1 p.1.2 p.2) (fs.zip (splitCounts (outss.map List.length) vals))
  | [], outss, vals, h, _, _ => by simp [mapM']
  | f :: fs, outss, vals, h, hall, hrv => by
    obtain ⟨outs, outss', ho, hos, rfl⟩ := mapM'_cons_ok h
    simp only [List.flatten_cons] at hrv
    obtain ⟨hr1, hr2⟩ := All2.append_inv outs outss'.flatten vals hrv
    have ih := unmBody_groups hU k fs outss' (vals.drop outs.length) hos
      (fun g hg => hall g (by simp [hg])) hr2
    obtain ⟨outs0, outs', hm0, hrt⟩ := hall f (by simp)
    rw [ho] at hm0; cases hm0
    have hlen : (vals.take outs.length).length = outs.length := All2.length hr1
    have hv : mapM' (fun (p : FT × Val) => recurseVal k m p.1 p.2) (outs.zip (vals.take outs.length)) =
        .ok (vals.take outs.length) := by
      rw [mapM'_ok_of_forall _ (·.2) _ (fun p hp => by
        obtain ⟨o, w⟩ := p
        obtain ⟨o', ho'⟩ := mapM'_mem_ok hrt o (List.of_mem_zip hp).1
        exact All2.mem hr1 o w hp o' ho')]
      rw [map_snd_zip_eq outs _ hlen]
    have hbody : unmBody k m (f, outs, vals.take outs.length) = U f.1 f.2 (vals.take outs.length) := by
      simp only [unmBody, hlen, bne_self_eq_false, Bool.false_eq_true, if_false, hv, hrt, hU]
      rw [map_snd_zip_eq outs' _ (by rw [hlen, mapM'_length hrt])]
    simp only [List.map_cons, splitCounts, List.zip_cons_cons, mapM', hbody, ih]

/-- GENERIC LAYER LEMMA (unmangle direction, arbitrary values): if `recurseVal` leaves every output
value alone, `unmangleLayer` is `unmangle` (on the values) applied to each field's group of values -/
theorem unmangleLayer_vals {m : Mangler} {U : Hdr → Ty → List Val → Outcome Val}
    (hU : ∀ h t (fvs : List (FT × Val)), m.unmangle h t fvs = U h t (fvs.map (·.2)))
    (k : Nat) (fs fs' : List FT) (outss : List (List FT)) (vals : List Val)
    (hm : mangleLayer (k + 1) m fs = .ok fs')
    (ho : mapM' (fun (f : FT) => m.mangle f.1 f.2) fs = .ok outss)
    (hrv : All2 (fun o w => ∀ o', recurseType k m o = .ok o' → recurseVal k m o w = .ok w) outss.flatten vals) :
    unmangleLayer (k + 1) m fs vals =
      mapM' (fun (p : FT × List Val) => U p.1.1 p.1.2 p.2) (fs.zip (splitCounts (outss.map List.length) vals)) := by
  obtain ⟨groups, hg, _⟩ := mangleLayer_succ_ok hm
  obtain ⟨outss0, hmg, _, hall⟩ := mangleLayer_groups k m fs groups hg
  rw [unmangleLayer_succ, ho]
  exact unmBody_groups hU k fs outss vals ho hall hrv

/-- `recurseVal` is the identity where nothing is recursed into (and `recurseType` succeeded: fuel) -/
theorem recurseVal_noRec {k : Nat} {m : Mangler} {o o' : FT} (w : Val)
    (h : m.recurse = false ∨ structish o.2 = none) (ht : recurseType k m o = .ok o') :
    recurseVal k m o w = .ok w := by
  cases k with
  | zero => simp [recurseType] at ht
  | succ k => exact recurseVal_id k m o w h

theorem mapM'_map {α β γ} (f : β → Outcome γ) (g : α → β) : ∀ (xs : List α),
    mapM' f (xs.map g) = mapM' (fun x => f (g x)) xs
  | [] => rfl
  | x :: xs => by simp only [List.map_cons, mapM', mapM'_map f g xs]

/-- a layer of a mangler with exactly one output per field into which nothing is recursed: `unmangle`
field by field -/
theorem unmangleLayer_single {m : Mangler} {U : Hdr → Ty → List Val → Outcome Val}
    (hU : ∀ h t (fvs : List (FT × Val)), m.unmangle h t fvs = U h t (fvs.map (·.2)))
    (g : FT → FT) (fuel : Nat) (fs fs' : List FT) (vals : List Val)
    (hm : mangleLayer fuel m fs = .ok fs')
    (hg : ∀ f ∈ fs, m.mangle f.1 f.2 = .ok [g f])
    (hnr : ∀ f ∈ fs, m.recurse = false ∨ structish (g f).2 = none)
    (hl : vals.length = fs.length) :
    unmangleLayer fuel m fs vals = mapM' (fun (p : FT × Val) => U p.1.1 p.1.2 [p.2]) (fs.zip vals) := by
  cases fuel with
  | zero => simp [mangleLayer] at hm
  | succ k =>
    have ho : mapM' (fun (f : FT) => m.mangle f.1 f.2) fs = .ok (fs.map fun f => [g f]) :=
      mapM'_ok_of_forall _ _ fs hg
    have hfl : (fs.map fun f => [g f]).flatten = fs.map g := flatten_map_singleton g fs
    have hrv : All2 (fun o w => ∀ o', recurseType k m o = .ok o' → recurseVal k m o w = .ok w)
        (fs.map fun f => [g f]).flatten vals := by
      rw [hfl]
      apply All2.of_mem (by simpa using hl)
      intro o w hmem o' ho'
      have ho : o ∈ fs.map g := (List.of_mem_zip hmem).1
      obtain ⟨f, hf, rfl⟩ := List.mem_map.1 ho
      exact recurseVal_noRec w (hnr f hf) ho'
    rw [unmangleLayer_vals hU k fs fs' _ vals hm ho hrv]
    have hc : (fs.map fun f => [g f]).map List.length = List.replicate fs.length 1 := by
      rw [List.map_map]
      clear ho hfl hrv hm hg hnr hl
      induction fs with
      | nil => rfl
      | cons f fs ih => simp only [List.map_cons, List.length_cons, List.replicate_succ, ih]; rfl
    rw [hc, splitCounts_ones fs.length vals hl, List.zip_map_right, mapM'_map]
    rfl

/-- … and the translated fields of such a layer are the single outputs -/
theorem mangleLayer_single_noRec {m : Mangler} (g : FT → FT) (fuel : Nat) (fs fs' : List FT)
    (hm : mangleLayer fuel m fs = .ok fs')
    (hg : ∀ f ∈ fs, m.mangle f.1 f.2 = .ok [g f])
    (hnr : ∀ f ∈ fs, m.recurse = false ∨ structish (g f).2 = none) : fs' = fs.map g := by
  cases fuel with
  | zero => simp [mangleLayer] at hm
  | succ k =>
    obtain ⟨groups, hgr, rfl⟩ := mangleLayer_succ_ok hm
    have hnr' : NoRec m fs := by
      by_cases hr : m.recurse = false
      · exact Or.inl hr
      · refine Or.inr (fun f hf outs ho o hoo => ?_)
        rw [hg f hf] at ho
        cases ho
        simp only [List.mem_singleton] at hoo
        subst hoo
        rcases hnr f hf with h | h
        · exact absurd h hr
        · exact h
    obtain ⟨h1, _⟩ := mangleLayer_noRec k m fs groups hnr' hgr
    rw [mapM'_ok_of_forall _ (fun f => [g f]) fs hg] at h1
    cases h1
    exact flatten_map_singleton g fs

/-! ### the string-cast layer, backwards -/

/-- what string casting makes of one translated value for a field of type `t`: unset stays unset, a
text is parsed at the cast type (and boxed for a pointer-to-collection field); a parse error is an
error, never a value -/
def scUn (parse : String → Ty → Outcome Val) (t : Ty) (v : Val) : Outcome Val :=
  match v with
  | .nilv => .ok .nilv
  | .ptr (.s str) =>
    if !hasElemTy t then .err "cannot cast a string to a field that is not a pointer, slice or map" else
    match parse str (scCastTo t) with
    | .ok u => .ok (if scBoxed t then .ptr u else u)
    | .err c => .err c
    | .panic c => .panic c
  | _ => .panic "not a *string"

def firstVal (U : Ty → Val → Outcome Val) : Hdr → Ty → List Val → Outcome Val := fun _ t vs =>
  match vs with
  | [] => .panic "index out of range"
  | v :: _ => U t v

theorem stringCast_unmangle_eq (parse : String → Ty → Outcome Val) (h : Hdr) (t : Ty) (fvs : List (FT × Val)) :
    (stringCastMangler parse).unmangle h t fvs = firstVal (scUn parse) h t (fvs.map (·.2)) := by
  cases fvs with
  | nil => rfl
  | cons p r =>
    obtain ⟨o, v⟩ := p
    simp only [stringCastMangler, firstVal, List.map_cons, scUn]
    cases v with
    | ptr x =>
      cases x with
      | s str =>
        cases t with
        | ptr e => cases e <;> rfl
        | _ => rfl
      | _ => rfl
    | _ => rfl

theorem unmangleLayer_stringCast (parse : String → Ty → Outcome Val) (fuel : Nat) (fs tfs : List FT)
    (vals : List Val) (hm : mangleLayer fuel (stringCastMangler parse) fs = .ok tfs)
    (hl : vals.length = fs.length) :
    unmangleLayer fuel (stringCastMangler parse) fs vals =
        mapM' (fun (p : FT × Val) => scUn parse p.1.2 p.2) (fs.zip vals) ∧
      tfs = fs.map fun f => (f.1, strPtrTy) := by
  have hg : ∀ f ∈ fs, (stringCastMangler parse).mangle f.1 f.2 = .ok [(fun (f : FT) => (f.1, strPtrTy)) f] :=
    fun _ _ => rfl
  have hnr : ∀ f ∈ fs, (stringCastMangler parse).recurse = false ∨
      structish ((fun (f : FT) => (f.1, strPtrTy)) f).2 = none := fun _ _ => Or.inr rfl
  exact ⟨unmangleLayer_single (stringCast_unmangle_eq parse) _ fuel fs tfs vals hm hg hnr hl,
    mangleLayer_single_noRec _ fuel fs tfs hm hg hnr⟩

/-! ### the value-identity layers (tag reformat, tag copy) on leaf fields, backwards -/

theorem mangleLayer_mangle_ok {fuel : Nat} {m : Mangler} {fs fs' : List FT}
    (hm : mangleLayer fuel m fs = .ok fs') : ∀ f ∈ fs, ∃ outs, m.mangle f.1 f.2 = .ok outs := by
  cases fuel with
  | zero => simp [mangleLayer] at hm
  | succ k =>
    obtain ⟨groups, hgr, _⟩ := mangleLayer_succ_ok hm
    obtain ⟨_, _, _, hall⟩ := mangleLayer_groups k m fs groups hgr
    intro f hf
    obtain ⟨outs, _, ho, _⟩ := hall f hf
    exact ⟨outs, ho⟩

/-- the single output of a one-output mangler -/
def soleOut (m : Mangler) (f : FT) : FT :=
  match m.mangle f.1 f.2 with
  | .ok [o] => o
  | _ => f

/-- a layer of a type-preserving, value-preserving one-output mangler over fields that are not
recursed into (leaves): the values pass unchanged, the field types stay -/
theorem unmangleLayer_idTy {m : Mangler}
    (hmt : ∀ h t outs, m.mangle h t = .ok outs → ∃ h', outs = [(h', t)])
    (hun : ∀ h t (fvs : List (FT × Val)), m.unmangle h t fvs = firstVal (fun _ v => .ok v) h t (fvs.map (·.2)))
    (fuel : Nat) (fs fs' : List FT) (vals : List Val) (hm : mangleLayer fuel m fs = .ok fs')
    (hleaf : ∀ f ∈ fs, structish f.2 = none) (hl : vals.length = fs.length) :
    unmangleLayer fuel m fs vals = .ok vals ∧ fs' = fs.map (soleOut m) ∧ ∀ f, (soleOut m f).2 = f.2 := by
  have hty : ∀ f, (soleOut m f).2 = f.2 := by
    intro f
    simp only [soleOut]
    split
    · rename_i o ho
      obtain ⟨h', he⟩ := hmt f.1 f.2 _ ho
      cases he
      rfl
    · rfl
  have hg : ∀ f ∈ fs, m.mangle f.1 f.2 = .ok [soleOut m f] := by
    intro f hf
    obtain ⟨outs, ho⟩ := mangleLayer_mangle_ok hm f hf
    obtain ⟨h', rfl⟩ := hmt f.1 f.2 outs ho
    simp only [soleOut, ho]
  have hnr : ∀ f ∈ fs, m.recurse = false ∨ structish (soleOut m f).2 = none := by
    intro f hf
    rw [hty f]
    exact Or.inr (hleaf f hf)
  refine ⟨?_, mangleLayer_single_noRec _ fuel fs fs' hm hg hnr, hty⟩
  rw [unmangleLayer_single hun _ fuel fs fs' vals hm hg hnr hl]
  have := mapM'_ok_of_forall (fun (p : FT × Val) => firstVal (fun _ v => Outcome.ok v) p.1.1 p.1.2 [p.2])
    (·.2) (fs.zip vals) (fun p _ => rfl)
  rw [this, map_snd_zip_eq fs vals hl]

theorem tagCopy_unmangle_eq (src new : String) (h : Hdr) (t : Ty) (fvs : List (FT × Val)) :
    (tagCopyMangler src new).unmangle h t fvs = firstVal (fun _ v => .ok v) h t (fvs.map (·.2)) := by
  cases fvs with
  | nil => rfl
  | cons p r => obtain ⟨o, v⟩ := p; rfl

theorem tagReformat_unmangle_eq (tag : String) (dec : List Char → Option (List (List Char)))
    (enc : CaseConv.Scheme) (h : Hdr) (t : Ty) (fvs : List (FT × Val)) :
    (tagReformatMangler tag dec enc).unmangle h t fvs = firstVal (fun _ v => .ok v) h t (fvs.map (·.2)) := by
  cases fvs with
  | nil => rfl
  | cons p r => obtain ⟨o, v⟩ := p; rfl

/-! ### the flatten layer, backwards -/

/-- flatten's `unmangle` on the values of one field's leaves -/
def popUn (fuel : Nat) : Hdr → Ty → List Val → Outcome Val := fun _ t vs =>
  match populate fuel t vs with
  | .ok (v, rest, _) =>
    if rest.isEmpty then .ok v else .err "number of input values not equal to number of struct fields"
  | .err c => .err c
  | .panic c => .panic c

theorem flatten_unmangle_eq (cfg : FlattenCfg) (fuelF : Nat) (h : Hdr) (t : Ty) (fvs : List (FT × Val)) :
    (flattenMangler cfg fuelF).unmangle h t fvs = popUn fuelF h t (fvs.map (·.2)) := rfl

/-- populating every field from its group of leaf values -/
theorem pop_groups (fuelF : Nat) : ∀ (fs1 : List FT) (vals : List Val),
    (∀ f ∈ fs1, tySize f.2 < fuelF) →
    vals.length = (fs1.map fun f => leafN f.2).sum →
    ∃ w1, mapM' (fun (p : FT × List Val) => popUn fuelF p.1.1 p.1.2 p.2)
          (fs1.zip (splitCounts (fs1.map fun f => leafN f.2) vals)) = .ok w1 ∧
      ((fs1.zip w1).map fun p => flatLeaves fuelF p.1.2 p.2).flatten = vals ∧
      All2 (flattenGood fuelF) fs1 w1
  | [], vals, _, hl => by
    have : vals = [] := by simpa using hl
    subst this
    exact ⟨[], by simp [mapM'], rfl, by simp⟩
  | f :: fs, vals, hd, hl => by
    simp only [List.map_cons, List.sum_cons] at hl
    have hl1 : (vals.take (leafN f.2)).length = leafN f.2 := by rw [List.length_take]; omega
    have hl2 : (vals.drop (leafN f.2)).length = (fs.map fun f => leafN f.2).sum := by
      rw [List.length_drop]; omega
    have hsz := hd f (by simp)
    obtain ⟨v, hp, hfl, _⟩ := populate_spec fuelF f.2 hsz (vals.take (leafN f.2)) [] hl1
    rw [List.append_nil] at hp
    obtain ⟨w, hw, hfw, hgw⟩ := pop_groups fuelF fs (vals.drop (leafN f.2))
      (fun g hg => hd g (by simp [hg])) hl2
    have h1 : popUn fuelF f.1 f.2 (vals.take (leafN f.2)) = .ok v := by
      simp only [popUn, hp, List.isEmpty_nil, if_true]
    refine ⟨v :: w, ?_, ?_, ?_⟩
    · simp only [List.map_cons, splitCounts, List.zip_cons_cons, mapM', h1, hw]
    · simp only [List.zip_cons_cons, List.map_cons, List.flatten_cons, hfl, hfw, List.take_append_drop]
    · simp only [All2_cons]
      exact ⟨⟨_, _, hl1, hp⟩, hgw⟩

/-- what a value `populate` built reads back as: its leaves are the filling, and it is unset exactly
when all of them are -/
theorem flattenGood_spec {fuelF : Nat} {f : FT} {v : Val} (hsz : tySize f.2 < fuelF)
    (hg : flattenGood fuelF f v) :
    (flatLeaves fuelF f.2 v).length = leafN f.2 ∧
      ((∀ x ∈ flatLeaves fuelF f.2 v, x = Val.nilv) ↔ v = .nilv) := by
  obtain ⟨vals, a, hl, hp⟩ := hg
  obtain ⟨v', hp', hfl, hv⟩ := populate_spec fuelF f.2 hsz vals [] hl
  rw [List.append_nil, hp] at hp'
  cases hp'
  rw [hfl]
  refine ⟨hl, hv, ?_⟩
  intro hn
  subst hn
  rw [flatLeaves_nilv fuelF f.2 hsz] at hfl
  intro x hx
  rw [← hfl] at hx
  exact mem_nils hx

theorem flattenMangle_lengths (cfg : FlattenCfg) (fuelF : Nat) : ∀ (fs1 : List FT) (outss : List (List FT)),
    mapM' (fun (f : FT) => (flattenMangler cfg fuelF).mangle f.1 f.2) fs1 = .ok outss →
    outss.map List.length = fs1.map fun f => leafN f.2
  | [], outss, h => by simp [mapM'] at h; subst h; rfl
  | f :: fs, outss, h => by
    obtain ⟨outs, outss', ho, hos, rfl⟩ := mapM'_cons_ok h
    simp only [List.map_cons, flattenMangle_lengths cfg fuelF fs outss' hos]
    rw [flattenMangle_length cfg fuelF f.1 f.2 outs ho]

theorem mangleLayer_flatten (cfg : FlattenCfg) (fuelF fuel : Nat) (fs1 fs2 : List FT)
    (hm : mangleLayer fuel (flattenMangler cfg fuelF) fs1 = .ok fs2) :
    ∃ outss, mapM' (fun (f : FT) => (flattenMangler cfg fuelF).mangle f.1 f.2) fs1 = .ok outss ∧
      fs2 = outss.flatten ∧ outss.map List.length = fs1.map fun f => leafN f.2 := by
  cases fuel with
  | zero => simp [mangleLayer] at hm
  | succ k =>
    obtain ⟨groups, hgr, rfl⟩ := mangleLayer_succ_ok hm
    have h1 := (mangleLayer_noRec k _ fs1 groups (Or.inl rfl) hgr).1
    exact ⟨groups, h1, rfl, flattenMangle_lengths cfg fuelF fs1 groups h1⟩

/-- the flatten layer on ANY filling of its leaves: every field is populated from its own group of leaf
values -/
theorem unmangleLayer_flatten (cfg : FlattenCfg) (fuelF fuel : Nat) (fs1 fs2 : List FT) (vals : List Val)
    (hm : mangleLayer fuel (flattenMangler cfg fuelF) fs1 = .ok fs2)
    (hd : ∀ f ∈ fs1, tySize f.2 < fuelF)
    (hl : vals.length = fs2.length) :
    ∃ w1, unmangleLayer fuel (flattenMangler cfg fuelF) fs1 vals = .ok w1 ∧
      ((fs1.zip w1).map fun p => flatLeaves fuelF p.1.2 p.2).flatten = vals ∧
      All2 (flattenGood fuelF) fs1 w1 := by
  obtain ⟨outss, ho, rfl, hlen⟩ := mangleLayer_flatten cfg fuelF fuel fs1 fs2 hm
  have hsum : vals.length = (fs1.map fun f => leafN f.2).sum := by
    rw [hl, List.length_flatten, hlen]
  obtain ⟨w1, hw, hfl, hg⟩ := pop_groups fuelF fs1 vals hd hsum
  refine ⟨w1, ?_, hfl, hg⟩
  cases fuel with
  | zero => simp [mangleLayer] at hm
  | succ k =>
    have hrv : All2 (fun o w => ∀ o', recurseType k (flattenMangler cfg fuelF) o = .ok o' →
        recurseVal k (flattenMangler cfg fuelF) o w = .ok w) outss.flatten vals :=
      All2.of_mem hl (fun o w _ o' ho' => recurseVal_noRec w (Or.inl rfl) ho')
    rw [unmangleLayer_vals (flatten_unmangle_eq cfg fuelF) k fs1 _ outss vals hm ho hrv, hlen]
    exact hw

/-! ### a hereditary condition on types, in flatten's view -/

mutual
/-- flatten's view of a type (through pointers and struct fields; slices, arrays, maps are leaves):
every field header below it satisfies `q`, every leaf type `p` (`orig` is the type with its pointers) -/
def tyOK (q : Hdr → Bool) (p : Ty → Bool) : Ty → Ty → Bool
  | orig, .ptr e => tyOK q p orig e
  | _, .struct fs => fieldsOK q p fs
  | orig, _ => p orig
def fieldsOK (q : Hdr → Bool) (p : Ty → Bool) : Fields → Bool
  | .nil => true
  | .cons n tg a t r => q ⟨n, tg, a⟩ && tyOK q p t t && fieldsOK q p r
end

theorem tyOK_struct (q : Hdr → Bool) (p : Ty → Bool) (orig : Ty) : ∀ (t : Ty) (ifs : Fields),
    stripPtrs t = .struct ifs → tyOK q p orig t = fieldsOK q p ifs
  | .ptr e, ifs, h => by simp only [stripPtrs] at h; simp only [tyOK]; exact tyOK_struct q p orig e ifs h
  | .struct fs, ifs, h => by simp [stripPtrs] at h; subst h; simp [tyOK]
  | .basic _ _, _, h => by simp [stripPtrs] at h
  | .dur, _, h | .pdur, _, h | .tu _, _, h | .slice _, _, h | .array _ _, _, h | .map _ _, _, h
  | .set _, _, h => by simp [stripPtrs] at h

theorem tyOK_leaf (q : Hdr → Bool) (p : Ty → Bool) (orig : Ty) : ∀ (t : Ty),
    (∀ ifs, stripPtrs t ≠ .struct ifs) → tyOK q p orig t = p orig
  | .ptr e, h => by simp only [tyOK]; exact tyOK_leaf q p orig e (fun ifs h' => h ifs (by simpa [stripPtrs] using h'))
  | .struct fs, h => absurd rfl (h fs)
  | .basic _ _, _ => by simp [tyOK]
  | .dur, _ | .pdur, _ | .tu _, _ | .slice _, _ | .array _ _, _ | .map _ _, _ | .set _, _ => by simp [tyOK]

theorem fieldsOK_mem (q : Hdr → Bool) (p : Ty → Bool) : ∀ (fs : Fields), fieldsOK q p fs = true →
    ∀ f ∈ fs.toList, q f.1 = true ∧ tyOK q p f.2 f.2 = true
  | .nil, _, f, h => by simp [Fields.toList] at h
  | .cons n tg a t r, hg, f, h => by
    simp only [fieldsOK, Bool.and_eq_true] at hg
    simp only [Fields.toList, List.mem_cons] at h
    rcases h with h | h
    · subst h; exact ⟨hg.1.1, hg.1.2⟩
    · exact fieldsOK_mem q p r hg.2 f h

/-- every flattened leaf of a struct's fields has a type satisfying `p` -/
theorem flattenStruct_leafTy (cfg : FlattenCfg) (q : Hdr → Bool) (p : Ty → Bool) :
    ∀ (fuel : Nat) (names words path : List String) (fs : List FT) (outs : List FT),
    flattenStruct cfg fuel names words path fs = .ok outs → (∀ f ∈ fs, tyOK q p f.2 f.2 = true) →
    ∀ o ∈ outs, p o.2 = true
  | 0, _, _, _, _, _, h, _ => by simp [flattenStruct] at h
  | _ + 1, _, _, _, [], outs, h, _ => by
    simp [flattenStruct] at h; subst h; simp
  | fuel + 1, names, words, path, (nh, nt) :: rest, outs, h, hok => by
    simp only [flattenStruct] at h
    split at h
    · cases h
    · cases h
    · rename_i tags words' _
      split at h
      · rename_i a b ha hb
        cases h
        have hb' := flattenStruct_leafTy cfg q p fuel names words path rest b hb
          (fun f hf => hok f (by simp [hf]))
        have h0 := hok (nh, nt) (by simp)
        intro o ho
        rcases List.mem_append.1 ho with ho | ho
        · split at ha
          · rename_i ifs hs
            simp only at h0
            rw [tyOK_struct q p nt nt ifs hs] at h0
            exact flattenStruct_leafTy cfg q p fuel _ _ _ _ a ha
              (fun f hf => (fieldsOK_mem q p ifs h0 f hf).2) o ho
          · rename_i hs
            cases ha
            simp only [List.mem_singleton] at ho
            subst ho
            simp only at h0 ⊢
            rw [tyOK_leaf q p nt nt (fun ifs h => hs ifs h)] at h0
            exact h0
        · exact hb' o ho
      all_goals cases h

theorem flattenMangle_leafTy (cfg : FlattenCfg) (q : Hdr → Bool) (p : Ty → Bool) (fuel : Nat) (h : Hdr) (t : Ty)
    (outs : List FT) (hm : flattenMangle cfg fuel h t = .ok outs) (hok : tyOK q p t t = true) :
    ∀ o ∈ outs, p o.2 = true := by
  simp only [flattenMangle] at hm
  split at hm
  · cases hm
  · split at hm
    · cases hm
    · cases hm
    · split at hm
      · rename_i ifs hs
        rw [tyOK_struct q p t t ifs hs] at hok
        exact flattenStruct_leafTy cfg q p fuel _ _ _ _ outs hm (fun f hf => (fieldsOK_mem q p ifs hok f hf).2)
      · rename_i hs
        cases hm
        intro o ho
        simp only [List.mem_singleton] at ho
        subst ho
        rw [tyOK_leaf q p t t (fun ifs h => hs ifs h)] at hok
        exact hok

/-- the flatten layer: every translated field's type is a leaf type satisfying `p` -/
theorem mangleLayer_flatten_leafTy (cfg : FlattenCfg) (q : Hdr → Bool) (p : Ty → Bool) (fuelF fuel : Nat)
    (fs1 fs2 : List FT) (hm : mangleLayer fuel (flattenMangler cfg fuelF) fs1 = .ok fs2)
    (hok : ∀ f ∈ fs1, tyOK q p f.2 f.2 = true) : ∀ o ∈ fs2, p o.2 = true := by
  obtain ⟨outss, ho, rfl, _⟩ := mangleLayer_flatten cfg fuelF fuel fs1 fs2 hm
  intro o hmem
  obtain ⟨g, hg, hog⟩ := List.mem_flatten.1 hmem
  obtain ⟨f, hf, hfg⟩ := mapM'_mem_result ho g hg
  exact flattenMangle_leafTy cfg q p fuelF f.1 f.2 g hfg (hok f hf) o hog

/-! ### the alias layer where nothing below the top level carries an alias tag -/

def notAliased (tags : List String) : Hdr → Bool := fun h => !isAliased tags h

/-- leaf types nothing recurses into: not a slice / array of structs -/
def leafTyOK : Ty → Bool := fun t => (structish t).isNone

/-- the condition on a config field's TYPE: below it (through pointers and struct fields) no field
carries an alias tag, no leaf is a slice / array of structs, and every struct sits behind a pointer.
(The last ingredient is no longer needed by the flatten layer — since the repair of P02 `populate`
restores structs held by value, `pop_groups` / `unmangleLayer_flatten` — but by the alias layer on top of
it: `populate` leaves an unset by-value struct as `nilv`, which the recursing alias mangler's
`recurseVal` rejects at a struct type — the `nilv` artefact, `Total.envValue_panics_value_struct_sibling`.) -/
def EnvTy (tags : List String) (t : Ty) : Prop :=
  tyOK (notAliased tags) leafTyOK t t = true ∧ structsBehindPtr t = true

theorem ofList_toList : ∀ (fs : Fields), Fields.ofList fs.toList = fs
  | .nil => rfl
  | .cons n tg a t r => by simp [Fields.toList, Fields.ofList, ofList_toList r]

theorem mapM'_singletons {F : FT → Outcome (List FT)} : ∀ (fs : List FT) (groups : List (List FT)),
    (∀ f ∈ fs, F f = .ok [f]) → mapM' F fs = .ok groups → groups.flatten = fs := by
  intro fs groups h hg
  rw [mapM'_ok_of_forall F (fun f => [f]) fs h] at hg
  cases hg
  have := flatten_map_singleton (fun (f : FT) => f) fs
  simpa using this

/-- EnvTy for the fields of the struct behind a pointer -/
theorem EnvTy_fields {tags : List String} {ifs : Fields} (h : EnvTy tags (.ptr (.struct ifs))) :
    ∀ f ∈ ifs.toList, isAliased tags f.1 = false ∧ EnvTy tags f.2 := by
  obtain ⟨h1, h2⟩ := h
  simp only [tyOK] at h1
  simp only [structsBehindPtr, underPtr] at h2
  intro f hf
  obtain ⟨hq, ht⟩ := fieldsOK_mem _ _ ifs h1 f hf
  refine ⟨by simpa [notAliased] using hq, ht, fieldsBehindPtr_mem ifs h2 f hf⟩

/-- a struct-ish `EnvTy` type is a pointer to a struct -/
theorem EnvTy_structish {tags : List String} {t : Ty} {ifs : Fields} {wrap : Ty → Ty} (h : EnvTy tags t)
    (hs : structish t = some (ifs, wrap)) : t = .ptr (.struct ifs) ∧ wrap = Ty.ptr := by
  obtain ⟨h1, h2⟩ := h
  rcases structish_some hs with rfl | rfl | rfl | ⟨n, rfl⟩
  · simp [structsBehindPtr] at h2
  · simp only [structish, Option.some.injEq, Prod.mk.injEq, true_and] at hs
    exact ⟨rfl, hs.symm⟩
  · simp [tyOK, leafTyOK, structish] at h1
  · simp [tyOK, leafTyOK, structish] at h1

/-- the alias mangler's recursion changes nothing below an `EnvTy` type -/
theorem alias_rec_id (tags : List String) : ∀ (fuel : Nat),
    (∀ (fs r : List FT), mangleLayer fuel (aliasMangler tags) fs = .ok r →
      (∀ f ∈ fs, isAliased tags f.1 = false ∧ EnvTy tags f.2) → r = fs) ∧
    (∀ (h : Hdr) (t : Ty) (o' : FT), recurseType fuel (aliasMangler tags) (h, t) = .ok o' →
      EnvTy tags t → o' = (h, t))
  | 0 => by
    constructor
    · intro fs r hm; simp [mangleLayer] at hm
    · intro h t o' ht; simp [recurseType] at ht
  | fuel + 1 => by
    obtain ⟨ihP, ihQ⟩ := alias_rec_id tags fuel
    constructor
    · intro fs r hm hok
      obtain ⟨groups, hg, rfl⟩ := mangleLayer_succ_ok hm
      apply mapM'_singletons fs groups _ hg
      intro f hf
      obtain ⟨h, t⟩ := f
      obtain ⟨ha, hty⟩ := hok (h, t) hf
      rcases aliasMangle_shape tags h t with ⟨_, hs⟩ | ⟨ha', _⟩
      · have hs' : (aliasMangler tags).mangle h t = .ok [(h, t)] := hs
        obtain ⟨b, hb⟩ := mapM'_mem_ok hg (h, t) hf
        simp only [hs'] at hb ⊢
        obtain ⟨o', r', ho', hr', rfl⟩ := mapM'_cons_ok hb
        rw [ihQ h t o' ho' hty] at ho'
        simp only [mapM', ho']
      · simp only at ha
        rw [ha] at ha'; cases ha'
    · intro h t o' ht hty
      cases hs : structish t with
      | none =>
        rw [recurseType_id fuel _ (h, t) (Or.inr hs)] at ht
        cases ht; rfl
      | some x =>
        obtain ⟨ifs, wrap⟩ := x
        obtain ⟨r, hr, rfl⟩ := recurseType_alias_struct hs ht
        obtain ⟨rfl, rfl⟩ := EnvTy_structish hty hs
        rw [ihP ifs.toList r hr (EnvTy_fields hty), ofList_toList]

/-- the local condition "this field carries no alias tag" -/
def noAliasP (tags : List String) : Hdr → Ty → Val → Prop := fun h _ _ => isAliased tags h = false

/-- the field loop of `populate`: the field values it appends are hereditarily alias-free -/
theorem populate_fields_hered (tags : List String) (fuel : Nat)
    (ih : ∀ t, tySize t < fuel + 1 → EnvTy tags t → ∀ vals v rest a,
      populate (fuel + 1) t vals = .ok (v, rest, a) → Hered (noAliasP tags) t v) :
    ∀ (fs : List FT), (∀ f ∈ fs, tySize f.2 < fuel + 1 ∧ isAliased tags f.1 = false ∧ EnvTy tags f.2) →
    ∀ (fl : Nat) (vals acc : List Val) (any : Bool) (res rest' : List Val) (any' : Bool),
      populate.fields (fuel + 1) fl fs vals acc any = .ok (res, rest', any') →
      ∃ fvs, res = acc ++ fvs ∧ All2 (HG (noAliasP tags)) fs fvs := by
  intro fs
  induction fs with
  | nil =>
    intro _ fl vals acc any res rest' any' hp
    cases fl with
    | zero => unfold populate.fields at hp; cases hp
    | succ fl =>
      unfold populate.fields at hp
      cases hp
      exact ⟨[], by simp, by simp⟩
  | cons f fs ihfs =>
    intro hok fl vals acc any res rest' any' hp
    cases fl with
    | zero => unfold populate.fields at hp; cases hp
    | succ fl =>
      rw [populate_fields_step] at hp
      obtain ⟨hsz, hna, hty⟩ := hok f (by simp)
      cases hpf : populate (fuel + 1) f.2 vals with
      | ok x =>
        obtain ⟨v, vals', a⟩ := x
        rw [hpf] at hp
        simp only at hp
        obtain ⟨fvs, hres, hall⟩ := ihfs (fun g hg => hok g (by simp [hg])) fl vals' (acc ++ [v]) (any || a)
          res rest' any' hp
        refine ⟨v :: fvs, by rw [hres, List.append_assoc]; rfl, ?_⟩
        simp only [All2_cons]
        exact ⟨⟨hna, ih f.2 hsz hty vals v vals' a hpf⟩, hall⟩
      | err c => rw [hpf] at hp; cases hp
      | panic c => rw [hpf] at hp; cases hp

/-- the value `populate` builds for an `EnvTy` type is well shaped for the alias mangler's recursion,
and no field of a struct value in it carries an alias tag -/
theorem populate_hered (tags : List String) : ∀ (fuel : Nat) (t : Ty), tySize t < fuel → EnvTy tags t →
    ∀ (vals : List Val) (v : Val) (rest : List Val) (a : Bool),
      populate fuel t vals = .ok (v, rest, a) → Hered (noAliasP tags) t v
  | 0, _, h, _ => by omega
  | 1, t, h, _ => by
    exfalso
    cases t <;> simp [tySize] at h
  | fuel + 2, t, h, hty => by
    intro vals v rest a hp
    cases hst : structish t with
    | none => exact Hered_of_not_structish _ hst v
    | some x =>
      obtain ⟨ifs, wrap⟩ := x
      obtain ⟨rfl, _⟩ := EnvTy_structish hty hst
      have hs : stripPtrs (.ptr (.struct ifs)) = .struct ifs := rfl
      rw [populate_struct hs] at hp
      have hflds : ∀ f ∈ ifs.toList, tySize f.2 < fuel + 1 ∧ isAliased tags f.1 = false ∧ EnvTy tags f.2 := by
        intro f hf
        have := tySize_field_lt hs hf
        obtain ⟨h1, h2⟩ := EnvTy_fields hty f hf
        exact ⟨by omega, h1, h2⟩
      cases hpf : populate.fields (fuel + 1) (ifs.toList.length + 1) ifs.toList vals [] false with
      | ok y =>
        obtain ⟨fvs, vals', any⟩ := y
        rw [hpf] at hp
        simp only at hp
        obtain ⟨fvs', hres, hall⟩ := populate_fields_hered tags fuel
          (fun t' h' hty' => populate_hered tags (fuel + 1) t' h' hty') ifs.toList hflds _ vals [] false
          fvs vals' any hpf
        rw [List.nil_append] at hres
        subst hres
        cases any with
        | true =>
          simp only [if_true, ptrDepth, Outcome.ok.injEq, Prod.mk.injEq] at hp
          obtain ⟨rfl, _, _⟩ := hp
          simp only [wrapPtrs, Hered_ptr_struct]
          exact All2_HeredFs _ ifs fvs hall
        | false =>
          simp only [Bool.false_eq_true, if_false, Outcome.ok.injEq, Prod.mk.injEq] at hp
          obtain ⟨rfl, _, _⟩ := hp
          simp [Hered]
      | err c => rw [hpf] at hp; cases hp
      | panic c => rw [hpf] at hp; cases hp

/-- the alias mangler on alias-free fields (hereditarily): the identity encoder -/
def losslessAliasNone (tags : List String) :
    Lossless (aliasMangler tags) (fun _ => True) (HG (noAliasP tags)) where
  enc := fun _ _ v => [v]
  len := by
    intro f _ outs hm v hg
    simp only [aliasMangler] at hm
    rcases aliasMangle_shape tags f.1 f.2 with ⟨_, hs⟩ | ⟨ha, _⟩
    · rw [hs] at hm; cases hm; rfl
    · have := hg.1; simp only [noAliasP] at this; rw [this] at ha; cases ha
  inv := by
    intro f _ outs hm v hg outs' hl
    simp only [aliasMangler] at hm ⊢
    rcases aliasMangle_shape tags f.1 f.2 with ⟨_, hs⟩ | ⟨ha, _⟩
    · rw [hs] at hm; cases hm
      match outs', hl with
      | [o'], _ => rfl
    · have := hg.1; simp only [noAliasP] at this; rw [this] at ha; cases ha
  sub := by
    intro _ f _ outs hm v hg o w hmem ifs wrap hst
    simp only [aliasMangler] at hm
    rcases aliasMangle_shape tags f.1 f.2 with ⟨_, hs⟩ | ⟨ha, _⟩
    · rw [hs] at hm; cases hm
      simp only [List.zip_cons_cons, List.zip_nil_right, List.mem_singleton, Prod.mk.injEq] at hmem
      obtain ⟨rfl, rfl⟩ := hmem
      exact HG_sub hst hg.2
    · have := hg.1; simp only [noAliasP] at this; rw [this] at ha; cases ha

/-- the alias mangler's recursion leaves a hereditarily alias-free value alone -/
theorem alias_recurseVal_id (tags : List String) (k : Nat) (o o' : FT) (w : Val)
    (ht : recurseType k (aliasMangler tags) o = .ok o') (hh : Hered (noAliasP tags) o.2 w) :
    recurseVal k (aliasMangler tags) o w = .ok w := by
  have hsh : (aliasMangler tags).recurse = true → ∀ ifs wrap, structish o.2 = some (ifs, wrap) →
      Shaped (All2 fun g x => True ∧ HG (noAliasP tags) g x) ifs o.2 w :=
    fun _ ifs wrap hs => HG_sub hs hh
  have e := (encLayer_id (losslessAliasNone tags) (fun _ _ _ => rfl) k).2 o o' w ht hsh
  have r := (unmangleLayer_encLayer (losslessAliasNone tags) k).2 o o' w ht hsh
  rw [e] at r
  exact r

/-- the alias mangler's `unmangle` on the values of a field's one or two translated fields: a single
value passes; of two, the set one wins, and both set is an error -/
def aliasPick : Hdr → Ty → List Val → Outcome Val := fun h t vs =>
  match vs with
  | [v] => .ok v
  | [v1, v2] =>
    if !isUnsetAt t v1 && !isUnsetAt t v2 then .err ("both alias and original set for field " ++ h.name)
    else if !isUnsetAt t v1 then .ok v1
    else if !isUnsetAt t v2 then .ok v2
    else .ok v1
  | _ => .err "expected 1 or 2 tuples"

theorem alias_unmangle_eq (tags : List String) (h : Hdr) (t : Ty) (fvs : List (FT × Val)) :
    (aliasMangler tags).unmangle h t fvs = aliasPick h t (fvs.map (·.2)) := by
  match fvs with
  | [] => rfl
  | [(_, _)] => rfl
  | [(_, _), (_, _)] => rfl
  | _ :: _ :: _ :: _ => rfl

/-- number of translated fields of a top-level field under the alias mangler -/
def aliasCount (tags : List String) (f : FT) : Nat := if isAliased tags f.1 then 2 else 1

/-- the alias layer over fields with `EnvTy` types: the recursion changes nothing, so the translated
fields are the alias mangler's own outputs — the field itself, or its primary and alias copies, all
of the field's type -/
theorem alias_groups (tags : List String) (k : Nat) : ∀ (fs : List FT) (groups : List (List FT)),
    mapM' (fun (f : FT) =>
      match (aliasMangler tags).mangle f.1 f.2 with
      | .ok outs => mapM' (recurseType k (aliasMangler tags)) outs
      | .err c => .err c
      | .panic c => .panic c) fs = .ok groups →
    (∀ f ∈ fs, EnvTy tags f.2) →
    mapM' (fun (f : FT) => (aliasMangler tags).mangle f.1 f.2) fs = .ok groups ∧
      groups.map List.length = fs.map (aliasCount tags) ∧
      ∀ g ∈ groups, ∀ o ∈ g, ∃ f ∈ fs, o.2 = f.2
  | [], groups, h, _ => by
    simp [mapM'] at h; subst h; simp [mapM']
  | f :: fs, groups, h, hty => by
    obtain ⟨b, bs, hb, hbs, rfl⟩ := mapM'_cons_ok h
    obtain ⟨ih1, ih2, ih3⟩ := alias_groups tags k fs bs hbs (fun g hg => hty g (by simp [hg]))
    obtain ⟨hd, t⟩ := f
    have ht := hty (hd, t) (by simp)
    simp only at ht
    rcases aliasMangle_shape tags hd t with ⟨ha, hs⟩ | ⟨ha, h1, h2, hs⟩
    · have hs' : (aliasMangler tags).mangle hd t = .ok [(hd, t)] := hs
      simp only [hs'] at hb
      obtain ⟨o', r', ho', hr', rfl⟩ := mapM'_cons_ok hb
      simp [mapM'] at hr'; subst hr'
      rw [(alias_rec_id tags k).2 hd t o' ho' ht]
      refine ⟨by simp only [mapM', hs', ih1], by simp [ih2, aliasCount, ha], ?_⟩
      intro g hg o ho
      rcases List.mem_cons.1 hg with rfl | hg
      · simp only [List.mem_singleton] at ho; subst ho; exact ⟨(hd, t), by simp, rfl⟩
      · obtain ⟨f', hf', e⟩ := ih3 g hg o ho
        exact ⟨f', by simp [hf'], e⟩
    · have hs' : (aliasMangler tags).mangle hd t = .ok [(h1, t), (h2, t)] := hs
      simp only [hs'] at hb
      obtain ⟨o1', r', ho1', hr', rfl⟩ := mapM'_cons_ok hb
      obtain ⟨o2', r'', ho2', hr'', rfl⟩ := mapM'_cons_ok hr'
      simp [mapM'] at hr''; subst hr''
      rw [(alias_rec_id tags k).2 h1 t o1' ho1' ht, (alias_rec_id tags k).2 h2 t o2' ho2' ht]
      refine ⟨by simp only [mapM', hs', ih1], by simp [ih2, aliasCount, ha], ?_⟩
      intro g hg o ho
      rcases List.mem_cons.1 hg with rfl | hg
      · simp only [List.mem_cons, List.not_mem_nil, or_false] at ho
        rcases ho with rfl | rfl <;> exact ⟨(hd, t), by simp, rfl⟩
      · obtain ⟨f', hf', e⟩ := ih3 g hg o ho
        exact ⟨f', by simp [hf'], e⟩

/-- THE ALIAS LAYER, backwards, for top-level aliases: with hereditarily alias-free, well-shaped values
for the translated fields, every field takes the value of its own translated field, or — if it
carries an alias tag — `aliasPick` of the values of its primary and alias copies -/
theorem unmangleLayer_alias_top (tags : List String) (fuel : Nat) (fs fs1 : List FT) (w1 : List Val)
    (hm : mangleLayer fuel (aliasMangler tags) fs = .ok fs1)
    (hty : ∀ f ∈ fs, EnvTy tags f.2)
    (hw : All2 (fun o w => Hered (noAliasP tags) o.2 w) fs1 w1) :
    unmangleLayer fuel (aliasMangler tags) fs w1 =
      mapM' (fun (p : FT × List Val) => aliasPick p.1.1 p.1.2 p.2)
        (fs.zip (splitCounts (fs.map (aliasCount tags)) w1)) := by
  cases fuel with
  | zero => simp [mangleLayer] at hm
  | succ k =>
    obtain ⟨groups, hg, rfl⟩ := mangleLayer_succ_ok hm
    obtain ⟨ho, hlen, _⟩ := alias_groups tags k fs groups hg hty
    have hrv : All2 (fun o w => ∀ o', recurseType k (aliasMangler tags) o = .ok o' →
        recurseVal k (aliasMangler tags) o w = .ok w) groups.flatten w1 :=
      All2.mono (fun o w hh o' ho' => alias_recurseVal_id tags k o o' w ho' hh) hw
    rw [unmangleLayer_vals (alias_unmangle_eq tags) k fs _ groups w1 hm ho hrv, hlen]

/-- the translated fields of the alias layer: count and types -/
theorem mangleLayer_alias_top (tags : List String) (fuel : Nat) (fs fs1 : List FT)
    (hm : mangleLayer fuel (aliasMangler tags) fs = .ok fs1) (hty : ∀ f ∈ fs, EnvTy tags f.2) :
    fs1.length = (fs.map (aliasCount tags)).sum ∧ ∀ o ∈ fs1, ∃ f ∈ fs, o.2 = f.2 := by
  cases fuel with
  | zero => simp [mangleLayer] at hm
  | succ k =>
    obtain ⟨groups, hg, rfl⟩ := mangleLayer_succ_ok hm
    obtain ⟨_, hlen, htys⟩ := alias_groups tags k fs groups hg hty
    refine ⟨by rw [List.length_flatten, hlen], ?_⟩
    intro o ho
    obtain ⟨g, hgm, hog⟩ := List.mem_flatten.1 ho
    exact htys g hgm o hog

/-! ### the environment source's filling of the translated fields -/

/-- the translated value of one field: a pointer to the text of its variable, or unset -/
def envFillOne (pfx : String) (lookup : String → Option String) (f : FT) : Val :=
  match lookup (envKey pfx f) with
  | some txt => .ptr (.s txt)
  | none => .nilv

/-- the filling the environment source hands to ReverseTranslate -/
def envFill (pfx : String) (lookup : String → Option String) (tfs : List FT) : List Val :=
  tfs.map (envFillOne pfx lookup)

theorem envField_ok (pfx : String) (lookup : String → Option String) (f : FT)
    (htag : ∃ name, tagGet f.1.tags "dialsenv" = some name ∧ name ≠ "") :
    envField pfx lookup f = .ok (envFillOne pfx lookup f) := by
  obtain ⟨name, hg, hne⟩ := htag
  unfold envField
  split
  · next heq => rw [hg] at heq; cases heq
  · next heq => rw [hg] at heq; injection heq with heq; exact absurd heq hne
  · next name' _ heq =>
    rw [hg] at heq; injection heq with heq; subst heq
    have hk : envKey pfx f = (if pfx == "" then name else pfx ++ "_" ++ name) := by simp [envKey, hg]
    simp only [envFillOne, hk]
    cases lookup (if pfx == "" then name else pfx ++ "_" ++ name) <;> rfl

/-- the value of one flattened leaf field `f` (the field entering string cast): unset if its variable
is absent, else the parse of the variable's text at the leaf's cast type — boxed for a
pointer-to-collection leaf —, and an error if the text does not parse -/
def envLeaf (pfx : String) (lookup : String → Option String) (parse : String → Ty → Outcome Val) (f : FT) :
    Outcome Val :=
  match lookup (envKey pfx f) with
  | none => .ok .nilv
  | some txt =>
    match parse txt (scCastTo f.2) with
    | .ok u => .ok (if scBoxed f.2 then .ptr u else u)
    | .err c => .err c
    | .panic c => .panic c

theorem scUn_envFillOne (pfx : String) (lookup : String → Option String) (parse : String → Ty → Outcome Val)
    (f : FT) (hel : hasElemTy f.2 = true) :
    scUn parse f.2 (envFillOne pfx lookup (f.1, strPtrTy)) = envLeaf pfx lookup parse f := by
  have hk : envKey pfx (f.1, strPtrTy) = envKey pfx f := rfl
  simp only [envFillOne, envLeaf, hk]
  cases lookup (envKey pfx f) with
  | none => rfl
  | some txt => simp only [scUn, hel, Bool.not_true, Bool.false_eq_true, if_false]

theorem zip_map_self {α β} (g : α → β) : ∀ (xs : List α), xs.zip (xs.map g) = xs.map fun x => (x, g x)
  | [] => rfl
  | x :: xs => by simp only [List.map_cons, List.zip_cons_cons, zip_map_self g xs]

/-- the string-cast layer on the environment's filling: every leaf's own variable, parsed -/
theorem scUn_envFill (pfx : String) (lookup : String → Option String) (parse : String → Ty → Outcome Val)
    (fs4 : List FT) (hel : ∀ f ∈ fs4, hasElemTy f.2 = true) :
    mapM' (fun (p : FT × Val) => scUn parse p.1.2 p.2)
        (fs4.zip (envFill pfx lookup (fs4.map fun f => (f.1, strPtrTy)))) =
      mapM' (envLeaf pfx lookup parse) fs4 := by
  rw [envFill, List.map_map, zip_map_self, mapM'_map]
  exact mapM'_congr _ _ fs4 (fun f hf => scUn_envFillOne pfx lookup parse f (hel f hf))

/-! ### the chain -/

/-- `reverse` of a chain with one more mangler in front, whatever the rest returns -/
theorem reverse_cons_eq {fuel : Nat} {m : Mangler} {ms : List Mangler} {fs fs' : List FT} (vals : List Val)
    (hm : mangleLayer fuel m fs = .ok fs') :
    reverse fuel (m :: ms) fs vals =
      match reverse fuel ms fs' vals with
      | .ok r => unmangleLayer fuel m fs r
      | .err c => .err c
      | .panic c => .panic c := by
  cases hl : layers fuel ms fs' with
  | ok ls =>
    have hl' : layers fuel (m :: ms) fs = .ok ((m, fs) :: ls) := by simp [layers, hm, hl]
    rw [reverse_eq fuel (m :: ms) fs vals _ hl', reverse_eq fuel ms fs' vals ls hl]
    simp only [reverseFold, List.foldr_cons]
    cases List.foldr (fun (l : Mangler × List FT) acc =>
      match acc with
      | .ok vs => unmangleLayer fuel l.1 l.2 vs
      | e => e) (Outcome.ok vals) ls <;> rfl
  | err c => simp [reverse, layers, hm, hl]
  | panic c => simp [reverse, layers, hm, hl]

theorem reverse_nil (fuel : Nat) (fs : List FT) (vals : List Val) : reverse fuel [] fs vals = .ok vals := rfl

/-- the env source's mangler chain (`C10_env_chain_is_shipped`: the shipped one for
`tags = ["dials", "dialsenv"]`, …) -/
def envChain (tags : List String) (cfg : FlattenCfg) (fuelF : Nat) (tag : String)
    (dec : List Char → Option (List (List Char))) (enc : CaseConv.Scheme) (src new : String)
    (parse : String → Ty → Outcome Val) : List Mangler :=
  [aliasMangler tags, flattenMangler cfg fuelF, tagReformatMangler tag dec enc, tagCopyMangler src new,
    stringCastMangler parse]

/-- the field lists between the layers of the env chain: `fs1` after alias, `fs2` after flatten (the
leaves), `fs3` after tag reformat, `fs4` after tag copy (the fields entering string cast), `tfs` the
translated fields -/
structure EnvLayers (tags : List String) (cfg : FlattenCfg) (fuelF fuel : Nat) (tag : String)
    (dec : List Char → Option (List (List Char))) (enc : CaseConv.Scheme) (src new : String)
    (parse : String → Ty → Outcome Val) (fs fs1 fs2 fs3 fs4 tfs : List FT) : Prop where
  h1 : mangleLayer fuel (aliasMangler tags) fs = .ok fs1
  h2 : mangleLayer fuel (flattenMangler cfg fuelF) fs1 = .ok fs2
  h3 : mangleLayer fuel (tagReformatMangler tag dec enc) fs2 = .ok fs3
  h4 : mangleLayer fuel (tagCopyMangler src new) fs3 = .ok fs4
  h5 : mangleLayer fuel (stringCastMangler parse) fs4 = .ok tfs

section Chain
variable {tags : List String} {cfg : FlattenCfg} {fuelF fuel : Nat} {tag : String}
  {dec : List Char → Option (List (List Char))} {enc : CaseConv.Scheme} {src new : String}
  {parse : String → Ty → Outcome Val} {fs fs1 fs2 fs3 fs4 tfs : List FT}

theorem EnvLayers.translate (L : EnvLayers tags cfg fuelF fuel tag dec enc src new parse fs fs1 fs2 fs3 fs4 tfs) :
    translate fuel (envChain tags cfg fuelF tag dec enc src new parse) fs = .ok tfs := by
  simp only [envChain, Tf.translate, L.h1, L.h2, L.h3, L.h4, L.h5]

theorem translate_cons_inv {fuel : Nat} {m : Mangler} {ms : List Mangler} {fs tfs : List FT}
    (h : Tf.translate fuel (m :: ms) fs = .ok tfs) :
    ∃ fs', mangleLayer fuel m fs = .ok fs' ∧ Tf.translate fuel ms fs' = .ok tfs := by
  simp only [Tf.translate] at h
  split at h
  · rename_i fs' hm
    exact ⟨fs', hm, h⟩
  · cases h
  · cases h

/-- a successful TranslateType of the env chain has its five layers -/
theorem EnvLayers.of_translate
    (h : Tf.translate fuel (envChain tags cfg fuelF tag dec enc src new parse) fs = .ok tfs) :
    ∃ fs1 fs2 fs3 fs4, EnvLayers tags cfg fuelF fuel tag dec enc src new parse fs fs1 fs2 fs3 fs4 tfs := by
  obtain ⟨fs1, h1, h⟩ := translate_cons_inv h
  obtain ⟨fs2, h2, h⟩ := translate_cons_inv h
  obtain ⟨fs3, h3, h⟩ := translate_cons_inv h
  obtain ⟨fs4, h4, h⟩ := translate_cons_inv h
  obtain ⟨tfs', h5, h⟩ := translate_cons_inv h
  simp only [Tf.translate] at h
  cases h
  exact ⟨fs1, fs2, fs3, fs4, ⟨h1, h2, h3, h4, h5⟩⟩

/-- what the type hypotheses give for the intermediate field lists -/
theorem EnvLayers.facts (L : EnvLayers tags cfg fuelF fuel tag dec enc src new parse fs fs1 fs2 fs3 fs4 tfs)
    (hty : ∀ f ∈ fs, EnvTy tags f.2) (hsz : ∀ f ∈ fs, tySize f.2 < fuelF) :
    (∀ o ∈ fs1, tySize o.2 < fuelF ∧ EnvTy tags o.2) ∧
    (∀ o ∈ fs2, structish o.2 = none) ∧
    fs3 = fs2.map (soleOut (tagReformatMangler tag dec enc)) ∧
    fs4 = fs3.map (soleOut (tagCopyMangler src new)) ∧
    tfs = fs4.map (fun f => (f.1, strPtrTy)) ∧
    (∀ o ∈ fs3, structish o.2 = none) ∧
    fs4.map (·.2) = fs2.map (·.2) := by
  have hf1 : ∀ o ∈ fs1, tySize o.2 < fuelF ∧ EnvTy tags o.2 := by
    intro o ho
    obtain ⟨f, hf, e⟩ := (mangleLayer_alias_top tags fuel fs fs1 L.h1 hty).2 o ho
    rw [e]
    exact ⟨hsz f hf, hty f hf⟩
  have hleaf2 : ∀ o ∈ fs2, structish o.2 = none := by
    intro o ho
    have := mangleLayer_flatten_leafTy cfg (notAliased tags) leafTyOK fuelF fuel fs1 fs2 L.h2
      (fun f hf => (hf1 f hf).2.1) o ho
    simpa [leafTyOK] using this
  obtain ⟨_, e3, ht3⟩ := unmangleLayer_idTy (tagReformat_mangle_ty tag dec enc) (tagReformat_unmangle_eq tag dec enc)
    fuel fs2 fs3 (nils fs2.length) L.h3 hleaf2 (nils_length _)
  have hleaf3 : ∀ o ∈ fs3, structish o.2 = none := by
    intro o ho
    rw [e3] at ho
    obtain ⟨f, hf, rfl⟩ := List.mem_map.1 ho
    rw [ht3 f]
    exact hleaf2 f hf
  obtain ⟨_, e4, ht4⟩ := unmangleLayer_idTy (tagCopy_mangle_ty src new) (tagCopy_unmangle_eq src new)
    fuel fs3 fs4 (nils fs3.length) L.h4 hleaf3 (nils_length _)
  have e5 := (unmangleLayer_stringCast parse fuel fs4 tfs (nils fs4.length) L.h5 (nils_length _)).2
  refine ⟨hf1, hleaf2, e3, e4, e5, hleaf3, ?_⟩
  rw [e4, e3, List.map_map, List.map_map]
  apply List.map_congr_left
  intro f _
  simp only [Function.comp_apply, ht4, ht3]

/-- REVERSE TRANSLATION OF THE ENV CHAIN on an arbitrary filling `fill` of the translated fields (of
the right length).  String cast turns the filling into leaf values field by field (`scUn`); if one of
them fails, that failure is the result; otherwise tag copy and tag reformat pass the leaf values on,
flatten populates every field of `fs1` from its own group of leaves (`w1`), and the alias layer picks
per top-level field between the values of its primary and alias copies. -/
theorem reverse_envChain (L : EnvLayers tags cfg fuelF fuel tag dec enc src new parse fs fs1 fs2 fs3 fs4 tfs)
    (hty : ∀ f ∈ fs, EnvTy tags f.2) (hsz : ∀ f ∈ fs, tySize f.2 < fuelF)
    (fill : List Val) (hl : fill.length = tfs.length) :
    (∀ c, mapM' (fun (p : FT × Val) => scUn parse p.1.2 p.2) (fs4.zip fill) = .err c →
      reverse fuel (envChain tags cfg fuelF tag dec enc src new parse) fs fill = .err c) ∧
    (∀ c, mapM' (fun (p : FT × Val) => scUn parse p.1.2 p.2) (fs4.zip fill) = .panic c →
      reverse fuel (envChain tags cfg fuelF tag dec enc src new parse) fs fill = .panic c) ∧
    (∀ lv, mapM' (fun (p : FT × Val) => scUn parse p.1.2 p.2) (fs4.zip fill) = .ok lv →
      ∃ w1, ((fs1.zip w1).map fun p => flatLeaves fuelF p.1.2 p.2).flatten = lv ∧
        All2 (flattenGood fuelF) fs1 w1 ∧
        reverse fuel (envChain tags cfg fuelF tag dec enc src new parse) fs fill =
          mapM' (fun (p : FT × List Val) => aliasPick p.1.1 p.1.2 p.2)
            (fs.zip (splitCounts (fs.map (aliasCount tags)) w1))) := by
  obtain ⟨hf1, hleaf2, e3, e4, e5, hleaf3, _⟩ := L.facts hty hsz
  have hl4 : fill.length = fs4.length := by rw [hl, e5, List.length_map]
  have r5 : reverse fuel [stringCastMangler parse] fs4 fill =
      mapM' (fun (p : FT × Val) => scUn parse p.1.2 p.2) (fs4.zip fill) := by
    rw [reverse_cons_eq fill L.h5, reverse_nil]
    exact (unmangleLayer_stringCast parse fuel fs4 tfs fill L.h5 hl4).1
  simp only [envChain]
  rw [reverse_cons_eq fill L.h1, reverse_cons_eq fill L.h2, reverse_cons_eq fill L.h3,
    reverse_cons_eq fill L.h4, r5]
  refine ⟨fun c hc => by rw [hc], fun c hc => by rw [hc], fun lv hc => ?_⟩
  rw [hc]
  simp only
  have hlv4 : lv.length = fs4.length := by
    rw [mapM'_length hc, List.length_zip, hl4, Nat.min_self]
  have hlv3 : lv.length = fs3.length := by rw [hlv4, e4, List.length_map]
  have hlv2 : lv.length = fs2.length := by rw [hlv3, e3, List.length_map]
  rw [(unmangleLayer_idTy (tagCopy_mangle_ty src new) (tagCopy_unmangle_eq src new) fuel fs3 fs4 lv L.h4
    hleaf3 hlv3).1]
  simp only
  rw [(unmangleLayer_idTy (tagReformat_mangle_ty tag dec enc) (tagReformat_unmangle_eq tag dec enc) fuel fs2 fs3 lv
    L.h3 hleaf2 hlv2).1]
  simp only
  obtain ⟨w1, hw, hfl, hg⟩ := unmangleLayer_flatten cfg fuelF fuel fs1 fs2 lv L.h2 (fun o ho => (hf1 o ho).1) hlv2
  rw [hw]
  simp only
  refine ⟨w1, hfl, hg, ?_⟩
  apply unmangleLayer_alias_top tags fuel fs fs1 w1 L.h1 hty
  apply All2.of_mem (All2.length hg)
  intro o w hmem
  obtain ⟨vals, a, _, hp⟩ := All2.mem hg o w hmem
  have ho := hf1 o (List.of_mem_zip hmem).1
  exact populate_hered tags fuelF o.2 ho.1 ho.2 vals w [] a hp

end Chain

end Dials.Tf
