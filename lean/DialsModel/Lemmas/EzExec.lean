/-
Symbolic execution of the ez script (Model/Ez.lean) on the runtime model: the observable summary of
`ezRun`, the tactic that computes it, and the generic fact that every state the script passes
through is a reachable state of the runtime model (so that the theorems of C04–C09 apply to it).
-/
import DialsModel.Model.Ez
import DialsModel.Model.RuntimeSpec

namespace Dials.Ez
open Dials Dials.Runtime

/-- nobody but ez's (returned) caller is talking to the monitor -/
def quiet (s : State) : Bool :=
  s.monCtl.isEmpty && s.cancelled.isEmpty &&
    (match s.clients with
     | [(0, .idle)] => true
     | _ => false)

/-- what the property talks about, extracted from the outcome of `ezRun` -/
structure Summary where
  err : Option EzErr
  view : Option Version                 -- the installed version when ez returns
  events : Option (Option Version)      -- content of the Events channel when ez returns
  skip : Option Bool                    -- is verification still switched off?
  verifies : List (Slots × Bool)        -- the Verify() calls: receiver, result
  globals : List Call                   -- OnNewConfig / OnWatchedError calls entered before ez returns
  later : List Call                     -- … and once the callback goroutine has worked off what is queued at return
  received : List Version               -- what ez itself took from Events()
  path : Option Nat                     -- the path handed to the file source
  slots : Option Slots                  -- the monitor's current source values
  idle : Option Bool                    -- the monitor is between two updates
  quiet : Option Bool
  room : Option Bool                    -- the callback queue has room
deriving DecidableEq, Repr

def summary (W : World) (o : Out) : Summary :=
  { err := o.err
    view := o.st.map (·.view)
    events := o.st.map (·.events)
    skip := o.st.map (·.skipVerify)
    verifies := (o.st.map verifyCalls).getD []
    globals := (o.st.map globalCalls).getD []
    later := ((o.st.map (cbQuiesce W 4)).map globalCalls).getD []
    received := (o.st.map eventsReceived).getD []
    path := o.path
    slots := o.st.map (·.slots)
    idle := o.st.map (·.mon.idle)
    quiet := o.st.map quiet
    room := o.st.map cbRoom }

/-- the file-less stack and the full stack, as slot snapshots -/
def baseCfg (E : Env) : Slots := [blankV, E.envV, E.flagV]
def fullCfg (E : Env) (v : Nat) : Slots := [v, E.envV, E.flagV]

/-- Fail-fast guard.  The symbolic executions in Lemmas/Ez*.lean are carried out for exactly this script
(regenerated from ez/ez.go); when the source says something else this lemma fails at once and nothing
downstream is attempted (a stuck symbolic execution would otherwise run for a very long time). -/
theorem script_expected :
    Facts.ezSources = [.blank, .env, .flag] ∧ Facts.ezSetSourceOn = .blank ∧
    Facts.ezMainOps = [.config, .deferDone, .view, .configPath, .decoder, .fileSource, .setSource, .enable, .drain] ∧
    Facts.ezNoFileOps = [.enable] ∧
    Facts.ezChecked = [.config, .decoder, .fileSource, .setSource, .enable] ∧ Facts.ezNoFileChecked = [.enable] ∧
    Facts.ezDelay = true ∧ Facts.ezSuppress = true ∧ Facts.ezSkipInitial = false := by
  decide

/-! Unfolding lemmas for fully applied calls only (so that `simp` never unfolds a fuelled loop that is
waiting, partially applied, for a state it does not know yet). -/

theorem monUntilRet_zero (W : World) (r : Run) : monUntilRet W 0 r = none := rfl
theorem monUntilRet_succ (W : World) (n : Nat) (r : Run) :
    monUntilRet W (n + 1) r =
      if isReturned (getC r.st.clients 0) then some r else (r.step W (.runMon 0)).bind (monUntilRet W n) := rfl
theorem Cfg.run_zero (E : Env) (sch : Sched) (c : Cfg) : Cfg.run E sch 0 c = c := rfl
theorem Cfg.run_succ (E : Env) (sch : Sched) (n : Nat) (c : Cfg) :
    Cfg.run E sch (n + 1) c = Cfg.run E sch n (c.step E sch) := rfl
theorem monQuiesce_zero (W : World) (s : State) : monQuiesce W 0 s = s := rfl
theorem monQuiesce_succ (W : World) (n : Nat) (s : State) :
    monQuiesce W (n + 1) s = (step W s (.runMon 0)).elim s (monQuiesce W n) := rfl
theorem cbQuiesce_zero (W : World) (s : State) : cbQuiesce W 0 s = s := rfl
theorem cbQuiesce_succ (W : World) (n : Nat) (s : State) :
    cbQuiesce W (n + 1) s = (step W s .runCb).elim s (cbQuiesce W n) := rfl
theorem Run.stepL_apply (W : World) (l : Label) (r : Run) : Run.stepL W l r = r.step W l := rfl
theorem stepL_apply (W : World) (l : Label) (s : State) : stepL W l s = step W s l := rfl
theorem callFinish_apply (W : World) (r : Run) :
    callFinish W r = match getC r.st.clients 0 with
      | .returned res => (r.step W (.ack 0)).map (fun r' => (r', res))
      | _ => none := rfl

/-- unfold the script and the runtime model's step functions -/
macro "ez_exec" "[" hs:Lean.Parser.Tactic.simpLemma,* "]" : tactic =>
  `(tactic| simp [summary, quiet, MonPc.idle, baseCfg, fullCfg, verifyCalls, globalCalls, eventsReceived, ezRun, Out.of, fuel, Cfg.run_zero, Cfg.run_succ, Cfg.step, Cfg.next, execTok, Run.withSt, Run.stepL_apply, isReturned,
    callFinish_apply, stepL_apply, monUntilRet_zero, monUntilRet_succ, monQuiesce_zero, monQuiesce_succ, cbQuiesce_zero, cbQuiesce_succ,
    Facts.ezMainOps, Facts.ezChecked, Facts.ezNoFileOps, Facts.ezNoFileChecked,
    configInit, ezParams, slots₀, watching₀, fileSlot, Facts.ezSources, Facts.ezSetSourceOn, srcVal, blankV,
    Facts.ezDelay, Facts.ezSuppress, Facts.ezSkipInitial, Facts.initialVerify, Run.attempt, Run.step, Run.attempts,
    step, runMon, runCb, runClient, initState, readyIns, State.isCancelled, call, getC, setC, State.setClient,
    State.ret, State.logAdd, offerW, monTake, State.waitOr, setSlot, Facts.verifyOnUpdate,
    Facts.initialSkipVerify, Facts.nextSerial, replyTo, trySubmit, cbRoom, enqueueCb, cbTake, suppressedNow, Facts.suppressNew,
    enablePre, drainPre, capMonCtl, Facts.capMonCtl, finish, State.blockClient, cbSteps, admitCbSender, admitCtlSender,
    callsFor, finishEv, Facts.globalGate, capCbch, Facts.capCbch, setFalse, laterReport, $hs,*])

/-! ### every state of the script is a reachable state of the runtime model -/

theorem run_append (W : World) (s : State) (l1 l2 : List Label) :
    run W s (l1 ++ l2) = (run W s l1).bind (run W · l2) := by
  induction l1 generalizing s with
  | nil => simp [run]
  | cons l ls ih =>
    simp only [List.cons_append, run]
    cases step W s l with
    | none => simp
    | some s' => simpa using ih s'

theorem reachable_step {W : World} {P : Params} {sl : Slots} {w : List Bool} {s s' : State} {l : Label}
    (hr : Reachable W P sl w s) (h : step W s l = some s') : Reachable W P sl w s' := by
  obtain ⟨ls, hls⟩ := hr
  exact ⟨ls ++ [l], by simp [run_append, hls, run, h]⟩

/-- once Config has returned, the interpreter's runtime state is reachable from Config's initial state -/
def RunReach (E : Env) (r : Run) : Prop :=
  r.started = true → Reachable E.W ezParams (slots₀ E) watching₀ r.st

theorem RunReach.step {E : Env} {r r' : Run} {l : Label} (h : RunReach E r) (hs : r.step E.W l = some r') :
    RunReach E r' := by
  unfold Run.step at hs
  cases hst : Runtime.step E.W r.st l with
  | none => simp [hst] at hs
  | some s' =>
    simp only [hst, Option.map_some, Option.some.injEq] at hs
    subst hs
    intro hstart
    exact reachable_step (h hstart) hst

theorem RunReach.attempt {E : Env} {r : Run} (l : Label) (h : RunReach E r) : RunReach E (r.attempt E.W l) := by
  unfold Run.attempt
  cases hs : r.step E.W l with
  | none => simpa using h
  | some r' => simpa using h.step hs

theorem RunReach.attempts {E : Env} {r : Run} (ls : List Label) (h : RunReach E r) : RunReach E (r.attempts E.W ls) := by
  unfold Run.attempts
  induction ls generalizing r with
  | nil => simpa using h
  | cons l ls ih => simpa using ih (h.attempt l)

theorem RunReach.monUntilRet {E : Env} {n : Nat} {r r' : Run} (h : RunReach E r) (hs : monUntilRet E.W n r = some r') :
    RunReach E r' := by
  induction n generalizing r with
  | zero => simp [Ez.monUntilRet] at hs
  | succ n ih =>
    unfold Ez.monUntilRet at hs
    split at hs
    · cases hs; exact h
    · cases hst : r.step E.W (.runMon 0) with
      | none => simp [hst] at hs
      | some r1 => exact ih (h.step hst) (by simpa [hst] using hs)

theorem RunReach.call {E : Env} {r r' : Run} {op : Op} {res : Res} (h : RunReach E r)
    (hs : Ez.call E.W r op = some (r', res)) : RunReach E r' := by
  unfold Ez.call at hs
  cases h1 : r.step E.W (.begin 0 op 0) with
  | none => simp [h1] at hs
  | some r1 =>
    cases h2 : r1.step E.W (.runClient 0 0) with
    | none => simp [h1, h2, Run.stepL] at hs
    | some r2 =>
      cases h3 : Ez.monUntilRet E.W 8 r2 with
      | none => simp [h1, h2, h3, Run.stepL] at hs
      | some r3 =>
        simp only [h1, h2, h3, Option.bind_some, Run.stepL, callFinish] at hs
        split at hs
        · cases h4 : r3.step E.W (.ack 0) with
          | none => simp [h4] at hs
          | some r4 =>
            simp only [h4, Option.map_some, Option.some.injEq, Prod.mk.injEq] at hs
            obtain ⟨rfl, -⟩ := hs
            exact (((h.step h1).step h2).monUntilRet h3).step h4
        · cases hs

end Dials.Ez
