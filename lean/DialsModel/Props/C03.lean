/-
C03 — Cyclic and shared reference graphs are copied safely and faithfully.
-/
import DialsModel.Model.HeapSpec
import DialsModel.Lemmas.HeapCopy

namespace Dials.C03
open Dials Dials.Heap

/-- more fuel never changes a result -/
theorem C03_fuel_mono (f : Nat) (s : CS) (v : HV) (r : CS × HV) (h : copyV f s v = some r) :
    copyV (f + 1) s v = some r :=
  (fuel_mono_all f).1 s v r h

/-- The copier terminates on every well-formed heap — any number of cells, any edge set: self-loops,
cycles, diamonds, shared maps, references held in slices, arrays, maps and interfaces — provided no
slice contains itself without passing through a pointer or map (finding D17). -/
theorem C03_terminates (h : Heap) (v : HV) (hwf : WF h v = true) (hso : SliceOrdered h) :
    ∃ f, ∀ f', f ≤ f' → deepCopy f' h v ≠ none :=
  terminates_main hwf hso

/-- The input heap is left untouched: the copy only appends cells. -/
theorem C03_frozen (f : Nat) (h h' : Heap) (v v' : HV) (hc : deepCopy f h v = some (h', v')) :
    h.length ≤ h'.length ∧ ∀ a, a < h.length → h'[a]? = h[a]? :=
  frozen_main hc

/-- Everything reachable from the copy through exported fields is fresh. -/
theorem C03_fresh (f : Nat) (h h' : Heap) (v v' : HV) (hwf : WF h v = true)
    (hc : deepCopy f h v = some (h', v')) : ∀ a, ReachV h' v' a → h.length ≤ a :=
  fresh_main hwf hc

/-- The copy is isomorphic to the input: there is a one-to-one translation of pointee cells and of map
cells under which the copy is the image of the input (so it is deeply equal, identical pointer- or
map-typed references stay identical to one another, cycles stay cycles), and all translated cells
are fresh. -/
theorem C03_iso (f : Nat) (h h' : Heap) (v v' : HV) (hwf : WF h v = true) (hso : SliceOrdered h)
    (hc : deepCopy f h v = some (h', v')) :
    ∃ pm mm, Sim h h' pm mm v v' ∧ CellsSim h h' pm mm ∧ Injective pm ∧ Injective mm ∧
      (∀ a a', lookup pm a = some a' → h.length ≤ a') ∧ (∀ a a', lookup mm a = some a' → h.length ≤ a') := by
  have _ := hso  -- not needed: `hc` already witnesses termination
  exact iso_main hwf hc

/-- The model does exhibit the non-termination of finding D17: a slice that contains itself through an
interface value exhausts any fuel. -/
theorem C03_self_slice_diverges (f : Nat) :
    deepCopy f [.arr [.ifc (.sl 0 1)]] (.sl 0 1) = none := by
  simp [deepCopy, (self_slice_none f { heap := [.arr [.ifc (.sl 0 1)]], pmemo := [], mmemo := [] } rfl).1]

/-- non-vacuity: a well-formed, slice-ordered heap with a self-loop, a 2-cycle through an interface,
a shared map that contains itself, and a slice of pointers -/
example : WF [.val (.st (.cons true (.ptr 0) (.cons true (.ifc (.ptr 1)) (.cons true (.mp 2) .nil)))),
              .val (.st (.cons true (.ptr 0) (.cons false (.ptr 1) .nil))),
              .mapc [(.sc 1, .ifc (.mp 2)), (.sc 2, .ptr 1)],
              .arr [.ptr 0, .ptr 1, .nil]]
             (.st (.cons true (.sl 3 2) (.cons true (.mp 2) .nil))) = true := by decide

end Dials.C03
