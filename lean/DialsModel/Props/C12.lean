/-
C12 — Flag sources: only flags given on the command line override anything.

Theorems over the model of sources/flag/flag.go, sources/pflag/pflag.go and the flag helpers
(Model/FlagSrc.lean), which is driven by the regenerated facts F12 (mangler chains) and F14 (routing
tables, mkname order, skip guards, visitor, overflow guard, helper first-Set-replaces).

External, hence not proved here (sampled by the correspondence / oracle): the argument-list grammar of
flag / pflag (the model consumes the ordered occurrences), strconv float / complex / bool parsing,
time.ParseDuration, UnmarshalText, text/scanner tokenisation, pflag's own slice flags.
-/
import DialsModel.Model.FlagSrc
import DialsModel.Lemmas.FlagSrc
import DialsModel.Props.C15

namespace Dials.C12
open Dials Dials.Tf Dials.Parse Dials.FlagSrc

/-- the source-specific tag of each package -/
def srcTag : Pkg → String
  | .std => "dialsflag"
  | .pflag => "dialspflag"

/-! ### regenerated facts -/

/-- F14p: a flag set that is already parsed (the application called `flag.Parse()` itself, as `NewCmdLineSet` documents)
is not parsed again by `Value`: the model's `Value` folds over each occurrence exactly once, and the accumulation
theorems below (`C12_strSlice_accumulate`, `C12_intSlice_accumulate`, `C12_mapSSlice_accumulate`, ...) would be false
of an implementation that replays the command line a second time. -/
theorem C12_parsed_once : Facts.flagParseOnlyIfUnparsed = true := by
  decide

/-- F14m: a flag that exists on the FlagSet already (registered by the application, or by an earlier `Set` over the
same FlagSet) is not registered again (skip "registered" below) - but its name is still mapped to its field, because the
entry is recorded before the skip; `Value` sets exactly the visited flags it finds in that map. -/
theorem C12_existing_flag_keeps_its_field : Facts.flagMapRecordedBeforeSkips = true := by
  decide

/-- F14 as the proofs below need it: mkname asks the source-specific tag first, then `dials`; a flag name
that exists already and a source tag "-" skip the field; Value walks only the flags that were set; the
standard-library source guards the narrowing conversion with willOverflow; every helper's first Set replaces
the default. -/
theorem C12_facts :
    Pkg.std.mknameTags = ["dialsflag", "dials"] ∧ Pkg.pflag.mknameTags = ["dialspflag", "dials"] ∧
    Pkg.std.skips = ["registered", "dash:dialsflag"] ∧ Pkg.pflag.skips = ["registered", "dash:dialspflag"] ∧
    Pkg.std.visitAll = false ∧ Pkg.pflag.visitAll = false ∧ Pkg.std.checked = true ∧
    (∀ h ∈ ["StringSliceFlag", "StringSetFlag", "MapStringStringSliceFlag", "MapStringStringFlag",
            "SignedIntegralSliceFlag", "UnsignedIntegralSliceFlag"], helperReplaces h = true) := by
  refine ⟨rfl, rfl, rfl, rfl, by decide, by decide, rfl, by decide⟩

/-- The routing tables: every integer width goes to a flag whose parse width covers the leaf (standard
library: 64 bits, narrowed afterwards under the willOverflow guard; pflag: the leaf's own width), for
predeclared and user-defined named types alike; strings and bools to the string / bool flags; the dials
collections to the dials helpers (pflag: []string to pflag's own slice flag, which is not modelled). -/
theorem C12_routes (k : IntKind) (named : Bool) :
    routeOf .std (.ptr (.basic (.int k) named)) = .int k.signed 64 k ∧
    routeOf .pflag (.ptr (.basic (.int k) named)) = .int k.signed k.bits k ∧
    routeOf .std (.ptr (.basic .str named)) = .str ∧ routeOf .pflag (.ptr (.basic .str named)) = .str ∧
    routeOf .std (.ptr (.basic .bool named)) = .bool ∧ routeOf .pflag (.ptr (.basic .bool named)) = .bool ∧
    routeOf .std (.slice plainStr) = .strSlice ∧ routeOf .pflag (.slice plainStr) = .native ∧
    routeOf .std (.set plainStr) = .strSet ∧ routeOf .pflag (.set plainStr) = .strSet ∧
    routeOf .std (.map plainStr plainStr) = .mapSS ∧ routeOf .pflag (.map plainStr plainStr) = .mapSS ∧
    routeOf .std (.map plainStr (.slice plainStr)) = .mapSSlice ∧ routeOf .pflag (.map plainStr (.slice plainStr)) = .mapSSlice ∧
    routeOf .std (.slice (.basic (.int k) false)) = .intSlice k ∧ routeOf .pflag (.slice (.basic (.int k) false)) = .intSlice k := by
  cases k <;> cases named <;> decide

/-! ### names -/

/-- The source-specific tag (`dialsflag`, resp. `dialspflag`) names the flag when it is present. -/
theorem C12_name_source_tag_wins (p : Pkg) (h : Hdr) (n : String) (ht : tagGet h.tags (srcTag p) = some n) :
    mkname p h = .ok n := by
  cases p <;> simp [srcTag] at ht <;>
    simp [mkname, Pkg.mknameTags, Facts.flagMknameStd, Facts.flagMknamePFlag, mknameFrom, ht]

/-- Otherwise the flag is named by the field's `dials` tag (which the flatten mangler always sets:
`C12_flatten_names`). -/
theorem C12_name_else_dials_tag (p : Pkg) (h : Hdr) (n : String) (hs : tagGet h.tags (srcTag p) = none)
    (hd : tagGet h.tags "dials" = some n) : mkname p h = .ok n := by
  cases p <;> simp [srcTag] at hs <;>
    simp [mkname, Pkg.mknameTags, Facts.flagMknameStd, Facts.flagMknamePFlag, mknameFrom, hs, hd]

/-- Two translated fields without source tag and with distinct `dials` tags get distinct flag names. -/
theorem C12_distinct_tags_distinct_names (p : Pkg) (h1 h2 : Hdr) (n1 n2 : String)
    (hs1 : tagGet h1.tags (srcTag p) = none) (hs2 : tagGet h2.tags (srcTag p) = none)
    (hd1 : tagGet h1.tags "dials" = some n1) (hd2 : tagGet h2.tags "dials" = some n2) (hne : n1 ≠ n2) :
    mkname p h1 ≠ mkname p h2 := by
  rw [C12_name_else_dials_tag p h1 n1 hs1 hd1, C12_name_else_dials_tag p h2 n2 hs2 hd2]
  intro h
  cases h
  exact hne rfl

/-- what a field contributes to the names below it: its `dials` tag verbatim, else (unless it is embedded)
the words of its Go name -/
def fieldWords (cfg : FlattenCfg) (h : Hdr) : Option (List String) :=
  match tagGet h.tags cfg.tag with
  | some tv => some [tv]
  | none => if h.anon then some [] else (CaseConv.decodeGoCamel h.name.toList).map (·.map strOf)

/-- the specification of the flattened names: depth-first, each leaf named by the tag-encoder's join of the
words contributed along its path -/
def pathNames (cfg : FlattenCfg) : Nat → List String → List FT → Option (List String)
  | 0, _, _ => none
  | _ + 1, _, [] => some []
  | fuel + 1, words, (h, t) :: rest =>
    match fieldWords cfg h with
    | none => none
    | some ws =>
      let here : Option (List String) :=
        match stripPtrs t with
        | .struct ifs => pathNames cfg fuel (words ++ ws) ifs.toList
        | _ => some [encode cfg.tagEnc (words ++ ws)]
      match here, pathNames cfg fuel words rest with
      | some a, some b => some (a ++ b)
      | _, _ => none

/-- Every field the flatten mangler puts out carries the `dials` tag and the `dialsfieldpath` tag (so mkname
never reaches its panic and GetField finds its path), and the `dials` tags are, in order, the joins — by the
NameConfig's tag encoder, kebab-case by default — of the `dials` tags and field-name words along each leaf's
path. -/
theorem C12_flatten_names (cfg : FlattenCfg) (htag : cfg.tag ≠ "dialsfieldpath") (fuel : Nat) (names words path : List String) (fs outs : List FT)
    (h : flattenStruct cfg fuel names words path fs = .ok outs) :
    pathNames cfg fuel words fs = some (outs.map fun f => (tagGet f.1.tags cfg.tag).getD "") ∧
    ∀ f ∈ outs, (tagGet f.1.tags cfg.tag).isSome = true ∧ (tagGet f.1.tags "dialsfieldpath").isSome = true := by
  induction fuel generalizing names words path fs outs with
  | zero => rw [flattenStruct_zero] at h; cases h
  | succ fuel ih =>
    cases fs with
    | nil =>
      rw [flattenStruct_nil] at h
      cases h
      simp [pathNames]
    | cons f rest =>
      obtain ⟨nh, nt⟩ := f
      rw [flattenStruct_cons] at h
      cases hg : flattenGetTag cfg nh words (path ++ [nh.name]) with
      | err c => rw [hg] at h; cases h
      | panic c => rw [hg] at h; cases h
      | ok tw =>
        obtain ⟨tags, words'⟩ := tw
        rw [hg] at h
        simp only [] at h
        obtain ⟨ws, hfw, hw', htg, hfp⟩ := flattenGetTag_ok cfg htag nh words _ tags words' hg
        have hfw' : fieldWords cfg nh = some ws := hfw
        subst hw'
        cases hhere : flatHere cfg fuel (if nh.anon then names else names ++ [nh.name]) (words ++ ws) (path ++ [nh.name]) tags nt with
        | ok a =>
          cases hrest : flattenStruct cfg fuel names words path rest with
          | ok b =>
            rw [hhere, hrest] at h
            cases h
            obtain ⟨ihb1, ihb2⟩ := ih _ _ _ _ _ hrest
            unfold flatHere at hhere
            constructor
            · simp only [pathNames, hfw', ihb1]
              cases hsp : stripPtrs nt with
              | struct ifs =>
                rw [hsp] at hhere
                simp only [(ih _ _ _ _ _ hhere).1, List.map_append]
              | _ =>
                rw [hsp] at hhere
                cases hhere
                simp [htg]
            · intro f hf
              rcases List.mem_append.1 hf with hf | hf
              · cases hsp : stripPtrs nt with
                | struct ifs =>
                  rw [hsp] at hhere
                  exact (ih _ _ _ _ _ hhere).2 f hf
                | _ =>
                  rw [hsp] at hhere
                  cases hhere
                  simp only [List.mem_singleton] at hf
                  subst hf
                  exact ⟨by simp [htg], hfp⟩
              · exact ihb2 f hf
          | err c => rw [hhere, hrest] at h; cases h
          | panic c => rw [hhere, hrest] at h; cases h
        | err c => rw [hhere] at h; cases h
        | panic c => rw [hhere] at h; cases h

/-- With the default NameConfig the join is the kebab-case one: words separated by '-'. -/
theorem C12_default_join_is_kebab (ws : List String) :
    encode .kebab ws = strOf (CaseConv.joinWith '-' (wordsOf ws)) ∧ schemeOfName defaultTagEnc = some .kebab := by
  exact ⟨rfl, rfl⟩

/-- With pairwise distinct flag names every registered flag writes to its own translated field, and a
field whose flag was not visited stays nil. -/
theorem C12_own_field (regs : List Reg) (hnd : (regs.map (·.name)).Nodup) (results : List (Option Val))
    (j : Nat) (rj : Reg) (hj : regs[j]? = some rj) (hr : rj.route ≠ .unreg) :
    fieldVal regs results j rj =
      (match results[j]? with
       | some (some v) => wrapFor rj.ty v
       | _ => .ok .nilv) := by
  have h2 : (regs.map (·.name))[j]? = some rj.name := by
    rw [List.getElem?_map, hj]; rfl
  simp only [fieldVal, regIdxOf_nodup regs hnd j rj hj hr, lastIdxOf_nodup _ _ j hnd h2, beq_self_eq_true, if_true]
  split <;> simp_all

/-! ### only the given flags -/

/-- A flag that does not occur on the command line contributes nothing … -/
theorem C12_not_given (p : Pkg) (toks : TokTable) (reg : Reg) (occs : List Occ)
    (hno : ∀ o ∈ occs, o.name ≠ reg.name) : flagResult p toks reg occs = .ok none := by
  exact flagResult_not_given p toks reg occs hno

/-- … so its translated field is nil in the value handed to ReverseTranslate: lower layers show through. -/
theorem C12_unset_when_not_given (p : Pkg) (toks : TokTable) (regs : List Reg) (occs : List Occ) (vals : List Val)
    (h : fieldVals p toks regs occs = .ok vals) (j : Nat) (rj : Reg) (hj : regs[j]? = some rj)
    (hno : ∀ o ∈ occs, o.name ≠ rj.name) : ∃ v, vals[j]? = some v ∧ v.isNil = true := by
  obtain ⟨results, hres, h⟩ := fieldVals_ok h
  have hz : regs.zipIdx[j]? = some (rj, j) := by simp [List.getElem?_zipIdx, hj]
  obtain ⟨v, hv, hfv⟩ := mapM'_ok_getElem? _ _ vals h j (rj, j) hz
  simp only [fieldVal_not_given p toks regs occs results hres j rj hno] at hfv
  cases hfv
  exact ⟨_, hv, rfl⟩

/-- What a flag contributes depends only on the occurrences of that flag. -/
theorem C12_only_own_occurrences (p : Pkg) (toks : TokTable) (reg : Reg) (occs occs' : List Occ)
    (h : occsOf reg.name occs = occsOf reg.name occs') : flagResult p toks reg occs = flagResult p toks reg occs' := by
  simp only [flagResult, h]

/-- An occurrence whose text its flag rejects makes the whole source fail. -/
theorem C12_bad_occurrence_fails (toks : TokTable) (r : Route) (st : FSt) (pre post : List Occ) (o : Occ) (st' : FSt) (e : String)
    (hpre : runFlag toks r st pre = .ok st') (hbad : setOne toks r st' o = .err e) :
    runFlag toks r st (pre ++ o :: post) = .err e := by
  rw [runFlag_append, hpre]
  simp only [runFlag_cons, hbad]

/-! ### scalars: the last occurrence wins -/

def Route.scalar : Route → Bool
  | .int _ _ _ => true
  | .bool => true
  | .str => true
  | .ext _ => true
  | _ => false

/-- For scalar flags (integers, bools, strings and the externally parsed kinds) the value after a sequence of
accepted occurrences is the one the last occurrence alone gives, whatever came before and whatever the
template's default is. -/
theorem C12_scalar_last_wins (toks : TokTable) (r : Route) (hr : Route.scalar r = true) (st st' d : FSt) (os : List Occ) (o : Occ)
    (h : runFlag toks r st os = .ok st') :
    runFlag toks r st (os ++ [o]) = setOne toks r d o := by
  rw [runFlag_append, h]
  simp only [runFlag_single]
  cases r <;> first | rfl | cases hr

/-! ### collections: the first occurrence replaces the default, later ones accumulate -/

def slicePart (toks : TokTable) (o : Occ) : List String :=
  match stringSlice (o.text == "") (toks o.text).1 with
  | .ok items => items.map ofS
  | _ => []

def setPart (toks : TokTable) (o : Occ) : List String :=
  match stringSet (o.text == "") (toks o.text).1 with
  | .ok items => items.map ofS
  | _ => []

def mapPart (toks : TokTable) (o : Occ) : List (String × String) :=
  match mapStringString (toks o.text).2 with
  | .ok ps => ps.map ofPair
  | _ => []

def mmapPart (toks : TokTable) (o : Occ) : List (String × String) :=
  match mapStringStringSlice (toks o.text).2 with
  | .ok ps => ps.map ofPair
  | _ => []

def intsPart (k : IntKind) (o : Occ) : List Int :=
  match parseIntSlice k o.text.toList with
  | .ok vs => vs
  | _ => []

/-- String slices: the result is the concatenation of all occurrences in order; the template's default `d`
does not appear in it. -/
theorem C12_strSlice_accumulate (toks : TokTable) (d : Acc) (o : Occ) (os : List Occ)
    (hok : ∀ x ∈ o :: os, (stringSlice (x.text == "") (toks x.text).1).isOk = true) :
    runFlag toks .strSlice ⟨d, true⟩ (o :: os) = .ok ⟨.strs ((o :: os).flatMap (slicePart toks)), false⟩ := by
  have hstep : ∀ x ∈ o :: os, ∀ st, setOne toks .strSlice st x =
      .ok ⟨.strs (if st.defaulted then slicePart toks x else st.cur.strsOf ++ slicePart toks x), false⟩ := by
    intro x hx st
    obtain ⟨items, hi⟩ := isOk_elim (hok x hx)
    rw [setOne_strSlice_ok hi]
    simp only [slicePart, hi]
  rw [runFlag_cons, hstep o (by simp)]
  simp only [if_true]
  rw [runFlag_fold toks .strSlice (fun a x => .strs (a.strsOf ++ slicePart toks x)) os _
    (fun x hx a => by rw [hstep x (by simp [hx])]; rfl)]
  rw [foldl_strs (fun a x => a ++ slicePart toks x), foldl_append_flatMap]
  rfl

/-- Integer slices of every element kind: concatenation of all occurrences in order. -/
theorem C12_intSlice_accumulate (toks : TokTable) (k : IntKind) (d : Acc) (o : Occ) (os : List Occ)
    (hok : ∀ x ∈ o :: os, (parseIntSlice k x.text.toList).isOk = true) :
    runFlag toks (.intSlice k) ⟨d, true⟩ (o :: os) = .ok ⟨.ints ((o :: os).flatMap (intsPart k)), false⟩ := by
  have hstep : ∀ x ∈ o :: os, ∀ st, setOne toks (.intSlice k) st x =
      .ok ⟨.ints (if st.defaulted then intsPart k x else st.cur.intsOf ++ intsPart k x), false⟩ := by
    intro x hx st
    obtain ⟨items, hi⟩ := isOk_elim (hok x hx)
    rw [setOne_intSlice_ok hi]
    simp only [intsPart, hi]
  rw [runFlag_cons, hstep o (by simp)]
  simp only [if_true]
  rw [runFlag_fold toks (.intSlice k) (fun a x => .ints (a.intsOf ++ intsPart k x)) os _
    (fun x hx a => by rw [hstep x (by simp [hx])]; rfl)]
  rw [foldl_ints (fun a x => a ++ intsPart k x), foldl_append_flatMap]
  rfl

/-- … and every element lies in the element type's range (never a wrapped element): C15_int_slice_sound. -/
theorem C12_intSlice_in_range (toks : TokTable) (k : IntKind) (d : Acc) (o : Occ) (os : List Occ) (st : FSt)
    (h : runFlag toks (.intSlice k) ⟨d, true⟩ (o :: os) = .ok st) : ∀ v ∈ st.cur.intsOf, k.inRange v = true := by
  rw [runFlag_cons] at h
  cases hp : parseIntSlice k o.text.toList with
  | ok vs =>
    rw [setOne_intSlice_ok hp] at h
    simp only [if_true] at h
    refine (runFlag_invariant toks (.intSlice k)
      (fun s => s.defaulted = false ∧ ∀ v ∈ s.cur.intsOf, k.inRange v = true) ?_ os ⟨.ints vs, false⟩ st
      ⟨rfl, C15.C15_int_slice_sound k _ vs hp⟩ h).2
    intro s x s' ⟨hd, hin⟩ hs
    cases hx : parseIntSlice k x.text.toList with
    | ok ws =>
      rw [setOne_intSlice_ok hx, hd] at hs
      cases hs
      refine ⟨rfl, ?_⟩
      intro v hv
      simp only [Acc.intsOf, Bool.false_eq_true, if_false, List.mem_append] at hv
      rcases hv with hv | hv
      · exact hin v hv
      · exact C15.C15_int_slice_sound k _ ws hx v hv
    | err c => simp [setOne, hx] at hs
    | panic c => simp [setOne, hx] at hs
  | err c => simp [setOne, hp] at h
  | panic c => simp [setOne, hp] at h

/-- String→string-slice maps: the (key, element) pairs of all occurrences in order, i.e. per key the
concatenation of its values. -/
theorem C12_mapSSlice_accumulate (toks : TokTable) (d : Acc) (o : Occ) (os : List Occ)
    (hok : ∀ x ∈ o :: os, (mapStringStringSlice (toks x.text).2).isOk = true) :
    runFlag toks .mapSSlice ⟨d, true⟩ (o :: os) = .ok ⟨.pairs ((o :: os).flatMap (mmapPart toks)), false⟩ := by
  have hstep : ∀ x ∈ o :: os, ∀ st, setOne toks .mapSSlice st x =
      .ok ⟨.pairs (if st.defaulted then mmapPart toks x else st.cur.pairsOf ++ mmapPart toks x), false⟩ := by
    intro x hx st
    obtain ⟨items, hi⟩ := isOk_elim (hok x hx)
    rw [setOne_mapSSlice_ok hi]
    simp only [mmapPart, hi]
  rw [runFlag_cons, hstep o (by simp)]
  simp only [if_true]
  rw [runFlag_fold toks .mapSSlice (fun a x => .pairs (a.pairsOf ++ mmapPart toks x)) os _
    (fun x hx a => by rw [hstep x (by simp [hx])]; rfl)]
  rw [foldl_pairs (fun a x => a ++ mmapPart toks x), foldl_append_flatMap]
  rfl

/-- String sets: the union of all occurrences (the default is dropped) … -/
theorem C12_strSet_accumulate (toks : TokTable) (d : Acc) (o : Occ) (os : List Occ)
    (hok : ∀ x ∈ o :: os, (stringSet (x.text == "") (toks x.text).1).isOk = true) :
    runFlag toks .strSet ⟨d, true⟩ (o :: os) =
      .ok ⟨.strs (os.foldl (fun a x => unionStrs a (setPart toks x)) (setPart toks o)), false⟩ := by
  have hstep : ∀ x ∈ o :: os, ∀ st, setOne toks .strSet st x =
      .ok ⟨.strs (if st.defaulted then setPart toks x else unionStrs st.cur.strsOf (setPart toks x)), false⟩ := by
    intro x hx st
    obtain ⟨items, hi⟩ := isOk_elim (hok x hx)
    rw [setOne_strSet_ok hi]
    simp only [setPart, hi]
  rw [runFlag_cons, hstep o (by simp)]
  simp only [if_true]
  rw [runFlag_fold toks .strSet (fun a x => .strs (unionStrs a.strsOf (setPart toks x))) os _
    (fun x hx a => by rw [hstep x (by simp [hx])]; rfl)]
  rw [foldl_strs (fun a x => unionStrs a (setPart toks x))]

/-- … where `unionStrs` is set union. -/
theorem C12_union_mem (a b : List String) (x : String) : x ∈ unionStrs a b ↔ x ∈ a ∨ x ∈ b := by
  unfold unionStrs
  induction b generalizing a with
  | nil => simp
  | cons y ys ih =>
    rw [List.foldl_cons, ih]
    by_cases hc : a.contains y = true
    · simp only [hc, if_true, List.mem_cons]
      have : y ∈ a := by simpa using hc
      constructor
      · rintro (h | h)
        · exact .inl h
        · exact .inr (.inr h)
      · rintro (h | h | h)
        · exact .inl h
        · exact .inl (h ▸ this)
        · exact .inr h
    · simp only [hc, Bool.false_eq_true, if_false, List.mem_append, List.mem_cons, List.not_mem_nil, or_false]
      simp [or_assoc]

/-- String maps: the occurrences are merged in order, the default is dropped … -/
theorem C12_mapSS_accumulate (toks : TokTable) (d : Acc) (o : Occ) (os : List Occ)
    (hok : ∀ x ∈ o :: os, (mapStringString (toks x.text).2).isOk = true) :
    runFlag toks .mapSS ⟨d, true⟩ (o :: os) =
      .ok ⟨.pairs (os.foldl (fun a x => mergePairs a (mapPart toks x)) (mapPart toks o)), false⟩ := by
  have hstep : ∀ x ∈ o :: os, ∀ st, setOne toks .mapSS st x =
      .ok ⟨.pairs (if st.defaulted then mapPart toks x else mergePairs st.cur.pairsOf (mapPart toks x)), false⟩ := by
    intro x hx st
    obtain ⟨items, hi⟩ := isOk_elim (hok x hx)
    rw [setOne_mapSS_ok hi]
    simp only [mapPart, hi]
  rw [runFlag_cons, hstep o (by simp)]
  simp only [if_true]
  rw [runFlag_fold toks .mapSS (fun a x => .pairs (mergePairs a.pairsOf (mapPart toks x))) os _
    (fun x hx a => by rw [hstep x (by simp [hx])]; rfl)]
  rw [foldl_pairs (fun a x => mergePairs a (mapPart toks x))]

/-- … where merging keeps every key of either side and a key of the later occurrence takes the later value. -/
theorem C12_merge_keys (a b : List (String × String)) (k : String) :
    (mergePairs a b).any (·.1 == k) = (a.any (·.1 == k) || b.any (·.1 == k)) := by
  unfold mergePairs
  induction b generalizing a with
  | nil => simp
  | cons kv rest ih =>
    rw [List.foldl_cons, ih, List.any_cons, putPair_any_key, Bool.or_assoc]

/-! ### range -/

/-- The standard-library source's integer flags compute exactly parse.String's integer function
(`parseNumber`, C15): parse with 64 bits, then the overflow check of the leaf's width. -/
theorem C12_std_int_is_parseNumber (k : IntKind) (text : String) :
    intFlagValue Pkg.std.checked k.signed 64 k text = parseNumber k text.toList := by
  exact intFlagValue_std k text

/-- pflag's integer flags parse with the leaf's own width: same accepted texts, same values. -/
theorem C12_pflag_int_is_parseNumber (k : IntKind) (text : String) :
    (intFlagValue Pkg.pflag.checked k.signed k.bits k text).toOption = (parseNumber k text.toList).toOption := by
  exact intFlagValue_own _ k text

/-- The value a visited integer flag hands on is `intFlagValue` of its last occurrence. -/
theorem C12_int_value (toks : TokTable) (checked sg : Bool) (bits : Nat) (k : IntKind) (st st' : FSt) (os : List Occ) (o : Occ)
    (h : runFlag toks (.int sg bits k) st os = .ok st') :
    (match runFlag toks (.int sg bits k) st (os ++ [o]) with
     | .ok s => finish checked (.int sg bits k) s.cur
     | .err c => .err c
     | .panic c => .panic c) =
    (match intFlagValue checked sg bits k o.text with
     | .ok v => .ok (.i v)
     | .err c => .err c
     | .panic c => .panic c) := by
  rw [runFlag_append, h]
  simp only [runFlag_single, setOne, intFlagValue]
  cases parseFlagInt sg bits o.text with
  | none => rfl
  | some v =>
    simp only [finish]
    cases k.inRange v <;> cases checked <;> rfl

/-- Range, both packages, every integer kind: an occurrence whose literal denotes a value outside the leaf
type's range is an error — never a wrapped, truncated or saturated value (instantiates C15_int_range). -/
theorem C12_range (p : Pkg) (k : IntKind) (text : String) (v : Int) (hl : parseIntLit text.toList = some v)
    (hr : k.inRange v = false) :
    ∃ e, intFlagValue p.checked k.signed (match p with | .std => 64 | .pflag => k.bits) k text = .err e := by
  obtain ⟨e, he⟩ := C15.C15_int_range k text.toList v hl hr
  cases p with
  | std => exact ⟨e, (intFlagValue_std k text).trans he⟩
  | pflag =>
    have h := intFlagValue_own Pkg.pflag.checked k text
    rw [he] at h
    cases hv : intFlagValue Pkg.pflag.checked k.signed k.bits k text with
    | ok w => rw [hv] at h; cases h
    | err c => exact ⟨c, rfl⟩
    | panic c => exact absurd hv (intFlagValue_not_panic _ _ _ _ _ _)

/-- Soundness: a value that is accepted is the mathematical value of the literal and lies in the leaf type's
range (instantiates C15_int_sound). -/
theorem C12_int_sound (p : Pkg) (k : IntKind) (text : String) (v : Int)
    (h : intFlagValue p.checked k.signed (match p with | .std => 64 | .pflag => k.bits) k text = .ok v) :
    k.inRange v = true ∧ parseIntLit text.toList = some v := by
  apply C15.C15_int_sound
  cases p with
  | std => exact (intFlagValue_std k text).symm.trans h
  | pflag =>
    have h' := intFlagValue_own Pkg.pflag.checked k text
    simp only [] at h
    rw [h] at h'
    cases hv : parseNumber k text.toList with
    | ok w => rw [hv] at h'; cases h'; rfl
    | err c => rw [hv] at h'; cases h'
    | panic c => rw [hv] at h'; cases h'

/-- Without the guard the same text would wrap: the regenerated fact `flagOverflowCheckedStd` is what the
range theorem rests on for the standard-library source. -/
theorem C12_unguarded_would_wrap : intFlagValue false true 64 .i8 "300" = .ok 44 := by
  decide

/-! ### defaults -/

/-- GetField returns "not populated" (→ the zero value) when the template is nil at or above the leaf. -/
theorem C12_getField_nil (path : List String) (t : Ty) : getField path t .nilv = .ok none := by
  cases path with
  | nil => simp [getField, stripVal]
  | cons n rest => simp only [getField, stripVal]

/-- The advertised default of an integer flag is the decimal text of the template's value, and it parses back
to that value (C15_int_roundtrip): default-is-template. -/
theorem C12_default_int (sg : Bool) (bits : Nat) (k : IntKind) (hk : k ≠ .uintptr) (v : Int) (hv : k.inRange v = true) :
    defaultOf (.int sg bits k) (.i v) = .text (String.ofList (formatInt v)) ∧
    parseNumber k (formatInt v) = .ok v := by
  exact ⟨rfl, C15.C15_int_roundtrip k hk v hv⟩

/-- Bools and strings advertise the template's value itself; the dials collection helpers advertise the
template's elements (sets and maps sorted), quoted. -/
theorem C12_default_simple (x : Bool) (s : String) (xs : List String) (kvs : List (String × String)) :
    defaultOf .bool (.b x) = .text (if x then "true" else "false") ∧
    defaultOf .str (.s s) = .text s ∧
    defaultOf .strSlice (.list (xs.map strVal)) = .quoted xs ∧
    defaultOf .strSet (.setv (xs.map strVal)) = .quoted (sortStrs xs) ∧
    defaultOf .mapSS (.mapv (kvs.map fun p => (.s p.1, .s p.2))) = .quotedPairs (sortPairs kvs) := by
  simp [defaultOf, valStrs, valPairs, strVal, strOfVal, List.map_map, Function.comp_def]

/-- The flag's initial value is the template's; it is what a (hypothetical) visit of an unset flag would see,
and what the first helper occurrence replaces. -/
theorem C12_initial_is_template (v : Int) (x : Bool) (s : String) (xs : List String) (sg : Bool) (bits : Nat) (k : IntKind) :
    accOfVal (.int sg bits k) (.i v) = .i v ∧ accOfVal .bool (.b x) = .b x ∧ accOfVal .str (.s s) = .s s ∧
    accOfVal .strSlice (.list (xs.map strVal)) = .strs xs := by
  simp [accOfVal, valStrs, strVal, strOfVal, List.map_map, Function.comp_def]

/-! ### named complex types (repair D29) -/

/-- the standard-library source registers a user-defined named complex type (`type C complex64`) with
`flaghelper.NewComplex64Var`, whose getter returns a `*complex64`; `Value` assigns it through a pointer conversion
(regenerated fact `flagPtrConvertStd`): the flag yields the parsed value, as with pflag.  (Before repair D29 the
pointer was converted to the named non-pointer type, which panics in reflect.) -/
theorem C12_named_complex_std_ok (toks : TokTable) (h : Hdr) (name : String) (d : Val) (o : Occ) (c : String) (ho : o.name = name) (hc : o.ext = .ok c) :
    flagResult .std toks { hdr := h, ty := .ptr (.basic .c64 true), name := name, route := routeOf .std (.ptr (.basic .c64 true)), dflt := d } [o] = .ok (some (.s c)) := by
  have hroute : routeOf .std (.ptr (.basic .c64 true)) = .ext "flaghelper.NewComplex64Var" := by decide
  have hocc : occsOf name [o] = [o] := by simp [occsOf, ho]
  have hfact : Facts.flagPtrConvertStd = true := by decide
  simp only [flagResult, hroute, hocc, runFlag_single, setOne, hc]
  simp [getterMismatch, hfact]
  rfl

/-- pflag keeps its own pointer of the field's type: the same flag yields the parsed value. -/
theorem C12_named_complex_pflag_ok (toks : TokTable) (h : Hdr) (name : String) (d : Val) (o : Occ) (c : String) (ho : o.name = name) (hc : o.ext = .ok c) :
    flagResult .pflag toks { hdr := h, ty := .ptr (.basic .c64 true), name := name, route := routeOf .pflag (.ptr (.basic .c64 true)), dflt := d } [o] = .ok (some (.s c)) := by
  have hroute : routeOf .pflag (.ptr (.basic .c64 true)) = .ext "flaghelper.NewComplex64Var" := by decide
  have hocc : occsOf name [o] = [o] := by simp [occsOf, ho]
  simp only [flagResult, hroute, hocc, runFlag_single, setOne, hc]
  rfl

/-! ### non-vacuity: the model computes what the statements talk about (kernel-evaluated) -/

-- scalars: the last occurrence wins; the std source narrows afterwards under the guard, pflag parses with 8 bits
example : runFlag (fun _ => ([], [])) (.int true 64 .i8) ⟨.i 3, true⟩ [⟨"f", "300", .ok ""⟩, ⟨"f", "5", .ok ""⟩] = .ok ⟨.i 5, false⟩ := by decide
example : runFlag (fun _ => ([], [])) (.int true 64 .i8) ⟨.i 3, true⟩ [⟨"f", "5", .ok ""⟩, ⟨"f", "300", .ok ""⟩] = .ok ⟨.i 300, false⟩ ∧
    finish true (.int true 64 .i8) (.i 300) = .err "overflow" ∧ finish false (.int true 64 .i8) (.i 300) = .ok (.i 44) :=
  ⟨by decide, rfl, rfl⟩
example : setOne (fun _ => ([], [])) (.int true 8 .i8) ⟨.i 3, true⟩ ⟨"f", "300", .ok ""⟩ = .err "number" := by decide
example : runFlag exampleToks .strSlice ⟨.strs ["def"], true⟩ [⟨"f", "ab", .ok ""⟩, ⟨"f", "c", .ok ""⟩] = .ok ⟨.strs ["a", "b", "c"], false⟩ := by decide
example : runFlag exampleToks .strSet ⟨.strs ["def"], true⟩ [⟨"f", "ab", .ok ""⟩, ⟨"f", "ab", .ok ""⟩, ⟨"f", "c", .ok ""⟩] = .ok ⟨.strs ["a", "b", "c"], false⟩ := by decide
example : runFlag exampleToks .mapSS ⟨.pairs [("z", "0")], true⟩ [⟨"f", "ab", .ok ""⟩, ⟨"f", "c", .ok ""⟩] = .ok ⟨.pairs [("a", "1"), ("b", "3")], false⟩ := by decide
example : runFlag exampleToks .mapSSlice ⟨.pairs [("z", "0")], true⟩ [⟨"f", "ab", .ok ""⟩, ⟨"f", "c", .ok ""⟩] = .ok ⟨.pairs [("a", "1"), ("b", "2"), ("b", "3")], false⟩ := by decide
example : runFlag exampleToks (.intSlice .u8) ⟨.ints [9], true⟩ [⟨"f", "1, 0x10", .ok ""⟩, ⟨"f", "255", .ok ""⟩] = .ok ⟨.ints [1, 16, 255], false⟩ := by decide
example : ∃ e, runFlag exampleToks (.intSlice .u8) ⟨.ints [9], true⟩ [⟨"f", "1", .ok ""⟩, ⟨"f", "256", .ok ""⟩] = .err e := ⟨"element", by decide⟩
example : unionStrs ["a", "b"] ["b", "c"] = ["a", "b", "c"] := by decide
example : mergePairs [("a", "1"), ("b", "2")] [("b", "3")] = [("a", "1"), ("b", "3")] := by decide
example : mkname .std ⟨"F", [("dials", "x"), ("dialsflag", "y")], false⟩ = .ok "y" := by decide
example : mkname .pflag ⟨"F", [("dials", "x"), ("dialsflag", "y")], false⟩ = .ok "x" := by decide
example : ∃ e, mkname .std ⟨"F", [], false⟩ = .panic e := ⟨_, rfl⟩

-- flagResult: only the flag's own occurrences count; an out-of-range last occurrence is an error, never a wrapped value
example : (match flagResult .std (fun _ => ([], [])) ⟨⟨"F", [], false⟩, .ptr (.basic (.int .i8) false), "f", .int true 64 .i8, .i 3⟩
      [⟨"f", "5", .ok ""⟩, ⟨"g", "7", .ok ""⟩, ⟨"f", "300", .ok ""⟩] with
    | .err c => c == "overflow"
    | _ => false) = true := by decide
example : (match flagResult .std (fun _ => ([], [])) ⟨⟨"F", [], false⟩, .ptr (.basic (.int .i8) false), "f", .int true 64 .i8, .i 3⟩
      [⟨"f", "300", .ok ""⟩, ⟨"g", "7", .ok ""⟩, ⟨"f", "-0x80", .ok ""⟩] with
    | .ok (some (.i v)) => v == -128
    | _ => false) = true := by decide
example : (match flagResult .pflag (fun _ => ([], [])) ⟨⟨"F", [], false⟩, .ptr (.basic (.int .i8) false), "f", .int true 8 .i8, .i 3⟩
      [⟨"f", "300", .ok ""⟩] with
    | .err c => c == "number"
    | _ => false) = true := by decide
example : (match flagResult .std (fun _ => ([], [])) ⟨⟨"F", [], false⟩, .ptr (.basic (.int .i8) false), "f", .int true 64 .i8, .i 3⟩
      [⟨"g", "7", .ok ""⟩] with
    | .ok none => true
    | _ => false) = true := by decide

-- flatten: nested names are the kebab-case joins along the path; every output carries `dials` and `dialsfieldpath`
example : pathNames ⟨"dials", .upperCamel, .kebab⟩ 6 []
    [(⟨"Outer", [], false⟩, .ptr (.struct (.cons "InnerField" [] false (.ptr (.basic .str false))
        (.cons "B" [("dials", "given_name")] false (.ptr (.basic .bool false)) .nil))))] =
    some ["outer-inner-field", "outer-given_name"] := by decide
example : ((flattenStruct ⟨"dials", .upperCamel, .kebab⟩ 6 [] [] []
    [(⟨"Outer", [], false⟩, .ptr (.struct (.cons "InnerField" [] false (.ptr (.basic .str false))
        (.cons "B" [("dials", "given_name")] false (.ptr (.basic .bool false)) .nil))))]).toOption.map (·.map (·.1))) =
    some [⟨"OuterInnerField", [("dials", "outer-inner-field"), ("dialsfieldpath", "Outer,InnerField")], false⟩,
          ⟨"OuterB", [("dials", "outer-given_name"), ("dialsfieldpath", "Outer,B")], false⟩] := by decide

end Dials.C12
