/-
C16 — No input and no supported config type makes dials panic or hang.

Every model is a total Lean function (no `partial`; recursion is structural or by fuel) returning
`Outcome` = `.ok` | `.err` (Go `error`) | `.panic` (Go panic): termination is Lean's termination
check, and the content of the property is that `.panic` is unreachable on supported input.
Property theorems only; helper lemmas live in Lemmas/Total.lean and Lemmas/TotalEnv.lean.

CATALOGUE OF PANIC SITES of the anchored code and the model construct that stands for each
("—" = outside the models: observed by the correspondence harness harness/c16.go only).

  parse/parse_string.go String
    castVal.Elem() on a non-pointer (nested slice/map element)   `derefVal` → .panic "reflect: call of reflect.Value.Elem …"; guarded: fact F21a
    reflect.Append with an element of another type               — (values are untyped); guard = Convert, fact F21b
    castVal.Convert(t.Elem())                                     — (always convertible: same kind by construction of String)
  parse/map.go Map
    newKeyCast.Elem() / newValCast.Elem()                         `derefVal` after `parseScalar` (C16_parse_scalar_pointer)
    m.MapIndex / m.SetMapIndex with a key/value of another type   — ; guard = Convert, fact F21c
  parse/split_map.go, split_string_slice.go                       no indexing, no reflect: `splitSlice` / `splitSet` / `splitMapWith`
                                                                  are total for ANY token list (C16_split_total)
  parse/number.go, integral_slice.go                              no panicking operation: `parseNumber`, `parseIntSlice`
  parse/complex.go (go < 1.15 only) part[len(part)-1]             guarded by len(part) == 0; not compiled (build tag); —
  tagformat/caseconversion/case_conversion.go
    firstCharAfterInitialism: runes[i+1], runes[i+2]              `firstAfterInitialism` pattern `r2 :: _ :: _` (bounds by pattern)
    extractInitialisms: s[len(initialism):] in a restart loop     `extractLoop` with fuel `s.length + 1`; the fuel suffices
                                                                  (C16_extract_fuel_suffices): the Go loop terminates
    utf8.DecodeRuneInString on invalid UTF-8 / non-ASCII          — (the string models are ASCII): text stream of the harness
  transform/transformer.go
    layerMangledVal[off : off+len(out)]                           `unmangleLayer`: .panic "slice bounds out of range"
    v.Elem() / v.Index(l) / mf[z].Value.Index(l).Set(…)           `recurseVal`: .panic "ReverseTranslate of a non-struct" / "unexpected value kind …"
    field.Value.Convert(outField.Type()), outField.Set            — ; guards: facts F21n, F21o
    reflect.StructOf(layerFields) with duplicate / invalid names  — ; excluded by the property ("distinct flattened leaf names")
  transform/flatten_mangler.go
    populateStruct vs[inputIndex]                                 `populate`: .panic "index out of range"
    populateStruct originalVal.Set(setVal) (*struct into struct)  code repaired (P02): a struct held by value is stored as is, fact F21r; pointer levels:
                                                                  fact F21g.  The model's `populate` follows (no panic any more; the by-value struct is
                                                                  rebuilt: C16_env_value_struct_rebuilt)
    populateStruct nestedVal.Set / originalVal.Set (leaf)         — (untyped values); guards: facts F21h, F21i, F21j; finding P11
    isNil(val): val.IsNil()                                       `Val.isNil` (total); kind switch in the code
    GetField: explicit panic (missing dialsfieldpath tag)         — (tag always set by getTag)
  transform/alias_mangler.go Unmangle fvs[0], fvs[1], IsNil       `aliasUnmangle`: error for other lengths; fact F21m
  transform/anonymous_flatten_mangler.go fvs[0], fvs[fvsIdx],     `anonUnmangle`: .panic "index out of range"; NumField on a
    sf.Type.NumField()                                            non-struct: — ; repaired (P08): embedded pointers to non-structs
                                                                  are passed through, fact F21y
  transform/set_slice_mangler.go vs[0], SetMapIndex               `setSliceMangler`: .panic "index out of range"
  transform/single_type_substitution_mangler.go fval[0], Convert  `durSubMangler`: .panic "index out of range"; Convert: —
  transform/string_casting_mangler.go
    vs[0]                                                         `stringCastMangler`: .panic "index out of range"
    strPtrInterface.(*string)                                     .panic "not a *string"
    sf.Type.Elem() of a type without element type                 repaired (P02): now an error, guard `hasElemTy`:
                                                                  .err "cannot cast a string to a field that is not a pointer, slice or map"; fact F21s
    parsed.Convert(sf.Type)                                       — ; guarded by ConvertibleTo: fact F21e
  transform/text_unmarshaler_mangler.go vs[0], .(*string)         `textUnmarshalerMangler`: .panic "index out of range" / "not a *string"
  tagformat/expand_tags.go, reformat_tags.go vs[0], Convert       `tagCopyMangler`, `tagReformatMangler`: .panic "index out of range"
  sources/env/env.go explicit panic (empty dialsenv tag)          repaired (P05): now returns an error; `envValue`: .err "empty dialsenv tag"; fact F21p
  sources/env/env.go val.Field(i).Set(&envVarVal)                 — (every field is *string after the string cast)
  sources/flag/flag.go, sources/pflag/pflag.go                    — (no flag model): the kind / ConvertibleTo / name / shorthand checks now return
    ffield.IsNil(), Convert, Overflow*, flag.Var's own panics     errors (repaired P02, P04, P06, P07): facts F21u–F21x; remaining: the explicit
                                                                  panics in mkname / "field … is nil": harness only
  decoders/{json,yaml,toml,cue}: third-party Unmarshal            — : harness only; toml / cue: panics of the parser recovered into errors (repaired
                                                                  P09, P14), fact F21aa; `must(...)` at package init

What is proved (for ALL inputs, no bound):
  * the parsers: `parseNumber`, `parseIntSlice`, the scanners' state machines for any token list,
    `parseScalar` / `parseString` for every type and text;
  * case conversion: decoders/encoders are total functions; the fuel of `extractInitialismsWith`
    suffices for every initialism list without the empty string (and the regenerated list has none);
  * every shipped mangler's `mangle`, hence `translate` / `envNames` for every chain the facts
    translator can emit, never panic — for ANY field list;
  * the env source's chain (regenerated: `Facts.chainEnv`) never panics on field lists satisfying the
    decidable predicate `SupportedCfg` (Lemmas/TotalEnv.lean), for every environment, prefix, fuel and
    scanner token table.  `SupportedCfg` is: every struct nested behind a pointer; no array of structs
    as a bare leaf — nothing else.  Outside `SupportedCfg` each of the model's two remaining panics is
    reachable (counterexample theorems); neither is a panic of the real code: both are artefacts of the
    model's untyped `nilv` standing for a Go zero value that is not nil.  Since the repair of P02 was
    followed in the model's `populate` (a struct held by value receives the rebuilt struct itself) the
    former counterexample — a lone by-value struct with its leaf set — evaluates to the rebuilt value
    (C16_env_value_struct_rebuilt); what keeps by-value structs outside `SupportedCfg` is that an UNSET
    by-value struct is `nilv` in the model and meets the recursing alias mangler at a struct type as soon as
    a sibling field is set (C16_env_value_struct_sibling_model_artefact); the array one is the same kind
    of artefact (see the doc comments).  `SupportedCfg` is sufficient, not necessary.  The shapes of the repaired
    findings P02 (`Elem()` of a type without element type) and P05 (empty `dialsenv` tag) are inside
    `SupportedCfg` and evaluate to errors (C16_env_unwrapped_leaf_is_error, C16_env_empty_tag_is_error,
    C16_repaired_shapes_supported).
PARTIAL (named): arbitrary bytes into the four third-party parsers, non-ASCII text, the flag / pflag
sources and reflect's assignability (the transformer model's values are untyped) are outside the
models: implementation-only streams of harness/c16.go.
-/
import DialsModel.Lemmas.Total
import DialsModel.Lemmas.TotalEnv

namespace Dials.C16
open Dials Dials.Parse Dials.Tf Dials.CaseConv Dials.Total

/-- `parseNumber` (parse/number.go, integer kinds) returns a value or an error for every kind and text. -/
theorem C16_parse_number_total (k : IntKind) (s : Parse.Str) : ∀ c, parseNumber k s ≠ .panic c :=
  parseNumber_noPanic k s

/-- The integral slice parsers return a value or an error for every element kind and text. -/
theorem C16_parse_int_slice_total (k : IntKind) (s : Parse.Str) : ∀ c, parseIntSlice k s ≠ .panic c :=
  parseIntSlice_noPanic k s

/-- splitStringsSlice / StringSet's loop / splitMap never panic for ANY token stream the scanner could
deliver (including error and stray tokens), provided the add-callback does not. -/
theorem C16_split_total :
    (∀ (toks : List Parse.Tok) (inValue : Bool) (acc : List S) c, splitSlice toks inValue acc ≠ .panic c) ∧
    (∀ (toks : List Parse.Tok) (inValue : Bool) (acc : List S) c, splitSet toks inValue acc ≠ .panic c) ∧
    (∀ (add : List (S × S) → S → S → Outcome (List (S × S))), (∀ acc k v c, add acc k v ≠ .panic c) →
      ∀ (toks : List Parse.Tok) (st : MapSt) c, splitMapWith add toks st ≠ .panic c) :=
  ⟨fun toks iv acc => splitSlice_noPanic toks iv acc, fun toks iv acc => splitSet_noPanic toks iv acc,
   fun add hadd toks st => splitMapWith_noPanic add hadd toks st⟩

/-- StringSlice, StringSet, Map (string→string) and StringStringSliceMap never panic, for any token
stream and either value of the empty-input flag. -/
theorem C16_collections_total (e : Bool) (toks : List Parse.Tok) :
    (∀ c, stringSlice e toks ≠ .panic c) ∧ (∀ c, stringSet e toks ≠ .panic c) ∧
    (∀ c, mapStringString toks ≠ .panic c) ∧ (∀ c, mapStringStringSlice toks ≠ .panic c) :=
  ⟨stringSlice_noPanic e toks, stringSet_noPanic e toks, mapStringString_noPanic toks,
   mapStringStringSlice_noPanic toks⟩

/-- parse.String on scalars: never a panic, for every type of the universe (incl. user-defined named
scalars, unsupported kinds, structs, pointers) and every text. -/
theorem C16_parse_scalar_total (s : String) (t : Ty) : ∀ c, parseScalar s t ≠ .panic c :=
  parseScalar_noPanic s t

/-- A successfully parsed scalar is returned behind a pointer: the `.Elem()` every caller applies
(parse.Map, the slice case of parse.String, the string-cast mangler) cannot panic. -/
theorem C16_parse_scalar_pointer (s : String) (t : Ty) (v : Val) (h : parseScalar s t = .ok v) :
    ∃ w, v = .ptr w :=
  parseScalar_ok_ptr s t v h

/-- parse.String never panics: every type (named or not, slices, maps, sets, nested, unsupported),
every text, every pair of scanner token streams. -/
theorem C16_parse_string_total (toks : TokTable) (s : String) (t : Ty) : ∀ c, parseString toks s t ≠ .panic c :=
  parseString_noPanic toks s t

/-- Case conversion is total: every decoder returns a word list or an error for every input and every
encoder returns a string for every word list (the Go functions contain no loop other than the ones
modelled by structural recursion and `extractLoop`). -/
theorem C16_caseconv_total :
    (∀ s, decodeGoCamel s = none ∨ ∃ ws, decodeGoCamel s = some ws) ∧
    (∀ s, ∃ ws, decodeGoTags s = some ws) ∧
    (∀ (sc : Scheme) s, sc.decode s = none ∨ ∃ ws, sc.decode s = some ws) ∧
    (∀ (sc : Scheme) ws, ∃ s, sc.encode ws = s) := by
  refine ⟨fun s => ?_, fun s => ⟨_, rfl⟩, fun sc s => ?_, fun sc ws => ⟨_, rfl⟩⟩
  · cases h : decodeGoCamel s with
    | none => exact Or.inl rfl
    | some ws => exact Or.inr ⟨ws, rfl⟩
  · cases h : sc.decode s with
    | none => exact Or.inl rfl
    | some ws => exact Or.inr ⟨ws, rfl⟩

/-- The restart loop of extractInitialisms terminates within `len(s) + 1` rounds: for an initialism
list without the empty string, giving the model's loop MORE fuel than `s.length + 1` never changes the
result (each successful round strictly shortens the text). -/
theorem C16_extract_fuel_suffices (inits : List CaseConv.Str) (hne : ([] : CaseConv.Str) ∉ inits)
    (s : CaseConv.Str) (n : Nat) (hn : s.length + 1 ≤ n) :
    extractLoop inits n s [] = extractInitialismsWith inits s :=
  extractInitialisms_fuel inits hne s n hn

/-- … and the list regenerated from the source (F11) contains no empty initialism, so the statement
applies to `extractInitialisms` as shipped.  (An empty entry would make the Go loop spin forever:
`strings.HasPrefix(s, "")` always holds and strips nothing.) -/
theorem C16_extract_fuel_shipped (s : CaseConv.Str) (n : Nat) (hn : s.length + 1 ≤ n) :
    extractLoop initialisms n s [] = extractInitialisms s :=
  extractInitialisms_fuel initialisms initialisms_no_empty s n hn

/-- Every shipped mangler's Mangle (every constructor spec the facts translator can emit: alias, flatten,
anonymous flatten, set→slice, type substitution, string cast, text unmarshaler, tag copy, tag reformat,
with any arguments) returns fields or an error for EVERY field, supported or not. -/
theorem C16_mangle_total (fuel : Nat) (parse : String → Ty → Outcome Val) (spec : List String) (m : Mangler)
    (h : manglerOfSpec fuel parse spec = some m) (hd : Hdr) (t : Ty) : ∀ c, m.mangle hd t ≠ .panic c :=
  manglerOfSpec_mangleTotal fuel parse spec m h hd t

/-- TranslateType never panics: any chain of shipped manglers (env, flag, pflag, the decoders' chains and
every sub-chain), any field list, any fuel. -/
theorem C16_translate_total (fuel : Nat) (parse : String → Ty → Outcome Val) (specs : List (List String))
    (ms : List Mangler) (h : chainOfSpecs fuel parse specs = some ms) (fs : List FT) :
    ∀ c, translate fuel ms fs ≠ .panic c :=
  translate_noPanic fuel ms (chainOfSpecs_mangleTotal fuel parse specs ms h) fs

/-- The derivation of the environment variable names never panics (any chain, any field list). -/
theorem C16_env_names_total (fuel : Nat) (parse : String → Ty → Outcome Val) (specs : List (List String))
    (ms : List Mangler) (h : chainOfSpecs fuel parse specs = some ms) (pfx : String) (fs : List FT) :
    ∀ c, envNames fuel ms pfx fs ≠ .panic c :=
  envNames_noPanic fuel ms (chainOfSpecs_mangleTotal fuel parse specs ms h) pfx fs

/-- The environment source never panics on a supported config type: for the chain regenerated from
sources/env/env.go (`envChain` = `Facts.chainEnv`), every field list satisfying the decidable
`SupportedCfg` (every struct nested behind a pointer, no array of structs as a bare nested leaf —
nothing else: since the repairs of P05 and P02 an empty `dialsenv` tag and a nested field without
element type are errors, not panics; both remaining exclusions are artefacts of the model's `nilv`, see
`C16_env_value_struct_sibling_model_artefact` and Lemmas/TotalEnv.lean), every
environment, prefix, scanner token table and fuel: the result is a value or an error.  Includes
user-defined named scalars, slices, maps, sets, user pointers (`**T` on scalars), nested
pointer-to-structs, slices of structs, alias tags at any depth, scalar / duration / text-unmarshaler
fields that Pointerify did not wrap (behind `**T`), fields with empty or missing `dialsenv` tags. -/
theorem C16_env_total (fuel : Nat) (toks : TokTable) (pfx : String) (fs : List FT)
    (lookup : String → Option String) (h : SupportedCfg fuel fs = true) :
    ∀ c, envValue fuel (envChain fuel toks) pfx fs lookup ≠ .panic c :=
  envValue_noPanic fuel toks pfx fs lookup h

/-- The former counterexample (1), now a POSITIVE example: a struct nested BY VALUE below a pointer
(`P *struct{ X struct{ A *int } }`, variable P_X_A set).  Before the repair of P02 this reached
`reflect.Set` of a `*struct` into a `struct` in populateStruct / the model's `populate`
(`.panic "reflect.Set: *struct into struct"`); since the repair (fact F21r) populateStruct stores the rebuilt
struct itself, the model follows, and the environment source returns the value with `X` rebuilt by value
inside the allocated `*P`.  With nothing set the value is unset. -/
theorem C16_env_value_struct_rebuilt :
    envValue 64 (envChain 64 cxToks) "" cxValueStruct (fun s => if s = "P_X_A" then some "1" else none) =
      .ok [.ptr (.struct [.struct [.ptr (.i 1)]])] ∧
    envValue 64 (envChain 64 cxToks) "" cxValueStruct (fun _ => none) = .ok [.nilv] :=
  ⟨envValue_value_struct_rebuilt, envValue_value_struct_unset⟩

/-- Outside `SupportedCfg` (1) — a MODEL artefact, not an implementation panic: a struct nested by value
NEXT TO A SIBLING (`P *struct{ B *int; X struct{ A *int } }`).  With `X`'s own leaf set both are rebuilt;
with only the sibling `B` set, `populate` leaves the unset by-value struct as `nilv` (the model has no
zero struct; `.nilv` stands for it), and the recursing alias mangler meets that `nilv` at a struct type:
`ReverseTranslate of a non-struct`.  The real code hands the zero struct through.  This is why
`SupportedCfg` (`okField`) still excludes structs held by value although `populate` no longer panics on
them: enlarging it to them would make `C16_env_total` false for the model. -/
theorem C16_env_value_struct_sibling_model_artefact :
    envValue 64 (envChain 64 cxToks) "" cxValueStructSibling (fun s => if s = "P_X_A" then some "1" else none) =
      .ok [.ptr (.struct [.nilv, .struct [.ptr (.i 1)]])] ∧
    envValue 64 (envChain 64 cxToks) "" cxValueStructSibling (fun s => if s = "P_B" then some "1" else none) =
      .panic "ReverseTranslate of a non-struct" :=
  ⟨envValue_value_struct_sibling_rebuilt, envValue_panics_value_struct_sibling⟩

/-- `P **struct{ A int }` with P_A set: since the repair of P02 the string-cast mangler returns an error
for a field type without element type (before: reflect panicked in Type.Elem); the model follows; the
type is inside `SupportedCfg` (C16_repaired_shapes_supported). -/
theorem C16_env_unwrapped_leaf_is_error :
    envValue 64 (envChain 64 cxToks) "" cxUnwrappedLeaf (fun s => if s = "P_A" then some "1" else none) =
      .err "cannot cast a string to a field that is not a pointer, slice or map" :=
  envValue_unwrapped_leaf_is_error

/-- A field whose name decodes to no word (`dials:"_"`) or with an explicitly empty `dialsenv:""` tag,
whatever the environment: since the repair of P05 env.go returns the error instead of panicking (before:
explicit panic "empty dialsenv tag for field name A"); the model follows; both types are inside
`SupportedCfg` (C16_repaired_shapes_supported). -/
theorem C16_env_empty_tag_is_error (lookup : String → Option String) :
    envValue 64 (envChain 64 cxToks) "" cxEmptyTag lookup = .err "empty dialsenv tag" ∧
    envValue 64 (envChain 64 cxToks) "" cxEmptyEnvTag lookup = .err "empty dialsenv tag" :=
  ⟨envValue_empty_tag_is_error lookup, envValue_empty_envtag_is_error lookup⟩

/-- Outside `SupportedCfg` (2) — a MODEL artefact, not an implementation panic: an array of structs as a
bare flattened leaf (`P **struct{ R [2]struct{ A *int } }`, nothing set).  The model's untyped `nilv`
stands for "unset", which a Go array cannot be: the real code passes the zero array through the recursing
manglers without panicking.  `SupportedCfg` excludes the shape so that the theorem stays about panics
the code can have. -/
theorem C16_env_array_of_structs_model_artefact :
    envValue 64 (envChain 64 cxToks) "" cxArrayOfStructs (fun _ => none) =
      .panic "unexpected value kind in recursive unmangle" :=
  envValue_panics_array_of_structs

/-- Both counterexample types are indeed outside `SupportedCfg` (the predicate is not vacuous the other
way: it rejects these shapes); so is the lone by-value struct of `C16_env_value_struct_rebuilt`, on which
the model does not panic: `SupportedCfg` is sufficient, not necessary. -/
theorem C16_counterexamples_unsupported :
    SupportedCfg 64 cxValueStructSibling = false ∧ SupportedCfg 64 cxArrayOfStructs = false ∧
    SupportedCfg 64 cxValueStruct = false :=
  ⟨counterexamples_unsupported.1, counterexamples_unsupported.2, value_struct_unsupported⟩

/-- The three shapes whose panics were repaired into errors (P02: `P **struct{ A int }`; P05: `dials:"_"`,
`dialsenv:""`) are inside `SupportedCfg`: `C16_env_total` covers them. -/
theorem C16_repaired_shapes_supported :
    SupportedCfg 64 cxUnwrappedLeaf = true ∧ SupportedCfg 64 cxEmptyTag = true ∧
    SupportedCfg 64 cxEmptyEnvTag = true :=
  repaired_now_supported

/-- The guard sites of the catalogue that the models rely on without representing them (reflect's typed
operations), as found in the current source by the facts translator (F21a–F21aa): the Convert calls and
the pointer guard of parse.String / parse.Map / the string-cast mangler (repairs of D8, D19), its kind
guard before Type.Elem and its boxing as a user-defined pointer type (repairs of P02, P11), the
pointer-level rebuild from the declared types, nil guards, assignability and CanSet checks and the
by-value struct case of populateStruct (repairs of D18, P02, P03, P11), the flatten mangler's nil-ability
and count checks, the alias mangler's length switch and un-embedded copy (P10), ReverseTranslate's
ConvertibleTo check and FieldByIndexErr, the env source's error for an empty tag (P05), the flag sources'
kind / convertibility / name / shorthand checks (P02, P04, P06, P07), the anonymous-flatten mangler's
struct guards (P08) and the recover around the TOML and CUE parsers (P09, P14).  Reverting a repair or
removing a guard makes this false. -/
theorem C16_guard_facts :
    Facts.parseStringElemGuard = true ∧ Facts.parseStringConvertsElem = true ∧ Facts.parseMapConverts = true ∧
    Facts.parseMapDupCheck = true ∧ Facts.stringCastConverts = true ∧ Facts.stringCastNilGuard = true ∧
    Facts.populateRebuildsPtrLevels = true ∧ Facts.populateNilGuards = 2 ∧ Facts.populateChecksAssignable = true ∧
    Facts.populateCanSetChecks = 2 ∧ Facts.flattenRejectsNonNilable = true ∧ Facts.flattenCountCheck = true ∧
    Facts.aliasLengthSwitch = true ∧ Facts.reverseChecksConvertible = true ∧ Facts.reverseFieldByIndexErr = true ∧
    Facts.envErrorsOnEmptyTag = true ∧ Facts.populateLeafChecksAssignable = true ∧ Facts.populateValueStruct = true ∧
    Facts.stringCastElemGuard = true ∧ Facts.stringCastBoxesNamedPtr = true ∧ Facts.flagKindGuards = 2 ∧
    Facts.flagConvertGuards = 2 ∧ Facts.flagNameChecked = true ∧ Facts.pflagShorthandChecked = true ∧
    Facts.anonFlattenStructGuards = 2 ∧ Facts.aliasCopyNotEmbedded = true ∧ Facts.decodersRecover = 2 := by
  decide

/-- non-vacuity of `C16_env_total`: a config with a pointer to a struct holding a nested pointer-to-struct, a
named scalar, a slice, a map and a `**bool`, a `dials`-tagged field and an aliased field is supported, and
the env source returns a value for it with two variables set -/
example : SupportedCfg 200 okCfg = true ∧
    (∀ c, envValue 200 (envChain 200 cxToks) "" okCfg
      (fun s => if s = "P_Q_A" then some "7" else if s = "OLD_U" then some "x" else none) ≠ .panic c) :=
  ⟨by decide, envValue_noPanic 200 cxToks "" okCfg _ (by decide)⟩

/-- non-vacuity of `C16_parse_string_total`: a slice of a user-defined int8 type parses, and overflows to an error -/
example : (parseString (fun _ => ([Parse.Tok.word "1".toList, .comma, .word "2".toList, .eof], [])) "1,2"
      (.slice (.basic (.int .i8) true))).isOk = true ∧
    (match parseString (fun _ => ([Parse.Tok.word "1".toList, .comma, .word "200".toList, .eof], [])) "1,200"
      (.slice (.basic (.int .i8) true)) with
     | .err c => c == "overflow"
     | _ => false) = true := by
  decide

end Dials.C16
