/-
C19 — Case conversion: matched encoders and decoders are inverse; Go-identifier decoding
splits names made of capitalised words and initialisms into exactly those words.

Property theorems only (helper lemmas live in Lemmas/CaseConv.lean).
-/
import DialsModel.Lemmas.CaseConv
import DialsModel.Lemmas.GoIdent

namespace Dials.C19
open Dials Dials.CaseConv

/-- Round trip for all six schemes and every non-empty list of words over [a-z][a-z0-9]*
(any number of words, any length). -/
theorem C19_roundtrip (sc : Scheme) (ws : Words) (hne : ws ≠ []) (h : ∀ w ∈ ws, isWord w = true) :
    sc.decode (sc.encode ws) = some ws := by
  cases ws with
  | nil => exact absurd rfl hne
  | cons w ws =>
    have hw := h w (by simp)
    cases w with
    | nil => simp [isWord] at hw
    | cons c cs =>
      have hwc : (c :: cs : Str) = c :: cs := rfl
      have hw' := hw
      simp only [isWord, Bool.and_eq_true] at hw'
      have hcl := hw'.1
      have hrest : ∀ v ∈ ws, isWord v = true := fun v hv => h v (by simp [hv])
      cases sc with
      | upperCamel =>
        have key := camelLoop_words ((c :: cs) :: ws) (by simp) h []
        simp only [Scheme.decode, Scheme.encode, encodeUpperCamel]
        simp only [List.map_cons, List.flatten_cons, title, List.cons_append] at key ⊢
        simp only [decodeUpperCamel, isUpperA_toUpperA c hcl, if_true, decodeCamel, badStart,
          not_digit_of_upper _ (isUpperA_toUpperA c hcl), Bool.false_eq_true, if_false]
        simpa using key
      | lowerCamel =>
        simp only [Scheme.decode, Scheme.encode, encodeLowerCamel, List.cons_append]
        simp only [decodeLowerCamel, hcl, if_true, decodeCamel, badStart, not_digit_of_lower c hcl,
          Bool.false_eq_true, if_false]
        have hall : (c :: cs).all lowerOk = true := word_all_lowerOk hw
        have := camelLoop_tail (c :: cs) hall ((ws.map title).flatten) []
        simp only [List.cons_append, List.nil_append] at this
        rw [this]
        by_cases hws : ws = []
        · subst hws
          simp [camelLoop, lowerS_of_all_lowerOk (c :: cs) hall]
        · rw [camelLoop_words ws hws hrest]
          simp [lowerS_of_all_lowerOk (c :: cs) hall]
      | lowerSnake =>
        show decodeLowerSnake (joinWith '_' (List.map lowerS ((c :: cs) :: ws))) = _
        rw [map_lowerS_words ((c :: cs) :: ws) h]
        have hb := badStart_join_false '_' (c :: cs) ws c cs hwc (not_digit_of_lower c hcl)
        unfold decodeLowerSnake
        simp only [hb, Bool.false_eq_true, if_false]
        rw [splitLoop_join '_' lowerOk false (c :: cs) ws (fun v hv => ⟨word_ne_nil (h v hv), fun d hd =>
          have := List.all_eq_true.1 (word_all_lowerOk (h v hv)) d hd
          ⟨this, lowerOk_ne_us this⟩⟩)]
        rw [List.nil_append, map_lowerS_words ws hrest, lowerS_of_all_lowerOk (c :: cs) (word_all_lowerOk hw)]
      | kebab =>
        show decodeKebab (joinWith '-' ((c :: cs) :: ws)) = _
        have hb := badStart_join_false '-' (c :: cs) ws c cs hwc (not_digit_of_lower c hcl)
        unfold decodeKebab
        simp only [hb, Bool.false_eq_true, if_false]
        rw [splitLoop_join '-' lowerOk false (c :: cs) ws (fun v hv => ⟨word_ne_nil (h v hv), fun d hd =>
          have := List.all_eq_true.1 (word_all_lowerOk (h v hv)) d hd
          ⟨this, lowerOk_ne_dash this⟩⟩)]
        rw [List.nil_append, map_lowerS_words ws hrest, lowerS_of_all_lowerOk (c :: cs) (word_all_lowerOk hw)]
      | casePreservingSnake =>
        show decodeCasePreservingSnake (joinWith '_' ((c :: cs) :: ws)) = _
        have hb := badStart_join_false '_' (c :: cs) ws c cs hwc (not_digit_of_lower c hcl)
        unfold decodeCasePreservingSnake
        simp only [hb, Bool.false_eq_true, if_false]
        rw [splitLoop_join '_' isAlnum true (c :: cs) ws (fun v hv => ⟨word_ne_nil (h v hv), fun d hd =>
          have := List.all_eq_true.1 (word_all_lowerOk (h v hv)) d hd
          ⟨lowerOk_alnum this, lowerOk_ne_us this⟩⟩)]
        rw [List.nil_append, map_lowerS_words ws hrest, lowerS_of_all_lowerOk (c :: cs) (word_all_lowerOk hw)]
      | upperSnake =>
        show decodeUpperSnake (joinWith '_' (upperS (c :: cs) :: ws.map upperS)) = _
        have hU : upperS (c :: cs) = toUpperA c :: upperS cs := rfl
        have hb := badStart_join_false '_' (upperS (c :: cs)) (ws.map upperS) (toUpperA c) (upperS cs) hU
          (not_digit_of_upper _ (isUpperA_toUpperA c hcl))
        unfold decodeUpperSnake
        simp only [hb, Bool.false_eq_true, if_false]
        have hmem : ∀ v ∈ upperS (c :: cs) :: ws.map upperS, v ≠ [] ∧ ∀ d ∈ v, upperOk d = true ∧ (d == '_') = false := by
          intro v hv
          have : ∃ u ∈ (c :: cs) :: ws, v = upperS u := by
            simp only [List.mem_cons, List.mem_map] at hv
            rcases hv with hv | ⟨u, hu, rfl⟩
            · exact ⟨c :: cs, by simp, hv⟩
            · exact ⟨u, by simp [hu], rfl⟩
          obtain ⟨u, hu, rfl⟩ := this
          have huw := h u hu
          refine ⟨?_, ?_⟩
          · have := word_ne_nil huw
            cases u with
            | nil => exact absurd rfl this
            | cons a b => simp [upperS]
          · intro d hd
            simp only [upperS, List.mem_map] at hd
            obtain ⟨e, he, rfl⟩ := hd
            have hl := List.all_eq_true.1 (word_all_lowerOk huw) e he
            exact ⟨lowerOk_upperOk_upper hl, upperOk_ne_us (lowerOk_upperOk_upper hl)⟩
        rw [splitLoop_join '_' upperOk false (upperS (c :: cs)) (ws.map upperS) hmem]
        rw [List.nil_append, map_lowerS_upperS_words ws hrest,
          lowerS_upperS_of_all_lowerOk (c :: cs) (word_all_lowerOk hw)]

/-- The guard `ws ≠ []` in `C19_roundtrip` is exact: the encoding of the empty word list is
rejected by every decoder. -/
theorem C19_empty_rejected (sc : Scheme) : sc.decode (sc.encode []) = none := by
  cases sc <;> rfl

/-- non-vacuity: the hypotheses of `C19_roundtrip` are satisfiable by a non-trivial list -/
example : (∀ w ∈ ["http2".toList, "x".toList, "port".toList], isWord w = true) ∧
    Scheme.upperSnake.decode (Scheme.upperSnake.encode ["http2".toList, "x".toList, "port".toList])
      = some ["http2".toList, "x".toList, "port".toList] := by decide

/-- Go-identifier decoding: an identifier rendered from any list of capitalised words
`[A-Z][a-z]+` and initialisms that satisfies the decidable side condition `GoodIdent`
(every maximal run of adjacent initialisms is tokenised as intended by the scan-order matcher;
no capitalised word shorter than three characters directly after an initialism at the very end)
decodes to exactly those words.  Any number of tokens, any order.  Parametric in the initialism
list; `decodeGoCamel` instantiates it with the list regenerated from the source (F11). -/
theorem C19_go_ident (ts : List Tok) (h : GoodIdent initialisms ts = true) :
    decodeGoCamel (render ts) = some (expected ts) :=
  decodeGoCamelWith_good initialisms ts h

/-- Every initialism of the current source list except HTTPS and UID (which are shadowed by the
earlier entries HTTP and UI: finding D11) and UTF8 (digit: D16) forms a good identifier between
two capitalised words; so e.g. `UserIDName`, `JSONFile`, `HTTPPort` keep every word boundary.
The quantifier is the finite table `Facts.initialisms`; `decide` enumerates all of it. -/
theorem C19_single_initialism :
    ∀ i ∈ initialisms, i ≠ "HTTPS".toList → i ≠ "UID".toList → i ≠ "UTF8".toList →
      GoodIdent initialisms [.word "User".toList, .init i, .word "Name".toList] = true ∧
      GoodIdent initialisms [.init i, .word "File".toList] = true ∧
      GoodIdent initialisms [.word "User".toList, .init i] = true := by
  decide

/-- The full-strength statement ("every identifier assembled from capitalised words and the
initialism list decodes to its tokens") is false of the current code: finding D11. -/
theorem C19_shadowed_counterexample :
    decodeGoCamel "HTTPSPort".toList = some ["http".toList, "s".toList, "port".toList] ∧
    decodeGoCamel "UserUID".toList = some ["user".toList, "ui".toList, "d".toList] := by
  decide

/-- finding D14: a two-letter word after an initialism at the very end is glued to it -/
theorem C19_short_tail_counterexample :
    decodeGoCamel "HTMLRo".toList = some ["htmlro".toList] := by decide

/-- non-vacuity of `C19_go_ident`: a five-token identifier with two adjacent initialisms -/
example : GoodIdent initialisms [.word "My".toList, .init "JSON".toList, .init "API".toList,
    .word "Ab".toList, .word "Cd".toList] = true := by decide

end Dials.C19
