/-
C17 — Watched files: the view converges to the file's final content.

Model: Model/Watch.lean — one iteration of `watchLoop` (sources/file/file.go) as a pure function of the loop
state and of what the iteration read from the OS; a run is a fold over an ARBITRARY finite history of reads
(contents of any kind, missing file, open errors, any symlink resolution results, any Add/Remove results).
The theorems quantify over all such histories, hence over every interleaving of the watcher's reads with
the file operations of the property (in-place rewrite, rename-over, symlink swap, delete-and-recreate,
identical rewrite, malformed content): whatever the operations and pauses were, the watcher saw SOME
sequence of reads.

ASSUMED about the environment (PARTIAL, sampled by the harness only):
 * liveness of the OS/fsnotify side: some iteration runs after the last change and reads the final content
   completely (the convergence theorems are about "any run whose last iteration read the final content");
 * HMAC-SHA256 under the per-process key is injective (the checksum is modelled as the content);
 * the decoder is a function of the bytes it consumed and consumes the whole file; a failing read
   surfaces as a decode failure;
 * the window between the initial `Value` and `Watch`, and real goroutine / inotify release (observed by
   the harness through goroutine dumps and /proc/self/fdinfo), are outside the model.
-/
import DialsModel.Model.Watch
import DialsModel.Lemmas.Watch

namespace Dials.C17
open Dials Dials.Watch

variable {V : Type}

/-- The remembered checksum is backed by the value the consumer holds: if the loop remembers content `b`
then `cur` (the last reported value, or the initial `Value`) is the decoding of `b`. -/
def SumInv (dec : Bytes → Option V) (lastSum : Option Bytes) (cur : V) : Prop :=
  ∀ b, lastSum = some b → dec b = some cur

/-- **Checksum invariant.**  Over every finite history of reads: whenever the loop remembers a checksum, the
most recent reported value (or, if nothing was reported yet, the value of the initial `Value` call) is the
decoding of exactly that content.  It holds at the start when `Watch` follows a successful `Value`
(`lastSum = some b₀`, `v0 = decode b₀`) or a failed one (`lastSum = none`). -/
theorem C17_sum_invariant (dec : Bytes → Option V) (c : Cfg) (s : WState) (v0 : V) (rs : List IterRead)
    (h : SumInv dec s.lastSum v0) :
    SumInv dec (run dec c s rs).1.lastSum (lastReported v0 (run dec c s rs).2) := by
  induction rs generalizing s v0 with
  | nil => simpa [run_nil, lastReported, reports] using h
  | cons r rs ih =>
    rw [run_cons]
    simp only [lastReported_append]
    apply ih
    -- one iteration preserves the invariant
    intro b hb
    rw [iter_lastSum] at hb
    have hrep := iter_reports dec c s r
    cases hr : r.val with
    | openErr ne sc =>
      rw [hr, value_openErr] at hb
      rw [hr, value_openErr] at hrep
      rw [lastReported_of_reports_nil _ _ hrep]
      exact h b hb
    | content b' =>
      rw [hr] at hb hrep
      cases hd : dec b' with
      | none =>
        rw [value_decErr dec _ _ hd] at hb hrep
        rw [lastReported_of_reports_nil _ _ hrep]
        exact h b hb
      | some v =>
        by_cases hsame : s.lastSum = some b'
        · rw [hsame, value_same dec _ v hd] at hb hrep
          rw [lastReported_of_reports_nil _ _ hrep]
          simp only [Option.some.injEq] at hb
          subst hb
          exact h b' hsame
        · rw [value_new dec _ _ v hd hsame] at hb hrep
          rw [lastReported_of_reports_single _ v _ hrep]
          simp only [Option.some.injEq] at hb
          subst hb
          exact hd

/-- The remembered checksum is exactly the content of the most recent read that decoded — reads of a
missing file, open errors and malformed contents in between leave it alone (decode-before-checksum order,
regenerated fact F15a). -/
theorem C17_sum_is_last_decoded (dec : Bytes → Option V) (c : Cfg) (s : WState) (rs : List IterRead) :
    (run dec c s rs).1.lastSum = lastDecoded dec s.lastSum (rs.map (·.val)) :=
  run_lastSum dec c s rs

/-- **One iteration, complete characterisation of what is reported.**  A value is reported exactly when
the file was read, its content decodes and differs from the remembered content; then it is the decoding of
what was read in THIS iteration. -/
theorem C17_report_iff_changed (dec : Bytes → Option V) (c : Cfg) (s : WState) (r : IterRead) :
    reports (iter dec c s r).2 =
      match r.val with
      | .content b =>
        (match dec b with
         | some v => if s.lastSum = some b then [] else [v]
         | none => [])
      | .openErr _ _ => [] := by
  rw [iter_reports]
  cases hr : r.val with
  | openErr ne sc => rw [value_openErr]
  | content b =>
    cases hd : dec b with
    | none => rw [value_decErr dec _ _ hd]; simp [hd]
    | some v =>
      by_cases hsame : s.lastSum = some b
      · rw [hsame, value_same dec _ v hd]; simp [hd]
      · rw [value_new dec _ _ v hd hsame]; simp [hsame, hd]

/-- **Identical content never produces a version.**  If the loop remembers content `b` (which decodes) and
an iteration reads `b` again — after an atomic rename-over, a symlink swap, a rewrite in place or a
delete-and-recreate with the same bytes — nothing is reported, no error is reported and the state of the
checksum is unchanged. -/
theorem C17_identical_no_version (dec : Bytes → Option V) (c : Cfg) (s : WState) (r : IterRead) (b : Bytes) (v : V)
    (hs : s.lastSum = some b) (hr : r.val = .content b) (hd : dec b = some v) :
    reports (iter dec c s r).2 = [] ∧ errorsReported (iter dec c s r).2 = [] ∧
      (iter dec c s r).1.lastSum = some b := by
  refine ⟨?_, ?_, ?_⟩
  · rw [iter_reports, hr, hs, value_same dec _ v hd]
  · rw [iter_errors, hr, hs, value_same dec _ v hd]
  · rw [iter_lastSum, hr, hs, value_same dec _ v hd]

/-- **A version is produced only on a change of content**, over whole histories: if, after any history `rs`,
an iteration reports something, then it read a content `b` that decodes to the reported value and that is
different from the content of the most recent read that decoded (or the initial one) — however many reads of
a missing file, open errors or malformed contents lie in between. -/
theorem C17_version_only_on_change (dec : Bytes → Option V) (c : Cfg) (s : WState) (rs : List IterRead) (r : IterRead)
    (h : reports (iter dec c (run dec c s rs).1 r).2 ≠ []) :
    ∃ b v, r.val = .content b ∧ dec b = some v ∧ reports (iter dec c (run dec c s rs).1 r).2 = [v] ∧
      lastDecoded dec s.lastSum (rs.map (·.val)) ≠ some b := by
  rw [C17_report_iff_changed] at h ⊢
  cases hr : r.val with
  | openErr ne sc => rw [hr] at h; exact absurd rfl h
  | content b =>
    rw [hr] at h
    cases hd : dec b with
    | none => simp [hd] at h
    | some v =>
      by_cases hsame : (run dec c s rs).1.lastSum = some b
      · simp [hsame, hd] at h
      · refine ⟨b, v, rfl, hd, by simp [hsame, hd], ?_⟩
        rw [← C17_sum_is_last_decoded dec c s rs]
        exact hsame

/-- **Convergence, valid final content.**  In any run whose last iteration read the final content `b`
completely and `b` decodes to `v`: the last reported value (the initial one if nothing was ever reported)
is `v` — whether this iteration reported it or an earlier one did and the content was merely seen again.
Environment assumption (PARTIAL): such an iteration exists, i.e. an event, poll tick or reload signal
arrives after the last change. -/
theorem C17_converges_ok (dec : Bytes → Option V) (c : Cfg) (s : WState) (v0 : V) (rs : List IterRead) (r : IterRead)
    (b : Bytes) (v : V) (hinv : SumInv dec s.lastSum v0) (hr : r.val = .content b) (hd : dec b = some v) :
    lastReported v0 (run dec c s (rs ++ [r])).2 = v := by
  rw [run_append, run_single]
  simp only [lastReported_append]
  have hI := C17_sum_invariant dec c s v0 rs hinv
  have hrep := C17_report_iff_changed dec c (run dec c s rs).1 r
  rw [hr] at hrep
  simp only [hd] at hrep
  by_cases hsame : (run dec c s rs).1.lastSum = some b
  · simp only [hsame, if_true] at hrep
    rw [lastReported_of_reports_nil _ _ hrep]
    have := hI b hsame
    rw [hd] at this
    cases this
    rfl
  · simp only [hsame, if_false] at hrep
    exact lastReported_of_reports_single _ v _ hrep

/-- **Convergence, invalid final content.**  In any run whose last iteration read a final content that
does not decode: that iteration reports the decoder's error and no value, the last good value stands, and the
remembered checksum is untouched — so a later return to the last good content stays silent and any other
valid content is reported. -/
theorem C17_converges_err (dec : Bytes → Option V) (c : Cfg) (s : WState) (v0 : V) (rs : List IterRead) (r : IterRead)
    (b : Bytes) (hr : r.val = .content b) (hd : dec b = none) :
    errorsReported (iter dec c (run dec c s rs).1 r).2 = [.decoder] ∧
    reports (iter dec c (run dec c s rs).1 r).2 = [] ∧
    lastReported v0 (run dec c s (rs ++ [r])).2 = lastReported v0 (run dec c s rs).2 ∧
    (run dec c s (rs ++ [r])).1.lastSum = (run dec c s rs).1.lastSum := by
  have hrep : reports (iter dec c (run dec c s rs).1 r).2 = [] := by
    rw [iter_reports, hr, value_decErr dec _ _ hd]
  refine ⟨?_, hrep, ?_, ?_⟩
  · rw [iter_errors, hr, value_decErr dec _ _ hd]
  · rw [run_append, run_single]
    simp only [lastReported_append]
    exact lastReported_of_reports_nil _ _ hrep
  · rw [run_append, run_single]
    show (iter dec c (run dec c s rs).1 r).1.lastSum = _
    rw [iter_lastSum, hr, value_decErr dec _ _ hd]

/-- **A missing file is silent.**  An iteration that finds the file missing (between the unlink and the
re-creation of a delete-and-recreate, or a dangling symlink during a swap) reports neither a value nor an
error and forgets nothing: the last good config stays in force. -/
theorem C17_missing_silent (dec : Bytes → Option V) (c : Cfg) (s : WState) (r : IterRead) (sc : Bool)
    (hr : r.val = .openErr true sc) :
    reports (iter dec c s r).2 = [] ∧ errorsReported (iter dec c s r).2 = [] ∧
      (iter dec c s r).1.lastSum = s.lastSum ∧ (iter dec c s r).1.resolved = s.resolved := by
  refine ⟨?_, ?_, ?_, ?_⟩
  · rw [iter_reports, hr, value_openErr]
  · rw [iter_errors, hr, value_openErr]; rfl
  · rw [iter_lastSum, hr, value_openErr]
  · rw [iter_missing dec c s r (by rw [hr, value_openErr]; rfl)]

/-- Any other failure to open the file (permissions, a symlink loop, …) is reported as an error; nothing is
reported as a value and the remembered checksum is untouched. -/
theorem C17_open_error_reported (dec : Bytes → Option V) (c : Cfg) (s : WState) (r : IterRead) (sc : Bool)
    (hr : r.val = .openErr false sc) :
    errorsReported (iter dec c s r).2 = [.openE] ∧ reports (iter dec c s r).2 = [] ∧
      (iter dec c s r).1.lastSum = s.lastSum := by
  refine ⟨?_, ?_, ?_⟩
  · rw [iter_errors, hr, value_openErr]; rfl
  · rw [iter_reports, hr, value_openErr]
  · rw [iter_lastSum, hr, value_openErr]

/-- **Spurious wake-ups are harmless.**  Repeating an iteration with the same reads (duplicate fsnotify
events, a poll tick, a reload signal) leaves the whole loop state unchanged and reports no value. -/
theorem C17_stutter (dec : Bytes → Option V) (c : Cfg) (s : WState) (r : IterRead) :
    (iter dec c (iter dec c s r).1 r).1 = (iter dec c s r).1 ∧
      reports (iter dec c (iter dec c s r).1 r).2 = [] := by
  refine ⟨iter_idem_state dec c s r, ?_⟩
  rw [iter_reports, iter_lastSum]
  have := value_idem_not_ok dec s.lastSum r.val
  cases hv : (value dec (value dec s.lastSum r.val).1 r.val).2 with
  | ok v => exact absurd hv (this v)
  | unchanged => rfl
  | decErr => rfl
  | openErr ne sc => rfl

/-! ### Watches -/

/-- What the loop needs to keep hearing about changes: the file's watch is held whenever the loop believes
so, the directory of the resolved path and the config's own directory are watched, and the resolved
directory is not the file itself (true of real paths). -/
def WatchOK (c : Cfg) (s : WState) : Prop :=
  (s.watchingFile = true → c.cleaned ∈ s.watches) ∧ dirOf s.resolved ∈ s.watches ∧
    dirOf c.cleaned ∈ s.watches ∧ dirOf s.resolved ≠ c.cleaned

/-- Decidable side conditions of one pass that found the file — both are about what the OS answered, not about
the code: (1) path sanity — the new resolved directory is not the file itself (true of real paths);
(2) adding the new directory's watch, if attempted, succeeded (`inotify_add_watch` can fail when the directory
vanished again or the watch limit is reached; `C17_failed_dir_add_not_retried` shows what happens then). -/
def stepOK (c : Cfg) (s : WState) (r : IterRead) : Bool :=
  !found r.val ||
  (decide (dirOf (r.env.resolved.getD s.resolved) ≠ c.cleaned) &&
   (decide (dirOf s.resolved = dirOf (r.env.resolved.getD s.resolved)) || r.env.addDirOk))

/-- `stepOK` along a run. -/
def historyOK (dec : Bytes → Option V) (c : Cfg) (s : WState) : List IterRead → Bool
  | [] => true
  | r :: rs => stepOK c s r && historyOK dec c (iter dec c s r).1 rs

/-- **Watch invariant, one step.**  One iteration (file found or missing) preserves `WatchOK` under the side conditions; if it found the file and (when it had to)
could add the file's watch, the file is watched afterwards. -/
theorem C17_watch_invariant_step (dec : Bytes → Option V) (c : Cfg) (s : WState) (r : IterRead)
    (hcfg : dirOf c.cleaned ≠ c.cleaned) (h : WatchOK c s) (hok : stepOK c s r = true) :
    WatchOK c (iter dec c s r).1 ∧
      (found r.val = true → r.env.addFileOk = true →
        (iter dec c s r).1.watchingFile = true ∧ c.cleaned ∈ (iter dec c s r).1.watches) := by
  obtain ⟨hfile, hres, hpar, hne⟩ := h
  cases hf : found r.val with
  | false =>
    have hm : (value dec s.lastSum r.val).2.isNotExist = true := by rw [found_iff, hf]; rfl
    rw [iter_missing dec c s r hm]
    refine ⟨?_, fun h => absurd h (by simp)⟩
    unfold WatchOK
    cases hw : s.watchingFile with
    | false =>
      have e : missingStep (V := V) c false r.env = (false, []) := by simp [missingStep]
      rw [e]
      exact ⟨fun h => absurd h (by simp), hres, hpar, hne⟩
    | true =>
      have e : missingStep (V := V) c true r.env = (false, [.removeWatch c.cleaned r.env.rmFileOk]) := by
        simp [missingStep, Facts.watchMissingRemovesFileWatch]
      rw [e]
      have e2 : applyWatches s.watches [Action.removeWatch (V := V) c.cleaned r.env.rmFileOk] =
          applyWatch s.watches (Action.removeWatch (V := V) c.cleaned r.env.rmFileOk) := rfl
      dsimp only
      rw [e2]
      simp only [mem_applyWatch_remove]
      exact ⟨fun h => absurd h (by simp), ⟨hres, hne⟩, ⟨hpar, hcfg⟩, hne⟩
  | true =>
    have hm : (value dec s.lastSum r.val).2.isNotExist = false := by rw [found_iff, hf]; rfl
    rw [iter_found dec c s r hm]
    simp only [stepOK, hf, Bool.not_true, Bool.false_or, Bool.and_eq_true, Bool.or_eq_true,
      decide_eq_true_eq] at hok
    obtain ⟨hnew, hadd⟩ := hok
    unfold WatchOK
    dsimp only
    -- abbreviations
    generalize dirOf (r.env.resolved.getD s.resolved) = new at *
    generalize hO : dirOf s.resolved = old at *
    simp only [applyWatches_append]
    -- the file-watch step
    have hF : ((fileWatchStep (V := V) c s.watchingFile r.env).1 = true →
          c.cleaned ∈ applyWatches s.watches (fileWatchStep (V := V) c s.watchingFile r.env).2) ∧
        old ∈ applyWatches s.watches (fileWatchStep (V := V) c s.watchingFile r.env).2 ∧
        dirOf c.cleaned ∈ applyWatches s.watches (fileWatchStep (V := V) c s.watchingFile r.env).2 ∧
        (r.env.addFileOk = true → (fileWatchStep (V := V) c s.watchingFile r.env).1 = true) := by
      cases hw : s.watchingFile with
      | true =>
        have e : fileWatchStep (V := V) c true r.env = (true, []) := by simp [fileWatchStep]
        rw [e]
        exact ⟨fun _ => hfile hw, hres, hpar, fun _ => rfl⟩
      | false =>
        cases ha : r.env.addFileOk with
        | true =>
          have e : fileWatchStep (V := V) c false r.env = (true, [.addWatch c.cleaned true]) := by
            simp [fileWatchStep, ha]
          rw [e]
          have e2 : applyWatches s.watches [Action.addWatch (V := V) c.cleaned true] =
              applyWatch s.watches (Action.addWatch (V := V) c.cleaned true) := rfl
          dsimp only
          rw [e2]
          simp only [mem_applyWatch_add]
          exact ⟨by simp, Or.inl hres, Or.inl hpar, by simp⟩
        | false =>
          have e : fileWatchStep (V := V) c false r.env = (false, [.addWatch c.cleaned false]) := by
            simp [fileWatchStep, ha]
          rw [e]
          exact ⟨fun h => absurd h (by simp), hres, hpar, fun h => absurd h (by simp)⟩
    obtain ⟨hF1, hF2, hF3, hF4⟩ := hF
    generalize applyWatches s.watches (fileWatchStep (V := V) c s.watchingFile r.env).2 = w1 at *
    generalize (fileWatchStep (V := V) c s.watchingFile r.env).1 = wf1 at *
    -- the directory step
    by_cases hEq : old = new
    · subst hEq
      rw [dirWatchStep_same]
      exact ⟨⟨hF1, hF2, hF3, hnew⟩, fun _ ha => ⟨hF4 ha, hF1 (hF4 ha)⟩⟩
    · have haddOk : r.env.addDirOk = true := by
        cases hadd with
        | inl h => exact absurd h hEq
        | inr h => exact h
      have hold : c.cleaned ≠ old := fun h => hne h.symm
      by_cases hOwn : old = dirOf c.cleaned
      · -- the old directory is the config's own directory: its watch stays (F15f4)
        subst hOwn
        have hD : dirWatchStep (V := V) (dirOf c.cleaned) (dirOf c.cleaned) new r.env = [.addWatch new true] := by
          simp [dirWatchStep, hEq, haddOk, Facts.dirWatchAddBeforeRemove, Facts.dirWatchKeepsOwnDir]
        rw [hD]
        have e2 : applyWatches w1 [Action.addWatch (V := V) new true] = applyWatch w1 (Action.addWatch (V := V) new true) := rfl
        rw [e2]
        simp only [mem_applyWatch_add]
        exact ⟨⟨fun hw => Or.inl (hF1 hw), by simp, Or.inl hF3, hnew⟩, fun _ ha => ⟨hF4 ha, Or.inl (hF1 (hF4 ha))⟩⟩
      · have hD : dirWatchStep (V := V) (dirOf c.cleaned) old new r.env =
            [.addWatch new true, .removeWatch old r.env.rmDirOk] := by
          simp [dirWatchStep, hEq, haddOk, hOwn, Facts.dirWatchAddBeforeRemove]
        rw [hD]
        have e2 : applyWatches w1 [Action.addWatch (V := V) new true, .removeWatch old r.env.rmDirOk] =
            applyWatch (applyWatch w1 (Action.addWatch (V := V) new true)) (Action.removeWatch (V := V) old r.env.rmDirOk) := rfl
        rw [e2]
        simp only [mem_applyWatch_remove, mem_applyWatch_add]
        have hpar' : dirOf c.cleaned ≠ old := fun h2 => hOwn h2.symm
        exact ⟨⟨fun hw => ⟨Or.inl (hF1 hw), hold⟩, ⟨by simp, fun h => hEq h.symm⟩, ⟨Or.inl hF3, hpar'⟩, hnew⟩,
          fun _ ha => ⟨hF4 ha, Or.inl (hF1 (hF4 ha)), hold⟩⟩

/-- `Watch` starts the loop in a state satisfying `WatchOK` (F15w). -/
theorem C17_watch_setup (c : Cfg) (l : Option Bytes) (p0 : Path) (hne : dirOf p0 ≠ c.cleaned) :
    WatchOK c (watchInit c l p0) := by
  unfold WatchOK watchInit
  by_cases h : c.cleaned = p0
  · subst h
    simp [applyWatches, mem_applyWatch_add, hne]
  · simp [applyWatches, mem_applyWatch_add, h, hne]

/-- **The config file's own directory stays watched — full strength.**  Over EVERY finite history (any contents, any
symlink resolutions incl. a regular file turning into a symlink into another directory and back, any results of any
`Add`/`Remove` call): the watch on `filepath.Dir(cleanedPath)` that `Watch` set up is never given up
(updateDirWatches returns before `Remove` when the old directory is the config's own one, F15f4; repaired defect D26).
That directory is where the file — or the symlink to it, or the `..data` link — gets replaced, so every later
replacement produces an event the loop is subscribed to.  Only hypothesis: the config path is not its own directory
(false only of "/" and "."). -/
theorem C17_own_dir_always_watched (dec : Bytes → Option V) (c : Cfg) (s : WState) (rs : List IterRead)
    (hcfg : dirOf c.cleaned ≠ c.cleaned) (h : dirOf c.cleaned ∈ s.watches) :
    dirOf c.cleaned ∈ (run dec c s rs).1.watches := by
  induction rs generalizing s with
  | nil => exact h
  | cons r rs ih =>
    rw [run_cons]
    exact ih _ (own_dir_step dec c s r hcfg h)

/-- **Watches are repaired.**  Over every finite history whose passes satisfy `stepOK` — the two conditions on what the
OS answered: resolved directories are not the file itself, and every attempted `Add` of a new resolved directory
succeeded — after any pass that found the file and, if the file's watch had been dropped because the file was
missing, could re-add it: the loop holds watches on the file, on the directory of the resolved path and on the
config's own directory.  No hypothesis about the ORDER or KIND of changes is left (the former guard for the
regular-file-becomes-symlink transition is gone: `C17_own_dir_always_watched`).  What `historyOK` excludes is exactly
the situation of `C17_failed_dir_add_not_retried` (a failed `inotify_add_watch`), where the conclusion is false.
(`watches` is what the loop asked fsnotify for; that the kernel keeps an inode's watch until the inode goes away is an
environment assumption.) -/
theorem C17_watches_repaired (dec : Bytes → Option V) (c : Cfg) (s : WState) (rs : List IterRead) (r : IterRead)
    (hcfg : dirOf c.cleaned ≠ c.cleaned) (h0 : WatchOK c s)
    (hist : historyOK dec c s (rs ++ [r]) = true) (hfound : found r.val = true) (hadd : r.env.addFileOk = true) :
    (run dec c s (rs ++ [r])).1.watchingFile = true ∧
    c.cleaned ∈ (run dec c s (rs ++ [r])).1.watches ∧
    dirOf (run dec c s (rs ++ [r])).1.resolved ∈ (run dec c s (rs ++ [r])).1.watches ∧
    dirOf c.cleaned ∈ (run dec c s (rs ++ [r])).1.watches := by
  induction rs generalizing s with
  | nil =>
    simp only [List.nil_append, historyOK, Bool.and_true] at hist
    rw [List.nil_append, run_single]
    have := C17_watch_invariant_step dec c s r hcfg h0 hist
    exact ⟨(this.2 hfound hadd).1, (this.2 hfound hadd).2, this.1.2.1, this.1.2.2.1⟩
  | cons x xs ih =>
    simp only [List.cons_append, historyOK, Bool.and_eq_true] at hist
    rw [List.cons_append, run_cons]
    exact ih (iter dec c s x).1 (C17_watch_invariant_step dec c s x hcfg h0 hist.1).1 hist.2

/-- After an iteration that found the file missing the loop no longer believes it watches the file (the
kernel dropped that inode's watch with the inode), so that the next iteration that finds the file adds a
fresh watch for the new inode: delete-and-recreate re-arms the file watch. -/
theorem C17_delete_recreate_rewatches (dec : Bytes → Option V) (c : Cfg) (s : WState) (r1 r2 : IterRead)
    (hw : s.watchingFile = true) (h1 : found r1.val = false) (h2 : found r2.val = true) :
    (iter dec c s r1).2 = [.removeWatch c.cleaned r1.env.rmFileOk] ∧
    (iter dec c s r1).1.watchingFile = false ∧
    .addWatch c.cleaned r2.env.addFileOk ∈ (iter dec c (iter dec c s r1).1 r2).2 := by
  have hm : (value dec s.lastSum r1.val).2.isNotExist = true := by rw [found_iff, h1]; rfl
  have hs1 : (iter dec c s r1).1.watchingFile = false := by
    rw [iter_missing dec c s r1 hm]; simp [missingStep, hw, Facts.watchMissingRemovesFileWatch]
  refine ⟨?_, hs1, ?_⟩
  · rw [iter_missing dec c s r1 hm]; simp [missingStep, hw, Facts.watchMissingRemovesFileWatch]
  · have hm2 : (value dec (iter dec c s r1).1.lastSum r2.val).2.isNotExist = false := by rw [found_iff, h2]; rfl
    rw [iter_found dec c _ r2 hm2, hs1]
    simp [fileWatchStep]

/-- Regression witness of repaired defect D26, kernel-evaluated: config `/d/c`, a regular file when `Watch` started,
is replaced by a symlink resolving to `/d/t/c`.  The pass that notices adds the watch on `/d/t` and keeps the one on
`/d`; it then asks for a re-read. -/
theorem C17_file_becomes_symlink :
    let c : Cfg := ⟨['/', 'd', '/', 'c']⟩
    let s := watchInit c none ['/', 'd', '/', 'c']
    let r : IterRead := ⟨.content ['x'], { resolved := some ['/', 'd', '/', 't', '/', 'c'] }⟩
    (iter (V := Bytes) some c s r).2 = [.addWatch ['/', 'd', '/', 't'] true, .report ['x']] ∧
    (iter (V := Bytes) some c s r).1.watches = [['/', 'd', '/', 'c'], ['/', 'd'], ['/', 'd', '/', 't']] ∧
    rereadAfter c s r = true := by
  decide

/-- A failed `Add` of the new resolved directory is never retried (race window: the new directory vanished
again before the watch could be added): `resolvedCfgPath` was already updated, so the next iterations see
"no change" — stated as: such an iteration leaves the new directory unwatched while recording it as resolved. -/
theorem C17_failed_dir_add_not_retried (dec : Bytes → Option V) (c : Cfg) (s : WState) (r : IterRead) (p : Path)
    (hw : s.watchingFile = true) (hf : found r.val = true) (hp : r.env.resolved = some p)
    (hne : dirOf s.resolved ≠ dirOf p) (hfail : r.env.addDirOk = false) :
    (iter dec c s r).1.resolved = p ∧ (iter dec c s r).1.watches = s.watches := by
  have hm : (value dec s.lastSum r.val).2.isNotExist = false := by rw [found_iff, hf]; rfl
  rw [iter_found dec c s r hm, hp]
  simp [fileWatchStep, hw, dirWatchStep, hne, hfail, Facts.dirWatchAddBeforeRemove, Facts.dirWatchKeepOldOnAddErr,
    applyWatches, applyWatch]

/-! ### Re-reading after a new directory watch (repaired defect D27) -/

/-- **After a watch on a new directory was added the file is read again, at once.**  If a pass found the file, the
resolved directory changed and its `Add` succeeded, then (F15r: `if newDirWatched { goto REREAD }`) the same wake-up
continues with another pass on the next read — without waiting for any event — and that read is taken in a state in
which the new directory IS in the watch table.  (The first read was taken before the watch existed, so a write between
the two produced no event; the second read sees it, and every later write produces an event.) -/
theorem C17_reread_after_new_dir_watch (dec : Bytes → Option V) (c : Cfg) (s : WState) (r r2 : IterRead) (rs : List IterRead)
    (hf : found r.val = true) (hmove : dirOf s.resolved ≠ dirOf (r.env.resolved.getD s.resolved))
    (hadd : r.env.addDirOk = true) :
    rereadAfter c s r = true ∧
    wake dec c s (r :: r2 :: rs) =
      ((wake dec c (iter dec c s r).1 (r2 :: rs)).1,
       (iter dec c s r).2 ++ (wake dec c (iter dec c s r).1 (r2 :: rs)).2.1,
       (wake dec c (iter dec c s r).1 (r2 :: rs)).2.2) ∧
    reports (wake dec c s (r :: r2 :: rs)).2.1 =
      reports (iter dec c s r).2 ++ reports (wake dec c (iter dec c s r).1 (r2 :: rs)).2.1 ∧
    dirOf (iter dec c s r).1.resolved ∈ (iter dec c s r).1.watches := by
  have hre : rereadAfter c s r = true := by
    simp [rereadAfter, newDirWatched, hf, hmove, hadd, Facts.watchRereadsAfterNewDirWatch, Facts.watchSkipsMissing]
  have hw : wake dec c s (r :: r2 :: rs) =
      ((wake dec c (iter dec c s r).1 (r2 :: rs)).1,
       (iter dec c s r).2 ++ (wake dec c (iter dec c s r).1 (r2 :: rs)).2.1,
       (wake dec c (iter dec c s r).1 (r2 :: rs)).2.2) := by
    rw [wake]; simp [hre]
  refine ⟨hre, hw, ?_, ?_⟩
  · rw [hw, reports_append]
  · have hm : (value dec s.lastSum r.val).2.isNotExist = false := by rw [found_iff, hf]; rfl
    rw [iter_found dec c s r hm]
    show dirOf (r.env.resolved.getD s.resolved) ∈ applyWatches s.watches _
    rw [applyWatches_append]
    generalize applyWatches s.watches (fileWatchStep (V := V) c s.watchingFile r.env).2 = w1
    generalize dirOf (r.env.resolved.getD s.resolved) = new at *
    generalize dirOf s.resolved = old at *
    by_cases hOwn : old = dirOf c.cleaned
    · subst hOwn
      have hD : dirWatchStep (V := V) (dirOf c.cleaned) (dirOf c.cleaned) new r.env = [.addWatch new true] := by
        simp [dirWatchStep, hmove, hadd, Facts.dirWatchAddBeforeRemove, Facts.dirWatchKeepsOwnDir]
      rw [hD]
      show new ∈ applyWatch w1 (Action.addWatch (V := V) new true)
      rw [mem_applyWatch_add]; exact Or.inr rfl
    · have hD : dirWatchStep (V := V) (dirOf c.cleaned) old new r.env = [.addWatch new true, .removeWatch old r.env.rmDirOk] := by
        simp [dirWatchStep, hmove, hadd, hOwn, Facts.dirWatchAddBeforeRemove]
      rw [hD]
      show new ∈ applyWatch (applyWatch w1 (Action.addWatch (V := V) new true)) (Action.removeWatch (V := V) old r.env.rmDirOk)
      rw [mem_applyWatch_remove, mem_applyWatch_add]
      exact ⟨Or.inr rfl, fun h => hmove h.symm⟩

/-- A pass that added no watch on a new directory ends the wake-up: the loop goes back to its select. -/
theorem C17_no_reread_otherwise (dec : Bytes → Option V) (c : Cfg) (s : WState) (r : IterRead) (rs : List IterRead)
    (h : rereadAfter c s r = false) :
    wake dec c s (r :: rs) = ((iter dec c s r).1, (iter dec c s r).2, rs) := by
  rw [wake]; simp [h]

/-- **The last read of a wake-up was taken under watch.**  When a pass that found the file sends the loop back to its
select (no re-read) and every attempted `Add` succeeded, the resolved directory did not change in this pass; with
`WatchOK` it was therefore in the watch table BEFORE the file was read: any write after that read produces an event
that passes the filter (`C17_events_pass`).  Together with `C17_reread_after_new_dir_watch` this closes the window of
repaired defect D27. -/
theorem C17_settled_pass_read_under_watch (dec : Bytes → Option V) (c : Cfg) (s : WState) (r : IterRead)
    (h0 : WatchOK c s) (hf : found r.val = true) (hadd : r.env.addDirOk = true) (h : rereadAfter c s r = false) :
    dirOf (iter dec c s r).1.resolved = dirOf s.resolved ∧ dirOf (iter dec c s r).1.resolved ∈ s.watches := by
  have hm : (value dec s.lastSum r.val).2.isNotExist = false := by rw [found_iff, hf]; rfl
  have hsame : dirOf s.resolved = dirOf (r.env.resolved.getD s.resolved) := by
    by_cases hEq : dirOf s.resolved = dirOf (r.env.resolved.getD s.resolved)
    · exact hEq
    · simp [rereadAfter, newDirWatched, hf, hEq, hadd, Facts.watchRereadsAfterNewDirWatch, Facts.watchSkipsMissing] at h
  rw [iter_found dec c s r hm]
  show dirOf (r.env.resolved.getD s.resolved) = dirOf s.resolved ∧ dirOf (r.env.resolved.getD s.resolved) ∈ s.watches
  rw [← hsame]
  exact ⟨rfl, h0.2.1⟩

/-- A wake-up is a prefix of a run: its passes are exactly `run` over the reads it consumed, so every theorem about
histories of passes applies to histories of wake-ups. -/
theorem C17_wake_is_run (dec : Bytes → Option V) (c : Cfg) (s : WState) (rs : List IterRead) :
    ∃ n, (wake dec c s rs).2.2 = rs.drop n ∧ (wake dec c s rs).1 = (run dec c s (rs.take n)).1 ∧
      (wake dec c s rs).2.1 = (run dec c s (rs.take n)).2 := by
  induction rs generalizing s with
  | nil => exact ⟨0, rfl, rfl, rfl⟩
  | cons r rs ih =>
    cases h : rereadAfter c s r with
    | false =>
      refine ⟨1, ?_, ?_, ?_⟩ <;> rw [C17_no_reread_otherwise dec c s r rs h] <;> simp [run_cons, run_nil]
    | true =>
      obtain ⟨n, h1, h2, h3⟩ := ih (iter dec c s r).1
      refine ⟨n + 1, ?_, ?_, ?_⟩
      · rw [wake]; simp [h, h1]
      · rw [wake]; simp [h, h2, run_cons]
      · rw [wake]; simp [h, h3, run_cons]

/-! ### Lost events: the overflow error re-synchronises -/

/-- **A watcher error wakes the loop into a read.**  When the kernel's inotify queue overflows, events — possibly the one
for the last change of the config — are lost and fsnotify delivers `ErrEventOverflow` on its Errors channel instead.
That arm of the select falls through to the read (F15e2: nothing in it leaves the select but the closed-channel exit), so
the turn of the loop is a full wake-up over the next reads: the file is read again although no event named it. -/
theorem C17_error_wakes_reread (dec : Bytes → Option V) (c : Cfg) (s : WState) (rs : List IterRead) :
    selectArm c s.resolved .error = .pass ∧
    loopTurn dec c s .error rs = ((wake dec c s rs).1, (wake dec c s rs).2.1, (wake dec c s rs).2.2, true) := by
  have h : selectArm c s.resolved .error = .pass := by simp [selectArm, Facts.watchErrorsFallThrough]
  exact ⟨h, by simp [loopTurn, h]⟩

/-- …and therefore an overflow is repaired: after ANY history, a turn of the loop woken by the error whose pass read the
final content `b` (which decodes to `v`) leaves `v` as the last reported value — the same conclusion as
`C17_converges_ok`, with the lost event replaced by the error.  Environment assumption (PARTIAL): the kernel/fsnotify
does deliver the overflow error after events were dropped. -/
theorem C17_overflow_resync (dec : Bytes → Option V) (c : Cfg) (s : WState) (v0 : V) (rs : List IterRead) (r : IterRead)
    (b : Bytes) (v : V) (hinv : SumInv dec s.lastSum v0) (hr : r.val = .content b) (hd : dec b = some v)
    (hsettled : rereadAfter c (run dec c s rs).1 r = false) :
    lastReported v0 ((run dec c s rs).2 ++ (loopTurn dec c (run dec c s rs).1 .error [r]).2.1) = v := by
  rw [(C17_error_wakes_reread dec c (run dec c s rs).1 [r]).2, C17_no_reread_otherwise dec c _ r [] hsettled]
  have := C17_converges_ok dec c s v0 rs r b v hinv hr hd
  rw [run_append, run_single] at this
  exact this

/-- F15p: the fallback poll (`WithPollInterval`) is a repeating ticker, so the select's ticker arm keeps producing
wake-ups for as long as the loop runs: `C17_wake_is_run` / `C17_converges_ok` then apply to a change that produces no
file-system event at all (the config's directory removed and recreated), whenever it happens. -/
theorem C17_poll_keeps_waking : Facts.watchPollRepeats = true := by
  decide

/-- The other arms: ticker and Reload fall through to the read, an event does exactly when its name passes the filter,
a closed channel or a done context ends the loop (whose deferred calls close the watcher). -/
theorem C17_select_arms (c : Cfg) (resolved : Path) (n : Path) :
    selectArm c resolved .tick = .pass ∧ selectArm c resolved .reload = .pass ∧
    (selectArm c resolved (.event n) = .pass ↔ eventPasses c resolved n = true) ∧
    selectArm c resolved .ctxDone = .exit ∧ selectArm c resolved .eventsClosed = .exit ∧
    selectArm c resolved .errorsClosed = .exit := by
  refine ⟨by simp [selectArm, Facts.watchTickReloadFallThrough], by simp [selectArm, Facts.watchTickReloadFallThrough], ?_,
    by simp [selectArm, Facts.watchLoopReturnsOnCtxDone], rfl, rfl⟩
  cases h : eventPasses c resolved n <;> simp [selectArm, h]

/-! ### Events (the filter in front of an iteration) -/

/-- Events named after the config path (the file's own watch; in-place writes and rename-overs seen through
the directory watch), the resolved path (the file inside the resolved directory), either directory, `<dir>/..data`
(the rename Kubernetes' AtomicWriter commits a new version with; repaired defect D25) or the legacy `<dir>/..dir`
pass the filter (F15g/F15k); every passing event triggers a pass. -/
theorem C17_events_pass (c : Cfg) (resolved : Path) :
    eventPasses c resolved c.cleaned = true ∧ eventPasses c resolved resolved = true ∧
    eventPasses c resolved (dirOf c.cleaned) = true ∧ eventPasses c resolved (dirOf resolved) = true ∧
    eventPasses c resolved (joinPath (dirOf c.cleaned) ['.', '.', 'd', 'a', 't', 'a']) = true ∧
    eventPasses c resolved (joinPath (dirOf c.cleaned) ['.', '.', 'd', 'i', 'r']) = true := by
  have h1 : Facts.k8sIntermediateSymlinkDirChars = ['.', '.', 'd', 'a', 't', 'a'] := by decide
  have h2 : Facts.legacyIntermediateSymlinkDirChars = ['.', '.', 'd', 'i', 'r'] := by decide
  simp [eventPasses, Facts.watchEventFilterCodes, h1, h2]

/-- **A `..data` swap is noticed by itself.**  Config `/d/c` → `..data/c` → `/d/..1/c`: of the events of a swap
(`/d/..2` created, `/d/..data_tmp` created, `/d/..data_tmp` renamed onto `/d/..data`) the last one passes the filter,
so the new content is read whether or not the old timestamped directory is ever removed; the removal (event
`/d/..1/c`) passes as well. -/
theorem C17_data_swap_event_passes :
    let c : Cfg := ⟨['/', 'd', '/', 'c']⟩
    let resolved : Path := ['/', 'd', '/', '.', '.', '1', '/', 'c']
    eventPasses c resolved ['/', 'd', '/', '.', '.', '2'] = false ∧
    eventPasses c resolved ['/', 'd', '/', '.', '.', 'd', 'a', 't', 'a', '_', 't', 'm', 'p'] = false ∧
    eventPasses c resolved ['/', 'd', '/', '.', '.', 'd', 'a', 't', 'a'] = true ∧
    eventPasses c resolved ['/', 'd', '/', '.', '.', '1', '/', 'c'] = true := by
  decide

/-! ### Regenerated facts the model rests on -/

/-- The statement orders and classifications of file.go the model mirrors (regenerated from the working tree
on every run): open error returned at once; decode error exits before the checksum is recorded; the checksum
is stored unconditionally and "unchanged" means equal; a missing file ends the iteration after dropping the
file watch; with the file found the loop re-resolves, re-adds the file watch iff dropped, moves the directory
watch (add before remove, old kept if the add fails, nothing when equal, the config's own directory never removed) and only then
classifies, and jumps back to the read when a watch on a new directory was added; the filter passes `..data` and `..dir`;
nil → ReportNewValue, unchanged → nothing, *os.SyscallError → ReportError unless not-exist, anything else →
ReportError; the select wakes on ticker / Reload / events / errors / ctx; on ctx.Done the loop returns and its
deferred calls close the fsnotify watcher (dropping all kernel watches and fsnotify's reader goroutine) before
WG.Done; `Watch` adds file, directory and resolved directory. -/
theorem C17_facts :
    Facts.fileOpenErrReturned = true ∧ Facts.fileDecodeErrBeforeChecksum = true ∧
    Facts.fileUnchangedWhenEqual = true ∧ Facts.fileLastSumStoredAndCompared = true ∧
    Facts.watchSkipsMissing = true ∧ Facts.watchMissingRemovesFileWatch = true ∧
    Facts.watchRepairsBeforeReport = true ∧
    Facts.dirWatchSkipWhenEqual = true ∧ Facts.dirWatchAddBeforeRemove = true ∧ Facts.dirWatchKeepOldOnAddErr = true ∧
    Facts.dirWatchKeepsOwnDir = true ∧ Facts.watchRereadsAfterNewDirWatch = true ∧
    Facts.watchArmNil = 1 ∧ Facts.watchArmUnchanged = 0 ∧ Facts.watchArmSyscall = 3 ∧ Facts.watchArmDefault = 2 ∧
    Facts.watchEventFilterCodes = [0, 1, 2, 3, 5, 4] ∧
    Facts.k8sIntermediateSymlinkDirChars = ['.', '.', 'd', 'a', 't', 'a'] ∧ Facts.legacyIntermediateSymlinkDirChars = ['.', '.', 'd', 'i', 'r'] ∧
    Facts.watchWakesOnAll = true ∧ Facts.watchErrorsFallThrough = true ∧ Facts.watchTickReloadFallThrough = true ∧
    Facts.watchLoopReturnsOnCtxDone = true ∧
    Facts.watchLoopDefersClose = true ∧ Facts.watchLoopDefersWGDoneFirst = true ∧
    Facts.watchSetupComplete = true := by
  decide

/-! ### Non-vacuity -/

/-- a concrete history: valid A (initial) → malformed → missing → A again (identical) → B -/
example :
    let c : Cfg := ⟨['/', 'd', '/', 'c']⟩
    let e : Env := { resolved := some ['/', 'd', '/', 'c'] }
    let dec : Bytes → Option Bytes := fun b => if b.head? = some '!' then none else some b
    let s0 := watchInit c (some ['A']) ['/', 'd', '/', 'c']
    let rs : List IterRead := [⟨.content ['!'], e⟩, ⟨.openErr true false, e⟩, ⟨.content ['A'], e⟩, ⟨.content ['B'], e⟩]
    (run dec c s0 rs).2 =
      [.reportErr .decoder, .removeWatch ['/', 'd', '/', 'c'] true, .addWatch ['/', 'd', '/', 'c'] true, .report ['B']] ∧
    lastReported ['A'] (run dec c s0 rs).2 = ['B'] ∧ historyOK dec c s0 rs = true := by
  decide

/-- `SumInv` and `WatchOK` are satisfiable by the state `Watch` starts the loop in -/
example : SumInv (fun b => some b) (watchInit ⟨['/', 'd', '/', 'c']⟩ (some ['A']) ['/', 'd', '/', 'c']).lastSum ['A'] := by
  intro b hb
  simp only [watchInit, Option.some.injEq] at hb
  rw [← hb]

end Dials.C17
