/-
C10 — Type manglers are lossless: translate, fill, reverse restores the original.

Local laws of each mangler (what `unmangle` returns for every filling of the fields `mangle`
produced) and the Transformer's positional bookkeeping.  Values are untyped (reflect's
assignability panics are observed on the implementation, C16); UnmarshalText, float/complex/
duration parsing and text/scanner are external.
-/
import DialsModel.Model.TfSpec
import DialsModel.Lemmas.Tf

namespace Dials.C10
open Dials Dials.Tf

/-- ReverseTranslate's running offset routes every group of output values back to the field that
produced it: splitting the concatenation by the recorded counts gives back the groups. -/
theorem C10_split_flatten {α : Type} (groups : List (List α)) :
    splitCounts (groups.map List.length) groups.flatten = groups := by
  exact splitCounts_flatten groups

/-- The identity manglers (tag copy, tag reformat, type substitution on untyped values) hand the value
through unchanged, whatever it is. -/
theorem C10_identity_manglers (h : Hdr) (t : Ty) (f : FT) (v : Val) (src new tag : String)
    (dec : List Char → Option (List (List Char))) (enc : CaseConv.Scheme) :
    (tagCopyMangler src new).unmangle h t [(f, v)] = .ok v ∧
    (tagReformatMangler tag dec enc).unmangle h t [(f, v)] = .ok v ∧
    durSubMangler.unmangle h t [(f, v)] = .ok v := by
  simp [tagCopyMangler, tagReformatMangler, durSubMangler]

/-- … and each of them produces exactly one output field of the same (or substituted) type with the
same name. -/
theorem C10_identity_manglers_shape (h : Hdr) (t : Ty) (src new : String) :
    (∃ h', (tagCopyMangler src new).mangle h t = .ok [(h', t)] ∧ h'.name = h.name ∧ h'.anon = h.anon) ∧
    durSubMangler.mangle h t = .ok [(h, subType t)] := by
  refine ⟨?_, by simp [durSubMangler]⟩
  simp only [tagCopyMangler]
  split
  · split
    · exact ⟨h, rfl, rfl, rfl⟩
    · split
      · split
        · exact ⟨h, rfl, rfl, rfl⟩
        · exact ⟨_, rfl, rfl, rfl⟩
      · exact ⟨_, rfl, rfl, rfl⟩
  · exact ⟨h, rfl, rfl, rfl⟩

/-- set → slice: a set field becomes a slice of its key type; a nil slice reverses to a nil set, a
filled slice to the set of its elements; every other field is untouched. -/
theorem C10_set_slice (h : Hdr) (k : Ty) (f : FT) (vs : List Val) :
    setSliceMangler.mangle h (.set k) = .ok [(h, .slice k)] ∧
    setSliceMangler.unmangle h (.set k) [(f, .nilv)] = .ok .nilv ∧
    setSliceMangler.unmangle h (.set k) [(f, .list vs)] = .ok (.setv vs) := by
  simp [setSliceMangler]

theorem C10_set_slice_other (h : Hdr) (t : Ty) (hns : ∀ k, t ≠ .set k) (f : FT) (v : Val) :
    setSliceMangler.mangle h t = .ok [(h, t)] ∧ setSliceMangler.unmangle h t [(f, v)] = .ok v := by
  cases t <;> simp_all [setSliceMangler]

/-- slice / map / set types: parse.String returns these as they are, every other type behind a pointer -/
def isColl : Ty → Bool
  | .slice _ => true
  | .map _ _ => true
  | .set _ => true
  | _ => false

/-- string casting: every field becomes a *string; an unset string reverses to an unset value, a set
one to exactly what parse.String makes of its text for the field's type: the pointee type for a
pointerified scalar, the collection type itself for a slice / map / set field, and the boxed
collection for a pointer-to-collection field. -/
theorem C10_string_cast (parse : String → Ty → Outcome Val) (h : Hdr) (t : Ty) (f : FT) (str : String) :
    (stringCastMangler parse).mangle h t = .ok [(h, strPtrTy)] ∧
    (stringCastMangler parse).unmangle h t [(f, .nilv)] = .ok .nilv ∧
    (isColl t = false → (stringCastMangler parse).unmangle h (.ptr t) [(f, .ptr (.s str))] = parse str t) ∧
    (isColl t = true → (stringCastMangler parse).unmangle h t [(f, .ptr (.s str))] = parse str t) ∧
    (isColl t = true → ∀ v, parse str t = .ok v →
      (stringCastMangler parse).unmangle h (.ptr t) [(f, .ptr (.s str))] = .ok (.ptr v)) := by
  refine ⟨by simp [stringCastMangler], by simp [stringCastMangler], ?_, ?_, ?_⟩
  · intro hc
    cases t <;> simp_all [stringCastMangler, isColl] <;> (cases parse str _ <;> rfl)
  · intro hc
    cases t <;> simp_all [stringCastMangler, isColl] <;> (cases parse str _ <;> rfl)
  · intro hc v hv
    cases t <;> simp_all [stringCastMangler, isColl]

/-- text-unmarshaler mangler: only text-unmarshalable fields change (to *string); unset stays unset. -/
theorem C10_text_unmarshaler (h : Hdr) (t : Ty) (f : FT) (v : Val) :
    (isTU t = false → textUnmarshalerMangler.mangle h t = .ok [(h, t)] ∧ textUnmarshalerMangler.unmangle h t [(f, v)] = .ok v) ∧
    (isTU t = true → textUnmarshalerMangler.mangle h t = .ok [(h, strPtrTy)] ∧
      textUnmarshalerMangler.unmangle h t [(f, .nilv)] = .ok .nilv) := by
  constructor
  · intro ht; simp [textUnmarshalerMangler, ht]
  · intro ht; simp [textUnmarshalerMangler, ht]

/-- flatten, shape: the number of flattened fields of a (nil-able) field is the number of leaves of its
type, whenever flattening succeeds. -/
theorem C10_flatten_count (cfg : FlattenCfg) (fuel : Nat) (h : Hdr) (t : Ty) (hf : tySize t < fuel)
    (outs : List FT) (hm : flattenMangle cfg fuel h t = .ok outs) : outs.length = leafCount fuel t := by
  rw [flattenMangle_length cfg fuel h t outs hm, leafCount_eq_leafN fuel t hf]

/-
ORIGINAL STATEMENT — FALSE as written (kept verbatim; see the counterexamples proved below):

/-- flatten, lossless: populating from any filling of the flattened leaves succeeds, consumes exactly
the leaves of the type, and yields a value whose leaves — read back in flatten order — are exactly
the filling; intermediate structs are allocated only when one of their leaves is set (otherwise the
whole value is unset). -/
theorem C10_flatten_lossless (fuel : Nat) (t : Ty) (hf : tySize t < fuel) (vals rest : List Val)
    (hl : vals.length = leafCount fuel t) :
    ∃ v, populate fuel t (vals ++ rest) = .ok (v, rest, vals.any (fun x => !x.isNil)) ∧
      flatLeaves fuel t v = vals ∧
      ((∀ x ∈ vals, x = Val.nilv) → (stripPtrs t).isStructTy = true → v = .nilv)

Counterexamples (`populate` models populateStruct's reflect.Set panic for a struct that is not
behind a pointer and has a set child):
  (a) t = struct{A *bool}, fuel = 6, vals = [ptr (b true)], rest = []:
        populate 6 t vals = .panic "reflect.Set: *struct into struct"
  (b) t = *struct{A *bool; N struct{X *bool}}, fuel = 13, vals = [nilv, ptr (b true)], rest = []:
        the nested struct VALUE field N hits the same panic.
Both satisfy `tySize t < fuel` and `vals.length = leafCount fuel t`.  Pointerify never produces such
types (every struct sits behind a pointer), which is the hypothesis `structsBehindPtr t = true` of
`C10_flatten_lossless_partial`; an all-unset filling needs no hypothesis (`C10_flatten_lossless_allnil`).
-/

/-- counterexample (a) to the unconditional statement: a struct not behind a pointer, child set -/
theorem C10_flatten_lossless_counterexample_bare :
    let t : Ty := .struct (.cons "A" [] false (.ptr (.basic .bool false)) .nil)
    tySize t < 6 ∧ [Val.ptr (.b true)].length = leafCount 6 t ∧
      populate 6 t ([Val.ptr (.b true)] ++ []) = .panic "reflect.Set: *struct into struct" := by
  refine ⟨by decide, by decide, ?_⟩
  simp [populate, populate.fields, stripPtrs, ptrDepth, Fields.toList, Val.isNil]

/-- counterexample (b): a struct VALUE field nested inside a pointer-to-struct, child set -/
theorem C10_flatten_lossless_counterexample_nested :
    let t : Ty := .ptr (.struct (.cons "A" [] false (.ptr (.basic .bool false))
      (.cons "N" [] false (.struct (.cons "X" [] false (.ptr (.basic .bool false)) .nil)) .nil)))
    tySize t < 13 ∧ [Val.nilv, Val.ptr (.b true)].length = leafCount 13 t ∧
      populate 13 t ([Val.nilv, Val.ptr (.b true)] ++ []) = .panic "reflect.Set: *struct into struct" := by
  refine ⟨by decide, by decide, ?_⟩
  simp [populate, populate.fields, stripPtrs, ptrDepth, Fields.toList, Val.isNil]

/-- flatten, lossless — the statement of `C10_flatten_lossless` under the additional hypothesis
`hptr : structsBehindPtr t = true` (every struct type nested in `t`, through pointers and struct fields,
sits behind at least one pointer — what Pointerify guarantees; defined in Lemmas/Tf.lean).  The
conclusion is the original one verbatim: populating from any filling of the flattened leaves
succeeds, consumes exactly the leaves of the type, and yields a value whose leaves — read back in
flatten order — are exactly the filling; intermediate structs are allocated only when one of their
leaves is set (otherwise the whole value is unset). -/
theorem C10_flatten_lossless_partial (fuel : Nat) (t : Ty) (hf : tySize t < fuel) (vals rest : List Val)
    (hl : vals.length = leafCount fuel t) (hptr : structsBehindPtr t = true) :
    ∃ v, populate fuel t (vals ++ rest) = .ok (v, rest, vals.any (fun x => !x.isNil)) ∧
      flatLeaves fuel t v = vals ∧
      ((∀ x ∈ vals, x = Val.nilv) → (stripPtrs t).isStructTy = true → v = .nilv) := by
  rw [leafCount_eq_leafN fuel t hf] at hl
  obtain ⟨v, hp, hfl, hv⟩ := populate_spec fuel t hf vals rest hl (Or.inl hptr)
  exact ⟨v, hp, hfl, fun hn _ => hv hn⟩

/-- flatten, lossless on the all-unset filling, for EVERY type (no pointer hypothesis, struct or not):
populate succeeds, consumes exactly the leaves, reports "no child set", allocates nothing, and the
unset value reads back as the all-unset leaves. -/
theorem C10_flatten_lossless_allnil (fuel : Nat) (t : Ty) (hf : tySize t < fuel) (vals rest : List Val)
    (hl : vals.length = leafCount fuel t) (hnil : ∀ x ∈ vals, x = Val.nilv) :
    populate fuel t (vals ++ rest) = .ok (.nilv, rest, false) ∧ flatLeaves fuel t .nilv = vals := by
  rw [leafCount_eq_leafN fuel t hf] at hl
  obtain ⟨v, hp, hfl, hv⟩ := populate_spec fuel t hf vals rest hl (Or.inr hnil)
  have h0 : anySet vals = false := (anySet_false_iff vals).2 hnil
  rw [hv hnil, h0] at hp
  rw [hv hnil] at hfl
  exact ⟨hp, hfl⟩

/-- An empty filling reverses to unset for each mangler, so a source that found nothing can never
clobber lower layers: alias, set→slice, string cast, text unmarshaler, the identity manglers, and
flatten (with enough fuel). -/
theorem C10_empty_unset_local (tags : List String) (parse : String → Ty → Outcome Val) (src new tag : String)
    (dec : List Char → Option (List (List Char))) (enc : CaseConv.Scheme) :
    NilPreserving (aliasMangler tags) (fun _ => True) ∧
    NilPreserving setSliceMangler (fun _ => True) ∧
    NilPreserving (stringCastMangler parse) (fun _ => True) ∧
    NilPreserving textUnmarshalerMangler (fun _ => True) ∧
    NilPreserving (tagCopyMangler src new) (fun _ => True) ∧
    NilPreserving (tagReformatMangler tag dec enc) (fun _ => True) ∧
    NilPreserving durSubMangler (fun _ => True) := by
  exact ⟨np_alias tags, np_setSlice, np_stringCast parse, np_textUnmarshaler, np_tagCopy src new,
    np_tagReformat tag dec enc, np_durSub⟩

theorem C10_empty_unset_flatten (cfg : FlattenCfg) (fuel : Nat) :
    NilPreserving (flattenMangler cfg fuel) (fun f => tySize f.2 < fuel ∧ (stripPtrs f.2).isStructTy = true ∨
      (tySize f.2 < fuel ∧ (stripPtrs f.2).isStructTy = false)) := by
  intro f hf
  apply np_flatten cfg fuel f
  rcases hf with hf | hf <;> exact hf.1

/-- Chains without recursion into nested struct types (every mangler after a flatten sees only
leaves): if every mangler of the chain is nil-preserving on the fields it meets, the all-unset
translated value reverses to the all-unset original. -/
theorem C10_empty_unset_chain (fuel : Nat) (ms : List Mangler) (fs tfs : List FT)
    (hnr : ∀ m ∈ ms, m.recurse = false ∨ ∀ l ∈ (match layers fuel ms fs with | .ok ls => ls | _ => []),
        ∀ f ∈ l.2, ∀ outs, l.1.mangle f.1 f.2 = .ok outs → ∀ o ∈ outs, structish o.2 = none)
    (hnp : ∀ m ∈ ms, NilPreserving m (fun _ => True))
    (ht : translate fuel ms fs = .ok tfs) :
    reverse fuel ms fs (nils tfs.length) = .ok (nils fs.length) := by
  obtain ⟨ls, hls, hfold⟩ := chain_nils fuel ms fs tfs ht
  rw [hls] at hnr
  rw [reverse_eq fuel ms fs _ ls hls]
  apply hfold
  · intro l hl
    have hmem := layers_mem fuel ms fs ls hls l hl
    rcases hnr l.1 hmem with h | h
    · exact Or.inl h
    · exact Or.inr (h l hl)
  · intro l hl
    exact hnp l.1 (layers_mem fuel ms fs ls hls l hl)

/-- the special case of `C10_empty_unset_chain` for chains of non-recursing manglers -/
theorem C10_empty_unset_chain' (fuel : Nat) (ms : List Mangler) (fs tfs : List FT)
    (hnr : ∀ m ∈ ms, m.recurse = false)
    (hnp : ∀ m ∈ ms, NilPreserving m (fun _ => True))
    (ht : translate fuel ms fs = .ok tfs) :
    reverse fuel ms fs (nils tfs.length) = .ok (nils fs.length) :=
  C10_empty_unset_chain fuel ms fs tfs (fun m hm => Or.inl (hnr m hm)) hnp ht

end Dials.C10
