/-
C10 — Type manglers are lossless: translate, fill, reverse restores the original.

Local laws of each mangler (what `unmangle` returns for every filling of the fields `mangle`
produced) and the Transformer's positional bookkeeping.  Values are untyped (reflect's
assignability panics are observed on the implementation, C16); UnmarshalText, float/complex/
duration parsing and text/scanner are external.
-/
import DialsModel.Model.TfSpec
import DialsModel.Lemmas.Tf
import DialsModel.Lemmas.TfChain
import DialsModel.Lemmas.TfCanon

namespace Dials.C10
open Dials Dials.Tf

/-- ReverseTranslate's running offset routes every group of output values back to the field that
produced it: splitting the concatenation by the recorded counts gives back the groups. -/
theorem C10_split_flatten {α : Type} (groups : List (List α)) :
    splitCounts (groups.map List.length) groups.flatten = groups := by
  exact splitCounts_flatten groups

/-- The identity manglers (tag copy, tag reformat, type substitution on untyped values) hand the value
through unchanged, whatever it is. -/
theorem C10_identity_manglers (h : Hdr) (t : Ty) (f : FT) (v : Val) (src new tag : String)
    (dec : List Char → Option (List (List Char))) (enc : CaseConv.Scheme) :
    (tagCopyMangler src new).unmangle h t [(f, v)] = .ok v ∧
    (tagReformatMangler tag dec enc).unmangle h t [(f, v)] = .ok v ∧
    durSubMangler.unmangle h t [(f, v)] = .ok v := by
  simp [tagCopyMangler, tagReformatMangler, durSubMangler]

/-- … and each of them produces exactly one output field of the same (or substituted) type with the
same name. -/
theorem C10_identity_manglers_shape (h : Hdr) (t : Ty) (src new : String) :
    (∃ h', (tagCopyMangler src new).mangle h t = .ok [(h', t)] ∧ h'.name = h.name ∧ h'.anon = h.anon) ∧
    durSubMangler.mangle h t = .ok [(h, subType t)] := by
  refine ⟨?_, by simp [durSubMangler]⟩
  simp only [tagCopyMangler]
  split
  · split
    · exact ⟨h, rfl, rfl, rfl⟩
    · split
      · split
        · exact ⟨h, rfl, rfl, rfl⟩
        · exact ⟨_, rfl, rfl, rfl⟩
      · exact ⟨_, rfl, rfl, rfl⟩
  · exact ⟨h, rfl, rfl, rfl⟩

/-- set → slice: a set field becomes a slice of its key type; a nil slice reverses to a nil set, a
filled slice to the set of its elements; every other field is untouched. -/
theorem C10_set_slice (h : Hdr) (k : Ty) (f : FT) (vs : List Val) :
    setSliceMangler.mangle h (.set k) = .ok [(h, .slice k)] ∧
    setSliceMangler.unmangle h (.set k) [(f, .nilv)] = .ok .nilv ∧
    setSliceMangler.unmangle h (.set k) [(f, .list vs)] = .ok (.setv vs) := by
  simp [setSliceMangler]

theorem C10_set_slice_other (h : Hdr) (t : Ty) (hns : ∀ k, t ≠ .set k) (f : FT) (v : Val) :
    setSliceMangler.mangle h t = .ok [(h, t)] ∧ setSliceMangler.unmangle h t [(f, v)] = .ok v := by
  cases t <;> simp_all [setSliceMangler]

/-- slice / map / set types: parse.String returns these as they are, every other type behind a pointer -/
def isColl : Ty → Bool
  | .slice _ => true
  | .map _ _ => true
  | .set _ => true
  | _ => false

/-- string casting: every field becomes a *string; an unset string reverses to an unset value, a set
one to exactly what parse.String makes of its text for the field's type: the pointee type for a
pointerified scalar, the collection type itself for a slice / map / set field, and the boxed
collection for a pointer-to-collection field. -/
theorem C10_string_cast (parse : String → Ty → Outcome Val) (h : Hdr) (t : Ty) (f : FT) (str : String) :
    (stringCastMangler parse).mangle h t = .ok [(h, strPtrTy)] ∧
    (stringCastMangler parse).unmangle h t [(f, .nilv)] = .ok .nilv ∧
    (isColl t = false → (stringCastMangler parse).unmangle h (.ptr t) [(f, .ptr (.s str))] = parse str t) ∧
    (isColl t = true → (stringCastMangler parse).unmangle h t [(f, .ptr (.s str))] = parse str t) ∧
    (isColl t = true → ∀ v, parse str t = .ok v →
      (stringCastMangler parse).unmangle h (.ptr t) [(f, .ptr (.s str))] = .ok (.ptr v)) := by
  refine ⟨by simp [stringCastMangler], by simp [stringCastMangler], ?_, ?_, ?_⟩
  · intro hc
    cases t <;> simp_all [stringCastMangler, isColl] <;> (cases parse str _ <;> rfl)
  · intro hc
    cases t <;> simp_all [stringCastMangler, isColl] <;> (cases parse str _ <;> rfl)
  · intro hc v hv
    cases t <;> simp_all [stringCastMangler, isColl]

/-- text-unmarshaler mangler: only text-unmarshalable fields change (to *string); unset stays unset. -/
theorem C10_text_unmarshaler (h : Hdr) (t : Ty) (f : FT) (v : Val) :
    (isTU t = false → textUnmarshalerMangler.mangle h t = .ok [(h, t)] ∧ textUnmarshalerMangler.unmangle h t [(f, v)] = .ok v) ∧
    (isTU t = true → textUnmarshalerMangler.mangle h t = .ok [(h, strPtrTy)] ∧
      textUnmarshalerMangler.unmangle h t [(f, .nilv)] = .ok .nilv) := by
  constructor
  · intro ht; simp [textUnmarshalerMangler, ht]
  · intro ht; simp [textUnmarshalerMangler, ht]

/-- flatten, shape: the number of flattened fields of a (nil-able) field is the number of leaves of its
type, whenever flattening succeeds. -/
theorem C10_flatten_count (cfg : FlattenCfg) (fuel : Nat) (h : Hdr) (t : Ty) (hf : tySize t < fuel)
    (outs : List FT) (hm : flattenMangle cfg fuel h t = .ok outs) : outs.length = leafCount fuel t := by
  rw [flattenMangle_length cfg fuel h t outs hm, leafCount_eq_leafN fuel t hf]

/-- flatten, lossless — the ORIGINAL full-strength statement (no pointer hypothesis): populating from
any filling of the flattened leaves succeeds, consumes exactly the leaves of the type, and yields a
value whose leaves — read back in flatten order — are exactly the filling; intermediate structs are
allocated only when one of their leaves is set (otherwise the whole value is unset).

History: before the repair of P02 this was FALSE for the model (and the code): `populate` /
populateStruct set a `*struct` on a struct held by value (`reflect.Set` panic) as soon as one of its
leaves was set, and the statement was proved only under `structsBehindPtr t = true`
(`C10_flatten_lossless_partial`).  Since the repair a struct held by value receives the rebuilt struct
itself, and the statement holds for EVERY type; the two former counterexample inputs now evaluate to
rebuilt values (`C10_flatten_lossless_bare_rebuilt`, `C10_flatten_lossless_nested_rebuilt`). -/
theorem C10_flatten_lossless (fuel : Nat) (t : Ty) (hf : tySize t < fuel) (vals rest : List Val)
    (hl : vals.length = leafCount fuel t) :
    ∃ v, populate fuel t (vals ++ rest) = .ok (v, rest, vals.any (fun x => !x.isNil)) ∧
      flatLeaves fuel t v = vals ∧
      ((∀ x ∈ vals, x = Val.nilv) → (stripPtrs t).isStructTy = true → v = .nilv) := by
  rw [leafCount_eq_leafN fuel t hf] at hl
  obtain ⟨v, hp, hfl, hv⟩ := populate_spec fuel t hf vals rest hl
  exact ⟨v, hp, hfl, fun hn _ => hv hn⟩

/-- former counterexample (a), now the truth for that input: a struct NOT behind a pointer with its child
set is rebuilt as the struct itself (before the repair of P02: `.panic "reflect.Set: *struct into struct"`),
and its leaves read back as the filling -/
theorem C10_flatten_lossless_bare_rebuilt :
    let t : Ty := .struct (.cons "A" [] false (.ptr (.basic .bool false)) .nil)
    tySize t < 6 ∧ [Val.ptr (.b true)].length = leafCount 6 t ∧
      populate 6 t ([Val.ptr (.b true)] ++ []) = .ok (.struct [.ptr (.b true)], [], true) ∧
      flatLeaves 6 t (.struct [.ptr (.b true)]) = [Val.ptr (.b true)] := by
  refine ⟨by decide, by decide, ?_, ?_⟩
  · simp [populate, populate.fields, stripPtrs, ptrDepth, Fields.toList, Val.isNil, wrapPtrs]
  · simp [flatLeaves, flatLeaves.go, flatLeaves.strip, stripPtrs, ptrDepth, Fields.toList]

/-- former counterexample (b), now the truth for that input: a struct VALUE field nested inside a
pointer-to-struct, child set: the inner struct is rebuilt by value inside the allocated outer struct -/
theorem C10_flatten_lossless_nested_rebuilt :
    let t : Ty := .ptr (.struct (.cons "A" [] false (.ptr (.basic .bool false))
      (.cons "N" [] false (.struct (.cons "X" [] false (.ptr (.basic .bool false)) .nil)) .nil)))
    tySize t < 13 ∧ [Val.nilv, Val.ptr (.b true)].length = leafCount 13 t ∧
      populate 13 t ([Val.nilv, Val.ptr (.b true)] ++ []) =
        .ok (.ptr (.struct [.nilv, .struct [.ptr (.b true)]]), [], true) ∧
      flatLeaves 13 t (.ptr (.struct [.nilv, .struct [.ptr (.b true)]])) = [Val.nilv, Val.ptr (.b true)] := by
  refine ⟨by decide, by decide, ?_, ?_⟩
  · simp [populate, populate.fields, stripPtrs, ptrDepth, Fields.toList, Val.isNil, wrapPtrs]
  · simp [flatLeaves, flatLeaves.go, flatLeaves.strip, stripPtrs, ptrDepth, Fields.toList]

/-- the former partial statement (extra hypothesis `structsBehindPtr t = true`: every struct behind a
pointer — what Pointerify guarantees) is now a special case of `C10_flatten_lossless`; kept under its
name for the users of the old statement -/
theorem C10_flatten_lossless_partial (fuel : Nat) (t : Ty) (hf : tySize t < fuel) (vals rest : List Val)
    (hl : vals.length = leafCount fuel t) (_hptr : structsBehindPtr t = true) :
    ∃ v, populate fuel t (vals ++ rest) = .ok (v, rest, vals.any (fun x => !x.isNil)) ∧
      flatLeaves fuel t v = vals ∧
      ((∀ x ∈ vals, x = Val.nilv) → (stripPtrs t).isStructTy = true → v = .nilv) :=
  C10_flatten_lossless fuel t hf vals rest hl

/-- flatten, lossless on the all-unset filling, for EVERY type (no pointer hypothesis, struct or not):
populate succeeds, consumes exactly the leaves, reports "no child set", allocates nothing, and the
unset value reads back as the all-unset leaves. -/
theorem C10_flatten_lossless_allnil (fuel : Nat) (t : Ty) (hf : tySize t < fuel) (vals rest : List Val)
    (hl : vals.length = leafCount fuel t) (hnil : ∀ x ∈ vals, x = Val.nilv) :
    populate fuel t (vals ++ rest) = .ok (.nilv, rest, false) ∧ flatLeaves fuel t .nilv = vals := by
  rw [leafCount_eq_leafN fuel t hf] at hl
  obtain ⟨v, hp, hfl, hv⟩ := populate_spec fuel t hf vals rest hl
  have h0 : anySet vals = false := (anySet_false_iff vals).2 hnil
  rw [hv hnil, h0] at hp
  rw [hv hnil] at hfl
  exact ⟨hp, hfl⟩

/-- An empty filling reverses to unset for each mangler, so a source that found nothing can never
clobber lower layers: alias, set→slice, string cast, text unmarshaler, the identity manglers, and
flatten (with enough fuel). -/
theorem C10_empty_unset_local (tags : List String) (parse : String → Ty → Outcome Val) (src new tag : String)
    (dec : List Char → Option (List (List Char))) (enc : CaseConv.Scheme) :
    NilPreserving (aliasMangler tags) (fun _ => True) ∧
    NilPreserving setSliceMangler (fun _ => True) ∧
    NilPreserving (stringCastMangler parse) (fun _ => True) ∧
    NilPreserving textUnmarshalerMangler (fun _ => True) ∧
    NilPreserving (tagCopyMangler src new) (fun _ => True) ∧
    NilPreserving (tagReformatMangler tag dec enc) (fun _ => True) ∧
    NilPreserving durSubMangler (fun _ => True) := by
  exact ⟨np_alias tags, np_setSlice, np_stringCast parse, np_textUnmarshaler, np_tagCopy src new,
    np_tagReformat tag dec enc, np_durSub⟩

theorem C10_empty_unset_flatten (cfg : FlattenCfg) (fuel : Nat) :
    NilPreserving (flattenMangler cfg fuel) (fun f => tySize f.2 < fuel ∧ (stripPtrs f.2).isStructTy = true ∨
      (tySize f.2 < fuel ∧ (stripPtrs f.2).isStructTy = false)) := by
  intro f hf
  apply np_flatten cfg fuel f
  rcases hf with hf | hf <;> exact hf.1

/-- Chains without recursion into nested struct types (every mangler after a flatten sees only
leaves): if every mangler of the chain is nil-preserving on the fields it meets, the all-unset
translated value reverses to the all-unset original. -/
theorem C10_empty_unset_chain (fuel : Nat) (ms : List Mangler) (fs tfs : List FT)
    (hnr : ∀ m ∈ ms, m.recurse = false ∨ ∀ l ∈ (match layers fuel ms fs with | .ok ls => ls | _ => []),
        ∀ f ∈ l.2, ∀ outs, l.1.mangle f.1 f.2 = .ok outs → ∀ o ∈ outs, structish o.2 = none)
    (hnp : ∀ m ∈ ms, NilPreserving m (fun _ => True))
    (ht : translate fuel ms fs = .ok tfs) :
    reverse fuel ms fs (nils tfs.length) = .ok (nils fs.length) := by
  obtain ⟨ls, hls, hfold⟩ := chain_nils fuel ms fs tfs ht
  rw [hls] at hnr
  rw [reverse_eq fuel ms fs _ ls hls]
  apply hfold
  · intro l hl
    have hmem := layers_mem fuel ms fs ls hls l hl
    rcases hnr l.1 hmem with h | h
    · exact Or.inl h
    · exact Or.inr (h l hl)
  · intro l hl
    exact hnp l.1 (layers_mem fuel ms fs ls hls l hl)

/-- the special case of `C10_empty_unset_chain` for chains of non-recursing manglers -/
theorem C10_empty_unset_chain' (fuel : Nat) (ms : List Mangler) (fs tfs : List FT)
    (hnr : ∀ m ∈ ms, m.recurse = false)
    (hnp : ∀ m ∈ ms, NilPreserving m (fun _ => True))
    (ht : translate fuel ms fs = .ok tfs) :
    reverse fuel ms fs (nils tfs.length) = .ok (nils fs.length) :=
  C10_empty_unset_chain fuel ms fs tfs (fun m hm => Or.inl (hnr m hm)) hnp ht

/-! ## Chain-level round trip (translate, fill, reverse) for arbitrary values

Vocabulary (Lemmas/TfChain.lean): `Lossless m Dom Good` — a specification-level encoder `enc` for the
mangler `m` (the direction opposite to `unmangle`) with its laws on the fields `Dom` and values
`Good`; `encLayer` — the forward encoder of one layer (mirror image of `unmangleLayer`, recursing into
struct-typed fields behind pointer / slice / array exactly where `mangleLayer` does); `encChain` —
`encLayer` along the layers of a chain; `ChainGood` — the values are good for every layer they pass;
`All2 R fs vs` — `R` holds position by position; `HG P` — the local condition `P` holds at a field and,
hereditarily, at every field of the struct values below it (`WS = HG (fun _ _ _ => True)`: plain
well-shapedness). -/

/-- LAYER THEOREM (full: with recursion into nested struct types; Tier 2).  For a lossless mangler, a
field list on which `mangleLayer` succeeds, and good values: reverse-translating the encoded values
gives back the values, and the encoding fills exactly the translated fields. -/
theorem C10_layer_roundtrip {m : Mangler} {Dom : FT → Prop} {Good : FT → Val → Prop} (L : Lossless m Dom Good)
    (fuel : Nat) (fs fs' : List FT) (vs : List Val) (hm : mangleLayer fuel m fs = .ok fs')
    (hg : All2 (fun f v => Dom f ∧ Good f v) fs vs) :
    unmangleLayer fuel m fs (encLayer m L.enc fuel fs vs) = .ok vs ∧
      (encLayer m L.enc fuel fs vs).length = fs'.length :=
  (unmangleLayer_encLayer L fuel).1 fs fs' vs hm hg

/-- CHAIN THEOREM (general: any chain of lossless manglers, recursing or not).  If `translate`
succeeds and the values are good for every layer they pass, `reverse` of the encoded values is the
original value list, and the encoding fills exactly the translated fields. -/
theorem C10_chain_roundtrip (fuel : Nat) (ls : List LM) (fs tfs : List FT) (vs : List Val)
    (ht : translate fuel (ls.map (·.m)) fs = .ok tfs) (hg : ChainGood fuel ls fs vs) :
    reverse fuel (ls.map (·.m)) fs (encChain fuel ls fs vs) = .ok vs ∧
      (encChain fuel ls fs vs).length = tfs.length :=
  chain_roundtrip fuel ls fs tfs vs ht hg

/-- The library's manglers are lossless (anonymous-flatten: see `C10_lossless_anon`), each on the
stated fields / values:
* alias — `HG (aliasP tags)`: well-shaped values; an aliased field is not of bare struct / array-of-struct type;
* flatten — fields with `tySize < fuel` (nothing else since the repair of P02: structs held by value are
  restored like structs behind pointers); the values `populate` can build;
* set → slice — `HG setP`: set-typed fields hold nil or a set (no struct-keyed sets);
* Duration substitution, tag copy, tag reformat — `WS`: well-shaped values;
* string cast — fields whose type has an element type (`hasElemTy`: pointer / slice / array / map / set; the
  real code calls `Type.Elem()`); `scGood parse fmt`: unset, or what `parse` makes of the formatted text;
* text unmarshaler — `HG tuP`: text-unmarshalable fields hold nil or their text. -/
theorem C10_lossless_library (tags : List String) (cfg : FlattenCfg) (fuelF : Nat)
    (parse : String → Ty → Outcome Val) (fmt : Ty → Val → String) (src new tag : String)
    (dec : List Char → Option (List (List Char))) (enc : CaseConv.Scheme) :
    Nonempty (Lossless (aliasMangler tags) (fun _ => True) (HG (aliasP tags))) ∧
    Nonempty (Lossless (flattenMangler cfg fuelF) (fun f => tySize f.2 < fuelF) (flattenGood fuelF)) ∧
    Nonempty (Lossless setSliceMangler (fun _ => True) (HG setP)) ∧
    Nonempty (Lossless durSubMangler (fun _ => True) WS) ∧
    Nonempty (Lossless (stringCastMangler parse) (fun f => hasElemTy f.2 = true) (scGood parse fmt)) ∧
    Nonempty (Lossless textUnmarshalerMangler (fun _ => True) (HG tuP)) ∧
    Nonempty (Lossless (tagCopyMangler src new) (fun _ => True) WS) ∧
    Nonempty (Lossless (tagReformatMangler tag dec enc) (fun _ => True) WS) :=
  ⟨⟨losslessAlias tags⟩, ⟨losslessFlatten cfg fuelF⟩, ⟨losslessSetSlice⟩, ⟨losslessDurSub⟩,
    ⟨losslessStringCast parse fmt⟩, ⟨losslessTextUnmarshaler⟩, ⟨losslessTagCopy src new⟩,
    ⟨losslessTagReformat tag dec enc⟩⟩

theorem translate_cons_ok {fuel : Nat} {m : Mangler} {ms : List Mangler} {fs tfs : List FT}
    (h : translate fuel (m :: ms) fs = .ok tfs) :
    ∃ fs', mangleLayer fuel m fs = .ok fs' ∧ translate fuel ms fs' = .ok tfs := by
  simp only [translate] at h
  split at h
  · rename_i fs' hm
    exact ⟨fs', hm, h⟩
  · cases h
  · cases h

/-- JSON / YAML / TOML decoder chain `[Duration substitution, tag copy]` (both recurse into nested
structs): every well-shaped value list round-trips, and the translated values are the values
themselves. -/
theorem C10_roundtrip_decoder_chain (src new : String) (fuel : Nat) (fs tfs : List FT) (vs : List Val)
    (ht : translate fuel [durSubMangler, tagCopyMangler src new] fs = .ok tfs) (hv : All2 WS fs vs) :
    reverse fuel [durSubMangler, tagCopyMangler src new] fs vs = .ok vs ∧ vs.length = tfs.length := by
  obtain ⟨fs1, h1, ht1⟩ := translate_cons_ok ht
  obtain ⟨fs2, h2, ht2⟩ := translate_cons_ok ht1
  have e1 : encLayer durSubMangler losslessDurSub.enc fuel fs vs = vs :=
    (encLayer_id losslessDurSub (fun _ _ _ => rfl) fuel).1 fs fs1 vs h1 hv.and_true
  have w1 : All2 WS fs1 vs := by
    have := encLayer_WS losslessDurSub rfl fuel fs fs1 vs h1 hv.and_true
    rwa [e1] at this
  have e2 : encLayer (tagCopyMangler src new) (losslessTagCopy src new).enc fuel fs1 vs = vs :=
    (encLayer_id (losslessTagCopy src new) (fun _ _ _ => rfl) fuel).1 fs1 fs2 vs h2 w1.and_true
  have hg : ChainGood fuel [lmDurSub, lmTagCopy src new] fs vs := by
    refine ⟨hv.and_true, fun fs' hm => ?_⟩
    have hm' : mangleLayer fuel durSubMangler fs = .ok fs' := hm
    rw [h1] at hm'; cases hm'
    apply chainGood_last
    show All2 _ fs1 (encLayer durSubMangler losslessDurSub.enc fuel fs vs)
    rw [e1]
    exact w1.and_true
  have := C10_chain_roundtrip fuel [lmDurSub, lmTagCopy src new] fs tfs vs ht hg
  have ec : encChain fuel [lmDurSub, lmTagCopy src new] fs vs = vs := by
    simp only [encChain, lmDurSub, lmTagCopy, h1, h2, e1, e2]
  rw [ec] at this
  exact this

/-- … with set → slice in front: every well-shaped value list whose set-typed fields hold nil or a set
round-trips; the translated values are the set → slice encoding (sets become lists). -/
theorem C10_roundtrip_decoder_chain_set (src new : String) (fuel : Nat) (fs tfs : List FT) (vs : List Val)
    (ht : translate fuel [setSliceMangler, durSubMangler, tagCopyMangler src new] fs = .ok tfs)
    (hv : All2 (HG setP) fs vs) :
    ∃ tvals, tvals = encLayer setSliceMangler losslessSetSlice.enc fuel fs vs ∧ tvals.length = tfs.length ∧
      reverse fuel [setSliceMangler, durSubMangler, tagCopyMangler src new] fs tvals = .ok vs := by
  obtain ⟨fs1, h1, ht1⟩ := translate_cons_ok ht
  have w1 : All2 WS fs1 (encLayer setSliceMangler losslessSetSlice.enc fuel fs vs) :=
    encLayer_WS losslessSetSlice rfl fuel fs fs1 vs h1 hv.and_true
  obtain ⟨hr, hl⟩ := C10_roundtrip_decoder_chain src new fuel fs1 tfs _ ht1 w1
  refine ⟨_, rfl, hl, ?_⟩
  rw [reverse_cons h1 hr]
  exact ((unmangleLayer_encLayer losslessSetSlice fuel).1 fs fs1 vs h1 hv.and_true).1

/-- Flag-source chain `[alias (recursing), flatten]`.  `fs1` are the fields after the alias layer, `w1`
the alias encoding of the values (an aliased field's value is followed by nil for its alias copy, at
every depth).  Every value list that is good for alias and whose alias encoding is one that flatten can
restore has an encoding of the translated fields — the flattened leaves of `w1` — that reverses to it.
(`C10_roundtrip_flag_chain_canon` below derives the second condition from a condition on `vs` alone.) -/
theorem C10_roundtrip_flag_chain (tags : List String) (cfg : FlattenCfg) (fuelF fuel : Nat)
    (fs fs1 tfs : List FT) (vs w1 : List Val)
    (h1 : mangleLayer fuel (aliasMangler tags) fs = .ok fs1)
    (h2 : mangleLayer fuel (flattenMangler cfg fuelF) fs1 = .ok tfs)
    (hv : All2 (HG (aliasP tags)) fs vs)
    (e1 : w1 = encLayer (aliasMangler tags) (losslessAlias tags).enc fuel fs vs)
    (hd : ∀ f ∈ fs1, tySize f.2 < fuelF)
    (hc : All2 (flattenGood fuelF) fs1 w1) :
    ∃ tvals, tvals = ((fs1.zip w1).map fun p => flatLeaves fuelF p.1.2 p.2).flatten ∧
      tvals.length = tfs.length ∧
      reverse fuel [aliasMangler tags, flattenMangler cfg fuelF] fs tvals = .ok vs := by
  subst e1
  have ht : translate fuel ([lmAlias tags, lmFlatten cfg fuelF].map (·.m)) fs = .ok tfs := by
    simp [translate, lmAlias, lmFlatten, h1, h2]
  have hg : ChainGood fuel [lmAlias tags, lmFlatten cfg fuelF] fs vs := by
    refine ⟨hv.and_true, fun fs' hm => ?_⟩
    have hm' : mangleLayer fuel (aliasMangler tags) fs = .ok fs' := hm
    rw [h1] at hm'; cases hm'
    exact chainGood_last fuel (lmFlatten cfg fuelF) fs1 _ (All2.and_dom hd hc)
  obtain ⟨hr, hl⟩ := C10_chain_roundtrip fuel _ fs tfs vs ht hg
  have ec : encChain fuel [lmAlias tags, lmFlatten cfg fuelF] fs vs =
      encLayer (flattenMangler cfg fuelF) (losslessFlatten cfg fuelF).enc fuel fs1
        (encLayer (aliasMangler tags) (losslessAlias tags).enc fuel fs vs) := by
    simp only [encChain, lmAlias, lmFlatten, h1, h2]
  rw [ec, encLayer_noRecurse (losslessFlatten cfg fuelF) rfl fuel fs1 tfs _ h2 (All2.and_dom hd hc)] at hr hl
  exact ⟨_, rfl, hl, hr⟩

/-- Flag-source chain, with hypotheses on the ORIGINAL values only: every value list that is good for
alias (well shaped; aliased fields not of bare struct / array-of-struct type) and flatten-canonical
(`Canon`: every struct value sits behind exactly the pointers of its type, has one canonical value per
field, and is allocated only if one of its fields is set) has an encoding of the translated fields that
reverses to it.  `hd` is a condition on the translated field TYPES only: flatten's fuel (the former
second conjunct "every struct behind a pointer" is gone since the repair of P02). -/
theorem C10_roundtrip_flag_chain_canon (tags : List String) (cfg : FlattenCfg) (fuelF fuel : Nat)
    (fs fs1 tfs : List FT) (vs : List Val)
    (h1 : mangleLayer fuel (aliasMangler tags) fs = .ok fs1)
    (h2 : mangleLayer fuel (flattenMangler cfg fuelF) fs1 = .ok tfs)
    (hv : All2 (HG (aliasP tags)) fs vs) (hc : All2 Canon fs vs)
    (hd : ∀ f ∈ fs1, tySize f.2 < fuelF) :
    ∃ tvals, tvals.length = tfs.length ∧
      reverse fuel [aliasMangler tags, flattenMangler cfg fuelF] fs tvals = .ok vs := by
  obtain ⟨tvals, _, hl, hr⟩ := C10_roundtrip_flag_chain tags cfg fuelF fuel fs fs1 tfs vs _ h1 h2 hv rfl hd
    (alias_flattenGood tags fuelF fuel fs fs1 vs h1 hv hc hd)
  exact ⟨tvals, hl, hr⟩

/-- flatten alone: canonical values are exactly recoverable (the explicit form of `flattenGood`), for every
type (the hypothesis "every struct behind a pointer" is gone since the repair of P02; for a struct held by
value `Canon` takes `nilv` as the one representation of "nothing set") -/
theorem C10_flatten_canon (fuel : Nat) (f : FT) (v : Val) (hsz : tySize f.2 < fuel) (hc : Canon f v) :
    populate fuel f.2 (flatLeaves fuel f.2 v) = .ok (v, [], !v.isNil) ∧
      (flatLeaves fuel f.2 v).length = leafCount fuel f.2 := by
  obtain ⟨hp, hl⟩ := populate_canon fuel f.2 hsz v [] hc
  rw [List.append_nil] at hp
  exact ⟨hp, by rw [hl, leafCount_eq_leafN fuel f.2 hsz]⟩

/-- Env-source chain `[alias, flatten, tag reformat, tag copy, string cast]`.  `fs1 … fs4` are the fields
after the first four layers, `w1` the alias encoding of the values, `w2` the flattened leaves of `w1`;
tag reformat and tag copy leave the values as they are (at every depth).  Every value list that is
good for alias, whose alias encoding flatten can restore, whose leaves are well shaped (slices of
structs are leaves that reformat / copy recurse into) and faithfully formatted by `fmt` for `parse`
(the formatter hypothesis `hs`), every leaf type having an element type (`hel`: pointer / slice / array /
map / set — what Pointerify produces; string cast calls `Type.Elem()`), has an encoding of the translated fields — the formatted texts of the
leaves — that reverses to it. -/
theorem C10_roundtrip_env_chain (tags : List String) (cfg : FlattenCfg) (fuelF fuel : Nat)
    (tag : String) (dec : List Char → Option (List (List Char))) (enc : CaseConv.Scheme) (src new : String)
    (parse : String → Ty → Outcome Val) (fmt : Ty → Val → String)
    (fs fs1 fs2 fs3 fs4 tfs : List FT) (vs w1 w2 : List Val)
    (h1 : mangleLayer fuel (aliasMangler tags) fs = .ok fs1)
    (h2 : mangleLayer fuel (flattenMangler cfg fuelF) fs1 = .ok fs2)
    (h3 : mangleLayer fuel (tagReformatMangler tag dec enc) fs2 = .ok fs3)
    (h4 : mangleLayer fuel (tagCopyMangler src new) fs3 = .ok fs4)
    (h5 : mangleLayer fuel (stringCastMangler parse) fs4 = .ok tfs)
    (hv : All2 (HG (aliasP tags)) fs vs)
    (e1 : w1 = encLayer (aliasMangler tags) (losslessAlias tags).enc fuel fs vs)
    (hd : ∀ f ∈ fs1, tySize f.2 < fuelF)
    (hc : All2 (flattenGood fuelF) fs1 w1)
    (e2 : w2 = ((fs1.zip w1).map fun p => flatLeaves fuelF p.1.2 p.2).flatten)
    (hw : All2 WS fs2 w2)
    (hel : ∀ f ∈ fs2, hasElemTy f.2 = true)
    (hs : All2 (scGood parse fmt) fs4 w2) :
    ∃ tvals, tvals = (fs4.zip w2).map (fun p => scEnc fmt p.1.2 p.2) ∧
      tvals.length = tfs.length ∧
      reverse fuel [aliasMangler tags, flattenMangler cfg fuelF, tagReformatMangler tag dec enc,
        tagCopyMangler src new, stringCastMangler parse] fs tvals = .ok vs := by
  -- reformat and copy are the identity on values
  have e3 : encLayer (lmTagReformat tag dec enc).m (lmTagReformat tag dec enc).L.enc fuel fs2 w2 = w2 :=
    (encLayer_id (losslessTagReformat tag dec enc) (fun _ _ _ => rfl) fuel).1 fs2 fs3 _ h3 hw.and_true
  have w3 : All2 WS fs3 w2 := by
    have := encLayer_WS (losslessTagReformat tag dec enc) rfl fuel fs2 fs3 _ h3 hw.and_true
    rwa [show encLayer (tagReformatMangler tag dec enc) (losslessTagReformat tag dec enc).enc fuel fs2 w2 = w2
      from e3] at this
  have e4 : encLayer (lmTagCopy src new).m (lmTagCopy src new).L.enc fuel fs3 w2 = w2 :=
    (encLayer_id (losslessTagCopy src new) (fun _ _ _ => rfl) fuel).1 fs3 fs4 _ h4 w3.and_true
  have e1' : encLayer (lmAlias tags).m (lmAlias tags).L.enc fuel fs vs = w1 := e1.symm
  have e2' : encLayer (lmFlatten cfg fuelF).m (lmFlatten cfg fuelF).L.enc fuel fs1 w1 = w2 :=
    (encLayer_noRecurse (losslessFlatten cfg fuelF) rfl fuel fs1 fs2 w1 h2 (All2.and_dom hd hc)).trans e2.symm
  let ls := [lmAlias tags, lmFlatten cfg fuelF, lmTagReformat tag dec enc, lmTagCopy src new,
    lmStringCast parse fmt]
  have ht : translate fuel (ls.map (·.m)) fs = .ok tfs := by
    simp [ls, translate, lmAlias, lmFlatten, lmTagReformat, lmTagCopy, lmStringCast, h1, h2, h3, h4, h5]
  have hg : ChainGood fuel ls fs vs := by
    refine ⟨hv.and_true, fun fs' hm => ?_⟩
    have hm' : mangleLayer fuel (aliasMangler tags) fs = .ok fs' := hm
    rw [h1] at hm'; cases hm'
    rw [e1']
    refine ⟨All2.and_dom hd hc, fun fs' hm => ?_⟩
    have hm' : mangleLayer fuel (flattenMangler cfg fuelF) fs1 = .ok fs' := hm
    rw [h2] at hm'; cases hm'
    rw [e2']
    refine ⟨hw.and_true, fun fs' hm => ?_⟩
    have hm' : mangleLayer fuel (tagReformatMangler tag dec enc) fs2 = .ok fs' := hm
    rw [h3] at hm'; cases hm'
    rw [e3]
    refine ⟨w3.and_true, fun fs' hm => ?_⟩
    have hm' : mangleLayer fuel (tagCopyMangler src new) fs3 = .ok fs' := hm
    rw [h4] at hm'; cases hm'
    rw [e4]
    have hel3 := mangleLayer_hasElemTy (m := tagReformatMangler tag dec enc)
      (fun h t outs hm o ho => by
        obtain ⟨h', rfl⟩ := tagReformat_mangle_ty tag dec enc h t outs hm
        simp only [List.mem_singleton] at ho; subst ho; rfl) h3 hel
    have hel4 := mangleLayer_hasElemTy (m := tagCopyMangler src new)
      (fun h t outs hm o ho => by
        obtain ⟨h', rfl⟩ := tagCopy_mangle_ty src new h t outs hm
        simp only [List.mem_singleton] at ho; subst ho; rfl) h4 hel3
    exact chainGood_last fuel (lmStringCast parse fmt) fs4 w2 (All2.and_dom hel4 hs)
  obtain ⟨hr, hl⟩ := C10_chain_roundtrip fuel ls fs tfs vs ht hg
  have ec : encChain fuel ls fs vs =
      encLayer (stringCastMangler parse) (losslessStringCast parse fmt).enc fuel fs4 w2 := by
    have h1' : mangleLayer fuel (lmAlias tags).m fs = .ok fs1 := h1
    have h2' : mangleLayer fuel (lmFlatten cfg fuelF).m fs1 = .ok fs2 := h2
    have h3' : mangleLayer fuel (lmTagReformat tag dec enc).m fs2 = .ok fs3 := h3
    have h4' : mangleLayer fuel (lmTagCopy src new).m fs3 = .ok fs4 := h4
    have h5' : mangleLayer fuel (lmStringCast parse fmt).m fs4 = .ok tfs := h5
    simp only [ls, encChain, h1', e1', h2', e2', h3', e3, h4', e4, h5']
    rfl
  rw [ec] at hr hl
  cases fuel with
  | zero => simp [mangleLayer] at h5
  | succ k =>
    rw [encLayer_stringCast] at hr hl
    exact ⟨_, rfl, hl, hr⟩

/-- Env-source chain with the alias / flatten conditions on the ORIGINAL values (`hv`, `hc`); what remains
on the translated values are the conditions on the flattened leaves `w2`: well-shapedness (`hw`) and
the formatter hypothesis (`hs`). -/
theorem C10_roundtrip_env_chain_canon (tags : List String) (cfg : FlattenCfg) (fuelF fuel : Nat)
    (tag : String) (dec : List Char → Option (List (List Char))) (enc : CaseConv.Scheme) (src new : String)
    (parse : String → Ty → Outcome Val) (fmt : Ty → Val → String)
    (fs fs1 fs2 fs3 fs4 tfs : List FT) (vs w2 : List Val)
    (h1 : mangleLayer fuel (aliasMangler tags) fs = .ok fs1)
    (h2 : mangleLayer fuel (flattenMangler cfg fuelF) fs1 = .ok fs2)
    (h3 : mangleLayer fuel (tagReformatMangler tag dec enc) fs2 = .ok fs3)
    (h4 : mangleLayer fuel (tagCopyMangler src new) fs3 = .ok fs4)
    (h5 : mangleLayer fuel (stringCastMangler parse) fs4 = .ok tfs)
    (hv : All2 (HG (aliasP tags)) fs vs) (hc : All2 Canon fs vs)
    (hd : ∀ f ∈ fs1, tySize f.2 < fuelF)
    (e2 : w2 = ((fs1.zip (encLayer (aliasMangler tags) (losslessAlias tags).enc fuel fs vs)).map
      fun p => flatLeaves fuelF p.1.2 p.2).flatten)
    (hw : All2 WS fs2 w2)
    (hel : ∀ f ∈ fs2, hasElemTy f.2 = true)
    (hs : All2 (scGood parse fmt) fs4 w2) :
    ∃ tvals, tvals = (fs4.zip w2).map (fun p => scEnc fmt p.1.2 p.2) ∧
      tvals.length = tfs.length ∧
      reverse fuel [aliasMangler tags, flattenMangler cfg fuelF, tagReformatMangler tag dec enc,
        tagCopyMangler src new, stringCastMangler parse] fs tvals = .ok vs :=
  C10_roundtrip_env_chain tags cfg fuelF fuel tag dec enc src new parse fmt fs fs1 fs2 fs3 fs4 tfs vs _ w2
    h1 h2 h3 h4 h5 hv rfl hd (alias_flattenGood tags fuelF fuel fs fs1 vs h1 hv hc hd) e2 hw hel hs

/-- anonymous flatten is lossless on `HG anonP`: embedded structs, pointers to structs (an unset embedded
`*struct` has no bare struct-typed field; a set one has a set field), leaves, and — since the repair of
P08, without any condition — embedded pointers to non-structs (`*T` of a named scalar, `*string`,
`**struct`), which Mangle and Unmangle pass through unchanged (`C10_anon_ptr_nonstruct_identity`) -/
theorem C10_lossless_anon (fuel : Nat) : Nonempty (Lossless (anonMangler fuel) (fun _ => True) (HG anonP)) :=
  ⟨losslessAnon fuel⟩

/-- anonymous flatten on an embedded (or not) POINTER whose pointee is not a struct — `*T` of a named scalar,
`*string`, `**struct` (`Type.Elem().Kind()` is Ptr) —: since the repair of P08 Mangle returns the field
unchanged and Unmangle forwards its single value, whatever it is (before: Mangle stripped the pointer
and Unmangle rebuilt a `*struct`) -/
theorem C10_anon_ptr_nonstruct_identity (fuel : Nat) (h : Hdr) (e : Ty) (hne : ∀ ifs, e ≠ .struct ifs)
    (o : FT) (v : Val) (rest : List (FT × Val)) :
    anonMangle (fuel + 1) h (.ptr e) = .ok [(h, .ptr e)] ∧
      anonUnmangle h (.ptr e) ((o, v) :: rest) = .ok v := by
  have hnp : ∀ ifs, Ty.ptr e ≠ .ptr (.struct ifs) := fun ifs h' => hne ifs (by cases h'; rfl)
  have hns : ∀ ifs, Ty.ptr e ≠ .struct ifs := fun ifs h' => by cases h'
  refine ⟨?_, anonUnmangle_other hnp hns o v rest⟩
  cases ha : h.anon with
  | false => simp [anonMangle, ha]
  | true =>
    cases e with
    | struct ifs => exact absurd rfl (hne ifs)
    | _ => simp [anonMangle, ha]

/-- … in particular `**struct` is passed through, and only `*struct` / `struct` embedded fields are hoisted -/
theorem C10_anon_hoists_only_structs (fuel : Nat) (n : String) (tg : List (String × String)) (ifs : Fields) :
    anonMangle (fuel + 2) ⟨n, tg, true⟩ (.ptr (.struct ifs)) = .ok ifs.toList ∧
    anonMangle (fuel + 1) ⟨n, tg, true⟩ (.struct ifs) = .ok ifs.toList ∧
    anonMangle (fuel + 1) ⟨n, tg, true⟩ (.ptr (.ptr (.struct ifs))) = .ok [(⟨n, tg, true⟩, .ptr (.ptr (.struct ifs)))] := by
  refine ⟨?_, ?_, ?_⟩
  · simp [anonMangle]
  · simp [anonMangle]
  · simp [anonMangle]

/-- the env source's regenerated chain (F12a) is the chain of `C10_roundtrip_env_chain` -/
theorem C10_env_chain_is_shipped (fuelF : Nat) (parse : String → Ty → Outcome Val) :
    chainOf fuelF parse Facts.chainEnv =
      [aliasMangler ["dials", "dialsenv"], flattenMangler ⟨"dials", .upperCamel, .casePreservingSnake⟩ fuelF,
       tagReformatMangler "dials" CaseConv.decodeGoTags .upperSnake, tagCopyMangler "dials" "dialsenv",
       stringCastMangler parse] := by
  rfl

/-! ### Collections of structs: the recursive pass keeps "unset" and "explicitly empty" apart

`maybeRecursivelyUnmangle` rebuilds a slice (array) of structs element by element.  A nil slice comes back nil;
a list of `n` elements - in particular the EMPTY list, which in Dials means "set to empty" and overrides a
lower layer - comes back as a list of exactly `n` elements.  (C14: an aliased `[]struct` field supplied as `[]`
is a supplied field; C20: a wrapped source's empty list is not turned into "unset".) -/

theorem C10_recurse_nil_slice (fuel : Nat) (m : Mangler) (h : Hdr) (e : Ty) :
    recurseVal (fuel + 1) m (h, .slice e) .nilv = .ok .nilv := by
  unfold recurseVal
  by_cases hr : m.recurse = true
  · cases hs : structish (.slice e) <;> simp [hr]
  · simp [hr]

theorem C10_recurse_list_length (fuel : Nat) (m : Mangler) (h : Hdr) (e : Ty) (vs : List Val) (r : Val)
    (hok : recurseVal (fuel + 1) m (h, .slice e) (.list vs) = .ok r) :
    ∃ rs, r = .list rs ∧ rs.length = vs.length := by
  unfold recurseVal at hok
  by_cases hr : m.recurse = true
  · cases hs : structish (.slice e) with
    | none => simp [hr, hs] at hok; exact ⟨vs, hok.symm, rfl⟩
    | some p =>
      simp only [hr, hs] at hok
      simp only [Bool.not_true, Bool.false_eq_true, ↓reduceIte] at hok
      generalize hm : mapM' _ vs = o at hok
      cases o with
      | ok rs =>
        simp [Outcome.bind] at hok
        exact ⟨rs, hok.symm, mapM'_length hm⟩
      | err c => simp [Outcome.bind] at hok
      | panic c => simp [Outcome.bind] at hok
  · simp [hr] at hok; exact ⟨vs, hok.symm, rfl⟩

/-- the explicitly empty list of structs stays an (empty) list: it is never turned into "unset" -/
theorem C10_recurse_empty_list (fuel : Nat) (m : Mangler) (h : Hdr) (e : Ty) :
    recurseVal (fuel + 1) m (h, .slice e) (.list []) = .ok (.list []) := by
  unfold recurseVal
  by_cases hr : m.recurse = true
  · cases hs : structish (.slice e) <;> simp [hr, mapM', Outcome.bind]
  · simp [hr]

/-! ### Non-vacuity: concrete nested types and values on which the hypotheses of the corollaries hold
and the round trip computes -/

namespace Ex

def getOk (o : Outcome (List FT)) : List FT := match o with | .ok l => l | _ => []
def tInt : Ty := .ptr (.basic (.int .int) false)
def tStr : Ty := .ptr (.basic .str false)
def tBool : Ty := .ptr (.basic .bool false)

/-! #### flag chain: `struct { Srv *struct { Port *int `dialsflag:"port" dialsflagalias:"p"`; Name *string }; Dbg *bool }`
with `Srv.Port = 8080`, everything else unset -/
namespace Flag
def tags : List String := ["dials", "dialsflag"]
def cfg : FlattenCfg := ⟨"dials", .upperCamel, .kebab⟩
def inner : Fields :=
  .cons "Port" [("dialsflag", "port"), ("dialsflagalias", "p")] false tInt (.cons "Name" [] false tStr .nil)
def fs : List FT := [(⟨"Srv", [], false⟩, .ptr (.struct inner)), (⟨"Dbg", [], false⟩, tBool)]
def vs : List Val := [.ptr (.struct [.ptr (.i 8080), .nilv]), .nilv]
def fs1 : List FT := getOk (mangleLayer 10 (aliasMangler tags) fs)
def tfs : List FT := getOk (mangleLayer 10 (flattenMangler cfg 20) fs1)
def w1 : List Val := [.ptr (.struct [.ptr (.i 8080), .nilv, .nilv]), .nilv]

theorem h1 : mangleLayer 10 (aliasMangler tags) fs = .ok fs1 := rfl
theorem h2 : mangleLayer 10 (flattenMangler cfg 20) fs1 = .ok tfs := rfl
/-- the alias layer doubled the nested field `Port` -/
theorem fs1_shape : ∃ hA hB n1 g1 a1 n2 g2 a2 n3 g3 a3, fs1 =
    [(hA, .ptr (.struct (.cons n1 g1 a1 tInt (.cons n2 g2 a2 tInt (.cons n3 g3 a3 tStr .nil))))), (hB, tBool)] :=
  ⟨_, _, _, _, _, _, _, _, _, _, _, rfl⟩
theorem e1 : w1 = encLayer (aliasMangler tags) (losslessAlias tags).enc 10 fs vs := rfl
theorem hv : All2 (HG (aliasP tags)) fs vs := by
  simp [fs, vs, inner, HG, Hered, aliasP, tInt, tStr, tBool, bareStructish]
theorem hd : ∀ f ∈ fs1, tySize f.2 < 20 := by
  obtain ⟨hA, hB, n1, g1, a1, n2, g2, a2, n3, g3, a3, h⟩ := fs1_shape
  simp [h, tySize, fieldsSize, tInt, tStr, tBool]
theorem hc : All2 (flattenGood 20) fs1 w1 := by
  obtain ⟨hA, hB, n1, g1, a1, n2, g2, a2, n3, g3, a3, h⟩ := fs1_shape
  rw [h]
  refine ⟨⟨[.ptr (.i 8080), .nilv, .nilv], true, rfl, ?_⟩, ⟨[.nilv], false, rfl, ?_⟩, True.intro⟩
  · simp [populate, populate.fields, stripPtrs, ptrDepth, Fields.toList, Val.isNil, wrapPtrs, tInt, tStr]
  · simp [populate, stripPtrs, Val.isNil, tBool]

/-- the hypotheses of `C10_roundtrip_flag_chain` hold here, and the four flattened flag values
`[8080, unset, unset, unset]` reverse to the nested original -/
example : reverse 10 [aliasMangler tags, flattenMangler cfg 20] fs [.ptr (.i 8080), .nilv, .nilv, .nilv] = .ok vs := by
  obtain ⟨tvals, e, _, hr⟩ := C10_roundtrip_flag_chain tags cfg 20 10 fs fs1 tfs vs w1 h1 h2 hv e1 hd hc
  have : tvals = [.ptr (.i 8080), .nilv, .nilv, .nilv] := by
    obtain ⟨hA, hB, n1, g1, a1, n2, g2, a2, n3, g3, a3, h⟩ := fs1_shape
    rw [e, h]
    simp [w1, flatLeaves, flatLeaves.go, flatLeaves.strip, stripPtrs, ptrDepth, Fields.toList, tInt, tStr, tBool]
  rw [this] at hr
  exact hr

theorem hcanon : All2 Canon fs vs := by
  simp [fs, vs, inner, Canon, CanonAt, wrapPtrs, anySet, Val.isNil, tInt, tStr, tBool]

/-- … and the hypotheses of `C10_roundtrip_flag_chain_canon` (conditions on the original values only) -/
example : ∃ tvals, tvals.length = tfs.length ∧
    reverse 10 [aliasMangler tags, flattenMangler cfg 20] fs tvals = .ok vs :=
  C10_roundtrip_flag_chain_canon tags cfg 20 10 fs fs1 tfs vs h1 h2 hv hcanon hd
end Flag

/-! #### flag chain over a struct held BY VALUE (what the repair of P02 added):
`struct { Srv *struct { N struct { X *bool }; Name *string } }` with `Srv.N.X = true` -/
namespace ByValue
def tags : List String := ["dials", "dialsflag"]
def cfg : FlattenCfg := ⟨"dials", .upperCamel, .kebab⟩
def inner : Fields :=
  .cons "N" [] false (.struct (.cons "X" [] false tBool .nil)) (.cons "Name" [] false tStr .nil)
def fs : List FT := [(⟨"Srv", [], false⟩, .ptr (.struct inner))]
def vs : List Val := [.ptr (.struct [.struct [.ptr (.b true)], .nilv])]
def fs1 : List FT := getOk (mangleLayer 10 (aliasMangler tags) fs)
def tfs : List FT := getOk (mangleLayer 10 (flattenMangler cfg 20) fs1)
theorem h1 : mangleLayer 10 (aliasMangler tags) fs = .ok fs1 := rfl
theorem h2 : mangleLayer 10 (flattenMangler cfg 20) fs1 = .ok tfs := rfl
theorem fs1_eq : fs1 = fs := rfl
theorem hv : All2 (HG (aliasP tags)) fs vs := by
  simp [fs, vs, inner, HG, Hered, aliasP, tStr, tBool, isAliased, tags, tagGet]
theorem hcanon : All2 Canon fs vs := by
  simp [fs, vs, inner, Canon, CanonAt, wrapPtrs, anySet, Val.isNil, tStr, tBool]
theorem hd : ∀ f ∈ fs1, tySize f.2 < 20 := by
  rw [fs1_eq]
  simp [fs, inner, tySize, fieldsSize, tStr, tBool]
/-- the type is NOT one with every struct behind a pointer (the old hypothesis excluded it) -/
example : ∃ f ∈ fs1, structsBehindPtr f.2 = false :=
  ⟨(⟨"Srv", [], false⟩, .ptr (.struct inner)), by rw [fs1_eq]; simp [fs],
    by simp [inner, structsBehindPtr, underPtr, fieldsBehindPtr]⟩
/-- … and the hypotheses of `C10_roundtrip_flag_chain_canon` hold: some filling of the two flags reverses
to the value with the rebuilt by-value struct -/
example : ∃ tvals, tvals.length = tfs.length ∧
    reverse 10 [aliasMangler tags, flattenMangler cfg 20] fs tvals = .ok vs :=
  C10_roundtrip_flag_chain_canon tags cfg 20 10 fs fs1 tfs vs h1 h2 hv hcanon hd
/-- `C10_flatten_canon` on the same field: its leaves are `[true, unset]` and populate restores it -/
example : populate 20 (.ptr (.struct inner)) [.ptr (.b true), .nilv] =
    .ok (.ptr (.struct [.struct [.ptr (.b true)], .nilv]), [], true) := by
  have hc := hcanon
  simp only [fs, vs, All2_cons] at hc
  have := (C10_flatten_canon 20 (⟨"Srv", [], false⟩, .ptr (.struct inner))
    (.ptr (.struct [.struct [.ptr (.b true)], .nilv]))
    (by simp [inner, tySize, fieldsSize, tStr, tBool]) hc.1).1
  simpa [inner, flatLeaves, flatLeaves.go, flatLeaves.strip, stripPtrs, ptrDepth, Fields.toList, tStr, tBool,
    Val.isNil] using this
end ByValue

/-! #### decoder chain with set → slice: `struct { Timeout *time.Duration `dials:"timeout"`;
Peers []struct { Name string `dials:"name"`; TTL time.Duration }; Seen map[string]struct{} }` -/
namespace Decoder
def peer : Fields := .cons "Name" [("dials", "name")] false (.basic .str false) (.cons "TTL" [] false .dur .nil)
def fs : List FT :=
  [(⟨"Timeout", [("dials", "timeout")], false⟩, .ptr .dur),
   (⟨"Peers", [], false⟩, .slice (.struct peer)),
   (⟨"Seen", [], false⟩, .set (.basic .str false))]
def vs : List Val :=
  [.ptr (.i 5), .list [.struct [.s "a", .i 1], .struct [.s "b", .i 2]], .setv [.s "x"]]
def chain : List Mangler := [setSliceMangler, durSubMangler, tagCopyMangler "dials" "json"]
def tfs : List FT := getOk (translate 10 chain fs)
theorem ht : translate 10 chain fs = .ok tfs := rfl
theorem hv : All2 (HG setP) fs vs := by
  simp [fs, vs, peer, HG, Hered, setP]

/-- the hypotheses of `C10_roundtrip_decoder_chain_set` hold here (the recursion goes into the elements of
`Peers`), and the decoded values — the set as a list — reverse to the original -/
example : reverse 10 chain fs
    [.ptr (.i 5), .list [.struct [.s "a", .i 1], .struct [.s "b", .i 2]], .list [.s "x"]] = .ok vs := by
  obtain ⟨tvals, e, _, hr⟩ := C10_roundtrip_decoder_chain_set "dials" "json" 10 fs tfs vs ht hv
  have : tvals = [.ptr (.i 5), .list [.struct [.s "a", .i 1], .struct [.s "b", .i 2]], .list [.s "x"]] :=
    e.trans rfl
  rw [this] at hr
  exact hr

/-- … and without the set field, `C10_roundtrip_decoder_chain`: the values are untouched -/
example : reverse 10 [durSubMangler, tagCopyMangler "dials" "json"] (fs.take 2) (vs.take 2) = .ok (vs.take 2) :=
  (C10_roundtrip_decoder_chain "dials" "json" 10 (fs.take 2)
    (getOk (translate 10 [durSubMangler, tagCopyMangler "dials" "json"] (fs.take 2))) (vs.take 2) rfl
    (by simp [fs, vs, peer, HG, Hered, PTrue])).1
end Decoder

/-! #### env chain (the shipped parameters), all fields `*string`, with a toy parse.String / formatter -/
namespace Env
def tags : List String := ["dials", "dialsenv"]
def cfg : FlattenCfg := ⟨"dials", .upperCamel, .casePreservingSnake⟩
def inner : Fields :=
  .cons "Port" [("dials", "port"), ("dialsenvalias", "SRV_P")] false tStr (.cons "Name" [] false tStr .nil)
def fs : List FT := [(⟨"Srv", [], false⟩, .ptr (.struct inner)), (⟨"Dbg", [], false⟩, tStr)]
def vs : List Val := [.ptr (.struct [.ptr (.s "8080"), .nilv]), .ptr (.s "yes")]
def parse : String → Ty → Outcome Val := fun str _ => .ok (.ptr (.s str))
def fmt : Ty → Val → String := fun _ v => match v with | .ptr (.s x) => x | _ => ""
abbrev m1 := aliasMangler tags
abbrev m2 := flattenMangler cfg 20
abbrev m3 := tagReformatMangler "dials" CaseConv.decodeGoTags .upperSnake
abbrev m4 := tagCopyMangler "dials" "dialsenv"
abbrev m5 := stringCastMangler parse
def fs1 := getOk (mangleLayer 10 m1 fs)
def fs2 := getOk (mangleLayer 10 m2 fs1)
def fs3 := getOk (mangleLayer 10 m3 fs2)
def fs4 := getOk (mangleLayer 10 m4 fs3)
def tfs := getOk (mangleLayer 10 m5 fs4)
theorem h1 : mangleLayer 10 m1 fs = .ok fs1 := rfl
theorem h2 : mangleLayer 10 m2 fs1 = .ok fs2 := rfl
theorem h3 : mangleLayer 10 m3 fs2 = .ok fs3 := rfl
theorem h4 : mangleLayer 10 m4 fs3 = .ok fs4 := rfl
theorem h5 : mangleLayer 10 m5 fs4 = .ok tfs := rfl
def w1 : List Val := [.ptr (.struct [.ptr (.s "8080"), .nilv, .nilv]), .ptr (.s "yes")]
def w2 : List Val := [.ptr (.s "8080"), .nilv, .nilv, .ptr (.s "yes")]
theorem e1 : w1 = encLayer m1 (losslessAlias tags).enc 10 fs vs := rfl
theorem fs1_shape : ∃ hA hB n1 g1 a1 n2 g2 a2 n3 g3 a3, fs1 =
    [(hA, .ptr (.struct (.cons n1 g1 a1 tStr (.cons n2 g2 a2 tStr (.cons n3 g3 a3 tStr .nil))))), (hB, tStr)] :=
  ⟨_, _, _, _, _, _, _, _, _, _, _, rfl⟩
theorem fs2_shape : ∃ hA hB hC hD, fs2 = [(hA, tStr), (hB, tStr), (hC, tStr), (hD, tStr)] := ⟨_, _, _, _, rfl⟩
theorem fs4_shape : ∃ hA hB hC hD, fs4 = [(hA, tStr), (hB, tStr), (hC, tStr), (hD, tStr)] := ⟨_, _, _, _, rfl⟩
theorem hv : All2 (HG (aliasP tags)) fs vs := by
  simp [fs, vs, inner, HG, Hered, aliasP, tStr, bareStructish]
theorem hd : ∀ f ∈ fs1, tySize f.2 < 20 := by
  obtain ⟨hA, hB, n1, g1, a1, n2, g2, a2, n3, g3, a3, h⟩ := fs1_shape
  simp [h, tySize, fieldsSize, tStr]
theorem hc : All2 (flattenGood 20) fs1 w1 := by
  obtain ⟨hA, hB, n1, g1, a1, n2, g2, a2, n3, g3, a3, h⟩ := fs1_shape
  rw [h]
  refine ⟨⟨[.ptr (.s "8080"), .nilv, .nilv], true, rfl, ?_⟩, ⟨[.ptr (.s "yes")], true, rfl, ?_⟩, True.intro⟩
  · simp [populate, populate.fields, stripPtrs, ptrDepth, Fields.toList, Val.isNil, wrapPtrs, tStr]
  · simp [populate, stripPtrs, Val.isNil, tStr]
theorem e2 : w2 = ((fs1.zip w1).map fun p => flatLeaves 20 p.1.2 p.2).flatten := by
  obtain ⟨hA, hB, n1, g1, a1, n2, g2, a2, n3, g3, a3, h⟩ := fs1_shape
  rw [h]
  simp [w1, w2, flatLeaves, flatLeaves.go, flatLeaves.strip, stripPtrs, ptrDepth, Fields.toList, tStr]
theorem hw : All2 WS fs2 w2 := by
  obtain ⟨hA, hB, hC, hD, h⟩ := fs2_shape
  simp [h, w2, HG, PTrue, Hered, tStr]
theorem hel : ∀ f ∈ fs2, hasElemTy f.2 = true := by
  obtain ⟨hA, hB, hC, hD, h⟩ := fs2_shape
  simp [h, tStr]
theorem hs : All2 (scGood parse fmt) fs4 w2 := by
  obtain ⟨hA, hB, hC, hD, h⟩ := fs4_shape
  simp [h, w2, scGood, parse, fmt, scBoxed, tStr]

/-- the hypotheses of `C10_roundtrip_env_chain` hold here, and the four environment texts
`["8080", unset, unset, "yes"]` reverse to the nested original -/
example : reverse 10 [m1, m2, m3, m4, m5] fs [.ptr (.s "8080"), .nilv, .nilv, .ptr (.s "yes")] = .ok vs := by
  obtain ⟨tvals, e, _, hr⟩ := C10_roundtrip_env_chain tags cfg 20 10 "dials" CaseConv.decodeGoTags .upperSnake
    "dials" "dialsenv" parse fmt fs fs1 fs2 fs3 fs4 tfs vs w1 w2 h1 h2 h3 h4 h5 hv e1 hd hc e2 hw hel hs
  have : tvals = [.ptr (.s "8080"), .nilv, .nilv, .ptr (.s "yes")] := by
    obtain ⟨hA, hB, hC, hD, h⟩ := fs4_shape
    rw [e, h]
    simp [w2, scEnc, fmt]
  rw [this] at hr
  exact hr
end Env

end Ex

end Dials.C10
