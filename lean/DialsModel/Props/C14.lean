/-
C14 — Aliases: either name sets the field, both together are an error.

Property theorems only (helper lemmas live in Lemmas/EnvAlias.lean).
-/
import DialsModel.Model.TfSpec
import DialsModel.Lemmas.EnvAlias

namespace Dials.C14
open Dials Dials.Tf

/-- A field without alias tags is left alone (one output, the field itself). -/
theorem C14_no_alias (tags : List String) (h : Hdr) (t : Ty)
    (hn : ∀ tag ∈ tags, tagGet h.tags (tag ++ "alias") = none) :
    aliasMangle tags h t = .ok [(h, t)] := by
  have hf : aliasFound tags h = [] := by
    cases hfd : aliasFound tags h with
    | nil => rfl
    | cons p f =>
      have hp : p ∈ aliasFound tags h := by rw [hfd]; exact List.mem_cons_self
      have := mem_aliasFound.1 hp
      rw [hn p.1 this.1] at this
      cases this.2
  rw [aliasMangle_eq, hf]
  rfl

/-
ORIGINAL STATEMENT (FALSE as written; kept verbatim):

theorem C14_alias_shape (tags : List String) (h : Hdr) (t : Ty) (tag a : String)
    (ht : tag ∈ tags) (ha : tagGet h.tags (tag ++ "alias") = some a) :
    ∃ hp hal, aliasMangle tags h t = .ok [(hp, t), (hal, t)] ∧
      hp.name = h.name ∧ hal.name = h.name ++ aliasFieldSuffix ∧ hal.name ≠ hp.name ∧
      tagGet hp.tags (tag ++ "alias") = none ∧ tagGet hal.tags (tag ++ "alias") = none ∧
      (tags.Nodup → (∀ t1 ∈ tags, ∀ t2 ∈ tags, t1 ++ "alias" ≠ t2) → tagGet hal.tags tag = some a)

Two conjuncts fail (machine-checked below as `C14_alias_shape_counterexample_collision` and
`C14_alias_shape_counterexample_dialsdesc`):

 (1) `tagGet hal.tags (tag ++ "alias") = none` is stated unconditionally, but a LATER tag of the
     list may be named exactly `tag ++ "alias"`; its own alias value is then written under that name.
     tags = ["a", "aalias"], h.tags = [("aalias","v1"), ("aaliasalias","v2")], tag = "a", a = "v1":
     the alias field has tags [("a","v1"), ("aalias","v2"), ("dialsdesc", …)], so
     `tagGet hal.tags "aalias" = some "v2"`.
     The conjunct needs the no-collision hypothesis that the original attaches only to the last one.

 (2) `tagGet hal.tags tag = some a` fails for `tag = "dialsdesc"`: the alias field's description is
     rewritten last ("… (alias of …)").
     tags = ["dialsdesc"], h.tags = [("dialsdesc","x"), ("dialsdescalias","y")], tag = "dialsdesc",
     a = "y": `tagGet hal.tags "dialsdesc" = some "y (alias of dialsdesc=x)"`.
     The conjunct needs `tag ≠ "dialsdesc"`.

Neither situation arises for the tag lists of the library's own chains (`C14_chain_tags_ok`).
-/

/-- A field with an alias tag becomes two fields of the same type: the primary (alias tags removed)
and the alias field, whose name is distinct from the primary's and whose tag `tag` carries the alias
value — so every later name derivation (flatten, reformat, env/flag naming) treats the alias exactly
like a primary name.

Differs from the original `C14_alias_shape` (false, see the comment above) in two places: the
absence of `tag ++ "alias"` on the alias field is stated under the no-collision hypothesis
`hnocoll` (no tag name of the list is another one's alias-tag name), and the last conjunct has the
extra hypothesis `hdesc : tag ≠ "dialsdesc"`.  Everything else is verbatim.

The alias field additionally loses every source-specific name tag without an alias of its own
(`C14_alias_drops_unaliased`); an aliased tag is never among those, so the last conjunct stands.

Two further conjuncts (at the end) since the repair of P10: the primary keeps the field's embeddedness
(`hp.anon = h.anon`) and the alias copy is NEVER embedded (`hal.anon = false`, `aliasField.Anonymous =
false`) — the alias copy of an embedded struct is an ordinary named field `Base_alias…`, so the manglers
that hoist embedded fields (flatten, anonymous flatten) no longer produce every promoted name twice. -/
theorem C14_alias_shape_partial (tags : List String) (h : Hdr) (t : Ty) (tag a : String)
    (ht : tag ∈ tags) (ha : tagGet h.tags (tag ++ "alias") = some a) :
    ∃ hp hal, aliasMangle tags h t = .ok [(hp, t), (hal, t)] ∧
      hp.name = h.name ∧ hal.name = h.name ++ aliasFieldSuffix ∧ hal.name ≠ hp.name ∧
      tagGet hp.tags (tag ++ "alias") = none ∧
      ((hnocoll : ∀ t1 ∈ tags, ∀ t2 ∈ tags, t1 ++ "alias" ≠ t2) → tagGet hal.tags (tag ++ "alias") = none) ∧
      (tags.Nodup → (hnocoll : ∀ t1 ∈ tags, ∀ t2 ∈ tags, t1 ++ "alias" ≠ t2) → (hdesc : tag ≠ "dialsdesc") →
        tagGet hal.tags tag = some a) ∧
      hp.anon = h.anon ∧ hal.anon = false := by
  have hmem : (tag, a) ∈ aliasFound tags h := mem_aliasFound.2 ⟨ht, ha⟩
  have hne : (aliasFound tags h).isEmpty = false := by
    cases hfd : aliasFound tags h with
    | nil => rw [hfd] at hmem; cases hmem
    | cons p f => rfl
  rw [aliasMangle_eq, hne]
  refine ⟨_, _, rfl, rfl, rfl, ?_, ?_, ?_, ?_, rfl, rfl⟩
  · exact append_suffix_ne h.name aliasFieldSuffix (by decide)
  · exact tagGet_delFold_none _ _ _ (Or.inr ⟨(tag, a), hmem, rfl⟩)
  · intro hnocoll
    show tagGet (tagSet _ "dialsdesc" _) (tag ++ "alias") = none
    rw [tagGet_tagSet_ne _ _ _ _ (dialsdesc_ne_alias tag)]
    apply tagGet_dropFold_none
    exact tagGet_setFold_none _ _ _
      (fun p hp => Ne.symm (hnocoll tag ht p.1 (mem_aliasFound.1 hp).1))
      (Or.inr ⟨(tag, a), hmem, rfl⟩)
  · intro hnd hnocoll hdesc
    show tagGet (tagSet _ "dialsdesc" _) tag = some a
    rw [tagGet_tagSet_ne _ _ _ _ hdesc]
    -- an aliased tag is never dropped from the alias field
    show tagGet (dropFold _ _ _) tag = some a
    rw [tagGet_dropFold_keep _ _ _ _ (fun _ => aliasFound_any_of_mem hmem)]
    exact tagGet_setFold_tag _ _ tag a hmem (aliasFound_nodup tags h hnd)
      (fun p hp => hnocoll p.1 (mem_aliasFound.1 hp).1 tag ht)

/-- The alias copy is never embedded, the primary (and an un-aliased field) keeps its embeddedness — for
EVERY field and tag list, whatever `aliasMangle` returns (since the repair of P10; before, the alias copy
of an embedded field was embedded as well). -/
theorem C14_alias_copy_not_embedded (tags : List String) (h : Hdr) (t : Ty) (outs : List FT)
    (hm : aliasMangle tags h t = .ok outs) :
    (outs = [(h, t)]) ∨
    (∃ hp hal, outs = [(hp, t), (hal, t)] ∧ hp.anon = h.anon ∧ hal.anon = false ∧
      hp.name = h.name ∧ hal.name = h.name ++ aliasFieldSuffix) := by
  rw [aliasMangle_eq] at hm
  split at hm
  · cases hm; exact Or.inl rfl
  · cases hm; exact Or.inr ⟨_, _, rfl, rfl, rfl, rfl, rfl⟩

/-- on an EMBEDDED struct field with an alias tag (the shape of finding P10: an embedded `Base` tagged
`dialsalias:"old"`): the primary stays embedded, the alias copy `Base_alias9wr876rw3` is a named field -/
theorem C14_alias_embedded_example :
    let h : Hdr := { name := "Base", tags := [("dialsalias", "old")], anon := true }
    let t : Ty := .ptr (.struct (.cons "A" [] false (.ptr (.basic .bool false)) .nil))
    ∃ hp hal, aliasMangle ["dials", "dialsenv"] h t = .ok [(hp, t), (hal, t)] ∧
      hp.anon = true ∧ hal.anon = false ∧ hp.name = "Base" ∧ hal.name = "Base_alias9wr876rw3" ∧
      tagGet hal.tags "dials" = some "old" := by
  refine ⟨_, _, rfl, rfl, rfl, rfl, by decide, by decide⟩

/-- The alias field answers to the alias names only: a source-specific name tag `tag'` (any tag of the
list but the first, base, one) that has no alias of its own on this field is dropped from the alias
field, while the primary field keeps it (under the no-collision hypothesis, without which deleting
the alias tags could delete `tag'` itself).  `tag' ≠ "dialsdesc"` because the alias field's
description is rewritten last. -/
theorem C14_alias_drops_unaliased (tags : List String) (h : Hdr) (t : Ty) (tag a tag' : String)
    (ht : tag ∈ tags) (ha : tagGet h.tags (tag ++ "alias") = some a)
    (ht' : tag' ∈ tags.drop 1) (hna : tagGet h.tags (tag' ++ "alias") = none) (hdesc : tag' ≠ "dialsdesc") :
    ∃ hp hal, aliasMangle tags h t = .ok [(hp, t), (hal, t)] ∧
      tagGet hal.tags tag' = none ∧
      ((hnocoll : ∀ t1 ∈ tags, ∀ t2 ∈ tags, t1 ++ "alias" ≠ t2) → tagGet hp.tags tag' = tagGet h.tags tag') := by
  have hmem : (tag, a) ∈ aliasFound tags h := mem_aliasFound.2 ⟨ht, ha⟩
  have hne : (aliasFound tags h).isEmpty = false := by
    cases hfd : aliasFound tags h with
    | nil => rw [hfd] at hmem; cases hmem
    | cons p f => rfl
  rw [aliasMangle_eq, hne]
  refine ⟨_, _, rfl, ?_, ?_⟩
  · show tagGet (tagSet _ "dialsdesc" _) tag' = none
    rw [tagGet_tagSet_ne _ _ _ _ hdesc]
    exact tagGet_dropFold_drop _ _ _ tag' ht' (aliasFound_any_false tags h tag' hna)
  · intro hnocoll
    exact tagGet_delFold_other _ _ _
      (fun p hp => hnocoll p.1 (mem_aliasFound.1 hp).1 tag' (List.mem_of_mem_drop ht'))

/-- `C14_alias_drops_unaliased` on a concrete field of the env chain's tag list (its hypotheses are
satisfiable): `dials` has an alias, `dialsenv` has none, so the alias field has no `dialsenv` tag
while the primary field keeps its own -/
theorem C14_alias_drops_unaliased_example :
    let h : Hdr := { name := "F", tags := [("dials", "x"), ("dialsenv", "X"), ("dialsalias", "y")] }
    ∃ hp hal, aliasMangle ["dials", "dialsenv"] h Ty.dur = .ok [(hp, Ty.dur), (hal, Ty.dur)] ∧
      tagGet hal.tags "dials" = some "y" ∧ tagGet hal.tags "dialsenv" = none ∧
      tagGet hp.tags "dials" = some "x" ∧ tagGet hp.tags "dialsenv" = some "X" := by
  refine ⟨_, _, rfl, by decide, by decide, by decide, by decide⟩

/-- counterexample (1) to the original `C14_alias_shape`: a later tag named `tag ++ "alias"` -/
theorem C14_alias_shape_counterexample_collision :
    let h : Hdr := { name := "F", tags := [("aalias", "v1"), ("aaliasalias", "v2")] }
    "a" ∈ ["a", "aalias"] ∧ tagGet h.tags ("a" ++ "alias") = some "v1" ∧
    ∃ hp hal, aliasMangle ["a", "aalias"] h Ty.dur = .ok [(hp, Ty.dur), (hal, Ty.dur)] ∧
      tagGet hal.tags ("a" ++ "alias") = some "v2" := by
  refine ⟨by decide, by decide, _, _, rfl, by decide⟩

/-- counterexample (2) to the original `C14_alias_shape`: `tag = "dialsdesc"` (the tag list is
duplicate-free and collision-free); the value found is `"y (alias of dialsdesc=x)"` (`#eval`) -/
theorem C14_alias_shape_counterexample_dialsdesc :
    let h : Hdr := { name := "F", tags := [("dialsdesc", "x"), ("dialsdescalias", "y")] }
    ["dialsdesc"].Nodup ∧ (∀ t1 ∈ ["dialsdesc"], ∀ t2 ∈ ["dialsdesc"], t1 ++ "alias" ≠ t2) ∧
    tagGet h.tags ("dialsdesc" ++ "alias") = some "y" ∧
    ∃ hp hal, aliasMangle ["dialsdesc"] h Ty.dur = .ok [(hp, Ty.dur), (hal, Ty.dur)] ∧
      tagGet hal.tags "dialsdesc" ≠ some "y" := by
  refine ⟨by decide, by decide, by decide, _, _, rfl, ?_⟩
  show tagGet (tagSet _ "dialsdesc" _) "dialsdesc" ≠ some "y"
  rw [tagGet_tagSet_self]
  intro e
  injection e with e
  have := congrArg String.length e
  simp only [String.length_append] at this
  have h1 : " (alias of ".length = 11 := by decide
  have h2 : "y".length = 1 := by decide
  omega

/-- the original `C14_alias_shape` is refuted (by counterexample (1)) -/
theorem C14_alias_shape_original_false :
    ¬ (∀ (tags : List String) (h : Hdr) (t : Ty) (tag a : String)
        (_ : tag ∈ tags) (_ : tagGet h.tags (tag ++ "alias") = some a),
        ∃ hp hal, aliasMangle tags h t = .ok [(hp, t), (hal, t)] ∧
          hp.name = h.name ∧ hal.name = h.name ++ aliasFieldSuffix ∧ hal.name ≠ hp.name ∧
          tagGet hp.tags (tag ++ "alias") = none ∧ tagGet hal.tags (tag ++ "alias") = none ∧
          (tags.Nodup → (∀ t1 ∈ tags, ∀ t2 ∈ tags, t1 ++ "alias" ≠ t2) → tagGet hal.tags tag = some a)) := by
  intro H
  obtain ⟨hp, hal, heq, _, _, _, _, h6, _⟩ :=
    H ["a", "aalias"] { name := "F", tags := [("aalias", "v1"), ("aaliasalias", "v2")] } Ty.dur "a" "v1"
      (by decide) (by decide)
  obtain ⟨_, _, hp', hal', heq', h6'⟩ := C14_alias_shape_counterexample_collision
  rw [heq'] at heq
  injection heq with heq
  injection heq with _ heq
  injection heq with heq _
  injection heq with heq _
  rw [← heq, h6'] at h6
  cases h6

/-- the tag lists of the regenerated env / flag / pflag chains (F12) are duplicate-free,
collision-free and do not contain `dialsdesc`: all hypotheses of `C14_alias_shape_partial` hold for
every one of their tags. -/
theorem C14_chain_tags_ok :
    ∀ tags ∈ [["dials", "dialsenv"], ["dials", "dialsflag"], ["dials", "dialspflag", "dialspflagshort"]],
      tags.Nodup ∧ (∀ t1 ∈ tags, ∀ t2 ∈ tags, t1 ++ "alias" ≠ t2) ∧ "dialsdesc" ∉ tags := by
  decide

/-- The four patterns, independent of the field's type and of every other field: primary only, alias
only, neither, both.  "Set" is `isUnsetAt t · = false`: non-nil for the nillable kinds (every field of a
pointerified config type, see `C14_patterns_nillable`), non-zero for the non-pointerified fields of
collection elements. -/
theorem C14_patterns (h : Hdr) (t : Ty) (fp fa : FT) (vp va : Val) :
    (isUnsetAt t vp = false → isUnsetAt t va = true → aliasUnmangle h t [(fp, vp), (fa, va)] = .ok vp) ∧
    (isUnsetAt t vp = true → isUnsetAt t va = false → aliasUnmangle h t [(fp, vp), (fa, va)] = .ok va) ∧
    (isUnsetAt t vp = true → isUnsetAt t va = true → aliasUnmangle h t [(fp, vp), (fa, va)] = .ok vp) ∧
    (isUnsetAt t vp = false → isUnsetAt t va = false →
      aliasUnmangle h t [(fp, vp), (fa, va)] = .err ("both alias and original set for field " ++ h.name)) := by
  refine ⟨?_, ?_, ?_, ?_⟩ <;> intro h1 h2 <;> simp [aliasUnmangle, h1, h2]

/-- the same four patterns on a pointer / slice / map / set typed field, where "set" is "non-nil" -/
theorem C14_patterns_nillable (h : Hdr) (t : Ty) (fp fa : FT) (vp va : Val)
    (ht : (∃ e, t = .ptr e) ∨ (∃ e, t = .slice e) ∨ (∃ k e, t = .map k e) ∨ (∃ k, t = .set k)) :
    (vp.isNil = false → va.isNil = true → aliasUnmangle h t [(fp, vp), (fa, va)] = .ok vp) ∧
    (vp.isNil = true → va.isNil = false → aliasUnmangle h t [(fp, vp), (fa, va)] = .ok va) ∧
    (vp.isNil = true → va.isNil = true → aliasUnmangle h t [(fp, vp), (fa, va)] = .ok vp) ∧
    (vp.isNil = false → va.isNil = false →
      aliasUnmangle h t [(fp, vp), (fa, va)] = .err ("both alias and original set for field " ++ h.name)) := by
  have hu : ∀ v, isUnsetAt t v = v.isNil := by
    intro v
    rcases ht with ⟨e, rfl⟩ | ⟨e, rfl⟩ | ⟨k, e, rfl⟩ | ⟨k, rfl⟩
    · exact isUnsetAt_ptr e v
    · exact isUnsetAt_slice e v
    · exact isUnsetAt_map k e v
    · exact isUnsetAt_set k v
  have := C14_patterns h t fp fa vp va
  simpa only [hu] using this

/-- An explicitly EMPTY collection is a supplied value like any other (it is not nil): under the primary name
alone or the alias name alone the field becomes the empty collection, and next to a value under the other name it
is the "both" error.  (The recursive pass hands the empty list on as an empty list: `C10_recurse_empty_list`.) -/
theorem C14_empty_collection_is_supplied (h : Hdr) (e : Ty) (fp fa : FT) (v : Val) (hv : v.isNil = false) :
    aliasUnmangle h (.slice e) [(fp, .list []), (fa, .nilv)] = .ok (.list []) ∧
    aliasUnmangle h (.slice e) [(fp, .nilv), (fa, .list [])] = .ok (.list []) ∧
    aliasUnmangle h (.slice e) [(fp, .list []), (fa, v)] = .err ("both alias and original set for field " ++ h.name) ∧
    aliasUnmangle h (.slice e) [(fp, v), (fa, .list [])] = .err ("both alias and original set for field " ++ h.name) := by
  have hp := C14_patterns_nillable h (.slice e) fp fa
  refine ⟨?_, ?_, ?_, ?_⟩
  · exact (hp (.list []) .nilv (Or.inr (Or.inl ⟨e, rfl⟩))).1 rfl rfl
  · exact (hp .nilv (.list []) (Or.inr (Or.inl ⟨e, rfl⟩))).2.1 rfl rfl
  · exact (hp (.list []) v (Or.inr (Or.inl ⟨e, rfl⟩))).2.2.2 rfl hv
  · exact (hp v (.list []) (Or.inr (Or.inl ⟨e, rfl⟩))).2.2.2 hv rfl

/-- A field without alias passes its single value through. -/
theorem C14_single (h : Hdr) (t : Ty) (f : FT) (v : Val) : aliasUnmangle h t [(f, v)] = .ok v := by
  rfl

/-- regenerated chains (F12): the alias mangler comes first in the env, flag and pflag chains, so it
sees (and recurses into) the original nested types: aliases work at any depth. -/
theorem C14_alias_first :
    (Facts.chainEnv.head? = some ["alias", "dials", "dialsenv"]) ∧
    (Facts.chainFlag.head? = some ["alias", "dials", "dialsflag"]) ∧
    (Facts.chainPFlag.head? = some ["alias", "dials", "dialspflag", "dialspflagshort"]) ∧
    (aliasMangler ["dials"]).recurse = true := by
  refine ⟨rfl, rfl, rfl, rfl⟩

end Dials.C14
