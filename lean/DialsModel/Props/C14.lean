/-
C14 — Aliases: either name sets the field, both together are an error.

Property theorems only (helper lemmas live in Lemmas/EnvAlias.lean and Lemmas/AliasDepth.lean).
-/
import DialsModel.Model.TfSpec
import DialsModel.Lemmas.EnvAlias
import DialsModel.Lemmas.AliasDepth

namespace Dials.C14
open Dials Dials.Tf

/-- A field without alias tags is left alone (one output, the field itself). -/
theorem C14_no_alias (tags : List String) (h : Hdr) (t : Ty)
    (hn : ∀ tag ∈ tags, tagGet h.tags (tag ++ "alias") = none) :
    aliasMangle tags h t = .ok [(h, t)] := by
  have hf : aliasFound tags h = [] := by
    cases hfd : aliasFound tags h with
    | nil => rfl
    | cons p f =>
      have hp : p ∈ aliasFound tags h := by rw [hfd]; exact List.mem_cons_self
      have := mem_aliasFound.1 hp
      rw [hn p.1 this.1] at this
      cases this.2
  rw [aliasMangle_eq, hf]
  rfl

/-
ORIGINAL STATEMENT (FALSE as written; kept verbatim):

theorem C14_alias_shape (tags : List String) (h : Hdr) (t : Ty) (tag a : String)
    (ht : tag ∈ tags) (ha : tagGet h.tags (tag ++ "alias") = some a) :
    ∃ hp hal, aliasMangle tags h t = .ok [(hp, t), (hal, t)] ∧
      hp.name = h.name ∧ hal.name = h.name ++ aliasFieldSuffix ∧ hal.name ≠ hp.name ∧
      tagGet hp.tags (tag ++ "alias") = none ∧ tagGet hal.tags (tag ++ "alias") = none ∧
      (tags.Nodup → (∀ t1 ∈ tags, ∀ t2 ∈ tags, t1 ++ "alias" ≠ t2) → tagGet hal.tags tag = some a)

Two conjuncts fail (machine-checked below as `C14_alias_shape_counterexample_collision` and
`C14_alias_shape_counterexample_dialsdesc`):

 (1) `tagGet hal.tags (tag ++ "alias") = none` is stated unconditionally, but a LATER tag of the
     list may be named exactly `tag ++ "alias"`; its own alias value is then written under that name.
     tags = ["a", "aalias"], h.tags = [("aalias","v1"), ("aaliasalias","v2")], tag = "a", a = "v1":
     the alias field has tags [("a","v1"), ("aalias","v2"), ("dialsdesc", …)], so
     `tagGet hal.tags "aalias" = some "v2"`.
     The conjunct needs the no-collision hypothesis that the original attaches only to the last one.

 (2) `tagGet hal.tags tag = some a` fails for `tag = "dialsdesc"`: the alias field's description is
     rewritten last ("… (alias of …)").
     tags = ["dialsdesc"], h.tags = [("dialsdesc","x"), ("dialsdescalias","y")], tag = "dialsdesc",
     a = "y": `tagGet hal.tags "dialsdesc" = some "y (alias of dialsdesc=x)"`.
     The conjunct needs `tag ≠ "dialsdesc"`.

Neither situation arises for the tag lists of the library's own chains (`C14_chain_tags_ok`).
-/

/-- A field with an alias tag becomes two fields of the same type: the primary (alias tags removed)
and the alias field, whose name is distinct from the primary's and whose tag `tag` carries the alias
value — so every later name derivation (flatten, reformat, env/flag naming) treats the alias exactly
like a primary name.

Differs from the original `C14_alias_shape` (false, see the comment above) in two places: the
absence of `tag ++ "alias"` on the alias field is stated under the no-collision hypothesis
`hnocoll` (no tag name of the list is another one's alias-tag name), and the last conjunct has the
extra hypothesis `hdesc : tag ≠ "dialsdesc"`.  Everything else is verbatim.

The alias field additionally loses every source-specific name tag without an alias of its own
(`C14_alias_drops_unaliased`); an aliased tag is never among those, so the last conjunct stands.

Two further conjuncts (at the end) since the repair of P10: the primary keeps the field's embeddedness
(`hp.anon = h.anon`) and the alias copy is NEVER embedded (`hal.anon = false`, `aliasField.Anonymous =
false`) — the alias copy of an embedded struct is an ordinary named field `Base_alias…`, so the manglers
that hoist embedded fields (flatten, anonymous flatten) no longer produce every promoted name twice. -/
theorem C14_alias_shape_partial (tags : List String) (h : Hdr) (t : Ty) (tag a : String)
    (ht : tag ∈ tags) (ha : tagGet h.tags (tag ++ "alias") = some a) :
    ∃ hp hal, aliasMangle tags h t = .ok [(hp, t), (hal, t)] ∧
      hp.name = h.name ∧ hal.name = h.name ++ aliasFieldSuffix ∧ hal.name ≠ hp.name ∧
      tagGet hp.tags (tag ++ "alias") = none ∧
      ((hnocoll : ∀ t1 ∈ tags, ∀ t2 ∈ tags, t1 ++ "alias" ≠ t2) → tagGet hal.tags (tag ++ "alias") = none) ∧
      (tags.Nodup → (hnocoll : ∀ t1 ∈ tags, ∀ t2 ∈ tags, t1 ++ "alias" ≠ t2) → (hdesc : tag ≠ "dialsdesc") →
        tagGet hal.tags tag = some a) ∧
      hp.anon = h.anon ∧ hal.anon = false := by
  have hmem : (tag, a) ∈ aliasFound tags h := mem_aliasFound.2 ⟨ht, ha⟩
  have hne : (aliasFound tags h).isEmpty = false := by
    cases hfd : aliasFound tags h with
    | nil => rw [hfd] at hmem; cases hmem
    | cons p f => rfl
  rw [aliasMangle_eq, hne]
  refine ⟨_, _, rfl, rfl, rfl, ?_, ?_, ?_, ?_, rfl, rfl⟩
  · exact append_suffix_ne h.name aliasFieldSuffix (by decide)
  · exact tagGet_delFold_none _ _ _ (Or.inr ⟨(tag, a), hmem, rfl⟩)
  · intro hnocoll
    show tagGet (tagSet _ "dialsdesc" _) (tag ++ "alias") = none
    rw [tagGet_tagSet_ne _ _ _ _ (dialsdesc_ne_alias tag)]
    apply tagGet_dropFold_none
    exact tagGet_setFold_none _ _ _
      (fun p hp => Ne.symm (hnocoll tag ht p.1 (mem_aliasFound.1 hp).1))
      (Or.inr ⟨(tag, a), hmem, rfl⟩)
  · intro hnd hnocoll hdesc
    show tagGet (tagSet _ "dialsdesc" _) tag = some a
    rw [tagGet_tagSet_ne _ _ _ _ hdesc]
    -- an aliased tag is never dropped from the alias field
    show tagGet (dropFold _ _ _) tag = some a
    rw [tagGet_dropFold_keep _ _ _ _ (fun _ => aliasFound_any_of_mem hmem)]
    exact tagGet_setFold_tag _ _ tag a hmem (aliasFound_nodup tags h hnd)
      (fun p hp => hnocoll p.1 (mem_aliasFound.1 hp).1 tag ht)

/-- The alias copy is never embedded, the primary (and an un-aliased field) keeps its embeddedness — for
EVERY field and tag list, whatever `aliasMangle` returns (since the repair of P10; before, the alias copy
of an embedded field was embedded as well). -/
theorem C14_alias_copy_not_embedded (tags : List String) (h : Hdr) (t : Ty) (outs : List FT)
    (hm : aliasMangle tags h t = .ok outs) :
    (outs = [(h, t)]) ∨
    (∃ hp hal, outs = [(hp, t), (hal, t)] ∧ hp.anon = h.anon ∧ hal.anon = false ∧
      hp.name = h.name ∧ hal.name = h.name ++ aliasFieldSuffix) := by
  rw [aliasMangle_eq] at hm
  split at hm
  · cases hm; exact Or.inl rfl
  · cases hm; exact Or.inr ⟨_, _, rfl, rfl, rfl, rfl, rfl⟩

/-- on an EMBEDDED struct field with an alias tag (the shape of finding P10: an embedded `Base` tagged
`dialsalias:"old"`): the primary stays embedded, the alias copy `Base_alias9wr876rw3` is a named field -/
theorem C14_alias_embedded_example :
    let h : Hdr := { name := "Base", tags := [("dialsalias", "old")], anon := true }
    let t : Ty := .ptr (.struct (.cons "A" [] false (.ptr (.basic .bool false)) .nil))
    ∃ hp hal, aliasMangle ["dials", "dialsenv"] h t = .ok [(hp, t), (hal, t)] ∧
      hp.anon = true ∧ hal.anon = false ∧ hp.name = "Base" ∧ hal.name = "Base_alias9wr876rw3" ∧
      tagGet hal.tags "dials" = some "old" := by
  refine ⟨_, _, rfl, rfl, rfl, rfl, by decide, by decide⟩

/-- The alias field answers to the alias names only: a source-specific name tag `tag'` (any tag of the
list but the first, base, one) that has no alias of its own on this field is dropped from the alias
field, while the primary field keeps it (under the no-collision hypothesis, without which deleting
the alias tags could delete `tag'` itself).  `tag' ≠ "dialsdesc"` because the alias field's
description is rewritten last. -/
theorem C14_alias_drops_unaliased (tags : List String) (h : Hdr) (t : Ty) (tag a tag' : String)
    (ht : tag ∈ tags) (ha : tagGet h.tags (tag ++ "alias") = some a)
    (ht' : tag' ∈ tags.drop 1) (hna : tagGet h.tags (tag' ++ "alias") = none) (hdesc : tag' ≠ "dialsdesc") :
    ∃ hp hal, aliasMangle tags h t = .ok [(hp, t), (hal, t)] ∧
      tagGet hal.tags tag' = none ∧
      ((hnocoll : ∀ t1 ∈ tags, ∀ t2 ∈ tags, t1 ++ "alias" ≠ t2) → tagGet hp.tags tag' = tagGet h.tags tag') := by
  have hmem : (tag, a) ∈ aliasFound tags h := mem_aliasFound.2 ⟨ht, ha⟩
  have hne : (aliasFound tags h).isEmpty = false := by
    cases hfd : aliasFound tags h with
    | nil => rw [hfd] at hmem; cases hmem
    | cons p f => rfl
  rw [aliasMangle_eq, hne]
  refine ⟨_, _, rfl, ?_, ?_⟩
  · show tagGet (tagSet _ "dialsdesc" _) tag' = none
    rw [tagGet_tagSet_ne _ _ _ _ hdesc]
    exact tagGet_dropFold_drop _ _ _ tag' ht' (aliasFound_any_false tags h tag' hna)
  · intro hnocoll
    exact tagGet_delFold_other _ _ _
      (fun p hp => hnocoll p.1 (mem_aliasFound.1 hp).1 tag' (List.mem_of_mem_drop ht'))

/-- `C14_alias_drops_unaliased` on a concrete field of the env chain's tag list (its hypotheses are
satisfiable): `dials` has an alias, `dialsenv` has none, so the alias field has no `dialsenv` tag
while the primary field keeps its own -/
theorem C14_alias_drops_unaliased_example :
    let h : Hdr := { name := "F", tags := [("dials", "x"), ("dialsenv", "X"), ("dialsalias", "y")] }
    ∃ hp hal, aliasMangle ["dials", "dialsenv"] h Ty.dur = .ok [(hp, Ty.dur), (hal, Ty.dur)] ∧
      tagGet hal.tags "dials" = some "y" ∧ tagGet hal.tags "dialsenv" = none ∧
      tagGet hp.tags "dials" = some "x" ∧ tagGet hp.tags "dialsenv" = some "X" := by
  refine ⟨_, _, rfl, by decide, by decide, by decide, by decide⟩

/-- counterexample (1) to the original `C14_alias_shape`: a later tag named `tag ++ "alias"` -/
theorem C14_alias_shape_counterexample_collision :
    let h : Hdr := { name := "F", tags := [("aalias", "v1"), ("aaliasalias", "v2")] }
    "a" ∈ ["a", "aalias"] ∧ tagGet h.tags ("a" ++ "alias") = some "v1" ∧
    ∃ hp hal, aliasMangle ["a", "aalias"] h Ty.dur = .ok [(hp, Ty.dur), (hal, Ty.dur)] ∧
      tagGet hal.tags ("a" ++ "alias") = some "v2" := by
  refine ⟨by decide, by decide, _, _, rfl, by decide⟩

/-- counterexample (2) to the original `C14_alias_shape`: `tag = "dialsdesc"` (the tag list is
duplicate-free and collision-free); the value found is `"y (alias of dialsdesc=x)"` (`#eval`) -/
theorem C14_alias_shape_counterexample_dialsdesc :
    let h : Hdr := { name := "F", tags := [("dialsdesc", "x"), ("dialsdescalias", "y")] }
    ["dialsdesc"].Nodup ∧ (∀ t1 ∈ ["dialsdesc"], ∀ t2 ∈ ["dialsdesc"], t1 ++ "alias" ≠ t2) ∧
    tagGet h.tags ("dialsdesc" ++ "alias") = some "y" ∧
    ∃ hp hal, aliasMangle ["dialsdesc"] h Ty.dur = .ok [(hp, Ty.dur), (hal, Ty.dur)] ∧
      tagGet hal.tags "dialsdesc" ≠ some "y" := by
  refine ⟨by decide, by decide, by decide, _, _, rfl, ?_⟩
  show tagGet (tagSet _ "dialsdesc" _) "dialsdesc" ≠ some "y"
  rw [tagGet_tagSet_self]
  intro e
  injection e with e
  have := congrArg String.length e
  simp only [String.length_append] at this
  have h1 : " (alias of ".length = 11 := by decide
  have h2 : "y".length = 1 := by decide
  omega

/-- the original `C14_alias_shape` is refuted (by counterexample (1)) -/
theorem C14_alias_shape_original_false :
    ¬ (∀ (tags : List String) (h : Hdr) (t : Ty) (tag a : String)
        (_ : tag ∈ tags) (_ : tagGet h.tags (tag ++ "alias") = some a),
        ∃ hp hal, aliasMangle tags h t = .ok [(hp, t), (hal, t)] ∧
          hp.name = h.name ∧ hal.name = h.name ++ aliasFieldSuffix ∧ hal.name ≠ hp.name ∧
          tagGet hp.tags (tag ++ "alias") = none ∧ tagGet hal.tags (tag ++ "alias") = none ∧
          (tags.Nodup → (∀ t1 ∈ tags, ∀ t2 ∈ tags, t1 ++ "alias" ≠ t2) → tagGet hal.tags tag = some a)) := by
  intro H
  obtain ⟨hp, hal, heq, _, _, _, _, h6, _⟩ :=
    H ["a", "aalias"] { name := "F", tags := [("aalias", "v1"), ("aaliasalias", "v2")] } Ty.dur "a" "v1"
      (by decide) (by decide)
  obtain ⟨_, _, hp', hal', heq', h6'⟩ := C14_alias_shape_counterexample_collision
  rw [heq'] at heq
  injection heq with heq
  injection heq with _ heq
  injection heq with heq _
  injection heq with heq _
  rw [← heq, h6'] at h6
  cases h6

/-- the tag lists of the regenerated env / flag / pflag chains (F12) are duplicate-free,
collision-free and do not contain `dialsdesc`: all hypotheses of `C14_alias_shape_partial` hold for
every one of their tags. -/
theorem C14_chain_tags_ok :
    ∀ tags ∈ [["dials", "dialsenv"], ["dials", "dialsflag"], ["dials", "dialspflag", "dialspflagshort"]],
      tags.Nodup ∧ (∀ t1 ∈ tags, ∀ t2 ∈ tags, t1 ++ "alias" ≠ t2) ∧ "dialsdesc" ∉ tags := by
  decide

/-- The four patterns, independent of the field's type and of every other field: primary only, alias
only, neither, both.  "Set" is `isUnsetAt t · = false`: non-nil for the nillable kinds (every field of a
pointerified config type, see `C14_patterns_nillable`), non-zero for the non-pointerified fields of
collection elements. -/
theorem C14_patterns (h : Hdr) (t : Ty) (fp fa : FT) (vp va : Val) :
    (isUnsetAt t vp = false → isUnsetAt t va = true → aliasUnmangle h t [(fp, vp), (fa, va)] = .ok vp) ∧
    (isUnsetAt t vp = true → isUnsetAt t va = false → aliasUnmangle h t [(fp, vp), (fa, va)] = .ok va) ∧
    (isUnsetAt t vp = true → isUnsetAt t va = true → aliasUnmangle h t [(fp, vp), (fa, va)] = .ok vp) ∧
    (isUnsetAt t vp = false → isUnsetAt t va = false →
      aliasUnmangle h t [(fp, vp), (fa, va)] = .err ("both alias and original set for field " ++ h.name)) := by
  refine ⟨?_, ?_, ?_, ?_⟩ <;> intro h1 h2 <;> simp [aliasUnmangle, h1, h2]

/-- the same four patterns on a pointer / slice / map / set typed field, where "set" is "non-nil" -/
theorem C14_patterns_nillable (h : Hdr) (t : Ty) (fp fa : FT) (vp va : Val)
    (ht : (∃ e, t = .ptr e) ∨ (∃ e, t = .slice e) ∨ (∃ k e, t = .map k e) ∨ (∃ k, t = .set k)) :
    (vp.isNil = false → va.isNil = true → aliasUnmangle h t [(fp, vp), (fa, va)] = .ok vp) ∧
    (vp.isNil = true → va.isNil = false → aliasUnmangle h t [(fp, vp), (fa, va)] = .ok va) ∧
    (vp.isNil = true → va.isNil = true → aliasUnmangle h t [(fp, vp), (fa, va)] = .ok vp) ∧
    (vp.isNil = false → va.isNil = false →
      aliasUnmangle h t [(fp, vp), (fa, va)] = .err ("both alias and original set for field " ++ h.name)) := by
  have hu : ∀ v, isUnsetAt t v = v.isNil := by
    intro v
    rcases ht with ⟨e, rfl⟩ | ⟨e, rfl⟩ | ⟨k, e, rfl⟩ | ⟨k, rfl⟩
    · exact isUnsetAt_ptr e v
    · exact isUnsetAt_slice e v
    · exact isUnsetAt_map k e v
    · exact isUnsetAt_set k v
  have := C14_patterns h t fp fa vp va
  simpa only [hu] using this

/-- An explicitly EMPTY collection is a supplied value like any other (it is not nil): under the primary name
alone or the alias name alone the field becomes the empty collection, and next to a value under the other name it
is the "both" error.  (The recursive pass hands the empty list on as an empty list: `C10_recurse_empty_list`.) -/
theorem C14_empty_collection_is_supplied (h : Hdr) (e : Ty) (fp fa : FT) (v : Val) (hv : v.isNil = false) :
    aliasUnmangle h (.slice e) [(fp, .list []), (fa, .nilv)] = .ok (.list []) ∧
    aliasUnmangle h (.slice e) [(fp, .nilv), (fa, .list [])] = .ok (.list []) ∧
    aliasUnmangle h (.slice e) [(fp, .list []), (fa, v)] = .err ("both alias and original set for field " ++ h.name) ∧
    aliasUnmangle h (.slice e) [(fp, v), (fa, .list [])] = .err ("both alias and original set for field " ++ h.name) := by
  have hp := C14_patterns_nillable h (.slice e) fp fa
  refine ⟨?_, ?_, ?_, ?_⟩
  · exact (hp (.list []) .nilv (Or.inr (Or.inl ⟨e, rfl⟩))).1 rfl rfl
  · exact (hp .nilv (.list []) (Or.inr (Or.inl ⟨e, rfl⟩))).2.1 rfl rfl
  · exact (hp (.list []) v (Or.inr (Or.inl ⟨e, rfl⟩))).2.2.2 rfl hv
  · exact (hp v (.list []) (Or.inr (Or.inl ⟨e, rfl⟩))).2.2.2 hv rfl

/-- regenerated (F22): primary and alias variables are looked up by exact name through `os.LookupEnv`. -/
theorem C14_environment_is_a_lookup : 1 ≤ Facts.envLookupCalls ∧ Facts.envOtherReads = 0 := by
  decide

/-- regenerated (F14m): the alias copy of a field is a field of the translated type like any other, with a flag name of
its own; when that name (or the primary one) exists on the FlagSet already, registration is skipped but the name stays
mapped to its field, so the four patterns hold for the second `flag.Set` over one FlagSet as for the first. -/
theorem C14_existing_flag_still_maps : Facts.flagMapRecordedBeforeSkips = true := by
  decide

/-- regenerated (F12ez): ez wraps the file decoder in the alias mangler FIRST and appends the optional tag-reformatting
mangler (`Params.FileFieldNameEncoder`) after it, so the reformatting pass sees - and rewrites the `dials` tag of - both
copies of an aliased field: the alias is looked up in the file's naming convention exactly like the primary name. -/
theorem C14_ez_alias_before_reformat :
    Facts.ezFileChain.head? = some "alias" ∧ "reformat?" ∈ Facts.ezFileChain.tail := by
  decide

/-- A field without alias passes its single value through. -/
theorem C14_single (h : Hdr) (t : Ty) (f : FT) (v : Val) : aliasUnmangle h t [(f, v)] = .ok v := by
  rfl

/-- regenerated chains (F12): the alias mangler comes first in the env, flag and pflag chains, so it
sees (and recurses into) the original nested types: aliases work at any depth. -/
theorem C14_alias_first :
    (Facts.chainEnv.head? = some ["alias", "dials", "dialsenv"]) ∧
    (Facts.chainFlag.head? = some ["alias", "dials", "dialsflag"]) ∧
    (Facts.chainPFlag.head? = some ["alias", "dials", "dialspflag", "dialspflagshort"]) ∧
    (aliasMangler ["dials"]).recurse = true := by
  refine ⟨rfl, rfl, rfl, rfl⟩

/-! ### the four patterns inside a layer of fields and at any nesting depth

`unmangleLayer fuel (aliasMangler tags) fs vals` is ONE reverse pass of the alias mangler (ReverseTranslate's loop
with its running offset, recursing into struct-typed fields) over the layer of fields `fs`, on the values `vals` of
the layer's OUTPUT fields (an aliased field has two: primary, alias copy).  Vocabulary (Lemmas/AliasDepth.lean):
`NoAliasTag tags h` is the hypothesis of `C14_no_alias`; `Plain tags fs`: every field of `fs` satisfies it and has
no struct below it (`structish = none`); `aliasWidth tags f` is the number of output fields of `f` (2 if aliased,
else 1); `seqOut a b` runs `a` then `b` (the first failure wins) and appends the results; `mapOut g` maps a result
and keeps a failure.  The fuel is an artefact of the model's termination argument: every bound below is explicit. -/

/-- THE FOUR PATTERNS IN A LAYER WITH SIBLINGS.  An aliased leaf field `(h, t)` between fields without alias tags
and without structs below them: on the values `vpre ++ [vp, va] ++ vpost` (one per sibling, primary and alias copy
of the leaf) the reverse pass gives `vpre ++ [chosen] ++ vpost` — `chosen` as in `C14_patterns` — in the three
patterns primary-only / alias-only / neither, and the error naming the field when both are set.  For the library:
the siblings' values pass through untouched and do not influence the aliased field's outcome, whichever of them
are set.  (Fuel `≥ 2`: one for the layer, one for the look at each output field's type.) -/
theorem C14_layer_patterns (tags : List String) (fuel : Nat) (pre post : List FT) (h : Hdr) (t : Ty)
    (tag a : String) (vpre vpost : List Val) (vp va : Val)
    (hpre : Plain tags pre) (hpost : Plain tags post)
    (ht : tag ∈ tags) (ha : tagGet h.tags (tag ++ "alias") = some a) (hst : structish t = none)
    (hlpre : vpre.length = pre.length) (hlpost : vpost.length = post.length) :
    let run := unmangleLayer (fuel + 2) (aliasMangler tags) (pre ++ [(h, t)] ++ post) (vpre ++ [vp, va] ++ vpost)
    (isUnsetAt t vp = false → isUnsetAt t va = true → run = .ok (vpre ++ [vp] ++ vpost)) ∧
    (isUnsetAt t vp = true → isUnsetAt t va = false → run = .ok (vpre ++ [va] ++ vpost)) ∧
    (isUnsetAt t vp = true → isUnsetAt t va = true → run = .ok (vpre ++ [vp] ++ vpost)) ∧
    (isUnsetAt t vp = false → isUnsetAt t va = false →
      run = .err ("both alias and original set for field " ++ h.name)) :=
  alias_patterns_of_eq (fun c => vpre ++ [c] ++ vpost) h t (h, t) (h, t) vp va _
    (unmangleLayer_alias_leaf_framed tags fuel pre post h t vpre vpost vp va (h, t) (h, t) hpre hpost
      (isAliased_of_tag ht ha) hst hlpre hlpost)

/-- SIBLING INDEPENDENCE, for ARBITRARY siblings (aliased themselves or not, structs below them or not): the
reverse pass over `pre ++ [(h, t)] ++ post` is the pass over `pre` on the values of `pre`'s outputs, then
`aliasUnmangle` on the leaf's two values, then the pass over `post` on the remaining values — three independent
computations in sequence.  The only hypothesis on the values is positional: `vpre` has one value per output field
of `pre`.  For the library: what a field's sibling holds never changes which of primary / alias wins. -/
theorem C14_layer_siblings_independent (tags : List String) (fuel : Nat) (pre post : List FT) (h : Hdr) (t : Ty)
    (tag a : String) (vpre vpost : List Val) (vp va : Val) (fp fa : FT)
    (ht : tag ∈ tags) (ha : tagGet h.tags (tag ++ "alias") = some a) (hst : structish t = none)
    (hlpre : vpre.length = (pre.map (aliasWidth tags)).sum) :
    unmangleLayer (fuel + 2) (aliasMangler tags) (pre ++ [(h, t)] ++ post) (vpre ++ [vp, va] ++ vpost) =
      seqOut (unmangleLayer (fuel + 2) (aliasMangler tags) pre vpre)
        (seqOut (mapOut (fun c => [c]) (aliasUnmangle h t [(fp, vp), (fa, va)]))
          (unmangleLayer (fuel + 2) (aliasMangler tags) post vpost)) :=
  unmangleLayer_alias_leaf_between tags fuel pre post h t vpre vpost vp va fp fa (isAliased_of_tag ht ha) hst hlpre

/-- the four patterns between ARBITRARY siblings whose own reverse passes succeed (with results `rpre`, `rpost`);
for the "both" error the fields after the leaf do not matter at all (the pass stops at the first failure) -/
theorem C14_layer_patterns_any_siblings (tags : List String) (fuel : Nat) (pre post : List FT) (h : Hdr) (t : Ty)
    (tag a : String) (vpre vpost rpre : List Val) (vp va : Val)
    (ht : tag ∈ tags) (ha : tagGet h.tags (tag ++ "alias") = some a) (hst : structish t = none)
    (hlpre : vpre.length = (pre.map (aliasWidth tags)).sum)
    (hrpre : unmangleLayer (fuel + 2) (aliasMangler tags) pre vpre = .ok rpre) :
    let run := unmangleLayer (fuel + 2) (aliasMangler tags) (pre ++ [(h, t)] ++ post) (vpre ++ [vp, va] ++ vpost)
    (∀ rpost, unmangleLayer (fuel + 2) (aliasMangler tags) post vpost = .ok rpost →
      (isUnsetAt t vp = false → isUnsetAt t va = true → run = .ok (rpre ++ ([vp] ++ rpost))) ∧
      (isUnsetAt t vp = true → isUnsetAt t va = false → run = .ok (rpre ++ ([va] ++ rpost))) ∧
      (isUnsetAt t vp = true → isUnsetAt t va = true → run = .ok (rpre ++ ([vp] ++ rpost)))) ∧
    (isUnsetAt t vp = false → isUnsetAt t va = false →
      run = .err ("both alias and original set for field " ++ h.name)) := by
  intro run
  have e : run = _ := C14_layer_siblings_independent tags fuel pre post h t tag a vpre vpost vp va (h, t) (h, t)
    ht ha hst hlpre
  have hp := C14_patterns h t (h, t) (h, t) vp va
  rw [hrpre] at e
  refine ⟨fun rpost hrpost => ⟨?_, ?_, ?_⟩, ?_⟩
  · intro h1 h2; rw [e, hp.1 h1 h2, hrpost]; rfl
  · intro h1 h2; rw [e, hp.2.1 h1 h2, hrpost]; rfl
  · intro h1 h2; rw [e, hp.2.2.1 h1 h2, hrpost]; rfl
  · intro h1 h2; rw [e, hp.2.2.2 h1 h2]; rfl

/-- NESTING DEPTH IS IRRELEVANT, in general: let the reverse pass over a layer `I` on the values `vs` have the
outcome `R` (a result or a failure) for every fuel from `b` on, and let the forward pass over `I` succeed.  Nest `I`
below `Ls.length` struct-typed fields without alias tags — each held as `*struct`, struct by value, `[]struct` or
`[n]struct` (`Level.held`; for the collections the struct is the one element), each between plain siblings with
arbitrary values (`nestLayer Ls I` is the top layer of that type, `nestVals Ls vs` its values).  Then the reverse
pass over the top layer has the outcome `R` again: the same failure, or the result nested the same way, the
siblings' values at every level untouched.  Fuel: `2` per level on top of `b`. -/
theorem C14_depth_independent (tags : List String) (I : List FT) (vs : List Val) (R : Outcome (List Val)) (b : Nat)
    (hI : ∀ f, b ≤ f → unmangleLayer f (aliasMangler tags) I vs = R)
    (hM : ∀ f, b ≤ f → ∃ r, mangleLayer f (aliasMangler tags) I = .ok r)
    (Ls : List Level) (hLs : ∀ L ∈ Ls, L.WF tags) (fuel : Nat) (hfuel : 2 * Ls.length + b ≤ fuel) :
    unmangleLayer fuel (aliasMangler tags) (nestLayer Ls I) (nestVals Ls vs) = mapOut (nestVals Ls) R :=
  (nest_lift tags I vs R b hI hM Ls hLs fuel hfuel).1

/-- THE FOUR PATTERNS AT ANY DEPTH.  The layer `pre ++ [(h, t)] ++ post` of `C14_layer_patterns` nested below
`Ls.length` levels (see `C14_depth_independent`; any mix of `*struct`, struct, `[]struct`, `[n]struct` levels, plain
siblings with arbitrary values at every level): the reverse pass over the TOP layer, on the nested values whose
innermost struct holds `vpre ++ [vp, va] ++ vpost`, gives the nested values whose innermost struct holds
`vpre ++ [chosen] ++ vpost` in the three non-error patterns, and the error naming the field when both are set —
for every fuel `≥ 2 * Ls.length + 2`.  For the library: an alias works the same at every nesting depth, whatever
else is set on the way down. -/
theorem C14_patterns_at_depth (tags : List String) (Ls : List Level) (pre post : List FT) (h : Hdr) (t : Ty)
    (tag a : String) (vpre vpost : List Val) (vp va : Val)
    (hLs : ∀ L ∈ Ls, L.WF tags) (hpre : Plain tags pre) (hpost : Plain tags post)
    (ht : tag ∈ tags) (ha : tagGet h.tags (tag ++ "alias") = some a) (hst : structish t = none)
    (hlpre : vpre.length = pre.length) (hlpost : vpost.length = post.length)
    (fuel : Nat) (hfuel : 2 * Ls.length + 2 ≤ fuel) :
    let run := unmangleLayer fuel (aliasMangler tags) (nestLayer Ls (pre ++ [(h, t)] ++ post))
      (nestVals Ls (vpre ++ [vp, va] ++ vpost))
    (isUnsetAt t vp = false → isUnsetAt t va = true → run = .ok (nestVals Ls (vpre ++ [vp] ++ vpost))) ∧
    (isUnsetAt t vp = true → isUnsetAt t va = false → run = .ok (nestVals Ls (vpre ++ [va] ++ vpost))) ∧
    (isUnsetAt t vp = true → isUnsetAt t va = true → run = .ok (nestVals Ls (vpre ++ [vp] ++ vpost))) ∧
    (isUnsetAt t vp = false → isUnsetAt t va = false →
      run = .err ("both alias and original set for field " ++ h.name)) :=
  alias_patterns_of_eq (fun c => nestVals Ls (vpre ++ [c] ++ vpost)) h t (h, t) (h, t) vp va _
    (unmangleLayer_alias_leaf_nested tags Ls pre post h t vpre vpost vp va (h, t) (h, t) hLs hpre hpost
      (isAliased_of_tag ht ha) hst hlpre hlpost fuel hfuel)

/-- `C14_patterns_at_depth` spelled out for the shape Pointerify produces, a chain of lone pointer-to-struct
fields `H0 :: Hs` without alias tags: `nestTy Hs inner` is `struct { H₁ *struct { H₂ *struct { … inner } } }`,
`nestVal n vs` the struct value of that type whose innermost struct holds `vs`.  The top layer is the one field
`H0 *nestTy Hs …`; fuel `≥ 2 * Hs.length + 4` (`Hs.length + 1` levels). -/
theorem C14_patterns_at_depth_ptr_chain (tags : List String) (H0 : Hdr) (Hs : List Hdr) (pre post : List FT)
    (h : Hdr) (t : Ty) (tag a : String) (vpre vpost : List Val) (vp va : Val)
    (hHs : ∀ H ∈ H0 :: Hs, NoAliasTag tags H) (hpre : Plain tags pre) (hpost : Plain tags post)
    (ht : tag ∈ tags) (ha : tagGet h.tags (tag ++ "alias") = some a) (hst : structish t = none)
    (hlpre : vpre.length = pre.length) (hlpost : vpost.length = post.length)
    (fuel : Nat) (hfuel : 2 * Hs.length + 4 ≤ fuel) :
    let run := unmangleLayer fuel (aliasMangler tags) [(H0, .ptr (nestTy Hs (pre ++ [(h, t)] ++ post)))]
      [.ptr (nestVal Hs.length (vpre ++ [vp, va] ++ vpost))]
    (isUnsetAt t vp = false → isUnsetAt t va = true →
      run = .ok [.ptr (nestVal Hs.length (vpre ++ [vp] ++ vpost))]) ∧
    (isUnsetAt t vp = true → isUnsetAt t va = false →
      run = .ok [.ptr (nestVal Hs.length (vpre ++ [va] ++ vpost))]) ∧
    (isUnsetAt t vp = true → isUnsetAt t va = true →
      run = .ok [.ptr (nestVal Hs.length (vpre ++ [vp] ++ vpost))]) ∧
    (isUnsetAt t vp = false → isUnsetAt t va = false →
      run = .err ("both alias and original set for field " ++ h.name)) := by
  have hwf : ∀ L ∈ (H0 :: Hs).map ptrLevel, L.WF tags := by
    intro L hL
    obtain ⟨H, hH, rfl⟩ := List.mem_map.1 hL
    exact ptrLevel_WF (hHs H hH)
  have := C14_patterns_at_depth tags ((H0 :: Hs).map ptrLevel) pre post h t tag a vpre vpost vp va hwf hpre hpost
    ht ha hst hlpre hlpost fuel (by simp; omega)
  simpa only [nestLayer_ptrChain, nestVals_ptrChain] using this

/-- A NIL POINTER (or nil slice) AT ANY LEVEL comes back nil: the struct-typed field `L.hdr` (held as `*struct` or
`[]struct`) is nil, `Ls.length` levels deep, above the `Ls'.length` further levels that lead to the aliased leaf's
layer — the reverse pass hands every value back as it was (nothing below a nil pointer is visited; the siblings
pass through). -/
theorem C14_nil_at_depth (tags : List String) (Ls Ls' : List Level) (L : Level) (pre post : List FT) (h : Hdr)
    (t : Ty) (hLs : ∀ L' ∈ Ls, L'.WF tags) (hL : L.WF tags) (hLs' : ∀ L' ∈ Ls', L'.WF tags)
    (hw : L.held = .ptr ∨ L.held = .slice)
    (hpre : Plain tags pre) (hpost : Plain tags post) (hst : structish t = none)
    (fuel : Nat) (hfuel : 2 * (Ls.length + 1 + Ls'.length) + 2 ≤ fuel) :
    unmangleLayer fuel (aliasMangler tags) (nestLayer (Ls ++ L :: Ls') (pre ++ [(h, t)] ++ post))
        (nestVals Ls (L.vpre ++ [.nilv] ++ L.vpost)) =
      .ok (nestVals Ls (L.vpre ++ [.nilv] ++ L.vpost)) := by
  rw [nestLayer_append]
  refine unmangleLayer_nil_nested tags Ls L (nestLayer Ls' (pre ++ [(h, t)] ++ post)) (2 * Ls'.length + 2)
    hLs hL hw ?_ fuel (by omega)
  intro f hf
  exact mangleLayer_nest_ok tags (pre ++ [(h, t)] ++ post) 2
    (fun f' hf' => by
      obtain ⟨k, rfl⟩ : ∃ k, f' = k + 2 := ⟨f' - 2, by omega⟩
      exact mangleLayer_alias_leaf_framed_ok tags k pre post h t hpre hpost hst)
    Ls' hLs' f hf

/-- A NIL POINTER ABOVE ANY TYPE: as `C14_nil_at_depth`, with an ARBITRARY layer `below` under the nil pointer
(aliased fields, further structs, collections, anything); `b` bounds twice the size of its field types (the fuel
the forward pass needs to look at the type once). -/
theorem C14_nil_at_depth_any_type (tags : List String) (Ls : List Level) (L : Level) (below : List FT) (b : Nat)
    (hLs : ∀ L' ∈ Ls, L'.WF tags) (hL : L.WF tags) (hw : L.held = .ptr ∨ L.held = .slice)
    (hb1 : 1 ≤ b) (hb : ∀ f ∈ below, 2 * tySize f.2 + 1 ≤ b)
    (fuel : Nat) (hfuel : 2 * Ls.length + (b + 2) ≤ fuel) :
    unmangleLayer fuel (aliasMangler tags)
        (nestLayer Ls (L.pre ++ [(L.hdr, L.held.ty (Fields.ofList below))] ++ L.post))
        (nestVals Ls (L.vpre ++ [.nilv] ++ L.vpost)) =
      .ok (nestVals Ls (L.vpre ++ [.nilv] ++ L.vpost)) :=
  unmangleLayer_nil_nested tags Ls L below b hLs hL hw
    (fun f hf => mangleLayer_alias_total tags below f (by omega) (fun g hg => by have := hb g hg; omega))
    fuel hfuel

/-- THE ELEMENTS OF A COLLECTION ARE INDEPENDENT: for a field `H` (no alias tags) of type `[]struct{I}` or
`[n]struct{I}` holding the struct values `vss`, the reverse pass is the reverse pass over the element layer `I`
on each element's values in turn — the first failing element decides the failure, otherwise the results are
collected in order.  With `C14_layer_patterns` / `C14_patterns_at_depth` for `I`: an aliased field of an element
struct resolves per element, whatever the other elements hold.  (`j`: the fuel of the element passes; it also
covers one look at the element type: above twice the size of its field types.) -/
theorem C14_collection_elements_independent (tags : List String) (j : Nat) (H : Hdr) (w : Held) (I : List FT)
    (vss : List (List Val)) (hn : NoAliasTag tags H) (hw : w = .slice ∨ ∃ n, w = .array n)
    (hj1 : 1 ≤ j) (hj : ∀ f ∈ I, 2 * tySize f.2 + 1 ≤ j) :
    unmangleLayer (j + 2) (aliasMangler tags) [(H, w.ty (Fields.ofList I))] [.list (vss.map Val.struct)] =
      mapOut (fun rs => [.list (rs.map Val.struct)]) (mapM' (unmangleLayer j (aliasMangler tags) I) vss) := by
  rw [unmangleLayer_noalias_single tags (j + 1) _ _ _ hn, recurseVal_collection tags j H w I vss hw]
  obtain ⟨o', ho'⟩ := recurseType_wrap_ok tags j H w I (mangleLayer_alias_total tags I j hj1 hj)
  rw [ho']
  cases mapM' (unmangleLayer j (aliasMangler tags) I) vss <;> rfl

/-! #### non-vacuity: a concrete type with the aliased leaf two levels down -/
namespace Ex2

def tags : List String := ["dials", "dialsenv"]
def strP : Ty := .ptr (.basic .str false)

/-- `Host *string` -/
def host : FT := ({ name := "Host", tags := [("dials", "host")] }, strP)
/-- `Port *string` with `dials:"port" dialsalias:"oldport"` -/
def portH : Hdr := { name := "Port", tags := [("dials", "port"), ("dialsalias", "oldport")] }
/-- `Debug *bool` -/
def debug : FT := ({ name := "Debug", tags := [] }, .ptr (.basic .bool false))

/-- outer level: `Name *string; Server *struct{…}` -/
def L0 : Level :=
  { pre := [({ name := "Name", tags := [] }, strP)], hdr := { name := "Server", tags := [("dials", "server")] },
    held := .ptr, post := [], vpre := [.ptr (.s "n")], vpost := [] }
/-- inner level: `Listen *struct{…}; Timeout *time.Duration` -/
def L1 : Level :=
  { pre := [], hdr := { name := "Listen", tags := [] }, held := .ptr,
    post := [({ name := "Timeout", tags := [("dialsenv", "TIMEOUT")] }, .ptr .dur)], vpre := [], vpost := [.nilv] }

/-- the top layer: `Name *string; Server *struct{ Listen *struct{ Host; Port (aliased); Debug }; Timeout }` -/
theorem top_layer :
    nestLayer [L0, L1] ([host] ++ [(portH, strP)] ++ [debug]) =
      [({ name := "Name", tags := [] }, strP),
       ({ name := "Server", tags := [("dials", "server")] },
        .ptr (.struct (Fields.ofList
          [({ name := "Listen", tags := [] },
            .ptr (.struct (Fields.ofList [host, (portH, strP), debug]))),
           ({ name := "Timeout", tags := [("dialsenv", "TIMEOUT")] }, .ptr .dur)])))] := rfl

/-- the top layer's values with `vp`, `va` for the primary and alias copy of `Port` -/
def vals (vp va : Val) : List Val := nestVals [L0, L1] ([.ptr (.s "h")] ++ [vp, va] ++ [.nilv])
/-- … and with the single value `c` for `Port` -/
def res (c : Val) : List Val := nestVals [L0, L1] ([.ptr (.s "h")] ++ [c] ++ [.nilv])

theorem vals_eq (vp va : Val) :
    vals vp va = [.ptr (.s "n"), .ptr (.struct [.ptr (.struct [.ptr (.s "h"), vp, va, .nilv]), .nilv])] := rfl

/-- every hypothesis of `C14_patterns_at_depth` holds -/
theorem hyps :
    (∀ L ∈ [L0, L1], L.WF tags) ∧ Plain tags [host] ∧ Plain tags [debug] ∧ "dials" ∈ tags ∧
    tagGet portH.tags ("dials" ++ "alias") = some "oldport" ∧ structish strP = none := by
  have hp : ∀ (f : FT), NoAliasTag tags f.1 → structish f.2 = none → Plain tags [f] := by
    intro f h1 h2 g hg
    simp only [List.mem_singleton] at hg
    subst hg
    exact ⟨h1, h2⟩
  refine ⟨?_, hp _ (by unfold NoAliasTag; decide) rfl, hp _ (by unfold NoAliasTag; decide) rfl,
    by decide, by decide, rfl⟩
  intro L hL
  simp only [List.mem_cons, List.not_mem_nil, or_false] at hL
  rcases hL with rfl | rfl
  · exact ⟨hp _ (by unfold NoAliasTag; decide) rfl, fun _ h => (by cases h), by unfold NoAliasTag; decide, rfl, rfl⟩
  · exact ⟨fun _ h => (by cases h), hp _ (by unfold NoAliasTag; decide) rfl, by unfold NoAliasTag; decide, rfl, rfl⟩

/-- `C14_patterns_at_depth` on this type: fuel `6 = 2 * 2 + 2` -/
theorem patterns (vp va : Val) :
    let run := unmangleLayer 6 (aliasMangler tags) (nestLayer [L0, L1] ([host] ++ [(portH, strP)] ++ [debug]))
      (vals vp va)
    (isUnsetAt strP vp = false → isUnsetAt strP va = true → run = .ok (res vp)) ∧
    (isUnsetAt strP vp = true → isUnsetAt strP va = false → run = .ok (res va)) ∧
    (isUnsetAt strP vp = true → isUnsetAt strP va = true → run = .ok (res vp)) ∧
    (isUnsetAt strP vp = false → isUnsetAt strP va = false →
      run = .err ("both alias and original set for field " ++ portH.name)) :=
  C14_patterns_at_depth tags [L0, L1] [host] [debug] portH strP "dials" "oldport" [.ptr (.s "h")] [.nilv] vp va
    hyps.1 hyps.2.1 hyps.2.2.1 hyps.2.2.2.1 hyps.2.2.2.2.1 hyps.2.2.2.2.2 rfl rfl 6 (by decide)

/-- the same four patterns by plain evaluation of the model (no theorem involved) -/
theorem computed :
    let run := fun vp va => unmangleLayer 6 (aliasMangler tags)
      (nestLayer [L0, L1] ([host] ++ [(portH, strP)] ++ [debug])) (vals vp va)
    run (.ptr (.s "8080")) .nilv = .ok (res (.ptr (.s "8080"))) ∧
    run .nilv (.ptr (.s "80")) = .ok (res (.ptr (.s "80"))) ∧
    run .nilv .nilv = .ok (res .nilv) ∧
    run (.ptr (.s "8080")) (.ptr (.s "80")) = .err "both alias and original set for field Port" :=
  ⟨rfl, rfl, rfl, rfl⟩

/-- the fuel bound `2 * Ls.length + 2` is sharp here: one less and the model runs out of fuel -/
theorem fuel_sharp :
    unmangleLayer 5 (aliasMangler tags) (nestLayer [L0, L1] ([host] ++ [(portH, strP)] ++ [debug]))
      (vals (.ptr (.s "8080")) .nilv) = .err "fuel" := rfl

/-- … and so is the `fuel + 2` of `C14_layer_patterns`: with fuel `1` the bare layer runs out of fuel -/
theorem layer_fuel_sharp :
    unmangleLayer 1 (aliasMangler tags) ([host] ++ [(portH, strP)] ++ [debug])
      ([.ptr (.s "h")] ++ [.ptr (.s "8080"), .nilv] ++ [.nilv]) = .err "fuel" := rfl

/-- a nil `Server` pointer comes back nil (`C14_nil_at_depth`: `Ls = []`, `L = L0`, `Ls' = [L1]`) -/
theorem nil_server :
    unmangleLayer 6 (aliasMangler tags) (nestLayer [L0, L1] ([host] ++ [(portH, strP)] ++ [debug]))
      [.ptr (.s "n"), .nilv] = .ok [.ptr (.s "n"), .nilv] :=
  C14_nil_at_depth tags [] [L1] L0 [host] [debug] portH strP (fun _ h => (by cases h)) (hyps.1 L0 (by simp))
    (fun L hL => hyps.1 L (by simp only [List.mem_singleton] at hL; simp [hL])) (Or.inl rfl)
    hyps.2.1 hyps.2.2.1 rfl 6 (by decide)

end Ex2

/-! #### non-vacuity: the other ways of holding a struct, and "unset" as "zero" -/
namespace Ex3
open Ex2 (tags)

/-- `Port int` with `dials:"port" dialsalias:"oldport"`: a field of an element struct is not pointerified -/
def portH : Hdr := { name := "Port", tags := [("dials", "port"), ("dialsalias", "oldport")] }
def intT : Ty := .basic (.int .int) false

/-- `Servers []struct{…}` -/
def L0 : Level :=
  { pre := [], hdr := { name := "Servers", tags := [] }, held := .slice, post := [], vpre := [], vpost := [] }
/-- `Listen struct{…}` held by value -/
def L1 : Level :=
  { pre := [], hdr := { name := "Listen", tags := [] }, held := .byValue, post := [], vpre := [], vpost := [] }
/-- `Pair [1]struct{…}` -/
def L2 : Level :=
  { pre := [], hdr := { name := "Pair", tags := [] }, held := .array 1, post := [], vpre := [], vpost := [] }

theorem top_layer :
    nestLayer [L0, L1, L2] ([] ++ [(portH, intT)] ++ []) =
      [({ name := "Servers", tags := [] },
        .slice (.struct (Fields.ofList
          [({ name := "Listen", tags := [] },
            .struct (Fields.ofList
              [({ name := "Pair", tags := [] }, .array 1 (.struct (Fields.ofList [(portH, intT)])))]))])))] := rfl

def vals (vp va : Val) : List Val := nestVals [L0, L1, L2] ([] ++ [vp, va] ++ [])
def res (c : Val) : List Val := nestVals [L0, L1, L2] ([] ++ [c] ++ [])

theorem vals_eq (vp va : Val) :
    vals vp va = [.list [.struct [.struct [.list [.struct [vp, va]]]]]] := rfl

theorem hyps : ∀ L ∈ [L0, L1, L2], L.WF tags := by
  intro L hL
  simp only [List.mem_cons, List.not_mem_nil, or_false] at hL
  rcases hL with rfl | rfl | rfl <;>
    exact ⟨fun _ h => (by cases h), fun _ h => (by cases h), by unfold NoAliasTag; decide, rfl, rfl⟩

/-- `C14_patterns_at_depth` below a slice, a by-value struct and an array: fuel `8 = 2 * 3 + 2` -/
theorem patterns (vp va : Val) :
    let run := unmangleLayer 8 (aliasMangler tags) (nestLayer [L0, L1, L2] ([] ++ [(portH, intT)] ++ []))
      (vals vp va)
    (isUnsetAt intT vp = false → isUnsetAt intT va = true → run = .ok (res vp)) ∧
    (isUnsetAt intT vp = true → isUnsetAt intT va = false → run = .ok (res va)) ∧
    (isUnsetAt intT vp = true → isUnsetAt intT va = true → run = .ok (res vp)) ∧
    (isUnsetAt intT vp = false → isUnsetAt intT va = false →
      run = .err ("both alias and original set for field " ++ portH.name)) :=
  C14_patterns_at_depth tags [L0, L1, L2] [] [] portH intT "dials" "oldport" [] [] vp va
    hyps (fun _ h => (by cases h)) (fun _ h => (by cases h)) (by decide) (by decide) rfl rfl rfl 8 (by decide)

/-- by plain evaluation; "unset" is the zero value here -/
theorem computed :
    let run := fun vp va => unmangleLayer 8 (aliasMangler tags)
      (nestLayer [L0, L1, L2] ([] ++ [(portH, intT)] ++ [])) (vals vp va)
    run (.i 8080) (.i 0) = .ok (res (.i 8080)) ∧
    run (.i 0) (.i 80) = .ok (res (.i 80)) ∧
    run (.i 0) (.i 0) = .ok (res (.i 0)) ∧
    run (.i 8080) (.i 80) = .err "both alias and original set for field Port" :=
  ⟨rfl, rfl, rfl, rfl⟩

/-- `C14_collection_elements_independent` by evaluation: three elements of `Servers []struct{ Port int (aliased) }`
— primary set, alias set, neither — resolve one by one; with a fourth element that has both set the pass fails -/
theorem elements :
    let layer : List FT := [({ name := "Servers", tags := [] }, Held.slice.ty (Fields.ofList [(portH, intT)]))]
    unmangleLayer 5 (aliasMangler tags) layer
        [.list [.struct [.i 1, .i 0], .struct [.i 0, .i 2], .struct [.i 0, .i 0]]] =
      .ok [.list [.struct [.i 1], .struct [.i 2], .struct [.i 0]]] ∧
    unmangleLayer 5 (aliasMangler tags) layer
        [.list [.struct [.i 1, .i 0], .struct [.i 0, .i 2], .struct [.i 0, .i 0], .struct [.i 3, .i 4]]] =
      .err "both alias and original set for field Port" :=
  ⟨rfl, rfl⟩

end Ex3

end Dials.C14
