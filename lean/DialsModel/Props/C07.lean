/-
C07 — A blocking report returns only after its value is stacked (or rejected).

Property theorems only (helper lemmas and invariants live in Lemmas/RuntimeEnable.lean).
-/
import DialsModel.Model.RuntimeSpec
import DialsModel.Lemmas.RuntimeEnable

namespace Dials.C07
open Dials Dials.Runtime

/-- When the monitor answers blocking reporter `c` with nil, then since it received that report it has
installed exactly one version, whose slot for the reporting source holds the reported value. -/
theorem C07_nil_after_store {W : World} {P : Params} {sl : Slots} {w : List Bool} {s : State}
    (hr : Reachable W P sl w s) (l1 l2 : List Obs) (c : Nat) (h : s.log = l1 ++ Obs.replied c .okNil :: l2) :
    ∃ l2a l2b src v ver skip, l2 = l2a ++ Obs.gotUpd src v (some c) :: l2b ∧
      l2a.all (fun o => !isGotUpd o) = true ∧ l2a.filter isInstall = [Obs.install ver skip] ∧
      (src < ver.cfg.length → ver.cfg[src]? = some v) := by
  exact ((InvC.reachable hr).log.split l1 _ l2 h).1 rfl

/-- When it answers with an error, nothing was installed since it received that report (the view is
unchanged), and the error is the stacking or verification error of that value. -/
theorem C07_err_view_unchanged {W : World} {P : Params} {sl : Slots} {w : List Bool} {s : State}
    (hr : Reachable W P sl w s) (l1 l2 : List Obs) (c : Nat) (r : Res) (hne : r ≠ .okNil)
    (h : s.log = l1 ++ Obs.replied c r :: l2) :
    ∃ l2a l2b src v k, l2 = l2a ++ Obs.gotUpd src v (some c) :: l2b ∧
      l2a.all (fun o => !isGotUpd o) = true ∧ l2a.filter isInstall = [] ∧
      Obs.reject k (some c) ∈ l2a ∧ r = (match k with | .stack => Res.errStack | _ => Res.errVerify) := by
  obtain ⟨l2a, l2b, src, v, k, h1, h2, h3, h4, h5⟩ := ((InvC.reachable hr).log.split l1 _ l2 h).2 hne
  refine ⟨l2a, l2b, src, v, k, h1, h2, h3, h4, ?_⟩
  rw [h5]
  cases k <;> rfl

/-- The reporter (if still waiting) is woken with exactly that answer; a reporter that is waiting is
never answered before the monitor's reply step. -/
theorem C07_reporter_gets_answer (W : World) (s s' : State) (ch : Nat) (old : Slots) (c ctx : Nat)
    (hm : s.mon = .replyOk old c) (hc : getC s.clients c = .waitReply ctx)
    (h : step W s (.runMon ch) = some s') : getC s'.clients c = .returned .okNil ∧ s'.view = s.view := by
  simp only [step, runMon, hm, Option.some.injEq] at h
  subst h
  simp [replyTo, hc, State.ret, getC_setC_self]

/-- A blocked reporter whose context ends returns a context error (before or after submission). -/
theorem C07_ctx (s : State) (c ctx : Nat) (m : Msg)
    (hc : getC s.clients c = .waitReply ctx ∨ getC s.clients c = .sendW m ctx) :
    getC (cancelCtx s ctx).clients c = .returned .ctxErr := by
  have key : ∀ s' : State, s'.clients = s.clients.map (fun p =>
      match p.2 with
      | .sendW _ k => if k == ctx then (p.1, .returned .ctxErr) else p
      | .waitReply k => if k == ctx then (p.1, .returned .ctxErr) else p
      | .sendCb (.unreg _ _ _) k => if k == ctx then (p.1, .returned .unregFalse) else p
      | .sendCb _ k => if k == ctx then (p.1, .returned .regFail) else p
      | .waitDone k => if k == ctx then (p.1, .returned .unregFalse) else p
      | .sendCtl k => if k == ctx then (p.1, .returned .ctxErr) else p
      | .waitResp k => if k == ctx then (p.1, .returned .ctxErr) else p
      | _ => p) → getC s'.clients c = .returned .ctxErr := by
    intro s' hs'
    rw [hs', getC_map]
    · rcases hc with hc | hc
      · obtain ⟨p, hp, hp2⟩ := getC_eq_find hc (by simp)
        simp [hp, hp2]
      · obtain ⟨p, hp, hp2⟩ := getC_eq_find hc (by simp)
        simp [hp, hp2]
    · intro p
      split <;> (try split) <;> rfl
  apply key
  unfold cancelCtx
  dsimp only
  split <;> rfl

/-- The monitor is never left blocked on the caller: its reply steps are always enabled, whatever the
caller did meanwhile (the reply channels have capacity one and are written once). -/
theorem C07_monitor_never_blocks (W : World) (s : State) (ch : Nat)
    (hm : (∃ old c, s.mon = .replyOk old c) ∨ (∃ k c, s.mon = .replyErr k c) ∨ (∃ c tok ok noop, s.mon = .enableReply c tok ok noop)) :
    ∃ s', step W s (.runMon ch) = some s' ∧ s'.mon ≠ s.mon := by
  rcases hm with ⟨old, c, hm⟩ | ⟨k, c, hm⟩ | ⟨c, tok, ok, noop, hm⟩
  · simp [step, runMon, hm]
  · simp [step, runMon, hm]
  · simp [step, runMon, hm]

/-- F6s: between receiving a report and answering it the monitor performs at most one event submission (the
`.submitErr` step before `.replyErr`); in the code that submission is the non-blocking `submitEvent`, so a full
callback queue cannot keep the answer from the reporter. -/
theorem C07_answer_does_not_wait_for_queue :
    Facts.monitorBlockingSubmits = 0 ∧ Facts.submitEventHasDefault = true := by
  decide

theorem C07_reply_capacity : Facts.capInstalled = 1 ∧ Facts.capResp = 1 ∧ Facts.capWatcher = 0 := by
  decide

/-- After the monitor's nil answer the view is the reported stack unless a later report superseded it:
at the reply step itself the view is the stack of the latest values. -/
theorem C07_view_at_reply {W : World} {P : Params} {sl : Slots} {w : List Bool} {s : State}
    (hr : Reachable W P sl w s) (old : Slots) (c : Nat) (hm : s.mon = .replyOk old c) :
    s.view.cfg = s.slots ∧ 1 ≤ s.view.serial := by
  have hpc := (InvC.reachable hr).pc
  rw [hm] at hpc
  exact ⟨hpc.1, hpc.2.1⟩

end Dials.C07
