/-
C08 — No deadlock, crash or leak in any interleaving; clean shutdown.

What the model can carry: every parked goroutine always has an enabled step (no library wait without
an exit), the monitor's progress never depends on the callback goroutine (a callback that blocks
forever does not stop installs), both goroutines run to completion once the Config context is
cancelled or every watcher is done, and API calls made after shutdown fail instead of panicking
or blocking past their context.  Real goroutine exit and scheduler fairness are runtime facts
checked by the correspondence harness (goroutine dumps), not provable here.
-/
import DialsModel.Model.RuntimeSpec
import DialsModel.Lemmas.RuntimeProgress

namespace Dials.C08
open Dials Dials.Runtime

/-- run the monitor `n` times, always taking select choice 0 -/
def monSteps (W : World) : Nat → State → Option State
  | 0, s => some s
  | n + 1, s => (step W s (.runMon 0)).bind (monSteps W n)

/-- run the callback goroutine `n` times -/
def cbSteps (W : World) : Nat → State → Option State
  | 0, s => some s
  | n + 1, s => (step W s .runCb).bind (cbSteps W n)

/-- A parked monitor can always take a step: no monitor step waits for another goroutine
(replies and callback events never block; at the top of the loop it blocks only in its select). -/
theorem C08_monitor_step_enabled (W : World) (s : State) (hm : s.mon ≠ .sel ∧ s.mon ≠ .finished) :
    ∃ s', step W s (.runMon 0) = some s' := by
  obtain ⟨h1, h2⟩ := hm
  simp only [step, runMon]
  split
  · cases hins : readyIns s with
    | nil => exact ⟨_, rfl⟩
    | cons i rest => exact ⟨_, rfl⟩
  all_goals first
    | contradiction
    | exact ⟨_, rfl⟩
    | (split <;> first | exact ⟨_, rfl⟩ | (split <;> exact ⟨_, rfl⟩))

/-- The callback goroutine, when parked, can always take a step. -/
theorem C08_cb_step_enabled {W : World} {P : Params} {sl : Slots} {w : List Bool} {s : State}
    (hr : Reachable W P sl w s) (hc : s.cb ≠ .sel ∧ s.cb ≠ .finished) : ∃ s', step W s .runCb = some s' := by
  have hi := CbInv_reachable hr
  obtain ⟨h1, h2⟩ := hc
  simp only [step, runCb]
  split
  · split
    · exact ⟨_, rfl⟩
    · split <;> exact ⟨_, rfl⟩
  · split <;> exact ⟨_, rfl⟩
  · exact ⟨_, rfl⟩
  · exact ⟨_, rfl⟩
  · next ev heq => exact absurd heq (hi.1 ev)
  · exact ⟨_, rfl⟩
  · contradiction
  · contradiction

/-- A client that is ready to make its call can always make it (it may then block, never crash). -/
theorem C08_client_step_enabled (W : World) (s : State) (c : Nat) (op : Op) (ctx : Nat)
    (hc : getC s.clients c = .ready op ctx) : ∃ s', step W s (.runClient c 0) = some s' := by
  simp only [step, runClient, hc]
  cases op <;> simp only []
  all_goals first
    | exact ⟨_, rfl⟩
    | (split <;> first | exact ⟨_, rfl⟩ | (split <;> first | exact ⟨_, rfl⟩ | (split <;> exact ⟨_, rfl⟩)))

/-- A monitor step never looks at what the callback goroutine is doing beyond whether its queue has
room: a callback that never returns (the callback goroutine parked inside `calls`) cannot stop a
pending good update from being installed and viewed.  Concretely: from a state where the monitor
waits in its select and a reporter offers a value whose stack is good, at most three monitor steps
install it, whatever the callback goroutine's state is, and without touching it. -/
theorem C08_install_despite_blocked_cb (W : World) (s : State) (c src v ctx : Nat) (blocking : Bool)
    (hm : s.mon = .sel) (hc : getC s.clients c = .ready (.report src v blocking) ctx)
    (hctx : s.isCancelled ctx = false)
    (hs : W.stackOk (setSlot s.slots src v) = true)
    (hv : s.skipVerify = true ∨ W.valid (setSlot s.slots src v) = true) :
    ∃ n s1 s2, n ≤ 3 ∧ step W s (.runClient c 0) = some s1 ∧ monSteps W n s1 = some s2 ∧
      s2.view = ⟨Facts.nextSerial s.view.serial, setSlot s.slots src v⟩ ∧
      s1.cb = s.cb ∧ s2.cb = s.cb ∧ s2.cbch = s.cbch := by
  have hms := iterStep_unique W (.runMon 0) (monSteps W) (fun _ => rfl) (fun _ _ => rfl)
  have e1 : step W s (.runClient c 0) =
      some (monTake (s.setClient c (.sendW (.value src v (if blocking then some c else none)) ctx))
        (.msg c (.value src v (if blocking then some c else none)))) := by
    simp only [step, runClient, hc, offerW, hm, hctx]
    rfl
  obtain ⟨m1, c1, q1, sl1, v1, sk1⟩ :=
    monTake_value (s.setClient c (.sendW (.value src v (if blocking then some c else none)) ctx)) c src v
      (if blocking then some c else none)
  simp only [setClient_cb, setClient_cbch, setClient_slots, setClient_view, setClient_skipVerify] at c1 q1 sl1 v1 sk1
  obtain ⟨n, s2, hn, e2, hv2, hc2, hq2⟩ := install_chain W _ src v _ m1 (by rw [sl1]; exact hs)
    (by rw [sl1, sk1]; exact hv)
  refine ⟨n, _, s2, hn, e1, by rw [hms]; exact e2, ?_, c1, ?_, ?_⟩
  · rw [hv2, v1, sl1]
  · rw [hc2, c1]
  · rw [hq2, q1]

/-- Shutdown of the monitor: once the Config context is cancelled, a monitor that is between updates
exits within two steps and signals monDone. -/
theorem C08_monitor_exits_on_cancel (W : World) (s : State) (hm : s.mon = .top ∨ s.mon = .sel) :
    ∃ n s', n ≤ 2 ∧ monSteps W n (cancelCtx s 0) = some s' ∧ s'.mon = .finished ∧ s'.monDone = true := by
  rcases hm with hm | hm
  · have h1 : (cancelCtx s 0).mon = .top := by rw [cancelCtx_mon, hm]; rfl
    have h2 := cancelCtx_isCancelled s 0
    have h3 : ∃ rest, readyIns (cancelCtx s 0) = MonIn.ctx :: rest := by
      simp only [readyIns, h2]; exact ⟨_, rfl⟩
    obtain ⟨rest, h3⟩ := h3
    obtain ⟨t', e, hf, hd⟩ := runMon_exit W { cancelCtx s 0 with mon := .exit } 0 rfl
    refine ⟨2, t', Nat.le_refl _, ?_, hf, hd⟩
    have e1 : step W (cancelCtx s 0) (.runMon 0) = some { cancelCtx s 0 with mon := .exit } := by
      simp only [step, runMon, h1, h3]; rfl
    have e2 : step W { cancelCtx s 0 with mon := .exit } (.runMon 0) = some t' := e
    simp only [monSteps, e1, e2, Option.bind_some]
  · have h1 : (cancelCtx s 0).mon = .exit := by rw [cancelCtx_mon, hm]; rfl
    obtain ⟨t', e, hf, hd⟩ := runMon_exit W _ 0 h1
    refine ⟨1, t', by omega, ?_, hf, hd⟩
    simp only [monSteps, step, e]; rfl

/-- … and from any monitor pc it is back at the top of its loop (or has exited) within eight steps. -/
theorem C08_monitor_returns_to_top (W : World) (s : State) (hm : s.mon ≠ .sel ∧ s.mon ≠ .finished)
    (hnoin : readyIns s = []) :
    ∃ n s', n ≤ 8 ∧ monSteps W n s = some s' ∧ (s'.mon = .sel ∨ s'.mon = .finished) := by
  have _ := hm
  have hms := iterStep_unique W (.runMon 0) (monSteps W) (fun _ => rfl) (fun _ _ => rfl)
  obtain ⟨k, s', hk, e, hfin⟩ := mon_returns W 7 s (monRank_le _) (NoIn_of_readyIns hnoin)
  exact ⟨k, s', by omega, by rw [hms]; exact e, hfin⟩

/-- When the last watching source calls Done the monitor exits. -/
theorem C08_monitor_exits_when_all_done (W : World) (s s' : State) (src : Nat)
    (hm : s.mon = .gotDone src) (hall : (setFalse s.watching src).any id = false)
    (h : step W s (.runMon 0) = some s') : s'.mon = .exit := by
  simp only [step, runMon, hm, hall] at h
  simp at h
  rw [← h]

/-- Shutdown of the callback goroutine: after monDone, if callbacks return, it drains its queue and
exits; `cbFuel` steps suffice. -/
def cbFuel (s : State) : Nat :=
  (s.cbch.length + 1) * (s.handles.length + s.cbch.length + 4) + 4 +
    (match s.cb with | .calls cs _ => cs.length | _ => 0)

theorem C08_cb_exits_after_mon_done {W : World} {P : Params} {sl : Slots} {w : List Bool} {s : State}
    (hr : Reachable W P sl w s) (hd : s.monDone = true) (hq : ∀ p ∈ s.clients, ∀ ev ctx, p.2 ≠ .sendCb ev ctx) :
    ∃ n s', n ≤ cbFuel s ∧ cbSteps W n s = some s' ∧ s'.cb = .finished := by
  have hcs := iterStep_unique W .runCb (cbSteps W) (fun _ => rfl) (fun _ _ => rfl)
  have hdr : Drain s := ⟨hd, fun p hp ev ctx => hq p hp ev ctx⟩
  obtain ⟨n, s', hn, e, hfin⟩ := cb_exits W s (CbInv_reachable hr) hdr
  exact ⟨n, s', hn, by rw [hcs]; exact e, hfin⟩

/-- API calls after shutdown: register and unregister (also a second time) fail at once instead of
panicking. -/
theorem C08_late_register_unregister (W : World) (s : State) (c ctx : Nat) (op : Op)
    (hd : s.monDone = true) (hc : getC s.clients c = .ready op ctx)
    (hop : (∃ h ser cfg, op = .register h ser cfg) ∨ (∃ h, op = .unregister h)) :
    ∃ s', step W s (.runClient c 0) = some s' ∧
      (getC s'.clients c = .returned .regFail ∨ getC s'.clients c = .returned .unregFalse) ∧
      s'.cbch = s.cbch ∧ s'.handles = s.handles := by
  rcases hop with ⟨h, ser, cfg, rfl⟩ | ⟨h, rfl⟩
  · refine ⟨s.ret c .regFail, ?_, Or.inl ?_, rfl, rfl⟩
    · simp only [step, runClient, hc, offerCb, hd, if_true]
    · simp only [ret_clients, getC_setC_self]
  · refine ⟨s.ret c .unregFalse, ?_, Or.inr ?_, rfl, rfl⟩
    · simp only [step, runClient, hc, offerCb, hd, if_true]
    · simp only [ret_clients, getC_setC_self]

/-- Every blocked API call returns a failure indication when its context ends. -/
theorem C08_blocked_returns_on_ctx (s : State) (c ctx : Nat)
    (hc : ∃ st, getC s.clients c = st ∧ (st = .waitReply ctx ∨ st = .waitDone ctx ∨ st = .sendCtl ctx ∨ st = .waitResp ctx ∨
      (∃ m, st = .sendW m ctx) ∨ (∃ ev, st = .sendCb ev ctx))) :
    ∃ r, getC (cancelCtx s ctx).clients c = .returned r ∧ (r = .ctxErr ∨ r = .regFail ∨ r = .unregFalse) := by
  obtain ⟨st, hst, hcases⟩ := hc
  have hne : getC s.clients c ≠ .idle := by
    rw [hst]
    rcases hcases with h | h | h | h | ⟨m, h⟩ | ⟨ev, h⟩ <;> rw [h] <;> exact fun e => CSt.noConfusion e
  rw [cancelCtx_clients, getC_map_of_ne_idle _ (wake_fst ctx) _ _ hne, hst]
  rcases hcases with h | h | h | h | ⟨m, h⟩ | ⟨ev, h⟩ <;> subst h
  · exact ⟨.ctxErr, by simp [wake], Or.inl rfl⟩
  · exact ⟨.unregFalse, by simp [wake], Or.inr (Or.inr rfl)⟩
  · exact ⟨.ctxErr, by simp [wake], Or.inl rfl⟩
  · exact ⟨.ctxErr, by simp [wake], Or.inl rfl⟩
  · exact ⟨.ctxErr, by simp [wake], Or.inl rfl⟩
  · cases ev with
    | unreg h c' tok => exact ⟨.unregFalse, by simp [wake], Or.inr (Or.inr rfl)⟩
    | newCfg a b d => exact ⟨.regFail, by simp [wake], Or.inr (Or.inl rfl)⟩
    | watchErr a b d => exact ⟨.regFail, by simp [wake], Or.inr (Or.inl rfl)⟩
    | reg a b d => exact ⟨.regFail, by simp [wake], Or.inr (Or.inl rfl)⟩

/-- When the monitor exits, everyone waiting on the callback queue or on an unregistration is
released with a failure, and the callback goroutine is told to finish. -/
theorem C08_exit_releases_waiters (W : World) (s s' : State) (hm : s.mon = .exit)
    (h : step W s (.runMon 0) = some s') :
    s'.monDone = true ∧ s'.mon = .finished ∧
    (∀ p ∈ s'.clients, ∀ ev ctx, p.2 ≠ .sendCb ev ctx ∧ p.2 ≠ .waitDone ctx) ∧ (s.cb = .sel → s'.cb = .exit) := by
  simp only [step, runMon, hm, Option.some.injEq] at h
  subst h
  refine ⟨rfl, rfl, ?_, ?_⟩
  · intro p hp ev ctx
    simp only [logAdd_clients, List.mem_map] at hp
    obtain ⟨q, _, rfl⟩ := hp
    split <;> simp_all
  · intro hcb
    simp only [logAdd_cb, hcb]

/-- F6e: the stacking-error branch of the monitor's update handling cannot panic on the nil interface that
`compose` returns next to its error (every type assertion there has the two-value form).  The model's `.gotValue`
step goes from a failed stack straight to the submission of the error event; this is the part of that step the
model does not exhibit. -/
theorem C08_stack_error_branch_cannot_panic : Facts.stackErrAssertCommaOk = true := by
  decide

/-- F6s: `C08_monitor_step_enabled` holds because every event the monitor hands to the callback goroutine goes
through the model's `trySubmit`, a step that is enabled whatever the queue holds.  This is its regenerated tie: on the
monitor goroutine (`monitor`, `updateSourceValue`) the code submits through `submitEvent` at the model's four
submission steps (stacking error, verification error, new config, source error), never through
`submitEventBlocking` or a bare send, and `submitEvent`'s send sits in a `select` with a `default` case. -/
theorem C08_monitor_submissions_never_wait :
    Facts.monitorSubmits = 4 ∧ Facts.monitorBlockingSubmits = 0 ∧ Facts.submitEventHasDefault = true := by
  decide

/-- regenerated capacities (F3) -/
theorem C08_capacities : Facts.capCbch = 64 ∧ Facts.capMonCtl = 3 ∧ Facts.capEvents = 1 := by
  decide

/-- regenerated fact F3c: the model has no "close the callback queue" step - a send by a client (register, unregister)
can therefore never hit a closed channel in it.  The code matches: the queue has several senders and is closed nowhere;
the monitor announces its exit by closing `monDone`, once. -/
theorem C08_callback_queue_is_never_closed : Facts.callbackQueueCloses = 0 ∧ Facts.monDoneCloses = 1 := ⟨rfl, rfl⟩

/-- regenerated fact F4u (repaired defect P20): the model identifies a report's slot by its index; the code does it by
comparing Source values, which is only total - and never a crash of the monitor - because Config lets a pointer stand in
for every source of an uncomparable type before the source is stored and watched. -/
theorem C08_slots_are_comparable : Facts.uncomparableSourcesWrapped = true := rfl

end Dials.C08
